(** Property C14: every simple heuristic of the model computes exactly what its textbook
    rule (Spec/Rules.v) prescribes.
    Part 1: the model's output satisfies the rule (refinement).
    Part 2: the rules are deterministic up to the observable the property names.
    Part 3: corollaries "the model agrees with ANY run of the rule".
    Everything is on plain values: A = Z, valueof = id, keep = true. *)
From Prtpy Require Import Base.Prelude Model.Binner Model.Greedy Model.Packing Model.Covering
  Spec.Rules Proofs.BaseLemmas Proofs.BinnerLemmas.
From Coq Require Import Sorting.Sorted ZifyBool.

(** [id] below is the standard library identity [@id Z] (Coq.Init.Datatypes.id), i.e. [fun v : Z => v]. *)

(** ================= common facts linking [bins Z] and [vbins] ================= *)

Lemma map_id' (l : list Z) : map id l = l.
Proof. unfold id. apply map_id. Qed.

Lemma wf_bin_id (bn : bin Z) : wf_bin id bn <-> fst bn = zsum (snd bn).
Proof. unfold wf_bin. rewrite map_id'. reflexivity. Qed.

Lemma sums_vsums (b : bins Z) : wf id b -> sums b = vsums (lists b).
Proof.
  unfold wf, sums, vsums, lists. induction 1 as [|bn t Hb Ht IH]; cbn [map]; [reflexivity|].
  apply wf_bin_id in Hb. rewrite Hb, IH. reflexivity.
Qed.

Lemma lists_length (b : bins Z) : length (lists b) = length b.
Proof. apply map_length. Qed.

Lemma vsums_length (b : vbins) : length (vsums b) = length b.
Proof. apply map_length. Qed.

Lemma lists_add_item (b : bins Z) v i : lists (add_item id true b v i) = put i v (lists b).
Proof. unfold lists, add_item, put. apply map_update. intros bn. reflexivity. Qed.

Lemma lists_app (b1 b2 : bins Z) : lists (b1 ++ b2) = lists b1 ++ lists b2.
Proof. apply map_app. Qed.

Lemma lists_new_bins k : lists (@new_bins Z k) = repeat [] k.
Proof. unfold lists, new_bins. induction k as [|k IH]; cbn [repeat map]; [reflexivity|]. rewrite IH. reflexivity. Qed.

Lemma vsums_put i v (b : vbins) : vsums (put i v b) = update i (fun s => s + v) (vsums b).
Proof.
  unfold vsums, put. apply map_update. intros l. rewrite zsum_app. cbn [zsum fold_right]. lia.
Qed.

Lemma vsums_app (b1 b2 : vbins) : vsums (b1 ++ b2) = vsums b1 ++ vsums b2.
Proof. apply map_app. Qed.

Lemma nth_vsums i (b : vbins) : nth i (vsums b) 0 = zsum (nth i b []).
Proof. unfold vsums. change 0 with (zsum []). apply map_nth. Qed.

Lemma nth_lists i (b : bins Z) : nth i (lists b) [] = snd (nth i b empty_bin).
Proof. unfold lists. change (@nil Z) with (snd (@empty_bin Z)). apply map_nth. Qed.

Lemma sort_desc_nonincreasing vs : nonincreasing (sort_desc id vs).
Proof. exact (sort_desc_sorted id vs). Qed.

Lemma perm_nonnil {T} (l1 l2 : list T) : Permutation l1 l2 -> l2 <> [] -> l1 <> [].
Proof. intros P H E. subst l1. apply Permutation_nil in P. auto. Qed.

(** ================= PART 1: refinement ================= *)

(** ---- greedy = LPT ---- *)

Lemma greedy_fold_ls l : forall b : bins Z, (1 <= length b)%nat -> wf id b ->
  list_scheduling l (lists b) (lists (fold_left (greedy_step id true) l b)).
Proof.
  induction l as [|v t IH]; intros b Hlen Hwf; cbn [fold_left].
  - apply ls_nil.
  - assert (Hne : sums b <> []).
    { unfold sums. destruct b; cbn [map length] in *; [lia|discriminate]. }
    destruct (argmin_spec (sums b) Hne) as (H1 & H2 & _).
    apply ls_cons with (i := argmin (sums b)).
    + unfold least_loaded. rewrite lists_length, <- sums_vsums by exact Hwf.
      split; [|exact H2]. unfold sums in H1. rewrite map_length in H1. exact H1.
    + rewrite <- lists_add_item. apply IH.
      * unfold greedy_step. rewrite add_item_length. exact Hlen.
      * unfold greedy_step. apply add_item_wf. exact Hwf.
Qed.

Theorem greedy_refines_lpt : forall k vs, (1 <= k)%nat -> lpt_rule k vs (lists (greedy id true k vs)).
Proof.
  intros k vs Hk. exists (sort_desc id vs). split; [apply sort_desc_perm|].
  split; [apply sort_desc_nonincreasing|].
  unfold greedy. rewrite <- lists_new_bins. apply greedy_fold_ls.
  - rewrite new_bins_length. exact Hk.
  - apply new_bins_wf.
Qed.

Lemma greedy_wf k vs : wf id (greedy id true k vs).
Proof.
  unfold greedy. generalize (sort_desc id vs) as l. generalize (new_bins_wf id k).
  generalize (@new_bins Z k) as b. intros b Hb l. revert b Hb.
  induction l as [|v t IH]; intros b Hb; cbn [fold_left]; [exact Hb|].
  apply IH. unfold greedy_step. apply add_item_wf. exact Hb.
Qed.

(** ---- first-fit ---- *)

Lemma ff_step_cons C v l0 b b' :
  ~ fits C v l0 -> ff_step C v b b' -> ff_step C v (l0 :: b) (l0 :: b').
Proof.
  intros Hno H. destruct H as [b i Hi Hfit Hmin|b Hall].
  - change (l0 :: put i v b) with (put (S i) v (l0 :: b)). apply ff_existing.
    + cbn [length]. lia.
    + exact Hfit.
    + intros [|j] Hj; cbn [nth]; [exact Hno|]. apply Hmin. lia.
  - change (l0 :: b ++ [[v]]) with ((l0 :: b) ++ [[v]]). apply ff_new. constructor; assumption.
Qed.

Lemma ff_place_ff_step C v (b : bins Z) : wf id b ->
  ff_step C v (lists b) (lists (ff_place id true C v b)).
Proof.
  induction 1 as [|bn t Hb Ht IH]; cbn [ff_place].
  - apply (ff_new C v []). constructor.
  - apply wf_bin_id in Hb. change (id v) with v. destruct (fst bn + v <=? C) eqn:E.
    + change (lists (add_to_bin id true v bn :: t)) with (put 0 v (lists (bn :: t))).
      apply ff_existing.
      * cbn [lists map length]. lia.
      * unfold fits. cbn [lists map nth]. lia.
      * intros j Hj. lia.
    + change (lists (bn :: ff_place id true C v t)) with (snd bn :: lists (ff_place id true C v t)).
      change (lists (bn :: t)) with (snd bn :: lists t).
      apply ff_step_cons; [|exact IH]. unfold fits. lia.
Qed.

Lemma ff_place_wf C v (b : bins Z) : wf id b -> wf id (ff_place id true C v b).
Proof.
  unfold wf. induction 1 as [|bn t Hb Ht IH]; cbn [ff_place].
  - constructor; [|constructor]. apply add_to_bin_wf; reflexivity.
  - destruct (fst bn + id v <=? C).
    + constructor; [|exact Ht]. apply add_to_bin_wf; [reflexivity|exact Hb].
    + constructor; [exact Hb|exact IH].
Qed.

Lemma ff_loop_run C vs : forall b b', wf id b -> ff_loop id true C vs b = Ok b' ->
  run_steps (ff_step C) vs (lists b) (lists b').
Proof.
  induction vs as [|v t IH]; intros b b' Hwf; cbn [ff_loop].
  - intros H. injection H as H. subst b'. apply rs_nil.
  - destruct (id v >? C); [intros H; discriminate H|]. intros H.
    apply rs_cons with (b1 := lists (ff_place id true C v b)).
    + apply ff_place_ff_step. exact Hwf.
    + apply IH; [apply ff_place_wf; exact Hwf|exact H].
Qed.

(** the model starts from one empty bin, the rule from no bin: they meet after the first item *)
Theorem ff_refines_rule_gen : forall C vs b, vs <> [] ->
  first_fit id true C vs = Ok b -> ff_rule C vs (lists b).
Proof.
  intros C [|v t] b Hne; [congruence|]. unfold first_fit, ff_rule, new_bins. cbn [repeat ff_loop].
  destruct (id v >? C) eqn:E; [intros H; discriminate H|]. unfold id in E.
  assert (Hp : ff_place id true C v [empty_bin] = [add_to_bin id true v empty_bin]).
  { unfold id, empty_bin. cbn [ff_place fst].
    destruct (0 + v <=? C) eqn:E2; [reflexivity|lia]. }
  rewrite Hp. intros H.
  apply rs_cons with (b1 := [] ++ [[v]]).
  - apply ff_new. constructor.
  - apply (ff_loop_run C t [add_to_bin id true v empty_bin] b); [|exact H].
    constructor; [|constructor]. apply add_to_bin_wf; reflexivity.
Qed.

Theorem ff_refines_rule : forall C vs b, vs <> [] -> Forall (fun v => 0 <= v <= C) vs ->
  first_fit id true C vs = Ok b -> ff_rule C vs (lists b).
Proof. intros C vs b Hne _. apply ff_refines_rule_gen. exact Hne. Qed.

Theorem ffd_refines_rule_gen : forall C vs b, vs <> [] ->
  first_fit_decreasing id true C vs = Ok b -> ffd_rule C vs (lists b).
Proof.
  intros C vs b Hne H. exists (sort_desc id vs). split; [apply sort_desc_perm|].
  split; [apply sort_desc_nonincreasing|]. apply ff_refines_rule_gen; [|exact H].
  apply perm_nonnil with (l2 := vs); [apply sort_desc_perm|exact Hne].
Qed.

Theorem ffd_refines_rule : forall C vs b, vs <> [] -> Forall (fun v => 0 <= v <= C) vs ->
  first_fit_decreasing id true C vs = Ok b -> ffd_rule C vs (lists b).
Proof. intros C vs b Hne _. apply ffd_refines_rule_gen. exact Hne. Qed.

(** on the empty input the model returns its initial empty bin, the rule no bin at all *)
Example ff_empty_input_differs :
  rmap lists (first_fit id true 5 []) = Ok [[]] /\ (forall b, ff_rule 5 [] b -> b = []).
Proof.
  split; [vm_compute; reflexivity|]. intros b H. inversion H; subst. reflexivity.
Qed.

(** ---- best-fit ---- *)

Definition nonneg_sums (b : bins Z) : Prop := Forall (fun bn => 0 <= fst bn) b.

(** full specification of the scan: either nothing beats [best], or the result is the
    first index among the fitting bins of maximal sum *)
Lemma bf_scan_spec C v (b : bins Z) : forall i best,
  let r := bf_scan C v b i best in
  (r = best /\ Forall (fun bn => fst bn + v <= C -> fst bn + v <= snd best) b) \/
  (exists j, fst r = Some (i + j)%nat /\ (j < length b)%nat /\
             snd r = fst (nth j b empty_bin) + v /\ snd r <= C /\ snd best < snd r /\
             Forall (fun bn => fst bn + v <= C -> fst bn + v <= snd r) b).
Proof.
  induction b as [|bn t IH]; intros i best; cbn [bf_scan]; cbv zeta.
  - left. split; [reflexivity|constructor].
  - destruct ((fst bn + v <=? C) && (snd best <? fst bn + v)) eqn:E.
    + destruct (IH (S i) (Some i, fst bn + v)) as [[H1 H2]|(j & H1 & H2 & H3 & H4 & H5 & H6)].
      * right. exists O. rewrite H1. cbn [fst snd nth length] in *.
        repeat split; try lia.
        -- f_equal. lia.
        -- constructor; [lia|exact H2].
      * right. exists (S j). cbn [fst snd nth length] in *. repeat split; try lia.
        -- rewrite H1. f_equal. lia.
        -- constructor; [lia|exact H6].
    + destruct (IH (S i) best) as [[H1 H2]|(j & H1 & H2 & H3 & H4 & H5 & H6)].
      * left. split; [exact H1|]. constructor; [lia|exact H2].
      * right. exists (S j). cbn [fst snd nth length] in *. repeat split; try lia.
        -- rewrite H1. f_equal. lia.
        -- constructor; [lia|exact H6].
Qed.

Lemma bf_place_bf_step C v (b : bins Z) : wf id b -> nonneg_sums b -> 0 <= v ->
  bf_step C v (lists b) (lists (bf_place id true C v b)).
Proof.
  intros Hwf Hnn Hv. unfold bf_place. change (id v) with v.
  assert (Hsum : forall j, (j < length b)%nat -> fst (nth j b empty_bin) = zsum (nth j (lists b) [])).
  { intros j Hj. rewrite nth_lists. apply wf_bin_id. unfold wf in Hwf. rewrite Forall_forall in Hwf.
    apply Hwf. apply nth_In. exact Hj. }
  destruct (bf_scan_spec C v b O (None, -1)) as [[H1 H2]|(j & H1 & H2 & H3 & H4 & H5 & H6)].
  - rewrite H1. cbn [fst snd] in *. rewrite lists_app. apply bf_new.
    unfold lists. rewrite Forall_map. unfold nonneg_sums in Hnn. unfold wf in Hwf.
    rewrite Forall_forall in *. intros bn Hin. specialize (H2 bn Hin). specialize (Hnn bn Hin).
    specialize (Hwf bn Hin). apply wf_bin_id in Hwf. unfold fits. lia.
  - rewrite H1. cbn [Nat.add]. rewrite lists_add_item. apply bf_existing.
    + rewrite lists_length. exact H2.
    + unfold fits. rewrite <- Hsum by exact H2. lia.
    + intros j' Hj' Hfit. rewrite lists_length in Hj'. unfold fits in Hfit.
      rewrite <- !Hsum by assumption. rewrite <- Hsum in Hfit by assumption.
      rewrite Forall_forall in H6. specialize (H6 (nth j' b empty_bin) (nth_In _ _ Hj')). lia.
Qed.

Lemma Forall_update {T} (P : T -> Prop) (f : T -> T) i l :
  (forall x, P x -> P (f x)) -> Forall P l -> Forall P (update i f l).
Proof.
  intros Hf H. revert i. induction H as [|x t Hx Ht IH]; intros [|j]; cbn [update];
    constructor; auto.
Qed.

Lemma bf_place_inv C v (b : bins Z) : wf id b -> nonneg_sums b -> 0 <= v ->
  wf id (bf_place id true C v b) /\ nonneg_sums (bf_place id true C v b).
Proof.
  intros Hwf Hnn Hv. unfold bf_place.
  destruct (fst (bf_scan C (id v) b 0 (None, -1))) as [i|].
  - split; [apply add_item_wf; exact Hwf|].
    unfold nonneg_sums, add_item. apply Forall_update; [|exact Hnn].
    intros bn Hbn. unfold add_to_bin, id. cbn [fst]. lia.
  - split.
    + unfold wf. apply Forall_app. split; [exact Hwf|]. constructor; [|constructor].
      apply add_to_bin_wf; reflexivity.
    + unfold nonneg_sums. apply Forall_app. split; [exact Hnn|]. constructor; [|constructor].
      unfold add_to_bin, empty_bin, id. cbn [fst]. lia.
Qed.

Lemma bf_loop_run C vs : forall b b', wf id b -> nonneg_sums b -> Forall (fun v => 0 <= v) vs ->
  bf_loop id true C vs b = Ok b' -> run_steps (bf_step C) vs (lists b) (lists b').
Proof.
  induction vs as [|v t IH]; intros b b' Hwf Hnn Hvs; cbn [bf_loop].
  - intros H. injection H as H. subst b'. apply rs_nil.
  - inversion Hvs as [|v' t' Hv Ht]; subst.
    destruct (id v >? C); [intros H; discriminate H|]. intros H.
    destruct (bf_place_inv C v b Hwf Hnn Hv) as [Hwf' Hnn'].
    apply rs_cons with (b1 := lists (bf_place id true C v b)).
    + apply bf_place_bf_step; assumption.
    + apply IH; assumption.
Qed.

Theorem bf_refines_rule_gen : forall C vs b, vs <> [] -> Forall (fun v => 0 <= v) vs ->
  best_fit id true C vs = Ok b -> bf_rule C vs (lists b).
Proof.
  intros C [|v t] b Hne Hvs; [congruence|]. inversion Hvs as [|v' t' Hv Ht]; subst.
  unfold best_fit, bf_rule, new_bins. cbn [repeat bf_loop].
  destruct (id v >? C) eqn:E; [intros H; discriminate H|]. unfold id in E.
  assert (Hp : bf_place id true C v [empty_bin] = [add_to_bin id true v empty_bin]).
  { unfold bf_place, id, empty_bin. cbn [bf_scan fst snd]. cbv zeta. cbn [fst snd].
    destruct ((0 + v <=? C) && (-1 <? 0 + v)) eqn:E2; [|lia]. reflexivity. }
  rewrite Hp. intros H.
  apply rs_cons with (b1 := [] ++ [[v]]).
  - apply bf_new. constructor.
  - apply (bf_loop_run C t [add_to_bin id true v empty_bin] b); [| |exact Ht|exact H].
    + constructor; [|constructor]. apply add_to_bin_wf; reflexivity.
    + constructor; [|constructor]. unfold add_to_bin, empty_bin, id. cbn [fst]. lia.
Qed.

Theorem bf_refines_rule : forall C vs b, vs <> [] -> Forall (fun v => 0 <= v <= C) vs ->
  best_fit id true C vs = Ok b -> bf_rule C vs (lists b).
Proof.
  intros C vs b Hne Hvs. apply bf_refines_rule_gen; [exact Hne|].
  eapply Forall_impl; [|exact Hvs]. cbv beta. intros v Hv. lia.
Qed.

Theorem bfd_refines_rule_gen : forall C vs b, vs <> [] -> Forall (fun v => 0 <= v) vs ->
  best_fit_decreasing id true C vs = Ok b -> bfd_rule C vs (lists b).
Proof.
  intros C vs b Hne Hvs H. exists (sort_desc id vs). split; [apply sort_desc_perm|].
  split; [apply sort_desc_nonincreasing|]. apply bf_refines_rule_gen; [| |exact H].
  - apply perm_nonnil with (l2 := vs); [apply sort_desc_perm|exact Hne].
  - eapply Permutation_Forall; [symmetry; apply sort_desc_perm|exact Hvs].
Qed.

Theorem bfd_refines_rule : forall C vs b, vs <> [] -> Forall (fun v => 0 <= v <= C) vs ->
  best_fit_decreasing id true C vs = Ok b -> bfd_rule C vs (lists b).
Proof.
  intros C vs b Hne Hvs. apply bfd_refines_rule_gen; [exact Hne|].
  eapply Forall_impl; [|exact Hvs]. cbv beta. intros v Hv. lia.
Qed.

Example bf_empty_input_differs :
  rmap lists (best_fit id true 5 []) = Ok [[]] /\ (forall b, bf_rule 5 [] b -> b = []).
Proof.
  split; [vm_compute; reflexivity|]. intros b H. inversion H; subst. reflexivity.
Qed.

(** best-fit needs non-negative values: the scan starts from best sum -1, so a bin whose new
    sum would be <= -1 is never chosen although the item fits *)
Example bf_negative_value_differs :
  rmap lists (best_fit id true 5 [-2]) = Ok [[]; [-2]] /\ ~ bf_rule 5 [-2] [[]; [-2]].
Proof.
  split; [vm_compute; reflexivity|]. intros H. unfold bf_rule in H.
  inversion H as [|v t b0 b1 b2 Hs Hr]; subst. inversion Hr; subst.
  inversion Hs as [b i Hi Hfit Hmax|b Hall].
  - cbn [length] in Hi. lia.
Qed.

(** ---- next-fit-decreasing cover ---- *)

Notation cst := (cstate (A:=Z)).

Lemma add_to_bin_fst v (c : bin Z) : fst (add_to_bin id true v c) = fst c + v.
Proof. reflexivity. Qed.
Lemma add_to_bin_snd v (c : bin Z) : snd (add_to_bin id true v c) = snd c ++ [v].
Proof. reflexivity. Qed.

Lemma wf_bin_add v (c : bin Z) : wf_bin id c -> wf_bin id (add_to_bin id true v c).
Proof. apply add_to_bin_wf. reflexivity. Qed.

Lemma wf_bin_empty : wf_bin id (@empty_bin Z).
Proof. reflexivity. Qed.

Lemma wf_bin_sum (c : bin Z) v : wf_bin id c -> zsum (snd c ++ [v]) = fst c + v.
Proof. intros H. apply wf_bin_id in H. rewrite zsum_app, H. cbn [zsum fold_right]. lia. Qed.

Lemma cover_add_eq C (st : cst) v :
  cover_add id true C st v =
  if C <=? fst (snd st) + v then (fst st ++ [add_to_bin id true v (snd st)], empty_bin)
  else (fst st, add_to_bin id true v (snd st)).
Proof. unfold cover_add. cbv zeta. rewrite add_to_bin_fst, Z.geb_leb. reflexivity. Qed.

(** [dec_sub] is [next_fill] continuing in the current bin *)
Lemma dec_sub_next_fill C l : forall st : cst, wf_bin id (snd st) ->
  lists (fst (dec_sub id true C st l)) = lists (fst st) ++ fst (next_fill C l (snd (snd st))) /\
  snd (snd (dec_sub id true C st l)) = snd (next_fill C l (snd (snd st))) /\
  wf_bin id (snd (dec_sub id true C st l)).
Proof.
  unfold dec_sub. induction l as [|v t IH]; intros st Hwf; cbn [fold_left next_fill].
  - cbn [fst snd]. rewrite app_nil_r. auto.
  - rewrite cover_add_eq, (wf_bin_sum (snd st) v Hwf).
    destruct (C <=? fst (snd st) + v) eqn:E.
    + destruct (IH (fst st ++ [add_to_bin id true v (snd st)], empty_bin) wf_bin_empty) as (H1 & H2 & H3).
      cbn [fst snd] in H1, H2. change (snd (@empty_bin Z)) with (@nil Z) in H1, H2.
      destruct (next_fill C t []) as [bs last]. cbn [fst snd] in *.
      rewrite H1, H2, lists_app. cbn [lists map]. rewrite add_to_bin_snd, <- app_assoc.
      cbn [app]. auto.
    + destruct (IH (fst st, add_to_bin id true v (snd st)) (wf_bin_add v _ Hwf)) as (H1 & H2 & H3).
      cbn [fst snd] in H1, H2. rewrite add_to_bin_snd in H1, H2. auto.
Qed.

Theorem dec_refines_rule : forall C vs, nfd_cover_rule C vs (lists (cover_decreasing id true C vs)).
Proof.
  intros C vs. exists (sort_desc id vs). split; [apply sort_desc_perm|].
  split; [apply sort_desc_nonincreasing|]. unfold cover_decreasing.
  destruct (dec_sub_next_fill C (sort_desc id vs) ([], empty_bin) wf_bin_empty) as (H1 & _ & _).
  exact H1.
Qed.

(** ---- twothirds = bidirectional filling ---- *)

Lemma unsnoc_snoc {T} (r : list T) y : unsnoc (r ++ [y]) = Some (r, y).
Proof. unfold unsnoc. rewrite rev_app_distr. cbn [rev app]. rewrite rev_involutive. reflexivity. Qed.

Lemma unsnoc_nil {T} : unsnoc (@nil T) = None.
Proof. reflexivity. Qed.

Lemma snoc_cases {T} (l : list T) : l = [] \/ exists r y, l = r ++ [y].
Proof.
  induction l as [|y r _] using rev_ind; [left; reflexivity|right]. exists r, y. reflexivity.
Qed.

Lemma snoc_length {T} (r : list T) y : length (r ++ [y]) = S (length r).
Proof. rewrite app_length. cbn [length]. lia. Qed.

Lemma ffr_nil f C cur : fill_from_right f C cur [] = (cur, []).
Proof. destruct f as [|f]; cbn [fill_from_right rev]; [reflexivity|]. destruct (zsum cur <? C); reflexivity. Qed.

Lemma ffr_snoc f C cur r y :
  fill_from_right (S f) C cur (r ++ [y]) =
  if zsum cur <? C then fill_from_right f C (cur ++ [y]) r else (cur, r ++ [y]).
Proof.
  cbn [fill_from_right]. rewrite rev_app_distr. cbn [rev app]. rewrite rev_involutive. reflexivity.
Qed.

Lemma ffr_full f C cur rem : C <= zsum cur -> fill_from_right f C cur rem = (cur, rem).
Proof.
  intros H. destruct f as [|f]; cbn [fill_from_right]; [reflexivity|].
  destruct (zsum cur <? C) eqn:E; [lia|reflexivity].
Qed.

Lemma ffr_fuel C rem : forall cur f, (length rem <= f)%nat ->
  fill_from_right f C cur rem = fill_from_right (length rem) C cur rem.
Proof.
  induction rem as [|y r IH] using rev_ind; intros cur f Hf.
  - rewrite !ffr_nil. reflexivity.
  - rewrite snoc_length in *. destruct f as [|f]; [lia|]. rewrite !ffr_snoc.
    destruct (zsum cur <? C); [|reflexivity]. apply IH. lia.
Qed.

Lemma ffr_length C rem : forall cur f,
  (length (snd (fill_from_right f C cur rem)) <= length rem)%nat.
Proof.
  induction rem as [|y r IH] using rev_ind; intros cur f.
  - rewrite ffr_nil. cbn [snd length]. lia.
  - destruct f as [|f]; [cbn [fill_from_right snd]; lia|]. rewrite ffr_snoc.
    destruct (zsum cur <? C); [|cbn [snd]; lia].
    specialize (IH (cur ++ [y]) f). rewrite snoc_length. lia.
Qed.

Lemma bidir_nil F C : bidirectional F C [] = [].
Proof. destruct F; reflexivity. Qed.

Lemma bidir_fuel2 C : forall F1 F2 rem, (length rem <= F1)%nat -> (length rem <= F2)%nat ->
  bidirectional F1 C rem = bidirectional F2 C rem.
Proof.
  induction F1 as [|F1 IH]; intros F2 rem H1 H2.
  - destruct rem; [|cbn [length] in H1; lia]. rewrite !bidir_nil. reflexivity.
  - destruct rem as [|x t]; [rewrite !bidir_nil; reflexivity|].
    destruct F2 as [|F2]; [cbn [length] in H2; lia|]. cbn [bidirectional]. cbn [length] in H1, H2.
    pose proof (ffr_length C t [x] (length t)) as Hl.
    destruct (fill_from_right (length t) C [x] t) as [cur rem']. cbn [snd] in Hl.
    destruct (C <=? zsum cur); [|reflexivity]. f_equal. apply IH; lia.
Qed.

Lemma bidir_fuel C F rem : (length rem <= F)%nat ->
  bidirectional F C rem = bidirectional (length rem) C rem.
Proof. intros H. apply bidir_fuel2; lia. Qed.

(** what remains to be produced when the open bin holds [cur] and [rem] is left *)
Definition tt_spec (C : Z) (cur rem : list Z) : vbins :=
  let '(cur', rem') := fill_from_right (length rem) C cur rem in
  if C <=? zsum cur' then cur' :: bidirectional (length rem') C rem' else [].

Lemma tt_spec_nil C cur : zsum cur < C -> tt_spec C cur [] = [].
Proof.
  intros H. unfold tt_spec. rewrite ffr_nil. destruct (C <=? zsum cur) eqn:E; [lia|reflexivity].
Qed.

Lemma tt_spec_full C cur rem : C <= zsum cur ->
  tt_spec C cur rem = cur :: bidirectional (length rem) C rem.
Proof.
  intros H. unfold tt_spec. rewrite ffr_full by exact H.
  destruct (C <=? zsum cur) eqn:E; [reflexivity|lia].
Qed.

Lemma tt_spec_snoc C cur r y : zsum cur < C -> tt_spec C cur (r ++ [y]) = tt_spec C (cur ++ [y]) r.
Proof.
  intros H. unfold tt_spec. rewrite snoc_length, ffr_snoc.
  destruct (zsum cur <? C) eqn:E; [reflexivity|lia].
Qed.

Lemma bidir_cons C x t : bidirectional (S (length t)) C (x :: t) = tt_spec C [x] t.
Proof.
  cbn [bidirectional]. unfold tt_spec.
  pose proof (ffr_length C t [x] (length t)) as Hl.
  destruct (fill_from_right (length t) C [x] t) as [cur rem']. cbn [snd] in Hl.
  destruct (C <=? zsum cur); [|reflexivity]. f_equal. apply bidir_fuel. exact Hl.
Qed.

(** one step of the model's loop, in terms of [cover_add] *)
Lemma tt_loop_step f C (st : cst) fresh x t :
  tt_loop id true (S f) C st fresh (x :: t) =
  if fresh then
    tt_loop id true f C (cover_add id true C st x) (C <=? fst (snd st) + x) t
  else
    match unsnoc (x :: t) with
    | None => st
    | Some (r, y) => tt_loop id true f C (cover_add id true C st y) (C <=? fst (snd st) + y) r
    end.
Proof.
  cbn [tt_loop]. cbv zeta. destruct fresh.
  - rewrite cover_add_eq, add_to_bin_fst, Z.geb_leb. destruct (C <=? fst (snd st) + x); reflexivity.
  - destruct (unsnoc (x :: t)) as [[r y]|]; [|reflexivity].
    rewrite cover_add_eq, add_to_bin_fst, Z.geb_leb. destruct (C <=? fst (snd st) + y); reflexivity.
Qed.

Lemma tt_loop_nil f C (st : cst) fresh : tt_loop id true f C st fresh [] = st.
Proof. destruct f; reflexivity. Qed.

Lemma tt_loop_spec C : forall f (st : cst) fresh rem, (length rem <= f)%nat ->
  wf_bin id (snd st) ->
  (fresh = true -> snd st = empty_bin) -> (fresh = false -> fst (snd st) < C) ->
  lists (fst (tt_loop id true f C st fresh rem)) =
  lists (fst st) ++ (if fresh then bidirectional (length rem) C rem else tt_spec C (snd (snd st)) rem).
Proof.
  induction f as [|f IH]; intros st fresh rem Hlen Hwf Hfresh Hopen.
  - destruct rem; [|cbn [length] in Hlen; lia]. rewrite tt_loop_nil. destruct fresh.
    + rewrite bidir_nil, app_nil_r. reflexivity.
    + rewrite tt_spec_nil, app_nil_r; [reflexivity|]. apply wf_bin_id in Hwf.
      rewrite <- Hwf. auto.
  - destruct rem as [|x t].
    { rewrite tt_loop_nil. destruct fresh.
      + rewrite bidir_nil, app_nil_r. reflexivity.
      + rewrite tt_spec_nil, app_nil_r; [reflexivity|]. apply wf_bin_id in Hwf.
        rewrite <- Hwf. auto. }
    rewrite tt_loop_step. destruct fresh.
    + (* a fresh bin: the head (largest) item *)
      destruct st as [bs cur]. cbn [fst snd] in *.
      pose proof (Hfresh eq_refl) as Hc. subst cur. cbn [length] in Hlen.
      change (length (x :: t)) with (S (length t)).
      rewrite bidir_cons, cover_add_eq. cbn [fst snd].
      change (fst (@empty_bin Z)) with 0.
      destruct (C <=? 0 + x) eqn:E.
      * rewrite IH; cbn [fst snd]; auto; try lia; try discriminate; try exact wf_bin_empty.
        rewrite lists_app, <- app_assoc. cbn [lists map app].
        rewrite tt_spec_full; [reflexivity|]. cbn [zsum fold_right]. lia.
      * rewrite IH; cbn [fst snd]; auto; try lia; try discriminate; try exact wf_bin_empty.
        -- apply wf_bin_add. exact wf_bin_empty.
        -- intros _. rewrite add_to_bin_fst. change (fst (@empty_bin Z)) with 0. lia.
    + (* an open bin: the last (smallest) item *)
      destruct (snoc_cases (x :: t)) as [E0|(r & y & E0)]; [discriminate E0|].
      rewrite E0 in *. rewrite snoc_length in Hlen. rewrite unsnoc_snoc.
      specialize (Hopen eq_refl). pose proof Hwf as Hs. apply wf_bin_id in Hs.
      rewrite tt_spec_snoc by lia. rewrite cover_add_eq.
      destruct (C <=? fst (snd st) + y) eqn:E.
      * rewrite IH; cbn [fst snd]; auto; try lia; try discriminate; try exact wf_bin_empty.
        rewrite lists_app, <- app_assoc. cbn [lists map app]. rewrite add_to_bin_snd.
        rewrite tt_spec_full; [reflexivity|]. rewrite wf_bin_sum by exact Hwf. lia.
      * rewrite IH; cbn [fst snd]; auto; try lia; try discriminate; try exact wf_bin_empty.
        -- apply wf_bin_add. exact Hwf.
        -- intros _. rewrite add_to_bin_fst. lia.
Qed.

(** no positivity hypothesis is needed *)
Theorem tt_refines_rule_gen : forall C vs, twothirds_rule C vs (lists (cover_twothirds id true C vs)).
Proof.
  intros C vs. exists (sort_desc id vs). split; [apply sort_desc_perm|].
  split; [apply sort_desc_nonincreasing|]. unfold cover_twothirds.
  rewrite tt_loop_spec; cbn [fst snd]; auto.
  - rewrite sort_desc_length. reflexivity.
  - exact wf_bin_empty.
  - discriminate.
Qed.

Theorem tt_refines_rule : forall C vs, 0 < C -> Forall (fun v => 0 < v) vs ->
  twothirds_rule C vs (lists (cover_twothirds id true C vs)).
Proof. intros C vs _ _. apply tt_refines_rule_gen. Qed.

(** ---- threequarters = three-class filling ---- *)

Lemma fill_small_ffr C : forall f (cur : bin Z) small, wf_bin id cur ->
  fill_from_right f C (snd cur) small =
    (snd (fst (fill_small id true f C cur small)), snd (fill_small id true f C cur small)) /\
  wf_bin id (fst (fill_small id true f C cur small)).
Proof.
  induction f as [|f IH]; intros cur small Hwf; cbn [fill_small fill_from_right].
  - cbn [fst snd]. auto.
  - pose proof Hwf as Hs. apply wf_bin_id in Hs. rewrite <- Hs.
    destruct (fst cur <? C); [|cbn [fst snd]; auto].
    destruct (snoc_cases small) as [E|(r & y & E)]; subst small.
    + rewrite unsnoc_nil. cbn [rev fst snd]. auto.
    + rewrite unsnoc_snoc, rev_app_distr. cbn [rev app]. rewrite rev_involutive.
      rewrite <- add_to_bin_snd. apply IH. apply wf_bin_add. exact Hwf.
Qed.

Lemma fold_add_snd l : forall c : bin Z, wf_bin id c ->
  snd (fold_left (fun c x => add_to_bin id true x c) l c) = snd c ++ l /\
  wf_bin id (fold_left (fun c x => add_to_bin id true x c) l c).
Proof.
  induction l as [|x t IH]; intros c Hwf; cbn [fold_left].
  - rewrite app_nil_r. auto.
  - destruct (IH (add_to_bin id true x c) (wf_bin_add x c Hwf)) as [H1 H2].
    rewrite H1, add_to_bin_snd, <- app_assoc. auto.
Qed.

Definition is_nil {T} (l : list T) : bool := match l with [] => true | _ => false end.

(** the start of an iteration of the main loop: model and rule side *)
Definition tq_pick (cur : bin Z) (big medium : list Z) : bin Z * list Z * list Z :=
  if zsum (map id (firstn 1 big)) >=? zsum (map id (firstn 2 medium))
  then (fold_left (fun c x => add_to_bin id true x c) (firstn 1 big) cur, skipn 1 big, medium)
  else (fold_left (fun c x => add_to_bin id true x c) (firstn 2 medium) cur, big, skipn 2 medium).

Definition tc_pick (X Y : list Z) : list Z * list Z * list Z :=
  if zsum (firstn 2 Y) <=? zsum (firstn 1 X) then (firstn 1 X, skipn 1 X, Y)
  else (firstn 2 Y, X, skipn 2 Y).

Lemma tq_loop_unfold f C (st : cst) big medium small :
  tq_loop id true (S f) C st big medium small =
  match small with
  | [] => dec_sub id true C (dec_sub id true C st big) medium
  | _ :: _ =>
      if is_nil big && is_nil medium then dec_sub id true C st small
      else
        let '(cur0, big', medium') := tq_pick (snd st) big medium in
        let '(cur1, small') := fill_small id true (length small) C cur0 small in
        if fst cur1 >=? C then tq_loop id true f C (fst st ++ [cur1], empty_bin) big' medium' small'
        else tq_loop id true f C (fst st, cur1) big' medium' small'
  end.
Proof. destruct small, big, medium; reflexivity. Qed.

Lemma three_class_unfold f C cur X Y Zs :
  three_class (S f) C cur X Y Zs =
  match Zs with
  | [] => let '(b1, cur1) := next_fill C X cur in
          let '(b2, _) := next_fill C Y cur1 in b1 ++ b2
  | _ :: _ =>
      if is_nil X && is_nil Y then fst (next_fill C Zs cur)
      else
        let '(start, X', Y') := tc_pick X Y in
        let '(cur1, Zs') := fill_from_right (length Zs) C (cur ++ start) Zs in
        if C <=? zsum cur1 then cur1 :: three_class f C [] X' Y' Zs'
        else three_class f C cur1 X' Y' Zs'
  end.
Proof. destruct Zs, X, Y; reflexivity. Qed.

Lemma tq_pick_tc_pick (cur : bin Z) big medium : wf_bin id cur ->
  snd (fst (fst (tq_pick cur big medium))) = snd cur ++ fst (fst (tc_pick big medium)) /\
  snd (fst (tq_pick cur big medium)) = snd (fst (tc_pick big medium)) /\
  snd (tq_pick cur big medium) = snd (tc_pick big medium) /\
  wf_bin id (fst (fst (tq_pick cur big medium))).
Proof.
  intros Hwf. unfold tq_pick, tc_pick. rewrite !map_id', Z.geb_leb.
  destruct (zsum (firstn 2 medium) <=? zsum (firstn 1 big)); cbn [fst snd].
  - destruct (fold_add_snd (firstn 1 big) cur Hwf) as [H1 H2]. auto.
  - destruct (fold_add_snd (firstn 2 medium) cur Hwf) as [H1 H2]. auto.
Qed.

Lemma tq_loop_spec C : forall f (st : cst) big medium small, wf_bin id (snd st) ->
  lists (fst (tq_loop id true f C st big medium small)) =
  lists (fst st) ++ three_class f C (snd (snd st)) big medium small.
Proof.
  induction f as [|f IH]; intros st big medium small Hwf.
  - cbn [tq_loop three_class]. rewrite app_nil_r. reflexivity.
  - rewrite tq_loop_unfold, three_class_unfold. destruct small as [|z zs].
    + destruct (dec_sub_next_fill C big st Hwf) as (H1 & H2 & H3).
      destruct (dec_sub_next_fill C medium (dec_sub id true C st big) H3) as (H4 & _ & _).
      rewrite H4, H1, H2. destruct (next_fill C big (snd (snd st))) as [b1 cur1]. cbn [fst snd].
      destruct (next_fill C medium cur1) as [b2 l2]. cbn [fst]. rewrite app_assoc. reflexivity.
    + destruct (is_nil big && is_nil medium).
      { destruct (dec_sub_next_fill C (z :: zs) st Hwf) as (H1 & _ & _). exact H1. }
      destruct (tq_pick_tc_pick (snd st) big medium Hwf) as (P1 & P2 & P3 & P4).
      destruct (tq_pick (snd st) big medium) as [[cur0 big'] medium'].
      destruct (tc_pick big medium) as [[start X'] Y']. cbn [fst snd] in P1, P2, P3, P4.
      subst X' Y'.
      destruct (fill_small_ffr C (length (z :: zs)) cur0 (z :: zs) P4) as [F1 F2].
      rewrite <- P1, F1.
      destruct (fill_small id true (length (z :: zs)) C cur0 (z :: zs)) as [cur1 small'].
      cbn [fst snd] in *. pose proof F2 as Hs. apply wf_bin_id in Hs.
      rewrite Z.geb_leb, <- Hs. destruct (C <=? fst cur1).
      * rewrite IH by exact wf_bin_empty. cbn [fst snd]. change (snd (@empty_bin Z)) with (@nil Z).
        rewrite lists_app, <- app_assoc. reflexivity.
      * rewrite IH by exact F2. reflexivity.
Qed.

(** no positivity hypothesis is needed *)
Theorem tq_refines_rule_gen : forall C vs,
  threequarters_rule C vs (lists (cover_threequarters id true C vs)).
Proof.
  intros C vs. exists (sort_desc id vs). split; [apply sort_desc_perm|].
  split; [apply sort_desc_nonincreasing|]. unfold cover_threequarters. cbv zeta.
  rewrite tq_loop_spec by exact wf_bin_empty. rewrite sort_desc_length. reflexivity.
Qed.

Theorem tq_refines_rule : forall C vs, 0 < C -> Forall (fun v => 0 < v) vs ->
  threequarters_rule C vs (lists (cover_threequarters id true C vs)).
Proof. intros C vs _ _. apply tq_refines_rule_gen. Qed.

(** ---- round-robin = cyclic dealing ---- *)

(** how many items bin [j] still has to skip when the cursor stands at [r] *)
Definition off (k r j : nat) : nat := if (r <=? j)%nat then (j - r)%nat else (j + k - r)%nat.

Lemma rr_next r k : (r < k)%nat -> Nat.modulo (S r) k = if (S r =? k)%nat then O else S r.
Proof.
  intros H. destruct (Nat.eqb_spec (S r) k) as [E|E].
  - rewrite E. apply Nat.mod_same. lia.
  - apply Nat.mod_small. lia.
Qed.

Lemma off_step k r j : (r < k)%nat -> (j < k)%nat ->
  (j = r /\ off k r j = O /\ off k (Nat.modulo (S r) k) j = (k - 1)%nat) \/
  (j <> r /\ off k r j = S (off k (Nat.modulo (S r) k) j)).
Proof.
  intros Hr Hj. rewrite rr_next by exact Hr. unfold off.
  destruct (Nat.eqb_spec (S r) k) as [E|E];
    destruct (Nat.leb_spec r j) as [L1|L1];
    match goal with |- context [(?a <=? j)%nat] => destruct (Nat.leb_spec a j) as [L2|L2] end; lia.
Qed.

Lemma every_kth_nil k s : every_kth k s [] = [].
Proof. reflexivity. Qed.

Lemma range_from_length n : forall i, length (range_from i n) = n.
Proof. induction n as [|n IH]; intros i; cbn [range_from length]; [reflexivity|]. rewrite IH. reflexivity. Qed.

Lemma range_from_nth n : forall i j d, (j < n)%nat -> nth j (range_from i n) d = (i + j)%nat.
Proof.
  induction n as [|n IH]; intros i j d Hj; [lia|]. cbn [range_from]. destruct j as [|j]; cbn [nth].
  - lia.
  - rewrite IH by lia. lia.
Qed.

Lemma deal_length k l : length (deal k l) = k.
Proof. unfold deal, range. rewrite map_length. apply range_from_length. Qed.

Lemma deal_nth k l j : (j < k)%nat -> nth j (deal k l) [] = every_kth k j l.
Proof.
  intros Hj. unfold deal.
  transitivity (nth j (map (fun j0 => every_kth k j0 l) (range k)) ((fun j0 => every_kth k j0 l) O)).
  - apply nth_indep. rewrite map_length. unfold range. rewrite range_from_length. exact Hj.
  - rewrite (map_nth (fun j0 => every_kth k j0 l) (range k) O j).
    unfold range. rewrite range_from_nth by exact Hj. reflexivity.
Qed.

Lemma put_nth i v (b : vbins) j : (i < length b)%nat ->
  nth j (put i v b) [] = if (j =? i)%nat then nth j b [] ++ [v] else nth j b [].
Proof.
  intros Hi. unfold put. destruct (Nat.eqb_spec j i) as [E|E].
  - subst j. rewrite update_nth_same by exact Hi. reflexivity.
  - apply update_nth_other. auto.
Qed.

Lemma rr_loop_deal k l : forall r (b : bins Z), (r < k)%nat -> length b = k ->
  length (rr_loop id true k l r b) = k /\
  forall j, (j < k)%nat ->
    nth j (lists (rr_loop id true k l r b)) [] = nth j (lists b) [] ++ every_kth k (off k r j) l.
Proof.
  induction l as [|x t IH]; intros r b Hr Hlen; cbn [rr_loop].
  - split; [exact Hlen|]. intros j Hj. rewrite every_kth_nil, app_nil_r. reflexivity.
  - assert (Hr' : (Nat.modulo (S r) k < k)%nat) by (apply Nat.mod_upper_bound; lia).
    destruct (IH (Nat.modulo (S r) k) (add_item id true b x r) Hr') as [H1 H2].
    { rewrite add_item_length. exact Hlen. }
    split; [exact H1|]. intros j Hj. rewrite (H2 j Hj), lists_add_item.
    rewrite put_nth by (rewrite lists_length; lia).
    destruct (off_step k r j Hr Hj) as [(E1 & E2 & E3)|(E1 & E2)].
    + subst j. rewrite Nat.eqb_refl, E2, E3. cbn [every_kth]. rewrite <- app_assoc. reflexivity.
    + destruct (Nat.eqb_spec j r) as [E|_]; [contradiction|]. rewrite E2. reflexivity.
Qed.

Lemma nth_repeat_nil {T} k j : nth j (repeat (@nil T) k) [] = [].
Proof. revert j. induction k as [|k IH]; intros [|j]; cbn [repeat nth]; auto. Qed.

Theorem roundrobin_refines_rr : forall k vs, (1 <= k)%nat -> rr_rule k vs (lists (roundrobin id true k vs)).
Proof.
  intros k vs Hk. exists (sort_desc id vs). split; [apply sort_desc_perm|].
  split; [apply sort_desc_nonincreasing|]. unfold roundrobin.
  destruct (rr_loop_deal k (sort_desc id vs) O (new_bins k)) as [H1 H2];
    [lia|apply new_bins_length|].
  apply nth_ext with (d := []) (d' := []).
  - rewrite lists_length, deal_length. exact H1.
  - rewrite lists_length, H1. intros j Hj. rewrite (H2 j Hj), deal_nth by exact Hj.
    rewrite lists_new_bins, nth_repeat_nil. cbn [app]. unfold off.
    destruct (Nat.leb_spec O j) as [L|L]; [|lia]. f_equal. lia.
Qed.

(** ================= PART 2: determinism of the rules ================= *)

Theorem nonincreasing_perm_unique : forall l1 l2,
  Permutation l1 l2 -> nonincreasing l1 -> nonincreasing l2 -> l1 = l2.
Proof.
  unfold nonincreasing. induction l1 as [|a t1 IH]; intros l2 P S1 S2.
  - apply Permutation_nil in P. symmetry. exact P.
  - destruct l2 as [|b t2]; [apply Permutation_sym, Permutation_nil in P; discriminate P|].
    apply StronglySorted_inv in S1. apply StronglySorted_inv in S2.
    destruct S1 as [S1 F1]. destruct S2 as [S2 F2].
    assert (Hab : a = b).
    { assert (Hb : In b (a :: t1)) by (eapply Permutation_in; [symmetry; exact P|left; reflexivity]).
      assert (Ha : In a (b :: t2)) by (eapply Permutation_in; [exact P|left; reflexivity]).
      rewrite Forall_forall in F1, F2. destruct Hb as [Hb|Hb]; [congruence|].
      destruct Ha as [Ha|Ha]; [congruence|]. apply F1 in Hb. apply F2 in Ha. lia. }
    subst b. f_equal. apply IH; [|exact S1|exact S2]. eapply Permutation_cons_inv. exact P.
Qed.

Lemma sorted_input_unique vs l1 l2 :
  Permutation l1 vs -> nonincreasing l1 -> Permutation l2 vs -> nonincreasing l2 -> l1 = l2.
Proof.
  intros P1 S1 P2 S2. apply nonincreasing_perm_unique; [|exact S1|exact S2].
  eapply Permutation_trans; [exact P1|symmetry; exact P2].
Qed.

(** replacing equal entries of two permuted lists keeps them permuted *)
Lemma update_perm_same (f : Z -> Z) s s' i i' :
  Permutation s s' -> (i < length s)%nat -> (i' < length s')%nat -> nth i s 0 = nth i' s' 0 ->
  Permutation (update i f s) (update i' f s').
Proof.
  intros P Hi Hi' E.
  destruct (update_split i f s Hi) as (l1 & x & l2 & E1 & E2 & E3).
  destruct (update_split i' f s' Hi') as (l1' & x' & l2' & E1' & E2' & E3').
  rewrite E3, E3'. subst s s' i i'. rewrite !nth_middle in E. subst x'.
  apply Permutation_elt. eapply Permutation_app_inv. exact P.
Qed.

Lemma perm_sum_transfer (a a' : vbins) i :
  Permutation (vsums a) (vsums a') -> (i < length a)%nat ->
  exists j, (j < length a')%nat /\ zsum (nth j a' []) = zsum (nth i a []).
Proof.
  intros P Hi.
  assert (Hin : In (nth i (vsums a) 0) (vsums a')).
  { eapply Permutation_in; [exact P|]. apply nth_In. rewrite vsums_length. exact Hi. }
  apply In_nth with (d := 0) in Hin. destruct Hin as (j & Hj & Ej).
  rewrite vsums_length in Hj. rewrite !nth_vsums in Ej. exists j. auto.
Qed.

(** ---- LPT: the multiset of sums is determined ---- *)

Lemma least_loaded_le i (a : vbins) j : least_loaded i a -> (j < length a)%nat ->
  zsum (nth i a []) <= zsum (nth j a []).
Proof.
  intros [Hi Hall] Hj. rewrite Forall_forall in Hall. rewrite <- !nth_vsums.
  apply Hall. apply nth_In. rewrite vsums_length. exact Hj.
Qed.

Lemma lpt_step_perm v (a a' : vbins) i i' :
  Permutation (vsums a) (vsums a') -> least_loaded i a -> least_loaded i' a' ->
  Permutation (vsums (put i v a)) (vsums (put i' v a')).
Proof.
  intros P L L'. rewrite !vsums_put. pose proof L as [Hi _]. pose proof L' as [Hi' _].
  apply update_perm_same; [exact P|rewrite vsums_length; exact Hi|rewrite vsums_length; exact Hi'|].
  rewrite !nth_vsums.
  destruct (perm_sum_transfer a a' i P Hi) as (j' & Hj' & Ej').
  destruct (perm_sum_transfer a' a i' (Permutation_sym P) Hi') as (j & Hj & Ej).
  pose proof (least_loaded_le i a j L Hj). pose proof (least_loaded_le i' a' j' L' Hj'). lia.
Qed.

Lemma list_scheduling_perm l : forall a a' b b', Permutation (vsums a) (vsums a') ->
  list_scheduling l a b -> list_scheduling l a' b' -> Permutation (vsums b) (vsums b').
Proof.
  induction l as [|v t IH]; intros a a' b b' P H H'.
  - inversion H; subst. inversion H'; subst. exact P.
  - inversion H as [|v0 t0 a0 i b0 L R]; subst. inversion H' as [|v0 t0 a0 i' b0 L' R']; subst.
    apply (IH (put i v a) (put i' v a')); [|exact R|exact R'].
    apply lpt_step_perm; assumption.
Qed.

Theorem lpt_rule_deterministic : forall k vs b1 b2,
  lpt_rule k vs b1 -> lpt_rule k vs b2 -> Permutation (vsums b1) (vsums b2).
Proof.
  intros k vs b1 b2 (l1 & P1 & S1 & R1) (l2 & P2 & S2 & R2).
  assert (E : l1 = l2) by (apply (sorted_input_unique vs); assumption). subst l2.
  apply (list_scheduling_perm l1 (repeat [] k) (repeat [] k)); [apply Permutation_refl|exact R1|exact R2].
Qed.

(** ---- runs of a step relation ---- *)

Lemma run_steps_rel (R : vbins -> vbins -> Prop) (step : Z -> vbins -> vbins -> Prop) :
  (forall v a a' b b', R a a' -> step v a b -> step v a' b' -> R b b') ->
  forall l a a' b b', R a a' -> run_steps step l a b -> run_steps step l a' b' -> R b b'.
Proof.
  intros Hstep. induction l as [|v t IH]; intros a a' b b' HR H H'.
  - inversion H; subst. inversion H'; subst. exact HR.
  - inversion H as [|v0 t0 a0 a1 a2 S1 R1]; subst. inversion H' as [|v0 t0 a0 a1' a2 S1' R1']; subst.
    apply (IH a1 a1'); [|exact R1|exact R1']. apply (Hstep v a a'); assumption.
Qed.

(** ---- first-fit: the bins are determined ---- *)

Lemma ff_step_det C v a b1 b2 : ff_step C v a b1 -> ff_step C v a b2 -> b1 = b2.
Proof.
  intros H1 H2. inversion H1 as [a0 i Hi Hfit Hmin|a0 Hall]; subst;
    inversion H2 as [a0 i' Hi' Hfit' Hmin'|a0 Hall']; subst.
  - destruct (Nat.lt_trichotomy i i') as [L|[L|L]].
    + exfalso. apply (Hmin' i L). exact Hfit.
    + subst i'. reflexivity.
    + exfalso. apply (Hmin i' L). exact Hfit'.
  - exfalso. rewrite Forall_forall in Hall'. apply (Hall' (nth i a [])); [|exact Hfit].
    apply nth_In. exact Hi.
  - exfalso. rewrite Forall_forall in Hall. apply (Hall (nth i' a [])); [|exact Hfit'].
    apply nth_In. exact Hi'.
  - reflexivity.
Qed.

Theorem ff_rule_deterministic : forall C vs b1 b2, ff_rule C vs b1 -> ff_rule C vs b2 -> b1 = b2.
Proof.
  intros C vs b1 b2 H1 H2. unfold ff_rule in *.
  apply (run_steps_rel eq (ff_step C)) with (l := vs) (a := []) (a' := []); [|reflexivity|exact H1|exact H2].
  intros v a a' b b' E S1 S2. subst a'. apply (ff_step_det C v a); assumption.
Qed.

Theorem ffd_rule_deterministic : forall C vs b1 b2, ffd_rule C vs b1 -> ffd_rule C vs b2 -> b1 = b2.
Proof.
  intros C vs b1 b2 (l1 & P1 & S1 & R1) (l2 & P2 & S2 & R2).
  assert (E : l1 = l2) by (apply (sorted_input_unique vs); assumption). subst l2.
  apply (ff_rule_deterministic C l1); assumption.
Qed.

(** ---- best-fit: the multiset of sums is determined ---- *)

Lemma bf_step_perm C v (a a' b b' : vbins) : Permutation (vsums a) (vsums a') ->
  bf_step C v a b -> bf_step C v a' b' -> Permutation (vsums b) (vsums b').
Proof.
  intros P H1 H2. inversion H1 as [a0 i Hi Hfit Hmax|a0 Hall]; subst;
    inversion H2 as [a0 i' Hi' Hfit' Hmax'|a0 Hall']; subst.
  - rewrite !vsums_put.
    apply update_perm_same; [exact P|rewrite vsums_length; exact Hi|rewrite vsums_length; exact Hi'|].
    rewrite !nth_vsums.
    destruct (perm_sum_transfer a a' i P Hi) as (j' & Hj' & Ej').
    destruct (perm_sum_transfer a' a i' (Permutation_sym P) Hi') as (j & Hj & Ej).
    assert (F' : fits C v (nth j' a' [])) by (unfold fits in *; lia).
    assert (F : fits C v (nth j a [])) by (unfold fits in *; lia).
    pose proof (Hmax' j' Hj' F'). pose proof (Hmax j Hj F). lia.
  - exfalso. destruct (perm_sum_transfer a a' i P Hi) as (j' & Hj' & Ej').
    rewrite Forall_forall in Hall'. apply (Hall' (nth j' a' [])); [apply nth_In; exact Hj'|].
    unfold fits in *. lia.
  - exfalso. destruct (perm_sum_transfer a' a i' (Permutation_sym P) Hi') as (j & Hj & Ej).
    rewrite Forall_forall in Hall. apply (Hall (nth j a [])); [apply nth_In; exact Hj|].
    unfold fits in *. lia.
  - rewrite !vsums_app. apply Permutation_app_tail. exact P.
Qed.

Theorem bf_rule_deterministic : forall C vs b1 b2,
  bf_rule C vs b1 -> bf_rule C vs b2 -> Permutation (vsums b1) (vsums b2).
Proof.
  intros C vs b1 b2 H1 H2. unfold bf_rule in *.
  apply (run_steps_rel (fun a a' => Permutation (vsums a) (vsums a')) (bf_step C))
    with (l := vs) (a := []) (a' := []); [|apply Permutation_refl|exact H1|exact H2].
  intros v a a' b b' P S1 S2. apply (bf_step_perm C v a a'); assumption.
Qed.

Theorem bfd_rule_deterministic : forall C vs b1 b2,
  bfd_rule C vs b1 -> bfd_rule C vs b2 -> Permutation (vsums b1) (vsums b2).
Proof.
  intros C vs b1 b2 (l1 & P1 & S1 & R1) (l2 & P2 & S2 & R2).
  assert (E : l1 = l2) by (apply (sorted_input_unique vs); assumption). subst l2.
  apply (bf_rule_deterministic C l1); assumption.
Qed.

(** ---- the rules that are functions of the sorted sequence ---- *)

Theorem rr_rule_deterministic : forall k vs b1 b2, rr_rule k vs b1 -> rr_rule k vs b2 -> b1 = b2.
Proof.
  intros k vs b1 b2 (l1 & P1 & S1 & R1) (l2 & P2 & S2 & R2).
  assert (E : l1 = l2) by (apply (sorted_input_unique vs); assumption). subst. reflexivity.
Qed.

Theorem nfd_cover_rule_deterministic : forall C vs b1 b2,
  nfd_cover_rule C vs b1 -> nfd_cover_rule C vs b2 -> b1 = b2.
Proof.
  intros C vs b1 b2 (l1 & P1 & S1 & R1) (l2 & P2 & S2 & R2).
  assert (E : l1 = l2) by (apply (sorted_input_unique vs); assumption). subst. reflexivity.
Qed.

Theorem twothirds_rule_deterministic : forall C vs b1 b2,
  twothirds_rule C vs b1 -> twothirds_rule C vs b2 -> b1 = b2.
Proof.
  intros C vs b1 b2 (l1 & P1 & S1 & R1) (l2 & P2 & S2 & R2).
  assert (E : l1 = l2) by (apply (sorted_input_unique vs); assumption). subst. reflexivity.
Qed.

Theorem threequarters_rule_deterministic : forall C vs b1 b2,
  threequarters_rule C vs b1 -> threequarters_rule C vs b2 -> b1 = b2.
Proof.
  intros C vs b1 b2 (l1 & P1 & S1 & R1) (l2 & P2 & S2 & R2).
  assert (E : l1 = l2) by (apply (sorted_input_unique vs); assumption). subst. reflexivity.
Qed.

(** ================= PART 3: the model agrees with ANY run of the rule ================= *)

Theorem greedy_matches_any_lpt : forall k vs b, (1 <= k)%nat ->
  lpt_rule k vs b -> Permutation (vsums b) (sums (greedy id true k vs)).
Proof.
  intros k vs b Hk H. rewrite (sums_vsums _ (greedy_wf k vs)).
  apply (lpt_rule_deterministic k vs); [exact H|apply greedy_refines_lpt; exact Hk].
Qed.

Theorem roundrobin_matches_any_rr : forall k vs b, (1 <= k)%nat ->
  rr_rule k vs b -> b = lists (roundrobin id true k vs).
Proof.
  intros k vs b Hk H.
  apply (rr_rule_deterministic k vs); [exact H|apply roundrobin_refines_rr; exact Hk].
Qed.

Lemma ff_loop_wf C vs : forall b b', wf id b -> ff_loop id true C vs b = Ok b' -> wf id b'.
Proof.
  induction vs as [|v t IH]; intros b b' Hwf; cbn [ff_loop].
  - intros H. injection H as H. subst b'. exact Hwf.
  - destruct (id v >? C); [intros H; discriminate H|]. apply IH. apply ff_place_wf. exact Hwf.
Qed.

Lemma bf_place_wf C v (b : bins Z) : wf id b -> wf id (bf_place id true C v b).
Proof.
  intros Hwf. unfold bf_place. destruct (fst (bf_scan C (id v) b 0 (None, -1))) as [i|].
  - apply add_item_wf. exact Hwf.
  - unfold wf. apply Forall_app. split; [exact Hwf|]. constructor; [|constructor].
    apply add_to_bin_wf; reflexivity.
Qed.

Lemma bf_loop_wf C vs : forall b b', wf id b -> bf_loop id true C vs b = Ok b' -> wf id b'.
Proof.
  induction vs as [|v t IH]; intros b b' Hwf; cbn [bf_loop].
  - intros H. injection H as H. subst b'. exact Hwf.
  - destruct (id v >? C); [intros H; discriminate H|]. apply IH. apply bf_place_wf. exact Hwf.
Qed.

Theorem ff_matches_any_ff : forall C vs b b', vs <> [] ->
  first_fit id true C vs = Ok b -> ff_rule C vs b' -> b' = lists b /\ vsums b' = sums b.
Proof.
  intros C vs b b' Hne H R.
  assert (E : b' = lists b).
  { apply (ff_rule_deterministic C vs); [exact R|apply ff_refines_rule_gen; assumption]. }
  split; [exact E|]. subst b'. symmetry. apply sums_vsums.
  apply (ff_loop_wf C vs (new_bins 1) b); [apply new_bins_wf|exact H].
Qed.

Theorem ffd_matches_any_ffd : forall C vs b b', vs <> [] ->
  first_fit_decreasing id true C vs = Ok b -> ffd_rule C vs b' -> b' = lists b /\ vsums b' = sums b.
Proof.
  intros C vs b b' Hne H R.
  assert (E : b' = lists b).
  { apply (ffd_rule_deterministic C vs); [exact R|apply ffd_refines_rule_gen; assumption]. }
  split; [exact E|]. subst b'. symmetry. apply sums_vsums.
  apply (ff_loop_wf C (sort_desc id vs) (new_bins 1) b); [apply new_bins_wf|exact H].
Qed.

Theorem bf_matches_any_bf : forall C vs b b', vs <> [] -> Forall (fun v => 0 <= v) vs ->
  best_fit id true C vs = Ok b -> bf_rule C vs b' -> Permutation (vsums b') (sums b).
Proof.
  intros C vs b b' Hne Hvs H R.
  rewrite (sums_vsums b); [|apply (bf_loop_wf C vs (new_bins 1) b); [apply new_bins_wf|exact H]].
  apply (bf_rule_deterministic C vs); [exact R|apply bf_refines_rule_gen; assumption].
Qed.

Theorem bfd_matches_any_bfd : forall C vs b b', vs <> [] -> Forall (fun v => 0 <= v) vs ->
  best_fit_decreasing id true C vs = Ok b -> bfd_rule C vs b' -> Permutation (vsums b') (sums b).
Proof.
  intros C vs b b' Hne Hvs H R.
  rewrite (sums_vsums b);
    [|apply (bf_loop_wf C (sort_desc id vs) (new_bins 1) b); [apply new_bins_wf|exact H]].
  apply (bfd_rule_deterministic C vs); [exact R|apply bfd_refines_rule_gen; assumption].
Qed.

Theorem dec_matches_any_nfd : forall C vs b,
  nfd_cover_rule C vs b -> b = lists (cover_decreasing id true C vs).
Proof.
  intros C vs b H. apply (nfd_cover_rule_deterministic C vs); [exact H|apply dec_refines_rule].
Qed.

Theorem tt_matches_any_twothirds : forall C vs b,
  twothirds_rule C vs b -> b = lists (cover_twothirds id true C vs).
Proof.
  intros C vs b H. apply (twothirds_rule_deterministic C vs); [exact H|apply tt_refines_rule_gen].
Qed.

Theorem tq_matches_any_threequarters : forall C vs b,
  threequarters_rule C vs b -> b = lists (cover_threequarters id true C vs).
Proof.
  intros C vs b H. apply (threequarters_rule_deterministic C vs); [exact H|apply tq_refines_rule_gen].
Qed.

Print Assumptions greedy_refines_lpt.
Print Assumptions roundrobin_refines_rr.
Print Assumptions ff_refines_rule_gen.
Print Assumptions ff_refines_rule.
Print Assumptions ffd_refines_rule_gen.
Print Assumptions ffd_refines_rule.
Print Assumptions bf_refines_rule_gen.
Print Assumptions bf_refines_rule.
Print Assumptions bfd_refines_rule_gen.
Print Assumptions bfd_refines_rule.
Print Assumptions dec_refines_rule.
Print Assumptions tt_refines_rule_gen.
Print Assumptions tt_refines_rule.
Print Assumptions tq_refines_rule_gen.
Print Assumptions tq_refines_rule.
Print Assumptions ff_empty_input_differs.
Print Assumptions bf_empty_input_differs.
Print Assumptions bf_negative_value_differs.
Print Assumptions nonincreasing_perm_unique.
Print Assumptions lpt_rule_deterministic.
Print Assumptions ff_rule_deterministic.
Print Assumptions ffd_rule_deterministic.
Print Assumptions bf_rule_deterministic.
Print Assumptions bfd_rule_deterministic.
Print Assumptions rr_rule_deterministic.
Print Assumptions nfd_cover_rule_deterministic.
Print Assumptions twothirds_rule_deterministic.
Print Assumptions threequarters_rule_deterministic.
Print Assumptions greedy_matches_any_lpt.
Print Assumptions roundrobin_matches_any_rr.
Print Assumptions ff_matches_any_ff.
Print Assumptions ffd_matches_any_ffd.
Print Assumptions bf_matches_any_bf.
Print Assumptions bfd_matches_any_bfd.
Print Assumptions dec_matches_any_nfd.
Print Assumptions tt_matches_any_twothirds.
Print Assumptions tq_matches_any_threequarters.
