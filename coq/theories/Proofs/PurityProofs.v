(** Frame, independence and consistency facts about the documented effects of the bins-manager
    operations (Spec/AbsBins.v).  Together with Proofs/HeapProofs.v (the object-heap model shows
    exactly these effects) they give C16 and the aliasing part of C15. *)
From Prtpy Require Import Base.Prelude Model.Binner Model.BinnerHeap Spec.AbsBins Proofs.BaseLemmas Proofs.BinnerLemmas.
From Coq Require Import Sorting.Sorted.

Section Purity.
  Context {A : Type} (valueof : A -> Z).
  Notation pstate := (@pstate A).
  Notation op := (@op A).

  (** the arrays an operation is documented to change or consume *)
  Definition targets (o : op) : list nat :=
    match o with
    | OpNew _ _ | OpCopy _ => []
    | OpAdd h _ _ | OpSort h | OpAddEmpty h _ | OpRemove h _ => [h]
    | OpConcat h1 h2 => [h1; h2]
    | OpCombine h1 _ _ _ => [h1]
    end.

  Lemma nth_opt_app_l {T} (l1 l2 : list T) i : (i < length l1)%nat -> nth_opt (l1 ++ l2) i = nth_opt l1 i.
  Proof.
    revert i. induction l1 as [|x t IH]; intros i Hi; cbn [length] in Hi; [lia|].
    destruct i as [|j]; cbn [app nth_opt]; [reflexivity|]. apply IH. lia.
  Qed.

  Lemma nth_opt_app_new {T} (l : list T) x : nth_opt (l ++ [x]) (length l) = Some x.
  Proof. induction l as [|y t IH]; cbn [app length nth_opt]; [reflexivity|exact IH]. Qed.

  Lemma nth_opt_update_other {T} (f : T -> T) (l : list T) i j : i <> j -> nth_opt (update i f l) j = nth_opt l j.
  Proof.
    revert i j. induction l as [|x t IH]; intros i j Hij; [destruct i; reflexivity|].
    destruct i as [|i'], j as [|j']; cbn [update nth_opt]; try reflexivity; [lia|]. apply IH. lia.
  Qed.

  Lemma nth_opt_update_same {T} (f : T -> T) (l : list T) i x : nth_opt l i = Some x -> nth_opt (update i f l) i = Some (f x).
  Proof.
    revert i. induction l as [|y t IH]; intros i H; [destruct i; discriminate|].
    destruct i as [|i']; cbn [update nth_opt] in *; [injection H as ->; reflexivity|]. apply IH. exact H.
  Qed.

  Lemma nth_opt_Some_lt {T} (l : list T) i x : nth_opt l i = Some x -> (i < length l)%nat.
  Proof.
    revert i. induction l as [|y t IH]; intros i H; [destruct i; discriminate|].
    destruct i as [|i']; cbn [length]; [lia|]. cbn [nth_opt] in H. apply IH in H. lia.
  Qed.

  Lemma plive_app_l (st : pstate) e h : (h < length st)%nat -> plive (st ++ [e]) h = plive st h.
  Proof. intros Hh. unfold plive. rewrite nth_opt_app_l by exact Hh. reflexivity. Qed.

  Lemma plive_update_other (st : pstate) f i h : i <> h -> plive (update i f st) h = plive st h.
  Proof. intros Hi. unfold plive. rewrite nth_opt_update_other by exact Hi. reflexivity. Qed.

  Lemma plive_lt (st : pstate) h e : plive st h = Some e -> (h < length st)%nat.
  Proof.
    unfold plive. destruct (nth_opt st h) as [x|] eqn:E; [|discriminate]. intros _. eapply nth_opt_Some_lt. exact E.
  Qed.

  Lemma plive_kill_other (st : pstate) i h : i <> h -> plive (kill i st) h = plive st h.
  Proof. intros Hi. unfold kill. apply plive_update_other. exact Hi. Qed.

  Lemma kill_length (st : pstate) i : length (kill i st) = length st.
  Proof. unfold kill. apply update_length. Qed.

  (** FRAME: an operation changes only the arrays it names *)
  Theorem pure_step_frame : forall (st : pstate) (o : op) (h : nat) (e : bool * bins A),
    plive st h = Some e -> ~ In h (targets o) -> plive (pure_step valueof st o) h = Some e.
  Proof.
    intros st o h e Hl Hn. pose proof (plive_lt st h e Hl) as Hlt.
    destruct o as [keep n|h0 x i|h0|h0|h0 n|h0 n|h1 h2|h1 i1 h2 i2]; cbn [pure_step targets In] in *.
    - rewrite plive_app_l by exact Hlt. exact Hl.
    - destruct (plive st h0) as [[k b]|]; [|exact Hl]. rewrite plive_update_other by tauto. exact Hl.
    - destruct (plive st h0) as [e0|]; [|exact Hl]. rewrite plive_app_l by exact Hlt. exact Hl.
    - destruct (plive st h0) as [[k b]|]; [|exact Hl]. rewrite plive_update_other by tauto. exact Hl.
    - destruct (plive st h0) as [[k b]|]; [|exact Hl].
      rewrite plive_app_l by (rewrite kill_length; exact Hlt). rewrite plive_kill_other by tauto. exact Hl.
    - destruct (plive st h0) as [[k b]|]; [|exact Hl].
      rewrite plive_app_l by (rewrite kill_length; exact Hlt). rewrite plive_kill_other by tauto. exact Hl.
    - destruct (plive st h1) as [[k b1]|]; [|exact Hl]. destruct (plive st h2) as [[k2 b2]|]; [|exact Hl].
      rewrite plive_app_l by (rewrite !kill_length; exact Hlt).
      rewrite plive_kill_other by tauto. rewrite plive_kill_other by tauto. exact Hl.
    - destruct (plive st h1) as [[k b1]|]; [|exact Hl]. destruct (plive st h2) as [[k2 b2]|]; [|exact Hl].
      rewrite plive_update_other by tauto. exact Hl.
  Qed.

  (** in particular the second argument of combine_bins and the argument of copy_bins are never altered *)
  Corollary combine_source_untouched : forall (st : pstate) h1 i1 h2 i2 e, h1 <> h2 ->
    plive st h2 = Some e -> plive (pure_step valueof st (OpCombine h1 i1 h2 i2)) h2 = Some e.
  Proof. intros st h1 i1 h2 i2 e Hd Hl. apply pure_step_frame; [exact Hl|]. cbn. intros [E|[]]. apply Hd. exact E. Qed.

  (** COPY: the new array equals the original, and the original is unchanged; by the frame theorem
      every later operation on one of them leaves the other untouched (independence both ways) *)
  Theorem pure_copy_independent : forall (st : pstate) (h : nat) (e : bool * bins A),
    plive st h = Some e ->
    plive (pure_step valueof st (OpCopy h)) h = Some e /\
    plive (pure_step valueof st (OpCopy h)) (length st) = Some e /\
    length st <> h.
  Proof.
    intros st h e Hl. pose proof (plive_lt st h e Hl) as Hlt. cbn [pure_step]. rewrite Hl.
    split; [rewrite plive_app_l by exact Hlt; exact Hl|]. split; [|lia].
    unfold plive. rewrite nth_opt_app_new. reflexivity.
  Qed.

  (** SORT: sums and contents are permuted together into non-decreasing order of sum *)
  Theorem pure_sort_sorted : forall (st : pstate) (h : nat) (k : bool) (b : bins A),
    plive st h = Some (k, b) ->
    plive (pure_step valueof st (OpSort h)) h = Some (k, sort_bins b) /\
    StronglySorted Z.le (sums (sort_bins b)) /\ Permutation (sort_bins b) b.
  Proof.
    intros st h k b Hl. cbn [pure_step]. rewrite Hl. split; [|split; [apply sort_bins_sorted|apply sort_bins_perm]].
    unfold plive in *. destruct (nth_opt st h) as [x|] eqn:E; [|discriminate].
    rewrite (nth_opt_update_same _ st h x E). reflexivity.
  Qed.

  (** CONSISTENCY: in every state reached by documented effects, each bin sum of a contents-keeping
      array is the total value of its recorded items *)
  Definition pstate_wf (st : pstate) : Prop :=
    forall h b, plive st h = Some (true, b) -> wf valueof b.

  Lemma plive_update_same (st : pstate) h e0 e : plive st h = Some e0 -> plive (update h (fun _ => Some e) st) h = Some e.
  Proof.
    unfold plive. intros H. destruct (nth_opt st h) as [x|] eqn:E; [|discriminate].
    rewrite (nth_opt_update_same _ st h x E). reflexivity.
  Qed.

  Lemma nth_opt_update_none {T} (f : T -> T) (l : list T) i : nth_opt l i = None -> nth_opt (update i f l) i = None.
  Proof.
    revert i. induction l as [|y t IH]; intros i E; [destruct i; reflexivity|].
    destruct i as [|i']; cbn [nth_opt update] in *; [discriminate|]. apply IH. exact E.
  Qed.

  Lemma plive_kill_same (st : pstate) h : plive (kill h st) h = None.
  Proof.
    unfold kill, plive. destruct (nth_opt st h) as [x|] eqn:E.
    - rewrite (nth_opt_update_same _ st h x E). reflexivity.
    - rewrite (nth_opt_update_none _ st h E). reflexivity.
  Qed.

  Lemma plive_ge (st : pstate) h : (length st <= h)%nat -> plive st h = None.
  Proof.
    intros Hh. unfold plive. destruct (nth_opt st h) as [x|] eqn:E; [|reflexivity].
    apply nth_opt_Some_lt in E. lia.
  Qed.

  Lemma plive_app_cases (st : pstate) e h x : plive (st ++ [e]) h = Some x ->
    ((h < length st)%nat /\ plive st h = Some x) \/ (h = length st /\ e = Some x).
  Proof.
    intros H. destruct (Nat.lt_ge_cases h (length st)) as [Hlt|Hge].
    - left. split; [exact Hlt|]. rewrite plive_app_l in H by exact Hlt. exact H.
    - right. destruct (Nat.eq_dec h (length st)) as [->|Hne].
      + split; [reflexivity|]. unfold plive in H. rewrite nth_opt_app_new in H. destruct e; [injection H as ->; reflexivity|discriminate].
      + exfalso. assert (Hl : (length (st ++ [e]) <= h)%nat) by (rewrite app_length; cbn; lia).
        rewrite (plive_ge _ _ Hl) in H. discriminate.
  Qed.

  Lemma wf_app (b1 b2 : bins A) : wf valueof b1 -> wf valueof b2 -> wf valueof (b1 ++ b2).
  Proof. intros H1 H2. unfold wf. apply Forall_app. split; assumption. Qed.

  Lemma wf_firstn n (b : bins A) : wf valueof b -> wf valueof (firstn n b).
  Proof.
    unfold wf. revert n. induction b as [|x t IH]; intros n H; [destruct n; constructor|].
    destruct n as [|m]; cbn [firstn]; [constructor|]. inversion H as [|? ? Hx Ht]; subst. constructor; [exact Hx|apply IH; exact Ht].
  Qed.

  Lemma wf_update i f (b : bins A) : wf valueof b -> (forall x, wf_bin valueof x -> wf_bin valueof (f x)) -> wf valueof (update i f b).
  Proof.
    unfold wf. revert i. induction b as [|x t IH]; intros i H Hf; [destruct i; constructor|].
    inversion H as [|? ? Hx Ht]; subst. destruct i as [|j]; cbn [update]; constructor; auto.
  Qed.

  Lemma wf_nth_opt (b : bins A) i x : wf valueof b -> nth_opt b i = Some x -> wf_bin valueof x.
  Proof.
    unfold wf. revert i. induction b as [|y t IH]; intros i H E; [destruct i; discriminate|].
    inversion H as [|? ? Hy Ht]; subst. destruct i as [|j]; cbn [nth_opt] in E; [injection E as <-; exact Hy|]. eapply IH; eauto.
  Qed.

  Lemma pure_step_wf (st : pstate) (o : op) : pstate_wf st -> disciplined st o -> pstate_wf (pure_step valueof st o).
  Proof.
    intros Hw Hd h b Hl.
    destruct o as [keep n|h0 x i|h0|h0|h0 n|h0 n|h1 h2|h1 i1 h2 i2]; cbn [pure_step disciplined] in *.
    - apply plive_app_cases in Hl. destruct Hl as [[_ Hl]|[_ E]]; [eapply Hw; exact Hl|].
      injection E as -> <-. apply new_bins_wf.
    - destruct Hd as (k & b0 & Hp & Hi). rewrite Hp in Hl.
      destruct (Nat.eq_dec h0 h) as [->|Hne].
      + rewrite (plive_update_same st h _ _ Hp) in Hl. injection Hl as -> <-. apply add_item_wf. eapply Hw. exact Hp.
      + rewrite plive_update_other in Hl by exact Hne. eapply Hw. exact Hl.
    - destruct Hd as (e & Hp). rewrite Hp in Hl. apply plive_app_cases in Hl.
      destruct Hl as [[_ Hl]|[_ E]]; [eapply Hw; exact Hl|]. injection E as ->. eapply Hw. exact Hp.
    - destruct Hd as ([k b0] & Hp). rewrite Hp in Hl.
      destruct (Nat.eq_dec h0 h) as [->|Hne].
      + rewrite (plive_update_same st h _ _ Hp) in Hl. injection Hl as -> <-. apply sort_bins_wf. eapply Hw. exact Hp.
      + rewrite plive_update_other in Hl by exact Hne. eapply Hw. exact Hl.
    - destruct Hd as ([k b0] & Hp). rewrite Hp in Hl. apply plive_app_cases in Hl.
      destruct Hl as [[_ Hl]|[_ E]].
      + destruct (Nat.eq_dec h0 h) as [->|Hne]; [rewrite plive_kill_same in Hl; discriminate|].
        rewrite plive_kill_other in Hl by exact Hne. eapply Hw. exact Hl.
      + injection E as -> <-. unfold add_empty_bins. apply wf_app; [eapply Hw; exact Hp|apply new_bins_wf].
    - destruct Hd as (k & b0 & Hp & Hn). rewrite Hp in Hl. apply plive_app_cases in Hl.
      destruct Hl as [[_ Hl]|[_ E]].
      + destruct (Nat.eq_dec h0 h) as [->|Hne]; [rewrite plive_kill_same in Hl; discriminate|].
        rewrite plive_kill_other in Hl by exact Hne. eapply Hw. exact Hl.
      + injection E as -> <-. unfold remove_bins. apply wf_firstn. eapply Hw. exact Hp.
    - destruct Hd as (Hne12 & k & b1 & b2 & Hp1 & Hp2). rewrite Hp1, Hp2 in Hl. apply plive_app_cases in Hl.
      destruct Hl as [[_ Hl]|[_ E]].
      + destruct (Nat.eq_dec h2 h) as [->|Hne2]; [rewrite plive_kill_same in Hl; discriminate|].
        rewrite plive_kill_other in Hl by exact Hne2.
        destruct (Nat.eq_dec h1 h) as [->|Hne1]; [rewrite plive_kill_same in Hl; discriminate|].
        rewrite plive_kill_other in Hl by exact Hne1. eapply Hw. exact Hl.
      + injection E as -> <-. unfold concatenate_bins. apply wf_app; [eapply Hw; exact Hp1|eapply Hw; exact Hp2].
    - destruct Hd as (k & b1 & b2 & Hp1 & Hp2 & Hi1 & Hi2). rewrite Hp1, Hp2 in Hl.
      destruct (Nat.eq_dec h1 h) as [->|Hne].
      + rewrite (plive_update_same st h _ _ Hp1) in Hl. injection Hl as -> <-.
        unfold combine_bins. destruct (nth_opt b2 i2) as [x|] eqn:E2; [|eapply Hw; exact Hp1].
        apply wf_update; [eapply Hw; exact Hp1|]. intros y Hy. apply combine_bin_wf; [exact Hy|].
        eapply wf_nth_opt; [eapply Hw; exact Hp2|exact E2].
      + rewrite plive_update_other in Hl by exact Hne. eapply Hw. exact Hl.
  Qed.

  Theorem pure_run_wf : forall (ops : list op), disciplined_run valueof [] ops ->
    forall h b, plive (pure_run valueof ops) h = Some (true, b) -> wf valueof b.
  Proof.
    intros ops. unfold pure_run.
    assert (G : forall st, pstate_wf st -> disciplined_run valueof st ops -> pstate_wf (fold_left (pure_step valueof) ops st)).
    { induction ops as [|o t IH]; intros st Hw Hd; cbn [fold_left]; [exact Hw|].
      destruct Hd as [Ho Ht]. apply IH; [apply pure_step_wf; assumption|exact Ht]. }
    intros Hd. apply G; [|exact Hd]. intros h b Hl. destruct h; discriminate.
  Qed.
End Purity.

Print Assumptions pure_step_frame.
Print Assumptions pure_copy_independent.
Print Assumptions pure_sort_sorted.
Print Assumptions pure_run_wf.
