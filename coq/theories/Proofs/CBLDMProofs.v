(** Proofs about the model of prtpy/partitioning/cbldm.py (Model/CBLDM.v):
    argument validation (C19), interruption safety and validity (C11, C12),
    anytime monotonicity, totality without a limit (C01/C12), soundness of the
    two prunes and optimality over the leaves of the search tree (C12). *)
From Prtpy Require Import Base.Prelude Model.Binner Model.CBLDM Spec.Partition
     Proofs.BaseLemmas Proofs.BinnerLemmas.
From Coq Require Import Sorting.Sorted ZifyBool.

(** * Part A: pure arithmetic on signed combinations *)

Fixpoint signed_sum (signs : list bool) (xs : list Z) : Z :=
  match signs, xs with
  | s :: st, x :: xt => (if s then x else - x) + signed_sum st xt
  | _, _ => 0
  end.

Lemma zsum_cons x l : zsum (x :: l) = x + zsum l.
Proof. reflexivity. Qed.

Lemma signed_sum_bounds signs xs :
  Forall (fun x => 0 <= x) xs -> - zsum xs <= signed_sum signs xs <= zsum xs.
Proof.
  intros H. revert signs. induction H as [|x xt Hx Hxt IH]; intros [|s st];
    cbn [signed_sum]; rewrite ?zsum_cons; try (unfold zsum; simpl; lia).
  - pose proof (zsum_nonneg xt Hxt). lia.
  - specialize (IH st). destruct s; lia.
Qed.

Lemma signed_sum_In signs xs x :
  Forall (fun y => 0 <= y) xs -> length signs = length xs -> In x xs ->
  2 * x - zsum xs <= Z.abs (signed_sum signs xs).
Proof.
  intros H. revert signs. induction H as [|y yt Hy Hyt IH]; intros signs Hl Hin; [destruct Hin|].
  destruct signs as [|s st]; [discriminate Hl|]. simpl in Hl. injection Hl as Hl.
  cbn [signed_sum]. rewrite zsum_cons. destruct Hin as [->|Hin].
  - pose proof (signed_sum_bounds st yt Hyt). destruct s; lia.
  - specialize (IH st Hl Hin). destruct s; lia.
Qed.

(** the arithmetic core of both prunes: [2 max - sum] is a lower bound of every
    signed combination of non-negative numbers *)
Lemma signed_sum_prune signs xs :
  Forall (fun x => 0 <= x) xs -> length signs = length xs ->
  2 * zmax_list 0 xs - zsum xs <= Z.abs (signed_sum signs xs).
Proof.
  intros H Hl. destruct (zmax_list_in 0 xs) as [E|Hin].
  - rewrite E. pose proof (zsum_nonneg xs H). lia.
  - apply signed_sum_In; auto.
Qed.

(** signs can be normalised: a signed sum of arbitrary integers is a signed sum of
    their absolute values *)
Lemma signed_sum_abs signs xs :
  length signs = length xs ->
  exists signs', length signs' = length xs /\
                 signed_sum signs xs = signed_sum signs' (map Z.abs xs).
Proof.
  revert signs. induction xs as [|x xt IH]; intros [|s st] Hl; try discriminate Hl.
  - exists []. split; reflexivity.
  - simpl in Hl. injection Hl as Hl. destruct (IH st Hl) as (st' & Hl' & E).
    exists ((if 0 <=? x then s else negb s) :: st'). split; [simpl; lia|].
    simpl. rewrite <- E. destruct (0 <=? x) eqn:Ex; destruct s; simpl; lia.
Qed.

Lemma signed_sum_prune_abs signs xs :
  length signs = length xs ->
  2 * zmax_list 0 (map Z.abs xs) - zsum (map Z.abs xs) <= Z.abs (signed_sum signs xs).
Proof.
  intros Hl. destruct (signed_sum_abs signs xs Hl) as (signs' & Hl' & E). rewrite E.
  apply signed_sum_prune.
  - rewrite Forall_map. apply Forall_forall. intros y _. lia.
  - rewrite map_length. exact Hl'.
Qed.

(** ** Signed combinations of pairs (sum gap, count gap) with a shared sign vector *)

Inductive SC : list (Z * Z) -> Z * Z -> Prop :=
| SC_nil : SC [] (0, 0)
| SC_cons (s : bool) x y l v w v' w' :
    SC l (v, w) ->
    v' = (if s then x else - x) + v ->
    w' = (if s then y else - y) + w ->
    SC ((x, y) :: l) (v', w').

Lemma SC_signs l v : SC l v ->
  exists signs, length signs = length l /\
                fst v = signed_sum signs (map fst l) /\ snd v = signed_sum signs (map snd l).
Proof.
  induction 1 as [|s x y l v w v' w' H IH Hv Hw].
  - exists []. repeat split.
  - destruct IH as (signs & Hl & E1 & E2). exists (s :: signs). simpl in *. subst.
    split; [lia|]. split; destruct s; lia.
Qed.

Lemma signs_SC signs l : length signs = length l ->
  SC l (signed_sum signs (map fst l), signed_sum signs (map snd l)).
Proof.
  revert signs. induction l as [|[x y] l IH]; intros [|s st] Hl; try discriminate Hl.
  - constructor.
  - simpl in Hl. injection Hl as Hl. simpl. eapply (SC_cons s); [apply (IH st Hl)| |]; destruct s; reflexivity.
Qed.

Lemma SC_perm l l' v : Permutation l l' -> SC l v -> SC l' v.
Proof.
  intros P. revert v. induction P as [|[x y] l l' P IH|[x y] [x2 y2] l|l l' l'' P1 IH1 P2 IH2]; intros v H.
  - exact H.
  - inversion H as [|s x0 y0 l0 v0 w0 v' w' H0 Hv Hw]; subst.
    eapply (SC_cons s); [apply IH; exact H0| |]; reflexivity.
  - inversion H as [|s x0 y0 l0 v0 w0 v' w' H0 Hv Hw]; subst.
    inversion H0 as [|s2 x1 y1 l1 v1 w1 v2 w2 H1 Hv1 Hw1]; subst.
    eapply (SC_cons s2); [eapply (SC_cons s); [exact H1|reflexivity|reflexivity]| |]; lia.
  - auto.
Qed.

Lemma SC_flip l v w : SC l (v, w) -> SC l (- v, - w).
Proof.
  remember (v, w) as vw eqn:E. intros H. revert v w E.
  induction H as [|s x y l v0 w0 v' w' H IH Hv Hw]; intros v w E; injection E as E1 E2; subst.
  - apply SC_nil.
  - eapply (SC_cons (negb s)); [apply IH; reflexivity| |]; destruct s; simpl; lia.
Qed.

Lemma SC_head_flip x y l v : SC ((x, y) :: l) v -> SC ((- x, - y) :: l) v.
Proof.
  intros H. inversion H as [|s x0 y0 l0 v0 w0 v' w' H0 Hv Hw]; subst.
  eapply (SC_cons (negb s)); [exact H0| |]; destruct s; simpl; lia.
Qed.

(** merging two entries with either relative orientation *)
Lemma SC_merge xa ya xb yb (s : bool) l v :
  SC ((xa + (if s then xb else - xb), ya + (if s then yb else - yb)) :: l) v ->
  SC ((xa, ya) :: (xb, yb) :: l) v.
Proof.
  intros H. inversion H as [|t x0 y0 l0 v0 w0 v' w' H0 Hv Hw]; subst.
  eapply (SC_cons t); [eapply (SC_cons (if t then s else negb s)); [exact H0|reflexivity|reflexivity]| |];
    destruct t, s; simpl; lia.
Qed.

Lemma SC_unmerge xa ya xb yb l v :
  SC ((xa, ya) :: (xb, yb) :: l) v ->
  SC ((xa + xb, ya + yb) :: l) v \/ SC ((xa - xb, ya - yb) :: l) v.
Proof.
  intros H. inversion H as [|s x0 y0 l0 v0 w0 v' w' H0 Hv Hw]; subst.
  inversion H0 as [|s2 x1 y1 l1 v1 w1 v2 w2 H1 Hv1 Hw1]; subst.
  destruct s, s2.
  - left. eapply (SC_cons true); [exact H1| |]; lia.
  - right. eapply (SC_cons true); [exact H1| |]; lia.
  - right. eapply (SC_cons false); [exact H1| |]; lia.
  - left. eapply (SC_cons false); [exact H1| |]; lia.
Qed.

Lemma SC_bound_fst l v : SC l v ->
  2 * zmax_list 0 (map (fun p => Z.abs (fst p)) l) - zsum (map (fun p => Z.abs (fst p)) l) <= Z.abs (fst v).
Proof.
  intros H. destruct (SC_signs l v H) as (signs & Hl & E1 & _). rewrite E1.
  rewrite <- (map_map fst Z.abs). apply signed_sum_prune_abs. rewrite map_length. exact Hl.
Qed.

Lemma SC_bound_snd l v : SC l v ->
  2 * zmax_list 0 (map (fun p => Z.abs (snd p)) l) - zsum (map (fun p => Z.abs (snd p)) l) <= Z.abs (snd v).
Proof.
  intros H. destruct (SC_signs l v H) as (signs & Hl & _ & E2). rewrite E2.
  rewrite <- (map_map snd Z.abs). apply signed_sum_prune_abs. rewrite map_length. exact Hl.
Qed.

(** alternating signs balance a vector of ones *)
Lemma SC_ones (l : list (Z * Z)) :
  Forall (fun p => snd p = 1) l -> exists v w, SC l (v, w) /\ (w = 0 \/ w = 1).
Proof.
  induction 1 as [|[x y] l Hy Hl IH].
  - exists 0, 0. split; [constructor|auto].
  - simpl in Hy. subst y. destruct IH as (v & w & H & [->| ->]).
    + exists (x + v), 1. split; [eapply (SC_cons true); [exact H| |]; reflexivity|auto].
    + exists (- x + v), 0. split; [eapply (SC_cons false); [exact H| |]; reflexivity|auto].
Qed.

(** * Part B: the model *)

Section CBLDMProofs.
  Context {A : Type} (valueof : A -> Z).

  (** ** last element of a descending sort is a minimum *)
  Lemma last_opt_snoc {T} (l : list T) x : last_opt (l ++ [x]) = Some x.
  Proof. unfold last_opt. rewrite rev_app_distr. reflexivity. Qed.

  Lemma last_opt_nil_iff {T} (l : list T) : last_opt l = None <-> l = [].
  Proof.
    split; [|intros ->; reflexivity].
    destruct l as [|x t] using rev_ind; auto. rewrite last_opt_snoc. discriminate.
  Qed.

  Lemma sorted_desc_snoc {T} (key : T -> Z) l x :
    StronglySorted (fun a b => key b <= key a) (l ++ [x]) -> Forall (fun y => key x <= key y) (l ++ [x]).
  Proof.
    induction l as [|y t IH]; simpl; intros H.
    - constructor; [lia|constructor].
    - inversion H as [|y0 t0 Ht Hy]; subst. constructor; auto.
      rewrite Forall_forall in Hy. apply Hy. apply in_or_app. right. left. reflexivity.
  Qed.

  Lemma sort_desc_last_min (items : list A) l :
    last_opt (sort_desc valueof items) = Some l ->
    In l items /\ Forall (fun y => valueof l <= valueof y) items.
  Proof.
    intros H. pose proof (sort_desc_sorted valueof items) as S. pose proof (sort_desc_perm valueof items) as P.
    destruct (sort_desc valueof items) as [|x t] using rev_ind; [discriminate H|].
    rewrite last_opt_snoc in H. injection H as ->. split.
    - eapply Permutation_in; [exact P|]. apply in_or_app. right. left. reflexivity.
    - eapply Permutation_Forall; [exact P|]. apply sorted_desc_snoc. exact S.
  Qed.

  (** ** 1. argument validation (C19) *)
  Lemma cbldm_neg_check (items : list A) l :
    last_opt (sort_desc valueof items) = Some l ->
    (valueof l <? 0) = true <-> Exists (fun x => valueof x < 0) items.
  Proof.
    intros H. destruct (sort_desc_last_min items l H) as [Hin Hall]. split.
    - intros E. apply Exists_exists. exists l. split; [exact Hin|lia].
    - intros E. apply Exists_exists in E. destruct E as (x & Hx & Hneg).
      rewrite Forall_forall in Hall. specialize (Hall x Hx). lia.
  Qed.

  Theorem cbldm_error_iff : forall k items tl d dint limit, items <> [] ->
    ((exists e, cbldm valueof k items tl d dint limit = Err e) <->
     (k <> 2%nat \/ tl = false \/ d < 1 \/ dint = false \/ Exists (fun x => valueof x < 0) items)).
  Proof.
    intros k items tl d dint limit Hne. unfold cbldm.
    destruct (Nat.eqb k 2) eqn:Ek; cbn [negb].
    2:{ split; [intros _; left; apply Nat.eqb_neq; exact Ek|intros _; eexists; reflexivity]. }
    apply Nat.eqb_eq in Ek. destruct tl; cbn [negb].
    2:{ split; [intros _; auto|intros _; eexists; reflexivity]. }
    destruct (d <? 1) eqn:Ed; cbn [orb].
    1:{ split; [intros _; right; right; left; lia|intros _; eexists; reflexivity]. }
    destruct dint; cbn [negb].
    2:{ split; [intros _; auto|intros _; eexists; reflexivity]. }
    destruct (last_opt (sort_desc valueof items)) as [l|] eqn:El.
    2:{ exfalso. apply last_opt_nil_iff in El. apply Hne. apply Permutation_nil.
        rewrite <- El. apply sort_desc_perm. }
    pose proof (cbldm_neg_check items l El) as Hc. destruct (valueof l <? 0) eqn:En.
    - split; [intros _; right; right; right; right; apply Hc; reflexivity|intros _; eexists; reflexivity].
    - split; [intros [e He]; discriminate He|].
      intros [H|[H|[H|[H|H]]]]; try lia; try discriminate H. apply Hc in H. discriminate H.
  Qed.

  Theorem cbldm_error_kind : forall k items tl d dint limit e,
    cbldm valueof k items tl d dint limit = Err e -> items <> [] -> e = ValueError.
  Proof.
    intros k items tl d dint limit e H Hne. unfold cbldm in H.
    destruct (negb (Nat.eqb k 2)); [injection H as <-; reflexivity|].
    destruct (negb tl); [injection H as <-; reflexivity|].
    destruct ((d <? 1) || negb dint); [injection H as <-; reflexivity|].
    destruct (last_opt (sort_desc valueof items)) as [l|] eqn:El.
    - destruct (valueof l <? 0); [injection H as <-; reflexivity|discriminate H].
    - exfalso. apply last_opt_nil_iff in El. apply Hne. apply Permutation_nil.
      rewrite <- El. apply sort_desc_perm.
  Qed.

  (** the empty input is the only source of a different error *)
  Example cbldm_empty_IndexError : cbldm valueof 2 [] true 1 true None = Err IndexError.
  Proof. reflexivity. Qed.

  (** ** The recursion, one step at a time *)
  Notation subp := (@sub A).
  Notation state := (@cb_state A).

  Definition tick (st : state) : state :=
    mk_cb (cb_best st) (cb_delta st) (cb_opt st) (S (cb_ticks st)).
  Definition stop (limit : option nat) (st : state) : bool :=
    match limit with Some n => Nat.ltb n (cb_ticks st) | None => false end || cb_opt st.
  Definition leaf_step (d : Z) (p : subp) (st : state) : state :=
    if (len_diff p <=? d) && lt_delta (sum_diff p) (cb_delta st)
    then mk_cb (Some p) (Some (sum_diff p)) (sum_diff p =? 0) (cb_ticks st) else st.
  (** the quantity [2 max - sum] used by both prunes *)
  Definition prune_bound (f : subp -> Z) (subs : list subp) : Z :=
    2 * zmax_list 0 (map f subs) - zsum (map f subs).
  Definition pruned (d : Z) (subs : list subp) (st : state) : bool :=
    ge_delta (prune_bound sum_diff subs) (cb_delta st) || (d <? prune_bound len_diff subs).
  Definition reorder (n : nat) (subs : list subp) : list subp :=
    if Nat.leb (length subs) (Nat.div (n + 1) 2) then sort_asc (fun s => - sum_diff s) subs else subs.
  Definition merge_bin (x y : bin A) : bin A := combine_bin (combine_bin empty_bin x) y.
  Definition mk_comb (a b : subp) : subp :=
    sort_bins (pair_bins (merge_bin (bin_at a 0) (bin_at b 0)) (merge_bin (bin_at a 1) (bin_at b 1))).
  Definition mk_split (a b : subp) : subp :=
    sort_bins (pair_bins (merge_bin (bin_at a 1) (bin_at b 0)) (merge_bin (bin_at a 0) (bin_at b 1))).

  Lemma if_orb {T} (a b : bool) (X Y : T) :
    (if a then X else if b then X else Y) = (if a || b then X else Y).
  Proof. destruct a; reflexivity. Qed.

  Lemma cb_part_unfold n d limit fuel subs st :
    cb_part n d limit fuel subs st =
    if stop limit (tick st) then tick st else
    match subs with
    | [] => tick st
    | [p] => leaf_step d p (tick st)
    | _ :: _ :: _ =>
        if pruned d subs (tick st) then tick st else
        match fuel, reorder n subs with
        | S f, a :: b :: rest =>
            cb_part n d limit f (rest ++ [mk_comb a b])
                    (cb_part n d limit f (rest ++ [mk_split a b]) (tick st))
        | _, _ => tick st
        end
    end.
  Proof.
    destruct fuel as [|f]; cbn [cb_part]; fold (tick st); fold (stop limit (tick st)).
    all: destruct (stop limit (tick st)); [reflexivity|].
    all: destruct subs as [|p [|q r]]; try reflexivity.
    all: unfold pruned, prune_bound; apply if_orb.
  Qed.

  Lemma reorder_perm n subs : Permutation (reorder n subs) subs.
  Proof. unfold reorder. destruct (Nat.leb _ _); [apply sort_asc_perm|reflexivity]. Qed.

  Lemma reorder_length n subs : length (reorder n subs) = length subs.
  Proof. apply Permutation_length, reorder_perm. Qed.

  (** ** Structural facts on two-bin sub-partitions *)
  Definition sub_ok (s : subp) : Prop := length s = 2%nat /\ wf valueof s.
  Definition all_contents (subs : list subp) : list A := concat (map contents subs).
  Definition subs_ok (items : list A) (subs : list subp) : Prop :=
    Forall sub_ok subs /\ Permutation (all_contents subs) items.

  Lemma contents_two (a : subp) : length a = 2%nat -> contents a = snd (bin_at a 0) ++ snd (bin_at a 1).
  Proof.
    destruct a as [|x [|y [|z t]]]; simpl; intros H; try discriminate H.
    unfold contents, lists. simpl. rewrite app_nil_r. reflexivity.
  Qed.

  Lemma bin_at_wf (s : subp) i : wf valueof s -> wf_bin valueof (bin_at s i).
  Proof.
    unfold bin_at, wf. intros H. destruct (nth_in_or_default i s empty_bin) as [Hin|E].
    - rewrite Forall_forall in H. apply H. exact Hin.
    - rewrite E. reflexivity.
  Qed.

  Lemma merge_bin_wf x y : wf_bin valueof x -> wf_bin valueof y -> wf_bin valueof (merge_bin x y).
  Proof.
    intros Hx Hy. unfold merge_bin. apply combine_bin_wf; [|exact Hy].
    apply combine_bin_wf; [reflexivity|exact Hx].
  Qed.

  Lemma merge_bin_fst x y : fst (merge_bin x y) = fst x + fst y.
  Proof. unfold merge_bin, combine_bin, empty_bin. simpl. lia. Qed.

  Lemma merge_bin_snd x y : snd (merge_bin x y) = snd x ++ snd y.
  Proof. reflexivity. Qed.

  Lemma sort_bins_two (x y : bin A) :
    sort_bins (pair_bins x y) = if fst x <=? fst y then [x; y] else [y; x].
  Proof. reflexivity. Qed.

  Lemma pair_sorted_ok x y : wf_bin valueof x -> wf_bin valueof y -> sub_ok (sort_bins (pair_bins x y)).
  Proof.
    intros Hx Hy. split; [rewrite sort_bins_length; reflexivity|].
    apply sort_bins_wf. unfold pair_bins. repeat constructor; assumption.
  Qed.

  Lemma pair_sorted_contents (x y : bin A) :
    Permutation (contents (sort_bins (pair_bins x y))) (snd x ++ snd y).
  Proof.
    rewrite sort_bins_contents. unfold pair_bins, contents, lists. simpl. rewrite app_nil_r. reflexivity.
  Qed.

  Lemma mk_split_ok a b : sub_ok a -> sub_ok b ->
    sub_ok (mk_split a b) /\ Permutation (contents (mk_split a b)) (contents a ++ contents b).
  Proof.
    intros [La Wa] [Lb Wb]. split.
    - apply pair_sorted_ok; apply merge_bin_wf; apply bin_at_wf; assumption.
    - unfold mk_split. rewrite pair_sorted_contents, !merge_bin_snd.
      rewrite (contents_two a La), (contents_two b Lb). rewrite <- !app_assoc.
      etransitivity; [|apply Permutation_app_swap_app].
      apply Permutation_app_head. apply Permutation_app_swap_app.
  Qed.

  Lemma mk_comb_ok a b : sub_ok a -> sub_ok b ->
    sub_ok (mk_comb a b) /\ Permutation (contents (mk_comb a b)) (contents a ++ contents b).
  Proof.
    intros [La Wa] [Lb Wb]. split.
    - apply pair_sorted_ok; apply merge_bin_wf; apply bin_at_wf; assumption.
    - unfold mk_comb. rewrite pair_sorted_contents, !merge_bin_snd.
      rewrite (contents_two a La), (contents_two b Lb). rewrite <- !app_assoc.
      apply Permutation_app_head. apply Permutation_app_swap_app.
  Qed.

  Lemma all_contents_perm subs subs' :
    Permutation subs subs' -> Permutation (all_contents subs) (all_contents subs').
  Proof.
    unfold all_contents. induction 1 as [|x l l' P IH|x y l|l l' l'' P1 IH1 P2 IH2]; simpl.
    - reflexivity.
    - apply Permutation_app_head. exact IH.
    - rewrite !app_assoc. apply Permutation_app_tail. apply Permutation_app_comm.
    - etransitivity; eassumption.
  Qed.

  Lemma subs_ok_perm items subs subs' : Permutation subs subs' -> subs_ok items subs -> subs_ok items subs'.
  Proof.
    intros P [H1 H2]. split.
    - eapply Permutation_Forall; eassumption.
    - rewrite <- (all_contents_perm subs subs' P). exact H2.
  Qed.

  Lemma subs_ok_child items a b rest c :
    subs_ok items (a :: b :: rest) ->
    sub_ok c /\ Permutation (contents c) (contents a ++ contents b) ->
    subs_ok items (rest ++ [c]).
  Proof.
    intros [H1 H2] [Hc Pc]. inversion H1 as [|a0 l0 Ha H1']; subst. inversion H1' as [|b0 l1 Hb Hr]; subst.
    split.
    - apply Forall_app. split; [exact Hr|]. constructor; [exact Hc|constructor].
    - rewrite <- H2. unfold all_contents. rewrite map_app, concat_app. simpl. rewrite app_nil_r.
      rewrite Pc. etransitivity; [apply Permutation_app_comm|]. rewrite <- app_assoc. reflexivity.
  Qed.

  Lemma subs_ok_split n items subs a b rest :
    subs_ok items subs -> reorder n subs = a :: b :: rest -> subs_ok items (rest ++ [mk_split a b]).
  Proof.
    intros H E. assert (H' : subs_ok items (a :: b :: rest)).
    { rewrite <- E. eapply subs_ok_perm; [symmetry; apply reorder_perm|exact H]. }
    eapply subs_ok_child; [exact H'|]. destruct H' as [H1 _].
    inversion H1 as [|a0 l0 Ha H1']; subst. inversion H1' as [|b0 l1 Hb Hr]; subst.
    apply mk_split_ok; assumption.
  Qed.

  Lemma subs_ok_comb n items subs a b rest :
    subs_ok items subs -> reorder n subs = a :: b :: rest -> subs_ok items (rest ++ [mk_comb a b]).
  Proof.
    intros H E. assert (H' : subs_ok items (a :: b :: rest)).
    { rewrite <- E. eapply subs_ok_perm; [symmetry; apply reorder_perm|exact H]. }
    eapply subs_ok_child; [exact H'|]. destruct H' as [H1 _].
    inversion H1 as [|a0 l0 Ha H1']; subst. inversion H1' as [|b0 l1 Hb Hr]; subst.
    apply mk_comb_ok; assumption.
  Qed.

  Lemma subs_ok_leaf items p : subs_ok items [p] -> is_partition valueof 2 items p.
  Proof.
    intros [H1 H2]. inversion H1 as [|p0 l0 [Lp Wp] _]; subst.
    unfold all_contents in H2. simpl in H2. rewrite app_nil_r in H2. split; [exact H2|split; assumption].
  Qed.

  (** ** Signed gaps: the pair (sum gap, count gap) of a sub-partition *)
  Definition blen (x : bin A) : Z := Z.of_nat (length (snd x)).
  Definition ssum (p : subp) : Z := fst (bin_at p 1) - fst (bin_at p 0).
  Definition slen (p : subp) : Z := blen (bin_at p 1) - blen (bin_at p 0).
  Definition gauge (p : subp) : Z * Z := (ssum p, slen p).

  Lemma sum_diff_abs p : sum_diff p = Z.abs (ssum p).
  Proof. unfold sum_diff, ssum. lia. Qed.
  Lemma len_diff_abs p : len_diff p = Z.abs (slen p).
  Proof. unfold len_diff, slen, blen. lia. Qed.

  Lemma merge_bin_blen x y : blen (merge_bin x y) = blen x + blen y.
  Proof. unfold blen. rewrite merge_bin_snd, app_length. lia. Qed.

  Lemma gauge_pair_sorted (x y : bin A) :
    exists s : bool, gauge (sort_bins (pair_bins x y)) =
      if s then (fst y - fst x, blen y - blen x) else (fst x - fst y, blen x - blen y).
  Proof.
    rewrite sort_bins_two. destruct (fst x <=? fst y); [exists true|exists false]; reflexivity.
  Qed.

  Lemma gauge_comb a b : exists s : bool, gauge (mk_comb a b) =
    if s then (ssum a + ssum b, slen a + slen b) else (- (ssum a + ssum b), - (slen a + slen b)).
  Proof.
    unfold mk_comb. destruct (gauge_pair_sorted (merge_bin (bin_at a 0) (bin_at b 0)) (merge_bin (bin_at a 1) (bin_at b 1))) as [s E].
    exists s. rewrite E. rewrite !merge_bin_fst, !merge_bin_blen. unfold ssum, slen.
    destruct s; f_equal; lia.
  Qed.

  Lemma gauge_split a b : exists s : bool, gauge (mk_split a b) =
    if s then (ssum a - ssum b, slen a - slen b) else (- (ssum a - ssum b), - (slen a - slen b)).
  Proof.
    unfold mk_split. destruct (gauge_pair_sorted (merge_bin (bin_at a 1) (bin_at b 0)) (merge_bin (bin_at a 0) (bin_at b 1))) as [s E].
    exists (negb s). rewrite E. rewrite !merge_bin_fst, !merge_bin_blen. unfold ssum, slen.
    destruct s; simpl; f_equal; lia.
  Qed.

  (** every sub-partition built by a node is sorted by sum *)
  Lemma pair_sorted_sorted (x y : bin A) : 0 <= ssum (sort_bins (pair_bins x y)).
  Proof. rewrite sort_bins_two. destruct (fst x <=? fst y) eqn:E; unfold ssum, bin_at; cbn [nth]; lia. Qed.

  Lemma mk_split_sorted a b : 0 <= ssum (mk_split a b).
  Proof. apply pair_sorted_sorted. Qed.
  Lemma mk_comb_sorted a b : 0 <= ssum (mk_comb a b).
  Proof. apply pair_sorted_sorted. Qed.

  (** 5 (bridging): with both inputs sorted by sum, the children's sum gaps are
      [|x_a - x_b|] (split) and [x_a + x_b] (combined) *)
  Lemma sum_diff_split a b : sum_diff (mk_split a b) = Z.abs (ssum a - ssum b).
  Proof.
    rewrite sum_diff_abs. destruct (gauge_split a b) as [s E]. unfold gauge in E.
    destruct s; injection E as E1 E2; lia.
  Qed.
  Lemma sum_diff_comb a b : sum_diff (mk_comb a b) = Z.abs (ssum a + ssum b).
  Proof.
    rewrite sum_diff_abs. destruct (gauge_comb a b) as [s E]. unfold gauge in E.
    destruct s; injection E as E1 E2; lia.
  Qed.
  Lemma sum_diff_split_sorted a b : 0 <= ssum a -> 0 <= ssum b ->
    sum_diff (mk_split a b) = Z.abs (sum_diff a - sum_diff b).
  Proof. intros Ha Hb. rewrite sum_diff_split, !sum_diff_abs. lia. Qed.
  Lemma sum_diff_comb_sorted a b : 0 <= ssum a -> 0 <= ssum b ->
    sum_diff (mk_comb a b) = sum_diff a + sum_diff b.
  Proof. intros Ha Hb. rewrite sum_diff_comb, !sum_diff_abs. lia. Qed.
  Lemma len_diff_split a b : len_diff (mk_split a b) = Z.abs (slen a - slen b).
  Proof.
    rewrite len_diff_abs. destruct (gauge_split a b) as [s E]. unfold gauge in E.
    destruct s; injection E as E1 E2; lia.
  Qed.
  Lemma len_diff_comb a b : len_diff (mk_comb a b) = Z.abs (slen a + slen b).
  Proof.
    rewrite len_diff_abs. destruct (gauge_comb a b) as [s E]. unfold gauge in E.
    destruct s; injection E as E1 E2; lia.
  Qed.

  (** ** The leaves of the search tree (no pruning, no interruption) *)
  Inductive leaf_below (n : nat) : list subp -> subp -> Prop :=
  | LB_leaf p : leaf_below n [p] p
  | LB_split subs a b rest p :
      reorder n subs = a :: b :: rest -> leaf_below n (rest ++ [mk_split a b]) p -> leaf_below n subs p
  | LB_comb subs a b rest p :
      reorder n subs = a :: b :: rest -> leaf_below n (rest ++ [mk_comb a b]) p -> leaf_below n subs p.

  Lemma SC_head_eq x y x' y' l v : SC ((x, y) :: l) v ->
    (x' = x /\ y' = y) \/ (x' = - x /\ y' = - y) -> SC ((x', y') :: l) v.
  Proof.
    intros H [[-> ->]|[-> ->]]; [exact H|apply SC_head_flip; exact H].
  Qed.

  Lemma SC_merge_eq xa ya xb yb (s : bool) x y l v :
    SC ((x, y) :: l) v ->
    x = xa + (if s then xb else - xb) -> y = ya + (if s then yb else - yb) ->
    SC ((xa, ya) :: (xb, yb) :: l) v.
  Proof. intros H -> ->. eapply SC_merge. exact H. Qed.

  Lemma SC_snoc_cons (g : Z * Z) l v : SC (l ++ [g]) v <-> SC (g :: l) v.
  Proof.
    split; apply SC_perm; [symmetry|]; apply Permutation_cons_append.
  Qed.

  (** a leaf's signed gaps are a signed combination of the node's *)
  Lemma leaf_SC n subs p : leaf_below n subs p -> SC (map gauge subs) (gauge p).
  Proof.
    induction 1 as [p|subs a b rest p E H IH|subs a b rest p E H IH].
    - simpl. unfold gauge. eapply (SC_cons true); [apply SC_nil| |]; lia.
    - eapply SC_perm; [apply Permutation_map; apply reorder_perm|]. rewrite E.
      rewrite map_app in IH. simpl in IH. apply SC_snoc_cons in IH. simpl.
      destruct (gauge_split a b) as [s Es]. rewrite Es in IH.
      unfold gauge at 1 2. eapply (SC_merge_eq _ _ _ _ false (ssum a - ssum b) (slen a - slen b)); [|lia|lia].
      destruct s; [exact IH|]. eapply SC_head_eq; [exact IH|]. right. split; lia.
    - eapply SC_perm; [apply Permutation_map; apply reorder_perm|]. rewrite E.
      rewrite map_app in IH. simpl in IH. apply SC_snoc_cons in IH. simpl.
      destruct (gauge_comb a b) as [s Es]. rewrite Es in IH.
      unfold gauge at 1 2. eapply (SC_merge_eq _ _ _ _ true (ssum a + ssum b) (slen a + slen b)); [|lia|lia].
      destruct s; [exact IH|]. eapply SC_head_eq; [exact IH|]. right. split; lia.
  Qed.

  (** conversely every signed combination is realised (up to a global sign) by a leaf *)
  Lemma SC_leaf n m : forall subs v w, length subs = S m -> SC (map gauge subs) (v, w) ->
    exists p, leaf_below n subs p /\ (gauge p = (v, w) \/ gauge p = (- v, - w)).
  Proof.
    induction m as [|m IH]; intros subs v w Hl H.
    - destruct subs as [|p [|q r]]; try discriminate Hl. exists p. split; [constructor|].
      simpl in H. inversion H as [|s x y l v0 w0 v' w' H0 Hv Hw]; subst.
      inversion H0; subst. unfold gauge. destruct s; [left|right]; f_equal; lia.
    - pose proof (reorder_length n subs) as Hr.
      destruct (reorder n subs) as [|a [|b rest]] eqn:E; simpl in Hr; try lia.
      assert (H' : SC (map gauge (a :: b :: rest)) (v, w)).
      { rewrite <- E. eapply SC_perm; [apply Permutation_map; symmetry; apply reorder_perm|exact H]. }
      simpl in H'. unfold gauge at 1 2 in H'. apply SC_unmerge in H'. destruct H' as [H'|H'].
      + destruct (gauge_comb a b) as [s Es].
        assert (Hc : SC (map gauge (rest ++ [mk_comb a b])) (v, w)).
        { rewrite map_app. simpl. apply SC_snoc_cons. rewrite Es.
          destruct s; [exact H'|]. eapply SC_head_eq; [exact H'|]. right. split; reflexivity. }
        destruct (IH (rest ++ [mk_comb a b]) v w) as (p & Hp & Hg); [rewrite app_length; simpl; lia|exact Hc|].
        exists p. split; [eapply LB_comb; eassumption|exact Hg].
      + destruct (gauge_split a b) as [s Es].
        assert (Hc : SC (map gauge (rest ++ [mk_split a b])) (v, w)).
        { rewrite map_app. simpl. apply SC_snoc_cons. rewrite Es.
          destruct s; [exact H'|]. eapply SC_head_eq; [exact H'|]. right. split; reflexivity. }
        destruct (IH (rest ++ [mk_split a b]) v w) as (p & Hp & Hg); [rewrite app_length; simpl; lia|exact Hc|].
        exists p. split; [eapply LB_split; eassumption|exact Hg].
  Qed.

  Lemma leaf_below_nonempty n subs p : leaf_below n subs p -> subs <> [].
  Proof.
    intros H E. subst. inversion H as [|subs a b rest p0 Er _|subs a b rest p0 Er _]; subst;
      pose proof (reorder_length n []) as Hr; rewrite Er in Hr; discriminate Hr.
  Qed.

  Lemma leaf_below_single n q p : leaf_below n [q] p -> p = q.
  Proof.
    intros H. inversion H as [|subs a b rest p0 Er _|subs a b rest p0 Er _]; subst; auto;
      pose proof (reorder_length n [q]) as Hr; rewrite Er in Hr; discriminate Hr.
  Qed.

  (** ** 5. The sum prune and 4(i). the count prune are sound: [2 max - sum] of the
      node's gaps is a lower bound of the gap of every leaf below the node *)
  Theorem sum_prune_sound n subs p : leaf_below n subs p -> prune_bound sum_diff subs <= sum_diff p.
  Proof.
    intros H. apply leaf_SC in H. apply SC_bound_fst in H. rewrite !map_map in H.
    unfold prune_bound. rewrite sum_diff_abs.
    rewrite (map_ext sum_diff (fun x => Z.abs (fst (gauge x)))); [exact H|].
    intros q. apply sum_diff_abs.
  Qed.

  Theorem len_prune_sound n subs p : leaf_below n subs p -> prune_bound len_diff subs <= len_diff p.
  Proof.
    intros H. apply leaf_SC in H. apply SC_bound_snd in H. rewrite !map_map in H.
    unfold prune_bound. rewrite len_diff_abs.
    rewrite (map_ext len_diff (fun x => Z.abs (snd (gauge x)))); [exact H|].
    intros q. apply len_diff_abs.
  Qed.

  (** the arithmetic statement in the form asked for: sum gaps [xs] of the node,
      any sign vector *)
  Theorem sum_prune_arith : forall signs xs, Forall (fun x => 0 <= x) xs -> length signs = length xs ->
    2 * zmax_list 0 xs - zsum xs <= Z.abs (signed_sum signs xs).
  Proof. exact signed_sum_prune. Qed.

  (** and every leaf's sum gap is such a signed combination of the node's sum gaps *)
  Theorem leaf_signed_sum n subs p : leaf_below n subs p ->
    exists signs, length signs = length subs /\
                  sum_diff p = Z.abs (signed_sum signs (map sum_diff subs)) /\
                  Forall (fun x => 0 <= x) (map sum_diff subs).
  Proof.
    intros H. apply leaf_SC in H. apply SC_signs in H. destruct H as (signs & Hl & E1 & _).
    rewrite map_length in Hl. simpl in E1. rewrite map_map in E1.
    destruct (signed_sum_abs signs (map (fun x => fst (gauge x)) subs)) as (signs' & Hl' & E'); [rewrite map_length; exact Hl|].
    rewrite map_length in Hl'. exists signs'. split; [exact Hl'|]. split.
    - rewrite sum_diff_abs, E1, E'. rewrite map_map.
      rewrite (map_ext sum_diff (fun x => Z.abs (fst (gauge x)))); [reflexivity|]. intros q. apply sum_diff_abs.
    - rewrite Forall_map. apply Forall_forall. intros q _. rewrite sum_diff_abs. lia.
  Qed.

  (** ** Big-step view of [cb_part].  [strict = true]: the fuel never runs out. *)
  Section Run.
    Variables (n : nat) (d : Z) (limit : option nat).

    Inductive cb_run (strict : bool) : list subp -> state -> state -> Prop :=
    | R_stop subs st : stop limit (tick st) = true -> cb_run strict subs st (tick st)
    | R_nil st : stop limit (tick st) = false -> cb_run strict [] st (tick st)
    | R_leaf p st : stop limit (tick st) = false -> cb_run strict [p] st (leaf_step d p (tick st))
    | R_prune subs st : (2 <= length subs)%nat -> stop limit (tick st) = false ->
        pruned d subs (tick st) = true -> cb_run strict subs st (tick st)
    | R_node subs st a b rest st1 st2 : (2 <= length subs)%nat -> stop limit (tick st) = false ->
        pruned d subs (tick st) = false -> reorder n subs = a :: b :: rest ->
        cb_run strict (rest ++ [mk_split a b]) (tick st) st1 ->
        cb_run strict (rest ++ [mk_comb a b]) st1 st2 ->
        cb_run strict subs st st2
    | R_nofuel subs st : strict = false -> (2 <= length subs)%nat -> stop limit (tick st) = false ->
        pruned d subs (tick st) = false -> cb_run strict subs st (tick st).

    Lemma cb_run_lax strict subs st st' : cb_run strict subs st st' -> cb_run false subs st st'.
    Proof.
      induction 1 as [subs st H|st H|p st H|subs st Hl H Hp|subs st a b rest st1 st2 Hl H Hp E _ IH1 _ IH2|subs st _ Hl H Hp].
      - apply R_stop; assumption.
      - apply R_nil; assumption.
      - apply R_leaf; assumption.
      - apply R_prune; assumption.
      - eapply R_node; eassumption.
      - apply R_nofuel; auto.
    Qed.

    Lemma cb_part_run_gen strict fuel : forall subs st,
      (strict = true -> (length subs <= S fuel)%nat) ->
      cb_run strict subs st (cb_part n d limit fuel subs st).
    Proof.
      induction fuel as [|f IH]; intros subs st Hf; rewrite cb_part_unfold.
      - destruct (stop limit (tick st)) eqn:Es; [apply R_stop; exact Es|].
        destruct subs as [|p [|q r]]; [apply R_nil; exact Es|apply R_leaf; exact Es|].
        destruct (pruned d (p :: q :: r) (tick st)) eqn:Ep; [apply R_prune; simpl; auto; lia|].
        destruct strict; [specialize (Hf eq_refl); simpl in Hf; lia|].
        apply R_nofuel; simpl; auto; lia.
      - destruct (stop limit (tick st)) eqn:Es; [apply R_stop; exact Es|].
        destruct subs as [|p [|q r]]; [apply R_nil; exact Es|apply R_leaf; exact Es|].
        destruct (pruned d (p :: q :: r) (tick st)) eqn:Ep; [apply R_prune; simpl; auto; lia|].
        pose proof (reorder_length n (p :: q :: r)) as Hr.
        destruct (reorder n (p :: q :: r)) as [|a [|b rest]] eqn:E; simpl in Hr; try lia.
        eapply R_node; [simpl; lia|exact Es|exact Ep|exact E| |].
        + apply IH. intros Hs. specialize (Hf Hs). simpl in Hf. rewrite app_length. simpl. lia.
        + apply IH. intros Hs. specialize (Hf Hs). simpl in Hf. rewrite app_length. simpl. lia.
    Qed.

    Lemma cb_part_run fuel subs st : (length subs <= S fuel)%nat ->
      cb_run true subs st (cb_part n d limit fuel subs st).
    Proof. intros H. apply cb_part_run_gen. intros _. exact H. Qed.

    Lemma cb_part_run_lax fuel subs st : cb_run false subs st (cb_part n d limit fuel subs st).
    Proof. apply cb_part_run_gen. intros H. discriminate H. Qed.

    (** *** state invariants *)
    (** incumbent and its recorded gap agree; the optimality flag means gap 0 *)
    Definition coherent (st : state) : Prop :=
      match cb_best st, cb_delta st with
      | None, None => cb_opt st = false
      | Some p, Some v => v = sum_diff p /\ (cb_opt st = true -> v = 0)
      | _, _ => False
      end.

    Definition delta_le (a b : option Z) : Prop :=
      match a, b with
      | _, None => True
      | Some x, Some y => x <= y
      | None, Some _ => False
      end.
    Definition delta_lt (a b : option Z) : Prop :=
      match a, b with
      | Some x, None => True
      | Some x, Some y => x < y
      | None, _ => False
      end.

    Lemma delta_le_refl a : delta_le a a.
    Proof. destruct a; simpl; lia. Qed.
    Lemma delta_le_trans a b c : delta_le a b -> delta_le b c -> delta_le a c.
    Proof. destruct a, b, c; simpl; try lia; tauto. Qed.
    Lemma delta_lt_trans a b c : delta_lt a b -> delta_lt b c -> delta_lt a c.
    Proof. destruct a, b, c; simpl; try lia; tauto. Qed.
    Lemma delta_lt_le a b : delta_lt a b -> delta_le a b.
    Proof. destruct a, b; simpl; try lia; tauto. Qed.

    Lemma leaf_step_ticks p st : cb_ticks (leaf_step d p st) = cb_ticks st.
    Proof. unfold leaf_step. destruct (_ && _); reflexivity. Qed.

    Lemma leaf_step_coherent p st : coherent st -> coherent (leaf_step d p st).
    Proof.
      intros H. unfold leaf_step. destruct (_ && _); [|exact H].
      unfold coherent. simpl. split; [reflexivity|]. intros E. lia.
    Qed.

    (** a step either leaves the incumbent alone or strictly improves it *)
    Definition unchanged_or_better (st st' : state) : Prop :=
      (cb_best st' = cb_best st /\ cb_delta st' = cb_delta st /\ cb_opt st' = cb_opt st) \/
      delta_lt (cb_delta st') (cb_delta st).

    Lemma leaf_step_mono p st : unchanged_or_better st (leaf_step d p st).
    Proof.
      unfold leaf_step. destruct (len_diff p <=? d); cbn [andb]; [|left; auto].
      destruct (lt_delta (sum_diff p) (cb_delta st)) eqn:E; [|left; auto].
      right. simpl. unfold lt_delta in E. destruct (cb_delta st); simpl; [lia|exact I].
    Qed.

    Lemma uob_trans st st1 st2 : unchanged_or_better st st1 -> unchanged_or_better st1 st2 ->
      unchanged_or_better st st2.
    Proof.
      intros [(E1 & E2 & E3)|H1] [(F1 & F2 & F3)|H2].
      - left. repeat split; congruence.
      - right. rewrite <- E2. exact H2.
      - right. rewrite F2. exact H1.
      - right. eapply delta_lt_trans; eassumption.
    Qed.

    Lemma run_ticks strict subs st st' : cb_run strict subs st st' -> (cb_ticks st < cb_ticks st')%nat.
    Proof.
      induction 1 as [subs st H|st H|p st H|subs st Hl H Hp|subs st a b rest st1 st2 Hl H Hp E _ IH1 _ IH2|subs st _ Hl H Hp];
        try (simpl; lia).
      - rewrite leaf_step_ticks. simpl. lia.
      - simpl in IH1. lia.
    Qed.

    Lemma run_coherent strict subs st st' : cb_run strict subs st st' -> coherent st -> coherent st'.
    Proof.
      induction 1 as [subs st H|st H|p st H|subs st Hl H Hp|subs st a b rest st1 st2 Hl H Hp E _ IH1 _ IH2|subs st _ Hl H Hp];
        intros Hc; auto.
      apply leaf_step_coherent. exact Hc.
    Qed.

    Lemma run_mono strict subs st st' : cb_run strict subs st st' -> unchanged_or_better st st'.
    Proof.
      induction 1 as [subs st H|st H|p st H|subs st Hl H Hp|subs st a b rest st1 st2 Hl H Hp E _ IH1 _ IH2|subs st _ Hl H Hp];
        try (left; repeat split; reflexivity).
      - apply (uob_trans st (tick st)); [left; repeat split; reflexivity|apply leaf_step_mono].
      - apply (uob_trans st (tick st)); [left; repeat split; reflexivity|].
        eapply uob_trans; eassumption.
    Qed.

    Lemma uob_delta_le st st' : unchanged_or_better st st' -> delta_le (cb_delta st') (cb_delta st).
    Proof. intros [(_ & E & _)|H]; [rewrite E; apply delta_le_refl|apply delta_lt_le; exact H]. Qed.

    (** *** 2. safety: the incumbent is always a valid balanced partition *)
    Definition best_ok (items : list A) (st : state) : Prop :=
      forall p, cb_best st = Some p -> is_partition valueof 2 items p /\ len_diff p <= d.

    Lemma run_safe items strict subs st st' : cb_run strict subs st st' ->
      subs_ok items subs -> best_ok items st -> best_ok items st'.
    Proof.
      induction 1 as [subs st H|st H|p st H|subs st Hl H Hp|subs st a b rest st1 st2 Hl H Hp E _ IH1 _ IH2|subs st _ Hl H Hp];
        intros Hs Hb; auto.
      - unfold leaf_step. destruct (len_diff p <=? d) eqn:El; cbn [andb]; [|exact Hb].
        destruct (lt_delta _ _); [|exact Hb]. intros q Hq. simpl in Hq. injection Hq as <-.
        split; [apply subs_ok_leaf; exact Hs|lia].
      - apply IH2; [eapply subs_ok_comb; eassumption|].
        apply IH1; [eapply subs_ok_split; eassumption|exact Hb].
    Qed.
  End Run.

  (** ** The root of the search *)
  Definition init_subs (sorted : list A) : list subp :=
    map (fun x => add_item valueof true (new_bins 2) x 1) sorted.
  Definition init_state : state := mk_cb None None false O.

  Lemma init_sub_eq x : add_item valueof true (new_bins 2) x 1 = [(0, []); (0 + valueof x, [x])].
  Proof. reflexivity. Qed.

  Lemma init_subs_ok items sorted : Permutation sorted items -> subs_ok items (init_subs sorted).
  Proof.
    intros P. split.
    - unfold init_subs. rewrite Forall_map. apply Forall_forall. intros x _. split.
      + rewrite add_item_length. apply new_bins_length.
      + apply add_item_wf. apply new_bins_wf.
    - rewrite <- P. clear P. unfold all_contents, init_subs. induction sorted as [|x t IH]; simpl; [reflexivity|].
      apply perm_skip. exact IH.
  Qed.

  Lemma init_subs_gauge sorted : Forall (fun g => snd g = 1) (map gauge (init_subs sorted)).
  Proof.
    unfold init_subs. rewrite !Forall_map. apply Forall_forall. intros x _. reflexivity.
  Qed.

  Lemma init_subs_sorted sorted : Forall (fun x => 0 <= valueof x) sorted ->
    Forall (fun s => 0 <= ssum s) (init_subs sorted).
  Proof.
    intros H. unfold init_subs. rewrite Forall_map. eapply Forall_impl; [|exact H].
    intros x Hx. cbv beta in Hx |- *. rewrite init_sub_eq. unfold ssum, bin_at. cbn [nth fst]. lia.
  Qed.

  Lemma init_state_coherent : coherent init_state.
  Proof. reflexivity. Qed.

  (** a leaf with count gap at most 1 exists below any root of singletons *)
  Lemma root_balanced_leaf n sorted : sorted <> [] ->
    exists p, leaf_below n (init_subs sorted) p /\ len_diff p <= 1.
  Proof.
    intros Hne. destruct (SC_ones _ (init_subs_gauge sorted)) as (v & w & H & Hw).
    assert (Hl : exists m, length (init_subs sorted) = S m).
    { unfold init_subs. rewrite map_length. destruct sorted as [|x t]; [congruence|]. exists (length t). reflexivity. }
    destruct Hl as [m Hl]. destruct (SC_leaf n m _ v w Hl H) as (p & Hp & Hg).
    exists p. split; [exact Hp|]. rewrite len_diff_abs. unfold gauge in Hg.
    destruct Hg as [Hg|Hg]; injection Hg as _ E; lia.
  Qed.

  (** ** 2. Safety at every interruption point (C11, C12) *)
  Theorem cbldm_safe_gen : forall k items tl d dint limit out t,
    cbldm valueof k items tl d dint limit = Ok (out, t) ->
    out = CbPlaceholder \/
    exists b, out = CbBins b /\ is_partition valueof 2 items b /\ len_diff b <= d.
  Proof.
    intros k items tl d dint limit out t H. unfold cbldm in H.
    destruct (negb (Nat.eqb k 2)); [discriminate H|].
    destruct (negb tl); [discriminate H|].
    destruct ((d <? 1) || negb dint); [discriminate H|].
    destruct (last_opt (sort_desc valueof items)) as [l|]; [|discriminate H].
    destruct (valueof l <? 0); [discriminate H|].
    injection H as <- _.
    fold (init_subs (sort_desc valueof items)). fold init_state.
    set (st' := cb_part _ _ _ _ _ _).
    assert (Hb : best_ok d items st').
    { eapply run_safe; [apply cb_part_run_lax| |].
      - apply init_subs_ok. apply sort_desc_perm.
      - intros p Hp. discriminate Hp. }
    destruct (cb_best st') as [b|] eqn:Eb; [right|left; reflexivity].
    exists b. split; [reflexivity|]. apply Hb. exact Eb.
  Qed.

  Theorem cbldm_safe : forall items d limit out t,
    Forall (fun x => 0 <= valueof x) items -> items <> [] -> 1 <= d ->
    cbldm valueof 2 items true d true limit = Ok (out, t) ->
    out = CbPlaceholder \/
    exists b, out = CbBins b /\ is_partition valueof 2 items b /\ len_diff b <= d.
  Proof. intros items d limit out t _ _ _ H. eapply cbldm_safe_gen. exact H. Qed.

  (** ** 3a. The incumbent only improves *)
  Lemma coherent_best st p : coherent st -> cb_best st = Some p -> cb_delta st = Some (sum_diff p).
  Proof.
    unfold coherent. intros H E. rewrite E in H. destruct (cb_delta st) as [v|]; [|destruct H].
    destruct H as [-> _]. reflexivity.
  Qed.

  Lemma coherent_delta st v : coherent st -> cb_delta st = Some v ->
    exists p, cb_best st = Some p /\ v = sum_diff p.
  Proof.
    unfold coherent. intros H E. rewrite E in H. destruct (cb_best st) as [p|]; [|destruct H].
    exists p. split; [reflexivity|apply H].
  Qed.

  (** within any (sub-)run: the incumbent and its gap are untouched, or the gap has
      strictly decreased; the recorded gap is the incumbent's gap *)
  Theorem cbldm_delta_mono : forall n d limit fuel subs st,
    coherent st ->
    let st' := cb_part n d limit fuel subs st in
    coherent st' /\ unchanged_or_better st st' /\
    (forall p, cb_best st' = Some p -> cb_delta st' = Some (sum_diff p)).
  Proof.
    intros n d limit fuel subs st Hc st'.
    pose proof (cb_part_run_lax n d limit fuel subs st) as R. fold st' in R.
    assert (Hc' : coherent st') by (eapply run_coherent; eassumption).
    split; [exact Hc'|]. split; [eapply run_mono; exact R|].
    intros p. apply coherent_best. exact Hc'.
  Qed.

  Corollary cb_part_delta_le n d limit fuel (subs : list subp) (st : state) :
    delta_le (cb_delta (cb_part n d limit fuel subs st)) (cb_delta st).
  Proof. apply uob_delta_le. eapply run_mono. apply cb_part_run_lax. Qed.

  (** ** 4. Completeness of the search without a limit: the final gap is at most the
      gap of every feasible leaf of the tree *)
  Lemma run_complete n d subs st st' : cb_run n d None true subs st st' -> coherent st ->
    forall p, leaf_below n subs p -> len_diff p <= d ->
    exists v, cb_delta st' = Some v /\ v <= sum_diff p.
  Proof.
    induction 1 as [subs st H|st H|q st H|subs st Hl H Hp|subs st a b rest st1 st2 Hl H Hp E R1 IH1 R2 IH2|subs st Hs Hl H Hp];
      intros Hc p Hlf Hd.
    - unfold stop in H. simpl in H. unfold coherent in Hc. rewrite H in Hc. simpl.
      destruct (cb_best st) as [b|], (cb_delta st) as [v|]; try (destruct Hc; fail); try discriminate Hc.
      exists v. split; [reflexivity|]. destruct Hc as [_ Hv]. rewrite (Hv eq_refl), sum_diff_abs. lia.
    - exfalso. eapply leaf_below_nonempty; [exact Hlf|reflexivity].
    - apply leaf_below_single in Hlf. subst q. unfold leaf_step.
      destruct (len_diff p <=? d) eqn:El; [|lia]. cbn [andb].
      destruct (lt_delta (sum_diff p) (cb_delta (tick st))) eqn:Elt.
      + exists (sum_diff p). split; [reflexivity|lia].
      + unfold lt_delta in Elt. destruct (cb_delta (tick st)) as [x|]; [|discriminate Elt].
        exists x. split; [reflexivity|lia].
    - unfold pruned in Hp. apply orb_true_iff in Hp. destruct Hp as [Hp|Hp].
      + unfold ge_delta in Hp. destruct (cb_delta (tick st)) as [x|]; [|discriminate Hp].
        exists x. split; [reflexivity|]. pose proof (sum_prune_sound n subs p Hlf). lia.
      + pose proof (len_prune_sound n subs p Hlf). lia.
    - inversion Hlf as [q|subs0 a' b' rest' p0 E' Hlf'|subs0 a' b' rest' p0 E' Hlf']; subst.
      + simpl in Hl. lia.
      + rewrite E in E'. injection E' as <- <- <-.
        destruct (IH1 Hc p Hlf' Hd) as (v & Ev & Hv).
        pose proof (uob_delta_le _ _ (run_mono _ _ _ _ _ _ _ R2)) as Hle. rewrite Ev in Hle.
        destruct (cb_delta st2) as [v2|]; simpl in Hle; [|destruct Hle].
        exists v2. split; [reflexivity|lia].
      + rewrite E in E'. injection E' as <- <- <-.
        apply (IH2 (run_coherent _ _ _ _ _ _ _ R1 Hc) p Hlf' Hd).
    - discriminate Hs.
  Qed.

  Lemma cbldm_unfold_ok items d limit l :
    1 <= d -> last_opt (sort_desc valueof items) = Some l -> 0 <= valueof l ->
    cbldm valueof 2 items true d true limit =
    let st := cb_part (length items) d limit (length items) (init_subs (sort_desc valueof items)) init_state in
    Ok (match cb_best st with None => CbPlaceholder | Some b => CbBins b end, cb_ticks st).
  Proof.
    intros Hd El Hl. unfold cbldm. cbn [Nat.eqb negb]. destruct (d <? 1) eqn:Ed; [lia|]. cbn [orb].
    rewrite El. destruct (valueof l <? 0) eqn:En; [lia|]. reflexivity.
  Qed.

  Lemma nonneg_last items : Forall (fun x => 0 <= valueof x) items -> items <> [] ->
    exists l, last_opt (sort_desc valueof items) = Some l /\ 0 <= valueof l.
  Proof.
    intros Hnn Hne. destruct (last_opt (sort_desc valueof items)) as [l|] eqn:El.
    - exists l. split; [reflexivity|]. destruct (sort_desc_last_min items l El) as [Hin _].
      rewrite Forall_forall in Hnn. apply Hnn. exact Hin.
    - exfalso. apply last_opt_nil_iff in El. apply Hne. apply Permutation_nil. rewrite <- El. apply sort_desc_perm.
  Qed.

  Lemma sort_desc_nonempty (items : list A) : items <> [] -> sort_desc valueof items <> [].
  Proof.
    intros Hne E. apply Hne. apply Permutation_nil. rewrite <- E. apply sort_desc_perm.
  Qed.

  (** without a limit the final gap is at most that of every feasible leaf *)
  Theorem cbldm_leaf_optimal : forall items d,
    Forall (fun x => 0 <= valueof x) items -> items <> [] -> 1 <= d ->
    exists b t, cbldm valueof 2 items true d true None = Ok (CbBins b, t) /\
      forall p, leaf_below (length items) (init_subs (sort_desc valueof items)) p ->
                len_diff p <= d -> sum_diff b <= sum_diff p.
  Proof.
    intros items d Hnn Hne Hd. destruct (nonneg_last items Hnn Hne) as (l & El & Hl).
    rewrite (cbldm_unfold_ok items d None l Hd El Hl). cbv zeta.
    set (subs := init_subs (sort_desc valueof items)).
    set (st' := cb_part _ _ _ _ _ _).
    assert (R : cb_run (length items) d None true subs init_state st').
    { apply cb_part_run. unfold subs, init_subs. rewrite map_length, sort_desc_length. lia. }
    pose proof (run_coherent _ _ _ _ _ _ _ R init_state_coherent) as Hc'.
    destruct (root_balanced_leaf (length items) (sort_desc valueof items) (sort_desc_nonempty items Hne)) as (p0 & Hp0 & Hd0).
    destruct (run_complete _ _ _ _ _ R init_state_coherent p0 Hp0) as (v0 & Ev0 & _); [lia|].
    destruct (coherent_delta _ _ Hc' Ev0) as (b & Eb & _).
    exists b, (cb_ticks st'). rewrite Eb. split; [reflexivity|].
    intros p Hp Hdp. destruct (run_complete _ _ _ _ _ R init_state_coherent p Hp Hdp) as (v & Ev & Hv).
    rewrite (coherent_best _ _ Hc' Eb) in Ev. injection Ev as <-. exact Hv.
  Qed.

  (** 4. never a missing result without a limit (C01/C12) *)
  Theorem cbldm_total : forall items d,
    Forall (fun x => 0 <= valueof x) items -> items <> [] -> 1 <= d ->
    exists b t, cbldm valueof 2 items true d true None = Ok (CbBins b, t).
  Proof.
    intros items d Hnn Hne Hd. destruct (cbldm_leaf_optimal items d Hnn Hne Hd) as (b & t & E & _).
    exists b, t. exact E.
  Qed.

  (** ** 3b. Anytime monotonicity: two runs with limits l1 <= l2 *)
  Definition lim_le (l1 l2 : option nat) : Prop :=
    match l1, l2 with
    | Some a, Some b => (a <= b)%nat
    | _, None => True
    | None, Some _ => False
    end.
  (** a run is cut off once its tick counter has passed the limit (no flag is set:
      every later call returns at once, still counting) *)
  Definition cut (limit : option nat) (st : state) : Prop :=
    match limit with Some k => (k < cb_ticks st)%nat | None => False end.
  (** states identical so far, or the first run is cut off and the second is at least as good *)
  Definition sim (l1 : option nat) (st1 st2 : state) : Prop :=
    st1 = st2 \/ (cut l1 st1 /\ delta_le (cb_delta st2) (cb_delta st1)).

  Lemma cut_stop l st : cut l st -> stop l (tick st) = true.
  Proof.
    unfold cut, stop. destruct l as [k|]; [|tauto]. intros H. cbn [tick cb_ticks].
    apply orb_true_iff. left. apply Nat.ltb_lt. lia.
  Qed.

  Lemma cut_tick l st : cut l st -> cut l (tick st).
  Proof. unfold cut. destruct l as [k|]; [|tauto]. cbn [tick cb_ticks]. lia. Qed.

  Lemma stop_lim l1 l2 st : lim_le l1 l2 -> stop l2 st = true -> stop l1 st = true.
  Proof.
    unfold lim_le, stop. intros Hl H. apply orb_true_iff in H. apply orb_true_iff.
    destruct H as [H|H]; [left|right; exact H].
    destruct l2 as [b|]; [|discriminate H]. destruct l1 as [a|]; [|destruct Hl].
    apply Nat.ltb_lt in H. apply Nat.ltb_lt. lia.
  Qed.

  Lemma stop_cut l st : stop l (tick st) = true -> cb_opt st = false -> cut l (tick st).
  Proof.
    unfold stop, cut. intros H Ho. apply orb_true_iff in H. destruct H as [H|H].
    - destruct l as [k|]; [|discriminate H]. apply Nat.ltb_lt in H. exact H.
    - cbn [tick cb_opt] in H. congruence.
  Qed.

  Lemma sim_cut n d l1 l2 fuel (subs : list subp) st1 st2 :
    cut l1 st1 -> delta_le (cb_delta st2) (cb_delta st1) ->
    sim l1 (cb_part n d l1 fuel subs st1) (cb_part n d l2 fuel subs st2).
  Proof.
    intros Hc Hd. rewrite (cb_part_unfold n d l1 fuel subs st1), (cut_stop l1 st1 Hc).
    right. split; [apply cut_tick; exact Hc|].
    cbn [tick cb_delta]. eapply delta_le_trans; [apply cb_part_delta_le|exact Hd].
  Qed.

  Lemma sim_part n d l1 l2 : lim_le l1 l2 -> forall fuel (subs : list subp) st1 st2,
    sim l1 st1 st2 -> sim l1 (cb_part n d l1 fuel subs st1) (cb_part n d l2 fuel subs st2).
  Proof.
    intros Hl. induction fuel as [|f IH]; intros subs st1 st2 [->|[Hc Hd]];
      try (apply sim_cut; assumption).
    - rewrite (cb_part_unfold n d l1 0 subs st2).
      destruct (stop l1 (tick st2)) eqn:E1.
      + destruct (cb_opt st2) eqn:Eo.
        * rewrite (cb_part_unfold n d l2 0 subs st2).
          assert (E2 : stop l2 (tick st2) = true).
          { unfold stop. cbn [tick cb_opt]. rewrite Eo. apply orb_true_r. }
          rewrite E2. left. reflexivity.
        * right. split; [apply stop_cut; assumption|]. cbn [tick cb_delta]. apply cb_part_delta_le.
      + rewrite (cb_part_unfold n d l2 0 subs st2).
        destruct (stop l2 (tick st2)) eqn:E2; [rewrite (stop_lim l1 l2 _ Hl E2) in E1; discriminate E1|].
        left. reflexivity.
    - rewrite (cb_part_unfold n d l1 (S f) subs st2).
      destruct (stop l1 (tick st2)) eqn:E1.
      + destruct (cb_opt st2) eqn:Eo.
        * rewrite (cb_part_unfold n d l2 (S f) subs st2).
          assert (E2 : stop l2 (tick st2) = true).
          { unfold stop. cbn [tick cb_opt]. rewrite Eo. apply orb_true_r. }
          rewrite E2. left. reflexivity.
        * right. split; [apply stop_cut; assumption|]. cbn [tick cb_delta]. apply cb_part_delta_le.
      + rewrite (cb_part_unfold n d l2 (S f) subs st2).
        destruct (stop l2 (tick st2)) eqn:E2; [rewrite (stop_lim l1 l2 _ Hl E2) in E1; discriminate E1|].
        destruct subs as [|p [|q r]]; try (left; reflexivity).
        destruct (pruned d (p :: q :: r) (tick st2)); [left; reflexivity|].
        destruct (reorder n (p :: q :: r)) as [|a [|b rest]]; try (left; reflexivity).
        apply IH. apply IH. left. reflexivity.
  Qed.

  Theorem cbldm_monotone_gen : forall k items tl d dint l1 l2 b1 t1, lim_le l1 l2 ->
    cbldm valueof k items tl d dint l1 = Ok (CbBins b1, t1) ->
    exists b2 t2, cbldm valueof k items tl d dint l2 = Ok (CbBins b2, t2) /\ sum_diff b2 <= sum_diff b1.
  Proof.
    intros k items tl d dint l1 l2 b1 t1 Hl H. unfold cbldm in H |- *.
    destruct (negb (Nat.eqb k 2)); [discriminate H|].
    destruct (negb tl); [discriminate H|].
    destruct ((d <? 1) || negb dint); [discriminate H|].
    destruct (last_opt (sort_desc valueof items)) as [l|]; [|discriminate H].
    destruct (valueof l <? 0); [discriminate H|].
    fold (init_subs (sort_desc valueof items)) in H |- *. fold init_state in H |- *.
    pose proof (sim_part (length items) d l1 l2 Hl (length items) (init_subs (sort_desc valueof items))
                         init_state init_state (or_introl eq_refl)) as S.
    destruct (cbldm_delta_mono (length items) d l1 (length items) (init_subs (sort_desc valueof items))
                               init_state init_state_coherent) as (C1 & _ & _).
    destruct (cbldm_delta_mono (length items) d l2 (length items) (init_subs (sort_desc valueof items))
                               init_state init_state_coherent) as (C2 & _ & _).
    cbv zeta in C1, C2.
    set (st1 := cb_part (length items) d l1 _ _ _) in *.
    set (st2 := cb_part (length items) d l2 _ _ _) in *.
    destruct (cb_best st1) as [b|] eqn:Eb1; [|discriminate H]. injection H as -> _.
    destruct S as [S|[_ S]].
    - exists b1, (cb_ticks st2). rewrite <- S, Eb1. split; [reflexivity|lia].
    - rewrite (coherent_best st1 b1 C1 Eb1) in S.
      destruct (cb_delta st2) as [v|] eqn:Ed2; simpl in S; [|destruct S].
      destruct (coherent_delta st2 v C2 Ed2) as (b2 & Eb2 & Ev).
      exists b2, (cb_ticks st2). rewrite Eb2. split; [reflexivity|lia].
  Qed.

  Theorem cbldm_monotone : forall items d n m b1 t1, (n <= m)%nat ->
    cbldm valueof 2 items true d true (Some n) = Ok (CbBins b1, t1) ->
    exists b2 t2, cbldm valueof 2 items true d true (Some m) = Ok (CbBins b2, t2) /\
                  sum_diff b2 <= sum_diff b1.
  Proof. intros items d n m b1 t1 Hnm. apply cbldm_monotone_gen. exact Hnm. Qed.

  Theorem cbldm_monotone_none : forall items d n b1 t1,
    cbldm valueof 2 items true d true (Some n) = Ok (CbBins b1, t1) ->
    exists b2 t2, cbldm valueof 2 items true d true None = Ok (CbBins b2, t2) /\
                  sum_diff b2 <= sum_diff b1.
  Proof. intros items d n b1 t1. apply cbldm_monotone_gen. exact I. Qed.

  (** ** 3c. A limit beyond the length of the unlimited run changes nothing *)
  Lemma part_limit_irrelevant n d k : forall fuel (subs : list subp) st,
    (cb_ticks (cb_part n d None fuel subs st) <= k)%nat ->
    cb_part n d (Some k) fuel subs st = cb_part n d None fuel subs st.
  Proof.
    induction fuel as [|f IH]; intros subs st H.
    - pose proof (run_ticks _ _ _ _ _ _ _ (cb_part_run_lax n d None 0 subs st)) as Ht.
      rewrite (cb_part_unfold n d (Some k) 0 subs st), (cb_part_unfold n d None 0 subs st).
      assert (Es : stop (Some k) (tick st) = stop None (tick st)).
      { unfold stop. cbn [tick cb_ticks]. destruct (Nat.ltb k (S (cb_ticks st))) eqn:E; [apply Nat.ltb_lt in E; lia|reflexivity]. }
      rewrite Es. reflexivity.
    - pose proof (run_ticks _ _ _ _ _ _ _ (cb_part_run_lax n d None (S f) subs st)) as Ht.
      assert (Es : stop (Some k) (tick st) = stop None (tick st)).
      { unfold stop. cbn [tick cb_ticks]. destruct (Nat.ltb k (S (cb_ticks st))) eqn:E; [apply Nat.ltb_lt in E; lia|reflexivity]. }
      clear Ht. rewrite (cb_part_unfold n d None (S f) subs st) in H.
      rewrite (cb_part_unfold n d (Some k) (S f) subs st), (cb_part_unfold n d None (S f) subs st).
      rewrite Es. destruct (stop None (tick st)); [reflexivity|].
      destruct subs as [|p [|q r]]; try reflexivity.
      destruct (pruned d (p :: q :: r) (tick st)); [reflexivity|].
      destruct (reorder n (p :: q :: r)) as [|a [|b rest]]; try reflexivity.
      pose proof (run_ticks _ _ _ _ _ _ _ (cb_part_run_lax n d None f (rest ++ [mk_comb a b])
                    (cb_part n d None f (rest ++ [mk_split a b]) (tick st)))) as Ht2.
      rewrite (IH (rest ++ [mk_split a b]) (tick st)) by lia.
      apply IH. exact H.
  Qed.

  Theorem cbldm_limit_none : forall k items tl d dint,
    exists N, forall m, (N <= m)%nat ->
      cbldm valueof k items tl d dint (Some m) = cbldm valueof k items tl d dint None.
  Proof.
    intros k items tl d dint.
    exists (cb_ticks (cb_part (length items) d None (length items) (init_subs (sort_desc valueof items)) init_state)).
    intros m Hm. unfold cbldm.
    destruct (negb (Nat.eqb k 2)); [reflexivity|].
    destruct (negb tl); [reflexivity|].
    destruct ((d <? 1) || negb dint); [reflexivity|].
    destruct (last_opt (sort_desc valueof items)) as [l|]; [|reflexivity].
    destruct (valueof l <? 0); [reflexivity|].
    fold (init_subs (sort_desc valueof items)). fold init_state.
    rewrite part_limit_irrelevant by exact Hm. reflexivity.
  Qed.

  (** ** Optimality against the specification [OptBalanced] (C12) *)
  Lemma init_gauge x : gauge (add_item valueof true (new_bins 2) x 1) = (valueof x, 1).
  Proof.
    rewrite init_sub_eq. unfold gauge, ssum, slen, blen, bin_at. cbn [nth fst snd length]. f_equal; lia.
  Qed.

  Lemma init_subs_gauge_eq sorted : map gauge (init_subs sorted) = map (fun x => (valueof x, 1)) sorted.
  Proof. unfold init_subs. rewrite map_map. apply map_ext. exact init_gauge. Qed.

  (** every mask is a signed combination of the singletons *)
  Lemma mask_SC (items : list A) : forall mask, length mask = length items ->
    SC (map (fun x => (valueof x, 1)) items)
       (2 * side_sum (map valueof items) mask - zsum (map valueof items),
        2 * side_count mask - Z.of_nat (length items)).
  Proof.
    induction items as [|x t IH]; intros [|m mt] Hl; try discriminate Hl.
    - apply SC_nil.
    - simpl in Hl. injection Hl as Hl. cbn [map]. eapply (SC_cons m); [apply (IH mt Hl)| |];
        destruct m; cbn [side_sum side_count length]; rewrite ?zsum_cons; lia.
  Qed.

  (** hence every split of the items is (up to swapping sides) a leaf of the tree *)
  Lemma mask_leaf n items sorted mask : Permutation sorted items -> items <> [] ->
    length mask = length items ->
    exists p, leaf_below n (init_subs sorted) p /\
              sum_diff p = split_diff (map valueof items) mask /\
              len_diff p = Z.abs (2 * side_count mask - Z.of_nat (length items)).
  Proof.
    intros P Hne Hl. pose proof (mask_SC items mask Hl) as H.
    apply (SC_perm _ (map (fun x => (valueof x, 1)) sorted)) in H; [|apply Permutation_map; symmetry; exact P].
    rewrite <- init_subs_gauge_eq in H.
    assert (Hm : exists m, length (init_subs sorted) = S m).
    { unfold init_subs. rewrite map_length, (Permutation_length P).
      destruct items as [|x t]; [congruence|]. exists (length t). reflexivity. }
    destruct Hm as [m Hm]. destruct (SC_leaf n m _ _ _ Hm H) as (p & Hp & Hg).
    exists p. split; [exact Hp|]. rewrite sum_diff_abs, len_diff_abs. unfold split_diff, gauge in *.
    destruct Hg as [Hg|Hg]; pose proof (f_equal fst Hg) as E1; pose proof (f_equal snd Hg) as E2;
      cbn [fst snd] in E1, E2; split; lia.
  Qed.

  (** masks follow permutations *)
  Lemma perm_mask (l items : list A) : Permutation l items -> forall mask, length mask = length l ->
    exists mask', length mask' = length items /\
                  side_sum (map valueof items) mask' = side_sum (map valueof l) mask /\
                  side_count mask' = side_count mask.
  Proof.
    induction 1 as [|x l l' P IH|x y l|l l' l'' P1 IH1 P2 IH2]; intros mask Hl.
    - exists mask. auto.
    - destruct mask as [|m mt]; [discriminate Hl|]. simpl in Hl. injection Hl as Hl.
      destruct (IH mt Hl) as (mt' & H1 & H2 & H3). exists (m :: mt').
      cbn [map side_sum side_count length]. rewrite H1, H2, H3. auto.
    - destruct mask as [|m1 [|m2 mt]]; try discriminate Hl. exists (m2 :: m1 :: mt).
      cbn [map side_sum side_count length] in *. repeat split; lia.
    - destruct (IH1 mask Hl) as (m1 & H1 & H2 & H3). destruct (IH2 m1 H1) as (m2 & G1 & G2 & G3).
      exists m2. repeat split; congruence.
  Qed.

  Lemma side_sum_app vs1 vs2 m1 m2 : length m1 = length vs1 ->
    side_sum (vs1 ++ vs2) (m1 ++ m2) = side_sum vs1 m1 + side_sum vs2 m2.
  Proof.
    revert m1. induction vs1 as [|v t IH]; intros [|m mt] Hl; try discriminate Hl.
    - simpl. lia.
    - simpl in Hl. injection Hl as Hl. cbn [app side_sum]. rewrite (IH mt Hl). lia.
  Qed.
  Lemma side_count_app m1 m2 : side_count (m1 ++ m2) = side_count m1 + side_count m2.
  Proof. induction m1 as [|m t IH]; cbn [app side_count]; lia. Qed.
  Lemma side_sum_false vs : side_sum vs (repeat false (length vs)) = 0.
  Proof. induction vs as [|v t IH]; cbn [length repeat side_sum]; lia. Qed.
  Lemma side_sum_true vs : side_sum vs (repeat true (length vs)) = zsum vs.
  Proof. induction vs as [|v t IH]; cbn [length repeat side_sum]; rewrite ?zsum_cons; [reflexivity|lia]. Qed.
  Lemma side_count_false k : side_count (repeat false k) = 0.
  Proof. induction k as [|k IH]; cbn [repeat side_count]; lia. Qed.
  Lemma side_count_true k : side_count (repeat true k) = Z.of_nat k.
  Proof. induction k as [|k IH]; cbn [repeat side_count]; lia. Qed.

  (** a valid two-bin partition with count gap <= d is a balanced split *)
  Lemma partition_balanced_split items d (b : bins A) :
    is_partition valueof 2 items b -> len_diff b <= d ->
    exists mask, balanced_split d (map valueof items) mask /\
                 split_diff (map valueof items) mask = sum_diff b.
  Proof.
    intros (P & Lb & Wb) Hd. rewrite (contents_two b Lb) in P.
    set (l0 := snd (bin_at b 0)) in *. set (l1 := snd (bin_at b 1)) in *.
    pose (mask0 := repeat false (length (map valueof l0)) ++ repeat true (length (map valueof l1))).
    assert (Hl0 : length mask0 = length (l0 ++ l1)).
    { unfold mask0. rewrite !app_length, !repeat_length, !map_length. reflexivity. }
    destruct (perm_mask _ _ P mask0 Hl0) as (mask & H1 & H2 & H3).
    assert (Es : side_sum (map valueof (l0 ++ l1)) mask0 = fst (bin_at b 1)).
    { unfold mask0. rewrite map_app, side_sum_app by (rewrite repeat_length; reflexivity).
      rewrite side_sum_false, side_sum_true. pose proof (bin_at_wf b 1 Wb) as W. unfold wf_bin in W.
      fold l1 in W. lia. }
    assert (Ec : side_count mask0 = Z.of_nat (length l1)).
    { unfold mask0. rewrite side_count_app, side_count_false, side_count_true, map_length. lia. }
    assert (Et : zsum (map valueof items) = fst (bin_at b 0) + fst (bin_at b 1)).
    { rewrite <- (zsum_perm _ _ (Permutation_map valueof P)), map_app, zsum_app.
      pose proof (bin_at_wf b 0 Wb) as W0. pose proof (bin_at_wf b 1 Wb) as W1.
      unfold wf_bin in W0, W1. fold l0 in W0. fold l1 in W1. lia. }
    assert (En : length items = (length l0 + length l1)%nat).
    { rewrite <- (Permutation_length P), app_length. reflexivity. }
    exists mask. split.
    - split; [rewrite map_length; exact H1|]. rewrite map_length, H3, Ec, En.
      unfold len_diff in Hd. fold l0 l1 in Hd. lia.
    - unfold split_diff, sum_diff. rewrite H2, Es, Et. lia.
  Qed.

  Theorem cbldm_optimal : forall items d,
    Forall (fun x => 0 <= valueof x) items -> items <> [] -> 1 <= d ->
    exists b t, cbldm valueof 2 items true d true None = Ok (CbBins b, t) /\
                is_partition valueof 2 items b /\ len_diff b <= d /\
                OptBalanced d (map valueof items) (sum_diff b).
  Proof.
    intros items d Hnn Hne Hd. destruct (cbldm_leaf_optimal items d Hnn Hne Hd) as (b & t & E & Hopt).
    exists b, t. split; [exact E|].
    destruct (cbldm_safe_gen _ _ _ _ _ _ _ _ E) as [Hb|(b' & Eb & Hp & Hl)]; [discriminate Hb|].
    injection Eb as <-. split; [exact Hp|]. split; [exact Hl|]. split.
    - destruct (partition_balanced_split items d b Hp Hl) as (mask & Hm & Es). exists mask. auto.
    - intros mask [Hlen Hbal]. rewrite map_length in Hlen, Hbal.
      destruct (mask_leaf (length items) items (sort_desc valueof items) mask (sort_desc_perm valueof items) Hne Hlen)
        as (p & Hp' & Es & El).
      rewrite <- Es. apply Hopt; [exact Hp'|]. rewrite El. exact Hbal.
  Qed.

End CBLDMProofs.

(** * Examples *)
Example cbldm_ex_single :
  cbldm (fun x : Z => x) 2 [10] true 1 true None = Ok (CbBins [(0, []); (10, [10])], 1%nat).
Proof. vm_compute. reflexivity. Qed.

Example cbldm_ex_zero :
  cbldm (fun x : Z => x) 2 [10; 0] true 1 true None = Ok (CbBins [(0, [0]); (10, [10])], 3%nat).
Proof. vm_compute. reflexivity. Qed.

(** the input on which the paper's extra prune condition fails (see the comment in cbldm.py) *)
Example cbldm_ex_ones :
  cbldm (fun x : Z => x) 2 [1; 1; 1; 1; 1; 1; 1; 1; 1; 1] true 1 true None =
  Ok (CbBins [(5, [1; 1; 1; 1; 1]); (5, [1; 1; 1; 1; 1])], 19%nat).
Proof. vm_compute. reflexivity. Qed.

(** the doctest of cbldm.py: sums 15/15 *)
Example cbldm_ex_doctest :
  cbldm (fun x : Z => x) 2 [8; 7; 6; 5; 4] true 1 true None =
  Ok (CbBins [(15, [4; 6; 5]); (15, [8; 7])], 15%nat).
Proof. vm_compute. reflexivity. Qed.

(** interrupted before the first leaf: the placeholder; the tick counter keeps running *)
Example cbldm_ex_placeholder :
  cbldm (fun x : Z => x) 2 [8; 7; 6; 5; 4] true 1 true (Some 3%nat) = Ok (CbPlaceholder, 7%nat).
Proof. vm_compute. reflexivity. Qed.

(** interrupted after the first leaf: a valid but not yet optimal partition *)
Example cbldm_ex_interrupted :
  cbldm (fun x : Z => x) 2 [8; 7; 6; 5; 4] true 1 true (Some 5%nat) =
  Ok (CbBins [(14, [8; 6]); (16, [4; 7; 5])], 9%nat).
Proof. vm_compute. reflexivity. Qed.

Print Assumptions cbldm_error_iff.
Print Assumptions cbldm_error_kind.
Print Assumptions cbldm_safe.
Print Assumptions cbldm_safe_gen.
Print Assumptions sum_prune_arith.
Print Assumptions sum_prune_sound.
Print Assumptions len_prune_sound.
Print Assumptions leaf_signed_sum.
Print Assumptions cbldm_delta_mono.
Print Assumptions cbldm_monotone.
Print Assumptions cbldm_monotone_none.
Print Assumptions cbldm_limit_none.
Print Assumptions cbldm_total.
Print Assumptions cbldm_leaf_optimal.
Print Assumptions cbldm_optimal.
