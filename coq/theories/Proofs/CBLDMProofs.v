(** Proofs about the model of prtpy/partitioning/cbldm.py (Model/CBLDM.v):
    argument validation (C19), interruption safety and validity (C11, C12),
    anytime monotonicity, totality without a limit (C01/C12), soundness of the
    two prunes and optimality over the leaves of the search tree (C12). *)
From Prtpy Require Import Base.Prelude Model.Binner Model.CBLDM Spec.Partition
     Proofs.BaseLemmas Proofs.BinnerLemmas.
From Coq Require Import Sorting.Sorted ZifyBool.

(** * Part A: pure arithmetic on signed combinations *)

Fixpoint signed_sum (signs : list bool) (xs : list Z) : Z :=
  match signs, xs with
  | s :: st, x :: xt => (if s then x else - x) + signed_sum st xt
  | _, _ => 0
  end.

Lemma zsum_cons x l : zsum (x :: l) = x + zsum l.
Proof. reflexivity. Qed.

Lemma signed_sum_bounds signs xs :
  Forall (fun x => 0 <= x) xs -> - zsum xs <= signed_sum signs xs <= zsum xs.
Proof.
  intros H. revert signs. induction H as [|x xt Hx Hxt IH]; intros [|s st];
    cbn [signed_sum]; rewrite ?zsum_cons; try (unfold zsum; simpl; lia).
  - pose proof (zsum_nonneg xt Hxt). lia.
  - specialize (IH st). destruct s; lia.
Qed.

Lemma signed_sum_In signs xs x :
  Forall (fun y => 0 <= y) xs -> length signs = length xs -> In x xs ->
  2 * x - zsum xs <= Z.abs (signed_sum signs xs).
Proof.
  intros H. revert signs. induction H as [|y yt Hy Hyt IH]; intros signs Hl Hin; [destruct Hin|].
  destruct signs as [|s st]; [discriminate Hl|]. simpl in Hl. injection Hl as Hl.
  cbn [signed_sum]. rewrite zsum_cons. destruct Hin as [->|Hin].
  - pose proof (signed_sum_bounds st yt Hyt). destruct s; lia.
  - specialize (IH st Hl Hin). destruct s; lia.
Qed.

(** the arithmetic core of both prunes: [2 max - sum] is a lower bound of every
    signed combination of non-negative numbers *)
Lemma signed_sum_prune signs xs :
  Forall (fun x => 0 <= x) xs -> length signs = length xs ->
  2 * zmax_list 0 xs - zsum xs <= Z.abs (signed_sum signs xs).
Proof.
  intros H Hl. destruct (zmax_list_in 0 xs) as [E|Hin].
  - rewrite E. pose proof (zsum_nonneg xs H). lia.
  - apply signed_sum_In; auto.
Qed.

(** signs can be normalised: a signed sum of arbitrary integers is a signed sum of
    their absolute values *)
Lemma signed_sum_abs signs xs :
  length signs = length xs ->
  exists signs', length signs' = length xs /\
                 signed_sum signs xs = signed_sum signs' (map Z.abs xs).
Proof.
  revert signs. induction xs as [|x xt IH]; intros [|s st] Hl; try discriminate Hl.
  - exists []. split; reflexivity.
  - simpl in Hl. injection Hl as Hl. destruct (IH st Hl) as (st' & Hl' & E).
    exists ((if 0 <=? x then s else negb s) :: st'). split; [simpl; lia|].
    simpl. rewrite <- E. destruct (0 <=? x) eqn:Ex; destruct s; simpl; lia.
Qed.

Lemma signed_sum_prune_abs signs xs :
  length signs = length xs ->
  2 * zmax_list 0 (map Z.abs xs) - zsum (map Z.abs xs) <= Z.abs (signed_sum signs xs).
Proof.
  intros Hl. destruct (signed_sum_abs signs xs Hl) as (signs' & Hl' & E). rewrite E.
  apply signed_sum_prune.
  - rewrite Forall_map. apply Forall_forall. intros y _. lia.
  - rewrite map_length. exact Hl'.
Qed.

(** ** Signed combinations of pairs (sum gap, count gap) with a shared sign vector *)

Inductive SC : list (Z * Z) -> Z * Z -> Prop :=
| SC_nil : SC [] (0, 0)
| SC_cons (s : bool) x y l v w v' w' :
    SC l (v, w) ->
    v' = (if s then x else - x) + v ->
    w' = (if s then y else - y) + w ->
    SC ((x, y) :: l) (v', w').

Lemma SC_signs l v : SC l v ->
  exists signs, length signs = length l /\
                fst v = signed_sum signs (map fst l) /\ snd v = signed_sum signs (map snd l).
Proof.
  induction 1 as [|s x y l v w v' w' H IH Hv Hw].
  - exists []. repeat split.
  - destruct IH as (signs & Hl & E1 & E2). exists (s :: signs). simpl in *. subst.
    split; [lia|]. split; destruct s; lia.
Qed.

Lemma signs_SC signs l : length signs = length l ->
  SC l (signed_sum signs (map fst l), signed_sum signs (map snd l)).
Proof.
  revert signs. induction l as [|[x y] l IH]; intros [|s st] Hl; try discriminate Hl.
  - constructor.
  - simpl in Hl. injection Hl as Hl. simpl. eapply (SC_cons s); [apply (IH st Hl)| |]; destruct s; reflexivity.
Qed.

Lemma SC_perm l l' v : Permutation l l' -> SC l v -> SC l' v.
Proof.
  intros P. revert v. induction P as [|[x y] l l' P IH|[x y] [x2 y2] l|l l' l'' P1 IH1 P2 IH2]; intros v H.
  - exact H.
  - inversion H as [|s x0 y0 l0 v0 w0 v' w' H0 Hv Hw]; subst.
    eapply (SC_cons s); [apply IH; exact H0| |]; reflexivity.
  - inversion H as [|s x0 y0 l0 v0 w0 v' w' H0 Hv Hw]; subst.
    inversion H0 as [|s2 x1 y1 l1 v1 w1 v2 w2 H1 Hv1 Hw1]; subst.
    eapply (SC_cons s2); [eapply (SC_cons s); [exact H1|reflexivity|reflexivity]| |]; lia.
  - auto.
Qed.

Lemma SC_flip l v w : SC l (v, w) -> SC l (- v, - w).
Proof.
  remember (v, w) as vw eqn:E. intros H. revert v w E.
  induction H as [|s x y l v0 w0 v' w' H IH Hv Hw]; intros v w E; injection E as E1 E2; subst.
  - apply SC_nil.
  - eapply (SC_cons (negb s)); [apply IH; reflexivity| |]; destruct s; simpl; lia.
Qed.

Lemma SC_head_flip x y l v : SC ((x, y) :: l) v -> SC ((- x, - y) :: l) v.
Proof.
  intros H. inversion H as [|s x0 y0 l0 v0 w0 v' w' H0 Hv Hw]; subst.
  eapply (SC_cons (negb s)); [exact H0| |]; destruct s; simpl; lia.
Qed.

(** merging two entries with either relative orientation *)
Lemma SC_merge xa ya xb yb (s : bool) l v :
  SC ((xa + (if s then xb else - xb), ya + (if s then yb else - yb)) :: l) v ->
  SC ((xa, ya) :: (xb, yb) :: l) v.
Proof.
  intros H. inversion H as [|t x0 y0 l0 v0 w0 v' w' H0 Hv Hw]; subst.
  eapply (SC_cons t); [eapply (SC_cons (if t then s else negb s)); [exact H0|reflexivity|reflexivity]| |];
    destruct t, s; simpl; lia.
Qed.

Lemma SC_unmerge xa ya xb yb l v :
  SC ((xa, ya) :: (xb, yb) :: l) v ->
  SC ((xa + xb, ya + yb) :: l) v \/ SC ((xa - xb, ya - yb) :: l) v.
Proof.
  intros H. inversion H as [|s x0 y0 l0 v0 w0 v' w' H0 Hv Hw]; subst.
  inversion H0 as [|s2 x1 y1 l1 v1 w1 v2 w2 H1 Hv1 Hw1]; subst.
  destruct s, s2.
  - left. eapply (SC_cons true); [exact H1| |]; lia.
  - right. eapply (SC_cons true); [exact H1| |]; lia.
  - right. eapply (SC_cons false); [exact H1| |]; lia.
  - left. eapply (SC_cons false); [exact H1| |]; lia.
Qed.

Lemma SC_bound_fst l v : SC l v ->
  2 * zmax_list 0 (map (fun p => Z.abs (fst p)) l) - zsum (map (fun p => Z.abs (fst p)) l) <= Z.abs (fst v).
Proof.
  intros H. destruct (SC_signs l v H) as (signs & Hl & E1 & _). rewrite E1.
  rewrite <- (map_map fst Z.abs). apply signed_sum_prune_abs. rewrite map_length. exact Hl.
Qed.

Lemma SC_bound_snd l v : SC l v ->
  2 * zmax_list 0 (map (fun p => Z.abs (snd p)) l) - zsum (map (fun p => Z.abs (snd p)) l) <= Z.abs (snd v).
Proof.
  intros H. destruct (SC_signs l v H) as (signs & Hl & _ & E2). rewrite E2.
  rewrite <- (map_map snd Z.abs). apply signed_sum_prune_abs. rewrite map_length. exact Hl.
Qed.

(** alternating signs balance a vector of ones *)
Lemma SC_ones (l : list (Z * Z)) :
  Forall (fun p => snd p = 1) l -> exists v w, SC l (v, w) /\ (w = 0 \/ w = 1).
Proof.
  induction 1 as [|[x y] l Hy Hl IH].
  - exists 0, 0. split; [constructor|auto].
  - simpl in Hy. subst y. destruct IH as (v & w & H & [->| ->]).
    + exists (x + v), 1. split; [eapply (SC_cons true); [exact H| |]; reflexivity|auto].
    + exists (- x + v), 0. split; [eapply (SC_cons false); [exact H| |]; reflexivity|auto].
Qed.

(** * Part B: the model *)

Section CBLDMProofs.
  Context {A : Type} (valueof : A -> Z).

  (** ** last element of a descending sort is a minimum *)
  Lemma last_opt_snoc {T} (l : list T) x : last_opt (l ++ [x]) = Some x.
  Proof. unfold last_opt. rewrite rev_app_distr. reflexivity. Qed.

  Lemma last_opt_nil_iff {T} (l : list T) : last_opt l = None <-> l = [].
  Proof.
    split; [|intros ->; reflexivity].
    destruct l as [|x t] using rev_ind; auto. rewrite last_opt_snoc. discriminate.
  Qed.

  Lemma sorted_desc_snoc {T} (key : T -> Z) l x :
    StronglySorted (fun a b => key b <= key a) (l ++ [x]) -> Forall (fun y => key x <= key y) (l ++ [x]).
  Proof.
    induction l as [|y t IH]; simpl; intros H.
    - constructor; [lia|constructor].
    - inversion H as [|y0 t0 Ht Hy]; subst. constructor; auto.
      rewrite Forall_forall in Hy. apply Hy. apply in_or_app. right. left. reflexivity.
  Qed.

  Lemma sort_desc_last_min (items : list A) l :
    last_opt (sort_desc valueof items) = Some l ->
    In l items /\ Forall (fun y => valueof l <= valueof y) items.
  Proof.
    intros H. pose proof (sort_desc_sorted valueof items) as S. pose proof (sort_desc_perm valueof items) as P.
    destruct (sort_desc valueof items) as [|x t] using rev_ind; [discriminate H|].
    rewrite last_opt_snoc in H. injection H as ->. split.
    - eapply Permutation_in; [exact P|]. apply in_or_app. right. left. reflexivity.
    - eapply Permutation_Forall; [exact P|]. apply sorted_desc_snoc. exact S.
  Qed.

  (** ** 1. argument validation (C19) *)
  Lemma cbldm_neg_check (items : list A) l :
    last_opt (sort_desc valueof items) = Some l ->
    (valueof l <? 0) = true <-> Exists (fun x => valueof x < 0) items.
  Proof.
    intros H. destruct (sort_desc_last_min items l H) as [Hin Hall]. split.
    - intros E. apply Exists_exists. exists l. split; [exact Hin|lia].
    - intros E. apply Exists_exists in E. destruct E as (x & Hx & Hneg).
      rewrite Forall_forall in Hall. specialize (Hall x Hx). lia.
  Qed.

  Theorem cbldm_error_iff : forall k items tl d dint limit, items <> [] ->
    ((exists e, cbldm valueof k items tl d dint limit = Err e) <->
     (k <> 2%nat \/ tl = false \/ d < 1 \/ dint = false \/ Exists (fun x => valueof x < 0) items)).
  Proof.
    intros k items tl d dint limit Hne. unfold cbldm.
    destruct (Nat.eqb k 2) eqn:Ek; cbn [negb].
    2:{ split; [intros _; left; apply Nat.eqb_neq; exact Ek|intros _; eexists; reflexivity]. }
    apply Nat.eqb_eq in Ek. destruct tl; cbn [negb].
    2:{ split; [intros _; auto|intros _; eexists; reflexivity]. }
    destruct (d <? 1) eqn:Ed; cbn [orb].
    1:{ split; [intros _; right; right; left; lia|intros _; eexists; reflexivity]. }
    destruct dint; cbn [negb].
    2:{ split; [intros _; auto|intros _; eexists; reflexivity]. }
    destruct (last_opt (sort_desc valueof items)) as [l|] eqn:El.
    2:{ exfalso. apply last_opt_nil_iff in El. apply Hne. apply Permutation_nil.
        rewrite <- El. apply sort_desc_perm. }
    pose proof (cbldm_neg_check items l El) as Hc. destruct (valueof l <? 0) eqn:En.
    - split; [intros _; right; right; right; right; apply Hc; reflexivity|intros _; eexists; reflexivity].
    - split; [intros [e He]; discriminate He|].
      intros [H|[H|[H|[H|H]]]]; try lia; try discriminate H. apply Hc in H. discriminate H.
  Qed.

  Theorem cbldm_error_kind : forall k items tl d dint limit e,
    cbldm valueof k items tl d dint limit = Err e -> items <> [] -> e = ValueError.
  Proof.
    intros k items tl d dint limit e H Hne. unfold cbldm in H.
    destruct (negb (Nat.eqb k 2)); [injection H as <-; reflexivity|].
    destruct (negb tl); [injection H as <-; reflexivity|].
    destruct ((d <? 1) || negb dint); [injection H as <-; reflexivity|].
    destruct (last_opt (sort_desc valueof items)) as [l|] eqn:El.
    - destruct (valueof l <? 0); [injection H as <-; reflexivity|discriminate H].
    - exfalso. apply last_opt_nil_iff in El. apply Hne. apply Permutation_nil.
      rewrite <- El. apply sort_desc_perm.
  Qed.

  (** the empty input is the only source of a different error *)
  Example cbldm_empty_IndexError : cbldm valueof 2 [] true 1 true None = Err IndexError.
  Proof. reflexivity. Qed.

End CBLDMProofs.
