(** Corollaries that combine the per-algorithm proof files (nothing new is modelled here). *)
From Prtpy Require Import Base.Prelude Model.Binner Model.Objectives Model.KK Model.SNP Spec.Partition
  Proofs.KKProofs Proofs.CKKOptimal Proofs.SNPProofs.

(** when names determine items (plain numbers, or distinct names) complete KK is optimal *)
Lemma names_ok_inj {A} (valueof nameof : A -> Z) (items : list A) :
  (forall x y : A, nameof x = nameof y -> x = y) -> names_ok valueof nameof items.
Proof. intros Hinj x y _ _ E. rewrite (Hinj x y E). reflexivity. Qed.

Theorem ckk2_optimal {A} (valueof nameof : A -> Z) :
  (forall x y : A, nameof x = nameof y -> x = y) -> ckk2_optimal_statement valueof nameof.
Proof.
  intros Hinj items b Hne Hnn Hc.
  apply (ckk_optimal valueof nameof 2 items b); [lia|exact Hne|exact Hnn|apply names_ok_inj; exact Hinj|exact Hc].
Qed.

(** sequential number partitioning is optimal for the difference objective *)
Theorem snp_optimal {A} (valueof nameof : A -> Z) :
  (forall x y : A, nameof x = nameof y -> x = y) ->
  forall (k : nat) (items : list A) (b : bins A),
  (1 <= k)%nat -> items <> [] -> Forall (fun x : A => 0 <= valueof x) items ->
  snp valueof nameof true k items = Ok b ->
  Opt MinDiff k (map valueof items) (value MinDiff (sums b) false).
Proof.
  intros Hinj. apply (snp_optimal_from_ckk valueof nameof Hinj). apply ckk2_optimal. exact Hinj.
Qed.

(** plain numbers: name = value = the item *)
Theorem snp_optimal_values : forall (k : nat) (vs : list Z) (b : bins Z),
  (1 <= k)%nat -> vs <> [] -> Forall (fun x => 0 <= x) vs ->
  snp (fun x => x) (fun x => x) true k vs = Ok b ->
  Opt MinDiff k vs (value MinDiff (sums b) false).
Proof.
  intros k vs b Hk Hne Hnn Hs.
  pose proof (snp_optimal (fun x : Z => x) (fun x : Z => x) (fun x y E => E) k vs b Hk Hne Hnn Hs) as G.
  rewrite map_id in G. exact G.
Qed.

Print Assumptions snp_optimal.
Print Assumptions snp_optimal_values.
