(** Bounds below 3/2 for best-fit-decreasing (Model/Packing.v), transferred from FFD119Proofs.v.

    Proved here (b = bins returned by best_fit_decreasing, n = any number of bins of capacity C
    into which the values can be packed; hypotheses: items <> [], values >= 0, nothing else):

      bfd_ratio_43_partial   :  3 * length b <= 4 * n + 2      (BFD <= 4/3 OPT + 2/3)
      bfd_ratio_54_partial   :  4 * length b <= 5 * n + 4      (BFD <= 5/4 OPT + 1)
      bfd_ratio_11_9_partial :  9 * length b <= 11 * n + 8     (BFD <= 11/9 OPT + 8/9)
                                provided no value lies in (2C/11, C/4]
      bfd_ratio_76_large     :  6 * length b <= 7 * n + 5      provided every value exceeds C/4
      bfd_119_ranges         :  the last two bounds in terms of x = first item of the last bin

    The same constants as for first-fit-decreasing.  In fact the proofs use nothing of best-fit
    but "any-fit on a descending list": [afd_ratio_43], [afd_ratio_54], [afd_119_ranges] are stated
    for [gloop valueof place] with any placement function whose steps are any-fit steps
    ([af_step] of PackingProofs.v), and first-fit-decreasing is a second instance.

    Which invariant replaces [sfit2] of FFD119Proofs.v (an item y of a later bin does not fit into
    an earlier bin when only the items >= y of that bin are counted)?  [sfit2] is false for
    best-fit-decreasing ([bfd_not_sfit2] below).  But the arguments [heavy43], [heavy54], [heavy76]
    use [sfit2] only through [no_follow]: after a deficient bin (types {M,S}; {L,m}, {L,t},
    {m,t,t}; {L,s}) no value of a class P (M; L; ML; L) lies in a later bin.  In every deficient
    type all values are at most C/2 ([small43], [small54], [small76]), the classes P are upward
    closed below C/2, and the deficiency says that a value of P fits next to the values >= it of
    the bin.  So it is enough to know the [sfit2] property for the FIRST item f of every later bin:

      [hfit]   C < (sum of the values >= f of the earlier bin) + f

    together with [hdesc] (FFDRatioProofs.v: the first item of a bin is at least every item of
    this bin and of all later bins): if y in P lies in a later bin with first item f, then
    y <= f <= first item of the deficient bin <= C/2, so f is in P and fits, contradicting [hfit].
    [hfit] is the any-fit property read at the time f opened its bin (all items placed before are
    >= f), and it is kept by every any-fit step on a descending list ([step_hfit]).
    "Every bin but the last is closed for x = first item of the last bin" is [hfit] for the last
    bin; the volume cases and the [light] lemmas do not depend on the algorithm.

    OPEN, as for first-fit-decreasing: 9 * length b <= 11 * n + c when the first item of the last
    bin lies in (2C/11, C/4] (see the header of FFD119Proofs.v; for that range the known proofs
    distinguish first-fit/best-fit from the other any-fit rules, for which only 5/4 holds). *)
From Prtpy Require Import Base.Prelude Model.Binner Model.Packing Spec.Partition
  Proofs.BaseLemmas Proofs.BinnerLemmas Proofs.PackingProofs Proofs.FFDRatioProofs
  Proofs.BFDRatioProofs Proofs.FFD119Proofs Proofs.BCOptimalProofs Oracle.Reach Proofs.OracleSpec.
From Coq Require Import ZifyBool Sorting.Sorted.

(** ---- 1. the invariant [hfit] of any-fit on a descending list ---- *)
Section HFit.
  Context {A : Type} (valueof : A -> Z).
  Notation add := (add_to_bin valueof true).
  Notation vals bn := (map valueof (snd bn)).

  (** the first item of [c] does not fit the values of [bn] that are at least as large *)
  Definition head_nofit (C : Z) (bn c : bin A) : Prop :=
    match snd c with
    | f :: _ => C < zsum (sel (valueof f) (vals bn)) + valueof f
    | [] => True
    end.

  Fixpoint hfit (C : Z) (b : bins A) : Prop :=
    match b with
    | [] => True
    | bn :: t => Forall (head_nofit C bn) t /\ hfit C t
    end.

  Lemma head_nofit_grow C x bn c : 0 <= valueof x -> head_nofit C bn c -> head_nofit C (add x bn) c.
  Proof.
    intros Hx. unfold head_nofit. destruct (snd c) as [|f r]; [auto|].
    unfold add_to_bin. cbn [snd]. rewrite map_app, sel_app, zsum_app. cbn [map].
    assert (H0 : 0 <= zsum (sel (valueof f) [valueof x])).
    { apply zsum_sel_le. constructor; [exact Hx|constructor]. }
    lia.
  Qed.

  Lemma head_nofit_add C x a bn : snd bn <> [] -> head_nofit C a bn -> head_nofit C a (add x bn).
  Proof.
    unfold head_nofit, add_to_bin. cbn [snd]. destruct (snd bn) as [|f r]; [congruence|].
    intros _ H. cbn [app]. exact H.
  Qed.

  Lemma hfit_into C x bn l2 : 0 <= valueof x -> snd bn <> [] -> forall l1 : bins A,
    hfit C (l1 ++ bn :: l2) -> hfit C (l1 ++ add x bn :: l2).
  Proof.
    intros Hx Hne. induction l1 as [|a l1 IH]; cbn [app hfit].
    - intros [H1 H2]. split; [|exact H2]. eapply Forall_impl; [|exact H1].
      intros c Hc. apply head_nofit_grow; assumption.
    - intros [H1 H2]. split; [|apply IH; exact H2].
      apply Forall_app in H1. destruct H1 as [H1a H1b].
      apply Forall_cons_iff in H1b. destruct H1b as [Hbn Hl2].
      apply Forall_app. split; [exact H1a|]. constructor; [|exact Hl2].
      apply head_nofit_add; assumption.
  Qed.

  Lemma hfit_new C x : forall b : bins A, wf valueof b ->
    Forall (fun bn : bin A => C < fst bn + valueof x) b ->
    Forall (fun z => valueof x <= valueof z) (contents b) ->
    hfit C b -> hfit C (b ++ [add x empty_bin]).
  Proof.
    induction b as [|a t IH]; intros Hw Hall Hx; cbn [app hfit].
    - intros _. split; constructor.
    - intros [H1 H2].
      unfold wf in Hw. apply Forall_cons_iff in Hw. destruct Hw as [Hwa Hw].
      apply Forall_cons_iff in Hall. destruct Hall as [Ha Hall].
      rewrite contents_cons in Hx. apply Forall_app in Hx. destruct Hx as [Hxa Hx].
      split; [|apply IH; assumption].
      apply Forall_app. split; [exact H1|]. constructor; [|constructor].
      unfold head_nofit, add_to_bin, empty_bin. cbn [snd app].
      rewrite sel_all; [|rewrite Forall_map; exact Hxa].
      unfold wf_bin in Hwa. lia.
  Qed.

  Lemma step_hfit C x (b b' : bins A) : 0 <= valueof x -> af_step valueof C x b b' ->
    wf valueof b -> all_nonempty b -> Forall (fun z => valueof x <= valueof z) (contents b) ->
    hfit C b -> hfit C b'.
  Proof.
    intros Hx H Hw Hne Hge Hh. destruct H as [l1 bn l2 Hfit|b Hall].
    - apply hfit_into; [exact Hx| |exact Hh]. unfold all_nonempty in Hne.
      apply Forall_app in Hne. destruct Hne as [_ Hne].
      apply Forall_cons_iff in Hne. destruct Hne as [Hne _]. exact Hne.
    - apply hfit_new; assumption.
  Qed.

  (** splitting at a position *)
  Lemma hfit_app C (b1 b2 : bins A) : hfit C (b1 ++ b2) ->
    Forall (fun c => Forall (head_nofit C c) b2) b1 /\ hfit C b1.
  Proof.
    induction b1 as [|c b1 IH]; cbn [app hfit].
    - intros _. split; [constructor|exact I].
    - intros [H1 H2]. destruct (IH H2) as [I1 I2].
      apply Forall_app in H1. destruct H1 as [H1a H1b].
      split; [constructor; [exact H1b|exact I1]|split; [exact H1a|exact I2]].
  Qed.

  Lemma hdesc_app_l : forall b1 b2 : bins A, hdesc valueof (b1 ++ b2) -> hdesc valueof b1.
  Proof.
    induction b1 as [|c b1 IH]; intros b2; cbn [app hdesc]; [auto|].
    intros [H1 H2]. split; [|apply (IH b2); exact H2].
    destruct (hd_dom_elim valueof _ _ H1) as (x0 & l0 & Es & HF).
    apply (hd_dom_intro valueof _ x0 l0 _ Es).
    rewrite contents_cons in *. rewrite contents_app in HF.
    apply Forall_app in HF. destruct HF as [HF1 HF2]. apply Forall_app in HF2. destruct HF2 as [HF2 _].
    apply Forall_app. split; assumption.
  Qed.

  (** an item of a bins-array with [hdesc] is at most the first item of its bin *)
  Lemma hdesc_in : forall (t : bins A) y, hdesc valueof t -> In y (contents t) ->
    exists (c : bin A) f r, In c t /\ snd c = f :: r /\ valueof y <= valueof f.
  Proof.
    induction t as [|c t IH]; intros y Hh Hy.
    - unfold contents, lists in Hy. cbn [map concat] in Hy. destruct Hy.
    - cbn [hdesc] in Hh. destruct Hh as [H1 H2]. rewrite contents_cons in Hy.
      apply in_app_or in Hy. destruct Hy as [Hy|Hy].
      + destruct (hd_dom_elim valueof _ _ H1) as (f & r & Es & HF).
        exists c, f, r. split; [left; reflexivity|split; [exact Es|]].
        rewrite Forall_forall in HF. apply HF. rewrite contents_cons. apply in_or_app. left. exact Hy.
      + destruct (IH y H2 Hy) as (c' & f & r & Hc & Es & Hle).
        exists c', f, r. split; [right; exact Hc|split; [exact Es|exact Hle]].
  Qed.

  Lemma head_in_contents (t : bins A) (c : bin A) f r : In c t -> snd c = f :: r -> In f (contents t).
  Proof.
    intros Hc Es. unfold contents, lists. apply in_concat. exists (snd c).
    split; [apply in_map; exact Hc|rewrite Es; left; reflexivity].
  Qed.

  (** ---- 2. the loop: any placement by any-fit steps, on a descending list ---- *)
  Notation desc_sorted := (StronglySorted (fun a c : A => valueof c <= valueof a)).
  Variable place : Z -> A -> bins A -> bins A.

  Lemma gloop_afd_struct C :
    (forall x b, 0 <= valueof x -> nonneg_sums b -> af_step valueof C x b (place C x b)) ->
    forall items b acc b', desc_sorted items ->
    Forall (fun x => 0 <= valueof x) items ->
    Forall (fun z => Forall (fun x => valueof x <= valueof z) items) (contents b) ->
    Inv valueof C b acc -> hfit C b -> hdesc valueof b ->
    gloop valueof place C items b = Ok b' ->
    Inv valueof C b' (acc ++ items) /\ hfit C b' /\ hdesc valueof b'.
  Proof.
    intros Hplace. induction items as [|x t IH]; intros b acc b' Hs Hnn Hd HI H2 Hh; cbn [gloop].
    - intros H. injection H as H. subst b'. rewrite app_nil_r. auto.
    - destruct (valueof x >? C) eqn:E; [intros H; discriminate H|]. intros H.
      inversion Hs as [|x' t' Hst Hxt]; subst.
      apply Forall_cons_iff in Hnn. destruct Hnn as [Hx Hnn].
      pose proof HI as (Hw & _ & _ & Hne & Hsn & _).
      pose proof (Hplace x b Hx Hsn) as Hstep.
      assert (Hxz : Forall (fun z => valueof x <= valueof z) (contents b)).
      { eapply Forall_impl; [|exact Hd]. intros z Hz. cbv beta in Hz.
        apply Forall_cons_iff in Hz. destruct Hz as [Hz _]. exact Hz. }
      replace (acc ++ x :: t) with ((acc ++ [x]) ++ t) by (rewrite <- app_assoc; reflexivity).
      apply (IH (place C x b)); [exact Hst|exact Hnn| | | | |exact H].
      + eapply Permutation_Forall; [symmetry; apply (step_contents valueof C x b _ Hstep)|].
        apply Forall_app. split.
        * eapply Forall_impl; [|exact Hd]. intros z Hz. cbv beta in Hz.
          apply Forall_cons_iff in Hz. destruct Hz as [_ Hz]. exact Hz.
        * constructor; [exact Hxt|constructor].
      + apply (step_Inv valueof C x b); [lia|exact Hstep|exact HI].
      + apply (step_hfit C x b); assumption.
      + apply (step_hdesc valueof C x b); assumption.
  Qed.

  Lemma gloop_afd_first C :
    (forall x b, 0 <= valueof x -> nonneg_sums b -> af_step valueof C x b (place C x b)) ->
    forall items b, items <> [] -> desc_sorted items -> Forall (fun x => 0 <= valueof x) items ->
    gloop valueof place C items (new_bins 1) = Ok b ->
    Inv valueof C b items /\ hfit C b /\ hdesc valueof b.
  Proof.
    intros Hplace items b Hne Hs Hnn H. destruct items as [|x t]; [congruence|]. cbn [gloop] in H.
    destruct (valueof x >? C) eqn:E; [discriminate H|].
    apply Forall_cons_iff in Hnn. destruct Hnn as [Hx Hnn].
    assert (Hfirst : place C x (new_bins 1) = [add x empty_bin]).
    { apply (af_step_first valueof C x); [lia|]. apply Hplace; [exact Hx|].
      unfold nonneg_sums, new_bins, empty_bin. cbn [repeat]. constructor; [cbn [fst]; lia|constructor]. }
    rewrite Hfirst in H. inversion Hs as [|x' t' Hst Hxt]; subst.
    change (x :: t) with ([x] ++ t).
    apply (gloop_afd_struct C Hplace t [add x empty_bin] [x] b Hst Hnn); [| | | |exact H].
    - rewrite (contents_single valueof). constructor; [exact Hxt|constructor].
    - apply Inv_first. lia.
    - cbn [hfit]. split; constructor.
    - cbn [hdesc]. split; [|exact I]. apply (hd_dom_intro valueof _ x []); [reflexivity|].
      rewrite (contents_single valueof). constructor; [lia|constructor].
  Qed.
End HFit.

(** ---- 3. a deficient bin holds no value above C/2 ---- *)
Ltac split_ge H Ha := apply Forall_cons_iff in H; destruct H as [Ha H].

Lemma small43 C x l : C < 4 * x -> x <= C ->
  Forall (fun a => x <= a) l -> C < zsum l + x -> ws43 C x l < 12 -> Forall (fun a => 2 * a <= C) l.
Proof.
  intros Hx HxC Hge Hcl Hw. destruct l as [|a [|c [|d r]]].
  - constructor.
  - exfalso. rewrite pk_zsum_cons, pk_zsum_nil in Hcl. rewrite gws_cons, gws_nil in Hw.
    split_ge Hge Ha. pose proof (w43_spec C x a). lia.
  - rewrite !gws_cons, gws_nil in Hw. split_ge Hge Ha. split_ge Hge Hc.
    pose proof (w43_spec C x a). pose proof (w43_spec C x c).
    constructor; [lia|constructor; [lia|constructor]].
  - exfalso. rewrite !gws_cons in Hw. split_ge Hge Ha. split_ge Hge Hc. split_ge Hge Hd.
    pose proof (gws_nonneg (w43 C x) r (w43_nonneg C x)).
    pose proof (w43_spec C x a). pose proof (w43_spec C x c). pose proof (w43_spec C x d). lia.
Qed.

Lemma small54 C x l : C < 5 * x -> x <= C ->
  Forall (fun a => x <= a) l -> C < zsum l + x -> ws54 C x l < 8 -> Forall (fun a => 2 * a <= C) l.
Proof.
  intros Hx HxC Hge Hcl Hw. destruct l as [|a [|c [|d [|e r]]]].
  - constructor.
  - exfalso. rewrite pk_zsum_cons, pk_zsum_nil in Hcl. rewrite gws_cons, gws_nil in Hw.
    split_ge Hge Ha. pose proof (w54_spec C x a). lia.
  - rewrite !pk_zsum_cons, pk_zsum_nil in Hcl. rewrite !gws_cons, gws_nil in Hw.
    split_ge Hge Ha. split_ge Hge Hc.
    pose proof (w54_spec C x a). pose proof (w54_spec C x c).
    constructor; [lia|constructor; [lia|constructor]].
  - rewrite !gws_cons, gws_nil in Hw. split_ge Hge Ha. split_ge Hge Hc. split_ge Hge Hd.
    pose proof (w54_spec C x a). pose proof (w54_spec C x c). pose proof (w54_spec C x d).
    constructor; [lia|constructor; [lia|constructor; [lia|constructor]]].
  - exfalso. rewrite !gws_cons in Hw. split_ge Hge Ha. split_ge Hge Hc. split_ge Hge Hd. split_ge Hge He.
    pose proof (gws_nonneg (w54 C x) r (w54_nonneg C x)).
    pose proof (w54_ge2 C x a Ha). pose proof (w54_ge2 C x c Hc).
    pose proof (w54_ge2 C x d Hd). pose proof (w54_ge2 C x e He). lia.
Qed.

Lemma small76 C x l : C < 4 * x -> x <= C ->
  Forall (fun a => x <= a) l -> C < zsum l + x -> ws76 C x l < 6 -> Forall (fun a => 2 * a <= C) l.
Proof.
  intros Hx HxC Hge Hcl Hw. destruct l as [|a [|c [|d r]]].
  - constructor.
  - exfalso. rewrite pk_zsum_cons, pk_zsum_nil in Hcl. rewrite gws_cons, gws_nil in Hw.
    split_ge Hge Ha. pose proof (w76_spec C x a). lia.
  - rewrite !gws_cons, gws_nil in Hw. split_ge Hge Ha. split_ge Hge Hc.
    pose proof (w76_spec C x a). pose proof (w76_spec C x c).
    constructor; [lia|constructor; [lia|constructor]].
  - exfalso. rewrite !gws_cons in Hw. split_ge Hge Ha. split_ge Hge Hc. split_ge Hge Hd.
    pose proof (gws_nonneg (w76 C x) r (w76_nonneg C x)).
    pose proof (w76_ge2 C x a Ha). pose proof (w76_ge2 C x c Hc). pose proof (w76_ge2 C x d Hd). lia.
Qed.

(** the classes are upward closed below C/2 *)
Lemma isM_up C y y' : isM C y -> y <= y' -> 2 * y' <= C -> isM C y'.
Proof. unfold isM. lia. Qed.
Lemma isL_up C x y y' : isL C x y -> y <= y' -> 2 * y' <= C -> isL C x y'.
Proof. unfold isL. lia. Qed.
Lemma isML_up C x y y' : isML C x y -> y <= y' -> 2 * y' <= C -> isML C x y'.
Proof. unfold isML. lia. Qed.

(** ---- 4. [no_follow] from [hfit] and [hdesc] ---- *)
Section NoFollow.
  Context {A : Type} (valueof : A -> Z).
  Notation vals bn := (map valueof (snd bn)).

  (** a bin closed for x <= C has its first item >= x, so that item is among the selected ones *)
  Lemma closed_head_sel C x (bn : bin A) (t : bins A) : x <= C ->
    C < zsum (sel x (vals bn)) + x -> hd_dom valueof bn (contents (bn :: t)) ->
    exists a r, snd bn = a :: r /\ In (valueof a) (sel x (vals bn)) /\
      Forall (fun y => valueof y <= valueof a) (contents t).
  Proof.
    intros HxC Hcl Hd. destruct (hd_dom_elim valueof _ _ Hd) as (a & r & Es & HF).
    exists a, r. rewrite contents_cons in HF. apply Forall_app in HF. destruct HF as [HF1 HF2].
    split; [exact Es|split; [|exact HF2]].
    destruct (sel x (vals bn)) as [|e l] eqn:El; [rewrite pk_zsum_nil in Hcl; lia|].
    assert (He : In e (sel x (vals bn))) by (rewrite El; left; reflexivity).
    unfold sel in He. apply filter_In in He. destruct He as [He1 He2].
    apply in_map_iff in He1. destruct He1 as (y & Ey & Hy).
    rewrite Forall_forall in HF1. specialize (HF1 y Hy).
    rewrite <- El. unfold sel. apply filter_In. split; [rewrite Es; left; reflexivity|lia].
  Qed.

  Lemma no_follow_af C x (P : Z -> Prop) (bn : bin A) (t : bins A) : x <= C ->
    (forall y y', P y -> y <= y' -> 2 * y' <= C -> P y') ->
    (forall y, P y -> x <= y) ->
    C < zsum (sel x (vals bn)) + x ->
    hd_dom valueof bn (contents (bn :: t)) -> hdesc valueof t -> Forall (head_nofit valueof C bn) t ->
    Forall (fun a => 2 * a <= C) (sel x (vals bn)) ->
    (forall y, P y -> zsum (sel y (sel x (vals bn))) + y <= C) ->
    Forall (fun y => ~ P (valueof y)) (contents t).
  Proof.
    intros HxC Hup HPx Hcl Hd Hh Hs Hsm HM.
    destruct (closed_head_sel C x bn t HxC Hcl Hd) as (a & r & Es & Ha & Hdom).
    assert (Ha2 : 2 * valueof a <= C) by (rewrite Forall_forall in Hsm; apply Hsm; exact Ha).
    apply Forall_forall. intros y Hy HPy.
    destruct (hdesc_in valueof t y Hh Hy) as (c & f & rf & Hc & Ef & Hyf).
    assert (Hfa : valueof f <= valueof a).
    { rewrite Forall_forall in Hdom. apply Hdom. apply (head_in_contents t c f rf Hc Ef). }
    assert (HPf : P (valueof f)) by (apply (Hup (valueof y)); [exact HPy|exact Hyf|lia]).
    rewrite Forall_forall in Hs. specialize (Hs c Hc). unfold head_nofit in Hs. rewrite Ef in Hs.
    specialize (HM (valueof f) HPf). rewrite sel_sel in HM; [|apply HPx; exact HPf]. lia.
  Qed.
End NoFollow.

(** ---- 5. the bins of an any-fit-decreasing packing are heavy ---- *)
Section HeavyAF.
  Context {A : Type} (valueof : A -> Z).
  Notation vals bn := (map valueof (snd bn)).
  Notation cw43 C x b := (ws43 C x (map valueof (contents b))).
  Notation cw54 C x b := (ws54 C x (map valueof (contents b))).
  Notation cw76 C x b := (ws76 C x (map valueof (contents b))).

  Lemma heavy43_af C x : C < 4 * x -> x <= C -> forall t : bins A, closed valueof C x t ->
    hfit valueof C t -> hdesc valueof t -> 12 * Z.of_nat (length t) <= cw43 C x t + 2.
  Proof.
    intros Hx HxC. induction t as [|bn t IH]; intros Hcl Hsf Hh.
    - cbn [length Z.of_nat]. unfold contents, lists. cbn [map concat]. rewrite gws_nil. lia.
    - pose proof Hcl as Hcl0. unfold closed in Hcl. apply Forall_cons_iff in Hcl. destruct Hcl as [Hc Hcl].
      cbn [hfit] in Hsf. destruct Hsf as [Hs1 Hsf]. cbn [hdesc] in Hh. destruct Hh as [Hd Hh].
      rewrite (cw_cons valueof). cbn [length]. rewrite Nat2Z.inj_succ.
      destruct (Z_le_dec 12 (ws43 C x (sel x (vals bn)))) as [H12|Hlt].
      + specialize (IH Hcl Hsf Hh). lia.
      + destruct (bin43_cases C x (sel x (vals bn)) Hx HxC (sel_ge x _) Hc) as [H12|(H10 & H3x & HM)]; [lia|].
        assert (HnM : Forall (fun y => ~ isM C (valueof y)) (contents t)).
        { apply (no_follow_af valueof C x (isM C) bn t HxC); try assumption.
          - intros y y'; apply isM_up.
          - intros y Hy. unfold isM in Hy. lia.
          - apply (small43 C x); [exact Hx|exact HxC|apply sel_ge|exact Hc|lia]. }
        pose proof (heavy43_noM valueof C x Hx HxC t Hcl HnM). lia.
  Qed.

  Lemma heavy54_noL_af C x : C < 5 * x -> x <= C -> forall t : bins A, closed valueof C x t ->
    hfit valueof C t -> hdesc valueof t -> Forall (fun y => ~ isL C x (valueof y)) (contents t) ->
    8 * Z.of_nat (length t) <= cw54 C x t + 1.
  Proof.
    intros Hx HxC. induction t as [|bn t IH]; intros Hcl Hsf Hh HnL.
    - cbn [length Z.of_nat]. rewrite (cw54_nil valueof). lia.
    - unfold closed in Hcl. apply Forall_cons_iff in Hcl. destruct Hcl as [Hc Hcl].
      cbn [hfit] in Hsf. destruct Hsf as [Hs1 Hsf]. cbn [hdesc] in Hh. destruct Hh as [Hd Hh].
      rewrite contents_cons in HnL. apply Forall_app in HnL. destruct HnL as [HnL1 HnL2].
      rewrite (cw54_cons valueof). cbn [length]. rewrite Nat2Z.inj_succ.
      assert (HnLv : Forall (fun a => ~ isL C x a) (sel x (vals bn))).
      { apply sel_incl. rewrite Forall_map. exact HnL1. }
      destruct (Z_le_dec 8 (ws54 C x (sel x (vals bn)))) as [H8|Hlt].
      + specialize (IH Hcl Hsf Hh HnL2). lia.
      + destruct (bin54_noL C x (sel x (vals bn)) Hx HxC (sel_ge x _) Hc HnLv) as [H8|(H7 & HM)]; [lia|].
        assert (HnM : Forall (fun y => ~ isML C x (valueof y)) (contents t)).
        { apply (no_follow_af valueof C x (isML C x) bn t HxC); try assumption.
          - intros y y'; apply isML_up.
          - intros y Hy. unfold isML in Hy. lia.
          - apply (small54 C x); [exact Hx|exact HxC|apply sel_ge|exact Hc|lia]. }
        pose proof (heavy54_noML valueof C x Hx HxC t Hcl HnM). lia.
  Qed.

  Lemma heavy54_af C x : C < 5 * x -> x <= C -> forall t : bins A, closed valueof C x t ->
    hfit valueof C t -> hdesc valueof t -> 8 * Z.of_nat (length t) <= cw54 C x t + 3.
  Proof.
    intros Hx HxC. induction t as [|bn t IH]; intros Hcl Hsf Hh.
    - cbn [length Z.of_nat]. rewrite (cw54_nil valueof). lia.
    - unfold closed in Hcl. apply Forall_cons_iff in Hcl. destruct Hcl as [Hc Hcl].
      cbn [hfit] in Hsf. destruct Hsf as [Hs1 Hsf]. cbn [hdesc] in Hh. destruct Hh as [Hd Hh].
      rewrite (cw54_cons valueof). cbn [length]. rewrite Nat2Z.inj_succ.
      destruct (Z_le_dec 8 (ws54 C x (sel x (vals bn)))) as [H8|Hlt].
      + specialize (IH Hcl Hsf Hh). lia.
      + assert (Hsm : Forall (fun a => 2 * a <= C) (sel x (vals bn))).
        { apply (small54 C x); [exact Hx|exact HxC|apply sel_ge|exact Hc|lia]. }
        destruct (bin54_cases C x (sel x (vals bn)) Hx HxC (sel_ge x _) Hc) as [H8|[(H7 & HM)|(H6 & HL)]]; [lia| |].
        * assert (HnM : Forall (fun y => ~ isML C x (valueof y)) (contents t)).
          { apply (no_follow_af valueof C x (isML C x) bn t HxC); try assumption.
            - intros y y'; apply isML_up.
            - intros y Hy. unfold isML in Hy. lia. }
          pose proof (heavy54_noML valueof C x Hx HxC t Hcl HnM). lia.
        * assert (HnL : Forall (fun y => ~ isL C x (valueof y)) (contents t)).
          { apply (no_follow_af valueof C x (isL C x) bn t HxC); try assumption.
            - intros y y'; apply isL_up.
            - intros y Hy. unfold isL in Hy. lia. }
          pose proof (heavy54_noL_af C x Hx HxC t Hcl Hsf Hh HnL). lia.
  Qed.

  Lemma heavy76_af C x : C < 4 * x -> x <= C -> forall t : bins A, closed valueof C x t ->
    hfit valueof C t -> hdesc valueof t -> 6 * Z.of_nat (length t) <= cw76 C x t + 1.
  Proof.
    intros Hx HxC. induction t as [|bn t IH]; intros Hcl Hsf Hh.
    - cbn [length Z.of_nat]. rewrite (cw76_nil valueof). lia.
    - unfold closed in Hcl. apply Forall_cons_iff in Hcl. destruct Hcl as [Hc Hcl].
      cbn [hfit] in Hsf. destruct Hsf as [Hs1 Hsf]. cbn [hdesc] in Hh. destruct Hh as [Hd Hh].
      rewrite (cw76_cons valueof). cbn [length]. rewrite Nat2Z.inj_succ.
      destruct (Z_le_dec 6 (ws76 C x (sel x (vals bn)))) as [H6|Hlt].
      + specialize (IH Hcl Hsf Hh). lia.
      + destruct (bin76_cases C x (sel x (vals bn)) Hx HxC (sel_ge x _) Hc) as [H6|(H5 & HL)]; [lia|].
        assert (HnL : Forall (fun y => ~ isL C x (valueof y)) (contents t)).
        { apply (no_follow_af valueof C x (isL C x) bn t HxC); try assumption.
          - intros y y'; apply isL_up.
          - intros y Hy. unfold isL in Hy. lia.
          - apply (small76 C x); [exact Hx|exact HxC|apply sel_ge|exact Hc|lia]. }
        pose proof (heavy76_noL valueof C x Hx HxC t Hcl HnL). lia.
  Qed.
End HeavyAF.

(** ---- 6. the bounds for any bins-array with [Inv], [hfit], [hdesc] ---- *)
Section AFRatio.
  Context {A : Type} (valueof : A -> Z).
  Notation vals bn := (map valueof (snd bn)).

  (** all bins but the last are closed for the first item x0 of the last bin *)
  Lemma af_last C items (b : bins A) : items <> [] -> Forall (fun x => 0 <= valueof x) items ->
    Inv valueof C b items -> hfit valueof C b -> hdesc valueof b ->
    exists (t : bins A) (last : bin A) (x0 : A),
      b = t ++ [last] /\ In x0 (snd last) /\ 0 <= valueof x0 <= C /\
      closed valueof C (valueof x0) t /\ hfit valueof C t /\ hdesc valueof t /\ wf valueof b /\
      Forall (fun y => 0 <= valueof y) (contents b) /\ Permutation (contents b) items.
  Proof.
    intros Hne Hnn (Hw & Hf & Hp & Hnem & Hns & _) Hsf Hh.
    assert (Hnnb : Forall (fun y => 0 <= valueof y) (contents b))
      by (eapply Permutation_Forall; [symmetry; exact Hp|exact Hnn]).
    assert (Hb : b <> []).
    { intros E. subst b. apply Permutation_nil in Hp. congruence. }
    destruct (exists_last Hb) as (t & last & E). subst b.
    unfold all_nonempty in Hnem. apply Forall_app in Hnem. destruct Hnem as [_ Hl].
    apply Forall_cons_iff in Hl. destruct Hl as [Hl _].
    destruct (snd last) as [|x0 r] eqn:El; [congruence|].
    exists t, last, x0. rewrite El.
    assert (Hin : In x0 (contents [last])).
    { rewrite contents_cons, El. left. reflexivity. }
    destruct (hfit_app valueof C t [last] Hsf) as [Hcl Hsft].
    assert (Hx0 : 0 <= valueof x0).
    { rewrite Forall_forall in Hnnb. apply Hnnb. rewrite contents_app. apply in_or_app. right. exact Hin. }
    assert (Hx0C : valueof x0 <= C).
    { unfold feasible in Hf. apply Forall_app in Hf. destruct Hf as [_ Hf].
      apply Forall_cons_iff in Hf. destruct Hf as [Hf _].
      unfold wf in Hw. apply Forall_app in Hw. destruct Hw as [_ Hwl].
      apply Forall_cons_iff in Hwl. destruct Hwl as [Hwl _]. unfold wf_bin in Hwl.
      rewrite El in Hwl. cbn [map] in Hwl. rewrite pk_zsum_cons in Hwl.
      assert (0 <= zsum (map valueof r)).
      { apply zsum_nonneg. rewrite Forall_map. rewrite contents_app, contents_cons, El in Hnnb.
        apply Forall_app in Hnnb. destruct Hnnb as [_ Hnnb]. apply Forall_app in Hnnb.
        destruct Hnnb as [Hnnb _]. apply Forall_cons_iff in Hnnb. destruct Hnnb as [_ Hnnb]. exact Hnnb. }
      lia. }
    split; [reflexivity|]. split; [left; reflexivity|]. split; [lia|].
    split; [|split; [exact Hsft|split; [apply (hdesc_app_l valueof t [last]); exact Hh|
             split; [exact Hw|split; [exact Hnnb|exact Hp]]]]].
    unfold closed. eapply Forall_impl; [|exact Hcl]. intros c Hc. cbv beta in Hc.
    apply Forall_cons_iff in Hc. destruct Hc as [Hc _]. unfold head_nofit in Hc. rewrite El in Hc. exact Hc.
  Qed.

  (** the weight of the last bin is at least the weight of x0 *)
  Lemma last_weight (w : Z -> Z) (last : bin A) x0 : (forall a, 0 <= w a) -> In x0 (snd last) ->
    w (valueof x0) <= gws w (map valueof (contents [last])).
  Proof.
    intros Hw Hin. rewrite contents_cons. apply in_split in Hin. destruct Hin as (l1 & l2 & El). rewrite El.
    rewrite !map_app, !gws_app. cbn [map]. rewrite gws_cons.
    pose proof (gws_nonneg w (map valueof l1) Hw). pose proof (gws_nonneg w (map valueof l2) Hw).
    pose proof (gws_nonneg w (map valueof (contents [])) Hw). lia.
  Qed.

  Theorem af_struct_ratio_43 C (items : list A) (b : bins A) (n : nat) :
    items <> [] -> Forall (fun x : A => 0 <= valueof x) items ->
    Inv valueof C b items -> hfit valueof C b -> hdesc valueof b ->
    Packable C (map valueof items) n -> (3 * length b <= 4 * n + 2)%nat.
  Proof.
    intros Hne Hnn HI Hsf0 Hh0 Hpack.
    destruct (af_last C items b Hne Hnn HI Hsf0 Hh0)
      as (t & last & x0 & E & Hin & [Hx0 Hx0C] & Hcl & Hsf & Hh & Hw & Hnnb & Hp).
    subst b. rewrite app_length. cbn [length].
    assert (HC : 0 <= C) by lia.
    destruct (Z_lt_le_dec C (4 * valueof x0)) as [Hbig|Hsmall].
    - pose proof (heavy43_af valueof C (valueof x0) Hbig Hx0C t Hcl Hsf Hh) as Hheavy.
      assert (Hlight : ws43 C (valueof x0) (map valueof items) <= 16 * Z.of_nat n).
      { apply (packable_gws (w43 C (valueof x0)) C 16); [|rewrite Forall_map; exact Hnn|exact Hpack].
        intros g Hg0 Hg. apply light43; assumption. }
      rewrite <- (gws_perm _ _ _ (Permutation_map valueof Hp)) in Hlight.
      rewrite contents_app, map_app, gws_app in Hlight.
      pose proof (last_weight (w43 C (valueof x0)) last x0 (w43_nonneg C (valueof x0)) Hin) as Hl.
      pose proof (w43_spec C (valueof x0) (valueof x0)). lia.
    - destruct t as [|bn t']; [cbn [length]; destruct n as [|n]; [|lia]|].
      + apply packable_zero in Hpack. apply map_eq_nil in Hpack. congruence.
      + pose proof (volume_case valueof C 4 (bn :: t') last x0 items n ltac:(lia) HC Hin Hx0 Hsmall Hcl Hw Hnnb Hp Hpack
                      ltac:(discriminate)) as Hv.
        cbn [length] in *. lia.
  Qed.

  Theorem af_struct_ratio_54 C (items : list A) (b : bins A) (n : nat) :
    items <> [] -> Forall (fun x : A => 0 <= valueof x) items ->
    Inv valueof C b items -> hfit valueof C b -> hdesc valueof b ->
    Packable C (map valueof items) n -> (4 * length b <= 5 * n + 4)%nat.
  Proof.
    intros Hne Hnn HI Hsf0 Hh0 Hpack.
    destruct (af_last C items b Hne Hnn HI Hsf0 Hh0)
      as (t & last & x0 & E & Hin & [Hx0 Hx0C] & Hcl & Hsf & Hh & Hw & Hnnb & Hp).
    subst b. rewrite app_length. cbn [length].
    assert (HC : 0 <= C) by lia.
    destruct (Z_lt_le_dec C (5 * valueof x0)) as [Hbig|Hsmall].
    - pose proof (heavy54_af valueof C (valueof x0) Hbig Hx0C t Hcl Hsf Hh) as Hheavy.
      assert (Hlight : ws54 C (valueof x0) (map valueof items) <= 10 * Z.of_nat n).
      { apply (packable_gws (w54 C (valueof x0)) C 10); [|rewrite Forall_map; exact Hnn|exact Hpack].
        intros g Hg0 Hg. apply light54; assumption. }
      rewrite <- (gws_perm _ _ _ (Permutation_map valueof Hp)) in Hlight.
      rewrite contents_app, map_app, gws_app in Hlight.
      pose proof (last_weight (w54 C (valueof x0)) last x0 (w54_nonneg C (valueof x0)) Hin) as Hl.
      pose proof (w54_ge2 C (valueof x0) (valueof x0) ltac:(lia)). lia.
    - destruct t as [|bn t']; [cbn [length]; destruct n as [|n]; [|lia]|].
      + apply packable_zero in Hpack. apply map_eq_nil in Hpack. congruence.
      + pose proof (volume_case valueof C 5 (bn :: t') last x0 items n ltac:(lia) HC Hin Hx0 Hsmall Hcl Hw Hnnb Hp Hpack
                      ltac:(discriminate)) as Hv.
        cbn [length] in *. lia.
  Qed.

  (** the two easy ranges of x = the first item of the last bin *)
  Lemma af_struct_119_ranges C (items : list A) (b : bins A) (n : nat) :
    items <> [] -> Forall (fun x : A => 0 <= valueof x) items ->
    Inv valueof C b items -> hfit valueof C b -> hdesc valueof b ->
    Packable C (map valueof items) n ->
    exists x0, In x0 items /\
      (11 * valueof x0 <= 2 * C -> (9 * length b <= 11 * n + 8)%nat) /\
      (C < 4 * valueof x0 -> (6 * length b <= 7 * n + 5)%nat).
  Proof.
    intros Hne Hnn HI Hsf0 Hh0 Hpack.
    destruct (af_last C items b Hne Hnn HI Hsf0 Hh0)
      as (t & last & x0 & E & Hin & [Hx0 Hx0C] & Hcl & Hsf & Hh & Hw & Hnnb & Hp).
    subst b. rewrite app_length. cbn [length].
    assert (HC : 0 <= C) by lia.
    exists x0. split; [|split].
    - eapply Permutation_in; [exact Hp|]. rewrite contents_app, contents_cons.
      apply in_or_app. right. apply in_or_app. left. exact Hin.
    - intros Hsmall.
      destruct t as [|bn t']; [cbn [length]; destruct n as [|n]; [|lia]|].
      + apply packable_zero in Hpack. apply map_eq_nil in Hpack. congruence.
      + pose proof (volume_case_q valueof C 11 2 (bn :: t') last x0 items n ltac:(lia) HC Hin Hx0 Hsmall Hcl Hw Hnnb Hp Hpack
                      ltac:(discriminate)) as Hv.
        cbn [length] in *. lia.
    - intros Hbig.
      pose proof (heavy76_af valueof C (valueof x0) Hbig Hx0C t Hcl Hsf Hh) as Hheavy.
      assert (Hlight : ws76 C (valueof x0) (map valueof items) <= 7 * Z.of_nat n).
      { apply (packable_gws (w76 C (valueof x0)) C 7); [|rewrite Forall_map; exact Hnn|exact Hpack].
        intros g Hg0 Hg. apply light76; assumption. }
      rewrite <- (gws_perm _ _ _ (Permutation_map valueof Hp)) in Hlight.
      rewrite contents_app, map_app, gws_app in Hlight.
      pose proof (last_weight (w76 C (valueof x0)) last x0 (w76_nonneg C (valueof x0)) Hin) as Hl.
      pose proof (w76_ge2 C (valueof x0) (valueof x0) ltac:(lia)). lia.
  Qed.

  (** ---- 7. any-fit-decreasing: any placement function whose steps are any-fit steps ---- *)
  Variable place : Z -> A -> bins A -> bins A.
  Definition af_place (C : Z) : Prop :=
    forall x b, 0 <= valueof x -> nonneg_sums b -> af_step valueof C x b (place C x b).

  Lemma afd_structure C items b : af_place C -> items <> [] -> Forall (fun x => 0 <= valueof x) items ->
    gloop valueof place C (sort_desc valueof items) (new_bins 1) = Ok b ->
    Inv valueof C b items /\ hfit valueof C b /\ hdesc valueof b.
  Proof.
    intros Hplace Hne Hnn H.
    destruct (gloop_afd_first valueof place C Hplace (sort_desc valueof items) b
                (sort_desc_nonnil valueof items Hne) (sort_desc_sorted valueof items)
                (sort_desc_nonneg valueof items Hnn) H) as (HI & Hsf & Hh).
    split; [|split; assumption].
    apply (Inv_perm valueof C b (sort_desc valueof items)); [apply sort_desc_perm|exact HI].
  Qed.

  Theorem afd_ratio_43 C items b n : af_place C -> items <> [] -> Forall (fun x => 0 <= valueof x) items ->
    gloop valueof place C (sort_desc valueof items) (new_bins 1) = Ok b ->
    Packable C (map valueof items) n -> (3 * length b <= 4 * n + 2)%nat.
  Proof.
    intros Hplace Hne Hnn H Hpack. destruct (afd_structure C items b Hplace Hne Hnn H) as (HI & Hsf & Hh).
    apply (af_struct_ratio_43 C items b n); assumption.
  Qed.

  Theorem afd_ratio_54 C items b n : af_place C -> items <> [] -> Forall (fun x => 0 <= valueof x) items ->
    gloop valueof place C (sort_desc valueof items) (new_bins 1) = Ok b ->
    Packable C (map valueof items) n -> (4 * length b <= 5 * n + 4)%nat.
  Proof.
    intros Hplace Hne Hnn H Hpack. destruct (afd_structure C items b Hplace Hne Hnn H) as (HI & Hsf & Hh).
    apply (af_struct_ratio_54 C items b n); assumption.
  Qed.

  Theorem afd_119_ranges C items b n : af_place C -> items <> [] -> Forall (fun x => 0 <= valueof x) items ->
    gloop valueof place C (sort_desc valueof items) (new_bins 1) = Ok b ->
    Packable C (map valueof items) n ->
    exists x0, In x0 items /\
      (11 * valueof x0 <= 2 * C -> (9 * length b <= 11 * n + 8)%nat) /\
      (C < 4 * valueof x0 -> (6 * length b <= 7 * n + 5)%nat).
  Proof.
    intros Hplace Hne Hnn H Hpack. destruct (afd_structure C items b Hplace Hne Hnn H) as (HI & Hsf & Hh).
    apply (af_struct_119_ranges C items b n); assumption.
  Qed.
End AFRatio.

(** ---- 8. best-fit-decreasing ---- *)
Section BFD54.
  Context {A : Type} (valueof : A -> Z).

  Lemma bf_af_place C : af_place valueof (bf_place valueof true) C.
  Proof. intros x b Hx Hb. apply bf_is_step; assumption. Qed.

  Lemma bfd_gloop C items b : best_fit_decreasing valueof true C items = Ok b ->
    gloop valueof (bf_place valueof true) C (sort_desc valueof items) (new_bins 1) = Ok b.
  Proof. intros H. unfold best_fit_decreasing, best_fit in H. rewrite bf_loop_gloop in H. exact H. Qed.

  (** the invariants of best-fit-decreasing used here *)
  Lemma bfd_hfit C items b : items <> [] -> Forall (fun x => 0 <= valueof x) items ->
    best_fit_decreasing valueof true C items = Ok b ->
    Inv valueof C b items /\ hfit valueof C b /\ hdesc valueof b.
  Proof.
    intros Hne Hnn H. apply (afd_structure valueof (bf_place valueof true) C items b (bf_af_place C) Hne Hnn).
    apply bfd_gloop. exact H.
  Qed.

  Theorem bfd_ratio_43_partial C (items : list A) (b : bins A) (n : nat) :
    items <> [] -> Forall (fun x : A => 0 <= valueof x) items ->
    best_fit_decreasing valueof true C items = Ok b -> Packable C (map valueof items) n ->
    (3 * length b <= 4 * n + 2)%nat.
  Proof.
    intros Hne Hnn H Hpack.
    apply (afd_ratio_43 valueof (bf_place valueof true) C items b n (bf_af_place C) Hne Hnn); [|exact Hpack].
    apply bfd_gloop. exact H.
  Qed.

  Theorem bfd_ratio_54_partial C (items : list A) (b : bins A) (n : nat) :
    items <> [] -> Forall (fun x : A => 0 <= valueof x) items ->
    best_fit_decreasing valueof true C items = Ok b -> Packable C (map valueof items) n ->
    (4 * length b <= 5 * n + 4)%nat.
  Proof.
    intros Hne Hnn H Hpack.
    apply (afd_ratio_54 valueof (bf_place valueof true) C items b n (bf_af_place C) Hne Hnn); [|exact Hpack].
    apply bfd_gloop. exact H.
  Qed.

  Lemma bfd_119_ranges C (items : list A) (b : bins A) (n : nat) :
    items <> [] -> Forall (fun x : A => 0 <= valueof x) items ->
    best_fit_decreasing valueof true C items = Ok b -> Packable C (map valueof items) n ->
    exists x0, In x0 items /\
      (11 * valueof x0 <= 2 * C -> (9 * length b <= 11 * n + 8)%nat) /\
      (C < 4 * valueof x0 -> (6 * length b <= 7 * n + 5)%nat).
  Proof.
    intros Hne Hnn H Hpack.
    apply (afd_119_ranges valueof (bf_place valueof true) C items b n (bf_af_place C) Hne Hnn); [|exact Hpack].
    apply bfd_gloop. exact H.
  Qed.

  (** 11/9 when no value lies in (2C/11, C/4] *)
  Theorem bfd_ratio_11_9_partial C (items : list A) (b : bins A) (n : nat) :
    items <> [] -> Forall (fun x : A => 0 <= valueof x) items ->
    Forall (fun x : A => 11 * valueof x <= 2 * C \/ C < 4 * valueof x) items ->
    best_fit_decreasing valueof true C items = Ok b -> Packable C (map valueof items) n ->
    (9 * length b <= 11 * n + 8)%nat.
  Proof.
    intros Hne Hnn Hgap H Hpack.
    destruct (bfd_119_ranges C items b n Hne Hnn H Hpack) as (x0 & Hin & H1 & H2).
    rewrite Forall_forall in Hgap. destruct (Hgap x0 Hin) as [Hs|Hb].
    - apply H1. exact Hs.
    - specialize (H2 Hb). lia.
  Qed.

  (** 7/6 when every value exceeds C/4 *)
  Theorem bfd_ratio_76_large C (items : list A) (b : bins A) (n : nat) :
    items <> [] -> Forall (fun x : A => C < 4 * valueof x) items ->
    best_fit_decreasing valueof true C items = Ok b -> Packable C (map valueof items) n ->
    (6 * length b <= 7 * n + 5)%nat.
  Proof.
    intros Hne Hbig H Hpack.
    assert (Hnn : Forall (fun x : A => 0 <= valueof x) items).
    { destruct (Z_lt_le_dec C 0) as [Hneg|Hpos].
      - exfalso. destruct items as [|x r]; [congruence|].
        assert (Hex : exists e, best_fit_decreasing valueof true C (x :: r) = Err e).
        { apply bfd_error_iff. apply Exists_cons_hd. apply Forall_cons_iff in Hbig. destruct Hbig as [Hx _]. lia. }
        destruct Hex as [e He]. rewrite He in H. discriminate H.
      - eapply Forall_impl; [|exact Hbig]. intros y Hy. cbv beta in Hy. lia. }
    destruct (bfd_119_ranges C items b n Hne Hnn H Hpack) as (x0 & Hin & _ & H2).
    rewrite Forall_forall in Hbig. apply H2. apply Hbig. exact Hin.
  Qed.

  (** against the optimum *)
  Corollary bfd_ratio_54_minbins C (items : list A) (b : bins A) (n : nat) :
    items <> [] -> Forall (fun x : A => 0 <= valueof x) items ->
    best_fit_decreasing valueof true C items = Ok b -> MinBins C (map valueof items) n ->
    (4 * length b <= 5 * n + 4)%nat.
  Proof. intros Hne Hnn H [Hpack _]. apply (bfd_ratio_54_partial C items b n); assumption. Qed.

  (** the sums-only binner makes the same decisions *)
  Corollary bfd_ratio_54_sums C items b n :
    items <> [] -> Forall (fun x => 0 <= valueof x) items ->
    best_fit_decreasing valueof false C items = Ok b ->
    Packable C (map valueof items) n -> (4 * length b <= 5 * n + 4)%nat.
  Proof.
    intros Hne Hnn H Hpack. rewrite <- bfd_erase in H.
    destruct (best_fit_decreasing valueof true C items) as [b1|e] eqn:E; [|discriminate H].
    cbn [rmap] in H. injection H as H. subst b. rewrite erase_length.
    apply (bfd_ratio_54_partial C items b1 n); assumption.
  Qed.
End BFD54.

(** the generic theorems also cover first-fit-decreasing (same statements as in FFD119Proofs.v) *)
Lemma ffd_ratio_54_from_af {A} (valueof : A -> Z) C (items : list A) (b : bins A) (n : nat) :
  items <> [] -> Forall (fun x : A => 0 <= valueof x) items ->
  first_fit_decreasing valueof true C items = Ok b -> Packable C (map valueof items) n ->
  (4 * length b <= 5 * n + 4)%nat.
Proof.
  intros Hne Hnn H Hpack. unfold first_fit_decreasing, first_fit in H. rewrite ff_loop_gloop in H.
  apply (afd_ratio_54 valueof (ff_place valueof true) C items b n); try assumption.
  intros x b0. apply ff_is_step.
Qed.

(** ---- 9. examples ---- *)
(** [sfit2] (the invariant of FFD119Proofs.v) fails for best-fit-decreasing: 15 fits bin 0 *)
Example bfd_not_sfit2 b : best_fit_decreasing idZ true 100 [80; 30; 30; 25; 15] = Ok b -> ~ sfit2 idZ 100 b.
Proof.
  rewrite bfd_not_sfit. intros H. injection H as H. subst b. cbn [sfit2]. intros [H _].
  rewrite Forall_forall in H. specialize (H 15). cbv beta in H.
  assert (Hin : In 15 (contents [(100, [30; 30; 25; 15])])) by (vm_compute; tauto).
  specialize (H Hin). vm_compute in H. discriminate H.
Qed.

(** boolean version of [hfit], checked together with the three bounds against the exact optimum *)
Definition hnofitb (C : Z) (bn c : bin Z) : bool :=
  match snd c with f :: _ => C <? zsum (sel f (snd bn)) + f | [] => true end.
Fixpoint hfitb (C : Z) (b : bins Z) : bool :=
  match b with [] => true | bn :: t => forallb (hnofitb C bn) t && hfitb C t end.
Definition bfd_54_check (C : Z) (vs : list Z) : bool :=
  match best_fit_decreasing idZ true C vs with
  | Ok b => hfitb C b && (3 * length b <=? 4 * min_bins C vs + 2)%nat
            && (4 * length b <=? 5 * min_bins C vs + 4)%nat
  | Err _ => false
  end.

Example bfd_54_random :
  forallb (fun s => bfd_54_check (fst (ffd_32_instance s)) (snd (ffd_32_instance s))) (map Z.of_nat (seq 1 80)) = true.
Proof. vm_compute. reflexivity. Qed.

(** one third of the smallest member of Johnson's 11/9 family (C = 60: 31, 17, 16, 13): best-fit-
    decreasing uses 4 bins, the optimum is 3 *)
Example bfd_54_johnson_run :
  rmap (@length (bin Z)) (best_fit_decreasing idZ true 60 (repeat 31 2 ++ repeat 17 2 ++ repeat 16 2 ++ repeat 13 4))
    = Ok 4%nat /\
  rmap (@length (bin Z)) (best_fit_decreasing idZ true 60 (repeat 31 6 ++ repeat 17 6 ++ repeat 16 6 ++ repeat 13 12))
    = Ok 11%nat.
Proof. vm_compute. split; reflexivity. Qed.

Example bfd_54_johnson_thm b :
  best_fit_decreasing idZ true 60 (repeat 31 2 ++ repeat 17 2 ++ repeat 16 2 ++ repeat 13 4) = Ok b ->
  (4 * length b <= 5 * 3 + 4)%nat.
Proof.
  intros H. set (L := repeat 31 2 ++ repeat 17 2 ++ repeat 16 2 ++ repeat 13 4) in *.
  apply (bfd_ratio_54_partial idZ 60 L b 3); [discriminate| |exact H|].
  - repeat constructor; lia.
  - assert (HF : Forall (fun v => 0 <= v <= 60) L) by (repeat constructor; lia).
    pose proof (min_bins_spec_strong 60 L HF) as [M _]. rewrite map_id. exact M.
Qed.

(** all values above C/4: BFD 3 bins, optimum 2, 6 * 3 <= 7 * 2 + 5 *)
Example bfd_76_tight_thm b :
  best_fit_decreasing idZ true 10 [4; 4; 3; 3; 3; 3] = Ok b -> (6 * length b <= 7 * 2 + 5)%nat.
Proof.
  intros H. apply (bfd_ratio_76_large idZ 10 [4; 4; 3; 3; 3; 3] b 2); [discriminate| |exact H|].
  - repeat constructor; lia.
  - assert (HF : Forall (fun v => 0 <= v <= 10) [4; 4; 3; 3; 3; 3]) by (repeat constructor; lia).
    pose proof (min_bins_spec_strong 10 [4; 4; 3; 3; 3; 3] HF) as [M _]. rewrite map_id. exact M.
Qed.

Check step_hfit.
Check no_follow_af.
Check af_struct_ratio_54.
Check afd_ratio_54.
Check bfd_hfit.

Print Assumptions bfd_ratio_43_partial.
Print Assumptions bfd_ratio_54_partial.
Print Assumptions bfd_ratio_11_9_partial.
Print Assumptions bfd_ratio_76_large.
Print Assumptions bfd_119_ranges.
Print Assumptions bfd_ratio_54_minbins.
Print Assumptions bfd_ratio_54_sums.
Print Assumptions afd_ratio_43.
Print Assumptions afd_ratio_54.
Print Assumptions afd_119_ranges.
Print Assumptions ffd_ratio_54_from_af.
Print Assumptions bfd_54_johnson_thm.
Print Assumptions bfd_not_sfit2.
