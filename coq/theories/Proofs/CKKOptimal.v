(** Property C02: complete Karmarkar-Karp returns a partition of minimum difference.

    KKProofs.ckk_best_in_tree: the result is at least as good as every leaf of the search
    tree ([expands]).  Here: the search tree is COMPLETE, i.e. every attainable vector of bin
    sums is (up to the order of the bins) the sums of some leaf.

    The argument is carried out at the level of the vectors of sums.  [Merge k vs s] says that
    s is obtained from the list of k-vectors vs by permuting each vector and adding them up
    pointwise.  Every attainable load vector is a merge of the initial heap; a merge of
    e1 :: e2 :: rest is a merge of (some pairing of e1, e2) :: rest; every pairing is a
    [combo_of_perm]; the de-duplication of [all_combinations] keeps, for every pairing, a
    combination with the same key, i.e. the same name lists per bin up to the order of the
    bins, hence (names determine values) the same sums up to order; and merges do not depend
    on the order of the vectors nor on the order inside each vector. *)
From Prtpy Require Import Base.Prelude Base.Perms Model.Binner Model.KK Model.Objectives
  Spec.Partition Proofs.BaseLemmas Proofs.BinnerLemmas Proofs.KKProofs Proofs.EnumProofs
  Proofs.OracleSpec Proofs.CoveringProofs Proofs.ObjectivesProofs Proofs.RatioProofs.
From Coq Require Import Sorting.Sorted ZifyBool.

(** ---- pointwise sums of vectors ---- *)
Lemma zipsum_length a : forall c, length (zipsum a c) = length a.
Proof. induction a as [|x t IH]; intros [|y t2]; cbn [zipsum length]; auto. Qed.

Lemma zipsum_comm a : forall c, length a = length c -> zipsum a c = zipsum c a.
Proof.
  induction a as [|x t IH]; intros [|y t2] H; cbn [length] in H; try discriminate;
    cbn [zipsum]; [reflexivity|].
  f_equal; [lia|apply IH; lia].
Qed.

Lemma zipsum_assoc a : forall b c, length a = length b -> length b = length c ->
  zipsum (zipsum a b) c = zipsum a (zipsum b c).
Proof.
  induction a as [|x t IH]; intros [|y t2] [|z t3] H1 H2; cbn [length] in *; try discriminate;
    cbn [zipsum]; [reflexivity|].
  f_equal; [lia|apply IH; lia].
Qed.

Lemma zipsum_swap a b c : length a = length b -> length b = length c ->
  zipsum a (zipsum b c) = zipsum b (zipsum a c).
Proof.
  intros H1 H2. rewrite <- (zipsum_assoc a b c H1 H2).
  rewrite <- (zipsum_assoc b a c (eq_sym H1) (eq_trans H1 H2)).
  rewrite (zipsum_comm a b H1). reflexivity.
Qed.

Lemma zipsum_zeros_r a : zipsum a (repeat 0 (length a)) = a.
Proof.
  induction a as [|x t IH]; [reflexivity|]. cbn [length repeat zipsum]. rewrite IH. f_equal. lia.
Qed.

Lemma zipsum_zeros_l a : zipsum (repeat 0 (length a)) a = a.
Proof.
  induction a as [|x t IH]; [reflexivity|]. cbn [length repeat zipsum]. rewrite IH. f_equal.
Qed.

Definition addp (p : Z * Z) : Z := fst p + snd p.

Lemma zipsum_combine a : forall c, length a = length c -> zipsum a c = map addp (combine a c).
Proof.
  induction a as [|x t IH]; intros [|y t2] H; cbn [length] in H; try discriminate;
    cbn [zipsum combine map]; [reflexivity|].
  rewrite IH by lia. reflexivity.
Qed.

Lemma combine_fst_snd_l {X Y} (ps : list (X * Y)) : combine (map fst ps) (map snd ps) = ps.
Proof. induction ps as [|[x y] t IH]; cbn [map combine fst snd]; [reflexivity|]. rewrite IH. reflexivity. Qed.

Lemma map_fst_combine_l {X Y} (a : list X) : forall c : list Y, length a = length c ->
  map fst (combine a c) = a.
Proof.
  induction a as [|x t IH]; intros [|y t2] H; cbn [length] in H; try discriminate;
    cbn [combine map fst]; [reflexivity|]. rewrite IH by lia. reflexivity.
Qed.

Lemma map_snd_combine_l {X Y} (a : list X) : forall c : list Y, length a = length c ->
  map snd (combine a c) = c.
Proof.
  induction a as [|x t IH]; intros [|y t2] H; cbn [length] in H; try discriminate;
    cbn [combine map snd]; [reflexivity|]. rewrite IH by lia. reflexivity.
Qed.

Lemma zipsum_pairs (ps : list (Z * Z)) : zipsum (map fst ps) (map snd ps) = map addp ps.
Proof.
  rewrite zipsum_combine by (rewrite !map_length; reflexivity). rewrite combine_fst_snd_l. reflexivity.
Qed.

(** permuting the second vector: co-permute the first *)
Lemma zipsum_perm_r a c c' : length a = length c -> Permutation c c' ->
  exists a', Permutation a' a /\ Permutation (zipsum a c) (zipsum a' c').
Proof.
  intros HL HP.
  assert (HP' : Permutation c' (map snd (combine a c))).
  { rewrite map_snd_combine_l by exact HL. symmetry. exact HP. }
  apply Permutation_map_inv in HP'. destruct HP' as (ps' & E & Pps).
  exists (map fst ps'). split.
  - apply (Permutation_trans (l' := map fst (combine a c)));
      [apply Permutation_map; symmetry; exact Pps|].
    rewrite (map_fst_combine_l a c HL). apply Permutation_refl.
  - rewrite E, zipsum_pairs, (zipsum_combine a c HL). apply Permutation_map. exact Pps.
Qed.

(** a permutation of a pointwise sum is the pointwise sum of co-permuted vectors *)
Lemma perm_zipsum_inv w a c : length a = length c -> Permutation w (zipsum a c) ->
  exists a' c', Permutation a' a /\ Permutation c' c /\ w = zipsum a' c'.
Proof.
  intros HL HP. rewrite (zipsum_combine a c HL) in HP.
  apply Permutation_map_inv in HP. destruct HP as (ps' & E & Pps).
  exists (map fst ps'), (map snd ps'). split; [|split].
  - apply (Permutation_trans (l' := map fst (combine a c)));
      [apply Permutation_map; symmetry; exact Pps|].
    rewrite (map_fst_combine_l a c HL). apply Permutation_refl.
  - apply (Permutation_trans (l' := map snd (combine a c)));
      [apply Permutation_map; symmetry; exact Pps|].
    rewrite (map_snd_combine_l a c HL). apply Permutation_refl.
  - rewrite zipsum_pairs. exact E.
Qed.

(** ---- merges ---- *)
Inductive Merge (k : nat) : list (list Z) -> list Z -> Prop :=
| Merge_nil : Merge k [] (repeat 0 k)
| Merge_cons v v' vs s :
    Permutation v' v -> length v = k -> Merge k vs s -> Merge k (v :: vs) (zipsum v' s).

Lemma Merge_cons_inv k v vs s : Merge k (v :: vs) s ->
  exists v' s0, Permutation v' v /\ length v = k /\ Merge k vs s0 /\ s = zipsum v' s0.
Proof.
  intros H. inversion H as [|v0 v' vs0 s0 HP HL HM]; subst.
  exists v', s0. repeat split; assumption.
Qed.

Lemma Merge_nil_inv k s : Merge k [] s -> s = repeat 0 k.
Proof. intros H. inversion H. reflexivity. Qed.

Lemma Merge_length k vs s : Merge k vs s -> length s = k.
Proof.
  induction 1 as [|v v' vs s HP HL HM IH]; [apply repeat_length|].
  rewrite zipsum_length, (Permutation_length HP). exact HL.
Qed.

Lemma Merge_perm_each k vs s : Merge k vs s ->
  forall vs', Forall2 (@Permutation Z) vs vs' -> Merge k vs' s.
Proof.
  induction 1 as [|v v' vs s HP HL HM IH]; intros vs' HF.
  - inversion HF. constructor.
  - inversion HF as [|x y l l' Hxy Hll]; subst.
    apply Merge_cons; [etransitivity; eassumption|rewrite <- (Permutation_length Hxy); reflexivity|].
    apply IH. exact Hll.
Qed.

Lemma Forall2_perm_refl (l : list (list Z)) : Forall2 (@Permutation Z) l l.
Proof. induction l; constructor; auto. Qed.

Lemma Merge_perm_head k v w vs s : Permutation v w -> Merge k (v :: vs) s -> Merge k (w :: vs) s.
Proof.
  intros HP HM. apply (Merge_perm_each k _ _ HM). constructor; [exact HP|apply Forall2_perm_refl].
Qed.

Lemma Merge_perm_list k vs vs' : Permutation vs vs' -> forall s, Merge k vs s -> Merge k vs' s.
Proof.
  induction 1 as [|x l l' P IH|x y l|l l' l'' P1 IH1 P2 IH2]; intros s HM.
  - exact HM.
  - destruct (Merge_cons_inv _ _ _ _ HM) as (v' & s0 & HP & HL & HM0 & ->).
    apply Merge_cons; [exact HP|exact HL|apply IH; exact HM0].
  - destruct (Merge_cons_inv _ _ _ _ HM) as (y' & s1 & HPy & HLy & HM1 & ->).
    destruct (Merge_cons_inv _ _ _ _ HM1) as (x' & s0 & HPx & HLx & HM0 & ->).
    pose proof (Merge_length _ _ _ HM0) as HL0.
    pose proof (Permutation_length HPx) as Ex. pose proof (Permutation_length HPy) as Ey.
    rewrite (zipsum_swap y' x' s0) by congruence.
    apply Merge_cons; [exact HPx|exact HLx|]. apply Merge_cons; [exact HPy|exact HLy|exact HM0].
  - apply IH2, IH1, HM.
Qed.

(** the two first vectors can be paired first ... *)
Lemma Merge_pair k v1 v2 vs s : Merge k (v1 :: v2 :: vs) s ->
  exists v1' v2', Permutation v1' v1 /\ Permutation v2' v2 /\ Merge k (zipsum v1' v2' :: vs) s.
Proof.
  intros HM.
  destruct (Merge_cons_inv _ _ _ _ HM) as (v1' & s1 & HP1 & HL1 & HM1 & ->).
  destruct (Merge_cons_inv _ _ _ _ HM1) as (v2' & s0 & HP2 & HL2 & HM0 & ->).
  pose proof (Merge_length _ _ _ HM0) as HL0.
  pose proof (Permutation_length HP1) as E1. pose proof (Permutation_length HP2) as E2.
  exists v1', v2'. split; [exact HP1|]. split; [exact HP2|].
  rewrite <- zipsum_assoc by congruence.
  apply Merge_cons; [apply Permutation_refl|rewrite zipsum_length; congruence|exact HM0].
Qed.

(** ... and conversely any pairing of them can be undone *)
Lemma Merge_unpair k v1 v2 v1' v2' w vs s :
  Permutation v1' v1 -> Permutation v2' v2 -> length v1 = k -> length v2 = k ->
  Permutation w (zipsum v1' v2') -> Merge k (w :: vs) s -> Merge k (v1 :: v2 :: vs) s.
Proof.
  intros HP1 HP2 HL1 HL2 Hw HM.
  destruct (Merge_cons_inv _ _ _ _ HM) as (w' & s0 & HPw & HLw & HM0 & ->).
  pose proof (Merge_length _ _ _ HM0) as HL0.
  pose proof (Permutation_length HP1) as E1. pose proof (Permutation_length HP2) as E2.
  destruct (perm_zipsum_inv w' v1' v2') as (a & c & Ha & Hc & ->);
    [congruence|etransitivity; eassumption|].
  pose proof (Permutation_length Ha) as Ea. pose proof (Permutation_length Hc) as Ec.
  rewrite zipsum_assoc by congruence.
  apply Merge_cons; [etransitivity; eassumption|exact HL1|].
  apply Merge_cons; [etransitivity; eassumption|exact HL2|exact HM0].
Qed.

Lemma Merge_single k v : length v = k -> Merge k [v] v.
Proof.
  intros HL. rewrite <- (zipsum_zeros_r v) at 2. rewrite HL.
  apply Merge_cons; [apply Permutation_refl|exact HL|constructor].
Qed.

Lemma Merge_single_inv k v s : Merge k [v] s -> Permutation s v.
Proof.
  intros HM. destruct (Merge_cons_inv _ _ _ _ HM) as (v' & s0 & HP & HL & HM0 & ->).
  apply Merge_nil_inv in HM0. subst s0.
  rewrite <- HL, <- (Permutation_length HP), zipsum_zeros_r. exact HP.
Qed.
