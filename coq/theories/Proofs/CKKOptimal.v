(** Property C02: complete Karmarkar-Karp returns a partition of minimum difference.

    KKProofs.ckk_best_in_tree: the result is at least as good as every leaf of the search
    tree ([expands]).  Here: the search tree is COMPLETE, i.e. every attainable vector of bin
    sums is (up to the order of the bins) the sums of some leaf.

    The argument is carried out at the level of the vectors of sums.  [Merge k vs s] says that
    s is obtained from the list of k-vectors vs by permuting each vector and adding them up
    pointwise.  Every attainable load vector is a merge of the initial heap; a merge of
    e1 :: e2 :: rest is a merge of (some pairing of e1, e2) :: rest; every pairing is a
    [combo_of_perm]; the de-duplication of [all_combinations] keeps, for every pairing, a
    combination with the same key, i.e. the same name lists per bin up to the order of the
    bins, hence (names determine values) the same sums up to order; the second de-duplication
    (by sums: [ckk_children]) keeps a combination with the same sums; and merges do not depend
    on the order of the vectors nor on the order inside each vector. *)
From Prtpy Require Import Base.Prelude Base.Perms Model.Binner Model.KK Model.Objectives
  Spec.Partition Proofs.BaseLemmas Proofs.BinnerLemmas Proofs.KKProofs Proofs.EnumProofs
  Proofs.OracleSpec Proofs.CoveringProofs Proofs.ObjectivesProofs Proofs.RatioProofs.
From Coq Require Import Sorting.Sorted ZifyBool.

(** ---- pointwise sums of vectors ---- *)
Lemma zipsum_length a : forall c, length (zipsum a c) = length a.
Proof. induction a as [|x t IH]; intros [|y t2]; cbn [zipsum length]; auto. Qed.

Lemma zipsum_comm a : forall c, length a = length c -> zipsum a c = zipsum c a.
Proof.
  induction a as [|x t IH]; intros [|y t2] H; cbn [length] in H; try discriminate;
    cbn [zipsum]; [reflexivity|].
  f_equal; [lia|apply IH; lia].
Qed.

Lemma zipsum_assoc a : forall b c, length a = length b -> length b = length c ->
  zipsum (zipsum a b) c = zipsum a (zipsum b c).
Proof.
  induction a as [|x t IH]; intros [|y t2] [|z t3] H1 H2; cbn [length] in *; try discriminate;
    cbn [zipsum]; [reflexivity|].
  f_equal; [lia|apply IH; lia].
Qed.

Lemma zipsum_swap a b c : length a = length b -> length b = length c ->
  zipsum a (zipsum b c) = zipsum b (zipsum a c).
Proof.
  intros H1 H2. rewrite <- (zipsum_assoc a b c H1 H2).
  rewrite <- (zipsum_assoc b a c (eq_sym H1) (eq_trans H1 H2)).
  rewrite (zipsum_comm a b H1). reflexivity.
Qed.

Lemma zipsum_zeros_r a : zipsum a (repeat 0 (length a)) = a.
Proof.
  induction a as [|x t IH]; [reflexivity|]. cbn [length repeat zipsum]. rewrite IH. f_equal. lia.
Qed.

Lemma zipsum_zeros_l a : zipsum (repeat 0 (length a)) a = a.
Proof.
  induction a as [|x t IH]; [reflexivity|]. cbn [length repeat zipsum]. rewrite IH. f_equal.
Qed.

Definition addp (p : Z * Z) : Z := fst p + snd p.

Lemma zipsum_combine a : forall c, length a = length c -> zipsum a c = map addp (combine a c).
Proof.
  induction a as [|x t IH]; intros [|y t2] H; cbn [length] in H; try discriminate;
    cbn [zipsum combine map]; [reflexivity|].
  rewrite IH by lia. reflexivity.
Qed.

Lemma combine_fst_snd_l {X Y} (ps : list (X * Y)) : combine (map fst ps) (map snd ps) = ps.
Proof. induction ps as [|[x y] t IH]; cbn [map combine fst snd]; [reflexivity|]. rewrite IH. reflexivity. Qed.

Lemma map_fst_combine_l {X Y} (a : list X) : forall c : list Y, length a = length c ->
  map fst (combine a c) = a.
Proof.
  induction a as [|x t IH]; intros [|y t2] H; cbn [length] in H; try discriminate;
    cbn [combine map fst]; [reflexivity|]. rewrite IH by lia. reflexivity.
Qed.

Lemma map_snd_combine_l {X Y} (a : list X) : forall c : list Y, length a = length c ->
  map snd (combine a c) = c.
Proof.
  induction a as [|x t IH]; intros [|y t2] H; cbn [length] in H; try discriminate;
    cbn [combine map snd]; [reflexivity|]. rewrite IH by lia. reflexivity.
Qed.

Lemma zipsum_pairs (ps : list (Z * Z)) : zipsum (map fst ps) (map snd ps) = map addp ps.
Proof.
  rewrite zipsum_combine by (rewrite !map_length; reflexivity). rewrite combine_fst_snd_l. reflexivity.
Qed.

(** permuting the second vector: co-permute the first *)
Lemma zipsum_perm_r a c c' : length a = length c -> Permutation c c' ->
  exists a', Permutation a' a /\ Permutation (zipsum a c) (zipsum a' c').
Proof.
  intros HL HP.
  assert (HP' : Permutation c' (map snd (combine a c))).
  { rewrite map_snd_combine_l by exact HL. symmetry. exact HP. }
  apply Permutation_map_inv in HP'. destruct HP' as (ps' & E & Pps).
  exists (map fst ps'). split.
  - apply (Permutation_trans (l' := map fst (combine a c)));
      [apply Permutation_map; symmetry; exact Pps|].
    rewrite (map_fst_combine_l a c HL). apply Permutation_refl.
  - rewrite E, zipsum_pairs, (zipsum_combine a c HL). apply Permutation_map. exact Pps.
Qed.

(** a permutation of a pointwise sum is the pointwise sum of co-permuted vectors *)
Lemma perm_zipsum_inv w a c : length a = length c -> Permutation w (zipsum a c) ->
  exists a' c', Permutation a' a /\ Permutation c' c /\ w = zipsum a' c'.
Proof.
  intros HL HP. rewrite (zipsum_combine a c HL) in HP.
  apply Permutation_map_inv in HP. destruct HP as (ps' & E & Pps).
  exists (map fst ps'), (map snd ps'). split; [|split].
  - apply (Permutation_trans (l' := map fst (combine a c)));
      [apply Permutation_map; symmetry; exact Pps|].
    rewrite (map_fst_combine_l a c HL). apply Permutation_refl.
  - apply (Permutation_trans (l' := map snd (combine a c)));
      [apply Permutation_map; symmetry; exact Pps|].
    rewrite (map_snd_combine_l a c HL). apply Permutation_refl.
  - rewrite zipsum_pairs. exact E.
Qed.

(** ---- merges ---- *)
Inductive Merge (k : nat) : list (list Z) -> list Z -> Prop :=
| Merge_nil : Merge k [] (repeat 0 k)
| Merge_cons v v' vs s :
    Permutation v' v -> length v = k -> Merge k vs s -> Merge k (v :: vs) (zipsum v' s).

Lemma Merge_cons_inv k v vs s : Merge k (v :: vs) s ->
  exists v' s0, Permutation v' v /\ length v = k /\ Merge k vs s0 /\ s = zipsum v' s0.
Proof.
  intros H. inversion H as [|v0 v' vs0 s0 HP HL HM]; subst.
  exists v', s0. repeat split; assumption.
Qed.

Lemma Merge_nil_inv k s : Merge k [] s -> s = repeat 0 k.
Proof. intros H. inversion H. reflexivity. Qed.

Lemma Merge_length k vs s : Merge k vs s -> length s = k.
Proof.
  induction 1 as [|v v' vs s HP HL HM IH]; [apply repeat_length|].
  rewrite zipsum_length, (Permutation_length HP). exact HL.
Qed.

Lemma Merge_perm_each k vs s : Merge k vs s ->
  forall vs', Forall2 (@Permutation Z) vs vs' -> Merge k vs' s.
Proof.
  induction 1 as [|v v' vs s HP HL HM IH]; intros vs' HF.
  - inversion HF. constructor.
  - inversion HF as [|x y l l' Hxy Hll]; subst.
    apply Merge_cons; [etransitivity; eassumption|rewrite <- (Permutation_length Hxy); reflexivity|].
    apply IH. exact Hll.
Qed.

Lemma Forall2_perm_refl (l : list (list Z)) : Forall2 (@Permutation Z) l l.
Proof. induction l; constructor; auto. Qed.

Lemma Merge_perm_head k v w vs s : Permutation v w -> Merge k (v :: vs) s -> Merge k (w :: vs) s.
Proof.
  intros HP HM. apply (Merge_perm_each k _ _ HM). constructor; [exact HP|apply Forall2_perm_refl].
Qed.

Lemma Merge_perm_list k vs vs' : Permutation vs vs' -> forall s, Merge k vs s -> Merge k vs' s.
Proof.
  induction 1 as [|x l l' P IH|x y l|l l' l'' P1 IH1 P2 IH2]; intros s HM.
  - exact HM.
  - destruct (Merge_cons_inv _ _ _ _ HM) as (v' & s0 & HP & HL & HM0 & ->).
    apply Merge_cons; [exact HP|exact HL|apply IH; exact HM0].
  - destruct (Merge_cons_inv _ _ _ _ HM) as (y' & s1 & HPy & HLy & HM1 & ->).
    destruct (Merge_cons_inv _ _ _ _ HM1) as (x' & s0 & HPx & HLx & HM0 & ->).
    pose proof (Merge_length _ _ _ HM0) as HL0.
    pose proof (Permutation_length HPx) as Ex. pose proof (Permutation_length HPy) as Ey.
    rewrite (zipsum_swap y' x' s0) by congruence.
    apply Merge_cons; [exact HPx|exact HLx|]. apply Merge_cons; [exact HPy|exact HLy|exact HM0].
  - apply IH2, IH1, HM.
Qed.

(** the two first vectors can be paired first ... *)
Lemma Merge_pair k v1 v2 vs s : Merge k (v1 :: v2 :: vs) s ->
  exists v1' v2', Permutation v1' v1 /\ Permutation v2' v2 /\ Merge k (zipsum v1' v2' :: vs) s.
Proof.
  intros HM.
  destruct (Merge_cons_inv _ _ _ _ HM) as (v1' & s1 & HP1 & HL1 & HM1 & ->).
  destruct (Merge_cons_inv _ _ _ _ HM1) as (v2' & s0 & HP2 & HL2 & HM0 & ->).
  pose proof (Merge_length _ _ _ HM0) as HL0.
  pose proof (Permutation_length HP1) as E1. pose proof (Permutation_length HP2) as E2.
  exists v1', v2'. split; [exact HP1|]. split; [exact HP2|].
  rewrite <- zipsum_assoc by congruence.
  apply Merge_cons; [apply Permutation_refl|rewrite zipsum_length; congruence|exact HM0].
Qed.

(** ... and conversely any pairing of them can be undone *)
Lemma Merge_unpair k v1 v2 v1' v2' w vs s :
  Permutation v1' v1 -> Permutation v2' v2 -> length v1 = k -> length v2 = k ->
  Permutation w (zipsum v1' v2') -> Merge k (w :: vs) s -> Merge k (v1 :: v2 :: vs) s.
Proof.
  intros HP1 HP2 HL1 HL2 Hw HM.
  destruct (Merge_cons_inv _ _ _ _ HM) as (w' & s0 & HPw & HLw & HM0 & ->).
  pose proof (Merge_length _ _ _ HM0) as HL0.
  pose proof (Permutation_length HP1) as E1. pose proof (Permutation_length HP2) as E2.
  destruct (perm_zipsum_inv w' v1' v2') as (a & c & Ha & Hc & ->);
    [congruence|etransitivity; eassumption|].
  pose proof (Permutation_length Ha) as Ea. pose proof (Permutation_length Hc) as Ec.
  rewrite zipsum_assoc by congruence.
  apply Merge_cons; [etransitivity; eassumption|exact HL1|].
  apply Merge_cons; [etransitivity; eassumption|exact HL2|exact HM0].
Qed.

Lemma Merge_single k v : length v = k -> Merge k [v] v.
Proof.
  intros HL. rewrite <- (zipsum_zeros_r v) at 2. rewrite HL.
  apply Merge_cons; [apply Permutation_refl|exact HL|constructor].
Qed.

Lemma Merge_single_inv k v s : Merge k [v] s -> Permutation s v.
Proof.
  intros HM. destruct (Merge_cons_inv _ _ _ _ HM) as (v' & s0 & HP & HL & HM0 & ->).
  apply Merge_nil_inv in HM0. subst s0.
  rewrite <- HL, <- (Permutation_length HP), zipsum_zeros_r. exact HP.
Qed.

(** ---- unit vectors ---- *)
Definition single_vec (k : nat) (v : Z) : list Z := update (k - 1) (fun s => s + v) (repeat 0 k).

Lemma update_repeat {T} (f : T -> T) (a : T) : forall k i, (i < k)%nat ->
  update i f (repeat a k) = repeat a i ++ f a :: repeat a (k - 1 - i).
Proof.
  induction k as [|k IH]; intros i Hi; [lia|]. destruct i as [|i]; cbn [repeat update app].
  - rewrite Nat.sub_0_r. replace (S k - 1)%nat with k by lia. reflexivity.
  - rewrite IH by lia. replace (S k - 1 - S i)%nat with (k - 1 - i)%nat by lia. reflexivity.
Qed.

Lemma unit_vec_perm k i v : (i < k)%nat ->
  Permutation (update i (fun s => s + v) (repeat 0 k)) ((0 + v) :: repeat 0 (k - 1)).
Proof.
  intros Hi. rewrite update_repeat by exact Hi. symmetry.
  replace (k - 1)%nat with (i + (k - 1 - i))%nat at 1 by lia. rewrite repeat_app.
  apply Permutation_middle.
Qed.

Lemma unit_vec_perm2 k i j v : (i < k)%nat -> (j < k)%nat ->
  Permutation (update i (fun s => s + v) (repeat 0 k)) (update j (fun s => s + v) (repeat 0 k)).
Proof.
  intros Hi Hj. etransitivity; [apply unit_vec_perm; exact Hi|symmetry; apply unit_vec_perm; exact Hj].
Qed.

Lemma zipsum_unit i v : forall s,
  zipsum (update i (fun x => x + v) (repeat 0 (length s))) s = update i (fun x => x + v) s.
Proof.
  intros s; revert i; induction s as [|x t IH]; intros i; [destruct i; reflexivity|].
  destruct i as [|i]; cbn [length repeat update zipsum].
  - rewrite zipsum_zeros_l. f_equal. lia.
  - rewrite IH. f_equal.
Qed.

(** every attainable load vector is a merge of the unit vectors of the values *)
Lemma attainable_merge k : (1 <= k)%nat -> forall vs s,
  Attainable k (rev vs) s -> Merge k (map (single_vec k) vs) s.
Proof.
  intros Hk. induction vs as [|v t IH]; intros s Hs.
  - cbn [rev] in Hs. apply OracleSpec.Attainable_nil in Hs. subst s. constructor.
  - cbn [rev] in Hs. apply OracleSpec.Attainable_snoc in Hs. destruct Hs as (s0 & i & Hs0 & Hi & ->).
    pose proof (OracleSpec.Attainable_length _ _ _ Hs0) as HL0.
    rewrite <- zipsum_unit. rewrite HL0. cbn [map].
    apply Merge_cons; [|unfold single_vec; rewrite update_length; apply repeat_length|apply IH; exact Hs0].
    unfold single_vec. apply unit_vec_perm2; lia.
Qed.

Section CKKComplete.
  Context {A : Type} (valueof nameof : A -> Z).

  (** the vectors of sums held by a heap *)
  Definition hsums (h : @heap A) : list (list Z) := map (fun e => sums (snd e)) h.

  Lemma hsums_perm h1 h2 : Permutation h1 h2 -> Permutation (hsums h1) (hsums h2).
  Proof. apply Permutation_map. Qed.

  Lemma hsums_push rest (c : bins A) :
    Permutation (hsums (heap_push rest c)) (sums (sort_bins c) :: hsums rest).
  Proof.
    unfold heap_push. cbv zeta.
    exact (hsums_perm _ _ (heap_insert_perm (- bins_diff (sort_bins c), sort_bins c) rest)).
  Qed.

  Lemma Merge_push k rest (c : bins A) w s :
    Permutation w (sums c) -> Merge k (w :: hsums rest) s -> Merge k (hsums (heap_push rest c)) s.
  Proof.
    intros Hw HM. eapply Merge_perm_list; [symmetry; apply hsums_push|].
    eapply Merge_perm_head; [|exact HM].
    etransitivity; [exact Hw|symmetry; apply sort_bins_sums_perm].
  Qed.

  Lemma Merge_push_inv k rest (c : bins A) s :
    Merge k (hsums (heap_push rest c)) s -> Merge k (sums c :: hsums rest) s.
  Proof.
    intros HM. eapply Merge_perm_head; [apply sort_bins_sums_perm|].
    eapply Merge_perm_list; [apply hsums_push|exact HM].
  Qed.

  (** ---- the initial heap ---- *)
  Lemma singleton_bins_sums k x :
    sums (singleton_bins valueof true k x) = single_vec k (valueof x).
  Proof. unfold singleton_bins, single_vec. rewrite add_item_sums, new_bins_sums. reflexivity. Qed.

  Lemma initial_fold_perm k : forall l (h : @heap A),
    Permutation (fold_left (fun h x => heap_push h (singleton_bins valueof true k x)) l h)
                (map (fun x => (- bins_diff (sort_bins (singleton_bins valueof true k x)),
                                sort_bins (singleton_bins valueof true k x))) l ++ h).
  Proof.
    induction l as [|x t IH]; intros h; cbn [fold_left map app]; [apply Permutation_refl|].
    rewrite IH. etransitivity; [apply Permutation_app_head; unfold heap_push; apply heap_insert_perm|].
    symmetry. apply Permutation_middle.
  Qed.

  Lemma Forall2_map_perm {T} (f g : T -> list Z) l :
    (forall x, Permutation (f x) (g x)) -> Forall2 (@Permutation Z) (map f l) (map g l).
  Proof. intros H. induction l as [|x t IH]; cbn [map]; constructor; auto. Qed.

  Lemma initial_heap_merge k items s : (1 <= k)%nat ->
    Attainable k (map valueof items) s -> Merge k (hsums (initial_heap valueof true k items)) s.
  Proof.
    intros Hk Hs. unfold initial_heap.
    eapply Merge_perm_list; [symmetry; apply hsums_perm, initial_fold_perm|].
    rewrite app_nil_r. unfold hsums. rewrite map_map. cbn [snd].
    apply (Merge_perm_each k (map (single_vec k) (map valueof (sort_desc valueof items)))).
    - apply attainable_merge; [exact Hk|].
      eapply CoveringProofs.Attainable_perm; [|exact Hs].
      rewrite <- map_rev. apply Permutation_map.
      etransitivity; [symmetry; apply sort_desc_perm|apply Permutation_rev].
    - rewrite map_map. apply Forall2_map_perm. intros x.
      rewrite <- singleton_bins_sums. symmetry. apply sort_bins_sums_perm.
  Qed.

  (** ---- every pairing of two bins-arrays is a combo_of_perm ---- *)
  Lemma range_from_map_S n : forall i, range_from (S i) n = map S (range_from i n).
  Proof.
    induction n as [|n IH]; intros i; cbn [range_from map]; [reflexivity|]. rewrite IH. reflexivity.
  Qed.

  Lemma index_perm (b : bins A) : forall b', Permutation b' b ->
    exists p, Permutation p (range (length b)) /\ map (getbin b) p = b'.
  Proof.
    induction b as [|x t IH]; intros b' HP.
    - apply Permutation_sym, Permutation_nil in HP. subst b'. exists []. split; [constructor|reflexivity].
    - pose proof HP as HP0. apply Permutation_vs_cons_inv in HP0. destruct HP0 as (l1 & l2 & ->).
      assert (HP' : Permutation (l1 ++ l2) t).
      { symmetry. eapply Permutation_cons_app_inv. symmetry. exact HP. }
      destruct (IH _ HP') as (q & Hq & Eq).
      apply map_eq_app in Eq. destruct Eq as (q1 & q2 & -> & E1 & E2).
      exists (map S q1 ++ O :: map S q2). split.
      + unfold range in *. cbn [length range_from]. rewrite range_from_map_S.
        etransitivity; [symmetry; apply Permutation_middle|]. apply perm_skip.
        rewrite <- map_app. apply Permutation_map. exact Hq.
      + rewrite map_app. cbn [map]. rewrite !map_map.
        change (map (getbin t) q1 ++ x :: map (getbin t) q2 = l1 ++ x :: l2).
        rewrite E1, E2. reflexivity.
  Qed.

  Lemma sums_length (b : bins A) : length (sums b) = length b.
  Proof. apply map_length. Qed.

  Lemma pairing_realizable (b1 b2 : bins A) v1' v2' :
    length b1 = length b2 -> Permutation v1' (sums b1) -> Permutation v2' (sums b2) ->
    exists p, Permutation p (range (length b1)) /\
              Permutation (sums (combo_of_perm nameof true b1 b2 p)) (zipsum v1' v2').
  Proof.
    intros HL H1 H2.
    destruct (zipsum_perm_r v1' v2' (sums b2)) as (a' & Ha & Hz); [|exact H2|].
    { rewrite (Permutation_length H1), (Permutation_length H2), !sums_length. exact HL. }
    assert (Ha1 : Permutation a' (map fst b1)) by (etransitivity; [exact Ha|exact H1]).
    apply Permutation_map_inv in Ha1. destruct Ha1 as (b1' & -> & Pb).
    destruct (index_perm b1 b1') as (p & Hp & Ep); [symmetry; exact Pb|].
    exists p. split; [exact Hp|].
    rewrite combo_of_perm_eq, Ep.
    rewrite sort_bins_sums_perm, name_sorted_sums, zip_combine_sums.
    symmetry. exact Hz.
  Qed.

  (** ---- equal de-duplication keys mean equal sums, when names determine values ---- *)
  Lemma lex_insert_perm x l : Permutation (lex_insert x l) (x :: l).
  Proof.
    induction l as [|y t IH]; cbn [lex_insert]; [apply Permutation_refl|].
    destruct (lex_le x y); [apply Permutation_refl|].
    etransitivity; [apply perm_skip, IH|apply perm_swap].
  Qed.

  Lemma lex_sort_perm l : Permutation (lex_sort l) l.
  Proof.
    induction l as [|x t IH]; [apply Permutation_refl|]. cbn [lex_sort fold_right].
    etransitivity; [apply lex_insert_perm|]. apply perm_skip. exact IH.
  Qed.

  (** items with the same name have the same value *)
  Definition names_ok (its : list A) : Prop :=
    forall x y, In x its -> In y its -> nameof x = nameof y -> valueof x = valueof y.

  Lemma names_values its : names_ok its -> forall l1 l2,
    Forall (fun x => In x its) l1 -> Forall (fun x => In x its) l2 ->
    map nameof l1 = map nameof l2 -> map valueof l1 = map valueof l2.
  Proof.
    intros HN. induction l1 as [|x t IH]; intros [|y t2] I1 I2 E; cbn [map] in *;
      try discriminate; [reflexivity|].
    injection E as E1 E2. f_equal.
    - apply HN; [exact (Forall_inv I1)|exact (Forall_inv I2)|exact E1].
    - apply IH; [exact (Forall_inv_tail I1)|exact (Forall_inv_tail I2)|exact E2].
  Qed.

  Definition bin_names (x : bin A) : list Z := map nameof (snd x).

  Lemma same_names_sums its : names_ok its -> forall c c3 : bins A,
    map bin_names c = map bin_names c3 -> wf valueof c -> wf valueof c3 ->
    Forall (fun x => In x its) (contents c) -> Forall (fun x => In x its) (contents c3) ->
    sums c = sums c3.
  Proof.
    intros HN. induction c as [|x t IH]; intros [|y t3] E W W3 I I3; cbn [map] in E;
      try discriminate; [reflexivity|].
    injection E as E1 E2. rewrite contents_cons in I, I3.
    apply Forall_app in I. apply Forall_app in I3. destruct I as [Ix It]. destruct I3 as [Iy It3].
    cbn [sums map]. f_equal.
    - pose proof (Forall_inv W) as Wx. pose proof (Forall_inv W3) as Wy. unfold wf_bin in Wx, Wy.
      rewrite Wx, Wy. f_equal. eapply names_values; eassumption.
    - apply IH; try assumption; [exact (Forall_inv_tail W)|exact (Forall_inv_tail W3)].
  Qed.

  Lemma key_eq_sums_perm its (c c' : bins A) : names_ok its ->
    combo_key nameof true c = combo_key nameof true c' ->
    wf valueof c -> wf valueof c' ->
    Forall (fun x => In x its) (contents c) -> Forall (fun x => In x its) (contents c') ->
    Permutation (sums c) (sums c').
  Proof.
    intros HN HK W W' I I'.
    assert (HK' : lex_sort (map bin_names c) = lex_sort (map bin_names c')) by exact HK.
    assert (HP : Permutation (map bin_names c) (map bin_names c')).
    { etransitivity; [symmetry; apply lex_sort_perm|]. rewrite HK'. apply lex_sort_perm. }
    apply Permutation_map_inv in HP. destruct HP as (c3 & E & P3).
    rewrite (same_names_sums its HN c c3 E W).
    - symmetry. apply Permutation_map. exact P3.
    - eapply wf_perm; [exact P3|exact W'].
    - exact I.
    - eapply Permutation_Forall; [apply contents_perm; exact P3|exact I'].
  Qed.

  Lemma heap_entry_items k its h e : heap_inv valueof k its h -> In e h ->
    Forall (fun x => In x its) (contents (snd e)).
  Proof.
    intros [_ HP] He. apply Forall_forall. intros x Hx.
    eapply Permutation_in; [exact HP|]. unfold heap_contents. apply in_concat.
    exists (contents (snd e)). split; [|exact Hx].
    apply in_map_iff. exists e. split; [reflexivity|exact He].
  Qed.

  (** ---- one step: a merge of the heap is a merge of one of its children ---- *)
  Lemma complete_step k its e1 e2 rest s : names_ok its ->
    heap_inv valueof k its (e1 :: e2 :: rest) -> Merge k (hsums (e1 :: e2 :: rest)) s ->
    exists c, In c (ckk_children nameof true (snd e1) (snd e2)) /\
              Merge k (hsums (heap_push rest c)) s.
  Proof.
    intros HN Hh HM. pose proof Hh as [HF _].
    destruct (Forall_inv HF) as [L1 W1]. destruct (Forall_inv (Forall_inv_tail HF)) as [L2 W2].
    pose proof (heap_entry_items k its _ e1 Hh (or_introl eq_refl)) as I1.
    pose proof (heap_entry_items k its _ e2 Hh (or_intror (or_introl eq_refl))) as I2.
    cbn [hsums map] in HM. apply Merge_pair in HM. destruct HM as (v1' & v2' & HP1 & HP2 & HM).
    destruct (pairing_realizable (snd e1) (snd e2) v1' v2') as (p & Hp & Hsp);
      [congruence|exact HP1|exact HP2|].
    destruct (all_combinations_complete_gen nameof true (snd e1) (snd e2) p Hp) as (c & Hc & HK).
    rewrite L1 in Hp.
    destruct (all_combinations_ok valueof nameof k _ _ c L1 L2 W1 W2 Hc) as (_ & Wc & Pc).
    destruct (combo_of_perm_ok valueof nameof k _ _ p L1 L2 W1 W2 Hp) as (_ & Wp & Pp).
    assert (I12 : Forall (fun x => In x its) (contents (snd e1) ++ contents (snd e2)))
      by (apply Forall_app; split; assumption).
    destruct (ckk_children_complete nameof true _ _ c Hc) as (c' & Hc' & Ec').
    exists c'. split; [exact Hc'|].
    apply (Merge_push k rest c' (zipsum v1' v2')); [|exact HM]. rewrite Ec'.
    etransitivity; [symmetry; exact Hsp|]. symmetry.
    apply (key_eq_sums_perm its); try assumption.
    - eapply Permutation_Forall; [symmetry; exact Pc|exact I12].
    - eapply Permutation_Forall; [symmetry; exact Pp|exact I12].
  Qed.

  (** ---- completeness of the search tree below any heap ---- *)
  Lemma ckk_complete_from k its : names_ok its -> forall n h s,
    length h = S n -> heap_inv valueof k its h -> Merge k (hsums h) s ->
    exists e, expands nameof h [e] /\ Permutation (sums (snd e)) s.
  Proof.
    intros HN. induction n as [|n IH]; intros h s HL Hh HM.
    - destruct h as [|e [|e2 rest]]; cbn [length] in HL; try discriminate.
      exists e. split; [apply expands_refl|]. symmetry. apply (Merge_single_inv k). exact HM.
    - destruct h as [|e1 [|e2 rest]]; cbn [length] in HL; try discriminate.
      destruct (complete_step k its e1 e2 rest s HN Hh HM) as (c & Hc & HMc).
      destruct (IH (heap_push rest c) s) as (e & He & Hs).
      + rewrite heap_push_length. lia.
      + eapply ckk_child_inv; [exact Hh|apply ckk_children_sound; exact Hc].
      + exact HMc.
      + exists e. split; [eapply expands_step; eassumption|exact Hs].
  Qed.

  (** every attainable vector of sums is reached by a leaf of the search tree *)
  Theorem ckk_complete : forall k items s, (1 <= k)%nat -> items <> [] -> names_ok items ->
    Attainable k (map valueof items) s ->
    exists e, expands nameof (initial_heap valueof true k items) [e] /\
              Permutation (sums (snd e)) s.
  Proof.
    intros k items s Hk Hne HN Hs.
    destruct (initial_heap_inv valueof k items Hk) as [Hinv Hlen].
    apply (ckk_complete_from k items HN (length items - 1) _ s).
    - rewrite Hlen. destruct items; [congruence|cbn [length]; lia].
    - exact Hinv.
    - apply initial_heap_merge; assumption.
  Qed.

  (** ---- C02: optimality ---- *)
  Lemma partition_attainable k items (b : bins A) :
    is_partition valueof k items b -> Attainable k (map valueof items) (sums b).
  Proof.
    intros (HP & HL & HW). destruct (bins_attainable valueof b HW) as (ps & Hm & Hf & Hs).
    apply (CoveringProofs.Attainable_perm k (map valueof (contents b)));
      [apply Permutation_map; exact HP|].
    apply CoveringProofs.Attainable_pairs. exists ps. rewrite HL in *. repeat split; assumption.
  Qed.

  Theorem ckk_optimal : forall k items b, (1 <= k)%nat -> items <> [] ->
    Forall (fun x => 0 <= valueof x) items -> names_ok items ->
    ckk valueof nameof true k items = Ok b ->
    Opt MinDiff k (map valueof items) (value MinDiff (sums b) false).
  Proof.
    intros k items b Hk Hne Hpos HN Hckk.
    destruct (ckk_partition valueof nameof k items Hk Hne) as (b' & Hb' & Hpart).
    rewrite Hckk in Hb'. injection Hb' as <-.
    split.
    - exists (sums b). split; [apply partition_attainable; exact Hpart|reflexivity].
    - intros s Hs. destruct (ckk_complete k items s Hk Hne HN Hs) as (e & He & HPs).
      pose proof (ckk_best_in_tree valueof nameof k items b e Hk Hpos Hckk He) as Hle.
      unfold value. rewrite <- (zmax_perm _ _ HPs), <- (zmin_perm _ _ HPs). exact Hle.
  Qed.

  (** the two situations in which the hypothesis on names holds *)
  Lemma names_ok_nodup items : NoDup (map nameof items) -> names_ok items.
  Proof.
    intros HND x y Hx Hy E. f_equal.
    induction items as [|z t IH]; [destruct Hx|]. cbn [map] in HND.
    inversion HND as [|z' t' Hz Ht]; subst z' t'.
    destruct Hx as [Hx|Hx]; destruct Hy as [Hy|Hy].
    - congruence.
    - subst z. exfalso. apply Hz. rewrite E. apply in_map. exact Hy.
    - subst z. exfalso. apply Hz. rewrite <- E. apply in_map. exact Hx.
    - apply IH; assumption.
  Qed.

  (** ---- the tree without de-duplication ---- *)
  Inductive expands_all : @heap A -> @heap A -> Prop :=
  | expands_all_refl h : expands_all h h
  | expands_all_step e1 e2 rest p h' :
      Permutation p (range (length (snd e1))) ->
      expands_all (heap_push rest (combo_of_perm nameof true (snd e1) (snd e2) p)) h' ->
      expands_all (e1 :: e2 :: rest) h'.

  Lemma expands_expands_all h h' : expands nameof h h' -> expands_all h h'.
  Proof.
    induction 1 as [h|e1 e2 rest c h' Hc He IH]; [apply expands_all_refl|].
    apply ckk_children_sound, all_combinations_sound in Hc. destruct Hc as (p & Hp & ->).
    eapply expands_all_step; eassumption.
  Qed.

  Lemma expands_all_nil_inv h' : expands_all [] h' -> h' = [].
  Proof.
    intros H. remember (@nil (@hentry A)) as h0 eqn:E.
    destruct H as [h|e1 e2 rest p h' Hp He]; [reflexivity|discriminate E].
  Qed.

  Lemma combo_child_inv k its e1 e2 rest p :
    heap_inv valueof k its (e1 :: e2 :: rest) -> Permutation p (range (length (snd e1))) ->
    heap_inv valueof k its (heap_push rest (combo_of_perm nameof true (snd e1) (snd e2) p)).
  Proof.
    intros Hh Hp. pose proof Hh as [HF _].
    destruct (Forall_inv HF) as [L1 W1]. destruct (Forall_inv (Forall_inv_tail HF)) as [L2 W2].
    rewrite L1 in Hp.
    destruct (combo_of_perm_ok valueof nameof k _ _ p L1 L2 W1 W2 Hp) as (Lp & Wp & Pp).
    eapply replace_top_inv; eassumption.
  Qed.

  Lemma expands_all_inv k its h h' :
    expands_all h h' -> heap_inv valueof k its h -> heap_inv valueof k its h'.
  Proof.
    induction 1 as [h|e1 e2 rest p h' Hp He IH]; intros Hh; [exact Hh|].
    apply IH. apply combo_child_inv; assumption.
  Qed.

  Lemma combo_sums_zip (b1 b2 : bins A) p :
    Permutation (sums (combo_of_perm nameof true b1 b2 p))
                (zipsum (sums (map (getbin b1) p)) (sums b2)).
  Proof.
    rewrite combo_of_perm_eq, sort_bins_sums_perm, name_sorted_sums, zip_combine_sums.
    apply Permutation_refl.
  Qed.

  Lemma complete_step_all k its e1 e2 rest s :
    heap_inv valueof k its (e1 :: e2 :: rest) -> Merge k (hsums (e1 :: e2 :: rest)) s ->
    exists p, Permutation p (range (length (snd e1))) /\
              Merge k (hsums (heap_push rest (combo_of_perm nameof true (snd e1) (snd e2) p))) s.
  Proof.
    intros Hh HM. pose proof Hh as [HF _].
    destruct (Forall_inv HF) as [L1 _]. destruct (Forall_inv (Forall_inv_tail HF)) as [L2 _].
    cbn [hsums map] in HM. apply Merge_pair in HM. destruct HM as (v1' & v2' & HP1 & HP2 & HM).
    destruct (pairing_realizable (snd e1) (snd e2) v1' v2') as (p & Hp & Hsp);
      [congruence|exact HP1|exact HP2|].
    exists p. split; [exact Hp|].
    apply (Merge_push k rest _ (zipsum v1' v2')); [symmetry; exact Hsp|exact HM].
  Qed.

  Lemma expands_all_complete_from k its : forall n h s,
    length h = S n -> heap_inv valueof k its h -> Merge k (hsums h) s ->
    exists e, expands_all h [e] /\ Permutation (sums (snd e)) s.
  Proof.
    induction n as [|n IH]; intros h s HL Hh HM.
    - destruct h as [|e [|e2 rest]]; cbn [length] in HL; try discriminate.
      exists e. split; [apply expands_all_refl|]. symmetry. apply (Merge_single_inv k). exact HM.
    - destruct h as [|e1 [|e2 rest]]; cbn [length] in HL; try discriminate.
      destruct (complete_step_all k its e1 e2 rest s Hh HM) as (p & Hp & HMc).
      destruct (IH (heap_push rest (combo_of_perm nameof true (snd e1) (snd e2) p)) s)
        as (e & He & Hs).
      + rewrite heap_push_length. lia.
      + apply combo_child_inv; assumption.
      + exact HMc.
      + exists e. split; [eapply expands_all_step; eassumption|exact Hs].
  Qed.

  (** every attainable vector of sums is reached by a leaf of the tree of all pairings *)
  Theorem expands_all_complete : forall k items s, (1 <= k)%nat -> items <> [] ->
    Attainable k (map valueof items) s ->
    exists e, expands_all (initial_heap valueof true k items) [e] /\
              Permutation (sums (snd e)) s.
  Proof.
    intros k items s Hk Hne Hs.
    destruct (initial_heap_inv valueof k items Hk) as [Hinv Hlen].
    apply (expands_all_complete_from k items (length items - 1) _ s).
    - rewrite Hlen. destruct items; [congruence|cbn [length]; lia].
    - exact Hinv.
    - apply initial_heap_merge; assumption.
  Qed.

  (** conversely every heap reached is a re-association of the same merge *)
  Lemma expands_all_merge k its h h' : expands_all h h' -> heap_inv valueof k its h ->
    forall s, Merge k (hsums h') s -> Merge k (hsums h) s.
  Proof.
    induction 1 as [h|e1 e2 rest p h' Hp He IH]; intros Hh s HM; [exact HM|].
    pose proof Hh as [HF _].
    destruct (Forall_inv HF) as [L1 _]. destruct (Forall_inv (Forall_inv_tail HF)) as [L2 _].
    specialize (IH (combo_child_inv k its e1 e2 rest p Hh Hp) s HM).
    apply Merge_push_inv in IH. cbn [hsums map].
    apply (Merge_unpair k _ _ (sums (map (getbin (snd e1)) p)) (sums (snd e2))
             (sums (combo_of_perm nameof true (snd e1) (snd e2) p))).
    - apply Permutation_map. apply picked_perm. exact Hp.
    - apply Permutation_refl.
    - rewrite sums_length. exact L1.
    - rewrite sums_length. exact L2.
    - apply combo_sums_zip.
    - exact IH.
  Qed.

  (** de-duplication loses no leaf, up to the order of the bins *)
  Theorem dedup_preserves_leaves : forall k its h e, names_ok its ->
    heap_inv valueof k its h -> expands_all h [e] ->
    exists e', expands nameof h [e'] /\ Permutation (sums (snd e')) (sums (snd e)).
  Proof.
    intros k its h e HN Hh Hex.
    pose proof (expands_all_inv k its _ _ Hex Hh) as [HF' _].
    destruct (Forall_inv HF') as [Le _].
    assert (HM : Merge k (hsums h) (sums (snd e))).
    { apply (expands_all_merge k its h [e] Hex Hh). cbn [hsums map].
      apply Merge_single. rewrite sums_length. exact Le. }
    destruct h as [|e0 t].
    - apply expands_all_nil_inv in Hex. discriminate Hex.
    - apply (ckk_complete_from k its HN (length t) (e0 :: t)); [reflexivity|exact Hh|exact HM].
  Qed.

  (** ---- corollaries ---- *)

  (** KK's largest sum is at most (2 - 1/k) times the optimum *)
  Theorem kk_ratio_2 : forall k items b opt, (1 <= k)%nat -> items <> [] ->
    Forall (fun x => 0 <= valueof x) items ->
    kk valueof true k items = Ok b ->
    Opt MinLargest k (map valueof items) opt ->
    Z.of_nat k * zmax (sums b) <= (2 * Z.of_nat k - 1) * opt.
  Proof.
    intros k items b opt Hk Hne Hpos Hkk Hopt.
    destruct (kk_partition valueof k items Hk Hne) as (b' & Hb' & Hpart).
    rewrite Hkk in Hb'. injection Hb' as <-.
    apply (gap_ratio_2 k (map valueof items)).
    - exact Hk.
    - apply Forall_map. exact Hpos.
    - apply partition_attainable. exact Hpart.
    - apply (kk_gap valueof k items b); assumption.
    - exact Hopt.
  Qed.

  (** the last partition yielded by the generator (default bound) is optimal *)
  Theorem ckk_generator_last_optimal : forall k items, (1 <= k)%nat -> items <> [] ->
    Forall (fun x => 0 <= valueof x) items -> names_ok items ->
    exists b_last,
      last_opt (ckk_generator valueof nameof true k items None) = Some b_last /\
      is_partition valueof k items b_last /\
      Opt MinDiff k (map valueof items) (value MinDiff (sums b_last) false).
  Proof.
    intros k items Hk Hne Hpos HN.
    destruct (ckk_generator_last valueof nameof k items Hne) as (b & Hlast & Hckk).
    exists b. split; [exact Hlast|]. split.
    - apply (ckk_generator_valid valueof nameof k items b Hk Hne).
      unfold last_opt in Hlast. apply in_rev.
      destruct (rev (ckk_generator valueof nameof true k items None)) as [|y r]; [discriminate|].
      injection Hlast as ->. left. reflexivity.
    - rewrite <- (value_perm MinDiff _ _ (sort_bins_sums_perm b)).
      apply ckk_optimal; assumption.
  Qed.

End CKKComplete.

(** the pruning bound is admissible for every leaf of the tree of ALL pairings (CKKOptimal.expands_all:
    no de-duplication at all), hence for whatever sub-tree a de-duplication keeps *)
Section CKKBoundAll.
  Context {A : Type} (valueof nameof : A -> Z).
  Local Notation nonneg := (Forall (fun x : A => 0 <= valueof x)).
  (** ---- invariants along the tree of all pairings ---- *)
  Lemma child_full_all k its e1 e2 rest p :
    heap_full valueof k its (e1 :: e2 :: rest) -> Permutation p (range (length (snd e1))) ->
    heap_full valueof k its (heap_push rest (combo_of_perm nameof true (snd e1) (snd e2) p)).
  Proof.
    intros (H1 & H2 & H3) Hp. split; [apply combo_child_inv; assumption|split].
    - eapply child_Forall; [exact pushed_sorted_ok|exact H2].
    - eapply child_Forall; [exact pushed_key_ok|exact H3].
  Qed.

  Lemma expands_all_full k its h h' :
    expands_all nameof h h' -> heap_full valueof k its h -> heap_full valueof k its h'.
  Proof.
    induction 1 as [h|e1 e2 rest p h' Hp He IH]; intros Hf; [exact Hf|].
    apply IH. apply child_full_all; assumption.
  Qed.

  Lemma expand_dom_all k its e1 e2 rest p :
    heap_inv valueof k its (e1 :: e2 :: rest) -> nonneg its ->
    Permutation p (range (length (snd e1))) ->
    dom (heap_flat_sums (e1 :: e2 :: rest))
        (heap_flat_sums (heap_push rest (combo_of_perm nameof true (snd e1) (snd e2) p))).
  Proof.
    intros Hh Hpos Hp. pose proof (heap_sums_nonneg valueof k its _ Hh Hpos) as HN.
    destruct Hh as [HF _].
    destruct (Forall_inv HF) as [L1 _]. destruct (Forall_inv (Forall_inv_tail HF)) as [L2 _].
    destruct (combo_sums_dom nameof (snd e1) (snd e2) p) as [D1 D2];
      [congruence|exact Hp|exact (Forall_inv HN)|exact (Forall_inv (Forall_inv_tail HN))|].
    eapply dom_perm_r; [symmetry; apply flat_push_perm|].
    unfold heap_flat_sums. cbn [flat_map].
    apply dom_app; [|apply dom_app].
    - apply dom_app_r1. eapply dom_perm_r; [symmetry; apply sort_bins_sums_perm|exact D1].
    - apply dom_app_r1. eapply dom_perm_r; [symmetry; apply sort_bins_sums_perm|exact D2].
    - apply dom_app_r2, dom_refl.
  Qed.

  Lemma expands_all_dom k its h h' : expands_all nameof h h' -> heap_inv valueof k its h ->
    nonneg its -> dom (heap_flat_sums h) (heap_flat_sums h').
  Proof.
    induction 1 as [h|e1 e2 rest p h' Hp He IH]; intros Hh Hpos; [apply dom_refl|].
    eapply dom_trans; [eapply expand_dom_all; eassumption|].
    apply IH; [apply combo_child_inv; assumption|exact Hpos].
  Qed.

  (** the pruning bound is admissible for the tree of all pairings as well *)
  Lemma ckk_bound_admissible_all k its h e lb :
    heap_full valueof k its h -> nonneg its ->
    expands_all nameof h [e] -> ckk_bound k h = Some lb -> fst e <= lb.
  Proof.
    intros Hf Hpos Hex Hb.
    pose proof (expands_all_full k its _ _ Hex Hf) as (Hinv' & Hs' & Hk').
    destruct Hf as (Hinv & _ & _).
    pose proof (expands_all_dom k its _ _ Hex Hinv Hpos) as D.
    pose proof (flat_total valueof k its _ Hinv) as T1. pose proof (flat_total valueof k its _ Hinv') as T2.
    pose proof (leaf_key e (Forall_inv Hs') (Forall_inv Hk')) as Hkey.
    destruct Hinv' as [HF' _]. destruct (Forall_inv HF') as [Le _].
    unfold heap_flat_sums in D, T2. cbn [flat_map] in D, T2. rewrite app_nil_r in D, T2.
    fold (heap_flat_sums h) in D.
    destruct (ckk_bound_eq _ _ _ Hb) as [Hk2 ->]. clear Hb.
    assert (Hne : heap_flat_sums h <> []).
    { destruct h as [|e0 t]; [apply expands_all_nil_inv in Hex; discriminate Hex|].
      destruct Hinv as [HF _]. destruct (Forall_inv HF) as [L0 _].
      unfold heap_flat_sums. cbn [flat_map]. unfold sums.
      destruct (snd e0); cbn [length] in L0; [lia|discriminate]. }
    pose proof (dom_zmax _ _ Hne D) as Hmx.
    assert (Hse : sums (snd e) <> []).
    { unfold sums. destruct (snd e); cbn [length] in Le; [lia|discriminate]. }
    pose proof (zmin_avg _ Hse) as Havg.
    assert (HLs : Z.of_nat (length (sums (snd e))) = Z.of_nat k).
    { unfold sums. rewrite map_length. f_equal. exact Le. }
    rewrite HLs in Havg.
    set (d := Z.of_nat k - 1) in *. assert (Hd : 0 < d) by lia.
    set (mx := zmax (heap_flat_sums h)) in *.
    set (tot := zsum (heap_flat_sums h)) in *.
    assert (Hq : zmin (sums (snd e)) <= (tot - mx) / d).
    { apply Z.div_le_lower_bound; [exact Hd|]. lia. }
    lia.
  Qed.

End CKKBoundAll.

(** names equal to values (plain numeric input) *)
Lemma names_ok_values {A} (valueof : A -> Z) items : names_ok valueof valueof items.
Proof. intros x y _ _ E. exact E. Qed.

Corollary ckk_optimal_values {A} (valueof : A -> Z) : forall k items b, (1 <= k)%nat -> items <> [] ->
  Forall (fun x => 0 <= valueof x) items ->
  ckk valueof valueof true k items = Ok b ->
  Opt MinDiff k (map valueof items) (value MinDiff (sums b) false).
Proof. intros k items b Hk Hne Hpos. apply ckk_optimal; try assumption. apply names_ok_values. Qed.

(** the hypothesis [names_ok] cannot be dropped: if all names are equal, combinations that
    differ in their sums get the same de-duplication key and the search is incomplete *)
Example ckk_needs_names_ok :
  ckk (fun v : Z => v) (fun _ : Z => 0) true 2 [4; 5; 6; 7; 8] = Ok [(12, [7; 5]); (18, [4; 8; 6])] /\
  ckk (fun v : Z => v) (fun v : Z => v) true 2 [4; 5; 6; 7; 8] = Ok [(15, [4; 5; 6]); (15, [7; 8])].
Proof. vm_compute. split; reflexivity. Qed.

Print Assumptions expands_all_complete.
Print Assumptions ckk_bound_admissible_all.
Print Assumptions dedup_preserves_leaves.
Print Assumptions ckk_complete.
Print Assumptions ckk_optimal.
Print Assumptions ckk_optimal_values.
Print Assumptions kk_ratio_2.
Print Assumptions ckk_generator_last_optimal.
Print Assumptions names_ok_nodup.
