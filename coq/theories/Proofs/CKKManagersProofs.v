(** Complete Karmarkar-Karp: the contents manager (keep = true, combinations de-duplicated by
    item NAMES) and the sums manager (keep = false, de-duplicated by SUMS) return the same
    vector of bin sums, and so do two presentations of the same values (named items / plain
    numbers), for EVERY number of bins.

    History.  Before the repair "complete Karmarkar-Karp explored different trees with the two
    bins-managers" this was FALSE for four and five bins:
        items = [4; 5; 7; 9; 10; 10; 12; 14; 15],  4 bins
        contents manager : sums [20; 21; 22; 23]      sums manager : sums [20; 20; 23; 23]
    (both optimal: difference 3; same behaviour of the Python library: choosing the cheaper
    output type changed the answer, property C06 failed for ckk, k = 4).  The reason: both runs
    return the first leaf, in their DFS order, whose difference is optimal; children of a node are
    sorted by topdiff (stable) and explored from the END of that list, and the contents manager
    yielded a sums-class again whenever the names differed, so inside a group of children with
    tied keys the classes were explored by LAST occurrence in [perms k] under keep = true and by
    FIRST occurrence under keep = false.
    The repair: the loop over binner.all_combinations skips a combination whose tuple of
    ascending sums was already seen at this node (Model/KK.v: [dedup_sums], [ckk_children]), so
    the search tree depends on the sums only.

    Now (model after the repair):
      - [ckk_managers_agree] (= EraseProofs.ckk_erase): rmap erase (ckk true k items) = ckk false k items
        whenever names determine values ([names_ok]); [ckk_managers_sums] is statement (S) below;
      - the old witnesses now give equal sums: [ckk_managers_sums_agree_4],
        [ckk_managers_sums_agree_named], [ckk_managers_sums_agree_5], [C06_ckk_sums_holds];
      - the sums manager is presentation-independent, with no hypothesis:
        [ckk_sums_manager_names], [ckk_sums_output_names], [ckk_generator_sums_manager_names];
      - presentation (C07) for the contents manager: [ckk_names_sums_gen], [ckk_names_sums],
        [ckk_generator_names_sums]: equal sums for any two presentations of the same values whose
        names determine the values. *)
From Prtpy Require Import Base.Prelude Base.Perms Model.Binner Model.KK Model.Output
  Proofs.BaseLemmas Proofs.CKKOptimal Proofs.NamesProofs Proofs.EraseProofs.

Definition zid (x : Z) : Z := x.

(** * The full statement (S) *)
Definition ckk_managers_sums_statement : Prop :=
  forall (A : Type) (valueof nameof : A -> Z) (k : nat) (items : list A) (bt bf : bins A),
    (1 <= k)%nat -> items <> [] -> Forall (fun x => 0 <= valueof x) items ->
    names_ok valueof nameof items ->
    ckk valueof nameof true k items = Ok bt ->
    ckk valueof nameof false k items = Ok bf ->
    sums bt = sums bf.

(** the general agreement theorem (re-exported from EraseProofs) *)
Theorem ckk_managers_agree {A : Type} (valueof nameof : A -> Z) (k : nat) (items : list A) :
  names_ok valueof nameof items ->
  rmap erase (ckk valueof nameof true k items) = ckk valueof nameof false k items.
Proof. apply ckk_erase. Qed.

Theorem ckk_managers_sums : ckk_managers_sums_statement.
Proof.
  intros A valueof nameof k items bt bf _ _ _ HN Et Ef.
  pose proof (ckk_erase_sums valueof nameof k items HN) as E. rewrite Et, Ef in E.
  cbn [rmap] in E. injection E as E. exact E.
Qed.

(** * The former witnesses: plain values (names = values, as for a Python list of numbers) *)
Definition w4 : list Z := [4; 5; 7; 9; 10; 10; 12; 14; 15].

Example ckk_managers_sums_agree_4 :
  ckk zid zid true 4 w4 = Ok [(20, [5; 15]); (20, [10; 10]); (23, [4; 7; 12]); (23, [9; 14])] /\
  ckk zid zid false 4 w4 = Ok [(20, []); (20, []); (23, []); (23, [])] /\
  rmap erase (ckk zid zid true 4 w4) = ckk zid zid false 4 w4.
Proof. vm_compute. repeat split; reflexivity. Qed.

(** * Property C06 at the output level on the witness *)
Example C06_ckk_sums_holds :
  run_output_r OSums (fun keep => ckk zid zid keep 4 w4) = Ok (OutSums [20; 20; 23; 23]) /\
  rmap (fun b => derive (A:=Z) OSums (sums b)) (ckk zid zid true 4 w4) = Ok (OutSums [20; 20; 23; 23]) /\
  run_output_r OSorted (fun keep => ckk zid zid keep 4 w4) =
  rmap (fun b => derive (A:=Z) OSorted (sums b)) (ckk zid zid true 4 w4).
Proof. vm_compute. repeat split; reflexivity. Qed.

(** * Named items with pairwise distinct values and names given in the order opposite to the
      values (a Python dict {'i':4,'h':5,...}).  item = (name, value) *)
Definition w4n : list (Z * Z) :=
  [(9, 4); (8, 5); (7, 7); (6, 9); (5, 10); (4, 11); (3, 13); (2, 15); (1, 16)].

Example ckk_managers_sums_agree_named :
  rmap sums (ckk (@snd Z Z) (@fst Z Z) true 4 w4n) = Ok [21; 21; 24; 24] /\
  rmap sums (ckk (@snd Z Z) (@fst Z Z) false 4 w4n) = Ok [21; 21; 24; 24] /\
  rmap sums (ckk zid zid true 4 (map snd w4n)) = Ok [21; 21; 24; 24].
Proof. vm_compute. repeat split; reflexivity. Qed.

(** * Five bins *)
Definition w5 : list Z := [3; 4; 5; 6; 7; 8; 9; 11; 12; 13; 13].

Example ckk_managers_sums_agree_5 :
  rmap sums (ckk zid zid true 5 w5) = Ok [17; 17; 19; 19; 19] /\
  rmap sums (ckk zid zid false 5 w5) = Ok [17; 17; 19; 19; 19].
Proof. vm_compute. split; reflexivity. Qed.

(** * The run of the SUMS manager does not read the names at all, so every sums-family output of
      ckk is the same for named items and for their plain values (C07 for the sums-family output
      types, any k, no hypothesis). *)
Section SumsNames.
  Context {A : Type} (valueof nameof : A -> Z) (nameof' : Z -> Z).
  Local Notation mb := (map_bins valueof).
  Local Notation idv := (fun v : Z => v).
  Local Notation pb := (pbin valueof).

  Lemma nth_opt_map {T U} (f : T -> U) (l : list T) : forall i, nth_opt (map f l) i = option_map f (nth_opt l i).
  Proof. induction l as [|x t IH]; intros [|j]; cbn [map nth_opt option_map]; try reflexivity. apply IH. Qed.

  Lemma mb_combo_of_perm (b1 b2 : bins A) (perm : list nat) :
    mb (combo_of_perm nameof false b1 b2 perm) = combo_of_perm nameof' false (mb b1) (mb b2) perm.
  Proof.
    unfold combo_of_perm. cbv zeta. rewrite mb_sort_bins. f_equal.
    rewrite (mb_map valueof), map_map.
    rewrite <- (map_map pb (fun x : bin Z => (fst x, snd x))). f_equal.
    rewrite <- (mb_map valueof), mb_zip_combine. f_equal.
    rewrite (mb_map valueof), map_map. apply map_ext. intros i.
    rewrite (mb_map valueof b1), nth_opt_map. destruct (nth_opt b1 i) as [x|]; reflexivity.
  Qed.

  Lemma combo_key_mb (b : bins A) : combo_key nameof' false (mb b) = combo_key nameof false b.
  Proof. unfold combo_key. rewrite (mb_map valueof), map_map. reflexivity. Qed.

  Lemma mb_dedup_combos (l : list (bins A)) : forall seen,
    map mb (dedup_combos nameof false seen l) = dedup_combos nameof' false seen (map mb l).
  Proof.
    induction l as [|b t IH]; intros seen; cbn [dedup_combos map]; [reflexivity|].
    cbv zeta. rewrite combo_key_mb.
    destruct (existsb (key_eqb (combo_key nameof false b)) seen); [apply IH|].
    cbn [map]. rewrite IH. reflexivity.
  Qed.

  Lemma mb_all_combinations (b1 b2 : bins A) :
    map mb (all_combinations nameof false b1 b2) = all_combinations nameof' false (mb b1) (mb b2).
  Proof.
    unfold all_combinations. rewrite mb_dedup_combos, map_map, (mb_length valueof).
    f_equal. apply map_ext. intros p. apply mb_combo_of_perm.
  Qed.

  Lemma mb_dedup_sums (l : list (bins A)) : forall seen,
    map mb (dedup_sums seen l) = dedup_sums seen (map mb l).
  Proof.
    induction l as [|b t IH]; intros seen; cbn [dedup_sums map]; [reflexivity|].
    cbv zeta. rewrite (mb_sums valueof).
    destruct (existsb (list_eqb Z.eqb (sums b)) seen); [apply IH|].
    cbn [map]. rewrite IH. reflexivity.
  Qed.

  Lemma mb_ckk_children (b1 b2 : bins A) :
    map mb (ckk_children nameof false b1 b2) = ckk_children nameof' false (mb b1) (mb b2).
  Proof. unfold ckk_children. rewrite mb_dedup_sums, mb_all_combinations. reflexivity. Qed.

  Definition pst (st : ckk_state (A:=A)) : ckk_state (A:=Z) :=
    mk_ckk (ckk_best st) (option_map mb (ckk_part st)) (map mb (ckk_yields st)) (ckk_stop st) (ckk_nodes st).

  Lemma ph_flat_sums (h : heap) : heap_flat_sums (ph valueof h) = heap_flat_sums h.
  Proof.
    unfold heap_flat_sums. induction h as [|e t IH]; cbn [ph map flat_map]; [reflexivity|].
    fold (ph valueof t). rewrite IH. unfold phe. cbn [snd]. rewrite (mb_sums valueof). reflexivity.
  Qed.

  Lemma ph_bound (k : nat) (h : heap) : ckk_bound k (ph valueof h) = ckk_bound k h.
  Proof. unfold ckk_bound. rewrite ph_flat_sums. reflexivity. Qed.

  Lemma ph_topdiff (h : heap) : topdiff (ph valueof h) = topdiff h.
  Proof. destruct h as [|e t]; reflexivity. Qed.

  Lemma ph_explore (mode : bool) (k : nat) : forall (fuel : nat) (h : heap) (st : ckk_state),
    pst (ckk_explore nameof false fuel mode k h st) =
    ckk_explore nameof' false fuel mode k (ph valueof h) (pst st).
  Proof.
    induction fuel as [|f IH]; intros h st.
    - cbn [ckk_explore]. change (ckk_stop (pst st)) with (ckk_stop st).
      destruct (ckk_stop st); [reflexivity|]. rewrite ph_bound. cbn [ckk_best ckk_part ckk_yields ckk_nodes pst].
      destruct (match ckk_bound k h with Some lb => le_best lb (ckk_best st) | None => false end); [reflexivity|].
      destruct h as [|e1 [|e2 rest]]; cbn [ph map]; try reflexivity.
      change (fst (phe valueof e1)) with (fst e1).
      destruct (gt_best (fst e1) (ckk_best st)); reflexivity.
    - cbn [ckk_explore]. change (ckk_stop (pst st)) with (ckk_stop st).
      destruct (ckk_stop st); [reflexivity|]. rewrite ph_bound. cbn [ckk_best ckk_part ckk_yields ckk_nodes pst].
      destruct (match ckk_bound k h with Some lb => le_best lb (ckk_best st) | None => false end); [reflexivity|].
      destruct h as [|e1 [|e2 rest]]; cbn [ph map]; try reflexivity.
      + change (fst (phe valueof e1)) with (fst e1).
        destruct (gt_best (fst e1) (ckk_best st)); reflexivity.
      + fold (ph valueof rest). cbv zeta.
        rewrite (nm_fold_left_sim pst (ph valueof) _ (fun s c => ckk_explore nameof' false f mode k c s)
                   (fun s c => IH c s)).
        f_equal. rewrite map_rev. f_equal.
        rewrite (sort_asc_map (ph valueof) topdiff topdiff _ ph_topdiff). f_equal.
        unfold phe at 1 2. cbn [snd]. rewrite <- mb_ckk_children, !map_map.
        apply map_ext. intros b. apply ph_heap_push.
  Qed.

  Lemma ph_run (mode : bool) (init : option Z) (k : nat) (items : list A) :
    pst (ckk_run valueof nameof false mode init k items) =
    ckk_run idv nameof' false mode init k (map valueof items).
  Proof.
    unfold ckk_run. rewrite map_length, <- (ph_initial_heap valueof false k items).
    change (mk_ckk (A:=Z) init None [] false 0) with (pst (mk_ckk init None [] false 0)).
    apply ph_explore.
  Qed.

  Theorem ckk_sums_manager_names (k : nat) (items : list A) :
    rmap (map_bins valueof) (ckk valueof nameof false k items) =
    ckk idv nameof' false k (map valueof items).
  Proof.
    unfold ckk. rewrite <- ph_run.
    destruct (ckk_run valueof nameof false true None k items) as [bst [p|] ys sp nd];
      cbn [pst ckk_part option_map rmap]; [|reflexivity].
    rewrite (mb_sort_bins valueof). reflexivity.
  Qed.

  Theorem ckk_generator_sums_manager_names (k : nat) (items : list A) (init : option Z) :
    map (map_bins valueof) (ckk_generator valueof nameof false k items init) =
    ckk_generator idv nameof' false k (map valueof items) init.
  Proof.
    unfold ckk_generator. rewrite <- ph_run. cbn [pst ckk_yields]. rewrite map_rev. reflexivity.
  Qed.
End SumsNames.

Corollary ckk_sums_output_names {A : Type} (valueof nameof : A -> Z) (k : nat) (items : list A) :
  rmap sums (ckk valueof nameof false k items) = rmap sums (ckk zid zid false k (map valueof items)).
Proof.
  unfold zid. rewrite <- (ckk_sums_manager_names valueof nameof (fun x : Z => x) k items).
  destruct (ckk valueof nameof false k items) as [b|e]; cbn [rmap]; [|reflexivity].
  rewrite (mb_sums valueof). reflexivity.
Qed.

Corollary ckk_generator_sums_output_names {A : Type} (valueof nameof : A -> Z) (k : nat) (items : list A)
    (init : option Z) :
  map sums (ckk_generator valueof nameof false k items init) =
  map sums (ckk_generator zid zid false k (map valueof items) init).
Proof.
  unfold zid. rewrite <- (ckk_generator_sums_manager_names valueof nameof (fun x : Z => x) k items init).
  rewrite map_map. apply map_ext. intros b. rewrite (mb_sums valueof). reflexivity.
Qed.

(** * Presentation (property C07) for the CONTENTS manager: the sums returned depend on the
      values only, as long as the names determine the values.  (The contents of the bins do
      depend on the names: NamesProofs.ckk_names_exact_false.) *)
Section NamesSums.
  Context {A B : Type} (valueof nameof : A -> Z) (valueof' nameof' : B -> Z).

  Lemma rmap_sums_erase {T} (r : result (bins T)) : rmap sums (rmap erase r) = rmap sums r.
  Proof. destruct r as [b|e]; cbn [rmap]; [|reflexivity]. rewrite sums_erase. reflexivity. Qed.

  (** two presentations of the same list of values *)
  Theorem ckk_names_sums_gen (k : nat) (items : list A) (items' : list B) :
    map valueof items = map valueof' items' ->
    names_ok valueof nameof items -> names_ok valueof' nameof' items' ->
    rmap sums (ckk valueof nameof true k items) = rmap sums (ckk valueof' nameof' true k items').
  Proof.
    intros EV HN HN'.
    rewrite <- (rmap_sums_erase (ckk valueof nameof true k items)).
    rewrite <- (rmap_sums_erase (ckk valueof' nameof' true k items')).
    rewrite (ckk_erase valueof nameof k items HN), (ckk_erase valueof' nameof' k items' HN').
    rewrite (ckk_sums_output_names valueof nameof), (ckk_sums_output_names valueof' nameof'), EV.
    reflexivity.
  Qed.

  Theorem ckk_generator_names_sums_gen (k : nat) (items : list A) (items' : list B) (init : option Z) :
    map valueof items = map valueof' items' ->
    names_ok valueof nameof items -> names_ok valueof' nameof' items' ->
    map sums (ckk_generator valueof nameof true k items init) =
    map sums (ckk_generator valueof' nameof' true k items' init).
  Proof.
    intros EV HN HN'.
    assert (E : forall T (l : list (bins T)), map sums (map erase l) = map sums l).
    { intros T l. rewrite map_map. apply map_ext. intros b. apply sums_erase. }
    rewrite <- (E A), <- (E B).
    rewrite (ckk_generator_erase valueof nameof k items init HN),
            (ckk_generator_erase valueof' nameof' k items' init HN').
    rewrite (ckk_generator_sums_output_names valueof nameof),
            (ckk_generator_sums_output_names valueof' nameof'), EV.
    reflexivity.
  Qed.
End NamesSums.

(** named items against their plain values (a Python dict against the list of its values) *)
Theorem ckk_names_sums {A : Type} (valueof nameof : A -> Z) (k : nat) (items : list A) :
  names_ok valueof nameof items ->
  rmap sums (ckk valueof nameof true k items) =
  rmap sums (ckk (fun v : Z => v) (fun v : Z => v) true k (map valueof items)).
Proof.
  intros HN. apply ckk_names_sums_gen; [|exact HN|apply names_ok_values].
  rewrite map_id. reflexivity.
Qed.

Theorem ckk_generator_names_sums {A : Type} (valueof nameof : A -> Z) (k : nat) (items : list A)
    (init : option Z) :
  names_ok valueof nameof items ->
  map sums (ckk_generator valueof nameof true k items init) =
  map sums (ckk_generator (fun v : Z => v) (fun v : Z => v) true k (map valueof items) init).
Proof.
  intros HN. apply ckk_generator_names_sums_gen; [|exact HN|apply names_ok_values].
  rewrite map_id. reflexivity.
Qed.

(** the statement left open before the repair *)
Definition ckk_names_sums_statement : Prop :=
  forall (A : Type) (valueof nameof : A -> Z) (k : nat) (items : list A) (b : bins A) (b' : bins Z),
    (1 <= k)%nat -> items <> [] -> Forall (fun x => 0 <= valueof x) items ->
    names_ok valueof nameof items ->
    ckk valueof nameof true k items = Ok b ->
    ckk zid zid true k (map valueof items) = Ok b' ->
    sums b = sums b'.

Theorem ckk_names_sums_holds : ckk_names_sums_statement.
Proof.
  intros A valueof nameof k items b b' _ _ _ HN Eb Eb'.
  pose proof (ckk_names_sums valueof nameof k items HN) as E. unfold zid in Eb'.
  rewrite Eb, Eb' in E. cbn [rmap] in E. injection E as E. exact E.
Qed.

(** [names_ok] cannot be dropped (all names equal: the contents manager misses the optimum) *)
Example ckk_names_sums_needs_names_ok :
  rmap sums (ckk zid (fun _ => 0) true 2 [4; 5; 6; 7; 8]) = Ok [12; 18] /\
  rmap sums (ckk zid zid true 2 [4; 5; 6; 7; 8]) = Ok [15; 15].
Proof. vm_compute. split; reflexivity. Qed.

Check @ckk_managers_agree.
Check ckk_managers_sums.
Check @ckk_sums_manager_names.
Check @ckk_names_sums_gen.
Print Assumptions ckk_managers_agree.
Print Assumptions ckk_managers_sums.
Print Assumptions ckk_managers_sums_agree_4.
Print Assumptions C06_ckk_sums_holds.
Print Assumptions ckk_managers_sums_agree_named.
Print Assumptions ckk_managers_sums_agree_5.
Print Assumptions ckk_sums_manager_names.
Print Assumptions ckk_generator_sums_manager_names.
Print Assumptions ckk_sums_output_names.
Print Assumptions ckk_generator_sums_output_names.
Print Assumptions ckk_names_sums_gen.
Print Assumptions ckk_generator_names_sums_gen.
Print Assumptions ckk_names_sums.
Print Assumptions ckk_generator_names_sums.
Print Assumptions ckk_names_sums_holds.
