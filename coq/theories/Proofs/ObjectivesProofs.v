(** Proofs about the model of prtpy/objectives.py:
    PART 1 (C20): every objective computes its documented quantity;
    PART 2 (C13): the pruning lower bounds are admissible. *)
From Prtpy Require Import Base.Prelude Model.Objectives Proofs.BaseLemmas.
From Coq Require Import Sorting.Sorted ZifyBool.

(** ------------------------------------------------------------------ *)
(** * Generic helpers                                                   *)
(** ------------------------------------------------------------------ *)

(** sorted permutations of integer lists are equal *)
Lemma sorted_perm_eq (l1 l2 : list Z) :
  StronglySorted Z.le l1 -> StronglySorted Z.le l2 -> Permutation l1 l2 -> l1 = l2.
Proof.
  revert l2; induction l1 as [|x t1 IH]; intros l2 S1 S2 P.
  - apply Permutation_nil in P. subst; reflexivity.
  - destruct l2 as [|y t2].
    + apply Permutation_sym, Permutation_nil in P. discriminate.
    + apply StronglySorted_inv in S1. destruct S1 as [S1 F1].
      apply StronglySorted_inv in S2. destruct S2 as [S2 F2].
      rewrite Forall_forall in F1, F2.
      assert (Hxy : x = y).
      { assert (I1 : In x (y :: t2)) by (eapply Permutation_in; [exact P|left; reflexivity]).
        assert (I2 : In y (x :: t1)) by (eapply Permutation_in; [symmetry; exact P|left; reflexivity]).
        destruct I1 as [I1|I1]; [auto|]. destruct I2 as [I2|I2]; [auto|].
        apply F2 in I1. apply F1 in I2. lia. }
      subst y. f_equal. apply IH; auto. eapply Permutation_cons_inv; exact P.
Qed.

Lemma sort_asc_id_sorted (l : list Z) : StronglySorted Z.le (sort_asc (fun x => x) l).
Proof. exact (sort_asc_sorted (fun x : Z => x) l). Qed.

Lemma sort_asc_id_fix (l : list Z) : StronglySorted Z.le l -> sort_asc (fun x => x) l = l.
Proof. intros S. apply (sort_asc_id (fun x : Z => x)). exact S. Qed.

Lemma sort_asc_perm_eq (s1 s2 : list Z) :
  Permutation s1 s2 -> sort_asc (fun x => x) s1 = sort_asc (fun x => x) s2.
Proof.
  intros P. apply sorted_perm_eq; try apply sort_asc_id_sorted.
  rewrite (sort_asc_perm (fun x : Z => x) s1), (sort_asc_perm (fun x : Z => x) s2). exact P.
Qed.

(** the sorted list given by the user is the model's sorted list *)
Lemma sorted_perm_sort_asc (l s : list Z) :
  Permutation l s -> StronglySorted Z.le l -> sort_asc (fun x => x) s = l.
Proof.
  intros P S. rewrite <- (sort_asc_perm_eq l s P). apply sort_asc_id_fix; exact S.
Qed.

(** head / last of a sorted list are its min / max *)
Lemma hd_sorted_zmin (s : list Z) : StronglySorted Z.le s -> hd 0 s = zmin s.
Proof.
  intros S. destruct s as [|x t]; [reflexivity|].
  apply StronglySorted_inv in S. destruct S as [_ F]. rewrite Forall_forall in F.
  cbn [hd].
  pose proof (zmin_in (x :: t)) as I. pose proof (zmin_le (x :: t)) as L.
  assert (I' : In (zmin (x :: t)) (x :: t)) by (apply I; discriminate).
  apply Forall_inv in L. destruct I' as [I'|I']; [auto|]. apply F in I'. lia.
Qed.

Lemma last_In (s : list Z) d : s <> [] -> In (last s d) s.
Proof.
  induction s as [|x t IH]; intros H; [congruence|].
  destruct t as [|y t']; [left; reflexivity|].
  right. change (In (last (y :: t') d) (y :: t')). apply IH. discriminate.
Qed.

Lemma last_sorted_ge (s : list Z) d : StronglySorted Z.le s -> Forall (fun x => x <= last s d) s.
Proof.
  induction s as [|x t IH]; intros S; [constructor|].
  apply StronglySorted_inv in S. destruct S as [S F].
  destruct t as [|y t'].
  - constructor; [cbn; lia|constructor].
  - change (last (x :: y :: t') d) with (last (y :: t') d).
    constructor; [|apply IH; exact S].
    rewrite Forall_forall in F. apply F. apply last_In. discriminate.
Qed.

Lemma last_sorted_zmax (s : list Z) : StronglySorted Z.le s -> last s 0 = zmax s.
Proof.
  intros S. destruct s as [|x t]; [reflexivity|].
  assert (NE : x :: t <> []) by discriminate.
  pose proof (last_In (x :: t) 0 NE) as I1.
  pose proof (zmax_in (x :: t) NE) as I2.
  pose proof (last_sorted_ge (x :: t) 0 S) as G1.
  pose proof (zmax_ge (x :: t)) as G2.
  rewrite Forall_forall in G1, G2. apply G1 in I2. apply G2 in I1. lia.
Qed.

(** ------------------------------------------------------------------ *)
(** * PART 1 : objectives compute their documented quantity (C20)       *)
(** ------------------------------------------------------------------ *)

Theorem value_perm : forall o s1 s2, Permutation s1 s2 -> value o s1 false = value o s2 false.
Proof.
  intros o s1 s2 P. destruct o as [| | |k|k]; unfold value.
  - rewrite (zmin_perm s1 s2 P). reflexivity.
  - apply zmax_perm; exact P.
  - rewrite (zmin_perm s1 s2 P), (zmax_perm s1 s2 P). reflexivity.
  - rewrite (sort_asc_perm_eq s1 s2 P). reflexivity.
  - rewrite (sort_asc_perm_eq s1 s2 P). reflexivity.
Qed.

Theorem value_sorted_flag : forall o s, s <> [] -> StronglySorted Z.le s -> value o s true = value o s false.
Proof.
  intros o s _ S. destruct o as [| | |k|k]; unfold value, head0, last0.
  - rewrite (hd_sorted_zmin s S). reflexivity.
  - apply last_sorted_zmax; exact S.
  - rewrite (hd_sorted_zmin s S), (last_sorted_zmax s S). reflexivity.
  - rewrite (sort_asc_id_fix s S). reflexivity.
  - rewrite (sort_asc_id_fix s S). reflexivity.
Qed.

Theorem value_MaxSmallest_spec : forall s, s <> [] ->
  In (- value MaxSmallest s false) s /\ Forall (fun x => - value MaxSmallest s false <= x) s.
Proof.
  intros s NE. unfold value. rewrite Z.opp_involutive. split; [apply zmin_in; exact NE|apply zmin_le].
Qed.

Theorem value_MinLargest_spec : forall s, s <> [] ->
  In (value MinLargest s false) s /\ Forall (fun x => x <= value MinLargest s false) s.
Proof.
  intros s NE. unfold value. split; [apply zmax_in; exact NE|apply zmax_ge].
Qed.

Theorem value_MinDiff_spec : forall s, s <> [] ->
  value MinDiff s false = value MinLargest s false + value MaxSmallest s false.
Proof. intros s _. unfold value. lia. Qed.

Theorem value_MaxKSmallest_spec : forall k s l, Permutation l s -> StronglySorted Z.le l ->
  value (MaxKSmallest k) s false = - zsum (firstn k l).
Proof.
  intros k s l P S. unfold value. rewrite (sorted_perm_sort_asc l s P S). reflexivity.
Qed.

Theorem value_MinKLargest_spec : forall k s l, (1 <= k)%nat -> Permutation l s -> StronglySorted Z.le l ->
  value (MinKLargest k) s false = zsum (skipn (length l - k) l).
Proof.
  intros k s l Hk P S. unfold value. rewrite (sorted_perm_sort_asc l s P S).
  unfold py_suffix. destruct k as [|k']; [lia|reflexivity].
Qed.

(** k = 0 : Python's sums[-0:] is the whole list, so the hypothesis 1 <= k above is necessary *)
Example value_MinKLargest_k0 :
  value (MinKLargest 0) [2;4;1;5;3] false = 15 /\ zsum (skipn (length [1;2;3;4;5] - 0) [1;2;3;4;5]) = 0.
Proof. vm_compute. split; reflexivity. Qed.

Theorem value_weighted_sorted_refused : forall ws s, value_weighted ws s true = Err ValueError.
Proof. intros ws s. reflexivity. Qed.

(** fractions with positive denominators compared by cross-multiplication: transitivity *)
Lemma frac_le_trans a b c d e f :
  0 < b -> 0 < d -> 0 < f -> a * d <= c * b -> c * f <= e * d -> a * f <= e * b.
Proof.
  intros Hb Hd Hf H1 H2.
  assert (H3 : a * d * f <= c * b * f) by (apply Z.mul_le_mono_nonneg_r; lia).
  assert (H4 : c * f * b <= e * d * b) by (apply Z.mul_le_mono_nonneg_r; lia).
  assert (H5 : d * (a * f) <= d * (e * b)) by lia.
  apply Z.mul_le_mono_pos_l in H5; assumption.
Qed.

Lemma wmin_aux_spec : forall l best,
  0 < snd best -> Forall (fun p => 0 < snd p) l ->
  let r := wmin_aux best l in
  (r = best \/ In r l) /\ 0 < snd r /\
  fst r * snd best <= fst best * snd r /\
  Forall (fun p => fst r * snd p <= fst p * snd r) l.
Proof.
  induction l as [|[s w] t IH]; intros best Hb Hl; cbn zeta.
  - cbn [wmin_aux]. repeat split; auto; lia.
  - apply Forall_cons_iff in Hl. destruct Hl as [Hw Hl]. cbn [snd] in Hw.
    cbn [wmin_aux]. destruct (s * snd best <? fst best * w) eqn:E.
    + destruct (IH (s, w) Hw Hl) as (I & P & L & F). cbn [fst snd] in L.
      split; [destruct I as [I|I]; [right; left; symmetry; exact I|right; right; exact I]|].
      split; [exact P|]. split.
      * apply (frac_le_trans _ _ s w _ _); try assumption; lia.
      * constructor; [cbn [fst snd]; exact L|exact F].
    + destruct (IH best Hb Hl) as (I & P & L & F).
      split; [destruct I as [I|I]; [left; exact I|right; right; exact I]|].
      split; [exact P|]. split; [exact L|].
      constructor; [|exact F]. cbn [fst snd].
      apply (frac_le_trans _ _ (fst best) (snd best) _ _); try assumption; lia.
Qed.

Lemma combine_snd_pos (s ws : list Z) :
  Forall (fun w => 0 < w) ws -> Forall (fun p : Z * Z => 0 < snd p) (combine s ws).
Proof.
  intros H. revert s; induction H as [|w ws' Hw Hws IH]; intros s.
  - destruct s; constructor.
  - destruct s as [|x s']; [constructor|]. cbn [combine]. constructor; [exact Hw|apply IH].
Qed.

Theorem value_weighted_spec : forall ws s n d,
  Forall (fun w => 0 < w) ws -> value_weighted ws s false = Ok (n, d) ->
  In (n, d) (combine s ws) /\ 0 < d /\ Forall (fun p => n * snd p <= fst p * d) (combine s ws).
Proof.
  intros ws s n d Hws Hv. unfold value_weighted in Hv.
  pose proof (combine_snd_pos s ws Hws) as Hpos.
  destruct (combine s ws) as [|p t]; [discriminate|].
  injection Hv as Hv.
  apply Forall_cons_iff in Hpos. destruct Hpos as [Hp Ht].
  destruct (wmin_aux_spec t p Hp Ht) as (I & P & L & F).
  rewrite Hv in I, P, L, F. cbn [fst snd] in P, L, F.
  split; [destruct I as [I|I]; [left; symmetry; exact I|right; exact I]|].
  split; [exact P|]. constructor; [exact L|exact F].
Qed.

(** ------------------------------------------------------------------ *)
(** * PART 2 : the pruning bounds are admissible (C13)                  *)
(** ------------------------------------------------------------------ *)

Lemma zsum_cons x (t : list Z) : zsum (x :: t) = x + zsum t.
Proof. reflexivity. Qed.

Lemma Forall2_le_zsum (s f : list Z) : Forall2 Z.le s f -> zsum s <= zsum f.
Proof. induction 1 as [|x y s' f' Hxy H IH]; [lia|]. rewrite !zsum_cons. lia. Qed.

(** a completion can be permuted along with the partial sums *)
Lemma Forall2_le_perm (s s' : list Z) : Permutation s s' ->
  forall f, Forall2 Z.le s f -> exists f', Permutation f f' /\ Forall2 Z.le s' f'.
Proof.
  induction 1 as [|x l l' P IH|x y l|l l' l'' P1 IH1 P2 IH2]; intros f H.
  - inversion H; subst. exists []. split; constructor.
  - inversion H as [|x0 fx l0 ft Hx Ht]; subst.
    destruct (IH ft Ht) as (ft' & Pf & Hf).
    exists (fx :: ft'). split; [constructor; exact Pf|constructor; assumption].
  - inversion H as [|y0 fy l0 ft Hy Ht]; subst.
    inversion Ht as [|x0 fx l1 ft' Hx Ht']; subst.
    exists (fx :: fy :: ft'). split; [apply perm_swap|].
    constructor; [exact Hx|]. constructor; assumption.
  - destruct (IH1 f H) as (f1 & Pf1 & Hf1).
    destruct (IH2 f1 Hf1) as (f2 & Pf2 & Hf2).
    exists f2. split; [eapply Permutation_trans; eassumption|exact Hf2].
Qed.

(** core loop lemma (does not need the sums to be sorted) *)
Lemma waterfill_admissible : forall rest frest i acc m,
  0 < i -> Forall2 Z.le rest frest -> Forall (fun x => m <= x) frest ->
  i * m + (zsum frest - zsum rest) <= acc ->
  m <= waterfill i acc rest.
Proof.
  induction rest as [|s rest IH]; intros frest i acc m Hi Hc Hall Hacc.
  - inversion Hc; subst. cbn [waterfill]. change (zsum []) with 0 in Hacc.
    apply Z.div_le_lower_bound; lia.
  - inversion Hc as [|s' fx ss fs Hsf Hc']; subst.
    apply Forall_cons_iff in Hall. destruct Hall as [Hmf Hall'].
    pose proof (Forall2_le_zsum _ _ Hc') as Hge.
    rewrite !zsum_cons in Hacc.
    cbn [waterfill]. destruct (acc <=? i * s) eqn:E.
    + apply Z.div_le_lower_bound; nia.
    + apply (IH fs (i + 1) (acc + s) m); try lia; auto.
Qed.

(** the bound on an arbitrary (not nec. sorted) non-empty list of sums *)
Lemma waterfill_list_admissible (s0 : Z) (rest f : list Z) (R m : Z) :
  Forall2 Z.le (s0 :: rest) f -> zsum f = zsum (s0 :: rest) + R ->
  Forall (fun x => m <= x) f ->
  m <= waterfill 1 (R + s0) rest.
Proof.
  intros Hc Hsum Hall.
  inversion Hc as [|s' f0 ss fs Hsf Hc']; subst.
  apply Forall_cons_iff in Hall. destruct Hall as [Hmf Hall'].
  rewrite !zsum_cons in Hsum.
  apply (waterfill_admissible rest fs 1 (R + s0) m); try lia; auto.
Qed.

Lemma lb_maxmin_list_admissible (s f : list Z) (R : Z) :
  Forall2 Z.le s f -> zsum f = zsum s + R ->
  match s with [] => 0 | s0 :: rest => - waterfill 1 (R + s0) rest end <= - zmin f \/ s = [].
Proof.
  intros Hc Hsum. destruct s as [|s0 rest]; [right; reflexivity|left].
  pose proof (waterfill_list_admissible s0 rest f R (zmin f) Hc Hsum (zmin_le f)). lia.
Qed.

Theorem lb_maxmin_admissible : forall s f R flag,
  s <> [] -> (flag = true -> StronglySorted Z.le s) ->
  Forall2 Z.le s f -> zsum f = zsum s + R ->
  lb_maxmin s R flag <= value MaxSmallest f false.
Proof.
  intros s f R flag NE _ Hc Hsum. unfold lb_maxmin, value.
  destruct flag.
  - destruct (lb_maxmin_list_admissible s f R Hc Hsum) as [H|H]; [exact H|congruence].
  - pose proof (sort_asc_perm (fun x : Z => x) s) as P. apply Permutation_sym in P.
    destruct (Forall2_le_perm _ _ P f Hc) as (f' & Pf & Hc').
    assert (Hsum' : zsum f' = zsum (sort_asc (fun x : Z => x) s) + R).
    { rewrite <- (zsum_perm _ _ Pf), <- (zsum_perm _ _ P). exact Hsum. }
    destruct (lb_maxmin_list_admissible _ f' R Hc' Hsum') as [H|H].
    + rewrite (zmin_perm f f' Pf). exact H.
    + exfalso. apply NE. rewrite H in P. apply Permutation_sym, Permutation_nil in P. exact P.
Qed.

(** --- min-max bound --- *)

Lemma zsum_le_len_mul (f : list Z) (M : Z) :
  Forall (fun x => x <= M) f -> zsum f <= Z.of_nat (length f) * M.
Proof.
  induction 1 as [|x t Hx Ht IH]; [cbn; lia|].
  rewrite zsum_cons. cbn [length]. lia.
Qed.

Lemma cdiv_le (a n M : Z) : 0 < n -> a <= n * M -> cdiv a n <= M.
Proof.
  intros Hn H. unfold cdiv.
  assert (- M <= (- a) / n) by (apply Z.div_le_lower_bound; lia). lia.
Qed.

Lemma Forall2_le_In (s f : list Z) x : Forall2 Z.le s f -> In x s -> exists y, In y f /\ x <= y.
Proof.
  induction 1 as [|a b s' f' Hab H IH]; intros I; [destruct I|].
  destruct I as [I|I].
  - subst a. exists b. split; [left; reflexivity|exact Hab].
  - destruct (IH I) as (y & Iy & Hy). exists y. split; [right; exact Iy|exact Hy].
Qed.

Lemma Forall2_le_length (s f : list Z) : Forall2 Z.le s f -> length s = length f.
Proof. induction 1 as [|a b s' f' Hab H IH]; cbn [length]; congruence. Qed.

Lemma In_le_zmax (f : list Z) y : In y f -> y <= zmax f.
Proof. intros I. pose proof (zmax_ge f) as G. rewrite Forall_forall in G. apply G; exact I. Qed.

Theorem lb_minmax_admissible : forall s f R flag,
  s <> [] -> (flag = true -> StronglySorted Z.le s) ->
  Forall2 Z.le s f -> zsum f = zsum s + R ->
  lb_minmax s R flag <= value MinLargest f false.
Proof.
  intros s f R flag NE _ Hc Hsum. unfold lb_minmax, value, last0.
  apply Z.max_lub.
  - assert (I : In (if flag then last s 0 else zmax s) s).
    { destruct flag; [apply last_In|apply zmax_in]; exact NE. }
    destruct (Forall2_le_In s f _ Hc I) as (y & Iy & Hy).
    apply In_le_zmax in Iy. lia.
  - rewrite <- Hsum. rewrite (Forall2_le_length s f Hc).
    assert (Hlen : 0 < Z.of_nat (length f)).
    { destruct Hc as [|a b s' f' Hab Hc']; [congruence|]. cbn [length]. lia. }
    apply cdiv_le; [exact Hlen|]. apply zsum_le_len_mul. apply zmax_ge.
Qed.

Theorem lb_diff_admissible : forall s f R flag b,
  s <> [] -> (flag = true -> StronglySorted Z.le s) ->
  Forall2 Z.le s f -> zsum f = zsum s + R ->
  lower_bound MinDiff s R flag = Some b -> b <= value MinDiff f false.
Proof.
  intros s f R flag b NE Hs Hc Hsum Hb. unfold lower_bound in Hb. injection Hb as <-.
  pose proof (lb_maxmin_admissible s f R flag NE Hs Hc Hsum) as H1.
  pose proof (lb_minmax_admissible s f R flag NE Hs Hc Hsum) as H2.
  unfold value in *. lia.
Qed.

Theorem lower_bound_admissible : forall o s f R flag b,
  s <> [] -> (flag = true -> StronglySorted Z.le s) ->
  Forall2 Z.le s f -> zsum f = zsum s + R ->
  lower_bound o s R flag = Some b -> b <= value o f false.
Proof.
  intros o s f R flag b NE Hs Hc Hsum Hb. destruct o as [| | |k|k].
  - unfold lower_bound in Hb. injection Hb as <-. apply lb_maxmin_admissible; assumption.
  - unfold lower_bound in Hb. injection Hb as <-. apply lb_minmax_admissible; assumption.
  - eapply lb_diff_admissible; eassumption.
  - discriminate Hb.
  - discriminate Hb.
Qed.

Lemma lb_maxmin_sorted_flag s R : StronglySorted Z.le s -> lb_maxmin s R true = lb_maxmin s R false.
Proof. intros S. unfold lb_maxmin. rewrite (sort_asc_id_fix s S). reflexivity. Qed.

Lemma lb_minmax_sorted_flag s R : StronglySorted Z.le s -> lb_minmax s R true = lb_minmax s R false.
Proof. intros S. unfold lb_minmax, last0. rewrite (last_sorted_zmax s S). reflexivity. Qed.

Theorem lower_bound_sorted_flag : forall o s R, StronglySorted Z.le s ->
  lower_bound o s R true = lower_bound o s R false.
Proof.
  intros o s R S. destruct o as [| | |k|k]; unfold lower_bound;
    rewrite ?(lb_maxmin_sorted_flag s R S), ?(lb_minmax_sorted_flag s R S); reflexivity.
Qed.

(** Non-vacuity: the doctest values of the Python *)
Example lb_examples :
  lower_bound MaxSmallest [10;20;30;40;50] 45 true = Some (-35) /\
  lower_bound MinLargest [0;0;0;0;0] 54 true = Some 11 /\
  lower_bound MinDiff [10;20;30;40;50] 5 false = Some 35.
Proof. vm_compute. repeat split; reflexivity. Qed.

(** the admissibility hypotheses are satisfiable and the bound can be tight *)
Example lb_admissible_witness :
  Forall2 Z.le [10;20;30;40;50] [35;35;35;40;50] /\
  zsum [35;35;35;40;50] = zsum [10;20;30;40;50] + 45 /\
  value MaxSmallest [35;35;35;40;50] false = -35.
Proof. repeat split; try (vm_compute; reflexivity). repeat constructor; lia. Qed.

Print Assumptions sort_asc_perm_eq.
Print Assumptions value_perm.
Print Assumptions value_sorted_flag.
Print Assumptions value_MaxSmallest_spec.
Print Assumptions value_MinLargest_spec.
Print Assumptions value_MinDiff_spec.
Print Assumptions value_MaxKSmallest_spec.
Print Assumptions value_MinKLargest_spec.
Print Assumptions value_weighted_sorted_refused.
Print Assumptions value_weighted_spec.
Print Assumptions lb_maxmin_admissible.
Print Assumptions lb_minmax_admissible.
Print Assumptions lb_diff_admissible.
Print Assumptions lower_bound_admissible.
Print Assumptions lower_bound_sorted_flag.
Print Assumptions lb_examples.
