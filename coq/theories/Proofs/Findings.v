(** Machine-checked statements of the KNOWN FINDINGS of /verif/known_findings.json: the faithful
    model of the unrepaired code violates the property on the listed witness (vm_compute). *)
From Prtpy Require Import Base.Prelude Model.Binner Model.Objectives Model.KK Model.SNP Spec.Partition.

Definition zid (x : Z) : Z := x.

(** rnp-suboptimal: numbins = 4, items [68;22;72;23;31;30;4]: returned difference 19, attainable 18 *)
Example rnp_witness_run :
  rmap (fun b => (sums b, value MinDiff (sums b) false)) (rnp zid zid true 4 [68; 22; 72; 23; 31; 30; 4])
  = Ok ([53; 57; 68; 72], 19).
Proof. vm_compute. reflexivity. Qed.

Example rnp_witness_better : Attainable 4 [68; 22; 72; 23; 31; 30; 4] [68; 56; 72; 54].
Proof. exists [0; 1; 2; 3; 3; 1; 1]%nat. split; [reflexivity|]. split; [repeat constructor|vm_compute; reflexivity]. Qed.

Theorem rnp_optimal_refuted :
  ~ (forall (k : nat) (vs : list Z) (b : bins Z), (1 <= k)%nat -> vs <> [] -> Forall (fun x => 0 <= x) vs ->
       rnp zid zid true k vs = Ok b -> Opt MinDiff k vs (value MinDiff (sums b) false)).
Proof.
  intros H.
  destruct (rnp zid zid true 4 [68; 22; 72; 23; 31; 30; 4]) as [b|e] eqn:E; [|vm_compute in E; discriminate].
  assert (Hv : value MinDiff (sums b) false = 19).
  { vm_compute in E. injection E as <-. vm_compute. reflexivity. }
  specialize (H 4%nat [68; 22; 72; 23; 31; 30; 4] b ltac:(lia) ltac:(discriminate) ltac:(repeat constructor; lia) E).
  destruct H as [_ Hmin]. specialize (Hmin _ rnp_witness_better). rewrite Hv in Hmin. vm_compute in Hmin. apply Hmin. reflexivity.
Qed.

(** rnp-float-index: numbins = 6 reaches an odd float bin count: the model returns Err IndexError *)
Example rnp_float_index : rnp zid zid true 6 [68; 22; 72; 23; 31; 30; 4] = Err IndexError.
Proof. vm_compute. reflexivity. Qed.

Print Assumptions rnp_optimal_refuted.
Print Assumptions rnp_float_index.
