(** C08, max-min side: guarantees for the smallest sum produced by greedy (LPT) relative to the
    optimal smallest sum (Deuermeyer, Friesen, Langston 1982; Csirik, Kellerer, Woeginger 1992). *)
From Prtpy Require Import Base.Prelude Model.Binner Model.Greedy Model.Objectives Spec.Partition
  Oracle.Reach Proofs.BaseLemmas Proofs.BinnerLemmas Proofs.GreedyProofs Proofs.RatioProofs Proofs.OracleSpec.
From Coq Require Import Sorting.Sorted Arith ZifyBool.

(** ================= A. generic facts ================= *)

Lemma Forall2_length_eq {T U} (P : T -> U -> Prop) s t : Forall2 P s t -> length s = length t.
Proof. induction 1 as [|a b s t Hab Hst IH]; simpl; congruence. Qed.

Lemma Forall2_impl {T U} (P Q : T -> U -> Prop) : (forall a b, P a b -> Q a b) ->
  forall s t, Forall2 P s t -> Forall2 Q s t.
Proof. intros H s t H2. induction H2 as [|a b s t Hab Hst IH]; constructor; auto. Qed.

Lemma Forall2_nth {T U} (P : T -> U -> Prop) d e s t : Forall2 P s t ->
  forall i, (i < length s)%nat -> P (nth i s d) (nth i t e).
Proof.
  induction 1 as [|a b s t Hab Hst IH]; intros [|i] Hi; simpl in *; try lia; auto.
  apply IH. lia.
Qed.

(** update at one index, the new pair being justified separately *)
Lemma Forall2_update_at {T U} (P : T -> U -> Prop) (f : T -> T) (g : U -> U) d e s t i :
  Forall2 P s t -> (i < length s)%nat -> P (f (nth i s d)) (g (nth i t e)) ->
  Forall2 P (update i f s) (update i g t).
Proof.
  intros H. revert i. induction H as [|a b s t Hab Hst IH]; intros [|i] Hi Hp; simpl in *; try lia.
  - constructor; auto.
  - constructor; auto. apply IH; [lia|exact Hp].
Qed.

(** one entry is at most [a], all the others are at most [m] *)
Lemma zsum_le_one_plus_rest a m l i : (i < length l)%nat -> nth i l 0 <= a ->
  Forall (fun y => y <= m) l -> zsum l <= a + (Z.of_nat (length l) - 1) * m.
Proof.
  revert i. induction l as [|y t IH]; intros [|i] Hi Ha Hm; simpl in Hi; try lia;
    inversion Hm as [|y' t' Hy Ht]; subst; simpl zsum; simpl length; simpl nth in Ha.
  - pose proof (zsum_le_bound m t Ht). lia.
  - specialize (IH i ltac:(lia) Ha Ht). lia.
Qed.

(** ================= B. the smallest load along the greedy loop ================= *)

Lemma argmin_is_zmin s : (1 <= length s)%nat -> nth (argmin s) s 0 = zmin s.
Proof.
  intros H. pose proof (argmin_least s H) as Hl. pose proof (argmin_lt s H) as Hi.
  assert (Hne : s <> []) by (apply length_pos_ne; exact H).
  pose proof (zmin_in s Hne) as Hin. rewrite Forall_forall in Hl. specialize (Hl _ Hin).
  assert (Hn : In (nth (argmin s) s 0) s) by (apply nth_In; exact Hi).
  pose proof (zmin_le_in _ _ Hn). lia.
Qed.

Lemma vstep_zmin_ge s x : (1 <= length s)%nat -> 0 <= x -> zmin s <= zmin (vstep s x).
Proof.
  intros H Hx.
  assert (Hne : vstep s x <> []) by (apply length_pos_ne; rewrite vstep_length; exact H).
  pose proof (zmin_in _ Hne) as Hin. unfold vstep in Hin. apply (In_update _ 0) in Hin.
  destruct Hin as [Hin|[_ Hin]].
  - apply zmin_le_in. exact Hin.
  - fold (vstep s x) in Hin. rewrite Hin, argmin_is_zmin by exact H. lia.
Qed.

(** ================= C. capped values along the greedy loop ================= *)

(** the value of an item, counted at most [C] *)
Definition cap (C a : Z) : Z := Z.min a C.

(** per-bin invariant of greedy on a non-increasing sequence: [wl] is the capped value of the bin,
    [y] a lower bound of the items seen so far, [m] the current smallest load.  A bin holding at
    least two items has load at most twice the smallest load. *)
Definition LP (C y m l wl : Z) : Prop :=
  0 <= wl <= l /\ (l = 0 \/ y <= l) /\ (wl <= C \/ l <= 2 * m).

Lemma LP_weaken C y y' m m' l wl : y' <= y -> m <= m' -> LP C y m l wl -> LP C y' m' l wl.
Proof. unfold LP. intros Hy Hm (H1 & H2 & H3). lia. Qed.

Lemma LP_step C y g t x : (1 <= length g)%nat -> 0 <= C -> 0 <= x <= y ->
  Forall2 (LP C y (zmin g)) g t ->
  Forall2 (LP C x (zmin (vstep g x))) (vstep g x) (update (argmin g) (fun a => a + cap C x) t).
Proof.
  intros Hlen HC Hx H.
  pose proof (vstep_zmin_ge g x Hlen (proj1 Hx)) as Hmono.
  pose proof (argmin_lt g Hlen) as Hi.
  pose proof (Forall2_nth _ 0 0 g t H (argmin g) Hi) as Hb.
  rewrite argmin_is_zmin in Hb by exact Hlen.
  unfold vstep. apply (Forall2_update_at _ _ _ 0 0).
  - eapply Forall2_impl; [|exact H]. intros a b Hab. apply (LP_weaken C y x (zmin g)); auto; lia.
  - exact Hi.
  - rewrite argmin_is_zmin by exact Hlen. fold (vstep g x).
    unfold LP, cap in *. destruct Hb as (H1 & H2 & H3). lia.
Qed.

Lemma zmin_repeat0 n : zmin (repeat 0 n) = 0.
Proof.
  destruct n as [|n]; [reflexivity|].
  assert (H : In (zmin (repeat 0 (S n))) (repeat 0 (S n))) by (apply zmin_in; simpl; discriminate).
  apply repeat_spec in H. exact H.
Qed.

Lemma LP_run C k : (1 <= k)%nat -> 0 <= C -> forall l y,
  StronglySorted (fun a b : Z => b <= a) l -> Forall (fun a => y <= a) l -> 0 <= y ->
  exists t, Forall2 (LP C y (zmin (vgreedy l (repeat 0 k)))) (vgreedy l (repeat 0 k)) t /\
            zsum t = zsum (map (cap C) l).
Proof.
  intros Hk HC l. induction l as [|x l IH] using rev_ind; intros y Hsort Hy Hy0.
  - exists (repeat 0 k). split; [|simpl; apply zsum_repeat0].
    unfold vgreedy. cbn [fold_left]. apply Forall2_repeat. unfold LP. lia.
  - destruct (sorted_desc_snoc l x Hsort) as [Hsl Hxl].
    apply Forall_app in Hy. destruct Hy as [_ Hyx]. pose proof (Forall_inv Hyx) as Hyx0. cbv beta in Hyx0.
    destruct (IH x Hsl Hxl ltac:(lia)) as (t & Ht & Hsum).
    set (g := vgreedy l (repeat 0 k)) in *.
    assert (Hg : length g = k) by (unfold g; rewrite vgreedy_length; apply repeat_length).
    exists (update (argmin g) (fun a => a + cap C x) t). split.
    + rewrite vgreedy_snoc. fold g. eapply Forall2_impl; [|apply (LP_step C x g t x); auto; lia].
      intros a b Hab. eapply LP_weaken; [| |exact Hab]; lia.
    + rewrite zsum_update.
      * rewrite map_app, zsum_app, Hsum. simpl zsum. lia.
      * rewrite <- (Forall2_length_eq _ _ _ Ht). apply argmin_lt. lia.
Qed.

(** capped values of an arbitrary assignment: every bin keeps at least min(load, C) *)
Definition SP (C l wl : Z) : Prop := 0 <= l /\ Z.min l C <= wl.

Lemma SP_run C k vs s : 0 <= C -> Forall (fun v => 0 <= v) vs -> Attainable k vs s ->
  exists t, Forall2 (SP C) s t /\ length t = k /\ zsum t = zsum (map (cap C) vs).
Proof.
  intros HC Hpos Hs. apply (weights_along (SP C) (cap C) k vs s); [unfold SP; lia| |exact Hs].
  eapply Forall_impl; [|exact Hpos]. intros a Ha l wl [H1 H2]. cbv beta in Ha. unfold SP, cap. lia.
Qed.

Lemma Forall2_Forall_r {T U} (P : T -> U -> Prop) (R : U -> Prop) :
  (forall a b, P a b -> R b) -> forall s t, Forall2 P s t -> Forall R t.
Proof. intros H s t H2. induction H2 as [|a b s t Hab Hst IH]; constructor; eauto. Qed.

(** ================= D. the simple bound  k * OPTmin <= (2k-1) * LPTmin ================= *)

Theorem lpt_min_half_values k : (1 <= k)%nat -> forall l s,
  StronglySorted (fun a b : Z => b <= a) l -> Forall (fun v => 0 <= v) l -> Attainable k l s ->
  Z.of_nat k * zmin s <= (2 * Z.of_nat k - 1) * zmin (vgreedy l (repeat 0 k)).
Proof.
  intros Hk l s Hsort Hpos Hs.
  set (g := vgreedy l (repeat 0 k)). set (L := zmin g). set (C := Z.max (2 * L) 1).
  assert (Hg : length g = k) by (unfold g; rewrite vgreedy_length; apply repeat_length).
  assert (HC : 0 <= C) by (unfold C; lia).
  destruct (LP_run C k Hk HC l 0 Hsort Hpos ltac:(lia)) as (t & Ht & Hsum). fold g in Ht. fold L in Ht.
  destruct (SP_run C k l s HC Hpos Hs) as (t' & Ht' & Hlen' & Hsum').
  pose proof (Forall2_length_eq _ _ _ Ht) as Hlt.
  assert (Hi : (argmin g < length g)%nat) by (apply argmin_lt; lia).
  pose proof (Forall2_nth _ 0 0 g t Ht (argmin g) Hi) as Hb.
  rewrite argmin_is_zmin in Hb by lia. fold L in Hb.
  assert (HtC : Forall (fun b => b <= C) t).
  { apply (Forall2_Forall_r (LP C 0 L) (fun b => b <= C)) with (s := g); [|exact Ht].
    intros a b Hab. unfold LP in Hab. unfold C. lia. }
  pose proof (zsum_le_one_plus_rest L C t (argmin g) ltac:(lia) ltac:(unfold LP in Hb; lia) HtC) as Hup.
  rewrite <- Hlt, Hg in Hup.
  assert (Hlow : Forall (fun b => Z.min (zmin s) C <= b) t').
  { pose proof (zmin_le s) as Hm. generalize dependent (zmin s). intros O Hm.
    clear - Ht' Hm. induction Ht' as [|a b s' t'' Hab Hst IH]; constructor.
    - inversion Hm; subst. unfold SP in Hab. lia.
    - apply IH. inversion Hm; auto. }
  pose proof (zsum_ge_bound _ _ Hlow) as Hdown. rewrite Hlen' in Hdown.
  rewrite Hsum' in Hdown. rewrite Hsum in Hup.
  assert (HL : 0 <= L) by (unfold LP in Hb; lia).
  set (K := Z.of_nat k) in *. assert (HK : 1 <= K) by (unfold K; lia).
  destruct (Z.le_gt_cases (zmin s) C) as [Hle|Hgt].
  - rewrite Z.min_l in Hdown by exact Hle.
    destruct (Z.le_gt_cases 1 (2 * L)) as [H1|H1].
    + replace C with (2 * L) in * by (unfold C; lia). nia.
    + replace C with 1 in * by (unfold C; lia). assert (HL0 : L = 0) by lia.
      set (O := zmin s) in *. assert (HO : K * O <= K - 1) by lia.
      assert (HO0 : O <= 0).
      { destruct (Z.le_gt_cases O 0) as [Hn|Hp]; [exact Hn|]. assert (K * 1 <= K * O) by (apply Z.mul_le_mono_nonneg_l; lia). lia. }
      rewrite HL0. assert (K * O <= K * 0) by (apply Z.mul_le_mono_nonneg_l; lia). lia.
  - rewrite Z.min_r in Hdown by lia. assert (C <= L) by nia. unfold C in *. lia.
Qed.

Section MinHalf.
  Context {A : Type} (valueof : A -> Z) (keep : bool).

  (** greedy against any way of distributing the values over k bins *)
  Theorem lpt_min_half_attainable k items s : (1 <= k)%nat ->
    Forall (fun x => 0 <= valueof x) items -> Attainable k (map valueof items) s ->
    Z.of_nat k * zmin s <= (2 * Z.of_nat k - 1) * zmin (sums (greedy valueof keep k items)).
  Proof.
    intros Hk Hpos Hs. rewrite greedy_sums_vgreedy.
    apply lpt_min_half_values; [exact Hk|apply sorted_values_sorted|apply sorted_values_nonneg; exact Hpos|].
    apply (Attainable_perm_local k (map valueof items)); [|exact Hs].
    symmetry. apply sorted_values_perm.
  Qed.

  (** LPTmin >= k/(2k-1) * OPTmin  (in particular more than one half) *)
  Theorem lpt_min_ratio_half_partial k items v : (1 <= k)%nat ->
    Forall (fun x => 0 <= valueof x) items -> Opt MaxSmallest k (map valueof items) v ->
    Z.of_nat k * (- v) <= (2 * Z.of_nat k - 1) * zmin (sums (greedy valueof keep k items)).
  Proof.
    intros Hk Hpos [(s & Hs & Ev) _]. rewrite value_MaxSmallest in Ev. subst v.
    rewrite Z.opp_involutive. apply lpt_min_half_attainable; auto.
  Qed.
End MinHalf.

(** ================= E. Graham's bound with the total:  3k L <= (3k-1) T + sum ================= *)

Lemma in_le_zsum a l : Forall (fun v => 0 <= v) l -> In a l -> a <= zsum l.
Proof.
  induction 1 as [|y t Hy Ht IH]; intros Hin; [contradiction|]. simpl zsum.
  pose proof (zsum_nonneg t Ht) as Hn. destruct Hin as [Hin|Hin]; [subst; lia|].
  specialize (IH Hin). lia.
Qed.

Lemma zmax_le_zsum l : Forall (fun v => 0 <= v) l -> zmax l <= zsum l.
Proof.
  intros H. destruct l as [|y t]; [simpl; lia|].
  apply in_le_zsum; [exact H|]. apply zmax_in. discriminate.
Qed.

(** same induction as [lpt_43_values]; the conclusion keeps the total instead of bounding it by k T *)
Theorem lpt_43_sum_values k : (1 <= k)%nat -> forall l s,
  StronglySorted (fun a b : Z => b <= a) l -> Forall (fun v => 0 <= v) l -> Attainable k l s ->
  3 * Z.of_nat k * zmax (vgreedy l (repeat 0 k)) <= (3 * Z.of_nat k - 1) * zmax s + zsum l.
Proof.
  intros Hk l. induction l as [|x l IH] using rev_ind; intros s Hsort Hpos Hs.
  - apply Attainable_nil_inv in Hs. subst s. unfold vgreedy. cbn [fold_left].
    rewrite zmax_repeat0. simpl zsum. lia.
  - destruct (sorted_desc_snoc l x Hsort) as [Hsl Hxl].
    pose proof Hpos as Hposlx.
    apply Forall_app in Hpos. destruct Hpos as [Hposl Hposx].
    inversion Hposx as [|x' t' Hx _]; subst.
    destruct (Attainable_snoc_inv _ _ _ _ Hs) as (s' & i & Hs' & Hi & Es).
    assert (HT' : zmax s' <= zmax s) by (rewrite Es; apply zmax_update_mono; exact Hx).
    specialize (IH s' Hsl Hposl Hs').
    destruct (Attainable_bounds k (l ++ [x]) Hposlx s Hs) as [Hspos Hvals].
    apply Forall_app in Hvals. destruct Hvals as [_ HxT]. pose proof (Forall_inv HxT) as HxT0. cbv beta in HxT0.
    pose proof (zmax_le_zsum s Hspos) as HTS. rewrite (Attainable_sum _ _ _ Hs) in HTS.
    pose proof (zsum_le_len_max s) as Hsum.
    rewrite (Attainable_length _ _ _ Hs), (Attainable_sum _ _ _ Hs) in Hsum.
    rewrite zsum_app in *. simpl zsum in *.
    set (T := zmax s) in *. set (K := Z.of_nat k) in *. set (S := zsum l) in *.
    assert (HK : 1 <= K) by (unfold K; lia).
    pose proof (vgreedy_attainable k l Hk) as Hg.
    set (g := vgreedy l (repeat 0 k)) in *.
    pose proof (Attainable_length _ _ _ Hg) as Hglen.
    assert (Hg1 : (1 <= length g)%nat) by lia.
    rewrite vgreedy_snoc. fold g.
    pose proof (argmin_least g Hg1) as Hleast.
    pose proof (zsum_ge_bound _ _ Hleast) as Hmn.
    rewrite Hglen, (Attainable_sum _ _ _ Hg) in Hmn. fold K in Hmn. fold S in Hmn.
    set (mn := nth (argmin g) g 0) in *.
    destruct (vstep_max_cases g x Hg1) as [Hc|Hc].
    + assert (H1 : 3 * K * zmax (vstep g x) <= 3 * K * zmax g) by (apply Z.mul_le_mono_nonneg_l; lia).
      assert (H2 : (3 * K - 1) * zmax s' <= (3 * K - 1) * T) by (apply Z.mul_le_mono_nonneg_l; lia).
      lia.
    + fold mn in Hc. rewrite Hc.
      destruct (Z.le_gt_cases (mn + x) T) as [Hle|Hgt].
      * assert (H1 : 3 * K * (mn + x) <= 3 * K * T) by (apply Z.mul_le_mono_nonneg_l; lia).
        lia.
      * destruct (Z.le_gt_cases (3 * x) T) as [Hsmall|Hbig].
        -- assert (H1 : (K - 1) * (3 * x) <= (K - 1) * T) by (apply Z.mul_le_mono_nonneg_l; lia).
           lia.
        -- exfalso. apply (two_per_bin_contra k T x l g s); auto.
           ++ eapply Forall_impl; [|exact Hleast]. intros a Ha. cbv beta in Ha. fold mn in Ha. lia.
           ++ apply zmax_ge.
Qed.

(** ================= F. two bins: the exact constant 5/6 = (3k-1)/(4k-2) ================= *)

Lemma two_min_max s : length s = 2%nat -> zmin s + zmax s = zsum s.
Proof.
  destruct s as [|a [|b [|c t]]]; simpl length; intros H; try discriminate.
  unfold zmin, zmax. simpl. lia.
Qed.

Theorem lpt_min_two_values l s :
  StronglySorted (fun a b : Z => b <= a) l -> Forall (fun v => 0 <= v) l -> Attainable 2 l s ->
  5 * zmin s <= 6 * zmin (vgreedy l (repeat 0 2)).
Proof.
  intros Hsort Hpos Hs.
  pose proof (lpt_43_sum_values 2 ltac:(lia) l s Hsort Hpos Hs) as H.
  pose proof (vgreedy_attainable 2 l ltac:(lia)) as Hg.
  pose proof (two_min_max s (Attainable_length _ _ _ Hs)) as H1.
  pose proof (two_min_max _ (Attainable_length _ _ _ Hg)) as H2.
  rewrite (Attainable_sum _ _ _ Hs) in H1. rewrite (Attainable_sum _ _ _ Hg) in H2.
  change (Z.of_nat 2) with 2 in H. lia.
Qed.

(** ================= G. item level ================= *)

(** the full statement (Csirik, Kellerer, Woeginger 1992): LPTmin >= (3k-1)/(4k-2) * OPTmin *)
Definition lpt_min_ratio_statement : Prop :=
  forall (A : Type) (valueof : A -> Z) (keep : bool) (k : nat) (items : list A) (v : Z),
    (1 <= k)%nat -> Forall (fun x => 0 <= valueof x) items ->
    Opt MaxSmallest k (map valueof items) v ->
    (3 * Z.of_nat k - 1) * (- v) <= (4 * Z.of_nat k - 2) * zmin (sums (greedy valueof keep k items)).

Section MinTwo.
  Context {A : Type} (valueof : A -> Z) (keep : bool).

  Theorem lpt_min_two_attainable items s :
    Forall (fun x => 0 <= valueof x) items -> Attainable 2 (map valueof items) s ->
    5 * zmin s <= 6 * zmin (sums (greedy valueof keep 2 items)).
  Proof.
    intros Hpos Hs. rewrite greedy_sums_vgreedy.
    apply lpt_min_two_values; [apply sorted_values_sorted|apply sorted_values_nonneg; exact Hpos|].
    apply (Attainable_perm_local 2 (map valueof items)); [|exact Hs].
    symmetry. apply sorted_values_perm.
  Qed.

  (** the statement for k = 1 and k = 2 (both with the exact constant) *)
  Theorem lpt_min_ratio_k12_partial k items v : (1 <= k <= 2)%nat ->
    Forall (fun x => 0 <= valueof x) items -> Opt MaxSmallest k (map valueof items) v ->
    (3 * Z.of_nat k - 1) * (- v) <= (4 * Z.of_nat k - 2) * zmin (sums (greedy valueof keep k items)).
  Proof.
    intros Hk Hpos Hopt. assert (Hk12 : k = 1%nat \/ k = 2%nat) by lia.
    destruct Hk12 as [E|E]; subst k.
    - pose proof (lpt_min_ratio_half_partial valueof keep 1 items v ltac:(lia) Hpos Hopt) as H.
      change (Z.of_nat 1) with 1 in *. lia.
    - destruct Hopt as [(s & Hs & Ev) _]. rewrite value_MaxSmallest in Ev. subst v.
      pose proof (lpt_min_two_attainable items s Hpos Hs) as H.
      change (Z.of_nat 2) with 2. lia.
  Qed.
End MinTwo.

(** ================= H. the constant is attained ================= *)

(** the tight family 2k-1, 2k-1, ..., k+1, k+1, k, ..., k (k+1 copies of k): OPTmin = 4k-2, LPTmin = 3k-1 *)
Lemma opt_by_oracle o k vs v : (1 <= k)%nat -> opt_value o k vs = Some v -> Opt o k vs v.
Proof.
  intros Hk E. destruct (opt_value_spec o k vs Hk) as (v' & E' & H).
  rewrite E in E'. inversion E'; subst. exact H.
Qed.

Example lpt_min_ratio_tight2 :
  Opt MaxSmallest 2 [3; 3; 2; 2; 2] (-6) /\
  zmin (sums (greedy (fun v : Z => v) true 2 [3; 3; 2; 2; 2])) = 5 /\
  (3 * 2 - 1) * 6 = (4 * 2 - 2) * 5.
Proof. split; [apply opt_by_oracle; [lia|vm_compute; reflexivity]|vm_compute; split; reflexivity]. Qed.

Example lpt_min_ratio_tight3 :
  Opt MaxSmallest 3 [5; 5; 4; 4; 3; 3; 3; 3] (-10) /\
  zmin (sums (greedy (fun v : Z => v) true 3 [5; 5; 4; 4; 3; 3; 3; 3])) = 8 /\
  (3 * 3 - 1) * 10 = (4 * 3 - 2) * 8.
Proof. split; [apply opt_by_oracle; [lia|vm_compute; reflexivity]|vm_compute; split; reflexivity]. Qed.

Example lpt_min_ratio_tight4 :
  Opt MaxSmallest 4 [7; 7; 6; 6; 5; 5; 4; 4; 4; 4; 4] (-14) /\
  zmin (sums (greedy (fun v : Z => v) true 4 [7; 7; 6; 6; 5; 5; 4; 4; 4; 4; 4])) = 11 /\
  (3 * 4 - 1) * 14 = (4 * 4 - 2) * 11.
Proof. split; [apply opt_by_oracle; [lia|vm_compute; reflexivity]|vm_compute; split; reflexivity]. Qed.

(** ================= I. bounded exhaustive check of the full statement for k = 3, 4 ================= *)

Lemma Opt_unique o k vs v v' : Opt o k vs v -> Opt o k vs v' -> v = v'.
Proof.
  intros [(s & Hs & Ev) Hmin] [(s' & Hs' & Ev') Hmin'].
  pose proof (Hmin s' Hs'). pose proof (Hmin' s Hs). lia.
Qed.

(** all non-increasing lists of length n over the (decreasing) list of values *)
Fixpoint msets (vals : list Z) (n : nat) : list (list Z) :=
  match vals with
  | [] => match n with O => [[]] | _ => [] end
  | v :: t => flat_map (fun c => map (app (repeat v c)) (msets t (n - c))) (seq 0 (S n))
  end.

Definition check_min_ratio (k : nat) (vs : list Z) : bool :=
  match opt_value MaxSmallest k vs with
  | Some v => (3 * Z.of_nat k - 1) * (- v) <=?
              (4 * Z.of_nat k - 2) * zmin (sums (greedy (fun v : Z => v) true k vs))
  | None => false
  end.

Lemma check_min_ratio_sound k vs v : (1 <= k)%nat -> check_min_ratio k vs = true ->
  Opt MaxSmallest k vs v ->
  (3 * Z.of_nat k - 1) * (- v) <= (4 * Z.of_nat k - 2) * zmin (sums (greedy (fun v : Z => v) true k vs)).
Proof.
  intros Hk Hc Hopt. unfold check_min_ratio in Hc.
  destruct (opt_value MaxSmallest k vs) as [v'|] eqn:E; [|discriminate].
  pose proof (opt_by_oracle _ _ _ _ Hk E) as Hopt'.
  rewrite (Opt_unique _ _ _ _ _ Hopt Hopt'). lia.
Qed.

(** every multiset of at most 7 values from 1..6 with 3 bins (1716 instances),
    every multiset of at most 9 values from 3..7 with 4 bins (2002 instances) *)
Theorem lpt_min_ratio_checked_partial k vs v :
  (k = 3%nat /\ In vs (flat_map (msets [6; 5; 4; 3; 2; 1]) (seq 0 8))) \/
  (k = 4%nat /\ In vs (flat_map (msets [7; 6; 5; 4; 3]) (seq 0 10))) ->
  Opt MaxSmallest k vs v ->
  (3 * Z.of_nat k - 1) * (- v) <= (4 * Z.of_nat k - 2) * zmin (sums (greedy (fun v : Z => v) true k vs)).
Proof.
  intros [[Ek Hin]|[Ek Hin]] Hopt; subst k; apply check_min_ratio_sound; auto; try lia.
  - assert (H : forallb (check_min_ratio 3) (flat_map (msets [6; 5; 4; 3; 2; 1]) (seq 0 8)) = true)
      by (vm_compute; reflexivity).
    rewrite forallb_forall in H. apply H; exact Hin.
  - assert (H : forallb (check_min_ratio 4) (flat_map (msets [7; 6; 5; 4; 3]) (seq 0 10)) = true)
      by (vm_compute; reflexivity).
    rewrite forallb_forall in H. apply H; exact Hin.
Qed.

(** ================= J. what is open ================= *)

(** total amount missing to bring every load up to [t] *)
Definition deficit (t : Z) (s : list Z) : Z := zsum (map (fun a => Z.max 0 (t - a)) s).

(** A candidate inductive strengthening of the full statement (it survives randomized testing against
    brute force for k <= 4): whatever greedy misses below (3k-1)/(4k-2) * t, every assignment misses
    below t.  Adding the next (smallest) item preserves it trivially unless the item lifts the smallest
    bin of greedy strictly above the lower threshold; that step needs the combinatorial core of
    Csirik-Kellerer-Woeginger (at most three "big" items per bin) and is NOT proved here. *)
Definition lpt_deficit_statement : Prop :=
  forall (k : nat) (l s : list Z) (t : Z), (1 <= k)%nat ->
    StronglySorted (fun a b : Z => b <= a) l -> Forall (fun v => 0 <= v) l -> Attainable k l s ->
    zsum (map (fun a => Z.max 0 ((3 * Z.of_nat k - 1) * t - (4 * Z.of_nat k - 2) * a))
              (vgreedy l (repeat 0 k)))
    <= (4 * Z.of_nat k - 2) * deficit t s.

Lemma deficit_zmin s : deficit (zmin s) s = 0.
Proof.
  unfold deficit. pose proof (zmin_le s) as H. generalize dependent (zmin s). intros m H.
  induction H as [|y t Hy Ht IH]; simpl; [reflexivity|]. rewrite IH. lia.
Qed.

Lemma zsum_pos_parts_zero (f : Z -> Z) l : (forall a, 0 <= f a) -> zsum (map f l) <= 0 ->
  Forall (fun a => f a <= 0) l.
Proof.
  intros Hf. induction l as [|y t IH]; simpl; intros H; constructor.
  - assert (0 <= zsum (map f t)) by (apply zsum_nonneg; rewrite Forall_map; apply Forall_forall; auto).
    pose proof (Hf y). lia.
  - apply IH. pose proof (Hf y). lia.
Qed.

(** the strengthening does imply the full statement *)
Theorem lpt_deficit_implies_ratio : lpt_deficit_statement -> lpt_min_ratio_statement.
Proof.
  intros HD A valueof keep k items v Hk Hpos [(s & Hs & Ev) _]. rewrite value_MaxSmallest in Ev. subst v.
  rewrite Z.opp_involutive, greedy_sums_vgreedy.
  assert (Hs' : Attainable k (sorted_values valueof items) s).
  { apply (Attainable_perm_local k (map valueof items)); [|exact Hs]. symmetry. apply sorted_values_perm. }
  pose proof (HD k _ s (zmin s) Hk (sorted_values_sorted valueof items)
                (sorted_values_nonneg valueof items Hpos) Hs') as H.
  rewrite deficit_zmin, Z.mul_0_r in H.
  apply zsum_pos_parts_zero in H; [|intros a; lia].
  set (g := vgreedy (sorted_values valueof items) (repeat 0 k)) in *.
  assert (Hne : g <> []).
  { apply length_pos_ne. unfold g. rewrite vgreedy_length, repeat_length. exact Hk. }
  rewrite Forall_forall in H. specialize (H _ (zmin_in g Hne)). cbv beta in H. lia.
Qed.

(* OPEN: lpt_min_ratio_statement for k >= 3 (and hence the 3/4 bound of Deuermeyer-Friesen-Langston).
   Proved here: k * OPTmin <= (2k-1) * LPTmin for every k  (lpt_min_ratio_half_partial),
   the exact constant for k = 1, 2  (lpt_min_ratio_k12_partial, via 3k L <= (3k-1) T + sum),
   tightness for k = 2, 3, 4, an exhaustive check of 3718 instances for k = 3, 4, and the reduction
   of the statement to lpt_deficit_statement.
   Missing: at the critical step of the induction (the new item lifts the smallest bin above the lower
   threshold) one has to show that an arbitrary assignment wastes at least what greedy's closed bins
   with two or three big items (each > k/(3k-1) of the threshold) exceed; static per-item weights do
   not suffice beyond k/(2k-1) because a greedy bin {p,q,r} with p+q <= LPTmin can weigh 3/2 LPTmin. *)

(* ==== FOOTER ==== *)
Print Assumptions lpt_min_half_values.
Print Assumptions lpt_min_ratio_half_partial.
Print Assumptions lpt_43_sum_values.
Print Assumptions lpt_min_two_values.
Print Assumptions lpt_min_ratio_k12_partial.
Print Assumptions lpt_min_ratio_tight3.
Print Assumptions lpt_min_ratio_checked_partial.
Print Assumptions lpt_deficit_implies_ratio.
