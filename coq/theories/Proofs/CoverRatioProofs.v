(** C10: the approximation guarantee of the two-thirds bin-covering heuristic
    (Model/Covering.v [cover_twothirds], prtpy/packing/cflz_covering.py [twothirds];
    Csirik, Frenk, Labbe, Zhang 1999):   2 * (OPT - 1) <= 3 * (number of bins filled).

    Method: a weighting argument whose weights depend on the run.  For a parameter D with
    0 < D <= C the weight [W C D v] of a value v is chosen so that every set of values
    reaching C weighs at least 2*D, hence OPT * 2D <= total weight.  The loop analysis then
    shows that for a suitable D every bin closed by the heuristic weighs at most 3*D and
    the left-over bin less than 2*D.  D = C is (twice) the capped volume and serves the
    runs in which every bin is closed by an item below C/2; a run in which some bin is
    closed by an item >= C/2 taken from the small end uses D = 2 * (C - x) where x is the
    first item of the first such bin. *)
From Prtpy Require Import Base.Prelude Model.Binner Model.Covering Spec.Partition
  Proofs.BaseLemmas Proofs.BinnerLemmas Proofs.CoveringProofs Proofs.SNPProofs.
From Coq Require Import Sorting.Sorted ZifyBool.

(** ---- the weights ---- *)

Definition W (C D v : Z) : Z :=
  if 2 * v <? C then Z.min (2 * v) D else 2 * D - Z.min (Z.max (2 * (C - v)) 0) D.

Lemma W_nonneg C D v : 0 < D -> 0 <= v -> 0 <= W C D v.
Proof. intros HD Hv. unfold W. destruct (2 * v <? C) eqn:E; lia. Qed.

(** values below C/2 ("small") and the others ("big") are accounted separately *)
Definition vsm (C v : Z) : Z := if 2 * v <? C then v else 0.
Definition vbg (C v : Z) : Z := if 2 * v <? C then 0 else v.
Definition Wsm (C D v : Z) : Z := if 2 * v <? C then W C D v else 0.
Definition Wbg (C D v : Z) : Z := if 2 * v <? C then 0 else W C D v.

Lemma zsum_cons x l : zsum (x :: l) = x + zsum l.
Proof. reflexivity. Qed.

Lemma zsum_map_split (f g h : Z -> Z) (Q : list Z) : (forall v, f v = g v + h v) ->
  zsum (map f Q) = zsum (map g Q) + zsum (map h Q).
Proof.
  intros H. induction Q as [|v Q IH]; cbn [map]; [reflexivity|].
  rewrite !zsum_cons, IH, H. lia.
Qed.

(** small values: their weight is at least min (2 vol) D and at least min (2 vol - C + D) (2 D) *)
Lemma small_weight C D Q : 0 < D -> D <= C -> Forall (fun v => 0 <= v) Q ->
  0 <= zsum (map (vsm C) Q) /\
  Z.min (2 * zsum (map (vsm C) Q)) D <= zsum (map (Wsm C D) Q) /\
  Z.min (2 * zsum (map (vsm C) Q) - C + D) (2 * D) <= zsum (map (Wsm C D) Q).
Proof.
  intros HD HDC HQ. induction HQ as [|v Q Hv HQ IH]; cbn [map].
  - cbn. lia.
  - rewrite !zsum_cons. destruct IH as (I0 & I1 & I2).
    set (a := zsum (map (vsm C) Q)) in *. set (b := zsum (map (Wsm C D) Q)) in *.
    unfold vsm, Wsm, W. destruct (2 * v <? C) eqn:E; lia.
Qed.

(** big values: one of them already weighs 2 D - min (2 (C - v)) D >= D *)
Lemma big_weight C D Q : 0 < D -> D <= C -> 0 < C -> Forall (fun v => 0 <= v) Q ->
  0 <= zsum (map (vbg C) Q) /\ 0 <= zsum (map (Wbg C D) Q) /\
  (0 < zsum (map (vbg C) Q) ->
   2 * D - Z.min (Z.max (2 * (C - zsum (map (vbg C) Q))) 0) D <= zsum (map (Wbg C D) Q)).
Proof.
  intros HD HDC HC HQ. induction HQ as [|v Q Hv HQ IH]; cbn [map].
  - cbn. lia.
  - rewrite !zsum_cons. destruct IH as (I0 & I1 & I2).
    set (a := zsum (map (vbg C) Q)) in *. set (b := zsum (map (Wbg C D) Q)) in *.
    unfold vbg, Wbg, W. destruct (2 * v <? C) eqn:E; [lia|].
    destruct (Z.eq_dec a 0) as [Z0|Z0]; [lia|].
    assert (H : 0 < a) by lia. specialize (I2 H). lia.
Qed.

(** every set of values that reaches C weighs at least 2 D *)
Lemma W_valid C D Q : 0 < D -> D <= C -> Forall (fun v => 0 <= v) Q ->
  C <= zsum Q -> 2 * D <= zsum (map (W C D) Q).
Proof.
  intros HD HDC HQ Hsum. assert (HC : 0 < C) by lia.
  destruct (small_weight C D Q HD HDC HQ) as (S0 & S1 & S2).
  destruct (big_weight C D Q HD HDC HC HQ) as (B0 & B1 & B2).
  assert (Hv : zsum Q = zsum (map (vsm C) Q) + zsum (map (vbg C) Q)).
  { rewrite <- (map_id Q) at 1. apply zsum_map_split. intros v. unfold vsm, vbg.
    destruct (2 * v <? C); lia. }
  assert (Hw : zsum (map (W C D) Q) = zsum (map (Wsm C D) Q) + zsum (map (Wbg C D) Q)).
  { apply zsum_map_split. intros v. unfold Wsm, Wbg. destruct (2 * v <? C); lia. }
  rewrite Hw. rewrite Hv in Hsum.
  destruct (Z.eq_dec (zsum (map (vbg C) Q)) 0) as [Z0|Z0]; [lia|].
  assert (H : 0 < zsum (map (vbg C) Q)) by lia. specialize (B2 H). lia.
Qed.

Definition idz (v : Z) : Z := v.

Lemma lists_weight C D : 0 < D -> D <= C -> forall T : list (list Z),
  Forall (fun v => 0 <= v) (concat T) -> Forall (fun x => C <= x) (tsums idz T) ->
  Z.of_nat (length T) * (2 * D) <= zsum (map (W C D) (concat T)).
Proof.
  intros HD HDC. induction T as [|l T IH]; intros Hnn Hfull.
  - cbn. lia.
  - cbn [concat] in *. apply Forall_app in Hnn. destruct Hnn as [Hl HT].
    unfold tsums in Hfull. cbn [map] in Hfull. inversion Hfull as [|s0 ss Hs Hss]; subst s0 ss.
    specialize (IH HT Hss). rewrite map_app, zsum_app. cbn [length]. rewrite Nat2Z.inj_succ.
    assert (H : 2 * D <= zsum (map (W C D) l)).
    { apply W_valid; try assumption. unfold InExTree.vsum, idz in Hs. rewrite map_id in Hs. exact Hs. }
    lia.
Qed.

(** the optimum is bounded by the total weight *)
Lemma cover_weight_bound C D n vs : 0 < D -> D <= C -> Forall (fun v => 0 <= v) vs ->
  Coverable C vs n -> Z.of_nat n * (2 * D) <= zsum (map (W C D) vs).
Proof.
  intros HD HDC Hnn [Hn|(s & Hat & Hfull)].
  - subst n. cbn [Z.of_nat]. 
    assert (H : 0 <= zsum (map (W C D) vs)).
    { apply zsum_nonneg. rewrite Forall_map. eapply Forall_impl; [|exact Hnn].
      intros v Hv. apply W_nonneg; assumption. }
    lia.
  - rewrite <- (map_id vs) in Hat. change (fun x : Z => x) with idz in Hat.
    destruct (attainable_lists idz n vs s Hat) as (T & HL & HP & HS).
    rewrite <- HL. rewrite <- (zsum_perm _ _ (Permutation_map (W C D) HP)).
    apply lists_weight; try assumption.
    + eapply Permutation_Forall; [symmetry; exact HP|exact Hnn].
    + rewrite HS. exact Hfull.
Qed.

Section CoverRatio.
  Context {A : Type} (valueof : A -> Z).

  Notation add1 := (add_to_bin valueof true).
  Notation vsum := (InExTree.vsum valueof).

  (** total weight of a list of items *)
  Definition wsum (C D : Z) (l : list A) : Z := zsum (map (fun a => W C D (valueof a)) l).

  Lemma wsum_app C D l1 l2 : wsum C D (l1 ++ l2) = wsum C D l1 + wsum C D l2.
  Proof. unfold wsum. rewrite map_app, zsum_app. reflexivity. Qed.
  Lemma wsum_cons C D x l : wsum C D (x :: l) = W C D (valueof x) + wsum C D l.
  Proof. reflexivity. Qed.
  Lemma wsum_nil C D : wsum C D [] = 0.
  Proof. reflexivity. Qed.
  Lemma wsum_perm C D l1 l2 : Permutation l1 l2 -> wsum C D l1 = wsum C D l2.
  Proof. intros H. unfold wsum. apply zsum_perm, Permutation_map. exact H. Qed.

  Lemma vsum_app l1 l2 : vsum (l1 ++ l2) = vsum l1 + vsum l2.
  Proof. unfold InExTree.vsum. rewrite map_app, zsum_app. reflexivity. Qed.
  Lemma vsum_cons x l : vsum (x :: l) = valueof x + vsum l.
  Proof. reflexivity. Qed.

  Definition smallp (C : Z) (a : A) : Prop := 0 <= valueof a /\ 2 * valueof a < C.

  (** small items weigh at most twice their value *)
  Lemma wsum_small C D l : Forall (smallp C) l -> 0 <= vsum l /\ wsum C D l <= 2 * vsum l.
  Proof.
    induction 1 as [|a l [Ha1 Ha2] Hl IH]; [cbn; lia|].
    rewrite wsum_cons, vsum_cons. unfold W. destruct (2 * valueof a <? C) eqn:E; lia.
  Qed.

  (** with D = C the weight is twice the capped value *)
  Lemma wsum_C C l : 0 < C -> Forall (fun a => 0 <= valueof a) l -> wsum C C l <= 2 * vsum l.
  Proof.
    intros HC. induction 1 as [|a l Ha Hl IH]; [cbn; lia|].
    rewrite wsum_cons, vsum_cons. unfold W. destruct (2 * valueof a <? C) eqn:E; lia.
  Qed.

  (** ---- second phase: only items in [C/2, X] remain, X < C, D = 2 (C - X) ---- *)
  Definition midp (C X : Z) (a : A) : Prop := C <= 2 * valueof a /\ valueof a <= X.

  Lemma W_mid C X v : X < C -> C <= 2 * v -> v <= X -> W C (2 * (C - X)) v = 2 * (C - X).
  Proof. intros HX H1 H2. unfold W. destruct (2 * v <? C) eqn:E; lia. Qed.

  Definition pair_shape (C X : Z) (fresh : bool) (cur : bin A) : Prop :=
    if fresh then cur = empty_bin
    else exists a, fst cur = valueof a /\ snd cur = [a] /\ midp C X a.

  Lemma tt_pairs C X : X < C -> forall fuel bs cur fresh rem,
    Forall (midp C X) rem -> pair_shape C X fresh cur ->
    exists new, fst (tt_loop valueof true fuel C (bs, cur) fresh rem) = bs ++ new /\
      Forall (fun b => wsum C (2 * (C - X)) (snd b) <= 3 * (2 * (C - X))) new /\
      wsum C (2 * (C - X)) (snd (snd (tt_loop valueof true fuel C (bs, cur) fresh rem)))
        < 2 * (2 * (C - X)).
  Proof.
    intros HX.
    assert (Hstop : forall bs cur fresh, pair_shape C X fresh cur ->
      exists new : bins A, fst (bs, cur) = bs ++ new /\
        Forall (fun b => wsum C (2 * (C - X)) (snd b) <= 3 * (2 * (C - X))) new /\
        wsum C (2 * (C - X)) (snd (snd (bs, cur))) < 2 * (2 * (C - X))).
    { intros bs cur fresh Hsh. exists []. cbn [fst snd]. rewrite app_nil_r.
      split; [reflexivity|split; [constructor|]].
      destruct fresh; cbn [pair_shape] in Hsh.
      - subst cur. unfold empty_bin. cbn [snd]. rewrite wsum_nil. lia.
      - destruct Hsh as (a & _ & Hs & Ha1 & Ha2). rewrite Hs, wsum_cons, wsum_nil.
        rewrite W_mid by assumption. lia. }
    induction fuel as [|f IH]; intros bs cur fresh rem Hrem Hsh; cbn [tt_loop].
    - apply (Hstop bs cur fresh Hsh).
    - destruct rem as [|x t]; [apply (Hstop bs cur fresh Hsh)|].
      destruct fresh; cbn [pair_shape] in Hsh.
      + subst cur. cbv zeta. cbn [fst snd]. inversion Hrem as [|x0 t0 Hx Ht]; subst x0 t0.
        destruct Hx as [Hx1 Hx2].
        destruct (fst (add1 x empty_bin) >=? C) eqn:E; [cbn in E; lia|].
        apply IH; [exact Ht|]. cbn [pair_shape]. exists x. cbn. repeat split; lia.
      + destruct Hsh as (a & Hf & Hs & Ha1 & Ha2).
        destruct (unsnoc (x :: t)) as [[r y]|] eqn:U; [|apply unsnoc_None in U; discriminate].
        apply unsnoc_Some in U. rewrite U in Hrem. apply Forall_app in Hrem.
        destruct Hrem as [Hr Hy]. inversion Hy as [|y0 t0 [Hy1 Hy2] _]; subst y0 t0.
        cbv zeta. cbn [fst snd].
        destruct (fst (add1 y cur) >=? C) eqn:E; [|cbn in E; lia].
        destruct (IH (bs ++ [add1 y cur]) empty_bin true r Hr) as (new & H1 & H2 & H3);
          [reflexivity|].
        exists (add1 y cur :: new).
        split; [transitivity ((bs ++ [add1 y cur]) ++ new);
                [exact H1|rewrite <- app_assoc; reflexivity]|].
        split; [|exact H3]. constructor; [|exact H2].
        cbn [add_to_bin snd]. rewrite Hs. cbn [app]. rewrite !wsum_cons, wsum_nil.
        rewrite !W_mid by assumption. lia.
  Qed.

  (** ---- weights of the bins closed in the first phase ---- *)

  (** an item >= C alone *)
  Lemma single_weight C D x : 0 < D -> C <= valueof x -> wsum C D [x] <= 3 * D.
  Proof.
    intros HD Hx. rewrite wsum_cons, wsum_nil. unfold W.
    destruct (2 * valueof x <? C) eqn:E; lia.
  Qed.

  (** first item x, then small items, closed by a small item y *)
  Lemma small_close_weight C D x pre y : 0 < D -> D <= C -> 0 <= valueof x ->
    Forall (smallp C) pre -> smallp C y -> valueof x + vsum pre < C ->
    (D = C \/ (C <= 2 * valueof x /\ 2 * (C - valueof x) <= D)) ->
    wsum C D (x :: pre ++ [y]) <= 3 * D.
  Proof.
    intros HD HDC Hx Hpre [Hy1 Hy2] Hlt HDx.
    rewrite wsum_cons, wsum_app, wsum_cons, wsum_nil.
    destruct (wsum_small C D pre Hpre) as [Hp0 Hp].
    assert (Hwy : W C D (valueof y) <= D).
    { unfold W. destruct (2 * valueof y <? C) eqn:E; lia. }
    assert (Hwx : W C D (valueof x) <= 2 * D - 2 * (C - valueof x)).
    { unfold W. destruct (2 * valueof x <? C) eqn:E; lia. }
    lia.
  Qed.

  (** first item x in [C/2, C), then small items, closed by an item y in [C/2, x] *)
  Lemma transition_weight C x pre y : C <= 2 * valueof y -> valueof y <= valueof x ->
    Forall (smallp C) pre -> valueof x + vsum pre < C ->
    wsum C (2 * (C - valueof x)) (x :: pre ++ [y]) <= 3 * (2 * (C - valueof x)).
  Proof.
    intros Hy1 Hy2 Hpre Hlt.
    rewrite wsum_cons, wsum_app, wsum_cons, wsum_nil.
    destruct (wsum_small C (2 * (C - valueof x)) pre Hpre) as [Hp0 Hp].
    rewrite !W_mid by lia. lia.
  Qed.

  Lemma sorted_snoc (r : list A) y :
    StronglySorted (fun a b => valueof b <= valueof a) (r ++ [y]) ->
    StronglySorted (fun a b => valueof b <= valueof a) r /\
    Forall (fun a => valueof y <= valueof a) r.
  Proof.
    induction r as [|a r IH]; cbn [app]; intros H.
    - split; constructor.
    - inversion H as [|a0 l0 Hs Hf]; subst a0 l0. destruct (IH Hs) as [I1 I2].
      apply Forall_app in Hf. destruct Hf as [Hf1 Hf2].
      inversion Hf2 as [|y0 t0 Hy _]; subst y0 t0.
      split; constructor; assumption.
  Qed.

  (** ---- the first phase ---- *)

  (** admissible parameters: C itself, or 2 (C - v) for a candidate item v in [C/2, C) *)
  Definition Dok (C : Z) (cands : list A) (D : Z) : Prop :=
    0 < D /\ D <= C /\
    (D = C \/ exists a, In a cands /\ C <= 2 * valueof a /\ valueof a < C /\ D = 2 * (C - valueof a)).

  (** the run from here adds bins [new] after [bs]; all of them weigh <= 3 D, the rest < 2 D *)
  Definition good_run (C : Z) (bs : bins A) (cands : list A) (st' : cstate (A:=A)) : Prop :=
    exists new D, fst st' = bs ++ new /\ Dok C cands D /\
      Forall (fun b => wsum C D (snd b) <= 3 * D) new /\
      wsum C D (snd (snd st')) < 2 * D.

  Lemma Dok_incl C c1 c2 D : incl c1 c2 -> Dok C c1 D -> Dok C c2 D.
  Proof.
    intros Hi (H1 & H2 & [H3|(a & Ha & H3)]); repeat split; try assumption; [left; exact H3|].
    right. exists a. split; [apply Hi; exact Ha|exact H3].
  Qed.

  Lemma good_run_incl C bs c1 c2 st' : incl c1 c2 -> good_run C bs c1 st' -> good_run C bs c2 st'.
  Proof.
    intros Hi (new & D & H1 & H2 & H3 & H4). exists new, D.
    split; [exact H1|]. split; [eapply Dok_incl; eassumption|]. split; assumption.
  Qed.

  (** a bin closed now is accounted with the parameter chosen later *)
  Lemma good_run_cons C bs b c1 c2 st' : incl c1 c2 ->
    (forall D, Dok C c1 D -> wsum C D (snd b) <= 3 * D) ->
    good_run C (bs ++ [b]) c1 st' -> good_run C bs c2 st'.
  Proof.
    intros Hi Hb (new & D & H1 & H2 & H3 & H4). exists (b :: new), D.
    split; [rewrite H1, <- app_assoc; reflexivity|].
    split; [eapply Dok_incl; eassumption|].
    split; [constructor; [apply Hb; exact H2|exact H3]|exact H4].
  Qed.

  (** the current bin: empty when fresh, otherwise a first item followed by small items *)
  Definition run_shape (C : Z) (fresh : bool) (cur : bin A) (rem : list A) : Prop :=
    fst cur = vsum (snd cur) /\ fst cur < C /\
    if fresh then snd cur = []
    else exists x pre, snd cur = x :: pre /\ 0 <= valueof x /\ Forall (smallp C) pre /\
                       Forall (fun a => valueof a <= valueof x) rem.

  Lemma smallp_nonneg C l : Forall (smallp C) l -> Forall (fun a => 0 <= valueof a) l.
  Proof. intros H. eapply Forall_impl; [|exact H]. intros a [Ha _]. exact Ha. Qed.

  Lemma run_stop C bs cur fresh rem cands : 0 < C -> run_shape C fresh cur rem ->
    good_run C bs cands (bs, cur).
  Proof.
    intros HC (Hw & Hlt & Hsh). exists [], C. cbn [fst snd]. rewrite app_nil_r.
    split; [reflexivity|]. split; [unfold Dok; repeat split; try lia; left; reflexivity|].
    split; [constructor|].
    assert (Hnn : Forall (fun a => 0 <= valueof a) (snd cur)).
    { destruct fresh.
      - rewrite Hsh. constructor.
      - destruct Hsh as (x & pre & Hs & Hx & Hpre & _). rewrite Hs.
        constructor; [exact Hx|apply (smallp_nonneg C); exact Hpre]. }
    pose proof (wsum_C C (snd cur) HC Hnn) as H. lia.
  Qed.

  Notation desc := (StronglySorted (fun a b : A => valueof b <= valueof a)).
  Notation posl := (Forall (fun a : A => 0 < valueof a)).

  Definition phase1_at (C : Z) (f : nat) : Prop := forall bs cur fresh rem,
    desc rem -> posl rem -> run_shape C fresh cur rem ->
    good_run C bs (snd cur ++ rem) (tt_loop valueof true f C (bs, cur) fresh rem).

  Lemma shape_empty C rem : 0 < C -> run_shape C true (@empty_bin A) rem.
  Proof. intros HC. unfold run_shape, empty_bin. cbn. repeat split. exact HC. Qed.

  (** a fresh bin receives the largest remaining item *)
  Lemma step_fresh C f : 0 < C -> phase1_at C f -> forall bs cur x t,
    desc (x :: t) -> posl (x :: t) -> run_shape C true cur (x :: t) ->
    good_run C bs (snd cur ++ x :: t) (tt_loop valueof true (S f) C (bs, cur) true (x :: t)).
  Proof.
    intros HC Hrec bs cur x t Hs Hp (Hw & Hlt & Hnil). cbn [tt_loop fst snd]. cbv zeta.
    inversion Hs as [|x0 t0 Hst Hxt]; subst x0 t0.
    inversion Hp as [|x0 t0 Hx Hpt]; subst x0 t0.
    assert (Hsnd : snd (add1 x cur) = [x]). { cbn [add_to_bin snd]. rewrite Hnil. reflexivity. }
    assert (Hfst : fst (add1 x cur) = valueof x).
    { cbn [add_to_bin fst]. rewrite Hw, Hnil. cbn. lia. }
    destruct (fst (add1 x cur) >=? C) eqn:E.
    - apply (good_run_cons C bs (add1 x cur) (snd (@empty_bin A) ++ t)).
      + cbn [empty_bin snd app]. intros a Ha. apply in_or_app. right. right. exact Ha.
      + intros D (HD & _). rewrite Hsnd. apply single_weight; [exact HD|lia].
      + apply Hrec; [exact Hst|exact Hpt|apply shape_empty; exact HC].
    - apply (good_run_incl C bs (snd (add1 x cur) ++ t)).
      + rewrite Hsnd, Hnil. cbn [app]. apply incl_refl.
      + apply Hrec; [exact Hst|exact Hpt|]. unfold run_shape.
        split; [rewrite Hfst, Hsnd; cbn; lia|]. split; [lia|].
        exists x, []. rewrite Hsnd. repeat split; [lia|constructor|exact Hxt].
  Qed.

  (** an open bin receives the smallest remaining item *)
  Lemma step_rest C f : 0 < C -> phase1_at C f -> forall bs cur r y,
    desc (r ++ [y]) -> posl (r ++ [y]) -> run_shape C false cur (r ++ [y]) ->
    good_run C bs (snd cur ++ r ++ [y])
      (if fst (add1 y cur) >=? C
       then tt_loop valueof true f C (bs ++ [add1 y cur], empty_bin) true r
       else tt_loop valueof true f C (bs, add1 y cur) false r).
  Proof.
    intros HC Hrec bs cur r y Hs Hp (Hw & Hlt & x & pre & Hcur & Hx & Hpre & Hle).
    destruct (sorted_snoc r y Hs) as [Hsr Hyr].
    apply Forall_app in Hp. destruct Hp as [Hpr Hpy].
    inversion Hpy as [|y0 t0 Hy _]; subst y0 t0.
    apply Forall_app in Hle. destruct Hle as [Hler Hley].
    inversion Hley as [|y0 t0 Hyx _]; subst y0 t0.
    destruct (wsum_small C C pre Hpre) as [Hpre0 _].
    assert (Hsnd : snd (add1 y cur) = x :: pre ++ [y]).
    { cbn [add_to_bin snd]. rewrite Hcur. reflexivity. }
    assert (Hfst : fst (add1 y cur) = valueof x + vsum pre + valueof y).
    { cbn [add_to_bin fst]. rewrite Hw, Hcur, vsum_cons. lia. }
    rewrite Hw, Hcur, vsum_cons in Hlt.
    destruct (fst (add1 y cur) >=? C) eqn:E.
    - destruct (2 * valueof y <? C) eqn:Ey.
      + (* closed by a small item *)
        apply (good_run_cons C bs (add1 y cur) (snd (@empty_bin A) ++ r)).
        * cbn [empty_bin snd app]. intros a Ha. apply in_or_app. right.
          apply in_or_app. left. exact Ha.
        * intros D (HD & HDC & HDx). rewrite Hsnd.
          apply small_close_weight; try assumption; [split; lia|].
          destruct HDx as [HDx|(a & Ha & Ha1 & Ha2 & HDa)]; [left; exact HDx|right].
          cbn [empty_bin snd app] in Ha. rewrite Forall_forall in Hler.
          specialize (Hler a Ha). cbv beta in Hler. lia.
        * apply Hrec; [exact Hsr|exact Hpr|apply shape_empty; exact HC].
      + (* closed by an item >= C/2: from now on pairs *)
        destruct (tt_pairs C (valueof x) ltac:(lia) f (bs ++ [add1 y cur]) empty_bin true r)
          as (new & H1 & H2 & H3).
        * rewrite Forall_forall in Hler, Hyr |- *. intros a Ha.
          specialize (Hler a Ha). specialize (Hyr a Ha). cbv beta in Hler, Hyr.
          unfold midp. lia.
        * reflexivity.
        * exists (add1 y cur :: new), (2 * (C - valueof x)).
          split; [transitivity ((bs ++ [add1 y cur]) ++ new);
                  [exact H1|rewrite <- app_assoc; reflexivity]|].
          split; [|split; [constructor; [|exact H2]|exact H3]].
          -- unfold Dok. split; [lia|]. split; [lia|]. right. exists x.
             split; [rewrite Hcur; left; reflexivity|]. lia.
          -- rewrite Hsnd. apply transition_weight; try assumption; lia.
    - apply (good_run_incl C bs (snd (add1 y cur) ++ r)).
      + rewrite Hsnd, Hcur. intros a Ha. cbn [app] in Ha |- *.
        destruct Ha as [Ha|Ha]; [left; exact Ha|right].
        rewrite <- app_assoc in Ha. apply in_app_or in Ha. apply in_or_app.
        destruct Ha as [Ha|Ha]; [left; exact Ha|right].
        apply in_app_or in Ha. apply in_or_app. destruct Ha as [Ha|Ha]; [right|left]; exact Ha.
      + apply Hrec; [exact Hsr|exact Hpr|]. unfold run_shape.
        split; [rewrite Hfst, Hsnd, vsum_cons, vsum_app; cbn; lia|]. split; [lia|].
        exists x, (pre ++ [y]). rewrite Hsnd. split; [reflexivity|]. split; [exact Hx|].
        split; [|exact Hler]. apply Forall_app. split; [exact Hpre|].
        constructor; [|constructor]. split; lia.
  Qed.

  Lemma phase1 C : 0 < C -> forall f, phase1_at C f.
  Proof.
    intros HC. induction f as [|f IH]; intros bs cur fresh rem Hs Hp Hsh.
    - cbn [tt_loop]. eapply run_stop; eassumption.
    - destruct rem as [|x t]; [cbn [tt_loop]; eapply run_stop; eassumption|].
      destruct fresh; [apply step_fresh; assumption|].
      cbn [tt_loop]. destruct (unsnoc (x :: t)) as [[r y]|] eqn:U;
        [|apply unsnoc_None in U; discriminate].
      apply unsnoc_Some in U. rewrite U in Hs, Hp, Hsh |- *. cbv zeta. cbn [fst snd].
      apply step_rest; assumption.
  Qed.

  (** ---- the whole run: some parameter D accounts for every closed bin ---- *)
  Lemma tt_weights C items : 0 < C -> Forall (fun a => 0 < valueof a) items ->
    exists D rest, 0 < D /\ D <= C /\
      Permutation (contents (cover_twothirds valueof true C items) ++ rest) items /\
      Forall (fun b => wsum C D (snd b) <= 3 * D) (cover_twothirds valueof true C items) /\
      wsum C D rest < 2 * D.
  Proof.
    intros HC Hpos. unfold cover_twothirds.
    set (st := tt_loop valueof true (length items) C ([], empty_bin) true (sort_desc valueof items)).
    assert (Hinv : cinv valueof C items st []).
    { subst st. apply tt_loop_inv; [exact HC| |rewrite sort_desc_length; lia].
      apply cinv_init; [exact HC|apply sort_desc_perm]. }
    destruct Hinv as (_ & _ & _ & _ & HP). rewrite app_nil_r in HP.
    assert (Hrun : good_run C [] (snd (@empty_bin A) ++ sort_desc valueof items) st).
    { subst st. apply phase1; [exact HC|apply sort_desc_sorted| |apply shape_empty; exact HC].
      eapply Permutation_Forall; [symmetry; apply sort_desc_perm|exact Hpos]. }
    destruct Hrun as (new & D & H1 & (HD & HDC & _) & H3 & H4). cbn [app] in H1.
    exists D, (snd (snd st)). rewrite H1. repeat split; try assumption.
    rewrite <- H1. exact HP.
  Qed.

  Lemma wsum_contents C D (b : bins A) :
    Forall (fun bn => wsum C D (snd bn) <= 3 * D) b ->
    wsum C D (contents b) <= 3 * D * Z.of_nat (length b).
  Proof.
    induction 1 as [|c t Hc Ht IH].
    - cbn. lia.
    - change (contents (c :: t)) with (snd c ++ contents t). rewrite wsum_app.
      cbn [length]. rewrite Nat2Z.inj_succ. lia.
  Qed.

  (** C10: twothirds fills at least 2/3 of (OPT - 1) bins.
      In fact 2 * OPT <= 3 * bins + 1. *)
  Theorem twothirds_ratio_strong : forall C items n, 0 < C ->
    Forall (fun x => 0 < valueof x) items -> MaxCover C (map valueof items) n ->
    (2 * n <= 3 * length (cover_twothirds valueof true C items) + 1)%nat.
  Proof.
    intros C items n HC Hpos [Hcov _].
    destruct (tt_weights C items HC Hpos) as (D & rest & HD & HDC & HP & Hb & Hr).
    assert (Hopt : Z.of_nat n * (2 * D) <= wsum C D items).
    { unfold wsum. rewrite <- (map_map valueof (W C D)).
      apply cover_weight_bound; try assumption.
      rewrite Forall_map. eapply Forall_impl; [|exact Hpos]. cbv beta. intros x Hx. lia. }
    rewrite <- (wsum_perm C D _ _ HP), wsum_app in Hopt.
    pose proof (wsum_contents C D _ Hb) as Hc.
    set (m := length (cover_twothirds valueof true C items)) in *.
    assert (Hlt : (2 * Z.of_nat n) * D < (3 * Z.of_nat m + 2) * D) by lia.
    apply Z.mul_lt_mono_pos_r in Hlt; [lia|exact HD].
  Qed.

  Theorem twothirds_ratio : forall C items n, 0 < C ->
    Forall (fun x => 0 < valueof x) items -> MaxCover C (map valueof items) n ->
    (2 * (n - 1) <= 3 * length (cover_twothirds valueof true C items))%nat.
  Proof.
    intros C items n HC Hpos Hmax.
    pose proof (twothirds_ratio_strong C items n HC Hpos Hmax). lia.
  Qed.
End CoverRatio.

(** ---- the guarantee against the executable oracle, and examples ---- *)
From Prtpy Require Import Oracle.Reach Proofs.OracleSpec.

Corollary twothirds_ratio_oracle : forall C vs, 0 < C -> Forall (fun v => 0 < v) vs ->
  (2 * (max_cover C vs - 1) <= 3 * length (cover_twothirds idz true C vs))%nat.
Proof.
  intros C vs HC Hpos. apply (twothirds_ratio idz C vs (max_cover C vs) HC Hpos).
  change (map idz vs) with (map (fun v : Z => v) vs). rewrite map_id.
  apply max_cover_spec; assumption.
Qed.

(** the strong form 2 * OPT <= 3 * bins + 1 is attained: OPT = 2 ([5;5;2] twice), one bin filled *)
Example twothirds_ratio_tight :
  max_cover 12 [5; 5; 5; 5; 2; 2] = 2%nat /\
  cover_twothirds idz true 12 [5; 5; 5; 5; 2; 2] = [(14, [5; 2; 2; 5])].
Proof. vm_compute. split; reflexivity. Qed.

(** small items only: OPT = 3 ([9;9;1;1] three times), two bins filled *)
Example twothirds_ratio_small :
  max_cover 20 [9; 9; 9; 9; 9; 9; 1; 1; 1; 1; 1; 1] = 3%nat /\
  cover_twothirds idz true 20 [9; 9; 9; 9; 9; 9; 1; 1; 1; 1; 1; 1] =
    [(24, [9; 1; 1; 1; 1; 1; 1; 9]); (27, [9; 9; 9])].
Proof. vm_compute. split; reflexivity. Qed.

(** a run of the second kind (the second bin is closed by 10 >= C/2 taken from the small end,
    so the analysis uses D = 2 * (20 - 12) = 16) *)
Example twothirds_ratio_pairs :
  max_cover 20 [13; 12; 11; 11; 10; 3; 3; 2] = 3%nat /\
  cover_twothirds idz true 20 [13; 12; 11; 11; 10; 3; 3; 2] =
    [(21, [13; 2; 3; 3]); (22, [12; 10]); (22, [11; 11])].
Proof. vm_compute. split; reflexivity. Qed.

(** the docstring instance (scaled by 1/10): twothirds fills 3 bins, which is optimal here *)
Example twothirds_ratio_docstring :
  let vs := [94; 49; 49; 49; 49; 49; 49; 1; 1; 1; 1; 1; 1] in
  (max_cover 100 vs, length (cover_twothirds idz true 100 vs)) = (3%nat, 3%nat).
Proof. vm_compute. reflexivity. Qed.

Print Assumptions twothirds_ratio.
Print Assumptions twothirds_ratio_strong.
Print Assumptions twothirds_ratio_oracle.
