(** The traced bin completion returns exactly what bin_completion returns. *)
From Prtpy Require Import Base.Prelude Model.Binner Model.Packing Model.BinCompletion Model.BinCompletionTrace.

Section P.
  Variable keep : bool.
  Variable C : Z.

  Lemma bc_inner_tr_fst : forall fuel bestn items b newbr tr,
    fst (bc_inner_tr keep C fuel bestn items b newbr tr) = bc_inner keep C fuel bestn items b newbr.
  Proof.
    induction fuel as [|f IH]; intros bestn items b newbr tr; [reflexivity|].
    cbn [bc_inner_tr bc_inner]. destruct items as [|x updated]; [reflexivity|].
    destruct (find_bin_completions x updated C) as [|c0 others].
    - cbv zeta. destruct (plb_ge C _ _ _); [reflexivity|]. apply IH.
    - cbv zeta. destruct (plb_ge C _ _ _); [reflexivity|]. apply IH.
  Qed.

  Lemma bc_outer_tr_fst : forall fuel lb queue best tr,
    fst (bc_outer_tr keep C fuel lb queue best tr) = bc_outer keep C fuel lb queue best.
  Proof.
    induction fuel as [|f IH]; intros lb queue best tr; [reflexivity|].
    cbn [bc_outer_tr bc_outer]. destruct queue as [|cb q]; [reflexivity|].
    pose proof (bc_inner_tr_fst (length (br_items cb)) (length best) (br_items cb) (br_bins cb) [] tr) as E.
    destruct (bc_inner_tr keep C (length (br_items cb)) (length best) (br_items cb) (br_bins cb) [] tr) as [[[i1 b1] n1] t1].
    cbn [fst] in E. rewrite <- E.
    destruct (Z.of_nat (length _) =? lb); [reflexivity|]. apply IH.
  Qed.

  Theorem bc_tr_result : forall fuel items, fst (bin_completion_tr keep C fuel items) = bin_completion keep C fuel items.
  Proof.
    intros fuel items. unfold bin_completion_tr, bin_completion.
    destruct (existsb _ items); [reflexivity|].
    destruct (best_fit_decreasing zid keep C _) as [bfd|e]; [|reflexivity].
    destruct (Z.of_nat (length bfd) =? _); [reflexivity|]. apply bc_outer_tr_fst.
  Qed.
End P.

Print Assumptions bc_tr_result.
