(** Properties of the bin-completion model (Model/BinCompletion.v):
    C19 (refusal), soundness of the completion generator, C03 (feasible packing of exactly
    the non-zero items, no empty bin), C04 partial (never worse than best-fit-decreasing,
    never below the optimum, optimal when the volume bound is met; full optimality is
    refuted by a witness), C06 (sums-only run). *)
From Prtpy Require Import Base.Prelude Model.Binner Model.Packing Model.CG Model.BinCompletion
  Spec.Partition Proofs.BaseLemmas Proofs.BinnerLemmas Proofs.PackingProofs Proofs.CoveringProofs.
From Coq Require Import ZifyBool.

(** ---- 0. list utilities: remove_first, list_without, sub_multiset ---- *)

Lemma bc_existsb_eqb_In x l : existsb (Z.eqb x) l = true <-> In x l.
Proof.
  rewrite existsb_exists. split.
  - intros (y & Hy & E). apply Z.eqb_eq in E. subst y. exact Hy.
  - intros H. exists x. split; [exact H|apply Z.eqb_refl].
Qed.

Lemma remove_first_perm x l : In x l -> Permutation (x :: remove_first x l) l.
Proof.
  induction l as [|y t IH]; intros H; [destruct H|]. cbn [remove_first].
  destruct (x =? y) eqn:E.
  - apply Z.eqb_eq in E. subst y. apply Permutation_refl.
  - destruct H as [H|H]; [lia|]. apply Permutation_trans with (y :: x :: remove_first x t).
    + apply perm_swap.
    + apply perm_skip. apply IH. exact H.
Qed.

Lemma remove_first_notin x l : ~ In x l -> remove_first x l = l.
Proof.
  induction l as [|y t IH]; intros H; [reflexivity|]. cbn [remove_first].
  destruct (x =? y) eqn:E.
  - exfalso. apply H. left. lia.
  - rewrite IH; [reflexivity|]. intros Hin. apply H. right. exact Hin.
Qed.

Lemma list_without_cons l x t : list_without l (x :: t) = list_without (remove_first x l) t.
Proof. reflexivity. Qed.

Lemma list_without_nil l : list_without l [] = l.
Proof. reflexivity. Qed.

(** specification of [sub_multiset] *)
Theorem sub_multiset_spec c : forall l,
  sub_multiset c l = true <-> exists rest, Permutation (c ++ rest) l.
Proof.
  induction c as [|x t IH]; intros l; cbn [sub_multiset].
  - split; [|reflexivity]. intros _. exists l. apply Permutation_refl.
  - destruct (existsb (Z.eqb x) l) eqn:E.
    + apply bc_existsb_eqb_In in E. rewrite IH. split.
      * intros (rest & HP). exists rest. cbn [app].
        apply Permutation_trans with (x :: remove_first x l); [apply perm_skip; exact HP|].
        apply remove_first_perm. exact E.
      * intros (rest & HP). exists rest. cbn [app] in HP.
        apply (Permutation_cons_inv (a := x)).
        apply Permutation_trans with l; [exact HP|].
        apply Permutation_sym, remove_first_perm. exact E.
    + split; [intros H; discriminate H|]. intros (rest & HP). exfalso.
      assert (Hin : In x l) by (eapply Permutation_in; [exact HP|left; reflexivity]).
      apply bc_existsb_eqb_In in Hin. congruence.
Qed.

(** removing a sub-multiset removes exactly its elements *)
Lemma list_without_perm c : forall l,
  sub_multiset c l = true -> Permutation (c ++ list_without l c) l.
Proof.
  induction c as [|x t IH]; intros l; cbn [sub_multiset].
  - intros _. apply Permutation_refl.
  - destruct (existsb (Z.eqb x) l) eqn:E; [|intros H; discriminate H].
    apply bc_existsb_eqb_In in E. intros H. rewrite list_without_cons. cbn [app].
    apply Permutation_trans with (x :: remove_first x l); [apply perm_skip; apply IH; exact H|].
    apply remove_first_perm. exact E.
Qed.

Lemma sub_multiset_of_perm c rest l : Permutation (c ++ rest) l -> sub_multiset c l = true.
Proof. intros H. apply sub_multiset_spec. exists rest. exact H. Qed.

Lemma sub_multiset_perm_l c c' l :
  Permutation c c' -> sub_multiset c l = true -> sub_multiset c' l = true.
Proof.
  intros HP H. apply sub_multiset_spec in H. destruct H as (rest & H).
  apply (sub_multiset_of_perm c' rest). apply Permutation_trans with (c ++ rest); [|exact H].
  apply Permutation_app_tail. apply Permutation_sym. exact HP.
Qed.

(** ---- 1. the parts of the completion generator ---- *)

(** position-combinations are sub-multisets *)
Lemma combos_sub : forall l i c, In c (combos i l) -> exists rest, Permutation (c ++ rest) l.
Proof.
  induction l as [|x t IH]; intros i c H.
  - destruct i as [|j]; cbn [combos] in H.
    + destruct H as [H|H]; [|destruct H]. subst c. exists []. apply Permutation_refl.
    + destruct H.
  - destruct i as [|j]; cbn [combos] in H.
    + destruct H as [H|H]; [|destruct H]. subst c. exists (x :: t). apply Permutation_refl.
    + apply in_app_or in H. destruct H as [H|H].
      * apply in_map_iff in H. destruct H as (c' & E & H). subst c.
        destruct (IH j c' H) as (rest & HP). exists rest. cbn [app]. apply perm_skip. exact HP.
      * destruct (IH (S j) c H) as (rest & HP). exists (x :: rest).
        apply Permutation_trans with (x :: c ++ rest); [apply Permutation_sym, Permutation_middle|].
        apply perm_skip. exact HP.
Qed.

(** undominated pairs: two distinct positions of the list, fitting next to [const] *)
Lemma undominated_pairs_spec const y C : forall fuel l p,
  In p (undominated_pairs fuel const y C l) ->
  exists a b rest, p = [a; b] /\ Permutation (a :: b :: rest) l /\ const + a + b <= C.
Proof.
  induction fuel as [|f IH]; intros l p H; cbn [undominated_pairs] in H; [destruct H|].
  destruct l as [|a t]; [destruct H|].
  destruct (unsnoc t) as [[mid b]|] eqn:U; [|destruct H].
  apply unsnoc_Some in U. subst t.
  destruct (C <? const + (a + b)) eqn:E1.
  - destruct (IH _ _ H) as (a' & b' & rest & Ep & HP & Hc).
    exists a', b', (a :: rest). repeat split; [exact Ep| |exact Hc].
    apply Permutation_trans with (a :: a' :: b' :: rest); [perm_solve|].
    apply perm_skip. exact HP.
  - destruct (a + b <=? y) eqn:E2.
    + destruct (IH _ _ H) as (a' & b' & rest & Ep & HP & Hc).
      exists a', b', (rest ++ [b]). repeat split; [exact Ep| |exact Hc].
      change (a :: mid ++ [b]) with ((a :: mid) ++ [b]).
      change (a' :: b' :: rest ++ [b]) with ((a' :: b' :: rest) ++ [b]).
      apply Permutation_app_tail. exact HP.
    + destruct H as [H|H].
      * subst p. exists a, b, mid. repeat split; [perm_solve|lia].
      * destruct (IH _ _ H) as (a' & b' & rest & Ep & HP & Hc).
        exists a', b', (a :: rest ++ [b]). repeat split; [exact Ep| |exact Hc].
        apply Permutation_trans with (a :: (a' :: b' :: rest) ++ [b]); [perm_solve|].
        apply perm_skip. apply Permutation_app_tail. exact HP.
Qed.

(** the largest fitting element: an element of the list unless 0 *)
Lemma first_fitting_spec x C items :
  first_fitting x C items <> 0 ->
  In (first_fitting x C items) items /\ x + first_fitting x C items <= C.
Proof.
  induction items as [|i t IH]; cbn [first_fitting]; intros H; [congruence|].
  destruct (x + i <=? C) eqn:E.
  - split; [left; reflexivity|lia].
  - destruct (IH H) as [H1 H2]. split; [right; exact H1|exact H2].
Qed.

(** the selection steps only select *)
Lemma zlist_eqb_eq : forall x y, zlist_eqb x y = true -> x = y.
Proof.
  induction x as [|a x IHx]; intros [|b y] H; cbn [zlist_eqb] in H;
    try discriminate H; [reflexivity|].
  apply andb_true_iff in H. destruct H as [H1 H2]. apply Z.eqb_eq in H1. subst b.
  rewrite (IHx y H2). reflexivity.
Qed.

Lemma mem_list_In x l : mem_list x l = true -> In x l.
Proof.
  induction l as [|y t IH]; cbn [mem_list]; intros H; [discriminate H|].
  apply orb_true_iff in H. destruct H as [H|H]; [|right; apply IH; exact H].
  left. symmetry. apply zlist_eqb_eq. exact H.
Qed.

Lemma unique_list_aux_In c : forall l seen, In c (unique_list_aux l seen) -> In c l.
Proof.
  induction l as [|x t IH]; intros seen H; cbn [unique_list_aux] in H; [destruct H|].
  destruct (mem_list x seen).
  - right. apply (IH seen). exact H.
  - destruct H as [H|H]; [left; exact H|right; apply (IH (x :: seen)); exact H].
Qed.

Lemma unique_list_In c l : In c (unique_list l) -> In c l.
Proof. apply unique_list_aux_In. Qed.

Lemma remove_first_list_In c d : forall l, In c (remove_first_list d l) -> In c l.
Proof.
  induction l as [|y t IH]; cbn [remove_first_list]; intros H; [destruct H|].
  destruct (zlist_eqb d y).
  - right. exact H.
  - destruct H as [H|H]; [left; exact H|right; apply IH; exact H].
Qed.

Lemma fold_remove_first_list_In c ds : forall l,
  In c (fold_left (fun acc d => remove_first_list d acc) ds l) -> In c l.
Proof.
  induction ds as [|d ds IH]; intros l H; cbn [fold_left] in H; [exact H|].
  apply (remove_first_list_In c d). apply IH. exact H.
Qed.

Lemma check_for_dominance_In c l : In c (check_for_dominance l) -> In c l.
Proof.
  unfold check_for_dominance. destruct l as [|a [|b t]]; intros H; try exact H.
  apply (Permutation_in _ (sort_desc_perm zsum _)) in H.
  apply fold_remove_first_list_In in H. exact H.
Qed.

(** completions built from one feasible position-combination [fc] *)
Lemma completions_for_fc_sound x y C items fc c :
  (exists rest, Permutation (fc ++ rest) items) -> x + zsum fc <= C ->
  In c (completions_for_fc x y C items fc) ->
  sub_multiset c items = true /\ x + zsum c <= C.
Proof.
  intros Hsub Hfit H. unfold completions_for_fc in H.
  assert (Hfc : sub_multiset fc items = true) by (apply sub_multiset_spec; exact Hsub).
  destruct (undominated_pairs (length (list_without items fc)) (x + zsum fc) y C (list_without items fc))
    as [|p0 ps] eqn:E.
  - destruct fc as [|f0 ft]; [destruct H|]. destruct H as [H|H]; [|destruct H]. subst c.
    split; [exact Hfc|exact Hfit].
  - assert (Hin : In c (map (fun p => sort_desc zid (p ++ fc)) (p0 :: ps))).
    { apply in_app_or in H. destruct H as [H|H]; exact H. }
    apply in_map_iff in Hin. destruct Hin as (p & Ec & Hp). subst c. rewrite <- E in Hp.
    apply undominated_pairs_spec in Hp. destruct Hp as (a & b & rest & Ep & HP & Hc). subst p.
    pose proof (list_without_perm fc items Hfc) as HL.
    split.
    + apply (sub_multiset_perm_l ([a; b] ++ fc)); [apply Permutation_sym, sort_desc_perm|].
      apply (sub_multiset_of_perm _ rest).
      apply Permutation_trans with (fc ++ a :: b :: rest); [perm_solve|].
      apply Permutation_trans with (fc ++ list_without items fc); [|exact HL].
      apply Permutation_app_head. exact HP.
    + rewrite (zsum_perm _ _ (sort_desc_perm zid ([a; b] ++ fc))). rewrite zsum_app.
      unfold zsum at 1. cbn [fold_right]. lia.
Qed.

(** ---- 2. every completion is a sub-multiset of the remaining items that fits ---- *)
Theorem find_bin_completions_sound_gen : forall x items C c,
  In c (find_bin_completions x items C) ->
  sub_multiset c items = true /\ x + zsum c <= C.
Proof.
  intros x items C c H. unfold find_bin_completions in H.
  destruct items as [|i0 it] eqn:Ei; [destruct H|]. rewrite <- Ei in *.
  destruct (first_fitting x C items =? 0) eqn:Ey; [destruct H|].
  apply check_for_dominance_In, unique_list_In in H.
  apply (Permutation_in _ (sort_desc_perm zsum _)) in H.
  destruct H as [H|H].
  - subst c. destruct (first_fitting_spec x C items) as [H1 H2]; [lia|]. split.
    + cbn [sub_multiset]. apply bc_existsb_eqb_In in H1. rewrite H1. reflexivity.
    + unfold zsum. cbn [fold_right]. lia.
  - apply in_flat_map in H. destruct H as (i & _ & H).
    apply in_flat_map in H. destruct H as (fc & Hfc & H).
    apply filter_In in Hfc. destruct Hfc as [Hfc Hfit].
    apply (completions_for_fc_sound x (first_fitting x C items) C items fc c); [|lia|exact H].
    apply (combos_sub items i). exact Hfc.
Qed.

Theorem find_bin_completions_sound : forall x items C c,
  Forall (fun v => 0 < v) items -> In c (find_bin_completions x items C) ->
  sub_multiset c items = true /\ x + zsum c <= C.
Proof. intros x items C c _. apply find_bin_completions_sound_gen. Qed.
