(** Properties of the bin-completion model (Model/BinCompletion.v):
    C19 (refusal), soundness of the completion generator, C03 (feasible packing of exactly
    the non-zero items, no empty bin), C04 partial (never worse than best-fit-decreasing,
    never below the optimum, optimal when the volume bound is met; full optimality is
    proved in Proofs/BCOptimalProofs.v: bc_optimal), C06 (sums-only run). *)
From Prtpy Require Import Base.Prelude Model.Binner Model.Packing Model.CG Model.BinCompletion
  Spec.Partition Proofs.BaseLemmas Proofs.BinnerLemmas Proofs.PackingProofs Proofs.CoveringProofs.
From Coq Require Import ZifyBool.

(** ---- 0. list utilities: remove_first, list_without, sub_multiset ---- *)

Lemma bc_existsb_eqb_In x l : existsb (Z.eqb x) l = true <-> In x l.
Proof.
  rewrite existsb_exists. split.
  - intros (y & Hy & E). apply Z.eqb_eq in E. subst y. exact Hy.
  - intros H. exists x. split; [exact H|apply Z.eqb_refl].
Qed.

Lemma remove_first_perm x l : In x l -> Permutation (x :: remove_first x l) l.
Proof.
  induction l as [|y t IH]; intros H; [destruct H|]. cbn [remove_first].
  destruct (x =? y) eqn:E.
  - apply Z.eqb_eq in E. subst y. apply Permutation_refl.
  - destruct H as [H|H]; [lia|]. apply Permutation_trans with (y :: x :: remove_first x t).
    + apply perm_swap.
    + apply perm_skip. apply IH. exact H.
Qed.

Lemma remove_first_notin x l : ~ In x l -> remove_first x l = l.
Proof.
  induction l as [|y t IH]; intros H; [reflexivity|]. cbn [remove_first].
  destruct (x =? y) eqn:E.
  - exfalso. apply H. left. lia.
  - rewrite IH; [reflexivity|]. intros Hin. apply H. right. exact Hin.
Qed.

Lemma list_without_cons l x t : list_without l (x :: t) = list_without (remove_first x l) t.
Proof. reflexivity. Qed.

Lemma list_without_nil l : list_without l [] = l.
Proof. reflexivity. Qed.

(** specification of [sub_multiset] *)
Theorem sub_multiset_spec c : forall l,
  sub_multiset c l = true <-> exists rest, Permutation (c ++ rest) l.
Proof.
  induction c as [|x t IH]; intros l; cbn [sub_multiset].
  - split; [|reflexivity]. intros _. exists l. apply Permutation_refl.
  - destruct (existsb (Z.eqb x) l) eqn:E.
    + apply bc_existsb_eqb_In in E. rewrite IH. split.
      * intros (rest & HP). exists rest. cbn [app].
        apply Permutation_trans with (x :: remove_first x l); [apply perm_skip; exact HP|].
        apply remove_first_perm. exact E.
      * intros (rest & HP). exists rest. cbn [app] in HP.
        apply (Permutation_cons_inv (a := x)).
        apply Permutation_trans with l; [exact HP|].
        apply Permutation_sym, remove_first_perm. exact E.
    + split; [intros H; discriminate H|]. intros (rest & HP). exfalso.
      assert (Hin : In x l) by (eapply Permutation_in; [exact HP|left; reflexivity]).
      apply bc_existsb_eqb_In in Hin. congruence.
Qed.

(** removing a sub-multiset removes exactly its elements *)
Lemma list_without_perm c : forall l,
  sub_multiset c l = true -> Permutation (c ++ list_without l c) l.
Proof.
  induction c as [|x t IH]; intros l; cbn [sub_multiset].
  - intros _. apply Permutation_refl.
  - destruct (existsb (Z.eqb x) l) eqn:E; [|intros H; discriminate H].
    apply bc_existsb_eqb_In in E. intros H. rewrite list_without_cons. cbn [app].
    apply Permutation_trans with (x :: remove_first x l); [apply perm_skip; apply IH; exact H|].
    apply remove_first_perm. exact E.
Qed.

Lemma sub_multiset_of_perm c rest l : Permutation (c ++ rest) l -> sub_multiset c l = true.
Proof. intros H. apply sub_multiset_spec. exists rest. exact H. Qed.

Lemma sub_multiset_perm_l c c' l :
  Permutation c c' -> sub_multiset c l = true -> sub_multiset c' l = true.
Proof.
  intros HP H. apply sub_multiset_spec in H. destruct H as (rest & H).
  apply (sub_multiset_of_perm c' rest). apply Permutation_trans with (c ++ rest); [|exact H].
  apply Permutation_app_tail. apply Permutation_sym. exact HP.
Qed.

(** ---- 1. the parts of the completion generator ---- *)

(** position-combinations are sub-multisets *)
Lemma combos_sub : forall l i c, In c (combos i l) -> exists rest, Permutation (c ++ rest) l.
Proof.
  induction l as [|x t IH]; intros i c H.
  - destruct i as [|j]; cbn [combos] in H.
    + destruct H as [H|H]; [|destruct H]. subst c. exists []. apply Permutation_refl.
    + destruct H.
  - destruct i as [|j]; cbn [combos] in H.
    + destruct H as [H|H]; [|destruct H]. subst c. exists (x :: t). apply Permutation_refl.
    + apply in_app_or in H. destruct H as [H|H].
      * apply in_map_iff in H. destruct H as (c' & E & H). subst c.
        destruct (IH j c' H) as (rest & HP). exists rest. cbn [app]. apply perm_skip. exact HP.
      * destruct (IH (S j) c H) as (rest & HP). exists (x :: rest).
        apply Permutation_trans with (x :: c ++ rest); [apply Permutation_sym, Permutation_middle|].
        apply perm_skip. exact HP.
Qed.

(** undominated pairs: two distinct positions of the list, fitting next to [const] *)
Lemma undominated_pairs_spec const y C : forall fuel l p,
  In p (undominated_pairs fuel const y C l) ->
  exists a b rest, p = [a; b] /\ Permutation (a :: b :: rest) l /\ const + a + b <= C.
Proof.
  induction fuel as [|f IH]; intros l p H; cbn [undominated_pairs] in H; [destruct H|].
  destruct l as [|a t]; [destruct H|].
  destruct (unsnoc t) as [[mid b]|] eqn:U; [|destruct H].
  apply unsnoc_Some in U. subst t.
  destruct (C <? const + (a + b)) eqn:E1.
  - destruct (IH _ _ H) as (a' & b' & rest & Ep & HP & Hc).
    exists a', b', (a :: rest). repeat split; [exact Ep| |exact Hc].
    apply Permutation_trans with (a :: a' :: b' :: rest); [perm_solve|].
    apply perm_skip. exact HP.
  - destruct (a + b <=? y) eqn:E2.
    + destruct (IH _ _ H) as (a' & b' & rest & Ep & HP & Hc).
      exists a', b', (rest ++ [b]). repeat split; [exact Ep| |exact Hc].
      change (a :: mid ++ [b]) with ((a :: mid) ++ [b]).
      change (a' :: b' :: rest ++ [b]) with ((a' :: b' :: rest) ++ [b]).
      apply Permutation_app_tail. exact HP.
    + destruct H as [H|H].
      * subst p. exists a, b, mid. repeat split; [perm_solve|lia].
      * destruct (IH _ _ H) as (a' & b' & rest & Ep & HP & Hc).
        exists a', b', (a :: rest ++ [b]). repeat split; [exact Ep| |exact Hc].
        apply Permutation_trans with (a :: (a' :: b' :: rest) ++ [b]); [perm_solve|].
        apply perm_skip. apply Permutation_app_tail. exact HP.
Qed.

(** the largest fitting element: an element of the list unless 0 *)
Lemma first_fitting_spec x C items :
  first_fitting x C items <> 0 ->
  In (first_fitting x C items) items /\ x + first_fitting x C items <= C.
Proof.
  induction items as [|i t IH]; cbn [first_fitting]; intros H; [congruence|].
  destruct (x + i <=? C) eqn:E.
  - split; [left; reflexivity|lia].
  - destruct (IH H) as [H1 H2]. split; [right; exact H1|exact H2].
Qed.

(** the selection steps only select *)
Lemma zlist_eqb_eq : forall x y, zlist_eqb x y = true -> x = y.
Proof.
  induction x as [|a x IHx]; intros [|b y] H; cbn [zlist_eqb] in H;
    try discriminate H; [reflexivity|].
  apply andb_true_iff in H. destruct H as [H1 H2]. apply Z.eqb_eq in H1. subst b.
  rewrite (IHx y H2). reflexivity.
Qed.

Lemma mem_list_In x l : mem_list x l = true -> In x l.
Proof.
  induction l as [|y t IH]; cbn [mem_list]; intros H; [discriminate H|].
  apply orb_true_iff in H. destruct H as [H|H]; [|right; apply IH; exact H].
  left. symmetry. apply zlist_eqb_eq. exact H.
Qed.

Lemma unique_list_aux_In c : forall l seen, In c (unique_list_aux l seen) -> In c l.
Proof.
  induction l as [|x t IH]; intros seen H; cbn [unique_list_aux] in H; [destruct H|].
  destruct (mem_list x seen).
  - right. apply (IH seen). exact H.
  - destruct H as [H|H]; [left; exact H|right; apply (IH (x :: seen)); exact H].
Qed.

Lemma unique_list_In c l : In c (unique_list l) -> In c l.
Proof. apply unique_list_aux_In. Qed.

Lemma remove_first_list_In c d : forall l, In c (remove_first_list d l) -> In c l.
Proof.
  induction l as [|y t IH]; cbn [remove_first_list]; intros H; [destruct H|].
  destruct (zlist_eqb d y).
  - right. exact H.
  - destruct H as [H|H]; [left; exact H|right; apply IH; exact H].
Qed.

Lemma fold_remove_first_list_In c ds : forall l,
  In c (fold_left (fun acc d => remove_first_list d acc) ds l) -> In c l.
Proof.
  induction ds as [|d ds IH]; intros l H; cbn [fold_left] in H; [exact H|].
  apply (remove_first_list_In c d). apply IH. exact H.
Qed.

Lemma check_for_dominance_In c l : In c (check_for_dominance l) -> In c l.
Proof.
  unfold check_for_dominance. destruct l as [|a [|b t]]; intros H; try exact H.
  apply (Permutation_in _ (sort_desc_perm zsum _)) in H.
  apply fold_remove_first_list_In in H. exact H.
Qed.

(** completions built from one feasible position-combination [fc] *)
Lemma completions_for_fc_sound x y C items fc c :
  (exists rest, Permutation (fc ++ rest) items) -> x + zsum fc <= C ->
  In c (completions_for_fc x y C items fc) ->
  sub_multiset c items = true /\ x + zsum c <= C.
Proof.
  intros Hsub Hfit H. unfold completions_for_fc in H.
  assert (Hfc : sub_multiset fc items = true) by (apply sub_multiset_spec; exact Hsub).
  destruct (undominated_pairs (length (list_without items fc)) (x + zsum fc) y C (list_without items fc))
    as [|p0 ps] eqn:E.
  - destruct fc as [|f0 ft]; [destruct H|]. destruct H as [H|H]; [|destruct H]. subst c.
    split; [exact Hfc|exact Hfit].
  - assert (Hin : In c (map (fun p => sort_desc zid (p ++ fc)) (p0 :: ps))).
    { apply in_app_or in H. destruct H as [H|H]; exact H. }
    apply in_map_iff in Hin. destruct Hin as (p & Ec & Hp). subst c. rewrite <- E in Hp.
    apply undominated_pairs_spec in Hp. destruct Hp as (a & b & rest & Ep & HP & Hc). subst p.
    pose proof (list_without_perm fc items Hfc) as HL.
    split.
    + apply (sub_multiset_perm_l ([a; b] ++ fc)); [apply Permutation_sym, sort_desc_perm|].
      apply (sub_multiset_of_perm _ rest).
      apply Permutation_trans with (fc ++ a :: b :: rest); [perm_solve|].
      apply Permutation_trans with (fc ++ list_without items fc); [|exact HL].
      apply Permutation_app_head. exact HP.
    + rewrite (zsum_perm _ _ (sort_desc_perm zid ([a; b] ++ fc))). rewrite zsum_app.
      unfold zsum at 1. cbn [fold_right]. lia.
Qed.

(** ---- 2. every completion is a sub-multiset of the remaining items that fits ---- *)
Theorem find_bin_completions_sound_gen : forall x items C c,
  In c (find_bin_completions x items C) ->
  sub_multiset c items = true /\ x + zsum c <= C.
Proof.
  intros x items C c H. unfold find_bin_completions in H.
  destruct items as [|i0 it] eqn:Ei; [destruct H|]. rewrite <- Ei in *.
  destruct (first_fitting x C items =? 0) eqn:Ey; [destruct H|].
  apply check_for_dominance_In, unique_list_In in H.
  apply (Permutation_in _ (sort_desc_perm zsum _)) in H.
  destruct H as [H|H].
  - subst c. destruct (first_fitting_spec x C items) as [H1 H2]; [lia|]. split.
    + cbn [sub_multiset]. apply bc_existsb_eqb_In in H1. rewrite H1. reflexivity.
    + unfold zsum. cbn [fold_right]. lia.
  - apply in_flat_map in H. destruct H as (i & _ & H).
    apply in_flat_map in H. destruct H as (fc & Hfc & H).
    apply filter_In in Hfc. destruct Hfc as [Hfc Hfit].
    apply (completions_for_fc_sound x (first_fitting x C items) C items fc c); [|lia|exact H].
    apply (combos_sub items i). exact Hfc.
Qed.

Theorem find_bin_completions_sound : forall x items C c,
  Forall (fun v => 0 < v) items -> In c (find_bin_completions x items C) ->
  sub_multiset c items = true /\ x + zsum c <= C.
Proof. intros x items C c _. apply find_bin_completions_sound_gen. Qed.

(** ---- 3. the search loops: unfolding ---- *)

Notation nonzero := (fun v : Z => negb (v =? 0)).

Lemma zid_eq x : zid x = x.
Proof. reflexivity. Qed.

Lemma map_zid l : map zid l = l.
Proof. apply map_id. Qed.

(** one round of the inner loop: the new bin, the items left, the queue of new branches *)
Definition bc_round (keep : bool) (C : Z) (bestn : nat) (x : Z) (updated : list Z) (b : zbins)
    (newbr : list branch) : bin Z * list Z * list branch :=
  let cur := add_to_bin zid keep x empty_bin in
  match find_bin_completions x updated C with
  | [] => (cur, updated, newbr)
  | c0 :: others =>
      let brs := flat_map (fun c =>
                    let ni := list_without updated c in
                    let nb := b ++ [add_all keep cur c] in
                    if plb_ge C (length nb) ni bestn then [] else [mk_branch ni nb]) others in
      (add_all keep cur c0, list_without updated c0, newbr ++ brs)
  end.

Lemma bc_inner_S keep C f bestn x updated b newbr :
  bc_inner keep C (S f) bestn (x :: updated) b newbr =
  let '(cur', updated', newbr') := bc_round keep C bestn x updated b newbr in
  if plb_ge C (length (b ++ [cur'])) updated' bestn then (updated', b ++ [cur'], newbr')
  else bc_inner keep C f bestn updated' (b ++ [cur']) newbr'.
Proof.
  unfold bc_round. cbn [bc_inner]. destruct (find_bin_completions x updated C); reflexivity.
Qed.

Lemma bc_inner_nil keep C fuel bestn b newbr :
  bc_inner keep C fuel bestn [] b newbr = ([], b, newbr).
Proof. destruct fuel; reflexivity. Qed.

Lemma bc_outer_S keep C f lb cb q best :
  bc_outer keep C (S f) lb (cb :: q) best =
  let '(items', b', newbr) :=
    bc_inner keep C (length (br_items cb)) (length best) (br_items cb) (br_bins cb) [] in
  let best' := match items' with
               | [] => if Nat.ltb (length b') (length best) then b' else best
               | _ => best
               end in
  if Z.of_nat (length best') =? lb then Ok best' else bc_outer keep C f lb (q ++ newbr) best'.
Proof. reflexivity. Qed.

Lemma add_all_true c : forall b, add_all true b c = (fst b + zsum c, snd b ++ c).
Proof.
  induction c as [|x t IH]; intros b; unfold add_all; cbn [fold_left].
  - rewrite pk_zsum_nil, Z.add_0_r, app_nil_r. destruct b; reflexivity.
  - fold (add_all true (add_to_bin zid true x b) t). rewrite IH. unfold add_to_bin. cbn [fst snd].
    rewrite pk_zsum_cons, zid_eq, <- app_assoc. cbn [app]. f_equal. lia.
Qed.

Lemma add_all_false c : forall b, add_all false b c = (fst b + zsum c, snd b).
Proof.
  induction c as [|x t IH]; intros b; unfold add_all; cbn [fold_left].
  - rewrite pk_zsum_nil, Z.add_0_r. destruct b; reflexivity.
  - fold (add_all false (add_to_bin zid false x b) t). rewrite IH. unfold add_to_bin. cbn [fst snd].
    rewrite pk_zsum_cons, zid_eq. f_equal. lia.
Qed.

(** ---- 4. the branch invariant (keep = true) ---- *)

(** a branch: well-formed feasible non-empty bins which, with the items left, make up [vs] *)
Definition br_ok (C : Z) (vs : list Z) (items : list Z) (b : zbins) : Prop :=
  wf zid b /\ feasible C b /\ all_nonempty b /\ Permutation (contents b ++ items) vs.

Definition brs_ok (C : Z) (vs : list Z) (l : list branch) : Prop :=
  Forall (fun br => br_ok C vs (br_items br) (br_bins br)) l.

(** a round moves x and a fitting sub-multiset c of the other items into a new bin *)
Lemma br_ok_step C vs x updated b c :
  br_ok C vs (x :: updated) b -> sub_multiset c updated = true -> x + zsum c <= C ->
  br_ok C vs (list_without updated c) (b ++ [add_all true (add_to_bin zid true x empty_bin) c]).
Proof.
  intros (Hw & Hf & Hne & HP) Hsub Hfit. rewrite add_all_true.
  unfold add_to_bin, empty_bin. cbn [fst snd app]. rewrite ?zid_eq.
  unfold br_ok, wf, feasible, all_nonempty. repeat split.
  - apply Forall_app. split; [exact Hw|]. constructor; [|constructor].
    unfold wf_bin. cbn [fst snd]. rewrite map_zid, pk_zsum_cons. unfold zid. lia.
  - apply Forall_app. split; [exact Hf|]. constructor; [|constructor]. cbn [fst]. unfold zid. lia.
  - apply Forall_app. split; [exact Hne|]. constructor; [|constructor]. cbn [snd]. discriminate.
  - rewrite contents_snoc. cbn [snd].
    pose proof (list_without_perm c updated Hsub) as HL.
    apply Permutation_trans with (contents b ++ x :: updated); [|exact HP].
    apply Permutation_trans with (contents b ++ x :: c ++ list_without updated c); [perm_solve|].
    apply Permutation_app_head. apply perm_skip. exact HL.
Qed.

Lemma bc_round_ok C vs bestn x updated b newbr cur' updated' newbr' :
  x <= C -> br_ok C vs (x :: updated) b -> brs_ok C vs newbr ->
  bc_round true C bestn x updated b newbr = (cur', updated', newbr') ->
  br_ok C vs updated' (b ++ [cur']) /\ brs_ok C vs newbr'.
Proof.
  intros Hx Hok Hbrs H. unfold bc_round in H.
  destruct (find_bin_completions x updated C) as [|c0 others] eqn:Ec; cbv beta iota zeta in H.
  - injection H as E1 E2 E3. subst cur' updated' newbr'. split; [|exact Hbrs].
    apply (br_ok_step C vs x updated b []); [exact Hok|reflexivity|].
    rewrite pk_zsum_nil. lia.
  - injection H as E1 E2 E3. subst cur' updated' newbr'.
    assert (Hsound : forall c, In c (c0 :: others) -> sub_multiset c updated = true /\ x + zsum c <= C).
    { intros c Hc. apply find_bin_completions_sound_gen. rewrite Ec. exact Hc. }
    split.
    + destruct (Hsound c0 (or_introl eq_refl)) as [H1 H2]. apply br_ok_step; assumption.
    + apply Forall_app. split; [exact Hbrs|]. apply Forall_forall. intros br Hbr.
      apply in_flat_map in Hbr. destruct Hbr as (c & Hc & Hbr).
      destruct (Hsound c (or_intror Hc)) as [H1 H2].
      destruct (plb_ge C _ _ bestn); [destruct Hbr|].
      destruct Hbr as [Hbr|Hbr]; [|destruct Hbr]. subst br. cbn [br_items br_bins].
      apply br_ok_step; assumption.
Qed.

Lemma br_ok_head_le C vs x updated b :
  Forall (fun v => v <= C) vs -> br_ok C vs (x :: updated) b -> x <= C.
Proof.
  intros Hle (_ & _ & _ & HP). rewrite Forall_forall in Hle. apply Hle.
  eapply Permutation_in; [exact HP|]. apply in_or_app. right. left. reflexivity.
Qed.

Lemma bc_inner_ok C vs bestn : Forall (fun v => v <= C) vs ->
  forall fuel items b newbr items' b' newbr',
  bc_inner true C fuel bestn items b newbr = (items', b', newbr') ->
  br_ok C vs items b -> brs_ok C vs newbr ->
  br_ok C vs items' b' /\ brs_ok C vs newbr'.
Proof.
  intros Hle. induction fuel as [|f IH]; intros items b newbr items' b' newbr' H Hok Hbrs.
  - cbn [bc_inner] in H. injection H as E1 E2 E3. subst. split; assumption.
  - destruct items as [|x updated].
    + rewrite bc_inner_nil in H. injection H as E1 E2 E3. subst. split; assumption.
    + rewrite bc_inner_S in H.
      destruct (bc_round true C bestn x updated b newbr) as [[cur1 upd1] nb1] eqn:ER.
      pose proof (br_ok_head_le C vs x updated b Hle Hok) as Hx.
      destruct (bc_round_ok C vs bestn x updated b newbr cur1 upd1 nb1 Hx Hok Hbrs ER) as [Hok1 Hbrs1].
      destruct (plb_ge C (length (b ++ [cur1])) upd1 bestn).
      * injection H as E1 E2 E3. subst. split; assumption.
      * apply (IH _ _ _ _ _ _ H Hok1 Hbrs1).
Qed.

(** the incumbent is returned, or replaced by a complete branch with strictly fewer bins *)
Lemma bc_outer_result C vs lb : Forall (fun v => v <= C) vs ->
  forall fuel queue best r,
  bc_outer true C fuel lb queue best = Ok r -> brs_ok C vs queue ->
  r = best \/ (br_ok C vs [] r /\ (length r < length best)%nat).
Proof.
  intros Hle. induction fuel as [|f IH]; intros queue best r H Hq; [discriminate H|].
  destruct queue as [|cb q].
  - cbn [bc_outer] in H. injection H as E. left. symmetry. exact E.
  - rewrite bc_outer_S in H.
    destruct (bc_inner true C (length (br_items cb)) (length best) (br_items cb) (br_bins cb) [])
      as [[items1 b1] newbr] eqn:EI.
    inversion Hq as [|cb' q' Hcb Hq']; subst cb' q'.
    destruct (bc_inner_ok C vs (length best) Hle _ _ _ _ _ _ _ EI Hcb (Forall_nil _)) as [Hok1 Hbrs1].
    cbv zeta in H.
    set (best1 := match items1 with
                  | [] => if Nat.ltb (length b1) (length best) then b1 else best
                  | _ :: _ => best
                  end) in H.
    assert (Hbest1 : best1 = best \/ (br_ok C vs [] best1 /\ (length best1 < length best)%nat)).
    { subst best1. destruct items1 as [|i1 it1]; [|left; reflexivity].
      destruct (Nat.ltb (length b1) (length best)) eqn:E; [|left; reflexivity].
      right. split; [exact Hok1|]. apply Nat.ltb_lt. exact E. }
    destruct (Z.of_nat (length best1) =? lb).
    + injection H as E. subst r. exact Hbest1.
    + apply IH in H.
      * destruct H as [E|[H1 H2]]; [subst r; exact Hbest1|]. right. split; [exact H1|].
        destruct Hbest1 as [E|[_ H3]]; [rewrite <- E; exact H2|lia].
      * apply Forall_app. split; assumption.
Qed.

Lemma existsb_oversize C items :
  existsb (fun v => C <? v) items = true <-> Exists (fun v => C < v) items.
Proof.
  rewrite existsb_exists, Exists_exists. split; intros (v & Hv & H); exists v; split; auto; lia.
Qed.

Lemma no_oversize_Forall C items :
  existsb (fun v => C <? v) items = false -> Forall (fun v => v <= C) items.
Proof.
  intros H. apply Forall_forall. intros v Hv.
  destruct (Z_le_gt_dec v C) as [Hle|Hgt]; [exact Hle|]. exfalso.
  assert (E : existsb (fun v => C <? v) items = true).
  { apply existsb_exists. exists v. split; [exact Hv|lia]. }
  congruence.
Qed.

(** what a successful run returns *)
Lemma bc_result C fuel items b :
  bin_completion true C fuel items = Ok b ->
  Forall (fun v => v <= C) items /\
  exists bfd, best_fit_decreasing zid true C (filter nonzero items) = Ok bfd /\
    (b = bfd \/ (br_ok C (filter nonzero items) [] b /\ (length b < length bfd)%nat)).
Proof.
  intros H. unfold bin_completion in H.
  destruct (existsb (fun v => C <? v) items) eqn:Eo; [discriminate H|].
  pose proof (no_oversize_Forall C items Eo) as Hle. split; [exact Hle|].
  destruct (best_fit_decreasing zid true C (filter nonzero items)) as [bfd|e] eqn:EB; [|discriminate H].
  exists bfd. split; [reflexivity|].
  destruct (Z.of_nat (length bfd) =? _).
  - injection H as E. left. symmetry. exact E.
  - apply (bc_outer_result C (filter nonzero items)) in H; [exact H| |].
    + apply Forall_forall. intros v Hv. apply filter_In in Hv. destruct Hv as [Hv _].
      rewrite Forall_forall in Hle. apply Hle. exact Hv.
    + constructor; [|constructor]. cbn [br_items br_bins].
      unfold br_ok, wf, feasible, all_nonempty. repeat split; try constructor.
      change (contents (@nil (bin Z))) with (@nil Z). cbn [app]. apply sort_desc_perm.
Qed.

(** ---- 5. C03: a feasible packing of exactly the non-zero items, no empty bin ---- *)

Lemma br_ok_packing C vs b : br_ok C vs [] b -> is_packing zid C vs b.
Proof.
  intros (Hw & Hf & _ & HP). rewrite app_nil_r in HP. unfold is_packing. auto.
Qed.

Theorem bc_packing : forall C fuel items b,
  0 < C -> Forall (fun v => 0 <= v) items ->
  bin_completion true C fuel items = Ok b ->
  is_packing zid C (filter nonzero items) b.
Proof.
  intros C fuel items b HC Hnn H. destruct (bc_result C fuel items b H) as (_ & bfd & EB & Hr).
  destruct Hr as [E|[Hok _]]; [|apply br_ok_packing; exact Hok]. subst b.
  apply bfd_packing; [intros _; lia| |exact EB].
  apply Forall_forall. intros v Hv. apply filter_In in Hv. destruct Hv as [Hv _].
  rewrite Forall_forall in Hnn. unfold zid. apply Hnn. exact Hv.
Qed.

Theorem bc_nonempty : forall C fuel items b,
  0 < C -> Forall (fun v => 0 <= v) items ->
  bin_completion true C fuel items = Ok b ->
  filter nonzero items <> [] -> all_nonempty b.
Proof.
  intros C fuel items b HC Hnn H Hne. destruct (bc_result C fuel items b H) as (_ & bfd & EB & Hr).
  destruct Hr as [E|[(_ & _ & Hr & _) _]]; [|exact Hr]. subst b.
  apply (bfd_nonempty zid C (filter nonzero items)); [exact Hne| |exact EB].
  apply Forall_forall. intros v Hv. apply filter_In in Hv. destruct Hv as [Hv _].
  rewrite Forall_forall in Hnn. unfold zid. apply Hnn. exact Hv.
Qed.

(** with no non-zero item the search returns zero bins (not BFD's single empty bin), so the
    hypotheses [0 < C] and [filter nonzero items <> []] are in fact not needed *)
Lemma bc_all_zero C fuel items b :
  filter nonzero items = [] -> bin_completion true C fuel items = Ok b -> b = [].
Proof.
  intros E H. unfold bin_completion in H.
  destruct (existsb (fun v => C <? v) items); [discriminate H|]. rewrite E in H.
  change (best_fit_decreasing zid true C []) with (@Ok (bins Z) [(0, [])]) in H.
  cbv beta iota zeta in H.
  assert (Elb : (if C =? 0 then 0 else cdiv (zsum []) C) = 0).
  { destruct (C =? 0); [reflexivity|]. unfold cdiv. rewrite pk_zsum_nil. cbn [Z.opp].
    rewrite Zdiv_0_l. reflexivity. }
  rewrite Elb in H. cbn [length Z.of_nat Z.eqb] in H.
  destruct fuel as [|f]; [discriminate H|].
  cbn in H. injection H as H. symmetry. exact H.
Qed.

Theorem bc_packing_strong : forall C fuel items b,
  Forall (fun v => 0 <= v) items ->
  bin_completion true C fuel items = Ok b ->
  is_packing zid C (filter nonzero items) b /\ all_nonempty b.
Proof.
  intros C fuel items b Hnn H.
  destruct (filter nonzero items) as [|v0 vt] eqn:E.
  - rewrite (bc_all_zero C fuel items b E H). unfold is_packing, feasible, wf, all_nonempty.
    repeat split; constructor.
  - rewrite <- E. assert (Hne : filter nonzero items <> []) by (rewrite E; discriminate).
    assert (HC : 0 < C).
    { destruct (bc_result C fuel items b H) as (Hle & _).
      assert (Hin : In v0 (filter nonzero items)) by (rewrite E; left; reflexivity).
      apply filter_In in Hin. destruct Hin as [Hin Hnz].
      rewrite Forall_forall in Hle, Hnn. specialize (Hle v0 Hin). specialize (Hnn v0 Hin). lia. }
    split; [apply (bc_packing C fuel)|apply (bc_nonempty C fuel items)]; assumption.
Qed.

(** ---- 6. C19: refusal ---- *)

Theorem bc_rejects_oversize : forall keep C fuel items,
  Exists (fun v => C < v) items -> bin_completion keep C fuel items = Err ValueError.
Proof.
  intros keep C fuel items H. unfold bin_completion.
  apply existsb_oversize in H. rewrite H. reflexivity.
Qed.

Lemma bc_outer_err keep C lb : forall fuel queue best e,
  bc_outer keep C fuel lb queue best = Err e -> e = OtherError.
Proof.
  induction fuel as [|f IH]; intros queue best e H.
  - cbn [bc_outer] in H. injection H as E. symmetry. exact E.
  - destruct queue as [|cb q]; [discriminate H|]. rewrite bc_outer_S in H.
    destruct (bc_inner keep C (length (br_items cb)) (length best) (br_items cb) (br_bins cb) [])
      as [[items1 b1] newbr].
    cbv zeta in H. destruct (Z.of_nat _ =? lb); [discriminate H|].
    apply (IH _ _ _ H).
Qed.

(** the only errors: ValueError exactly for an oversize item, OtherError only for lack of fuel *)
Theorem bc_error_kinds : forall keep C fuel items e,
  bin_completion keep C fuel items = Err e ->
  (e = ValueError /\ Exists (fun v => C < v) items) \/
  (e = OtherError /\ ~ Exists (fun v => C < v) items).
Proof.
  intros keep C fuel items e H. unfold bin_completion in H.
  destruct (existsb (fun v => C <? v) items) eqn:Eo.
  - left. injection H as E. split; [symmetry; exact E|]. apply existsb_oversize. exact Eo.
  - assert (Hno : ~ Exists (fun v => C < v) items).
    { intros Hex. apply existsb_oversize in Hex. congruence. }
    right. split; [|exact Hno].
    destruct (best_fit_decreasing zid keep C (filter nonzero items)) as [bfd|e'] eqn:EB.
    + destruct (Z.of_nat (length bfd) =? _); [discriminate H|].
      apply (bc_outer_err _ _ _ _ _ _ _ H).
    + exfalso. apply Hno.
      assert (Hex : Exists (fun x => C < zid x) (filter nonzero items)).
      { apply (bfd_error_iff_gen zid keep). exists e'. exact EB. }
      apply Exists_exists in Hex. destruct Hex as (v & Hv & Hlt). apply filter_In in Hv.
      apply Exists_exists. exists v. split; [apply Hv|exact Hlt].
Qed.

(** a run with enough fuel on admissible items succeeds *)
Corollary bc_error_iff : forall keep C fuel items,
  bin_completion keep C fuel items = Err ValueError <-> Exists (fun v => C < v) items.
Proof.
  intros keep C fuel items. split; [|apply bc_rejects_oversize].
  intros H. apply bc_error_kinds in H. destruct H as [[_ H]|[H _]]; [exact H|discriminate H].
Qed.

(** ---- 7. C04 (partial): bin counts ---- *)

Theorem bc_le_bfd : forall C fuel items b bfd,
  bin_completion true C fuel items = Ok b ->
  best_fit_decreasing zid true C (filter nonzero items) = Ok bfd ->
  (length b <= length bfd)%nat.
Proof.
  intros C fuel items b bfd H EB. destruct (bc_result C fuel items b H) as (_ & bfd' & EB' & Hr).
  rewrite EB in EB'. injection EB' as E. subst bfd'.
  destruct Hr as [E|[_ Hlt]]; [subst b; apply Nat.le_refl|lia].
Qed.

(** a feasible packing witnesses [Packable] *)
Lemma packing_packable C vs (b : bins Z) : is_packing zid C vs b -> Packable C vs (length b).
Proof.
  intros (HP & Hf & Hw). exists (sums b). split.
  - apply (Attainable_perm _ (map zid (contents b))); [rewrite map_zid; exact HP|].
    apply Attainable_pairs. exact (bins_attainable zid b Hw).
  - unfold sums. rewrite Forall_map. exact Hf.
Qed.

Theorem bc_packable : forall C fuel items b,
  Forall (fun v => 0 <= v) items ->
  bin_completion true C fuel items = Ok b ->
  Packable C (filter nonzero items) (length b).
Proof.
  intros C fuel items b Hnn H. apply packing_packable.
  apply (bc_packing_strong C fuel items b Hnn H).
Qed.

Theorem bc_ge_opt : forall C fuel items b n,
  Forall (fun v => 0 <= v) items ->
  bin_completion true C fuel items = Ok b ->
  MinBins C (filter nonzero items) n -> (n <= length b)%nat.
Proof.
  intros C fuel items b n Hnn H [_ Hmin]. apply Hmin. apply (bc_packable C fuel); assumption.
Qed.

(** the volume bound ceil(sum / C) is a lower bound on the bin count of every feasible packing *)
Theorem bc_lb_sound : forall C vs n,
  0 < C -> Packable C vs n -> cdiv (zsum vs) C <= Z.of_nat n.
Proof.
  intros C vs n HC Hp. apply packable_total in Hp. unfold cdiv.
  assert (H : - Z.of_nat n <= (- zsum vs) / C) by (apply Z.div_le_lower_bound; [exact HC|nia]).
  lia.
Qed.

(** the early exits return [lb] bins: an answer that meets the volume bound is optimal *)
Theorem bc_exit_at_lb_optimal : forall C fuel items b,
  0 < C -> Forall (fun v => 0 <= v) items ->
  bin_completion true C fuel items = Ok b ->
  length b = Z.to_nat (cdiv (zsum (filter nonzero items)) C) ->
  MinBins C (filter nonzero items) (length b).
Proof.
  intros C fuel items b HC Hnn H Hlen. split; [apply (bc_packable C fuel); assumption|].
  intros m Hm. apply (bc_lb_sound C _ m HC) in Hm. lia.
Qed.

(** the first exit: when BFD meets the volume bound it is returned as is *)
Theorem bc_bfd_exit : forall keep C fuel items bfd,
  ~ Exists (fun v => C < v) items -> C <> 0 ->
  best_fit_decreasing zid keep C (filter nonzero items) = Ok bfd ->
  Z.of_nat (length bfd) = cdiv (zsum (filter nonzero items)) C ->
  bin_completion keep C fuel items = Ok bfd.
Proof.
  intros keep C fuel items bfd Hno HC EB Hlb. unfold bin_completion.
  destruct (existsb (fun v => C <? v) items) eqn:Eo.
  - exfalso. apply Hno. apply existsb_oversize. exact Eo.
  - rewrite EB. destruct (C =? 0) eqn:E0; [lia|]. rewrite Hlb, Z.eqb_refl. reflexivity.
Qed.

(** full optimality: stated for visibility, not proved (the completion generator is ad hoc) *)
Definition bc_optimal_statement : Prop :=
  forall C fuel items b, 0 < C -> Forall (fun v => 0 <= v) items ->
    bin_completion true C fuel items = Ok b ->
    MinBins C (filter nonzero items) (length b).

(** ---- 8. C06: the sums-only run ---- *)

Definition ebr (br : branch) : branch := mk_branch (br_items br) (erase (br_bins br)).

Lemma erase_snoc (b : zbins) (c : bin Z) : erase (b ++ [c]) = erase b ++ [(fst c, [])].
Proof. unfold erase. rewrite map_app. reflexivity. Qed.

Lemma add_all_erase (cur : bin Z) c : add_all false (fst cur, []) c = (fst (add_all true cur c), []).
Proof. rewrite add_all_true, add_all_false. reflexivity. Qed.

Lemma bc_round_erase C bestn x updated b newbr :
  bc_round false C bestn x updated (erase b) (map ebr newbr) =
  let '(cur', upd', nb') := bc_round true C bestn x updated b newbr in
  ((fst cur', []), upd', map ebr nb').
Proof.
  unfold bc_round. destruct (find_bin_completions x updated C) as [|c0 others]; [reflexivity|].
  cbv zeta.
  change (add_to_bin zid false x empty_bin) with (fst (add_to_bin zid true x empty_bin), @nil Z).
  rewrite add_all_erase, map_app. f_equal. f_equal.
  induction others as [|c t IH]; [reflexivity|]. cbn [flat_map]. rewrite map_app, <- IH. f_equal.
  rewrite add_all_erase, <- erase_snoc, erase_length.
  destruct (plb_ge C _ _ bestn); reflexivity.
Qed.

Lemma bc_inner_erase C bestn : forall fuel items b newbr,
  bc_inner false C fuel bestn items (erase b) (map ebr newbr) =
  let '(i, b', n) := bc_inner true C fuel bestn items b newbr in (i, erase b', map ebr n).
Proof.
  induction fuel as [|f IH]; intros items b newbr; [reflexivity|].
  destruct items as [|x updated]; [reflexivity|].
  rewrite !bc_inner_S, bc_round_erase.
  destruct (bc_round true C bestn x updated b newbr) as [[cur1 upd1] nb1].
  rewrite <- erase_snoc, erase_length.
  destruct (plb_ge C (length (b ++ [cur1])) upd1 bestn); [reflexivity|]. apply IH.
Qed.

Lemma bc_outer_erase C lb : forall fuel queue best,
  bc_outer false C fuel lb (map ebr queue) (erase best) = rmap erase (bc_outer true C fuel lb queue best).
Proof.
  induction fuel as [|f IH]; intros queue best; [reflexivity|].
  destruct queue as [|cb q]; [reflexivity|]. cbn [map]. rewrite !bc_outer_S.
  change (br_items (ebr cb)) with (br_items cb). change (br_bins (ebr cb)) with (erase (br_bins cb)).
  rewrite erase_length.
  pose proof (bc_inner_erase C (length best) (length (br_items cb)) (br_items cb) (br_bins cb) []) as HI.
  cbn [map] in HI. rewrite HI.
  destruct (bc_inner true C (length (br_items cb)) (length best) (br_items cb) (br_bins cb) [])
    as [[items1 b1] newbr].
  cbv zeta. rewrite erase_length.
  destruct items1 as [|i1 it1]; [destruct (Nat.ltb (length b1) (length best))|];
    rewrite erase_length; (destruct (Z.of_nat _ =? lb); [reflexivity|]);
    rewrite <- map_app; apply IH.
Qed.

Theorem bc_erase : forall C fuel items,
  rmap erase (bin_completion true C fuel items) = bin_completion false C fuel items.
Proof.
  intros C fuel items. unfold bin_completion.
  destruct (existsb (fun v => C <? v) items); [reflexivity|].
  rewrite <- (bfd_erase zid C (filter nonzero items)).
  destruct (best_fit_decreasing zid true C (filter nonzero items)) as [bfd|e]; [|reflexivity].
  cbn [rmap]. rewrite erase_length.
  destruct (Z.of_nat (length bfd) =? _); [reflexivity|].
  symmetry. apply (bc_outer_erase C _ fuel [mk_branch (sort_desc zid (filter nonzero items)) []] bfd).
Qed.

Print Assumptions sub_multiset_spec.
Print Assumptions find_bin_completions_sound.
Print Assumptions find_bin_completions_sound_gen.
Print Assumptions bc_packing.
Print Assumptions bc_nonempty.
Print Assumptions bc_packing_strong.
Print Assumptions bc_rejects_oversize.
Print Assumptions bc_error_kinds.
Print Assumptions bc_error_iff.
Print Assumptions bc_le_bfd.
Print Assumptions bc_packable.
Print Assumptions bc_ge_opt.
Print Assumptions bc_lb_sound.
Print Assumptions bc_exit_at_lb_optimal.
Print Assumptions bc_bfd_exit.
Print Assumptions bc_erase.
