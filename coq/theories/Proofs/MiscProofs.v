(** Small facts that belong to no algorithm file. *)
From Prtpy Require Import Base.Prelude Model.Binner.

Lemma numitems_sums_refused {A : Type} (b : bins A) (i : nat) : numitems false b i = Err NotImplementedError.
Proof. reflexivity. Qed.

Lemma numitems_contents {A : Type} (b : bins A) (i : nat) (bn : bin A) :
  nth_opt b i = Some bn -> numitems true b i = Ok (length (snd bn)).
Proof. unfold numitems. intros ->. reflexivity. Qed.
