(** Worst-case guarantees of the greedy (LPT) heuristic relative to the optimum (C08):
    list-scheduling bound, (2 - 1/k), Graham's (4/3 - 1/(3k)), and the bound on the smallest sum. *)
From Prtpy Require Import Base.Prelude Model.Binner Model.Greedy Model.Objectives Spec.Partition
  Proofs.BaseLemmas Proofs.BinnerLemmas Proofs.GreedyProofs.
From Coq Require Import Sorting.Sorted Arith ZifyBool.

(** ================= A. generic facts on lists of integers ================= *)

Lemma zmax_ge_in a l : In a l -> a <= zmax l.
Proof. intros H. pose proof (zmax_ge l) as G. rewrite Forall_forall in G. apply G; exact H. Qed.

Lemma zmin_le_in a l : In a l -> zmin l <= a.
Proof. intros H. pose proof (zmin_le l) as G. rewrite Forall_forall in G. apply G; exact H. Qed.

Lemma zmax_lub l b : l <> [] -> Forall (fun a => a <= b) l -> zmax l <= b.
Proof. intros Hne H. rewrite Forall_forall in H. apply H. apply zmax_in; exact Hne. Qed.

Lemma zmin_glb l b : l <> [] -> Forall (fun a => b <= a) l -> b <= zmin l.
Proof. intros Hne H. rewrite Forall_forall in H. apply H. apply zmin_in; exact Hne. Qed.

Lemma length_pos_ne {T} (l : list T) : (1 <= length l)%nat -> l <> [].
Proof. destruct l as [|y t]; simpl; [lia|discriminate]. Qed.

Lemma zsum_le_bound b l : Forall (fun a => a <= b) l -> zsum l <= Z.of_nat (length l) * b.
Proof. induction 1 as [|y t Hy Ht IH]; simpl zsum; simpl length; lia. Qed.

Lemma zsum_ge_bound b l : Forall (fun a => b <= a) l -> Z.of_nat (length l) * b <= zsum l.
Proof. induction 1 as [|y t Hy Ht IH]; simpl zsum; simpl length; lia. Qed.

Lemma zsum_le_len_max l : zsum l <= Z.of_nat (length l) * zmax l.
Proof. apply zsum_le_bound, zmax_ge. Qed.

Lemma len_min_le_zsum l : Z.of_nat (length l) * zmin l <= zsum l.
Proof. apply zsum_ge_bound, zmin_le. Qed.

(** one entry is [a], all the others are at least [m] *)
Lemma zsum_ge_one_plus_rest a m l : In a l -> Forall (fun y => m <= y) l ->
  a + (Z.of_nat (length l) - 1) * m <= zsum l.
Proof.
  intros Ha Hm. induction Hm as [|y t Hy Ht IH]; [contradiction|].
  simpl zsum; simpl length. destruct Ha as [Ha|Ha].
  - subst y. pose proof (zsum_ge_bound m t Ht) as H. lia.
  - specialize (IH Ha). lia.
Qed.

Lemma zmax_repeat0 n : zmax (repeat 0 n) = 0.
Proof.
  destruct n as [|n]; [reflexivity|].
  assert (H : In (zmax (repeat 0 (S n))) (repeat 0 (S n))) by (apply zmax_in; simpl; discriminate).
  apply repeat_spec in H. exact H.
Qed.

Lemma update_comm {T} (f g : T -> T) : (forall a, f (g a) = g (f a)) ->
  forall l i j, update i f (update j g l) = update j g (update i f l).
Proof.
  intros H. induction l as [|y t IH]; intros [|i] [|j]; simpl; auto.
  - rewrite H. reflexivity.
  - rewrite IH. reflexivity.
Qed.

Lemma nth_update_ge s i j x : 0 <= x -> nth j s 0 <= nth j (update i (fun a => a + x) s) 0.
Proof.
  intros Hx. destruct (Nat.lt_ge_cases i (length s)) as [Hi|Hi].
  - rewrite nth_update by exact Hi. destruct (Nat.eqb i j); lia.
  - rewrite update_out by exact Hi. lia.
Qed.

Lemma zmax_update_mono s i x : 0 <= x -> zmax s <= zmax (update i (fun a => a + x) s).
Proof.
  intros Hx. destruct s as [|y t]; [destruct i; simpl; lia|].
  set (s := y :: t) in *.
  assert (Hin : In (zmax s) s) by (apply zmax_in; discriminate).
  destruct (In_nth s (zmax s) 0 Hin) as (j & Hj & Ej).
  pose proof (nth_update_ge s i j x Hx) as H1.
  assert (H2 : In (nth j (update i (fun a => a + x) s) 0) (update i (fun a => a + x) s)).
  { apply nth_In. rewrite update_length. exact Hj. }
  apply zmax_ge_in in H2. lia.
Qed.

Lemma combine_app_eq {T U} (l1 l2 : list T) (m1 m2 : list U) : length l1 = length m1 ->
  combine (l1 ++ l2) (m1 ++ m2) = combine l1 m1 ++ combine l2 m2.
Proof.
  revert m1. induction l1 as [|y t IH]; intros [|z m1] H; simpl in *; try discriminate; auto.
  rewrite IH by lia. reflexivity.
Qed.

Lemma sorted_desc_snoc l x : StronglySorted (fun a b : Z => b <= a) (l ++ [x]) ->
  StronglySorted (fun a b : Z => b <= a) l /\ Forall (fun a => x <= a) l.
Proof.
  induction l as [|y t IH]; intros H; simpl in *.
  - split; constructor.
  - inversion H as [|y' t' Ht Hy]; subst. destruct (IH Ht) as [H1 H2].
    apply Forall_app in Hy. destruct Hy as [Hy1 Hy2]. inversion Hy2 as [|x' t' Hx _]; subst.
    split; constructor; auto.
Qed.

(** ================= B. load vectors of assignments ================= *)

Definition lstep (s : list Z) (p : Z * nat) : list Z := update (snd p) (fun a => a + fst p) s.
Definition loads_from (s0 : list Z) (vs : list Z) (asg : list nat) : list Z :=
  fold_left lstep (combine vs asg) s0.

Lemma loads_eq k vs asg : loads k vs asg = loads_from (repeat 0 k) vs asg.
Proof. reflexivity. Qed.

Lemma loads_from_cons s0 x vs i asg :
  loads_from s0 (x :: vs) (i :: asg) = loads_from (update i (fun a => a + x) s0) vs asg.
Proof. reflexivity. Qed.

Lemma loads_from_length vs : forall asg s0, length (loads_from s0 vs asg) = length s0.
Proof.
  induction vs as [|x t IH]; intros [|i asg] s0; try reflexivity.
  rewrite loads_from_cons, IH. apply update_length.
Qed.

Lemma loads_from_snoc s0 vs x asg i : length asg = length vs ->
  loads_from s0 (vs ++ [x]) (asg ++ [i]) = update i (fun a => a + x) (loads_from s0 vs asg).
Proof.
  intros H. unfold loads_from. rewrite combine_app_eq by lia. rewrite fold_left_app. reflexivity.
Qed.

Lemma loads_from_sum k vs : forall asg s0, valid_asg k asg -> length s0 = k -> length asg = length vs ->
  zsum (loads_from s0 vs asg) = zsum s0 + zsum vs.
Proof.
  induction vs as [|x t IH]; intros [|i asg] s0 Hv Hk Hl; simpl in Hl; try discriminate.
  - unfold loads_from. simpl. lia.
  - inversion Hv as [|i' asg' Hi Hv']; subst. rewrite loads_from_cons.
    rewrite (IH asg); [|exact Hv'|rewrite update_length; reflexivity|lia].
    rewrite zsum_update by exact Hi. simpl zsum. lia.
Qed.

Lemma loads_length k vs asg : length (loads k vs asg) = k.
Proof. rewrite loads_eq, loads_from_length. apply repeat_length. Qed.

Lemma loads_sum k vs asg : valid_asg k asg -> length asg = length vs ->
  zsum (loads k vs asg) = zsum vs.
Proof.
  intros Hv Hl. rewrite loads_eq, (loads_from_sum k) by (auto; apply repeat_length).
  rewrite zsum_repeat0. lia.
Qed.

Lemma Attainable_length k vs s : Attainable k vs s -> length s = k.
Proof. intros (asg & _ & _ & E). subst s. apply loads_length. Qed.

Lemma Attainable_sum k vs s : Attainable k vs s -> zsum s = zsum vs.
Proof. intros (asg & Hl & Hv & E). subst s. apply loads_sum; auto. Qed.

Lemma Attainable_nil k : Attainable k [] (repeat 0 k).
Proof. exists []. split; [reflexivity|]. split; [constructor|reflexivity]. Qed.

Lemma Attainable_nil_inv k s : Attainable k [] s -> s = repeat 0 k.
Proof. intros (asg & Hl & _ & E). destruct asg; [|discriminate]. subst s. reflexivity. Qed.

Lemma Attainable_snoc k vs x s i : Attainable k vs s -> (i < k)%nat ->
  Attainable k (vs ++ [x]) (update i (fun a => a + x) s).
Proof.
  intros (asg & Hl & Hv & E) Hi. exists (asg ++ [i]).
  split; [rewrite !app_length; simpl; lia|]. split.
  - apply Forall_app. split; [exact Hv|]. constructor; [exact Hi|constructor].
  - rewrite loads_eq, loads_from_snoc by exact Hl. rewrite <- loads_eq, E. reflexivity.
Qed.

Lemma Attainable_snoc_inv k vs x s : Attainable k (vs ++ [x]) s ->
  exists s' i, Attainable k vs s' /\ (i < k)%nat /\ s = update i (fun a => a + x) s'.
Proof.
  intros (asg & Hl & Hv & E). rewrite app_length in Hl. simpl in Hl.
  assert (Hne : asg <> []) by (intro; subst; simpl in Hl; lia).
  destruct (exists_last Hne) as (asg' & i & Ea). subst asg.
  rewrite app_length in Hl. simpl in Hl.
  apply Forall_app in Hv. destruct Hv as [Hv1 Hv2]. inversion Hv2 as [|i' t' Hi _]; subst.
  exists (loads k vs asg'), i. split; [|split; [exact Hi|]].
  - exists asg'. split; [lia|]. split; [exact Hv1|reflexivity].
  - rewrite loads_eq, loads_from_snoc by lia. reflexivity.
Qed.

(** attainability does not depend on the order of the values *)
Lemma loads_from_perm k vs vs' : Permutation vs vs' -> forall s0 asg,
  length asg = length vs -> valid_asg k asg ->
  exists asg', length asg' = length vs' /\ valid_asg k asg' /\
               loads_from s0 vs' asg' = loads_from s0 vs asg.
Proof.
  induction 1 as [|x l l' P IH|x y l|l1 l2 l3 P1 IH1 P2 IH2]; intros s0 asg Hl Hv.
  - exists asg. auto.
  - destruct asg as [|i asg]; [discriminate|]. simpl in Hl.
    inversion Hv as [|i' t' Hi Hv']; subst.
    destruct (IH (update i (fun a => a + x) s0) asg) as (asg' & H1 & H2 & H3); [lia|exact Hv'|].
    exists (i :: asg'). split; [simpl; lia|]. split; [constructor; auto|].
    rewrite !loads_from_cons. exact H3.
  - destruct asg as [|i [|j asg]]; try discriminate. simpl in Hl.
    inversion Hv as [|i' t' Hi Hv']; subst. inversion Hv' as [|j' t'' Hj Hv'']; subst.
    exists (j :: i :: asg). split; [simpl; lia|]. split; [repeat constructor; auto|].
    rewrite !loads_from_cons. f_equal. apply update_comm. intros a. lia.
  - destruct (IH1 s0 asg Hl Hv) as (asg1 & H1 & H2 & H3).
    destruct (IH2 s0 asg1 H1 H2) as (asg2 & H4 & H5 & H6).
    exists asg2. split; [exact H4|]. split; [exact H5|]. rewrite H6. exact H3.
Qed.

Lemma Attainable_perm_local k vs vs' s : Permutation vs vs' -> Attainable k vs s -> Attainable k vs' s.
Proof.
  intros P (asg & Hl & Hv & E).
  destruct (loads_from_perm k vs vs' P (repeat 0 k) asg Hl Hv) as (asg' & H1 & H2 & H3).
  exists asg'. split; [exact H1|]. split; [exact H2|]. rewrite loads_eq, H3, <- loads_eq. exact E.
Qed.

(** with non-negative values every load is non-negative and every value is at most the largest load *)
Lemma Attainable_bounds k vs : Forall (fun v => 0 <= v) vs -> forall s, Attainable k vs s ->
  Forall (fun a => 0 <= a) s /\ Forall (fun v => v <= zmax s) vs.
Proof.
  induction vs as [|x vs IH] using rev_ind; intros Hpos s H.
  - apply Attainable_nil_inv in H. subst s. split; [|constructor].
    apply Forall_forall. intros a Ha. apply repeat_spec in Ha. lia.
  - apply Forall_app in Hpos. destruct Hpos as [Hpos Hx]. inversion Hx as [|x' t' Hx0 _]; subst.
    destruct (Attainable_snoc_inv _ _ _ _ H) as (s' & i & Hs' & Hi & E). subst s.
    destruct (IH Hpos s' Hs') as [IH1 IH2].
    pose proof (Attainable_length _ _ _ Hs') as Hlen.
    rewrite Forall_forall in IH1.
    split.
    + apply Forall_forall. intros a Ha. apply (In_update _ 0) in Ha.
      destruct Ha as [Ha|[_ Ha]]; [apply IH1; exact Ha|].
      assert (0 <= nth i s' 0) by (apply IH1, nth_In; lia). lia.
    + apply Forall_app. split.
      * eapply Forall_impl; [|exact IH2]. intros v Hv. cbv beta in Hv.
        pose proof (zmax_update_mono s' i x Hx0). lia.
      * constructor; [|constructor].
        assert (Hin : In (nth i (update i (fun a => a + x) s') 0) (update i (fun a => a + x) s')).
        { apply nth_In. rewrite update_length. lia. }
        apply zmax_ge_in in Hin. rewrite update_nth_same in Hin by lia.
        assert (0 <= nth i s' 0) by (apply IH1, nth_In; lia). lia.
Qed.

(** ================= C. lower bounds on the optimum ================= *)

Lemma value_MinLargest s : value MinLargest s false = zmax s.
Proof. reflexivity. Qed.

Lemma value_MaxSmallest s : value MaxSmallest s false = - zmin s.
Proof. reflexivity. Qed.

Theorem opt_minlargest_lower_bounds k vs opt :
  Opt MinLargest k vs opt -> Forall (fun v => 0 <= v) vs -> (1 <= k)%nat ->
  zsum vs <= Z.of_nat k * opt /\ Forall (fun v => v <= opt) vs.
Proof.
  intros [(s & Hs & Ev) _] Hpos _. rewrite value_MinLargest in Ev. subst opt. split.
  - rewrite <- (Attainable_sum _ _ _ Hs), <- (Attainable_length _ _ _ Hs). apply zsum_le_len_max.
  - apply (Attainable_bounds k vs Hpos s Hs).
Qed.

Lemma opt_minlargest_nonneg k vs opt :
  Opt MinLargest k vs opt -> Forall (fun v => 0 <= v) vs -> (1 <= k)%nat -> 0 <= opt.
Proof.
  intros [(s & Hs & Ev) _] Hpos Hk. rewrite value_MinLargest in Ev. subst opt.
  destruct (Attainable_bounds k vs Hpos s Hs) as [H _]. rewrite Forall_forall in H.
  apply H. apply zmax_in. apply length_pos_ne. rewrite (Attainable_length _ _ _ Hs). exact Hk.
Qed.

Lemma opt_minlargest_ge_vmax k vs opt :
  Opt MinLargest k vs opt -> Forall (fun v => 0 <= v) vs -> (1 <= k)%nat -> zmax vs <= opt.
Proof.
  intros Hopt Hpos Hk. destruct vs as [|v t].
  - simpl. apply (opt_minlargest_nonneg k [] opt); auto.
  - destruct (opt_minlargest_lower_bounds _ _ _ Hopt Hpos Hk) as [_ H].
    rewrite Forall_forall in H. apply H. apply zmax_in. discriminate.
Qed.

(** ================= D. the greedy loop on load vectors ================= *)

Definition vstep (s : list Z) (x : Z) : list Z := update (argmin s) (fun a => a + x) s.
Definition vgreedy (l : list Z) (s : list Z) : list Z := fold_left vstep l s.

Lemma vstep_length s x : length (vstep s x) = length s.
Proof. apply update_length. Qed.

Lemma vgreedy_length l : forall s, length (vgreedy l s) = length s.
Proof.
  induction l as [|x t IH]; intros s; [reflexivity|].
  unfold vgreedy in *. cbn [fold_left]. rewrite IH. apply vstep_length.
Qed.

Lemma vgreedy_snoc l x s : vgreedy (l ++ [x]) s = vstep (vgreedy l s) x.
Proof. unfold vgreedy. rewrite fold_left_app. reflexivity. Qed.

Lemma argmin_lt s : (1 <= length s)%nat -> (argmin s < length s)%nat.
Proof. intros H. apply argmin_spec. apply length_pos_ne; exact H. Qed.

Lemma argmin_least s : (1 <= length s)%nat -> Forall (fun a => nth (argmin s) s 0 <= a) s.
Proof. intros H. apply argmin_spec. apply length_pos_ne; exact H. Qed.

Lemma vstep_sum s x : (1 <= length s)%nat -> zsum (vstep s x) = zsum s + x.
Proof. intros H. unfold vstep. rewrite zsum_update by (apply argmin_lt; exact H). lia. Qed.

(** the new maximum is the old one or the load of the bin that received the item *)
Lemma vstep_max_cases s x : (1 <= length s)%nat ->
  zmax (vstep s x) <= zmax s \/ zmax (vstep s x) = nth (argmin s) s 0 + x.
Proof.
  intros H.
  assert (Hin : In (zmax (vstep s x)) (vstep s x)).
  { apply zmax_in. apply length_pos_ne. rewrite vstep_length. exact H. }
  set (m := zmax (vstep s x)) in *. unfold vstep in Hin. apply (In_update _ 0) in Hin.
  destruct Hin as [Hin|[_ Hin]]; [left; apply zmax_ge_in; exact Hin|right; exact Hin].
Qed.

Lemma vgreedy_attainable k l : (1 <= k)%nat -> Attainable k l (vgreedy l (repeat 0 k)).
Proof.
  intros Hk. induction l as [|x l IH] using rev_ind.
  - apply Attainable_nil.
  - rewrite vgreedy_snoc. unfold vstep. apply Attainable_snoc; [exact IH|].
    rewrite <- (Attainable_length _ _ _ IH) at 2. apply argmin_lt.
    rewrite (Attainable_length _ _ _ IH). exact Hk.
Qed.

(** list-scheduling invariant, valid for any order of arrival *)
Definition ls_inv (k : nat) (M : Z) (s : list Z) : Prop :=
  Z.of_nat k * zmax s <= zsum s + (Z.of_nat k - 1) * M.

Lemma vstep_ls_inv k M s x : (1 <= k)%nat -> length s = k -> 0 <= x <= M ->
  ls_inv k M s -> ls_inv k M (vstep s x).
Proof.
  unfold ls_inv. intros Hk Hlen Hx H.
  assert (Hl1 : (1 <= length s)%nat) by lia.
  rewrite vstep_sum by exact Hl1.
  pose proof (zsum_ge_bound _ _ (argmin_least s Hl1)) as Hmn. rewrite Hlen in Hmn.
  set (mn := nth (argmin s) s 0) in *.
  assert (HxM : (Z.of_nat k - 1) * x <= (Z.of_nat k - 1) * M) by (apply Z.mul_le_mono_nonneg_l; lia).
  destruct (vstep_max_cases s x Hl1) as [Hc|Hc].
  - assert (Z.of_nat k * zmax (vstep s x) <= Z.of_nat k * zmax s) by (apply Z.mul_le_mono_nonneg_l; lia).
    lia.
  - fold mn in Hc. rewrite Hc. lia.
Qed.

Lemma vgreedy_ls_inv k M l : (1 <= k)%nat -> forall s, length s = k ->
  Forall (fun x => 0 <= x <= M) l -> ls_inv k M s -> ls_inv k M (vgreedy l s).
Proof.
  intros Hk. induction l as [|x t IH]; intros s Hlen Hl H; [exact H|].
  inversion Hl as [|x' t' Hx Ht]; subst. unfold vgreedy. cbn [fold_left].
  apply IH; [rewrite vstep_length; reflexivity|exact Ht|].
  apply vstep_ls_inv; auto.
Qed.

(** ================= E. greedy at item level ================= *)

Section Ratio.
  Context {A : Type} (valueof : A -> Z) (keep : bool).

  Lemma greedy_fold_sums l : forall b : bins A,
    sums (fold_left (greedy_step valueof keep) l b) = vgreedy (map valueof l) (sums b).
  Proof.
    induction l as [|x t IH]; intros b; [reflexivity|].
    cbn [fold_left map]. rewrite IH. unfold vgreedy. cbn [fold_left].
    unfold greedy_step. rewrite add_item_sums. reflexivity.
  Qed.

  (** the values in the order in which greedy processes them *)
  Definition sorted_values (items : list A) : list Z := map valueof (sort_desc valueof items).

  Lemma greedy_sums_vgreedy k items :
    sums (greedy valueof keep k items) = vgreedy (sorted_values items) (repeat 0 k).
  Proof. unfold greedy. rewrite greedy_fold_sums, new_bins_sums. reflexivity. Qed.

  Lemma sorted_values_perm items : Permutation (sorted_values items) (map valueof items).
  Proof. apply Permutation_map, sort_desc_perm. Qed.

  Lemma sorted_values_sorted items : StronglySorted (fun a b : Z => b <= a) (sorted_values items).
  Proof.
    unfold sorted_values. pose proof (sort_desc_sorted valueof items) as H.
    induction H as [|y t Ht IH Hy]; simpl; constructor; auto. rewrite Forall_map. exact Hy.
  Qed.

  Lemma values_nonneg items : Forall (fun x => 0 <= valueof x) items ->
    Forall (fun v => 0 <= v) (map valueof items).
  Proof. intros H. rewrite Forall_map. exact H. Qed.

  Lemma sorted_values_nonneg items : Forall (fun x => 0 <= valueof x) items ->
    Forall (fun v => 0 <= v) (sorted_values items).
  Proof.
    intros H. eapply Permutation_Forall; [symmetry; apply sorted_values_perm|].
    apply values_nonneg; exact H.
  Qed.

  Theorem greedy_attainable k items : (1 <= k)%nat ->
    Attainable k (map valueof items) (sums (greedy valueof keep k items)).
  Proof.
    intros Hk. rewrite greedy_sums_vgreedy.
    apply (Attainable_perm_local k (sorted_values items)); [apply sorted_values_perm|].
    apply vgreedy_attainable; exact Hk.
  Qed.

  (** 2. list-scheduling bound:  L <= sum/k + (1 - 1/k) vmax *)
  Theorem lpt_graham_partial k items : (1 <= k)%nat -> Forall (fun x => 0 <= valueof x) items ->
    Z.of_nat k * zmax (sums (greedy valueof keep k items))
    <= zsum (map valueof items) + (Z.of_nat k - 1) * zmax (map valueof items).
  Proof.
    intros Hk Hpos. destruct (zmax_values_bound valueof items Hpos) as [HM Hall].
    pose proof (Attainable_sum _ _ _ (greedy_attainable k items Hk)) as Hsum.
    rewrite <- Hsum. rewrite greedy_sums_vgreedy.
    apply (vgreedy_ls_inv k (zmax (map valueof items))); [exact Hk|apply repeat_length| |].
    - unfold sorted_values. rewrite Forall_map.
      eapply Permutation_Forall; [symmetry; apply sort_desc_perm|exact Hall].
    - unfold ls_inv. rewrite zmax_repeat0, zsum_repeat0.
      assert (0 <= (Z.of_nat k - 1) * zmax (map valueof items)) by (apply Z.mul_nonneg_nonneg; lia).
      lia.
  Qed.
End Ratio.

(** ================= F. consequences of a gap bound (greedy, KK, round-robin ...) ================= *)

(** 5. any partition whose spread is at most the largest value is within (2 - 1/k) of the optimum *)
Theorem gap_ratio_2 k vs s opt : (1 <= k)%nat -> Forall (fun v => 0 <= v) vs ->
  Attainable k vs s -> zmax s - zmin s <= zmax vs -> Opt MinLargest k vs opt ->
  Z.of_nat k * zmax s <= (2 * Z.of_nat k - 1) * opt.
Proof.
  intros Hk Hpos Hs Hgap Hopt.
  destruct (opt_minlargest_lower_bounds _ _ _ Hopt Hpos Hk) as [Hsum _].
  pose proof (opt_minlargest_ge_vmax _ _ _ Hopt Hpos Hk) as Hvmax.
  pose proof (Attainable_length _ _ _ Hs) as Hlen. pose proof (Attainable_sum _ _ _ Hs) as Hss.
  assert (Hne : s <> []) by (apply length_pos_ne; lia).
  pose proof (zsum_ge_one_plus_rest (zmax s) (zmin s) s (zmax_in s Hne) (zmin_le s)) as H1.
  rewrite Hlen in H1.
  assert (H2 : (Z.of_nat k - 1) * zmax s <= (Z.of_nat k - 1) * (zmin s + zmax vs))
    by (apply Z.mul_le_mono_nonneg_l; lia).
  assert (H3 : (Z.of_nat k - 1) * zmax vs <= (Z.of_nat k - 1) * opt)
    by (apply Z.mul_le_mono_nonneg_l; lia).
  lia.
Qed.

(** the smallest sum of such a partition is within one largest value of the max-min optimum *)
Theorem gap_min_bound k vs s v : (1 <= k)%nat ->
  Attainable k vs s -> zmax s - zmin s <= zmax vs -> Opt MaxSmallest k vs v ->
  (- v) - zmax vs <= zmin s.
Proof.
  intros Hk Hs Hgap [(s' & Hs' & Ev) _]. rewrite value_MaxSmallest in Ev.
  pose proof (len_min_le_zsum s') as H1.
  rewrite (Attainable_length _ _ _ Hs'), (Attainable_sum _ _ _ Hs') in H1.
  pose proof (zsum_le_len_max s) as H2.
  rewrite (Attainable_length _ _ _ Hs), (Attainable_sum _ _ _ Hs) in H2.
  assert (H3 : Z.of_nat k * zmax s <= Z.of_nat k * (zmin s + zmax vs))
    by (apply Z.mul_le_mono_nonneg_l; lia).
  assert (H4 : zmin s' <= zmin s + zmax vs) by (apply (Z.mul_le_mono_pos_l _ _ (Z.of_nat k)); lia).
  lia.
Qed.

Section Ratio2.
  Context {A : Type} (valueof : A -> Z) (keep : bool).

  (** L <= (2 - 1/k) OPT *)
  Theorem lpt_ratio_2 k items opt : (1 <= k)%nat -> Forall (fun x => 0 <= valueof x) items ->
    Opt MinLargest k (map valueof items) opt ->
    Z.of_nat k * zmax (sums (greedy valueof keep k items)) <= (2 * Z.of_nat k - 1) * opt.
  Proof.
    intros Hk Hpos Hopt.
    apply (gap_ratio_2 k (map valueof items)); auto.
    - apply values_nonneg; exact Hpos.
    - apply greedy_attainable; exact Hk.
    - apply greedy_gap_gen; exact Hpos.
  Qed.

  (** 4. the smallest sum of greedy:  m >= OPTmin - vmax,  where OPTmin = - v *)
  Theorem lpt_min_partial k items v : (1 <= k)%nat -> Forall (fun x => 0 <= valueof x) items ->
    Opt MaxSmallest k (map valueof items) v ->
    (- v) - zmax (map valueof items) <= zmin (sums (greedy valueof keep k items)).
  Proof.
    intros Hk Hpos Hopt.
    apply (gap_min_bound k (map valueof items)); auto.
    - apply greedy_attainable; exact Hk.
    - apply greedy_gap_gen; exact Hpos.
  Qed.
End Ratio2.

(** ================= G. Graham's bound  L <= (4/3 - 1/(3k)) OPT ================= *)

(** --- G1. running two load vectors (values and weights) along the same assignment --- *)

Lemma Forall2_update {T U} (P : T -> U -> Prop) (f : T -> T) (g : U -> U) :
  (forall a b, P a b -> P (f a) (g b)) ->
  forall s t, Forall2 P s t -> forall i, Forall2 P (update i f s) (update i g t).
Proof.
  intros Hfg s t H. induction H as [|a b s t Hab Hst IH]; intros [|i]; simpl; constructor; auto.
Qed.

Lemma Forall2_repeat {T U} (P : T -> U -> Prop) a b n : P a b -> Forall2 P (repeat a n) (repeat b n).
Proof. intros H. induction n as [|n IH]; simpl; constructor; auto. Qed.

Lemma Forall2_transfer {T U} (P : T -> U -> Prop) (Q : T -> Prop) (R : U -> Prop) :
  (forall a b, P a b -> Q a -> R b) -> forall s t, Forall2 P s t -> Forall Q s -> Forall R t.
Proof.
  intros HPQ s t H. induction H as [|a b s t Hab Hst IH]; intros HQ; constructor;
    inversion HQ as [|a' s' Ha Hs]; subst; eauto.
Qed.

Lemma loads_from_pair (P : Z -> Z -> Prop) (w : Z -> Z) vs :
  Forall (fun a => forall l wl, P l wl -> P (l + a) (wl + w a)) vs ->
  forall asg s0 t0, Forall2 P s0 t0 ->
  Forall2 P (loads_from s0 vs asg) (loads_from t0 (map w vs) asg).
Proof.
  induction 1 as [|x t Hx Ht IH]; intros [|i asg] s0 t0 H0; try exact H0.
  cbn [map]. rewrite !loads_from_cons. apply IH.
  apply Forall2_update; [|exact H0]. intros a b Hab. apply Hx; exact Hab.
Qed.

(** the vector of total weights per bin, for the assignment that produced s *)
Lemma weights_along (P : Z -> Z -> Prop) (w : Z -> Z) k vs s :
  P 0 0 -> Forall (fun a => forall l wl, P l wl -> P (l + a) (wl + w a)) vs ->
  Attainable k vs s ->
  exists t, Forall2 P s t /\ length t = k /\ zsum t = zsum (map w vs).
Proof.
  intros H0 Hstep (asg & Hl & Hv & E). exists (loads k (map w vs) asg).
  split; [|split].
  - subst s. rewrite !loads_eq. apply loads_from_pair; [exact Hstep|].
    apply Forall2_repeat; exact H0.
  - apply loads_length.
  - apply loads_sum; [exact Hv|]. rewrite map_length. exact Hl.
Qed.

(** --- G2. the weight argument: an item a weighs 2 if it cannot share a bin of
        capacity T with the item x (a + x > T), and 1 otherwise --- *)

Definition wgt (T x a : Z) : Z := if T <? a + x then 2 else 1.

Lemma wgt_ge_1 T x a : 1 <= wgt T x a.
Proof. unfold wgt. destruct (T <? a + x); lia. Qed.

(** upper side: bins of load <= T made of items a >= x with 3a > T have weight <= 2 *)
Definition Pup (T x l wl : Z) : Prop :=
  0 <= wl /\ 0 <= l /\ (wl = 1 -> x <= l /\ T < 3 * l) /\
  (wl = 2 -> T < l + x \/ 2 * T < 3 * l) /\ (3 <= wl -> T < l).

Lemma Pup_step T x a l wl : 0 <= x -> x <= a -> T < 3 * a ->
  Pup T x l wl -> Pup T x (l + a) (wl + wgt T x a).
Proof.
  unfold Pup, wgt. intros Hx Hxa HTa (H0 & H1 & H2 & H3 & H4).
  destruct (T <? a + x) eqn:E; lia.
Qed.

Lemma weight_upper k T x vs s : 0 <= x -> Forall (fun a => x <= a /\ T < 3 * a) vs ->
  Attainable k vs s -> Forall (fun a => a <= T) s ->
  zsum (map (wgt T x) vs) <= 2 * Z.of_nat k.
Proof.
  intros Hx Hvs Hs HT.
  destruct (weights_along (Pup T x) (wgt T x) k vs s) as (t & H1 & H2 & H3).
  - unfold Pup. lia.
  - eapply Forall_impl; [|exact Hvs]. intros a [Ha1 Ha2] l wl Hl. apply Pup_step; auto.
  - exact Hs.
  - rewrite <- H3.
    assert (Ht : Forall (fun b => b <= 2) t).
    { apply (Forall2_transfer (Pup T x) (fun a => a <= T) (fun b => b <= 2)) with (s := s); auto.
      unfold Pup. intros a b Hab Ha. lia. }
    pose proof (zsum_le_bound 2 t Ht) as H4. rewrite H2 in H4. lia.
Qed.

(** lower side: a bin whose load exceeds T - x (with x <= T) has weight >= 2 *)
Definition Plow (T x l wl : Z) : Prop :=
  0 <= wl /\ (wl = 0 -> l <= 0) /\ (wl = 1 -> l + x <= T).

Lemma Plow_step T x a l wl : Plow T x l wl -> Plow T x (l + a) (wl + wgt T x a).
Proof.
  unfold Plow, wgt. intros (H0 & H1 & H2).
  destruct (T <? a + x) eqn:E; lia.
Qed.

Lemma weight_lower k T x vs s : x <= T -> Attainable k vs s -> Forall (fun a => T < a + x) s ->
  2 * Z.of_nat k <= zsum (map (wgt T x) vs).
Proof.
  intros HxT Hs HT.
  destruct (weights_along (Plow T x) (wgt T x) k vs s) as (t & H1 & H2 & H3).
  - unfold Plow. lia.
  - apply Forall_forall. intros a _ l wl Hl. apply Plow_step; exact Hl.
  - exact Hs.
  - rewrite <- H3.
    assert (Ht : Forall (fun b => 2 <= b) t).
    { apply (Forall2_transfer (Plow T x) (fun a => T < a + x) (fun b => 2 <= b)) with (s := s); auto.
      unfold Plow. intros a b Hab Ha. lia. }
    pose proof (zsum_ge_bound 2 t Ht) as H4. rewrite H2 in H4. lia.
Qed.

(** the "at most two items per bin" case of Graham's proof, as a contradiction:
    if all items are > T/3 and at least x, the items l cannot fill every bin above T - x
    while l ++ [x] still fits into k bins of capacity T *)
Lemma two_per_bin_contra k T x l g s : 0 <= x -> x <= T -> T < 3 * x ->
  Forall (fun a => x <= a) l ->
  Attainable k l g -> Forall (fun a => T < a + x) g ->
  Attainable k (l ++ [x]) s -> Forall (fun a => a <= T) s -> False.
Proof.
  intros Hx HxT HTx Hl Hg HgT Hs HsT.
  pose proof (weight_lower k T x l g HxT Hg HgT) as H1.
  assert (Hall : Forall (fun a => x <= a /\ T < 3 * a) (l ++ [x])).
  { apply Forall_app. split.
    - eapply Forall_impl; [|exact Hl]. intros a Ha. cbv beta in Ha. lia.
    - constructor; [lia|constructor]. }
  pose proof (weight_upper k T x (l ++ [x]) s Hx Hall Hs HsT) as H2.
  rewrite map_app, zsum_app in H2. simpl zsum in H2.
  pose proof (wgt_ge_1 T x x). lia.
Qed.

(** --- G3. the main induction over the prefixes of the sorted sequence --- *)

(** greedy on a non-increasing sequence of non-negative values against ANY attainable vector *)
Theorem lpt_43_values k : (1 <= k)%nat -> forall l s,
  StronglySorted (fun a b : Z => b <= a) l -> Forall (fun v => 0 <= v) l -> Attainable k l s ->
  3 * Z.of_nat k * zmax (vgreedy l (repeat 0 k)) <= (4 * Z.of_nat k - 1) * zmax s.
Proof.
  intros Hk l. induction l as [|x l IH] using rev_ind; intros s Hsort Hpos Hs.
  - apply Attainable_nil_inv in Hs. subst s. unfold vgreedy. cbn [fold_left].
    rewrite zmax_repeat0. lia.
  - destruct (sorted_desc_snoc l x Hsort) as [Hsl Hxl].
    apply Forall_app in Hpos. destruct Hpos as [Hposl Hposx].
    inversion Hposx as [|x' t' Hx _]; subst.
    destruct (Attainable_snoc_inv _ _ _ _ Hs) as (s' & i & Hs' & Hi & Es).
    assert (HT' : zmax s' <= zmax s) by (rewrite Es; apply zmax_update_mono; exact Hx).
    specialize (IH s' Hsl Hposl Hs').
    assert (Hposlx : Forall (fun v => 0 <= v) (l ++ [x])) by (apply Forall_app; auto).
    destruct (Attainable_bounds k (l ++ [x]) Hposlx s Hs) as [_ Hvals].
    apply Forall_app in Hvals. destruct Hvals as [_ HxT]. pose proof (Forall_inv HxT) as HxT0. cbv beta in HxT0.
    pose proof (zsum_le_len_max s) as Hsum.
    rewrite (Attainable_length _ _ _ Hs), (Attainable_sum _ _ _ Hs), zsum_app in Hsum.
    simpl zsum in Hsum.
    set (T := zmax s) in *. set (K := Z.of_nat k) in *.
    assert (HK : 1 <= K) by (unfold K; lia).
    pose proof (vgreedy_attainable k l Hk) as Hg.
    set (g := vgreedy l (repeat 0 k)) in *.
    pose proof (Attainable_length _ _ _ Hg) as Hglen.
    assert (Hg1 : (1 <= length g)%nat) by lia.
    rewrite vgreedy_snoc. fold g.
    pose proof (argmin_least g Hg1) as Hleast.
    pose proof (zsum_ge_bound _ _ Hleast) as Hmn.
    rewrite Hglen, (Attainable_sum _ _ _ Hg) in Hmn. fold K in Hmn.
    set (mn := nth (argmin g) g 0) in *.
    assert (HKT : 0 <= (K - 1) * T) by (apply Z.mul_nonneg_nonneg; lia).
    destruct (vstep_max_cases g x Hg1) as [Hc|Hc].
    + (* the maximum did not change: induction hypothesis *)
      assert (H1 : 3 * K * zmax (vstep g x) <= 3 * K * zmax g) by (apply Z.mul_le_mono_nonneg_l; lia).
      assert (H2 : (4 * K - 1) * zmax s' <= (4 * K - 1) * T) by (apply Z.mul_le_mono_nonneg_l; lia).
      lia.
    + (* the last (smallest) item determines the maximum *)
      fold mn in Hc. rewrite Hc.
      destruct (Z.le_gt_cases (mn + x) T) as [Hle|Hgt].
      * assert (H1 : 3 * K * (mn + x) <= 3 * K * T) by (apply Z.mul_le_mono_nonneg_l; lia).
        lia.
      * destruct (Z.le_gt_cases (3 * x) T) as [Hsmall|Hbig].
        -- assert (H1 : (K - 1) * (3 * x) <= (K - 1) * T) by (apply Z.mul_le_mono_nonneg_l; lia).
           lia.
        -- exfalso. apply (two_per_bin_contra k T x l g s); auto.
           ++ eapply Forall_impl; [|exact Hleast]. intros a Ha. cbv beta in Ha. fold mn in Ha. lia.
           ++ apply zmax_ge.
Qed.

(** removing the last value does not increase the min-max optimum (not needed by the proof above,
    which restricts the competing assignment directly through [Attainable_snoc_inv]) *)
Lemma opt_monotone_prefix k vs x o o' : 0 <= x ->
  Opt MinLargest k vs o -> Opt MinLargest k (vs ++ [x]) o' -> o <= o'.
Proof.
  intros Hx [_ Hmin] [(s & Hs & Ev) _]. rewrite value_MinLargest in Ev. subst o'.
  destruct (Attainable_snoc_inv _ _ _ _ Hs) as (s' & i & Hs' & Hi & Es).
  specialize (Hmin s' Hs'). rewrite value_MinLargest in Hmin.
  pose proof (zmax_update_mono s' i x Hx) as H. rewrite <- Es in H. lia.
Qed.

Section Ratio3.
  Context {A : Type} (valueof : A -> Z) (keep : bool).

  (** greedy against any way of distributing the values over k bins *)
  Theorem lpt_ratio_43_attainable k items s : (1 <= k)%nat ->
    Forall (fun x => 0 <= valueof x) items -> Attainable k (map valueof items) s ->
    3 * Z.of_nat k * zmax (sums (greedy valueof keep k items)) <= (4 * Z.of_nat k - 1) * zmax s.
  Proof.
    intros Hk Hpos Hs. rewrite greedy_sums_vgreedy.
    apply lpt_43_values; [exact Hk|apply sorted_values_sorted|apply sorted_values_nonneg; exact Hpos|].
    apply (Attainable_perm_local k (map valueof items)); [|exact Hs].
    symmetry. apply sorted_values_perm.
  Qed.

  (** 3. Graham's bound  L <= (4/3 - 1/(3k)) OPT *)
  Theorem lpt_ratio_43 k items opt : Opt MinLargest k (map valueof items) opt -> (1 <= k)%nat ->
    Forall (fun x => 0 <= valueof x) items ->
    3 * Z.of_nat k * zmax (sums (greedy valueof keep k items)) <= (4 * Z.of_nat k - 1) * opt.
  Proof.
    intros [(s & Hs & Ev) _] Hk Hpos. rewrite value_MinLargest in Ev. subst opt.
    apply lpt_ratio_43_attainable; auto.
  Qed.
End Ratio3.

(** the bound is attained: k = 2, values 3,3,2,2,2: greedy gives 7, the optimum is 6, and 3*2*7 = (4*2-1)*6 *)
Example lpt_ratio_43_tight :
  sums (greedy (fun v : Z => v) true 2 [3; 3; 2; 2; 2]) = [7; 5] /\
  loads 2 [3; 3; 2; 2; 2] [0; 0; 1; 1; 1]%nat = [6; 6].
Proof. vm_compute. split; reflexivity. Qed.

(** non-negativity cannot be dropped from the ratio bounds: greedy on [-1; -1] with 2 bins
    gives [-2; 0], i.e. L = 0, while the assignment [0; 1] has largest sum -1, so opt <= -1 < 0
    and both (2k-1) * opt and (4k-1) * opt are negative whereas k * L = 0 *)
Example lpt_ratio_needs_nonneg :
  sums (greedy (fun v : Z => v) true 2 [-1; -1]) = [-2; 0] /\
  loads 2 [-1; -1] [0; 1]%nat = [-1; -1].
Proof. vm_compute. split; reflexivity. Qed.

Print Assumptions opt_minlargest_lower_bounds.
Print Assumptions lpt_graham_partial.
Print Assumptions lpt_ratio_2.
Print Assumptions lpt_ratio_43_attainable.
Print Assumptions lpt_ratio_43.
Print Assumptions lpt_min_partial.
Print Assumptions gap_ratio_2.
Print Assumptions gap_min_bound.
Print Assumptions greedy_attainable.
Print Assumptions Attainable_perm_local.
Print Assumptions opt_monotone_prefix.
Print Assumptions lpt_43_values.
