(** The 3/2 bound for first-fit-decreasing (Model/Packing.v, prtpy/packing/first_fit.py called on
    items sorted by descending value).

    Main results (b = bins returned by first_fit_decreasing, n = any number of bins of capacity C
    into which the values can be packed, in particular the optimum):

      ffd_ratio_32_strong :  2 * length b <= 3 * n          (FFD <= 3/2 OPT)
      ffd_ratio_32        :  2 * length b <= 3 * n + 2      (FFD <= 3/2 OPT + 1, the requested form)

    Proof (the textbook one).  Split the bins, in opening order, as b = b1 ++ b2 with
    p = length b1 = (2 m - 1) / 3 and r = length b2 = m - p >= 1, so that p <= 2 r - 1.  Let x be
    the first item of the first bin of b2.
    - If 2 x > C: the first items of the bins of b1 were placed earlier, so they are at least x:
      there are p + 1 items larger than C/2, no two of which share a bin of ANY packing, so
      n >= p + 1 ([packable_big]: a weighting argument on the load vector).
    - Otherwise every item of b2 is at most x <= C/2.  No item of a later bin fits into an earlier
      bin (first-fit: [sfit]), so every bin of b2 except the last is more than half full and
      therefore holds at least two items: b2 holds at least 2 r - 1 >= p items.  Pair p of them
      with the p bins of b1: each pair exceeds C, so the total volume is at least p (C + 1),
      hence n C >= p (C + 1) and n >= p + 1.
    In both cases 3 n >= 3 p + 3 > 2 m - 1.

    Two facts about the model are proved here in addition to the invariant of PackingProofs.v:
    - [ff_sfit]  (first-fit, any order): an item does not fit into any bin opened before its own,
      even at that bin's FINAL sum (the any-fit invariant of PackingProofs only says this for the
      first item of each bin; it is false for best-fit);
    - [ff_hdesc] (first-fit on a descending list): the first item of each bin is at least every
      item of that bin and of all later bins.

    Hypotheses: items <> [] and 0 <= valueof x.  [0 < C] and [valueof x <= C] of the requested
    statement are not needed (a value above C makes first-fit fail, and C >= 0 follows). *)
From Prtpy Require Import Base.Prelude Model.Binner Model.Packing Spec.Partition
  Proofs.BaseLemmas Proofs.BinnerLemmas Proofs.PackingProofs Oracle.Reach Proofs.OracleSpec.
From Coq Require Import ZifyBool Sorting.Sorted.

(** ---- 1. value level: at most one value above C/2 per bin of a packing ---- *)
Section Weights.
  Notation lstep := (fun (s : list Z) (p : Z * nat) => update (snd p) (fun x => x + fst p) s).

  Lemma Forall2_update (R : Z -> Z -> Prop) (f g : Z -> Z) :
    (forall a c, R a c -> R (f a) (g c)) ->
    forall s' s, Forall2 R s' s -> forall i, Forall2 R (update i f s') (update i g s).
  Proof.
    intros Hfg s' s H. induction H as [|a c s' s Hac Hs IH]; intros i.
    - destruct i; constructor.
    - destruct i as [|i]; cbn [update]; constructor; auto.
  Qed.

  (** weights dominated by the values give load vectors dominated by the load vectors *)
  Lemma loads_fold_dom (K : Z) (w : Z -> Z) : forall vs asg s' s,
    Forall (fun v => K * w v <= 2 * v) vs ->
    Forall2 (fun a c => K * a <= 2 * c) s' s ->
    Forall2 (fun a c => K * a <= 2 * c)
      (fold_left lstep (combine (map w vs) asg) s') (fold_left lstep (combine vs asg) s).
  Proof.
    induction vs as [|v vs IH]; intros asg s' s Hw Hs; cbn [map combine fold_left]; [exact Hs|].
    destruct asg as [|i asg]; cbn [combine fold_left]; [exact Hs|].
    inversion Hw as [|v' l Hv Hrest]; subst. cbn [fst snd].
    apply IH; [exact Hrest|]. apply Forall2_update; [|exact Hs]. intros a c Hac. lia.
  Qed.

  Lemma Forall2_repeat0 (R : Z -> Z -> Prop) n : R 0 0 -> Forall2 R (repeat 0 n) (repeat 0 n).
  Proof. intros H. induction n as [|n IH]; cbn [repeat]; constructor; auto. Qed.

  Lemma dom_count C : 0 <= C -> forall cnt s,
    Forall2 (fun a c => (C + 1) * a <= 2 * c) cnt s -> Forall (fun x => x <= C) s ->
    zsum cnt <= Z.of_nat (length cnt).
  Proof.
    intros HC cnt s H. induction H as [|a c cnt s Hac Hs IH]; intros Hcap.
    - rewrite pk_zsum_nil. cbn [length]. lia.
    - apply Forall_cons_iff in Hcap. destruct Hcap as [Hc Hcap]. specialize (IH Hcap).
      rewrite pk_zsum_cons. cbn [length]. rewrite Nat2Z.inj_succ.
      assert (a <= 1) by nia. lia.
  Qed.

  (** 1 for a value larger than half the capacity, else 0 *)
  Definition bigw (C v : Z) : Z := if C <? 2 * v then 1 else 0.

  Lemma bigw_range C v : 0 <= bigw C v <= 1.
  Proof. unfold bigw. destruct (C <? 2 * v); lia. Qed.

  Lemma bigw_dom C v : 0 <= v -> (C + 1) * bigw C v <= 2 * v.
  Proof. intros Hv. unfold bigw. destruct (C <? 2 * v) eqn:E; lia. Qed.

  (** a packing into n bins has at most n values above C/2 *)
  Lemma packable_big C vs n : 0 <= C -> Forall (fun v => 0 <= v) vs -> Packable C vs n ->
    zsum (map (bigw C) vs) <= Z.of_nat n.
  Proof.
    intros HC Hnn (s & (asg & Hlen & Hv & Hs) & Hcap).
    assert (Hlen' : length asg = length (map (bigw C) vs)) by (rewrite map_length; exact Hlen).
    destruct (loads_total n (map (bigw C) vs) asg Hlen' Hv) as [E1 E2].
    assert (D : Forall2 (fun a c => (C + 1) * a <= 2 * c) (loads n (map (bigw C) vs) asg) (loads n vs asg)).
    { unfold loads. apply loads_fold_dom.
      - eapply Forall_impl; [|exact Hnn]. intros v Hv0. apply bigw_dom. exact Hv0.
      - apply Forall2_repeat0. lia. }
    rewrite Hs in D. pose proof (dom_count C HC _ _ D Hcap) as Hc. rewrite E1, E2 in Hc. exact Hc.
  Qed.
End Weights.

(** ---- 2. two more invariants of first-fit ---- *)
Section FFDStructure.
  Context {A : Type} (valueof : A -> Z).
  Notation add := (add_to_bin valueof true).

  Lemma ff_place_contents C x (b : bins A) :
    Permutation (contents (ff_place valueof true C x b)) (contents b ++ [x]).
  Proof. apply (step_contents valueof C x). apply ff_place_step. Qed.

  Lemma contents_single x : contents [add x empty_bin] = [x].
  Proof. reflexivity. Qed.

  (** 2a. no item fits into a bin opened before its own *)
  Fixpoint sfit (C : Z) (b : bins A) : Prop :=
    match b with
    | [] => True
    | bn :: t => Forall (fun y => C < fst bn + valueof y) (contents t) /\ sfit C t
    end.

  Lemma ff_place_sfit C x b : 0 <= valueof x -> sfit C b -> sfit C (ff_place valueof true C x b).
  Proof.
    intros Hx. induction b as [|bn t IH]; cbn [ff_place].
    - intros _. cbn [sfit]. split; [apply Forall_nil|exact I].
    - destruct (fst bn + valueof x <=? C) eqn:E; cbn [sfit]; intros [H1 H2].
      + split; [|exact H2]. eapply Forall_impl; [|exact H1]. intros y Hy. cbv beta in Hy.
        unfold add_to_bin. cbn [fst]. lia.
      + split; [|apply IH; exact H2].
        eapply Permutation_Forall; [symmetry; apply ff_place_contents|].
        apply Forall_app. split; [exact H1|]. constructor; [lia|constructor].
  Qed.

  Lemma ff_sfit C items b : Forall (fun x => 0 <= valueof x) items ->
    first_fit valueof true C items = Ok b -> sfit C b.
  Proof.
    intros Hnn H. unfold first_fit in H. rewrite ff_loop_gloop in H.
    refine (gloop_inv valueof (ff_place valueof true) C (fun b0 _ => sfit C b0) _ items (new_bins 1) [] b Hnn H _).
    - intros b0 acc x Hx Hb0. apply ff_place_sfit; [lia|exact Hb0].
    - unfold new_bins. cbn [repeat sfit]. split; [apply Forall_nil|exact I].
  Qed.

  (** 2b. the first item of a bin dominates the bin and all later bins *)
  Definition hd_dom (bn : bin A) (l : list A) : Prop :=
    match snd bn with [] => False | x :: _ => Forall (fun y => valueof y <= valueof x) l end.

  Fixpoint hdesc (b : bins A) : Prop :=
    match b with
    | [] => True
    | bn :: t => hd_dom bn (contents (bn :: t)) /\ hdesc t
    end.

  Lemma hd_dom_intro bn x0 l0 l :
    snd bn = x0 :: l0 -> Forall (fun y => valueof y <= valueof x0) l -> hd_dom bn l.
  Proof. intros E H. unfold hd_dom. rewrite E. exact H. Qed.

  Lemma hd_dom_elim bn l : hd_dom bn l ->
    exists x0 l0, snd bn = x0 :: l0 /\ Forall (fun y => valueof y <= valueof x0) l.
  Proof.
    unfold hd_dom. destruct (snd bn) as [|x0 l0]; [intros F; destruct F|].
    intros H. exists x0, l0. split; [reflexivity|exact H].
  Qed.

  Lemma ff_place_hdesc C x b : hdesc b -> Forall (fun z => valueof x <= valueof z) (contents b) ->
    hdesc (ff_place valueof true C x b).
  Proof.
    induction b as [|bn t IH]; cbn [ff_place].
    - intros _ _. cbn [hdesc]. split; [|exact I].
      apply (hd_dom_intro _ x []); [reflexivity|].
      rewrite contents_single. constructor; [lia|constructor].
    - intros [H1 H2] Hx. rewrite contents_cons in Hx. apply Forall_app in Hx. destruct Hx as [Hx1 Hx2].
      destruct (hd_dom_elim _ _ H1) as (x0 & l0 & Es & HF).
      rewrite contents_cons in HF. apply Forall_app in HF. destruct HF as [HF1 HF2].
      assert (Hxx0 : valueof x <= valueof x0).
      { rewrite Es in Hx1. apply Forall_cons_iff in Hx1. destruct Hx1 as [Hx1 _]. exact Hx1. }
      destruct (fst bn + valueof x <=? C) eqn:E; cbn [hdesc].
      + split; [|exact H2]. apply (hd_dom_intro _ x0 (l0 ++ [x])).
        * unfold add_to_bin. cbn [snd]. rewrite Es. reflexivity.
        * rewrite contents_cons. unfold add_to_bin. cbn [snd]. rewrite <- app_assoc.
          apply Forall_app. split; [exact HF1|]. cbn [app]. constructor; [exact Hxx0|exact HF2].
      + split; [|apply IH; [exact H2|exact Hx2]]. apply (hd_dom_intro _ x0 l0 _ Es).
        rewrite contents_cons. apply Forall_app. split; [exact HF1|].
        eapply Permutation_Forall; [symmetry; apply ff_place_contents|].
        apply Forall_app. split; [exact HF2|]. constructor; [exact Hxx0|constructor].
  Qed.

  Notation desc_sorted := (StronglySorted (fun a c : A => valueof c <= valueof a)).

  Lemma ff_loop_hdesc C : forall items b b', desc_sorted items ->
    Forall (fun z => Forall (fun x => valueof x <= valueof z) items) (contents b) ->
    hdesc b -> ff_loop valueof true C items b = Ok b' -> hdesc b'.
  Proof.
    induction items as [|x t IH]; intros b b' Hs Hd Hh; cbn [ff_loop].
    - intros H. injection H as H. subst b'. exact Hh.
    - destruct (valueof x >? C); [intros H; discriminate H|]. intros H.
      inversion Hs as [|x' t' Hst Hxt]; subst.
      apply (IH (ff_place valueof true C x b) b'); [exact Hst| | |exact H].
      + eapply Permutation_Forall; [symmetry; apply ff_place_contents|]. apply Forall_app. split.
        * eapply Forall_impl; [|exact Hd]. intros z Hz. cbv beta in Hz.
          apply Forall_cons_iff in Hz. destruct Hz as [_ Hz]. exact Hz.
        * constructor; [exact Hxt|constructor].
      + apply ff_place_hdesc; [exact Hh|]. eapply Forall_impl; [|exact Hd]. intros z Hz. cbv beta in Hz.
        apply Forall_cons_iff in Hz. destruct Hz as [Hz _]. exact Hz.
  Qed.

  Lemma ff_hdesc C items b : items <> [] -> desc_sorted items ->
    first_fit valueof true C items = Ok b -> hdesc b.
  Proof.
    intros Hne Hs H. destruct items as [|x t]; [congruence|]. unfold first_fit in H. cbn [ff_loop] in H.
    destruct (valueof x >? C) eqn:E; [discriminate H|].
    assert (Hfirst : ff_place valueof true C x (new_bins 1) = [add x empty_bin]).
    { apply (af_step_first valueof C x); [lia|apply ff_place_step]. }
    rewrite Hfirst in H. inversion Hs as [|x' t' Hst Hxt]; subst.
    apply (ff_loop_hdesc C t [add x empty_bin] b Hst); [| |exact H].
    - rewrite contents_single. constructor; [exact Hxt|constructor].
    - cbn [hdesc]. split; [|exact I]. apply (hd_dom_intro _ x []); [reflexivity|].
      rewrite contents_single. constructor; [lia|constructor].
  Qed.

  (** ---- 3. splitting the invariants at a position ---- *)
  Lemma sfit_app C (b1 b2 : bins A) : sfit C (b1 ++ b2) ->
    Forall (fun c => Forall (fun y => C < fst c + valueof y) (contents b2)) b1 /\ sfit C b2.
  Proof.
    induction b1 as [|c b1 IH]; cbn [app sfit].
    - intros H. split; [constructor|exact H].
    - intros [H1 H2]. destruct (IH H2) as [I1 I2]. split; [|exact I2].
      constructor; [|exact I1]. rewrite contents_app in H1. apply Forall_app in H1. destruct H1 as [_ H1]. exact H1.
  Qed.

  Lemma hdesc_app (b1 b2 : bins A) : hdesc (b1 ++ b2) ->
    Forall (fun c => hd_dom c (contents b2)) b1 /\ hdesc b2.
  Proof.
    induction b1 as [|c b1 IH]; cbn [app hdesc].
    - intros H. split; [constructor|exact H].
    - intros [H1 H2]. destruct (IH H2) as [I1 I2]. split; [|exact I2].
      constructor; [|exact I1]. destruct (hd_dom_elim _ _ H1) as (x0 & l0 & Es & HF).
      apply (hd_dom_intro _ x0 l0 _ Es). rewrite contents_cons, contents_app in HF.
      apply Forall_app in HF. destruct HF as [_ HF]. apply Forall_app in HF. destruct HF as [_ HF]. exact HF.
  Qed.

  Lemma hdesc_nonempty (b : bins A) : hdesc b -> all_nonempty b.
  Proof.
    unfold all_nonempty. induction b as [|bn t IH]; cbn [hdesc]; [constructor|].
    intros [H1 H2]. constructor; [|apply IH; exact H2].
    destruct (hd_dom_elim _ _ H1) as (x0 & l0 & Es & _). rewrite Es. discriminate.
  Qed.

  (** ---- 4. the two counting arguments ---- *)

  (** 4a. p bins, each of which no item of [ys] fits into, and at least p such items:
      total volume at least p (C + 1) *)
  Lemma pair_volume C : forall (b1 : bins A) (ys : list A), (length b1 <= length ys)%nat ->
    Forall (fun c => Forall (fun y => C < fst c + valueof y) ys) b1 ->
    Forall (fun y => 0 <= valueof y) ys ->
    Z.of_nat (length b1) * (C + 1) <= zsum (sums b1) + zsum (map valueof ys).
  Proof.
    induction b1 as [|c b1 IH]; intros ys Hlen Hall Hnn.
    - unfold sums. cbn [map length Z.of_nat]. rewrite pk_zsum_nil.
      assert (0 <= zsum (map valueof ys)) by (apply zsum_nonneg; rewrite Forall_map; exact Hnn). lia.
    - destruct ys as [|y ys]; [cbn [length] in Hlen; lia|].
      apply Forall_cons_iff in Hall. destruct Hall as [Hc Hall].
      apply Forall_cons_iff in Hc. destruct Hc as [Hy _].
      apply Forall_cons_iff in Hnn. destruct Hnn as [Hy0 Hnn].
      assert (Hall' : Forall (fun c0 => Forall (fun y0 => C < fst c0 + valueof y0) ys) b1).
      { eapply Forall_impl; [|exact Hall]. intros c0 Hc0. cbv beta in Hc0.
        apply Forall_cons_iff in Hc0. destruct Hc0 as [_ Hc0]. exact Hc0. }
      cbn [length] in Hlen. specialize (IH ys ltac:(lia) Hall' Hnn).
      unfold sums in *. cbn [map length]. rewrite !pk_zsum_cons, Nat2Z.inj_succ. lia.
  Qed.

  (** 4b. bins holding only items <= C/2: all but the last hold at least two items *)
  Lemma small_bins_count C : forall b2 : bins A, wf valueof b2 -> sfit C b2 -> all_nonempty b2 ->
    Forall (fun y => 0 <= valueof y /\ 2 * valueof y <= C) (contents b2) ->
    (2 * length b2 <= length (contents b2) + 1)%nat.
  Proof.
    induction b2 as [|bn t IH]; intros Hw Hs Hne Hsm; [cbn [length]; lia|].
    apply Forall_cons_iff in Hw. destruct Hw as [Hwb Hw].
    apply Forall_cons_iff in Hne. destruct Hne as [Hneb Hne].
    cbn [sfit] in Hs. destruct Hs as [Hs1 Hs2].
    rewrite contents_cons in *. apply Forall_app in Hsm. destruct Hsm as [Hsm1 Hsm2].
    specialize (IH Hw Hs2 Hne Hsm2). rewrite app_length. cbn [length].
    destruct t as [|c t'].
    - destruct (snd bn) as [|z1 r]; [congruence|]. cbn [length]. lia.
    - apply Forall_cons_iff in Hne. destruct Hne as [Hnec _].
      destruct (snd c) as [|y l] eqn:Ec; [congruence|].
      rewrite contents_cons, Ec in Hs1, Hsm2. cbn [app] in Hs1, Hsm2.
      apply Forall_cons_iff in Hs1. destruct Hs1 as [Hy _].
      apply Forall_cons_iff in Hsm2. destruct Hsm2 as [[Hy0 Hy1] _].
      unfold wf_bin in Hwb.
      destruct (snd bn) as [|z1 [|z2 r]].
      + congruence.
      + cbn [map] in Hwb. rewrite pk_zsum_cons, pk_zsum_nil in Hwb.
        apply Forall_cons_iff in Hsm1. destruct Hsm1 as [[_ Hz1] _]. lia.
      + cbn [length] in *. lia.
  Qed.

  (** 4c. bins whose first item is above C/2 *)
  Definition bigcount (C : Z) (l : list A) : Z := zsum (map (bigw C) (map valueof l)).

  Lemma bigcount_app C l1 l2 : bigcount C (l1 ++ l2) = bigcount C l1 + bigcount C l2.
  Proof. unfold bigcount. rewrite !map_app, zsum_app. reflexivity. Qed.

  Lemma bigcount_nonneg C l : 0 <= bigcount C l.
  Proof.
    unfold bigcount. apply zsum_nonneg. rewrite !Forall_map. apply Forall_forall. intros x _.
    pose proof (bigw_range C (valueof x)). lia.
  Qed.

  Lemma bigcount_head C x l : C < 2 * valueof x -> 1 <= bigcount C (x :: l).
  Proof.
    intros Hx. change (x :: l) with ([x] ++ l). rewrite bigcount_app.
    pose proof (bigcount_nonneg C l). unfold bigcount at 1. cbn [map]. rewrite pk_zsum_cons, pk_zsum_nil.
    unfold bigw. destruct (C <? 2 * valueof x) eqn:E; lia.
  Qed.

  Lemma big_heads_count C v : C < 2 * v -> forall b1 : bins A,
    Forall (fun c => exists x0 l0, snd c = x0 :: l0 /\ v <= valueof x0) b1 ->
    Z.of_nat (length b1) <= bigcount C (contents b1).
  Proof.
    intros Hv. induction b1 as [|c b1 IH]; intros Hall.
    - cbn [length Z.of_nat]. apply bigcount_nonneg.
    - apply Forall_cons_iff in Hall. destruct Hall as [(x0 & l0 & Es & Hx0) Hall].
      specialize (IH Hall). rewrite contents_cons, bigcount_app, Es. cbn [length]. rewrite Nat2Z.inj_succ.
      pose proof (bigcount_head C x0 l0 ltac:(lia)). lia.
  Qed.

  (** ---- 5. the bound at a split position ---- *)
  Lemma split_bound C (b1 b2 : bins A) items n :
    0 <= C -> b2 <> [] -> (length b1 <= 2 * length b2 - 1)%nat ->
    wf valueof (b1 ++ b2) -> Forall (fun y => 0 <= valueof y) (contents (b1 ++ b2)) ->
    sfit C (b1 ++ b2) -> hdesc (b1 ++ b2) -> Permutation (contents (b1 ++ b2)) items ->
    Packable C (map valueof items) n -> (length b1 + 1 <= n)%nat.
  Proof.
    intros HC Hb2 Hlen Hw Hnn Hs Hh Hp Hpack.
    unfold wf in Hw. apply Forall_app in Hw. destruct Hw as [Hw1 Hw2].
    rewrite contents_app in Hnn, Hp. apply Forall_app in Hnn. destruct Hnn as [Hnn1 Hnn2].
    destruct (sfit_app C b1 b2 Hs) as [Hs1 Hs2]. destruct (hdesc_app b1 b2 Hh) as [Hh1 Hh2].
    assert (Hitems_nn : Forall (fun v => 0 <= v) (map valueof items)).
    { rewrite Forall_map. eapply Permutation_Forall; [exact Hp|]. apply Forall_app. split; assumption. }
    destruct b2 as [|bn t2]; [congruence|]. clear Hb2.
    pose proof Hh2 as Hh2'. cbn [hdesc] in Hh2'. destruct Hh2' as [Hd _].
    destruct (hd_dom_elim _ _ Hd) as (x & l & Ex & Hdom).
    assert (Hxin : In x (contents (bn :: t2))).
    { rewrite contents_cons, Ex. left. reflexivity. }
    destruct (Z_lt_le_dec C (2 * valueof x)) as [Hbig|Hsmall].
    - (* p + 1 items above C/2 *)
      pose proof (packable_big C (map valueof items) n HC Hitems_nn Hpack) as Hcnt.
      assert (E : zsum (map (bigw C) (map valueof items)) = bigcount C (contents b1 ++ contents (bn :: t2))).
      { unfold bigcount. apply zsum_perm. apply Permutation_map, Permutation_map. symmetry. exact Hp. }
      rewrite E, bigcount_app in Hcnt.
      assert (H1 : Z.of_nat (length b1) <= bigcount C (contents b1)).
      { apply (big_heads_count C (valueof x) Hbig). eapply Forall_impl; [|exact Hh1].
        intros c Hc. cbv beta in Hc. destruct (hd_dom_elim _ _ Hc) as (x0 & l0 & Es & HF).
        exists x0, l0. split; [exact Es|]. rewrite Forall_forall in HF. apply HF. exact Hxin. }
      assert (H2 : 1 <= bigcount C (contents (bn :: t2))).
      { rewrite contents_cons, Ex. cbn [app]. apply bigcount_head. exact Hbig. }
      lia.
    - (* volume *)
      assert (Hsm : Forall (fun y => 0 <= valueof y /\ 2 * valueof y <= C) (contents (bn :: t2))).
      { rewrite Forall_forall in *. intros y Hy. specialize (Hdom y Hy). specialize (Hnn2 y Hy). lia. }
      pose proof (small_bins_count C (bn :: t2) Hw2 Hs2 (hdesc_nonempty _ Hh2) Hsm) as Hcount.
      pose proof (pair_volume C b1 (contents (bn :: t2)) ltac:(lia) Hs1 Hnn2) as Hvol.
      pose proof (packable_total C (map valueof items) n Hpack) as Htot.
      assert (E : zsum (map valueof items) = zsum (sums b1) + zsum (map valueof (contents (bn :: t2)))).
      { rewrite <- (zsum_perm _ _ (Permutation_map valueof Hp)), map_app, zsum_app.
        rewrite (wf_total valueof b1 Hw1). reflexivity. }
      rewrite E in Htot.
      destruct (Nat.eq_dec (length b1) 0) as [Hz|Hpos].
      + (* p = 0: at least one bin because there is an item *)
        destruct n as [|n]; [|lia]. apply packable_zero in Hpack. apply map_eq_nil in Hpack. subst items.
        apply Permutation_sym, Permutation_nil, app_eq_nil in Hp. destruct Hp as [_ Hp].
        rewrite Hp in Hxin. destruct Hxin.
      + assert (Z.of_nat (length b1) < Z.of_nat n) by nia. lia.
  Qed.

  (** ---- 6. any bins-array with the three invariants ---- *)
  Theorem struct_ratio_32 C (b : bins A) items n :
    0 <= C -> b <> [] -> wf valueof b -> Forall (fun y => 0 <= valueof y) (contents b) ->
    sfit C b -> hdesc b -> Permutation (contents b) items ->
    Packable C (map valueof items) n -> (2 * length b <= 3 * n)%nat.
  Proof.
    intros HC Hne Hw Hnn Hs Hh Hp Hpack.
    set (m := length b). assert (Hm : (1 <= m)%nat) by (subst m; destruct b; [congruence|cbn [length]; lia]).
    set (p := ((2 * m - 1) / 3)%nat).
    pose proof (Nat.div_mod (2 * m - 1) 3 ltac:(lia)) as Dm.
    pose proof (Nat.mod_upper_bound (2 * m - 1) 3 ltac:(lia)) as Mb. fold p in Dm.
    assert (Hpm : (p <= m)%nat) by lia.
    pose proof (firstn_skipn p b) as Eb.
    assert (L1 : length (firstn p b) = p) by (apply firstn_length_le; exact Hpm).
    assert (L2 : length (skipn p b) = (m - p)%nat) by apply skipn_length.
    assert (Hb2 : skipn p b <> []).
    { intros E. rewrite E in L2. cbn [length] in L2. lia. }
    rewrite <- Eb in Hw, Hnn, Hs, Hh, Hp.
    pose proof (split_bound C (firstn p b) (skipn p b) items n HC Hb2 ltac:(lia) Hw Hnn Hs Hh Hp Hpack) as H.
    lia.
  Qed.

  (** ---- 7. first-fit-decreasing ---- *)
  Lemma ffd_structure C items b : items <> [] -> Forall (fun x => 0 <= valueof x) items ->
    first_fit_decreasing valueof true C items = Ok b ->
    b <> [] /\ wf valueof b /\ Forall (fun y => 0 <= valueof y) (contents b) /\
    sfit C b /\ hdesc b /\ Permutation (contents b) items.
  Proof.
    intros Hne Hnn H.
    destruct (ffd_Inv valueof C items b Hne Hnn H) as (Hw & _ & Hp & _ & _ & _).
    unfold first_fit_decreasing in H.
    split; [|split; [exact Hw|split; [|split; [|split; [|exact Hp]]]]].
    - intros E. subst b. apply Permutation_nil in Hp. congruence.
    - eapply Permutation_Forall; [symmetry; exact Hp|exact Hnn].
    - apply (ff_sfit C (sort_desc valueof items)); [apply sort_desc_nonneg; exact Hnn|exact H].
    - apply (ff_hdesc C (sort_desc valueof items)); [apply sort_desc_nonnil; exact Hne|apply sort_desc_sorted|exact H].
  Qed.

  Lemma cap_nonneg C items b : items <> [] -> Forall (fun x => 0 <= valueof x) items ->
    first_fit_decreasing valueof true C items = Ok b -> 0 <= C.
  Proof.
    intros Hne Hnn H. destruct items as [|x t]; [congruence|].
    destruct (Z_lt_le_dec C (valueof x)) as [Hlt|Hle].
    - assert (Hex : exists e, first_fit_decreasing valueof true C (x :: t) = Err e).
      { apply ffd_error_iff. apply Exists_cons_hd. exact Hlt. }
      destruct Hex as [e He]. rewrite He in H. discriminate H.
    - apply Forall_cons_iff in Hnn. destruct Hnn as [Hx _]. lia.
  Qed.

  (** FFD <= 3/2 OPT *)
  Theorem ffd_ratio_32_strong C items b n :
    items <> [] -> Forall (fun x => 0 <= valueof x) items ->
    first_fit_decreasing valueof true C items = Ok b ->
    Packable C (map valueof items) n -> (2 * length b <= 3 * n)%nat.
  Proof.
    intros Hne Hnn H Hpack.
    destruct (ffd_structure C items b Hne Hnn H) as (Hb & Hw & Hnn' & Hs & Hh & Hp).
    apply (struct_ratio_32 C b items n); auto. apply (cap_nonneg C items b); assumption.
  Qed.

  (** the requested form: FFD <= 3/2 OPT + 1 (hypotheses as requested; [0 < C] and the upper
      bound on the values are not used) *)
  Theorem ffd_ratio_32 C items b n :
    0 < C -> items <> [] -> Forall (fun x => 0 <= valueof x <= C) items ->
    first_fit_decreasing valueof true C items = Ok b ->
    Packable C (map valueof items) n -> (2 * length b <= 3 * n + 2)%nat.
  Proof.
    intros _ Hne Hnn H Hpack.
    assert (Hnn' : Forall (fun x => 0 <= valueof x) items).
    { eapply Forall_impl; [|exact Hnn]. intros x Hx. cbv beta in Hx. lia. }
    pose proof (ffd_ratio_32_strong C items b n Hne Hnn' H Hpack). lia.
  Qed.

  Corollary ffd_ratio_32_opt C items b n :
    0 < C -> items <> [] -> Forall (fun x => 0 <= valueof x <= C) items ->
    first_fit_decreasing valueof true C items = Ok b ->
    MinBins C (map valueof items) n -> (2 * length b <= 3 * n + 2)%nat.
  Proof. intros HC Hne Hnn H [Hpack _]. apply (ffd_ratio_32 C items b n); assumption. Qed.

  Corollary ffd_ratio_32_strong_opt C items b n :
    items <> [] -> Forall (fun x => 0 <= valueof x) items ->
    first_fit_decreasing valueof true C items = Ok b ->
    MinBins C (map valueof items) n -> (2 * length b <= 3 * n)%nat.
  Proof. intros Hne Hnn H [Hpack _]. apply (ffd_ratio_32_strong C items b n); assumption. Qed.

  (** the sums-only binner makes the same decisions *)
  Corollary ffd_ratio_32_strong_sums C items b n :
    items <> [] -> Forall (fun x => 0 <= valueof x) items ->
    first_fit_decreasing valueof false C items = Ok b ->
    Packable C (map valueof items) n -> (2 * length b <= 3 * n)%nat.
  Proof.
    intros Hne Hnn H Hpack. rewrite <- ffd_erase in H.
    destruct (first_fit_decreasing valueof true C items) as [b1|e] eqn:E; [|discriminate H].
    cbn [rmap] in H. injection H as H. subst b. rewrite erase_length.
    apply (ffd_ratio_32_strong C items b1 n); assumption.
  Qed.
End FFDStructure.

(** ---- 8. examples ---- *)
Notation idZ := (fun v : Z => v).

Definition ffd_count_ex (C : Z) (vs : list Z) : option nat :=
  match first_fit_decreasing idZ true C vs with Ok b => Some (length b) | Err _ => None end.

(** the bound 3/2 is attained: FFD uses 3 bins, 2 suffice *)
Example ffd_32_tight :
  rmap (@length (bin Z)) (first_fit_decreasing idZ true 10 [4; 4; 3; 3; 3; 3]) = Ok 3%nat /\
  min_bins 10 [4; 4; 3; 3; 3; 3] = 2%nat.
Proof. vm_compute. split; reflexivity. Qed.

(** ... and the theorem applied to it through the verified oracle *)
Example ffd_32_tight_thm b :
  first_fit_decreasing idZ true 10 [4; 4; 3; 3; 3; 3] = Ok b -> (2 * length b <= 3 * 2)%nat.
Proof.
  intros H. apply (ffd_ratio_32_strong_opt idZ 10 [4; 4; 3; 3; 3; 3] b 2); [discriminate| |exact H|].
  - repeat constructor; lia.
  - assert (HF : Forall (fun v => 0 <= v <= 10) [4; 4; 3; 3; 3; 3]) by (repeat constructor; lia).
    pose proof (min_bins_spec_strong 10 [4; 4; 3; 3; 3; 3] HF) as M. rewrite map_id. exact M.
Qed.

Example ffd_32_four_bins :
  first_fit_decreasing idZ true 60 [31; 31; 20; 20; 19; 19; 10; 10; 10; 10] =
    Ok [(51, [31; 20]); (51, [31; 20]); (58, [19; 19; 10; 10]); (20, [10; 10])] /\
  min_bins 60 [31; 31; 20; 20; 19; 19; 10; 10; 10; 10] = 3%nat.
Proof. vm_compute. split; reflexivity. Qed.

(** Johnson's 11/9 family, one third of the smallest member: FFD 4 bins, optimum 3 *)
Example ffd_32_johnson :
  ffd_count_ex 100 (repeat 51 2 ++ repeat 27 2 ++ repeat 26 2 ++ repeat 23 4) = Some 4%nat /\
  min_bins 100 (repeat 51 2 ++ repeat 27 2 ++ repeat 26 2 ++ repeat 23 4) = 3%nat.
Proof. vm_compute. split; reflexivity. Qed.

(** a pseudo-random family checked against the exact optimum (on these small instances FFD is
    in fact optimal; the discriminating instances are the three above) *)
Fixpoint lcg (n : nat) (s md : Z) : list Z :=
  match n with
  | O => []
  | S k => let s' := (s * 1103515245 + 12345) mod 2147483648 in (1 + (s' / 65536) mod md) :: lcg k s' md
  end.
Definition ffd_count (C : Z) (vs : list Z) : nat :=
  match first_fit_decreasing idZ true C vs with Ok b => length b | Err _ => O end.
Definition ffd_32_check (C : Z) (vs : list Z) : bool :=
  ((1 <=? ffd_count C vs) && (2 * ffd_count C vs <=? 3 * min_bins C vs))%nat.
Definition ffd_32_instance (seed : Z) : Z * list Z :=
  let C := 10 + seed mod 13 in (C, lcg (Z.to_nat (4 + seed mod 7)) seed (if Z.even seed then C else C / 2)).

Example ffd_32_random :
  forallb (fun s => ffd_32_check (fst (ffd_32_instance s)) (snd (ffd_32_instance s))) (map Z.of_nat (seq 1 80)) = true.
Proof. vm_compute. reflexivity. Qed.

Check ff_sfit.
Check ff_hdesc.
Check packable_big.
Check struct_ratio_32.
Check ffd_ratio_32_strong.
Check ffd_ratio_32.
Check ffd_ratio_32_opt.
Check ffd_ratio_32_strong_opt.
Check ffd_ratio_32_strong_sums.

Print Assumptions ffd_ratio_32_strong.
Print Assumptions ffd_ratio_32.
Print Assumptions ffd_ratio_32_opt.
Print Assumptions ffd_ratio_32_strong_opt.
Print Assumptions ffd_ratio_32_strong_sums.
Print Assumptions ffd_32_tight_thm.
Print Assumptions ffd_32_random.
