(** Property C08: worst-case ratio of the Karmarkar-Karp heuristic (Model/KK.v, [kk]).

    The requested statement [kk_ratio_43_statement] (Michiels, Korst, Aarts, van Leeuwen 2003:
    3 k L <= (4 k - 1) OPT, L = largest sum of kk) is proved here for k = 1 and k = 2 only; for
    k >= 3 it stays OPEN (it is kept as a Definition and checked by vm_compute against the exact
    oracle on small instances).

    Proved:
      kk_dichotomy            : for every threshold G >= 0 that at most k items exceed,
                                L <= largest item   \/   largest - smallest sum <= G
      kk_ratio_32_partial     : every k:  2 k L <= (3 k - 1) OPT   (3/2 - 1/(2k); improves on
                                the (2 - 1/k) of [CKKOptimal.kk_ratio_2] for every k >= 2)
      kk_ratio_43_k2          : k = 2:  6 L <= 7 OPT   (Fischetti and Martello 1987; attained)
      kk_ratio_43_k12_partial : the requested bound for 1 <= k <= 2
      kk_ratio_43_from_dichotomy : the requested bound for any k from the hypothesis
                                "L <= OPT or the sums differ by at most the (2k+1)-th largest
                                value"; that hypothesis is false for k = 3
                                ([kk_dichotomy_2k_fails_k3]), so the general proof must be different.

    Proof of the dichotomy (sections 3-6): call an entry of the heap "big" when its spread
    (largest - smallest sum) exceeds G.  Heap order puts the big entries first.  As long as there
    are two big entries, each of them consists of items > G only, at most one per bin, and
    together they hold at most k such items, so combining the two top entries never puts two
    items into one bin: every sum is 0 or a single item.  When one big entry is left, the entries
    it absorbs are single items y <= G; y goes to its smallest bin, which stays below its largest
    bin because the spread exceeds G >= y: the largest sum does not change.  When no big entry is
    left, all spreads are <= G for ever ([KKProofs.kk_combine_spread]).
    With G = the (k+1)-th largest value, k + 1 values are >= G, two of them share a bin of any
    partition, so 2 G <= OPT, and k L <= total + (k - 1) G.

    Proof for k = 2 (sections 9-12): the spreads of the entries of a 2-bin heap evolve by
    differencing the two largest numbers ([kd], simulation [sim2]), and 2 L = total + final
    difference d.  With a1 >= a2 >= ... the values and G = a5 (0 if there is none): after at most
    two differencing steps at most two numbers exceed G, and then either d <= G or the top number
    absorbs everything ([kd_dom], [kd_two]); following the (five) possible orders of the first
    two steps ([kd_four]) gives d <= a5, or total + d = 2 a1, 2 (a2 + a3), 2 (a2 + a3 + a4) with
    a1 >= a2 + a3, or 2 (a1 + a4) with a1 <= a2 + a3.  Each of these is at most 2 OPT
    ([opt2_four]: enumeration of the placements of four values in two bins), and 3 a5 <= OPT
    because three of the five largest values share a bin ([pigeon_thrice]). *)
From Prtpy Require Import Base.Prelude Base.Perms Model.Binner Model.KK Model.Objectives
  Spec.Partition Proofs.BaseLemmas Proofs.BinnerLemmas Proofs.KKProofs Proofs.RatioProofs
  Proofs.CKKOptimal Proofs.GreedyProofs Oracle.Reach Proofs.OracleSpec.
From Coq Require Import Sorting.Sorted ZifyBool.

(** ---- 1. value level: k + 1 values >= g in k bins ---- *)
Definition ind_ge (g v : Z) : Z := if g <=? v then 1 else 0.
Definition ind_gt (g v : Z) : Z := if g <? v then 1 else 0.
Definition cnt_ge (g : Z) (l : list Z) : Z := zsum (map (ind_ge g) l).
Definition cnt_gt (g : Z) (l : list Z) : Z := zsum (map (ind_gt g) l).

Definition Ppig (g l wl : Z) : Prop :=
  0 <= wl /\ 0 <= l /\ (1 <= wl -> g <= l) /\ (2 <= wl -> 2 * g <= l).

Lemma Ppig_step g a l wl : 0 <= g -> 0 <= a -> Ppig g l wl -> Ppig g (l + a) (wl + ind_ge g a).
Proof. unfold Ppig, ind_ge. intros Hg Ha (H0 & H1 & H2 & H3). destruct (g <=? a) eqn:E; lia. Qed.

Lemma pigeon_twice k vs s g : 0 <= g -> Forall (fun v => 0 <= v) vs -> Attainable k vs s ->
  Z.of_nat k < cnt_ge g vs -> 2 * g <= zmax s.
Proof.
  intros Hg Hpos Hs Hc. destruct (Z_lt_le_dec (zmax s) (2 * g)) as [Hlt|Hle]; [exfalso|exact Hle].
  destruct (weights_along (Ppig g) (ind_ge g) k vs s) as (t & H1 & H2 & H3).
  - unfold Ppig. lia.
  - eapply Forall_impl; [|exact Hpos]. intros a Ha l wl Hl. apply Ppig_step; assumption.
  - exact Hs.
  - assert (Ht : Forall (fun b => b <= 1) t).
    { apply (Forall2_transfer (Ppig g) (fun a => a <= zmax s) (fun b => b <= 1)) with (s := s); auto.
      - unfold Ppig. intros a b Hab Ha. lia.
      - apply zmax_ge. }
    pose proof (zsum_le_bound 1 t Ht) as H4. rewrite H2 in H4. unfold cnt_ge in Hc. lia.
Qed.

Lemma opt_ge_twice k vs opt g : 0 <= g -> Forall (fun v => 0 <= v) vs ->
  Opt MinLargest k vs opt -> Z.of_nat k < cnt_ge g vs -> 2 * g <= opt.
Proof.
  intros Hg Hpos [(s & Hs & Ev) _] Hc. rewrite value_MinLargest in Ev. subst opt.
  apply (pigeon_twice k vs s g); assumption.
Qed.

(** the arithmetic: from the dichotomy to the ratio *)
Lemma gap_ratio_32 k vs s opt G : (1 <= k)%nat -> Forall (fun v => 0 <= v) vs ->
  Attainable k vs s -> Opt MinLargest k vs opt -> 2 * G <= opt ->
  zmax s <= zmax vs \/ zmax s - zmin s <= G ->
  2 * Z.of_nat k * zmax s <= (3 * Z.of_nat k - 1) * opt.
Proof.
  intros Hk Hpos Hs Hopt HG Hd.
  destruct (opt_minlargest_lower_bounds _ _ _ Hopt Hpos Hk) as [Hsum _].
  pose proof (opt_minlargest_ge_vmax _ _ _ Hopt Hpos Hk) as Hvmax.
  pose proof (opt_minlargest_nonneg _ _ _ Hopt Hpos Hk) as H0.
  set (K := Z.of_nat k) in *. assert (HK : 1 <= K) by (subst K; lia).
  assert (E0 : 0 <= (K - 1) * opt) by (apply Z.mul_nonneg_nonneg; lia).
  destruct Hd as [Hd|Hd].
  - assert (E1 : K * zmax s <= K * opt) by (apply Z.mul_le_mono_nonneg_l; lia). lia.
  - pose proof (Attainable_length _ _ _ Hs) as Hlen. pose proof (Attainable_sum _ _ _ Hs) as Hss.
    assert (Hne : s <> []) by (apply length_pos_ne; lia).
    pose proof (zsum_ge_one_plus_rest (zmax s) (zmin s) s (zmax_in s Hne) (zmin_le s)) as H1.
    rewrite Hlen in H1. fold K in H1.
    assert (H2 : (K - 1) * (zmax s - G) <= (K - 1) * zmin s) by (apply Z.mul_le_mono_nonneg_l; lia).
    assert (H3 : (K - 1) * (2 * G) <= (K - 1) * opt) by (apply Z.mul_le_mono_nonneg_l; lia).
    lia.
Qed.

(** ---- 2. the (k+1)-th largest value ---- *)
Lemma desc_nth_split : forall k l, StronglySorted (fun a b : Z => b <= a) l -> (k < length l)%nat ->
  exists l1 l2, l = l1 ++ nth k l 0 :: l2 /\ length l1 = k /\
    Forall (fun a => nth k l 0 <= a) l1 /\ Forall (fun a => a <= nth k l 0) l2.
Proof.
  induction k as [|k IH]; intros l Hs Hlen; destruct l as [|x t]; cbn [length] in Hlen; try lia.
  - exists [], t. cbn [nth app length]. repeat split; [constructor|].
    inversion Hs as [|x' t' _ Hx]; subst. exact Hx.
  - inversion Hs as [|x' t' Hst Hx]; subst.
    destruct (IH t Hst ltac:(lia)) as (l1 & l2 & E & L & F1 & F2).
    exists (x :: l1), l2. cbn [nth app length]. repeat split.
    + f_equal. exact E.
    + lia.
    + constructor; [|exact F1]. rewrite Forall_forall in Hx. apply Hx. apply nth_In. lia.
    + exact F2.
Qed.

Lemma cnt_gt_app g l1 l2 : cnt_gt g (l1 ++ l2) = cnt_gt g l1 + cnt_gt g l2.
Proof. unfold cnt_gt. rewrite map_app, zsum_app. reflexivity. Qed.
Lemma cnt_ge_app g l1 l2 : cnt_ge g (l1 ++ l2) = cnt_ge g l1 + cnt_ge g l2.
Proof. unfold cnt_ge. rewrite map_app, zsum_app. reflexivity. Qed.
Lemma cnt_gt_cons g x l : cnt_gt g (x :: l) = ind_gt g x + cnt_gt g l.
Proof. reflexivity. Qed.
Lemma cnt_ge_cons g x l : cnt_ge g (x :: l) = ind_ge g x + cnt_ge g l.
Proof. reflexivity. Qed.

Lemma cnt_gt_bounds g l : 0 <= cnt_gt g l <= Z.of_nat (length l).
Proof.
  induction l as [|x t IH]; [cbn; lia|]. rewrite cnt_gt_cons. cbn [length]. unfold ind_gt.
  destruct (g <? x); lia.
Qed.

Lemma cnt_gt_none g l : Forall (fun a => a <= g) l -> cnt_gt g l = 0.
Proof.
  induction 1 as [|x t Hx Ht IH]; [reflexivity|]. rewrite cnt_gt_cons, IH. unfold ind_gt.
  destruct (g <? x) eqn:E; lia.
Qed.

Lemma cnt_ge_all g l : Forall (fun a => g <= a) l -> cnt_ge g l = Z.of_nat (length l).
Proof.
  induction 1 as [|x t Hx Ht IH]; [reflexivity|]. rewrite cnt_ge_cons, IH. cbn [length]. unfold ind_ge.
  destruct (g <=? x) eqn:E; lia.
Qed.

Lemma cnt_ge_nonneg g l : 0 <= cnt_ge g l.
Proof.
  induction l as [|x t IH]; [cbn; lia|]. rewrite cnt_ge_cons. unfold ind_ge. destruct (g <=? x); lia.
Qed.

Lemma kth_threshold k l : StronglySorted (fun a b : Z => b <= a) l -> Forall (fun v => 0 <= v) l ->
  0 <= nth k l 0 /\ cnt_gt (nth k l 0) l <= Z.of_nat k /\
  ((k < length l)%nat -> Z.of_nat k < cnt_ge (nth k l 0) l).
Proof.
  intros Hs Hpos. destruct (Nat.lt_ge_cases k (length l)) as [Hlt|Hge].
  - destruct (desc_nth_split k l Hs Hlt) as (l1 & l2 & E & L & F1 & F2).
    set (G := nth k l 0) in *. split; [|split].
    + rewrite Forall_forall in Hpos. apply Hpos. apply nth_In. exact Hlt.
    + rewrite E, cnt_gt_app, cnt_gt_cons, (cnt_gt_none G l2 F2).
      pose proof (cnt_gt_bounds G l1). unfold ind_gt. destruct (G <? G) eqn:E1; lia.
    + intros _. rewrite E, cnt_ge_app, cnt_ge_cons, (cnt_ge_all G l1 F1).
      pose proof (cnt_ge_nonneg G l2). unfold ind_ge. destruct (G <=? G) eqn:E1; lia.
  - rewrite (nth_overflow l 0 Hge). split; [lia|split; [|lia]].
    pose proof (cnt_gt_bounds 0 l). lia.
Qed.

(** ---- 3. vectors of sums ---- *)
Lemma zipsum_app a1 c1 a2 c2 : length a1 = length c1 ->
  zipsum (a1 ++ a2) (c1 ++ c2) = zipsum a1 c1 ++ zipsum a2 c2.
Proof.
  revert c1. induction a1 as [|x a1 IH]; intros [|y c1] HL; cbn [length] in HL; try discriminate.
  - reflexivity.
  - cbn [app zipsum]. f_equal. apply IH. lia.
Qed.

Lemma rev_repeat {T} (x : T) n : rev (repeat x n) = repeat x n.
Proof.
  induction n as [|n IH]; [reflexivity|]. cbn [repeat rev]. rewrite IH.
  change [x] with (repeat x 1). rewrite <- repeat_app. replace (n + 1)%nat with (S n) by lia. reflexivity.
Qed.

(** zeros ++ N1 against N2 ++ zeros, with N2 shorter than the zeros of the first vector *)
Lemma zipsum_disjoint m1 N1 N2 m2 : (length N2 <= m1)%nat ->
  (m1 + length N1 = length N2 + m2)%nat ->
  zipsum (repeat 0 m1 ++ N1) (N2 ++ repeat 0 m2) = N2 ++ repeat 0 (m1 - length N2) ++ N1.
Proof.
  intros H1 H2.
  replace m1 with (length N2 + (m1 - length N2))%nat at 1 by lia.
  replace m2 with ((m1 - length N2) + length N1)%nat by lia.
  rewrite !repeat_app, <- !app_assoc.
  rewrite zipsum_app by (rewrite repeat_length; reflexivity).
  rewrite zipsum_app by (rewrite !repeat_length; reflexivity).
  rewrite zipsum_zeros_l, zipsum_zeros_r.
  replace (zipsum (repeat 0 (m1 - length N2)) (repeat 0 (m1 - length N2))) with (repeat 0 (m1 - length N2)).
  - reflexivity.
  - rewrite <- (repeat_length 0 (m1 - length N2)) at 3. rewrite zipsum_zeros_r. reflexivity.
Qed.

Lemma cnt_gt_all g l : Forall (fun a => g < a) l -> cnt_gt g l = Z.of_nat (length l).
Proof.
  induction 1 as [|x t Hx Ht IH]; [reflexivity|]. rewrite cnt_gt_cons, IH. cbn [length]. unfold ind_gt.
  destruct (g <? x) eqn:E; lia.
Qed.

Lemma cnt_gt_perm g l1 l2 : Permutation l1 l2 -> cnt_gt g l1 = cnt_gt g l2.
Proof. intros P. unfold cnt_gt. apply zsum_perm, Permutation_map, P. Qed.

Lemma cnt_gt_rev g l : cnt_gt g (rev l) = cnt_gt g l.
Proof. apply cnt_gt_perm. symmetry. apply Permutation_rev. Qed.

Section Vec.
  Variables G V : Z.
  Hypothesis HG : 0 <= G.

  Definition bigv (z : Z) : Prop := G < z <= V.
  Definition pureP (z : Z) : Prop := z = 0 \/ bigv z.
  Definition pure (s : list Z) : Prop := Forall pureP s.
  Definition sp (s : list Z) : Z := zmax s - zmin s.

  Lemma pure_zeros m : pure (repeat 0 m).
  Proof. apply Forall_forall. intros z Hz. apply repeat_spec in Hz. left. exact Hz. Qed.

  Lemma cnt_gt_zeros m : cnt_gt G (repeat 0 m) = 0.
  Proof. apply cnt_gt_none. apply Forall_forall. intros z Hz. apply repeat_spec in Hz. lia. Qed.

  Lemma pure_sorted_split s : StronglySorted Z.le s -> pure s ->
    exists m N, s = repeat 0 m ++ N /\ Forall bigv N.
  Proof.
    induction s as [|x t IH]; intros Hs Hp.
    - exists O, []. split; [reflexivity|constructor].
    - inversion Hs as [|x' t' Hst Hx]; subst. apply Forall_cons_iff in Hp. destruct Hp as [Hpx Hpt].
      destruct Hpx as [Hx0|Hxb].
      + destruct (IH Hst Hpt) as (m & N & E & HN). exists (S m), N. subst x t. split; [reflexivity|exact HN].
      + exists O, (x :: t). split; [reflexivity|]. constructor; [exact Hxb|].
        rewrite Forall_forall in *. intros z Hz. specialize (Hx z Hz). specialize (Hpt z Hz).
        unfold bigv in *. destruct Hpt as [Hz0|Hzb]; [lia|exact Hzb].
  Qed.

  Lemma cnt_gt_split m N : Forall bigv N -> cnt_gt G (repeat 0 m ++ N) = Z.of_nat (length N).
  Proof.
    intros HN. rewrite cnt_gt_app, cnt_gt_zeros, cnt_gt_all; [lia|].
    eapply Forall_impl; [|exact HN]. intros a Ha. unfold bigv in Ha. lia.
  Qed.

  Lemma bigv_pure N : Forall bigv N -> pure N.
  Proof. intros H. eapply Forall_impl; [|exact H]. intros a Ha. right. exact Ha. Qed.

  (** two pure sorted vectors holding together at most k big sums: no two big sums meet *)
  Lemma pure_combine a f : length a = length f ->
    StronglySorted Z.le a -> StronglySorted Z.le f -> pure a -> pure f ->
    cnt_gt G a + cnt_gt G f <= Z.of_nat (length a) ->
    pure (zipsum a (rev f)) /\ cnt_gt G (zipsum a (rev f)) = cnt_gt G a + cnt_gt G f.
  Proof.
    intros HL Sa Sf Pa Pf Hc.
    destruct (pure_sorted_split a Sa Pa) as (m1 & N1 & Ea & HN1).
    destruct (pure_sorted_split f Sf Pf) as (mf & Nf & Ef & HNf).
    subst a f. rewrite !cnt_gt_split in * by assumption.
    rewrite !app_length, !repeat_length in *.
    rewrite rev_app_distr, rev_repeat.
    assert (HNr : Forall bigv (rev Nf)) by (apply Forall_rev; exact HNf).
    rewrite zipsum_disjoint by (rewrite rev_length; lia).
    split.
    - apply Forall_app. split; [apply bigv_pure; exact HNr|].
      apply Forall_app. split; [apply pure_zeros|apply bigv_pure; exact HN1].
    - rewrite cnt_gt_app, (cnt_gt_split _ N1 HN1), cnt_gt_all.
      + rewrite rev_length. lia.
      + eapply Forall_impl; [|exact HNr]. intros z Hz. unfold bigv in Hz. lia.
  Qed.

  Hypothesis HV : 0 <= V.

  Lemma pure_zmax s : pure s -> zmax s <= V.
  Proof.
    intros Hp. destruct s as [|x t]; [cbn; exact HV|]. apply zmax_lub; [discriminate|].
    eapply Forall_impl; [|exact Hp]. intros a [Ha|Ha]; unfold bigv in *; lia.
  Qed.

  Lemma cnt_gt_ex l : 1 <= cnt_gt G l -> exists z, In z l /\ G < z.
  Proof.
    induction l as [|x t IH]; [cbn; lia|]. rewrite cnt_gt_cons. unfold ind_gt.
    destruct (G <? x) eqn:E; intros H.
    - exists x. split; [left; reflexivity|lia].
    - destruct (IH ltac:(lia)) as (z & Hz & Hgz). exists z. split; [right; exact Hz|exact Hgz].
  Qed.

  Lemma cnt_gt_lt_ex l : cnt_gt G l < Z.of_nat (length l) -> exists z, In z l /\ z <= G.
  Proof.
    induction l as [|x t IH]; [cbn; lia|]. rewrite cnt_gt_cons. cbn [length]. unfold ind_gt.
    destruct (G <? x) eqn:E; intros H.
    - destruct (IH ltac:(lia)) as (z & Hz & Hgz). exists z. split; [right; exact Hz|exact Hgz].
    - exists x. split; [left; reflexivity|lia].
  Qed.

  (** a pure vector with a big sum and an empty bin has a big spread *)
  Lemma pure_spread s : pure s -> 1 <= cnt_gt G s -> cnt_gt G s < Z.of_nat (length s) -> G < sp s.
  Proof.
    intros Hp H1 H2. destruct (cnt_gt_ex s H1) as (z1 & Hz1 & Hg1).
    destruct (cnt_gt_lt_ex s H2) as (z0 & Hz0 & Hg0).
    assert (E0 : z0 = 0).
    { unfold pure in Hp. rewrite Forall_forall in Hp. destruct (Hp z0 Hz0) as [E|E]; [exact E|unfold bigv in E; lia]. }
    pose proof (zmax_ge_in z1 s Hz1). pose proof (zmin_le_in z0 s Hz0). unfold sp. lia.
  Qed.

  Lemma sorted_hd_zmin a0 a' : StronglySorted Z.le (a0 :: a') -> zmin (a0 :: a') = a0.
  Proof.
    intros Hs. inversion Hs as [|x t _ Hx]; subst.
    pose proof (zmin_le_in a0 (a0 :: a') (or_introl eq_refl)) as H1.
    destruct (zmin_in (a0 :: a') ltac:(discriminate)) as [H2|H2]; [lia|].
    rewrite Forall_forall in Hx. specialize (Hx _ H2). lia.
  Qed.

  (** absorbing a single item into the smallest bin of a vector whose spread is at least the item *)
  Lemma unit_absorb a y : a <> [] -> StronglySorted Z.le a -> 0 <= y <= sp a ->
    zmax (zipsum a (rev (repeat 0 (length a - 1) ++ [y]))) <= zmax a.
  Proof.
    intros Hne Hs Hy. destruct a as [|a0 a']; [congruence|].
    cbn [length]. replace (S (length a') - 1)%nat with (length a') by lia.
    rewrite rev_app_distr, rev_repeat. cbn [rev app zipsum]. rewrite zipsum_zeros_r.
    unfold sp in Hy. rewrite (sorted_hd_zmin a0 a' Hs) in Hy.
    apply zmax_lub; [discriminate|]. constructor; [lia|].
    pose proof (zmax_ge (a0 :: a')) as H. apply Forall_cons_iff in H. destruct H as [_ H]. exact H.
  Qed.

  Lemma unit_spread m y : 0 <= y -> sp (repeat 0 m ++ [y]) <= y.
  Proof.
    intros Hy. unfold sp.
    assert (H1 : zmax (repeat 0 m ++ [y]) <= y).
    { apply zmax_lub; [destruct m; discriminate|]. apply Forall_app. split; [|constructor; [lia|constructor]].
      apply Forall_forall. intros z Hz. apply repeat_spec in Hz. lia. }
    assert (H2 : 0 <= zmin (repeat 0 m ++ [y])).
    { apply zmin_glb; [destruct m; discriminate|]. apply Forall_app. split; [|constructor; [lia|constructor]].
      apply Forall_forall. intros z Hz. apply repeat_spec in Hz. lia. }
    lia.
  Qed.

  Lemma sp_spread s M : sp s <= M -> spread_le M s.
  Proof.
    intros H x y Hx Hy. pose proof (zmax_ge_in x s Hx). pose proof (zmin_le_in y s Hy). unfold sp in H. lia.
  Qed.

  Lemma spread_sp s M : s <> [] -> spread_le M s -> sp s <= M.
  Proof. intros Hne H. unfold sp. apply H; [apply zmax_in|apply zmin_in]; exact Hne. Qed.

  (** ---- 4. heap entries ---- *)
  Context {A : Type}.
  Variable k : nat.
  Notation sv e := (sums (snd e)).

  Definition pushed (b : bins A) : @hentry A := (- bins_diff (sort_bins b), sort_bins b).

  Definition base (e : @hentry A) : Prop :=
    length (sv e) = k /\ StronglySorted Z.le (sv e) /\ fst e = - sp (sv e).
  Definition small (e : @hentry A) : Prop := spread_le G (sv e).
  Definition unitS (e : @hentry A) : Prop := exists y, 0 <= y <= G /\ sv e = repeat 0 (k - 1) ++ [y].
  Definition pureE (e : @hentry A) : Prop := pure (sv e).
  Definition lineok (e : @hentry A) : Prop := G < sp (sv e) /\ zmax (sv e) <= V.
  Definition bigsum (l : @heap A) : Z := zsum (map (fun e => cnt_gt G (sv e)) l).

  Definition InvB (h : @heap A) : Prop :=
    exists bigs smalls, h = bigs ++ smalls /\ Forall unitS smalls /\ Forall lineok bigs /\
      ((exists E, bigs = [E]) \/ (Forall pureE bigs /\ bigsum bigs <= Z.of_nat k)).
  Definition Inv (h : @heap A) : Prop := Forall base h /\ (Forall small h \/ InvB h).

  Lemma sv_pushed_perm (b : bins A) : Permutation (sv (pushed b)) (sums b).
  Proof. apply sort_bins_sums_perm. Qed.

  Lemma sp_perm s1 s2 : Permutation s1 s2 -> sp s1 = sp s2.
  Proof. intros P. unfold sp. rewrite (zmax_perm _ _ P), (zmin_perm _ _ P). reflexivity. Qed.

  Lemma pushed_base (b : bins A) : length b = k -> base (pushed b).
  Proof.
    intros HL. unfold base, pushed. cbn [fst snd]. split; [|split].
    - unfold sums. rewrite map_length. rewrite <- HL. apply sort_bins_length.
    - apply sort_bins_sorted.
    - rewrite (bins_diff_sorted (sort_bins b) (sort_bins_sorted b)). reflexivity.
  Qed.

  Lemma combine_sums (b1 b2 : bins A) : sums (kk_combine b1 b2) = zipsum (sums b1) (rev (sums b2)).
  Proof. unfold kk_combine. rewrite zip_combine_sums. unfold sums at 2. rewrite map_rev. reflexivity. Qed.

  (** where heap_insert puts an entry *)
  Lemma heap_insert_front (e : @hentry A) l : Forall (fun y => fst e < fst y) l -> heap_insert e l = e :: l.
  Proof.
    destruct l as [|y t]; [reflexivity|]. intros H. apply Forall_cons_iff in H. destruct H as [H _].
    cbn [heap_insert]. destruct (fst e <? fst y) eqn:E; [reflexivity|lia].
  Qed.

  Lemma heap_insert_skip (e : @hentry A) l2 : forall l1, Forall (fun y => fst y <= fst e) l1 ->
    heap_insert e (l1 ++ l2) = l1 ++ heap_insert e l2.
  Proof.
    induction l1 as [|y t IH]; intros H; [reflexivity|].
    apply Forall_cons_iff in H. destruct H as [Hy H]. cbn [app heap_insert].
    destruct (fst e <? fst y) eqn:E; [lia|]. rewrite IH by exact H. reflexivity.
  Qed.

  Lemma heap_insert_within (e : @hentry A) l2 : Forall (fun y => fst e < fst y) l2 -> forall l1,
    heap_insert e (l1 ++ l2) = heap_insert e l1 ++ l2.
  Proof.
    intros H2. induction l1 as [|y t IH]; cbn [app].
    - rewrite heap_insert_front by exact H2. reflexivity.
    - cbn [heap_insert]. destruct (fst e <? fst y); [reflexivity|]. rewrite IH. reflexivity.
  Qed.

  Lemma heap_push_pushed (h : @heap A) b : heap_push h b = heap_insert (pushed b) h.
  Proof. reflexivity. Qed.

  Lemma base_len_bins (e : @hentry A) : base e -> length (snd e) = k.
  Proof. intros (H & _ & _). unfold sums in H. rewrite map_length in H. exact H. Qed.

  Lemma new_base (e1 e2 : @hentry A) : base e1 -> base e2 -> base (pushed (kk_combine (snd e1) (snd e2))).
  Proof. intros H1 H2. apply pushed_base. rewrite kk_combine_length. apply base_len_bins. exact H1. Qed.

  Lemma new_perm (e1 e2 : @hentry A) :
    Permutation (sv (pushed (kk_combine (snd e1) (snd e2)))) (zipsum (sv e1) (rev (sv e2))).
  Proof. rewrite <- combine_sums. apply sv_pushed_perm. Qed.

  Lemma unit_small (e : @hentry A) : unitS e -> small e.
  Proof. intros (y & Hy & E). unfold small. rewrite E. apply sp_spread. pose proof (unit_spread (k - 1) y). lia. Qed.

  Lemma unit_key (e : @hentry A) : base e -> unitS e -> - G <= fst e.
  Proof.
    intros (_ & _ & Hk) (y & Hy & E). rewrite Hk, E. pose proof (unit_spread (k - 1) y). lia.
  Qed.

  Lemma line_key (e : @hentry A) : base e -> G < sp (sv e) -> fst e < - G.
  Proof. intros (_ & _ & Hk) H. rewrite Hk. lia. Qed.

  Lemma units_after (e : @hentry A) smalls : base e -> G < sp (sv e) -> Forall base smalls -> Forall unitS smalls ->
    Forall (fun y => fst e < fst y) smalls.
  Proof.
    intros He Hs Hb Hu. pose proof (line_key e He Hs) as H1.
    rewrite Forall_forall in *. intros y Hy. pose proof (unit_key y (Hb y Hy) (Hu y Hy)). lia.
  Qed.

  Lemma new_small (e1 e2 : @hentry A) : base e1 -> base e2 -> small e1 -> small e2 ->
    small (pushed (kk_combine (snd e1) (snd e2))).
  Proof.
    intros B1 B2 S1 S2. unfold small. eapply spread_le_perm; [symmetry; apply sv_pushed_perm|].
    pose proof (base_len_bins e1 B1) as L1. pose proof (base_len_bins e2 B2) as L2.
    destruct B1 as (_ & So1 & _). destruct B2 as (_ & So2 & _).
    apply kk_combine_spread; try assumption. rewrite L1, L2. reflexivity.
  Qed.

  (** case A: all spreads <= G *)
  Lemma step_small (e1 e2 : @hentry A) rest : Forall base (e1 :: e2 :: rest) -> Forall small (e1 :: e2 :: rest) ->
    Forall small (heap_push rest (kk_combine (snd e1) (snd e2))).
  Proof.
    intros HB HS. rewrite heap_push_pushed. apply heap_insert_Forall.
    - exact (Forall_inv_tail (Forall_inv_tail HS)).
    - apply new_small; [exact (Forall_inv HB)|exact (Forall_inv (Forall_inv_tail HB))
                       |exact (Forall_inv HS)|exact (Forall_inv (Forall_inv_tail HS))].
  Qed.

  Lemma sp_nil_contra : G < sp [] -> False.
  Proof. unfold sp. cbn. lia. Qed.

  (** case B1: one big entry absorbs a single small item *)
  Lemma step_line (e1 e2 : @hentry A) rest : Forall base (e1 :: e2 :: rest) -> lineok e1 ->
    Forall unitS (e2 :: rest) -> Inv (heap_push rest (kk_combine (snd e1) (snd e2))).
  Proof.
    intros HB [Hsp Hmax] HU. rewrite heap_push_pushed.
    pose proof (Forall_inv HB) as B1. pose proof (Forall_inv (Forall_inv_tail HB)) as B2.
    pose proof (Forall_inv_tail (Forall_inv_tail HB)) as BR.
    pose proof (Forall_inv HU) as (y & Hy & Ey). pose proof (Forall_inv_tail HU) as UR.
    set (new := pushed (kk_combine (snd e1) (snd e2))).
    assert (Bn : base new) by (apply new_base; assumption).
    assert (Hz : zmax (sv new) <= V).
    { unfold new. rewrite (zmax_perm _ _ (new_perm e1 e2)), Ey.
      destruct B1 as (L1 & So1 & _). rewrite <- L1.
      assert (Hne : sv e1 <> []) by (intros E; rewrite E in Hsp; exact (sp_nil_contra Hsp)).
      pose proof (unit_absorb (sv e1) y Hne So1 ltac:(lia)). lia. }
    split; [apply heap_insert_Forall; assumption|].
    destruct (Z_lt_le_dec G (sp (sv new))) as [Hbig|Hsm].
    - right. exists [new], rest. split; [|split; [exact UR|split]].
      + apply heap_insert_front. apply units_after; assumption.
      + constructor; [split; assumption|constructor].
      + left. exists new. reflexivity.
    - left. apply heap_insert_Forall.
      + eapply Forall_impl; [|exact UR]. intros e He. apply unit_small. exact He.
      + apply sp_spread. exact Hsm.
  Qed.

  Lemma cnt_gt_in z l : In z l -> G < z -> 1 <= cnt_gt G l.
  Proof.
    induction l as [|x t IH]; [intros []|]. intros [E|Hin] Hz; rewrite cnt_gt_cons; unfold ind_gt.
    - subst x. pose proof (cnt_gt_bounds G t). destruct (G <? z) eqn:E; lia.
    - specialize (IH Hin Hz). destruct (G <? x); lia.
  Qed.

  Lemma pure_line_cnt s : pure s -> G < sp s -> 1 <= cnt_gt G s.
  Proof.
    intros Hp Hs. assert (Hne : s <> []) by (intros E; rewrite E in Hs; exact (sp_nil_contra Hs)).
    pose proof (zmax_in s Hne) as H1. pose proof (zmin_in s Hne) as H2.
    apply (cnt_gt_in (zmax s) s H1). unfold pure in Hp. rewrite Forall_forall in Hp.
    destruct (Hp _ H2) as [E|E]; unfold sp, bigv in *; lia.
  Qed.

  Lemma bigsum_cons (e : @hentry A) l : bigsum (e :: l) = cnt_gt G (sv e) + bigsum l.
  Proof. reflexivity. Qed.

  Lemma bigsum_perm (l1 l2 : @heap A) : Permutation l1 l2 -> bigsum l1 = bigsum l2.
  Proof. intros P. unfold bigsum. apply zsum_perm, Permutation_map, P. Qed.

  Lemma bigsum_ge_len (l : @heap A) : Forall lineok l -> Forall pureE l -> Z.of_nat (length l) <= bigsum l.
  Proof.
    induction l as [|e t IH]; intros HL HP; [cbn; lia|].
    apply Forall_cons_iff in HL. destruct HL as [[He _] HL].
    apply Forall_cons_iff in HP. destruct HP as [Hp HP].
    rewrite bigsum_cons. cbn [length]. pose proof (pure_line_cnt (sv e) Hp He). specialize (IH HL HP). lia.
  Qed.

  (** case B2: two big entries made of big items only *)
  Lemma step_pure (e1 e2 : @hentry A) bigs' smalls :
    Forall base (e1 :: e2 :: bigs' ++ smalls) -> Forall lineok (e1 :: e2 :: bigs') ->
    Forall pureE (e1 :: e2 :: bigs') -> bigsum (e1 :: e2 :: bigs') <= Z.of_nat k ->
    Forall unitS smalls -> Inv (heap_push (bigs' ++ smalls) (kk_combine (snd e1) (snd e2))).
  Proof.
    intros HB HL HP HS HU. rewrite heap_push_pushed.
    pose proof (Forall_inv HB) as B1. pose proof (Forall_inv (Forall_inv_tail HB)) as B2.
    pose proof (Forall_inv_tail (Forall_inv_tail HB)) as BR.
    apply Forall_app in BR. destruct BR as [BRb BRs].
    pose proof (Forall_inv HP) as P1. pose proof (Forall_inv (Forall_inv_tail HP)) as P2.
    pose proof (Forall_inv_tail (Forall_inv_tail HP)) as PR.
    pose proof (Forall_inv_tail (Forall_inv_tail HL)) as LR.
    rewrite !bigsum_cons in HS.
    pose proof (bigsum_ge_len bigs' LR PR) as Hlen.
    set (new := pushed (kk_combine (snd e1) (snd e2))).
    assert (Bn : base new) by (apply new_base; assumption).
    destruct B1 as (L1 & So1 & K1). destruct B2 as (L2 & So2 & K2).
    destruct (pure_combine (sv e1) (sv e2) ltac:(congruence) So1 So2 P1 P2 ltac:(lia)) as [Pr Cr].
    assert (Pn : pureE new).
    { unfold pureE, pure. eapply Permutation_Forall; [symmetry; apply new_perm|exact Pr]. }
    assert (Cn : cnt_gt G (sv new) = cnt_gt G (sv e1) + cnt_gt G (sv e2)).
    { unfold new. rewrite (cnt_gt_perm _ _ _ (new_perm e1 e2)). exact Cr. }
    pose proof (pure_line_cnt _ P1 (proj1 (Forall_inv HL))) as C1.
    pose proof (cnt_gt_bounds G (sv e2)) as C2.
    split; [apply heap_insert_Forall; [apply Forall_app; split; assumption|exact Bn]|].
    destruct (Z_lt_le_dec G (sp (sv new))) as [Hbig|Hsm].
    - right. exists (heap_insert new bigs'), smalls. split; [|split; [exact HU|split]].
      + apply heap_insert_within. apply units_after; assumption.
      + apply heap_insert_Forall; [exact LR|]. split; [exact Hbig|apply pure_zmax; exact Pn].
      + right. split; [apply heap_insert_Forall; assumption|].
        rewrite (bigsum_perm _ _ (heap_insert_perm new bigs')), bigsum_cons. lia.
    - left. assert (Hfull : Z.of_nat k <= cnt_gt G (sv new)).
      { destruct (Z_lt_le_dec (cnt_gt G (sv new)) (Z.of_nat k)) as [Hlt|Hge]; [|exact Hge].
        destruct Bn as (Ln & _ & _). rewrite <- Ln in Hlt.
        pose proof (pure_spread (sv new) Pn ltac:(lia) Hlt). lia. }
      assert (E : bigs' = []) by (destruct bigs'; [reflexivity|cbn [length] in Hlen; lia]).
      subst bigs'. cbn [app]. apply heap_insert_Forall.
      + eapply Forall_impl; [|exact HU]. intros e He. apply unit_small. exact He.
      + apply sp_spread. exact Hsm.
  Qed.

  Lemma step_Inv (e1 e2 : @hentry A) rest : Inv (e1 :: e2 :: rest) ->
    Inv (heap_push rest (kk_combine (snd e1) (snd e2))).
  Proof.
    intros [HB Hc].
    assert (HA : Forall small (e1 :: e2 :: rest) -> Inv (heap_push rest (kk_combine (snd e1) (snd e2)))).
    { intros HS. split; [|left; apply step_small; assumption]. rewrite heap_push_pushed.
      apply heap_insert_Forall; [exact (Forall_inv_tail (Forall_inv_tail HB))|].
      apply new_base; [exact (Forall_inv HB)|exact (Forall_inv (Forall_inv_tail HB))]. }
    destruct Hc as [HS|(bigs & smalls & E & HU & HL & Hcase)]; [exact (HA HS)|].
    destruct bigs as [|b1 [|b2 bigs']].
    - cbn [app] in E. subst smalls. apply HA.
      eapply Forall_impl; [|exact HU]. intros e He. apply unit_small. exact He.
    - cbn [app] in E. injection E as E1 E2. subst b1.
      apply step_line; [exact HB|exact (Forall_inv HL)|]. rewrite E2. exact HU.
    - destruct Hcase as [(E0 & Eb)|[HP Hsum]]; [discriminate Eb|].
      cbn [app] in E. injection E as E1 E2 E3. subst b1 b2 rest.
      apply step_pure; assumption.
  Qed.

  Lemma kk_loop_Inv : forall fuel (h : @heap A), Inv h -> Inv (kk_loop fuel h).
  Proof.
    induction fuel as [|f IH]; intros h Hh; cbn [kk_loop]; [exact Hh|].
    destruct h as [|e1 [|e2 rest]]; try exact Hh. apply IH, step_Inv, Hh.
  Qed.

  (** what the invariant says about a heap with a single entry *)
  Lemma Inv_single (e : @hentry A) : (1 <= k)%nat -> Inv [e] ->
    zmax (sv e) <= V \/ zmax (sv e) - zmin (sv e) <= G.
  Proof.
    intros Hk [HB Hc]. pose proof (Forall_inv HB) as (L & _ & _).
    assert (Hne : sv e <> []) by (intros E; rewrite E in L; cbn [length] in L; lia).
    assert (HS : small e -> zmax (sv e) - zmin (sv e) <= G) by (intros H; apply (spread_sp _ _ Hne H)).
    destruct Hc as [HSm|(bigs & smalls & E & HU & HL & _)].
    - right. apply HS. exact (Forall_inv HSm).
    - destruct bigs as [|b1 bigs'].
      + cbn [app] in E. subst smalls. right. apply HS, unit_small. exact (Forall_inv HU).
      + cbn [app] in E. injection E as E1 _. subst b1. left. exact (proj2 (Forall_inv HL)).
  Qed.

  (** ---- 5. the initial heap ---- *)
  Lemma sorted_perm_eq : forall s1 s2, StronglySorted Z.le s1 -> StronglySorted Z.le s2 ->
    Permutation s1 s2 -> s1 = s2.
  Proof.
    induction s1 as [|x t1 IH]; intros s2 S1 S2 P.
    - apply Permutation_nil in P. subst s2. reflexivity.
    - destruct s2 as [|y t2]; [apply Permutation_sym, Permutation_nil in P; discriminate P|].
      inversion S1 as [|x' t' St1 Hx]; subst. inversion S2 as [|y' t'' St2 Hy]; subst.
      assert (E : x = y).
      { rewrite Forall_forall in Hx, Hy.
        assert (H1 : In y (x :: t1)) by (eapply Permutation_in; [symmetry; exact P|left; reflexivity]).
        assert (H2 : In x (y :: t2)) by (eapply Permutation_in; [exact P|left; reflexivity]).
        destruct H1 as [H1|H1]; [lia|]. destruct H2 as [H2|H2]; [lia|].
        specialize (Hx _ H1). specialize (Hy _ H2). lia. }
      subst y. f_equal. apply IH; [exact St1|exact St2|]. eapply Permutation_cons_inv. exact P.
  Qed.

  Lemma unit_sorted m v : 0 <= v -> StronglySorted Z.le (repeat 0 m ++ [v]).
  Proof.
    intros Hv. induction m as [|m IH]; cbn [repeat app]; [repeat constructor|].
    constructor; [exact IH|]. apply Forall_app. split; [|constructor; [lia|constructor]].
    apply Forall_forall. intros z Hz. apply repeat_spec in Hz. lia.
  Qed.

  Lemma update_mid {T} (f : T -> T) x l2 : forall l1 : list T,
    update (length l1) f (l1 ++ x :: l2) = l1 ++ f x :: l2.
  Proof. induction l1 as [|y l IHl]; cbn [length app update]; [reflexivity|]. rewrite IHl. reflexivity. Qed.

  Lemma single_vec_unit v : (1 <= k)%nat -> single_vec k v = repeat 0 (k - 1) ++ [v].
  Proof.
    intros Hk. unfold single_vec. replace k with ((k - 1) + 1)%nat at 2 by lia.
    rewrite repeat_app. cbn [repeat].
    rewrite <- (repeat_length 0 (k - 1)) at 1. rewrite update_mid. reflexivity.
  Qed.

  Variable valueof : A -> Z.
  Notation entry x := (pushed (singleton_bins valueof true k x)).

  Lemma entry_sv x : (1 <= k)%nat -> 0 <= valueof x -> sv (entry x) = repeat 0 (k - 1) ++ [valueof x].
  Proof.
    intros Hk Hv. apply sorted_perm_eq.
    - apply sort_bins_sorted.
    - apply unit_sorted. exact Hv.
    - rewrite <- (single_vec_unit (valueof x) Hk), <- (singleton_bins_sums valueof k x). apply sv_pushed_perm.
  Qed.

  Lemma entry_base x : base (entry x).
  Proof. apply pushed_base. apply singleton_bins_length. Qed.

  Lemma entry_unit x : (1 <= k)%nat -> 0 <= valueof x <= G -> unitS (entry x).
  Proof. intros Hk Hv. exists (valueof x). split; [exact Hv|]. apply entry_sv; [exact Hk|lia]. Qed.

  Lemma entry_big x : (2 <= k)%nat -> G < valueof x <= V ->
    lineok (entry x) /\ pureE (entry x) /\ cnt_gt G (sv (entry x)) = 1.
  Proof.
    intros Hk Hv. pose proof (entry_sv x ltac:(lia) ltac:(lia)) as E.
    assert (HN : Forall bigv [valueof x]) by (constructor; [exact Hv|constructor]).
    assert (Hp : pure (sv (entry x))).
    { rewrite E. apply Forall_app. split; [apply pure_zeros|apply bigv_pure; exact HN]. }
    assert (Hc : cnt_gt G (sv (entry x)) = 1) by (rewrite E, (cnt_gt_split _ _ HN); reflexivity).
    split; [|split; [exact Hp|exact Hc]]. split; [|apply pure_zmax; exact Hp].
    apply (pure_spread _ Hp); [lia|]. rewrite Hc, E, app_length, repeat_length. cbn [length]. lia.
  Qed.

  Lemma init_fold : (2 <= k)%nat -> forall l, Forall (fun x => 0 <= valueof x <= V) l ->
    forall bigs smalls, Forall base (bigs ++ smalls) -> Forall unitS smalls ->
    Forall lineok bigs -> Forall pureE bigs ->
    exists bigs' smalls',
      fold_left (fun h x => heap_push h (singleton_bins valueof true k x)) l (bigs ++ smalls) = bigs' ++ smalls' /\
      Forall base (bigs' ++ smalls') /\ Forall unitS smalls' /\ Forall lineok bigs' /\ Forall pureE bigs' /\
      bigsum bigs' = bigsum bigs + cnt_gt G (map valueof l).
  Proof.
    intros Hk. induction l as [|x t IH]; intros Hl bigs smalls HB HU HL HP.
    - exists bigs, smalls. cbn [fold_left map]. repeat split; try assumption. cbn. lia.
    - apply Forall_cons_iff in Hl. destruct Hl as [Hx Hl]. cbn [fold_left map].
      rewrite cnt_gt_cons, heap_push_pushed.
      pose proof HB as HB'. apply Forall_app in HB'. destruct HB' as [HBb HBs].
      destruct (Z_lt_le_dec G (valueof x)) as [Hbig|Hsm].
      + destruct (entry_big x Hk ltac:(lia)) as (E1 & E2 & E3).
        rewrite heap_insert_within by (apply units_after; [apply entry_base|exact (proj1 E1)|exact HBs|exact HU]).
        destruct (IH Hl (heap_insert (entry x) bigs) smalls) as (b' & s' & F1 & F2 & F3 & F4 & F5 & F6).
        * apply Forall_app. split; [apply heap_insert_Forall; [exact HBb|apply entry_base]|exact HBs].
        * exact HU.
        * apply heap_insert_Forall; assumption.
        * apply heap_insert_Forall; assumption.
        * exists b', s'. repeat split; try assumption.
          rewrite F6, (bigsum_perm _ _ (heap_insert_perm (entry x) bigs)), bigsum_cons, E3.
          unfold ind_gt. destruct (G <? valueof x) eqn:E; lia.
      + assert (HUx : unitS (entry x)) by (apply entry_unit; lia).
        rewrite heap_insert_skip.
        * destruct (IH Hl bigs (heap_insert (entry x) smalls)) as (b' & s' & F1 & F2 & F3 & F4 & F5 & F6).
          -- apply Forall_app. split; [exact HBb|apply heap_insert_Forall; [exact HBs|apply entry_base]].
          -- apply heap_insert_Forall; assumption.
          -- exact HL.
          -- exact HP.
          -- exists b', s'. repeat split; try assumption. rewrite F6.
             unfold ind_gt. destruct (G <? valueof x) eqn:E; lia.
        * pose proof (unit_key _ (entry_base x) HUx) as Hkx.
          rewrite Forall_forall in *. intros y Hy.
          pose proof (line_key y (HBb y Hy) (proj1 (HL y Hy))). lia.
  Qed.

  Lemma initial_Inv items : (2 <= k)%nat -> Forall (fun x => 0 <= valueof x <= V) items ->
    cnt_gt G (map valueof items) <= Z.of_nat k -> Inv (initial_heap valueof true k items).
  Proof.
    intros Hk Hl Hc. unfold initial_heap.
    assert (Hl' : Forall (fun x => 0 <= valueof x <= V) (sort_desc valueof items)).
    { eapply Permutation_Forall; [symmetry; apply sort_desc_perm|exact Hl]. }
    destruct (init_fold Hk (sort_desc valueof items) Hl' [] [] ltac:(constructor) ltac:(constructor)
                ltac:(constructor) ltac:(constructor)) as (b' & s' & F1 & F2 & F3 & F4 & F5 & F6).
    cbn [app] in F1. rewrite F1. split; [exact F2|]. right. exists b', s'.
    split; [reflexivity|split; [exact F3|split; [exact F4|]]]. right. split; [exact F5|].
    rewrite F6. change (bigsum []) with 0.
    rewrite (cnt_gt_perm G _ _ (Permutation_map valueof (sort_desc_perm valueof items))). lia.
  Qed.

  (** ---- 6. the dichotomy ---- *)
  Theorem kk_dichotomy_gen items b : (1 <= k)%nat -> items <> [] ->
    Forall (fun x => 0 <= valueof x <= V) items -> cnt_gt G (map valueof items) <= Z.of_nat k ->
    kk valueof true k items = Ok b ->
    zmax (sums b) <= V \/ zmax (sums b) - zmin (sums b) <= G.
  Proof.
    intros Hk Hne Hl Hc Hkk.
    destruct (Nat.eq_dec k 1) as [E1|E1].
    - right. destruct (kk_partition valueof k items Hk Hne) as (b' & Hb' & (_ & HL & _)).
      rewrite Hkk in Hb'. injection Hb' as <-. rewrite E1 in HL.
      destruct b as [|x [|y t]]; cbn [length] in HL; try lia. cbn. lia.
    - pose proof (kk_loop_Inv (length items - 1) _ (initial_Inv items ltac:(lia) Hl Hc)) as HI.
      assert (Hpos : (1 <= length items)%nat) by (destruct items; [congruence|cbn [length]; lia]).
      pose proof (kk_loop_length (length items - 1) (initial_heap valueof true k items)) as HN.
      rewrite initial_heap_length in HN. specialize (HN Hpos ltac:(lia)).
      unfold kk in Hkk.
      destruct (kk_loop (length items - 1) (initial_heap valueof true k items)) as [|e [|e' r]];
        cbn [length] in HN; try lia.
      injection Hkk as <-. apply Inv_single; assumption.
  Qed.
End Vec.

(** ---- 7. the theorems ---- *)
Section KKRatio.
  Context {A : Type} (valueof : A -> Z).

  (** for every threshold G that at most k items exceed: either the largest sum is a single item,
      or the sums differ by at most G *)
  Theorem kk_dichotomy k items b G : (1 <= k)%nat -> items <> [] ->
    Forall (fun x => 0 <= valueof x) items -> 0 <= G ->
    cnt_gt G (map valueof items) <= Z.of_nat k ->
    kk valueof true k items = Ok b ->
    zmax (sums b) <= zmax (map valueof items) \/ zmax (sums b) - zmin (sums b) <= G.
  Proof.
    intros Hk Hne Hpos HG Hc Hkk. destruct (zmax_values_bound valueof items Hpos) as [HM Hall].
    apply (kk_dichotomy_gen G (zmax (map valueof items)) HG HM k valueof items b); assumption.
  Qed.

  (** G = the (k+1)-th largest value (0 when there are at most k items) *)
  Definition kth_value (k : nat) (items : list A) : Z := nth k (sorted_values valueof items) 0.

  Theorem kk_gap_kth k items b : (1 <= k)%nat -> items <> [] ->
    Forall (fun x => 0 <= valueof x) items -> kk valueof true k items = Ok b ->
    zmax (sums b) <= zmax (map valueof items) \/ zmax (sums b) - zmin (sums b) <= kth_value k items.
  Proof.
    intros Hk Hne Hpos Hkk.
    destruct (kth_threshold k (sorted_values valueof items) (sorted_values_sorted valueof items)
                (sorted_values_nonneg valueof items Hpos)) as (H0 & H1 & _).
    apply (kk_dichotomy k items b (kth_value k items)); try assumption.
    rewrite <- (cnt_gt_perm _ _ _ (sorted_values_perm valueof items)). exact H1.
  Qed.

  (** KK's largest sum is at most (3/2 - 1/(2k)) times the optimum *)
  Theorem kk_ratio_32_partial k items b opt : (1 <= k)%nat -> items <> [] ->
    Forall (fun x => 0 <= valueof x) items -> kk valueof true k items = Ok b ->
    Opt MinLargest k (map valueof items) opt ->
    2 * Z.of_nat k * zmax (sums b) <= (3 * Z.of_nat k - 1) * opt.
  Proof.
    intros Hk Hne Hpos Hkk Hopt.
    pose proof (values_nonneg valueof items Hpos) as Hvs.
    destruct (kk_partition valueof k items Hk Hne) as (b' & Hb' & Hpart).
    rewrite Hkk in Hb'. injection Hb' as <-.
    destruct (kth_threshold k (sorted_values valueof items) (sorted_values_sorted valueof items)
                (sorted_values_nonneg valueof items Hpos)) as (H0 & _ & H2).
    apply (gap_ratio_32 k (map valueof items) (sums b) opt (kth_value k items)); try assumption.
    - apply partition_attainable. exact Hpart.
    - unfold kth_value. destruct (Nat.lt_ge_cases k (length (sorted_values valueof items))) as [Hlt|Hge].
      + apply (opt_ge_twice k (map valueof items)); try assumption.
        unfold cnt_ge. rewrite <- (zsum_perm _ _ (Permutation_map _ (sorted_values_perm valueof items))). apply H2. exact Hlt.
      + rewrite (nth_overflow _ 0 Hge). pose proof (opt_minlargest_nonneg _ _ _ Hopt Hvs Hk). lia.
    - apply kk_gap_kth; assumption.
  Qed.
End KKRatio.

(** ---- 8. towards 4/3 - 1/(3k): what a threshold at the (2k+1)-th largest value would give ---- *)
Definition Ppig3 (g l wl : Z) : Prop :=
  0 <= wl /\ 0 <= l /\ (1 <= wl -> g <= l) /\ (2 <= wl -> 2 * g <= l) /\ (3 <= wl -> 3 * g <= l).

Lemma Ppig3_step g a l wl : 0 <= g -> 0 <= a -> Ppig3 g l wl -> Ppig3 g (l + a) (wl + ind_ge g a).
Proof. unfold Ppig3, ind_ge. intros Hg Ha (H0 & H1 & H2 & H3 & H4). destruct (g <=? a) eqn:E; lia. Qed.

(** 2k + 1 values >= g in k bins: some bin holds three of them *)
Lemma pigeon_thrice k vs s g : 0 <= g -> Forall (fun v => 0 <= v) vs -> Attainable k vs s ->
  2 * Z.of_nat k < cnt_ge g vs -> 3 * g <= zmax s.
Proof.
  intros Hg Hpos Hs Hc. destruct (Z_lt_le_dec (zmax s) (3 * g)) as [Hlt|Hle]; [exfalso|exact Hle].
  destruct (weights_along (Ppig3 g) (ind_ge g) k vs s) as (t & H1 & H2 & H3).
  - unfold Ppig3. lia.
  - eapply Forall_impl; [|exact Hpos]. intros a Ha l wl Hl. apply Ppig3_step; assumption.
  - exact Hs.
  - assert (Ht : Forall (fun b => b <= 2) t).
    { apply (Forall2_transfer (Ppig3 g) (fun a => a <= zmax s) (fun b => b <= 2)) with (s := s); auto.
      - unfold Ppig3. intros a b Hab Ha. lia.
      - apply zmax_ge. }
    pose proof (zsum_le_bound 2 t Ht) as H4. rewrite H2 in H4. unfold cnt_ge in Hc. lia.
Qed.

Lemma gap_ratio_43 k vs s opt G : (1 <= k)%nat -> Forall (fun v => 0 <= v) vs ->
  Attainable k vs s -> Opt MinLargest k vs opt -> 3 * G <= opt ->
  zmax s <= opt \/ zmax s - zmin s <= G ->
  3 * Z.of_nat k * zmax s <= (4 * Z.of_nat k - 1) * opt.
Proof.
  intros Hk Hpos Hs Hopt HG Hd.
  destruct (opt_minlargest_lower_bounds _ _ _ Hopt Hpos Hk) as [Hsum _].
  pose proof (opt_minlargest_nonneg _ _ _ Hopt Hpos Hk) as H0.
  set (K := Z.of_nat k) in *. assert (HK : 1 <= K) by (subst K; lia).
  assert (E0 : 0 <= (K - 1) * opt) by (apply Z.mul_nonneg_nonneg; lia).
  destruct Hd as [Hd|Hd].
  - assert (E1 : K * zmax s <= K * opt) by (apply Z.mul_le_mono_nonneg_l; lia). lia.
  - pose proof (Attainable_length _ _ _ Hs) as Hlen. pose proof (Attainable_sum _ _ _ Hs) as Hss.
    assert (Hne : s <> []) by (apply length_pos_ne; lia).
    pose proof (zsum_ge_one_plus_rest (zmax s) (zmin s) s (zmax_in s Hne) (zmin_le s)) as H1.
    rewrite Hlen in H1. fold K in H1.
    assert (H2 : (K - 1) * (zmax s - G) <= (K - 1) * zmin s) by (apply Z.mul_le_mono_nonneg_l; lia).
    assert (H3 : (K - 1) * (3 * G) <= (K - 1) * opt) by (apply Z.mul_le_mono_nonneg_l; lia).
    lia.
Qed.

(** the requested statement (C08), NOT proved in general *)
Definition kk_ratio_43_statement : Prop :=
  forall (A : Type) (valueof : A -> Z) (k : nat) (items : list A) (b : bins A) (opt : Z),
    (1 <= k)%nat -> items <> [] -> Forall (fun x => 0 <= valueof x) items ->
    kk valueof true k items = Ok b -> Opt MinLargest k (map valueof items) opt ->
    3 * Z.of_nat k * zmax (sums b) <= (4 * Z.of_nat k - 1) * opt.

Section KKRatio43.
  Context {A : Type} (valueof : A -> Z).

  (** k = 1 *)
  Theorem kk_ratio_43_k1 items b opt : items <> [] -> Forall (fun x => 0 <= valueof x) items ->
    kk valueof true 1 items = Ok b -> Opt MinLargest 1 (map valueof items) opt ->
    3 * Z.of_nat 1 * zmax (sums b) <= (4 * Z.of_nat 1 - 1) * opt.
  Proof.
    intros Hne Hpos Hkk Hopt.
    pose proof (kk_ratio_2 valueof 1 items b opt ltac:(lia) Hne Hpos Hkk Hopt). lia.
  Qed.

  (** k = 2: 5/4 instead of the 7/6 of Fischetti and Martello *)
  Corollary kk_ratio_54_k2_partial items b opt : items <> [] -> Forall (fun x => 0 <= valueof x) items ->
    kk valueof true 2 items = Ok b -> Opt MinLargest 2 (map valueof items) opt ->
    4 * zmax (sums b) <= 5 * opt.
  Proof.
    intros Hne Hpos Hkk Hopt.
    pose proof (kk_ratio_32_partial valueof 2 items b opt ltac:(lia) Hne Hpos Hkk Hopt). lia.
  Qed.

  (** the full bound would follow from the dichotomy at the (2k+1)-th largest value
      ("largest sum <= OPT, or the sums differ by at most the (2k+1)-th largest value") *)
  Theorem kk_ratio_43_from_dichotomy k items b opt : (1 <= k)%nat -> items <> [] ->
    Forall (fun x => 0 <= valueof x) items -> kk valueof true k items = Ok b ->
    Opt MinLargest k (map valueof items) opt ->
    zmax (sums b) <= opt \/ zmax (sums b) - zmin (sums b) <= kth_value valueof (2 * k) items ->
    3 * Z.of_nat k * zmax (sums b) <= (4 * Z.of_nat k - 1) * opt.
  Proof.
    intros Hk Hne Hpos Hkk Hopt Hd.
    pose proof (values_nonneg valueof items Hpos) as Hvs.
    destruct (kk_partition valueof k items Hk Hne) as (b' & Hb' & Hpart).
    rewrite Hkk in Hb'. injection Hb' as <-.
    destruct (kth_threshold (2 * k) (sorted_values valueof items) (sorted_values_sorted valueof items)
                (sorted_values_nonneg valueof items Hpos)) as (H0 & _ & H2).
    apply (gap_ratio_43 k (map valueof items) (sums b) opt (kth_value valueof (2 * k) items)); try assumption.
    - apply partition_attainable. exact Hpart.
    - unfold kth_value.
      destruct (Nat.lt_ge_cases (2 * k) (length (sorted_values valueof items))) as [Hlt|Hge].
      + destruct Hopt as [(s & Hs & Ev) _]. rewrite value_MinLargest in Ev. subst opt.
        apply (pigeon_thrice k (map valueof items) s); try assumption.
        unfold cnt_ge. rewrite <- (zsum_perm _ _ (Permutation_map _ (sorted_values_perm valueof items))).
        specialize (H2 Hlt). unfold cnt_ge in H2. lia.
      + rewrite (nth_overflow _ 0 Hge). pose proof (opt_minlargest_nonneg _ _ _ Hopt Hvs Hk). lia.
  Qed.
End KKRatio43.

(** ---- 9. k = 2: number differencing (Fischetti and Martello's 7/6) ---- *)

(** the list of spreads of a 2-bin heap evolves by differencing the two largest numbers *)
Fixpoint ins (x : Z) (l : list Z) : list Z :=
  match l with
  | [] => [x]
  | y :: t => if y <? x then x :: y :: t else y :: ins x t
  end.

Fixpoint kd (fuel : nat) (l : list Z) : list Z :=
  match fuel with
  | O => l
  | S f => match l with x :: y :: r => kd f (ins (x - y) r) | _ => l end
  end.

Notation desc := (StronglySorted (fun a b : Z => b <= a)).

Lemma ins_perm x l : Permutation (ins x l) (x :: l).
Proof.
  induction l as [|y t IH]; cbn [ins]; [reflexivity|]. destruct (y <? x); [reflexivity|].
  rewrite IH. apply perm_swap.
Qed.

Lemma ins_zsum x l : zsum (ins x l) = x + zsum l.
Proof. rewrite (zsum_perm _ _ (ins_perm x l)). reflexivity. Qed.

Lemma ins_length x l : length (ins x l) = S (length l).
Proof. apply (Permutation_length (ins_perm x l)). Qed.

Lemma ins_desc x l : desc l -> desc (ins x l).
Proof.
  induction 1 as [|y t Ht IH Hy]; cbn [ins]; [repeat constructor|].
  destruct (y <? x) eqn:E.
  - constructor; [constructor; assumption|]. constructor; [lia|].
    eapply Forall_impl; [|exact Hy]. intros a Ha. cbv beta in Ha. lia.
  - constructor; [exact IH|]. eapply Permutation_Forall; [symmetry; apply ins_perm|].
    constructor; [lia|exact Hy].
Qed.

Lemma ins_Forall (P : Z -> Prop) x l : P x -> Forall P l -> Forall P (ins x l).
Proof. intros Hx Hl. eapply Permutation_Forall; [symmetry; apply ins_perm|]. constructor; assumption. Qed.

Lemma ins_front x l : Forall (fun y => y < x) l -> ins x l = x :: l.
Proof.
  destruct l as [|y t]; [reflexivity|]. intros H. apply Forall_cons_iff in H. destruct H as [H _].
  cbn [ins]. destruct (y <? x) eqn:E; [reflexivity|lia].
Qed.

Lemma ins_after x y t : x <= y -> ins x (y :: t) = y :: ins x t.
Proof. intros H. cbn [ins]. destruct (y <? x) eqn:E; [lia|reflexivity]. Qed.

Lemma zs_cons x l : zsum (x :: l) = x + zsum l.
Proof. reflexivity. Qed.
Lemma zs_nil : zsum [] = 0.
Proof. reflexivity. Qed.

Section Diff.
  Variable G : Z.
  Hypothesis HG : 0 <= G.
  Definition smallz (z : Z) : Prop := 0 <= z <= G.

  Lemma desc_inv x l : desc (x :: l) -> desc l /\ Forall (fun a => a <= x) l.
  Proof. intros H. inversion H as [|x' l' H1 H2]; subst. split; assumption. Qed.

  (** all numbers small: the result is small *)
  Lemma kd_small_single : forall f l, desc l -> l <> [] -> Forall smallz l -> (length l <= S f)%nat ->
    exists d, kd f l = [d] /\ 0 <= d <= G.
  Proof.
    induction f as [|f IH]; intros l Hd Hne Hs Hlen.
    - destruct l as [|x [|y r]]; [congruence| |cbn [length] in Hlen; lia].
      exists x. split; [reflexivity|]. exact (Forall_inv Hs).
    - destruct l as [|x [|y r]]; [congruence| |].
      + exists x. split; [reflexivity|]. exact (Forall_inv Hs).
      + cbn [kd]. destruct (desc_inv _ _ Hd) as [Hd1 Hx]. destruct (desc_inv _ _ Hd1) as [Hd2 Hy].
        pose proof (Forall_inv Hs) as Sx. pose proof (Forall_inv (Forall_inv_tail Hs)) as Sy.
        pose proof (Forall_inv Hx) as Hyx. unfold smallz in *.
        apply IH.
        * apply ins_desc. exact Hd2.
        * intros E. pose proof (ins_length (x - y) r) as L. rewrite E in L. discriminate L.
        * apply ins_Forall; [unfold smallz; lia|exact (Forall_inv_tail (Forall_inv_tail Hs))].
        * rewrite ins_length. cbn [length] in Hlen. lia.
  Qed.

  (** one number above small ones: it absorbs them all, or the result is small *)
  Lemma kd_dom : forall f x r, desc (x :: r) -> 0 <= x -> Forall smallz r -> (length r <= f)%nat ->
    exists d, kd f (x :: r) = [d] /\ (0 <= d <= G \/ d = x - zsum r).
  Proof.
    induction f as [|f IH]; intros x r Hd Hx Hs Hlen.
    - destruct r as [|y r]; [|cbn [length] in Hlen; lia]. exists x. split; [reflexivity|]. right. rewrite zs_nil. lia.
    - destruct r as [|y r].
      + exists x. split; [reflexivity|]. right. rewrite zs_nil. lia.
      + cbn [kd]. destruct (desc_inv _ _ Hd) as [Hd1 Hxr]. destruct (desc_inv _ _ Hd1) as [Hd2 Hyr].
        pose proof (Forall_inv Hs) as Sy. pose proof (Forall_inv_tail Hs) as Sr.
        pose proof (Forall_inv Hxr) as Hyx. cbv beta in Hyx. unfold smallz in Sy. cbn [length] in Hlen.
        destruct (Z_lt_le_dec G (x - y)) as [Hbig|Hsm].
        * assert (Hlt : Forall (fun a => a < x - y) r).
          { eapply Forall_impl; [|exact Sr]. intros a Ha. unfold smallz in Ha. lia. }
          rewrite (ins_front _ _ Hlt).
          destruct (IH (x - y) r) as (d & E & Hdd); [| |exact Sr| |].
          -- constructor; [exact Hd2|]. eapply Forall_impl; [|exact Hlt]. intros a Ha. cbv beta in Ha. lia.
          -- lia.
          -- lia.
          -- exists d. split; [exact E|]. rewrite zs_cons. destruct Hdd as [Hdd|Hdd]; [left; exact Hdd|right; lia].
        * destruct (kd_small_single f (ins (x - y) r)) as (d & E & Hdd).
          -- apply ins_desc. exact Hd2.
          -- intros E. pose proof (ins_length (x - y) r) as L. rewrite E in L. discriminate L.
          -- apply ins_Forall; [unfold smallz; lia|exact Sr].
          -- rewrite ins_length. lia.
          -- exists d. split; [exact E|left; exact Hdd].
  Qed.

  Lemma ins_nonnil x l : ins x l <> [].
  Proof. intros E. pose proof (ins_length x l) as L. rewrite E in L. discriminate L. Qed.

  Lemma small_lt c r : G < c -> Forall smallz r -> Forall (fun a => a < c) r.
  Proof. intros Hc Hr. eapply Forall_impl; [|exact Hr]. intros a Ha. unfold smallz in Ha. lia. Qed.

  Lemma desc_cons x l : desc l -> Forall (fun a => a <= x) l -> desc (x :: l).
  Proof. intros H1 H2. constructor; assumption. Qed.

  Lemma lt_le_all c r : Forall (fun a => a < c) r -> Forall (fun a : Z => a <= c) r.
  Proof. intros H. eapply Forall_impl; [|exact H]. intros a Ha. cbv beta in Ha. lia. Qed.

  (** two numbers above small ones *)
  Lemma kd_two f x y r : desc (x :: y :: r) -> 0 <= y -> Forall smallz r -> (S (length r) <= f)%nat ->
    exists d, kd f (x :: y :: r) = [d] /\ (0 <= d <= G \/ d = x - y - zsum r).
  Proof.
    intros Hd Hy Hs Hlen. destruct f as [|f]; [lia|]. cbn [kd].
    destruct (desc_inv _ _ Hd) as [Hd1 Hxr]. destruct (desc_inv _ _ Hd1) as [Hd2 Hyr].
    pose proof (Forall_inv Hxr) as Hyx. cbv beta in Hyx.
    destruct (Z_lt_le_dec G (x - y)) as [Hbig|Hsm].
    - pose proof (small_lt _ _ Hbig Hs) as Hlt. rewrite (ins_front _ _ Hlt).
      apply kd_dom; [apply desc_cons; [exact Hd2|apply lt_le_all; exact Hlt]|lia|exact Hs|lia].
    - destruct (kd_small_single f (ins (x - y) r)) as (d & E & Hdd).
      + apply ins_desc. exact Hd2.
      + apply ins_nonnil.
      + apply ins_Forall; [unfold smallz; lia|exact Hs].
      + rewrite ins_length. lia.
      + exists d. split; [exact E|left; exact Hdd].
  Qed.

  (** a number above small ones, among which another number c has been inserted *)
  Lemma kd_dom_ins f x c q : desc (x :: q) -> Forall smallz q -> 0 <= c <= x -> (S (length q) <= f)%nat ->
    exists d, kd f (x :: ins c q) = [d] /\ (0 <= d <= G \/ d = x - c - zsum q).
  Proof.
    intros Hd Hs Hc Hlen. destruct (desc_inv _ _ Hd) as [Hd1 Hxq].
    destruct (Z_lt_le_dec G c) as [Hbig|Hsm].
    - pose proof (small_lt _ _ Hbig Hs) as Hlt. rewrite (ins_front _ _ Hlt).
      apply kd_two; [|lia|exact Hs|exact Hlen].
      apply desc_cons; [apply desc_cons; [exact Hd1|apply lt_le_all; exact Hlt]|].
      constructor; [lia|exact Hxq].
    - destruct (kd_dom f x (ins c q)) as (d & E & Hdd).
      + apply desc_cons; [apply ins_desc; exact Hd1|apply ins_Forall; [lia|exact Hxq]].
      + lia.
      + apply ins_Forall; [unfold smallz; lia|exact Hs].
      + rewrite ins_length. exact Hlen.
      + exists d. split; [exact E|]. rewrite ins_zsum in Hdd. destruct Hdd as [Hdd|Hdd]; [left; exact Hdd|right; lia].
  Qed.

  (** two numbers inserted among small ones *)
  Lemma kd_ins_ins f c1 c' q : desc q -> Forall smallz q -> 0 <= c1 -> 0 <= c' ->
    (S (length q) <= f)%nat ->
    exists d, kd f (ins c' (ins c1 q)) = [d] /\
      (0 <= d <= G \/ d = c' - c1 - zsum q \/ d = c1 - c' - zsum q).
  Proof.
    intros Hd Hs H1 H2 Hlen.
    destruct (Z_lt_le_dec G c1) as [Hb1|Hs1].
    - pose proof (small_lt _ _ Hb1 Hs) as Hlt. rewrite (ins_front _ _ Hlt).
      assert (Hd1 : desc (c1 :: q)) by (apply desc_cons; [exact Hd|apply lt_le_all; exact Hlt]).
      destruct (Z_lt_le_dec c1 c') as [Hlt'|Hle'].
      + assert (E : ins c' (c1 :: q) = c' :: c1 :: q).
        { cbn [ins]. destruct (c1 <? c') eqn:E; [reflexivity|lia]. }
        rewrite E. destruct (kd_two f c' c1 q) as (d & Ed & Hdd); [|lia|exact Hs|exact Hlen|].
        * apply desc_cons; [exact Hd1|]. constructor; [lia|].
          eapply Forall_impl; [|exact Hlt]. intros a Ha. cbv beta in Ha. lia.
        * exists d. split; [exact Ed|]. destruct Hdd as [Hdd|Hdd]; [left; exact Hdd|right; left; exact Hdd].
      + rewrite (ins_after c' c1 q Hle').
        destruct (kd_dom_ins f c1 c' q Hd1 Hs ltac:(lia) Hlen) as (d & Ed & Hdd).
        exists d. split; [exact Ed|]. destruct Hdd as [Hdd|Hdd]; [left; exact Hdd|right; right; exact Hdd].
    - assert (Hq1 : Forall smallz (ins c1 q)) by (apply ins_Forall; [unfold smallz; lia|exact Hs]).
      destruct (Z_lt_le_dec G c') as [Hb'|Hs'].
      + pose proof (small_lt _ _ Hb' Hq1) as Hlt. rewrite (ins_front _ _ Hlt).
        destruct (kd_dom f c' (ins c1 q)) as (d & Ed & Hdd); [|lia|exact Hq1| |].
        * apply desc_cons; [apply ins_desc; exact Hd|apply lt_le_all; exact Hlt].
        * rewrite ins_length. exact Hlen.
        * exists d. split; [exact Ed|]. rewrite ins_zsum in Hdd.
          destruct Hdd as [Hdd|Hdd]; [left; exact Hdd|right; left; lia].
      + destruct (kd_small_single f (ins c' (ins c1 q))) as (d & Ed & Hdd).
        * apply ins_desc, ins_desc. exact Hd.
        * apply ins_nonnil.
        * apply ins_Forall; [unfold smallz; lia|exact Hq1].
        * rewrite !ins_length. lia.
        * exists d. split; [exact Ed|left; exact Hdd].
  Qed.

  Lemma ins_lt x y t : y < x -> ins x (y :: t) = x :: y :: t.
  Proof. intros H. cbn [ins]. destruct (y <? x) eqn:E; [reflexivity|lia]. Qed.

  (** three numbers above small ones *)
  Lemma kd_three f a1 a2 a3 q : desc (a1 :: a2 :: a3 :: q) -> 0 <= a3 -> Forall smallz q ->
    (S (S (length q)) <= f)%nat ->
    exists d, kd f (a1 :: a2 :: a3 :: q) = [d] /\
      (0 <= d <= G \/ a1 + a2 + a3 + zsum q + d = 2 * a1 \/ a1 + a2 + a3 + zsum q + d = 2 * (a2 + a3)).
  Proof.
    intros Hd H3 Hs Hlen. destruct f as [|f]; [lia|]. cbn [kd].
    destruct (desc_inv _ _ Hd) as [Hd1 Hx1]. destruct (desc_inv _ _ Hd1) as [Hd2 Hx2].
    destruct (desc_inv _ _ Hd2) as [Hd3 Hx3].
    pose proof (Forall_inv Hx1) as H21. pose proof (Forall_inv Hx2) as H32. cbv beta in H21, H32.
    destruct (Z_lt_le_dec a3 (a1 - a2)) as [Hlt|Hle].
    - rewrite (ins_lt _ _ _ Hlt).
      destruct (kd_two f (a1 - a2) a3 q) as (d & E & Hdd); [|lia|exact Hs|lia|].
      + apply desc_cons; [exact Hd2|]. constructor; [lia|].
        eapply Forall_impl; [|exact Hx3]. intros a Ha. cbv beta in Ha. lia.
      + exists d. split; [exact E|]. destruct Hdd as [Hdd|Hdd]; [left; exact Hdd|right; left; lia].
    - rewrite (ins_after _ _ _ Hle).
      destruct (kd_dom_ins f a3 (a1 - a2) q Hd2 Hs ltac:(lia) ltac:(lia)) as (d & E & Hdd).
      exists d. split; [exact E|]. destruct Hdd as [Hdd|Hdd]; [left; exact Hdd|right; right; lia].
  Qed.

  Definition out4 (a1 a2 a3 a4 S d : Z) : Prop :=
    0 <= d <= G \/ S + d = 2 * a1 \/ S + d = 2 * (a2 + a3) \/
    (S + d = 2 * (a2 + a3 + a4) /\ a2 + a3 <= a1) \/ (S + d = 2 * (a1 + a4) /\ a1 <= a2 + a3).

  (** four numbers above small ones *)
  Lemma kd_four f a1 a2 a3 a4 q : desc (a1 :: a2 :: a3 :: a4 :: q) -> 0 <= a4 -> Forall smallz q ->
    (S (S (S (length q))) <= f)%nat ->
    exists d, kd f (a1 :: a2 :: a3 :: a4 :: q) = [d] /\ out4 a1 a2 a3 a4 (a1 + a2 + a3 + a4 + zsum q) d.
  Proof.
    intros Hd H4 Hs Hlen. destruct f as [|[|f]]; [lia|lia|].
    destruct (desc_inv _ _ Hd) as [Hd1 Hx1]. destruct (desc_inv _ _ Hd1) as [Hd2 Hx2].
    destruct (desc_inv _ _ Hd2) as [Hd3 Hx3]. destruct (desc_inv _ _ Hd3) as [Hd4 Hx4].
    pose proof (Forall_inv Hx1) as H21. pose proof (Forall_inv Hx2) as H32.
    pose proof (Forall_inv Hx3) as H43. cbv beta in H21, H32, H43.
    assert (Hq4 : forall c, a4 <= c -> Forall (fun a => a <= c) q).
    { intros c Hc. eapply Forall_impl; [|exact Hx4]. intros a Ha. cbv beta in Ha. lia. }
    unfold out4. cbn [kd].
    destruct (Z_lt_le_dec a3 (a1 - a2)) as [Hlt|Hle].
    - rewrite (ins_lt _ _ _ Hlt). cbn [kd].
      destruct (Z_lt_le_dec a4 (a1 - a2 - a3)) as [Hlt2|Hle2].
      + rewrite (ins_lt _ _ _ Hlt2).
        destruct (kd_two f (a1 - a2 - a3) a4 q) as (d & E & Hdd); [|lia|exact Hs|lia|].
        * apply desc_cons; [exact Hd3|]. constructor; [lia|apply Hq4; lia].
        * exists d. split; [exact E|]. destruct Hdd as [Hdd|Hdd]; [left; exact Hdd|right; left; lia].
      + rewrite (ins_after _ _ _ Hle2).
        destruct (kd_dom_ins f a4 (a1 - a2 - a3) q Hd3 Hs ltac:(lia) ltac:(lia)) as (d & E & Hdd).
        exists d. split; [exact E|]. destruct Hdd as [Hdd|Hdd]; [left; exact Hdd|right; right; right; left; lia].
    - rewrite (ins_after _ _ _ Hle).
      destruct (Z_lt_le_dec a4 (a1 - a2)) as [Hlt2|Hle2].
      + rewrite (ins_lt _ _ _ Hlt2). cbn [kd].
        destruct (Z_lt_le_dec a4 (a3 - (a1 - a2))) as [Hlt3|Hle3].
        * rewrite (ins_lt _ _ _ Hlt3).
          destruct (kd_two f (a3 - (a1 - a2)) a4 q) as (d & E & Hdd); [|lia|exact Hs|lia|].
          -- apply desc_cons; [exact Hd3|]. constructor; [lia|apply Hq4; lia].
          -- exists d. split; [exact E|]. destruct Hdd as [Hdd|Hdd]; [left; exact Hdd|right; right; left; lia].
        * rewrite (ins_after _ _ _ Hle3).
          destruct (kd_dom_ins f a4 (a3 - (a1 - a2)) q Hd3 Hs ltac:(lia) ltac:(lia)) as (d & E & Hdd).
          exists d. split; [exact E|]. destruct Hdd as [Hdd|Hdd]; [left; exact Hdd|right; right; right; right; lia].
      + rewrite (ins_after _ _ _ Hle2). cbn [kd].
        destruct (kd_ins_ins f (a1 - a2) (a3 - a4) q Hd4 Hs ltac:(lia) ltac:(lia) ltac:(lia)) as (d & E & Hdd).
        exists d. split; [exact E|].
        destruct Hdd as [Hdd|[Hdd|Hdd]]; [left; exact Hdd|right; right; left; lia|right; right; right; right; lia].
  Qed.
End Diff.

(** ---- 10. lower bounds on the optimum for two bins ---- *)
Lemma att_prefix k p : forall q s, Forall (fun v => 0 <= v) q -> Attainable k (p ++ q) s ->
  exists s', Attainable k p s' /\ zmax s' <= zmax s.
Proof.
  intros q. induction q as [|x q IH] using rev_ind; intros s Hq Hs.
  - rewrite app_nil_r in Hs. exists s. split; [exact Hs|lia].
  - apply Forall_app in Hq. destruct Hq as [Hq Hx]. apply Forall_inv in Hx.
    rewrite app_assoc in Hs. destruct (Attainable_snoc_inv _ _ _ _ Hs) as (s1 & i & Hs1 & Hi & Es).
    destruct (IH s1 Hq Hs1) as (s' & Hs' & Hle). exists s'. split; [exact Hs'|].
    pose proof (zmax_update_mono s1 i x Hx) as H. rewrite <- Es in H. lia.
Qed.

Ltac two_bins i H := destruct i as [|[|i]]; [| |exfalso; apply Forall_inv in H; lia].

Lemma att2_three a1 a2 a3 s : a2 <= a1 -> a3 <= a2 -> 0 <= a3 ->
  Attainable 2 [a1; a2; a3] s -> a2 + a3 <= zmax s.
Proof.
  intros H1 H2 H3 (asg & Hl & Hv & E). subst s.
  destruct asg as [|i1 [|i2 [|i3 [|i4 r]]]]; cbn [length] in Hl; try lia.
  unfold valid_asg in Hv.
  pose proof Hv as V1. pose proof (Forall_inv_tail V1) as V2. pose proof (Forall_inv_tail V2) as V3.
  two_bins i1 V1; two_bins i2 V2; two_bins i3 V3; cbn; lia.
Qed.

Lemma att2_four a1 a2 a3 a4 s : a2 <= a1 -> a3 <= a2 -> a4 <= a3 -> 0 <= a4 ->
  Attainable 2 [a1; a2; a3; a4] s ->
  a2 + a3 <= zmax s /\ (a1 + a4 <= zmax s \/ a2 + a3 + a4 <= zmax s).
Proof.
  intros H1 H2 H3 H4 (asg & Hl & Hv & E). subst s.
  destruct asg as [|i1 [|i2 [|i3 [|i4 [|i5 r]]]]]; cbn [length] in Hl; try lia.
  unfold valid_asg in Hv.
  pose proof Hv as V1. pose proof (Forall_inv_tail V1) as V2.
  pose proof (Forall_inv_tail V2) as V3. pose proof (Forall_inv_tail V3) as V4.
  two_bins i1 V1; two_bins i2 V2; two_bins i3 V3; two_bins i4 V4; cbn; lia.
Qed.

Lemma opt2_three vs opt a1 a2 a3 q : Opt MinLargest 2 vs opt -> Permutation vs (a1 :: a2 :: a3 :: q) ->
  a2 <= a1 -> a3 <= a2 -> 0 <= a3 -> Forall (fun v => 0 <= v) q -> a2 + a3 <= opt.
Proof.
  intros [(s & Hs & Ev) _] P H1 H2 H3 Hq. rewrite value_MinLargest in Ev. subst opt.
  apply (Attainable_perm_local 2 _ _ s P) in Hs.
  destruct (att_prefix 2 [a1; a2; a3] q s Hq Hs) as (s' & Hs' & Hle).
  pose proof (att2_three a1 a2 a3 s' H1 H2 H3 Hs'). lia.
Qed.

Lemma opt2_four vs opt a1 a2 a3 a4 q : Opt MinLargest 2 vs opt ->
  Permutation vs (a1 :: a2 :: a3 :: a4 :: q) ->
  a2 <= a1 -> a3 <= a2 -> a4 <= a3 -> 0 <= a4 -> Forall (fun v => 0 <= v) q ->
  a2 + a3 <= opt /\ (a1 + a4 <= opt \/ a2 + a3 + a4 <= opt).
Proof.
  intros [(s & Hs & Ev) _] P H1 H2 H3 H4 Hq. rewrite value_MinLargest in Ev. subst opt.
  apply (Attainable_perm_local 2 _ _ s P) in Hs.
  destruct (att_prefix 2 [a1; a2; a3; a4] q s Hq Hs) as (s' & Hs' & Hle).
  pose proof (att2_four a1 a2 a3 a4 s' H1 H2 H3 H4 Hs'). lia.
Qed.

(** ---- 11. 7/6 for number differencing ---- *)
Theorem kd_ratio_76 l vs opt : desc l -> Forall (fun v => 0 <= v) l -> l <> [] ->
  Permutation vs l -> Opt MinLargest 2 vs opt ->
  exists d, kd (length l - 1) l = [d] /\ 3 * (zsum l + d) <= 7 * opt.
Proof.
  intros Hd Hpos Hne P Hopt.
  assert (Hvs : Forall (fun v => 0 <= v) vs) by (eapply Permutation_Forall; [symmetry; exact P|exact Hpos]).
  destruct (opt_minlargest_lower_bounds _ _ _ Hopt Hvs ltac:(lia)) as [Hsum Hall].
  pose proof (opt_minlargest_nonneg _ _ _ Hopt Hvs ltac:(lia)) as H0.
  rewrite (zsum_perm _ _ P) in Hsum.
  assert (Hall' : Forall (fun v => v <= opt) l) by (eapply Permutation_Forall; [exact P|exact Hall]).
  destruct l as [|a1 [|a2 [|a3 [|a4 q]]]]; [congruence| | | |].
  - exists a1. split; [reflexivity|]. pose proof (Forall_inv Hall'). cbv beta in *. rewrite zs_cons, zs_nil in *. lia.
  - exists (a1 - a2). split; [reflexivity|]. pose proof (Forall_inv Hall'). cbv beta in *.
    rewrite !zs_cons, zs_nil in *. lia.
  - destruct (desc_inv _ _ Hd) as [Hd1 Hx1]. destruct (desc_inv _ _ Hd1) as [Hd2 Hx2].
    pose proof (Forall_inv Hx1) as H21. pose proof (Forall_inv Hx2) as H32. cbv beta in H21, H32.
    pose proof (Forall_inv (Forall_inv_tail (Forall_inv_tail Hpos))) as H3. cbv beta in H3.
    pose proof (Forall_inv Hall') as Ha1. cbv beta in Ha1.
    pose proof (opt2_three vs opt a1 a2 a3 [] Hopt P H21 H32 H3 ltac:(constructor)) as L23.
    destruct (kd_three 0 2 a1 a2 a3 [] Hd H3 ltac:(constructor) ltac:(cbn [length]; lia)) as (d & E & Hdd).
    exists d. split; [exact E|]. rewrite !zs_cons, zs_nil in *. lia.
  - destruct q as [|a5 q'].
    + destruct (desc_inv _ _ Hd) as [Hd1 Hx1]. destruct (desc_inv _ _ Hd1) as [Hd2 Hx2].
      destruct (desc_inv _ _ Hd2) as [Hd3 Hx3].
      pose proof (Forall_inv Hx1) as H21. pose proof (Forall_inv Hx2) as H32.
      pose proof (Forall_inv Hx3) as H43. cbv beta in H21, H32, H43.
      pose proof (Forall_inv (Forall_inv_tail (Forall_inv_tail (Forall_inv_tail Hpos)))) as H4. cbv beta in H4.
      pose proof (Forall_inv Hall') as Ha1. cbv beta in Ha1.
      destruct (opt2_four vs opt a1 a2 a3 a4 [] Hopt P H21 H32 H43 H4 ltac:(constructor)) as [L23 L4].
      destruct (kd_four 0 3 a1 a2 a3 a4 [] Hd H4 ltac:(constructor) ltac:(cbn [length]; lia)) as (d & E & Hdd).
      exists d. split; [exact E|]. unfold out4 in Hdd. rewrite !zs_cons, zs_nil in *. lia.
    + destruct (desc_inv _ _ Hd) as [Hd1 Hx1]. destruct (desc_inv _ _ Hd1) as [Hd2 Hx2].
      destruct (desc_inv _ _ Hd2) as [Hd3 Hx3]. destruct (desc_inv _ _ Hd3) as [Hd4 Hx4].
      destruct (desc_inv _ _ Hd4) as [Hd5 Hx5].
      pose proof (Forall_inv Hx1) as H21. pose proof (Forall_inv Hx2) as H32.
      pose proof (Forall_inv Hx3) as H43. pose proof (Forall_inv Hx4) as H54. cbv beta in H21, H32, H43, H54.
      pose proof (Forall_inv_tail (Forall_inv_tail (Forall_inv_tail Hpos))) as Hpos4.
      pose proof (Forall_inv Hpos4) as H4. pose proof (Forall_inv_tail Hpos4) as Hq.
      pose proof (Forall_inv Hq) as H5. cbv beta in H4, H5.
      pose proof (Forall_inv Hall') as Ha1. cbv beta in Ha1.
      destruct (opt2_four vs opt a1 a2 a3 a4 (a5 :: q') Hopt P H21 H32 H43 H4 Hq) as [L23 L4].
      assert (Hsm : Forall (smallz a5) (a5 :: q')).
      { constructor; [unfold smallz; lia|]. pose proof (Forall_inv_tail Hq) as Hq'.
        rewrite Forall_forall in *. intros z Hz. specialize (Hx5 z Hz). specialize (Hq' z Hz). unfold smallz. lia. }
      assert (L5 : 3 * a5 <= opt).
      { destruct Hopt as [(s & Hs & Ev) _]. rewrite value_MinLargest in Ev. subst opt.
        apply (pigeon_thrice 2 vs s a5 H5 Hvs Hs).
        unfold cnt_ge. rewrite (zsum_perm _ _ (Permutation_map _ P)). fold (cnt_ge a5 (a1 :: a2 :: a3 :: a4 :: a5 :: q')).
        rewrite !cnt_ge_cons. pose proof (cnt_ge_nonneg a5 q'). unfold ind_ge.
        destruct (a5 <=? a1) eqn:E1; destruct (a5 <=? a2) eqn:E2; destruct (a5 <=? a3) eqn:E3;
          destruct (a5 <=? a4) eqn:E4; destruct (a5 <=? a5) eqn:E5; lia. }
      destruct (kd_four a5 (length (a1 :: a2 :: a3 :: a4 :: a5 :: q') - 1) a1 a2 a3 a4 (a5 :: q') Hd H4 Hsm
                  ltac:(cbn [length]; lia)) as (d & E & Hdd).
      exists d. split; [exact E|]. unfold out4 in Hdd. rewrite !zs_cons in *. lia.
Qed.

(** ---- 12. k = 2: the heap of the model is simulated by number differencing ---- *)
Section Sim2.
  Context {A : Type} (valueof : A -> Z).

  Definition dvals (h : @heap A) : list Z := map (fun e => - fst e) h.

  Lemma dvals_insert (e : @hentry A) h : dvals (heap_insert e h) = ins (- fst e) (dvals h).
  Proof.
    induction h as [|y t IH]; [reflexivity|]. cbn [heap_insert dvals map ins].
    destruct (fst e <? fst y) eqn:E1; destruct (- fst y <? - fst e) eqn:E2; try lia.
    - reflexivity.
    - cbn [map]. f_equal. exact IH.
  Qed.

  Lemma two_vec (e : @hentry A) : base 2 e ->
    exists lo hi, sums (snd e) = [lo; hi] /\ lo <= hi /\ fst e = - (hi - lo).
  Proof.
    intros (L & So & K). destruct (sums (snd e)) as [|lo [|hi [|z r]]]; cbn [length] in L; try lia.
    exists lo, hi. split; [reflexivity|]. inversion So as [|x t _ H]; subst.
    apply Forall_inv in H. split; [exact H|]. rewrite K. unfold sp, zmax, zmin. cbn. lia.
  Qed.

  Lemma combine_d (e1 e2 : @hentry A) : base 2 e1 -> base 2 e2 -> - fst e2 <= - fst e1 ->
    - fst (pushed (kk_combine (snd e1) (snd e2))) = (- fst e1) - (- fst e2).
  Proof.
    intros B1 B2 Hle. pose proof (new_base 2 e1 e2 B1 B2) as (_ & _ & Kn).
    rewrite Kn, (sp_perm _ _ (new_perm e1 e2)).
    destruct (two_vec e1 B1) as (l1 & h1 & E1 & O1 & K1). destruct (two_vec e2 B2) as (l2 & h2 & E2 & O2 & K2).
    rewrite E1, E2, K1, K2 in *. cbn [rev app zipsum]. unfold sp, zmax, zmin. cbn. lia.
  Qed.

  Lemma sim2 : forall f (h : @heap A), Forall (base 2) h -> desc (dvals h) ->
    dvals (kk_loop f h) = kd f (dvals h) /\ Forall (base 2) (kk_loop f h).
  Proof.
    induction f as [|f IH]; intros h HB Hd; [split; [reflexivity|exact HB]|].
    destruct h as [|e1 [|e2 rest]]; [split; [reflexivity|exact HB]|split; [reflexivity|exact HB]|].
    cbn [kk_loop]. cbn [dvals map kd]. fold (dvals rest).
    pose proof (Forall_inv HB) as B1. pose proof (Forall_inv (Forall_inv_tail HB)) as B2.
    pose proof (Forall_inv_tail (Forall_inv_tail HB)) as BR.
    cbn [dvals map] in Hd. fold (dvals rest) in Hd.
    destruct (desc_inv _ _ Hd) as [Hd1 Hx1]. destruct (desc_inv _ _ Hd1) as [Hd2 _].
    pose proof (Forall_inv Hx1) as H21. cbv beta in H21.
    rewrite <- (combine_d e1 e2 B1 B2 H21), <- dvals_insert, <- heap_push_pushed.
    apply IH.
    - rewrite heap_push_pushed. apply heap_insert_Forall; [exact BR|apply new_base; assumption].
    - rewrite heap_push_pushed, dvals_insert. apply ins_desc. exact Hd2.
  Qed.

  Lemma ins_append x l : Forall (fun y => x <= y) l -> ins x l = l ++ [x].
  Proof.
    induction 1 as [|y t Hy Ht IH]; [reflexivity|]. cbn [ins app].
    destruct (y <? x) eqn:E; [lia|]. rewrite IH. reflexivity.
  Qed.

  Lemma desc_app_le l1 x r : desc (l1 ++ x :: r) -> Forall (fun y => x <= y) l1.
  Proof.
    induction l1 as [|y t IH]; cbn [app]; intros H; [constructor|].
    destruct (desc_inv _ _ H) as [H1 H2]. constructor; [|apply IH; exact H1].
    rewrite Forall_forall in H2. apply H2. apply in_or_app. right. left. reflexivity.
  Qed.

  Lemma fold_ins_sorted : forall (l : list A) l1, desc (l1 ++ map valueof l) ->
    fold_left (fun ds x => ins (valueof x) ds) l l1 = l1 ++ map valueof l.
  Proof.
    induction l as [|x t IH]; intros l1 Hd; cbn [fold_left map]; [rewrite app_nil_r; reflexivity|].
    cbn [map] in Hd. rewrite (ins_append _ _ (desc_app_le _ _ _ Hd)).
    rewrite IH; rewrite <- app_assoc; [reflexivity|exact Hd].
  Qed.

  Lemma entry_d x : 0 <= valueof x -> - fst (pushed (singleton_bins valueof true 2 x)) = valueof x.
  Proof.
    intros Hv. destruct (entry_base 2 valueof x) as (_ & _ & K).
    rewrite K, (entry_sv 2 valueof x ltac:(lia) Hv). unfold sp, zmax, zmin. cbn. lia.
  Qed.

  Lemma dvals_fold : forall l, Forall (fun x => 0 <= valueof x) l -> forall h : @heap A,
    dvals (fold_left (fun h x => heap_push h (singleton_bins valueof true 2 x)) l h)
    = fold_left (fun ds x => ins (valueof x) ds) l (dvals h).
  Proof.
    induction l as [|x t IH]; intros Hl h; [reflexivity|]. cbn [fold_left].
    apply Forall_cons_iff in Hl. destruct Hl as [Hx Hl].
    rewrite (IH Hl), heap_push_pushed, dvals_insert, (entry_d x Hx). reflexivity.
  Qed.

  Lemma base_fold : forall l (h : @heap A), Forall (base 2) h ->
    Forall (base 2) (fold_left (fun h x => heap_push h (singleton_bins valueof true 2 x)) l h).
  Proof.
    induction l as [|x t IH]; intros h Hh; [exact Hh|]. cbn [fold_left]. apply IH.
    rewrite heap_push_pushed. apply heap_insert_Forall; [exact Hh|apply entry_base].
  Qed.

  Lemma initial_dvals items : Forall (fun x => 0 <= valueof x) items ->
    dvals (initial_heap valueof true 2 items) = sorted_values valueof items /\
    Forall (base 2) (initial_heap valueof true 2 items).
  Proof.
    intros Hpos. unfold initial_heap. split; [|apply base_fold; constructor].
    rewrite dvals_fold by (eapply Permutation_Forall; [symmetry; apply sort_desc_perm|exact Hpos]). cbn [dvals map].
    rewrite fold_ins_sorted; [reflexivity|]. cbn [app]. apply (sorted_values_sorted valueof items).
  Qed.

  (** C08 for k = 2 (Fischetti and Martello 1987: 7/6) *)
  Theorem kk_ratio_43_k2 items b opt : items <> [] -> Forall (fun x => 0 <= valueof x) items ->
    kk valueof true 2 items = Ok b -> Opt MinLargest 2 (map valueof items) opt ->
    3 * Z.of_nat 2 * zmax (sums b) <= (4 * Z.of_nat 2 - 1) * opt.
  Proof.
    intros Hne Hpos Hkk Hopt.
    destruct (kk_partition valueof 2 items ltac:(lia) Hne) as (b' & Hb' & Hpart).
    rewrite Hkk in Hb'. injection Hb' as <-.
    pose proof (Attainable_sum _ _ _ (partition_attainable valueof 2 items b Hpart)) as Hsum.
    destruct (initial_dvals items Hpos) as [Ed HB].
    set (l := sorted_values valueof items) in *.
    assert (Hlen : length l = length items).
    { unfold l, sorted_values. rewrite map_length. apply sort_desc_length. }
    assert (Hl : l <> []).
    { intros E. rewrite E in Hlen. destruct items; [congruence|discriminate Hlen]. }
    destruct (kd_ratio_76 l (map valueof items) opt (sorted_values_sorted valueof items)
                (sorted_values_nonneg valueof items Hpos) Hl
                (Permutation_sym (sorted_values_perm valueof items)) Hopt) as (d & Ek & Hd).
    destruct (sim2 (length items - 1) _ HB) as [Es HBf].
    { rewrite Ed. apply (sorted_values_sorted valueof items). }
    rewrite Hlen in Ek. rewrite Ed, Ek in Es.
    unfold kk in Hkk.
    destruct (kk_loop (length items - 1) (initial_heap valueof true 2 items)) as [|e [|e' r]];
      cbn [dvals map] in Es; try discriminate Es.
    injection Hkk as <-. injection Es as Ee.
    destruct (two_vec e (Forall_inv HBf)) as (lo & hi & E & Ho & K).
    rewrite E in *. rewrite <- (zsum_perm _ _ (sorted_values_perm valueof items)) in Hsum. fold l in Hsum.
    rewrite !zs_cons, zs_nil in Hsum. assert (Hz : zmax [lo; hi] = Z.max lo hi) by reflexivity. rewrite Hz. lia.
  Qed.
End Sim2.

(** the requested bound for k <= 2 *)
Theorem kk_ratio_43_k12_partial {A} (valueof : A -> Z) k items b opt : (1 <= k <= 2)%nat ->
  items <> [] -> Forall (fun x => 0 <= valueof x) items -> kk valueof true k items = Ok b ->
  Opt MinLargest k (map valueof items) opt ->
  3 * Z.of_nat k * zmax (sums b) <= (4 * Z.of_nat k - 1) * opt.
Proof.
  intros Hk Hne Hpos Hkk Hopt. destruct (Nat.eq_dec k 1) as [E|E].
  - subst k. apply (kk_ratio_43_k1 valueof items b opt); assumption.
  - assert (E2 : k = 2%nat) by lia. subst k. apply (kk_ratio_43_k2 valueof items b opt); assumption.
Qed.

(** ---- 13. examples and machine checks against the exact oracle ---- *)
Notation idZ := (fun v : Z => v).

Definition kk_sums (k : nat) (vs : list Z) : list Z :=
  match kk idZ true k vs with Ok b => sums b | Err _ => [] end.
Definition optv (k : nat) (vs : list Z) : Z :=
  match opt_value MinLargest k vs with Some v => v | None => 0 end.

(** the requested bound is attained for k = 2 (Fischetti and Martello's 7/6) *)
Example kk_43_tight_k2 :
  kk_sums 2 [3; 3; 2; 2; 2] = [5; 7] /\ optv 2 [3; 3; 2; 2; 2] = 6 /\ 3 * 2 * 7 = (4 * 2 - 1) * 6.
Proof. vm_compute. repeat split; reflexivity. Qed.

(** the theorems applied to it through the verified oracle *)
Example kk_32_example b : kk idZ true 2 [3; 3; 2; 2; 2] = Ok b -> 4 * zmax (sums b) <= 5 * 6.
Proof.
  intros H. apply (kk_ratio_54_k2_partial idZ [3; 3; 2; 2; 2] b 6); [discriminate| |exact H|].
  - repeat constructor; lia.
  - destruct (opt_value_spec MinLargest 2 [3; 3; 2; 2; 2] ltac:(lia)) as (v & Ev & Hv).
    vm_compute in Ev. injection Ev as <-. rewrite map_id. exact Hv.
Qed.

Fixpoint lcg43 (n : nat) (s md : Z) : list Z :=
  match n with
  | O => []
  | S m => let s' := (s * 1103515245 + 12345) mod 2147483648 in (1 + (s' / 65536) mod md) :: lcg43 m s' md
  end.
Definition inst43 (seed : Z) : nat * list Z :=
  (Z.to_nat (1 + seed mod 4), lcg43 (Z.to_nat (1 + seed mod 9)) seed (3 + seed mod 17)).

Definition kth_of (j : nat) (vs : list Z) : Z := nth j (sort_desc idZ vs) 0.
Definition check_dichotomy (k : nat) (vs : list Z) : bool :=
  let s := kk_sums k vs in (zmax s <=? zmax vs) || (zmax s - zmin s <=? kth_of k vs).
Definition check_32 (k : nat) (vs : list Z) : bool :=
  2 * Z.of_nat k * zmax (kk_sums k vs) <=? (3 * Z.of_nat k - 1) * optv k vs.
Definition check_43 (k : nat) (vs : list Z) : bool :=
  3 * Z.of_nat k * zmax (kk_sums k vs) <=? (4 * Z.of_nat k - 1) * optv k vs.

(** the proved statements and the requested (unproved) one on 300 pseudo-random instances,
    k = 1..4, up to 9 items *)
Example kk_checks_random :
  forallb (fun s => let (k, vs) := inst43 s in check_dichotomy k vs && check_32 k vs && check_43 k vs)
          (map Z.of_nat (seq 1 300)) = true.
Proof. vm_compute. reflexivity. Qed.

(** the hypothesis of [kk_ratio_43_from_dichotomy]; for k = 2 it holds on these instances (and the
    bound for k = 2 is proved above by a different route, [kk_ratio_43_k2]) *)
Definition check_dichotomy_2k (k : nat) (vs : list Z) : bool :=
  let s := kk_sums k vs in (zmax s <=? optv k vs) || (zmax s - zmin s <=? kth_of (2 * k) vs).

Example kk_dichotomy_2k_k2_random :
  forallb (fun s => check_dichotomy_2k 2 (lcg43 (Z.to_nat (1 + s mod 11)) s (3 + s mod 23)))
          (map Z.of_nat (seq 1 300)) = true.
Proof. vm_compute. reflexivity. Qed.

(** ... but that hypothesis is FALSE for k = 3: sums 6, 7, 8, optimum 7, 7th largest value 1.
    (The bound itself holds: 9 * 8 <= 11 * 7.)  So the proof of the general bound cannot be
    the threshold argument used here. *)
Example kk_dichotomy_2k_fails_k3 :
  kk_sums 3 [6; 4; 3; 3; 2; 2; 1] = [6; 7; 8] /\ optv 3 [6; 4; 3; 3; 2; 2; 1] = 7 /\
  kth_of 6 [6; 4; 3; 3; 2; 2; 1] = 1 /\ check_dichotomy_2k 3 [6; 4; 3; 3; 2; 2; 1] = false /\
  check_43 3 [6; 4; 3; 3; 2; 2; 1] = true.
Proof. vm_compute. repeat split; reflexivity. Qed.

Example kk_43_example b : kk idZ true 2 [3; 3; 2; 2; 2] = Ok b -> 6 * zmax (sums b) <= 7 * 6.
Proof.
  intros H.
  pose proof (kk_ratio_43_k2 idZ [3; 3; 2; 2; 2] b 6 ltac:(discriminate)) as T. cbn [Z.of_nat] in T.
  assert (T' : 3 * 2 * zmax (sums b) <= (4 * 2 - 1) * 6); [|lia].
  apply T; [repeat constructor; lia|exact H|].
  destruct (opt_value_spec MinLargest 2 [3; 3; 2; 2; 2] ltac:(lia)) as (v & Ev & Hv).
  vm_compute in Ev. injection Ev as <-. rewrite map_id. exact Hv.
Qed.

(* OPEN: kk_ratio_43_statement for k >= 3 (Michiels, Korst, Aarts, van Leeuwen 2003).  Proved here:
   k = 1 and k = 2 ([kk_ratio_43_k12_partial]) and, for every k, the weaker constant 3/2 - 1/(2k)
   ([kk_ratio_32_partial]).  The threshold argument of this file (all spreads eventually below the
   (k+1)-th largest value, or the largest sum is a single item) cannot be pushed to the
   (2k+1)-th largest value for k >= 3: see [kk_dichotomy_2k_fails_k3]. *)

Check kk_dichotomy.
Check kk_gap_kth.
Check kk_ratio_32_partial.
Check kk_ratio_54_k2_partial.
Check kk_ratio_43_from_dichotomy.
Check kd_ratio_76.
Check kk_ratio_43_k1.
Check kk_ratio_43_k2.
Check kk_ratio_43_k12_partial.

Print Assumptions kk_dichotomy.
Print Assumptions kk_ratio_32_partial.
Print Assumptions kk_ratio_43_from_dichotomy.
Print Assumptions kk_ratio_43_k2.
Print Assumptions kk_ratio_43_k12_partial.
Print Assumptions kk_32_example.
Print Assumptions kk_43_example.
Print Assumptions kk_checks_random.
