(** The 17/10 bound for first-fit (Ullman 1971; Garey, Graham, Johnson, Yao 1976), by the classical
    weight-function argument, in integer arithmetic.

    Main result (b = bins returned by first_fit, n = any number of bins of capacity C into which
    the values can be packed, in particular the optimum):

      ff_ratio_17_strong :  10 * length b <= 17 * n + 9    (FF < 17/10 OPT + 1, i.e. FF <= ceil(17/10 OPT),
                                                            the bound of GGJY 1976)
      ff_ratio_17        :  10 * length b <= 17 * n + 20   (the requested form, c = 2)

    Weights, scaled by 10 C (so that "weight 1" is 10 C):
      W(a) = 12 a        if 6 a <= C
           = 18 a - C    if C < 6 a and 3 a <= C
           = 12 a + C    if C < 3 a and 2 a <= C
           = 10 C        if C < 2 a.

    Lemma 1 ([light_bin], [light_bin_strict], [packable_wsum_strict]): values in [0,C] with sum <= C
      have weight <= 17 C (and <= 17 C - 1 when C > 0); hence total weight <= (17 C - 1) n for any
      packing into n bins.
      - no value above C/2: W(a) <= 15 a, so weight <= 15 C;
      - one value above C/2: the others sum to S < C/2 and for such lists
        weight <= 12 S + max(0, min(6 S - C, C)) < 6 C + C (induction on the list, [wsum_small]).
    Lemma 2 ([heavy]): for bins in first-fit order (invariant [sfit] of FFDRatioProofs: no item fits
      into an EARLIER bin at its final sum), 10 C m <= total weight + 10 C.  Induction over the
      bins carrying the coarseness alpha (= max over earlier bins of the free space; every item of
      the remaining bins is >= alpha), with potential 10 C - W(alpha):
        10 C |bins| <= weight(bins) + 10 C - W(alpha).
      For the first remaining bin (sum s; the next coarseness is alpha' = max(alpha, C - s)):
      - it holds a value above C/2: weight >= 10 C, and W is monotone;
      - one value v <= C/2 only: then every later item is above C/2, so every later bin weighs
        >= 10 C ([heavy_big]), and W(v) >= W(alpha);
      - two or more values v1, v2, ..., all <= C/2 and >= alpha:
        10 C + W(alpha) <= W(v1) + W(v2) + 12 (s - v1 - v2) + W(alpha'), a piecewise linear fact.

    Hypotheses: items <> [] and 0 <= valueof x (as for the other packing theorems).  [0 < C] is not
    needed: for C = 0 there is a single bin.
    Best-fit is NOT covered: [sfit] fails for best-fit, even up to reordering the bins (see the
    comment at the end). *)
From Prtpy Require Import Base.Prelude Model.Binner Model.Packing Spec.Partition
  Proofs.BaseLemmas Proofs.BinnerLemmas Proofs.PackingProofs Proofs.FFDRatioProofs
  Proofs.BCOptimalProofs.
From Coq Require Import ZifyBool.

(** ---- 1. the weight function ---- *)
Definition W (C a : Z) : Z :=
  if 6 * a <=? C then 12 * a
  else if 3 * a <=? C then 18 * a - C
  else if 2 * a <=? C then 12 * a + C
  else 10 * C.

Definition wsum (C : Z) (l : list Z) : Z := zsum (map (W C) l).

Example W_examples :
  map (W 60) [0; 5; 10; 11; 20; 21; 30; 31; 60] = [0; 60; 120; 138; 300; 312; 420; 600; 600].
Proof. vm_compute. reflexivity. Qed.

Lemma W_spec C a :
  (6 * a <= C /\ W C a = 12 * a) \/
  (C < 6 * a /\ 3 * a <= C /\ W C a = 18 * a - C) \/
  (C < 3 * a /\ 2 * a <= C /\ W C a = 12 * a + C) \/
  (C < 2 * a /\ W C a = 10 * C).
Proof.
  unfold W. destruct (6 * a <=? C) eqn:E6; [left; lia|].
  destruct (3 * a <=? C) eqn:E3; [right; left; lia|].
  destruct (2 * a <=? C) eqn:E2; [right; right; left; lia|].
  right; right; right; lia.
Qed.

Lemma wsum_nil C : wsum C [] = 0.
Proof. reflexivity. Qed.

Lemma wsum_cons C a l : wsum C (a :: l) = W C a + wsum C l.
Proof. reflexivity. Qed.

Lemma wsum_app C l1 l2 : wsum C (l1 ++ l2) = wsum C l1 + wsum C l2.
Proof. unfold wsum. rewrite map_app. apply zsum_app. Qed.

Lemma wsum_perm C l1 l2 : Permutation l1 l2 -> wsum C l1 = wsum C l2.
Proof. intros P. unfold wsum. apply zsum_perm. apply Permutation_map. exact P. Qed.

Lemma W_nonneg C a : 0 <= C -> 0 <= a -> 0 <= W C a.
Proof. intros HC Ha. pose proof (W_spec C a) as HWa. lia. Qed.

Lemma wsum_nonneg C l : 0 <= C -> Forall (fun a => 0 <= a) l -> 0 <= wsum C l.
Proof.
  intros HC H. induction H as [|a l Ha Hl IH]; [rewrite wsum_nil; lia|].
  rewrite wsum_cons. pose proof (W_nonneg C a HC Ha). lia.
Qed.

(** a list containing a value above C/2 weighs at least 10 C *)
Lemma wsum_big C l : 0 <= C -> Forall (fun a => 0 <= a) l -> Exists (fun a => ~ 2 * a <= C) l ->
  10 * C <= wsum C l.
Proof.
  intros HC Hnn H. induction H as [a l Ha|a l Hl IH].
  - apply Forall_cons_iff in Hnn. destruct Hnn as [Ha0 Hl0].
    rewrite wsum_cons. pose proof (wsum_nonneg C l HC Hl0). pose proof (W_spec C a) as HWa. lia.
  - apply Forall_cons_iff in Hnn. destruct Hnn as [Ha0 Hl0].
    rewrite wsum_cons. pose proof (W_nonneg C a HC Ha0). specialize (IH Hl0). lia.
Qed.

(** values up to C/2 weigh between 12 and 15 times their size *)
Lemma wsum_ge_12 C l : Forall (fun a => 2 * a <= C) l -> 12 * zsum l <= wsum C l.
Proof.
  intros H. induction H as [|a l Ha Hl IH]; [rewrite wsum_nil, pk_zsum_nil; lia|].
  rewrite wsum_cons, pk_zsum_cons. pose proof (W_spec C a) as HWa. lia.
Qed.

Lemma wsum_le_15 C l : Forall (fun a => 0 <= a) l -> Forall (fun a => 2 * a <= C) l ->
  wsum C l <= 15 * zsum l.
Proof.
  intros Hnn H. induction H as [|a l Ha Hl IH]; [rewrite wsum_nil, pk_zsum_nil; lia|].
  apply Forall_cons_iff in Hnn. destruct Hnn as [Ha0 Hl0]. specialize (IH Hl0).
  rewrite wsum_cons, pk_zsum_cons. pose proof (W_spec C a) as HWa. lia.
Qed.

(** ---- 2. Lemma 1: a feasible bin is light ---- *)

(** values summing to less than C/2 *)
Lemma wsum_small C l : Forall (fun a => 0 <= a) l -> 2 * zsum l < C ->
  wsum C l <= 12 * zsum l + Z.max 0 (Z.min (6 * zsum l - C) C).
Proof.
  intros Hnn. induction Hnn as [|a l Ha Hl IH]; intros HS.
  - rewrite wsum_nil, pk_zsum_nil. lia.
  - rewrite pk_zsum_cons in HS. rewrite wsum_cons, pk_zsum_cons.
    pose proof (zsum_nonneg l Hl) as H0. assert (HS' : 2 * zsum l < C) by lia.
    specialize (IH HS'). pose proof (W_spec C a) as HWa. lia.
Qed.

Lemma light_bin_gen C l d : 0 <= d <= 1 -> d <= C ->
  Forall (fun a => 0 <= a) l -> zsum l <= C -> wsum C l <= 17 * C - d.
Proof.
  intros Hd HdC Hnn HS. pose proof (zsum_nonneg l Hnn) as H0.
  destruct (Forall_Exists_dec (fun a => 2 * a <= C) (fun a => Z_le_dec (2 * a) C) l) as [Hnb|Hbig].
  - pose proof (wsum_le_15 C l Hnn Hnb). lia.
  - apply Exists_exists in Hbig. destruct Hbig as (x & Hin & Hx).
    apply in_split in Hin. destruct Hin as (l1 & l2 & E). subst l.
    assert (P : Permutation (l1 ++ x :: l2) (x :: l1 ++ l2)) by (symmetry; apply Permutation_middle).
    rewrite (wsum_perm C _ _ P), wsum_cons. rewrite (zsum_perm _ _ P), pk_zsum_cons in HS.
    assert (Hnn' : Forall (fun a => 0 <= a) (l1 ++ l2)).
    { apply Forall_app in Hnn. destruct Hnn as [H1 H2]. apply Forall_cons_iff in H2.
      destruct H2 as [_ H2]. apply Forall_app. split; assumption. }
    pose proof (zsum_nonneg _ Hnn') as H0'.
    assert (HS' : 2 * zsum (l1 ++ l2) < C) by lia.
    pose proof (wsum_small C (l1 ++ l2) Hnn' HS') as Hw.
    pose proof (W_spec C x) as HWx. lia.
Qed.

(** Lemma 1 *)
Lemma light_bin C l : Forall (fun a => 0 <= a) l -> zsum l <= C -> wsum C l <= 17 * C.
Proof.
  intros Hnn HS. pose proof (zsum_nonneg l Hnn) as H0.
  assert (H : wsum C l <= 17 * C - 0) by (apply light_bin_gen; auto; lia). lia.
Qed.

(** ... with a strict inequality when the capacity is positive *)
Lemma light_bin_strict C l : 0 < C ->
  Forall (fun a => 0 <= a) l -> zsum l <= C -> wsum C l <= 17 * C - 1.
Proof. intros HC Hnn HS. apply light_bin_gen; auto; lia. Qed.

(** ---- 3. Lemma 1 lifted to a packing ---- *)
Lemma Forall_concat_elim (P : Z -> Prop) (G : list (list Z)) :
  Forall P (concat G) -> Forall (Forall P) G.
Proof.
  induction G as [|g G IH]; cbn [concat]; intros H; [constructor|].
  apply Forall_app in H. destruct H as [H1 H2]. constructor; [exact H1|apply IH; exact H2].
Qed.

Lemma wsum_concat_le C K (G : list (list Z)) :
  Forall (fun g => wsum C g <= K) G -> wsum C (concat G) <= K * Z.of_nat (length G).
Proof.
  intros H. induction H as [|g G Hg HG IH]; [cbn [concat length Z.of_nat]; rewrite wsum_nil; lia|].
  cbn [concat length]. rewrite wsum_app, Nat2Z.inj_succ. lia.
Qed.

Lemma packable_wsum_gen C K vs n :
  (forall g, Forall (fun a => 0 <= a) g -> zsum g <= C -> wsum C g <= K) ->
  Forall (fun a => 0 <= a) vs -> Packable C vs n -> wsum C vs <= K * Z.of_nat n.
Proof.
  intros HK Hnn Hp. apply packable_gpack in Hp. destruct Hp as (G & HL & HP & HF).
  rewrite <- (wsum_perm C _ _ HP), <- HL. apply wsum_concat_le.
  assert (Hnn' : Forall (Forall (fun a => 0 <= a)) G).
  { apply Forall_concat_elim. eapply Permutation_Forall; [symmetry; exact HP|exact Hnn]. }
  clear HL HP. induction HF as [|g G Hg HG IH]; [constructor|].
  apply Forall_cons_iff in Hnn'. destruct Hnn' as [Hg0 HG0].
  constructor; [apply HK; assumption|apply IH; exact HG0].
Qed.

Lemma packable_wsum C vs n : Forall (fun a => 0 <= a) vs -> Packable C vs n ->
  wsum C vs <= 17 * C * Z.of_nat n.
Proof. apply packable_wsum_gen. intros g. apply light_bin. Qed.

Lemma packable_wsum_strict C vs n : 0 < C -> Forall (fun a => 0 <= a) vs -> Packable C vs n ->
  wsum C vs <= (17 * C - 1) * Z.of_nat n.
Proof. intros HC. apply packable_wsum_gen. intros g. apply light_bin_strict. exact HC. Qed.

(** ---- 4. Lemma 2: first-fit bins are heavy ---- *)
Section Heavy.
  Context {A : Type} (valueof : A -> Z).

  Notation cw C b := (wsum C (map valueof (contents b))).

  (** bins all of whose items exceed C/2 *)
  Lemma heavy_big C (t : bins A) : 0 <= C -> all_nonempty t ->
    Forall (fun y => C < 2 * valueof y) (contents t) ->
    10 * C * Z.of_nat (length t) <= cw C t.
  Proof.
    intros HC. induction t as [|bn t IH]; intros Hne Hbig.
    - cbn [length Z.of_nat]. unfold contents, lists. cbn [map concat]. rewrite wsum_nil. lia.
    - unfold all_nonempty in Hne. apply Forall_cons_iff in Hne. destruct Hne as [Hbn Hne].
      rewrite contents_cons in Hbig. apply Forall_app in Hbig. destruct Hbig as [Hb1 Hb2].
      specialize (IH Hne Hb2).
      rewrite contents_cons, map_app, wsum_app. cbn [length]. rewrite Nat2Z.inj_succ.
      assert (Hw : 10 * C <= wsum C (map valueof (snd bn))).
      { apply wsum_big; [exact HC| |].
        - rewrite Forall_map. eapply Forall_impl; [|exact Hb1]. intros y Hy. cbv beta in Hy. lia.
        - destruct (snd bn) as [|y l]; [congruence|]. cbn [map]. apply Exists_cons_hd.
          apply Forall_cons_iff in Hb1. destruct Hb1 as [Hy _]. lia. }
      lia.
  Qed.

  (** Lemma 2, with the coarseness [alpha] as parameter: the potential is 10 C - W(alpha) *)
  Lemma heavy C : 0 <= C -> forall (b : bins A) alpha,
    wf valueof b -> all_nonempty b -> sfit valueof C b ->
    Forall (fun y => 0 <= valueof y) (contents b) ->
    Forall (fun y => alpha <= valueof y) (contents b) ->
    10 * C * Z.of_nat (length b) <= cw C b + (10 * C - W C alpha).
  Proof.
    intros HC. induction b as [|bn t IH]; intros alpha Hw Hne Hsf Hnn Hge.
    - cbn [length Z.of_nat]. unfold contents, lists. cbn [map concat]. rewrite wsum_nil.
      pose proof (W_spec C alpha) as Hal. lia.
    - unfold wf in Hw. apply Forall_cons_iff in Hw. destruct Hw as [Hwb Hw].
      unfold all_nonempty in Hne. apply Forall_cons_iff in Hne. destruct Hne as [Hbn Hne].
      cbn [sfit] in Hsf. destruct Hsf as [Hs1 Hsf].
      rewrite contents_cons in Hnn, Hge.
      apply Forall_app in Hnn. destruct Hnn as [Hnn1 Hnn2].
      apply Forall_app in Hge. destruct Hge as [Hge1 Hge2].
      rewrite contents_cons, map_app, wsum_app. cbn [length]. rewrite Nat2Z.inj_succ.
      unfold wf_bin in Hwb.
      assert (Hnn1' : Forall (fun a => 0 <= a) (map valueof (snd bn)))
        by (rewrite Forall_map; exact Hnn1).
      (* the induction hypothesis at the next coarseness *)
      set (alpha' := Z.max alpha (C - fst bn)).
      assert (Ha' : alpha <= alpha' /\ C - fst bn <= alpha' /\ (alpha' = alpha \/ alpha' = C - fst bn))
        by (unfold alpha'; lia).
      assert (Hnext : 10 * C * Z.of_nat (length t) <= cw C t + (10 * C - W C alpha')).
      { apply IH; auto.
        rewrite Forall_forall in *. intros y Hy. specialize (Hs1 y Hy). specialize (Hge2 y Hy).
        unfold alpha'. lia. }
      clearbody alpha'.
      pose proof (W_spec C alpha) as Hal. pose proof (W_spec C alpha') as Hal'.
      destruct (Forall_Exists_dec (fun a => 2 * a <= C) (fun a => Z_le_dec (2 * a) C)
                  (map valueof (snd bn))) as [Hnb|Hbig].
      + destruct (snd bn) as [|x1 [|x2 rest]] eqn:Es; [congruence| |].
        * (* a single item, at most C/2: every later item exceeds C/2 *)
          cbn [map] in Hwb, Hnb |- *. rewrite pk_zsum_cons, pk_zsum_nil in Hwb.
          apply Forall_cons_iff in Hnb. destruct Hnb as [Hx1 _].
          apply Forall_cons_iff in Hge1. destruct Hge1 as [Ha1 _].
          assert (Hlater : 10 * C * Z.of_nat (length t) <= cw C t).
          { apply heavy_big; auto. eapply Forall_impl; [|exact Hs1]. intros y Hy. cbv beta in Hy. lia. }
          rewrite wsum_cons, wsum_nil. pose proof (W_spec C (valueof x1)) as H1. lia.
        * (* at least two items, all at most C/2 *)
          cbn [map] in Hwb, Hnb, Hnn1' |- *. rewrite !pk_zsum_cons in Hwb.
          apply Forall_cons_iff in Hnb. destruct Hnb as [Hx1 Hnb].
          apply Forall_cons_iff in Hnb. destruct Hnb as [Hx2 Hnb].
          apply Forall_cons_iff in Hge1. destruct Hge1 as [Ha1 Hge1].
          apply Forall_cons_iff in Hge1. destruct Hge1 as [Ha2 _].
          apply Forall_cons_iff in Hnn1'. destruct Hnn1' as [Hp1 Hnn1'].
          apply Forall_cons_iff in Hnn1'. destruct Hnn1' as [Hp2 Hnnr].
          pose proof (zsum_nonneg _ Hnnr) as Hr0.
          pose proof (wsum_ge_12 C _ Hnb) as Hr12.
          rewrite !wsum_cons.
          pose proof (W_spec C (valueof x1)) as H1. pose proof (W_spec C (valueof x2)) as H2.
          lia.
      + (* an item above C/2 *)
        pose proof (wsum_big C _ HC Hnn1' Hbig) as Hwb10. lia.
  Qed.
End Heavy.

(** ---- 5. the theorem ---- *)
Section FF17.
  Context {A : Type} (valueof : A -> Z).

  Theorem ff_ratio_17_strong C (items : list A) (b : bins A) (n : nat) :
    items <> [] -> Forall (fun x : A => 0 <= valueof x) items ->
    first_fit valueof true C items = Ok b -> Packable C (map valueof items) n ->
    (10 * length b <= 17 * n + 9)%nat.
  Proof.
    intros Hne Hnn Hff Hpack.
    pose proof (ff_sfit valueof C items b Hnn Hff) as Hsf.
    destruct (ff_Inv valueof C items b Hne Hnn Hff) as (Hw & Hf & Hp & Hnem & Hns & Ha).
    assert (Hnnb : Forall (fun y => 0 <= valueof y) (contents b))
      by (eapply Permutation_Forall; [symmetry; exact Hp|exact Hnn]).
    (* the capacity is non-negative *)
    assert (HC : 0 <= C).
    { destruct b as [|bn t].
      - unfold contents, lists in Hp. cbn [map concat] in Hp.
        apply Permutation_nil in Hp. congruence.
      - unfold feasible in Hf. apply Forall_cons_iff in Hf. destruct Hf as [Hf _].
        unfold nonneg_sums in Hns. apply Forall_cons_iff in Hns. destruct Hns as [Hns _]. lia. }
    (* n is positive *)
    assert (Hn : (1 <= n)%nat).
    { destruct n as [|n]; [|lia]. apply packable_zero in Hpack. apply map_eq_nil in Hpack. congruence. }
    destruct (Z.eq_dec C 0) as [E0|Hpos].
    - (* capacity 0: a single bin *)
      destruct (le_lt_dec 2 (length b)) as [Hbig|Hsmall]; [|lia]. exfalso.
      pose proof (anyfit_pairs valueof C 1 b Ha Hw Hnnb) as Hpair.
      assert (H2 : (2 * 1 <= length b)%nat) by lia. specialize (Hpair H2).
      rewrite (wf_total valueof b Hw), (zsum_perm _ _ (Permutation_map valueof Hp)) in Hpair.
      pose proof (packable_total C _ n Hpack) as Htot. subst C. lia.
    - assert (HCpos : 0 < C) by lia.
      pose proof (heavy valueof C HC b 0 Hw Hnem Hsf Hnnb Hnnb) as Hheavy.
      assert (Hlight : wsum C (map valueof items) <= (17 * C - 1) * Z.of_nat n).
      { apply packable_wsum_strict; [exact HCpos| |exact Hpack]. rewrite Forall_map. exact Hnn. }
      rewrite (wsum_perm C _ _ (Permutation_map valueof Hp)) in Hheavy.
      pose proof (W_spec C 0) as HW0.
      assert (Hz : 10 * Z.of_nat (length b) <= 17 * Z.of_nat n + 9) by nia.
      lia.
  Qed.

  (** the requested form: first-fit uses at most 17/10 OPT + 2 bins *)
  Theorem ff_ratio_17 C (items : list A) (b : bins A) (n : nat) :
    items <> [] -> Forall (fun x : A => 0 <= valueof x) items ->
    first_fit valueof true C items = Ok b -> Packable C (map valueof items) n ->
    (10 * length b <= 17 * n + 20)%nat.
  Proof.
    intros Hne Hnn Hff Hpack. pose proof (ff_ratio_17_strong C items b n Hne Hnn Hff Hpack). lia.
  Qed.

  (** against the optimum *)
  Corollary ff_ratio_17_minbins C (items : list A) (b : bins A) (n : nat) :
    items <> [] -> Forall (fun x : A => 0 <= valueof x) items ->
    first_fit valueof true C items = Ok b -> MinBins C (map valueof items) n ->
    (10 * length b <= 17 * n + 9)%nat.
  Proof. intros Hne Hnn Hff [Hpack _]. apply (ff_ratio_17_strong C items b n); assumption. Qed.
End FF17.

(** Best-fit: the invariant [sfit] used by [heavy] fails, and no reordering of the bins repairs
    it.  With C = 100 and items 20, 81, 5, 70, 4 best-fit returns [20;70;4] (94) and [81;5] (86):
    the item 5 of the second bin fits into the first bin (94 + 5 <= 100) and the item 4 of the
    first bin fits into the second (86 + 4 <= 100).  The classical best-fit proof is different and
    is not attempted here. *)
Example bf_no_sfit_order :
  best_fit (fun v : Z => v) true 100 [20; 81; 5; 70; 4] = Ok [(94, [20; 70; 4]); (86, [81; 5])].
Proof. vm_compute. reflexivity. Qed.

(** a run of first-fit and the weights involved: 3 bins, optimum 2 *)
Example ff_run_example :
  first_fit (fun v : Z => v) true 60 [31; 20; 9; 31; 20; 9] =
    Ok [(60, [31; 20; 9]); (60, [31; 20; 9])] /\
  first_fit (fun v : Z => v) true 60 [9; 9; 20; 20; 31; 31] =
    Ok [(58, [9; 9; 20; 20]); (31, [31]); (31, [31])] /\
  wsum 60 [9; 9; 20; 20; 31; 31] = 2016.
Proof. vm_compute. repeat split. Qed.

Print Assumptions ff_ratio_17_strong.
Print Assumptions ff_ratio_17.
Print Assumptions ff_ratio_17_minbins.
