(** Further rungs towards FF, BF <= floor(17/10 OPT) (Dosa and Sgall), continuing FF17SharpProofs.v.
    b = bins returned, m = length b, n = any number of bins of capacity C into which the values
    can be packed (in particular the optimum), beta = number of values above C/2.

    Arithmetic ([additive_floor_table]): 10 m <= 17 n + c gives 10 m <= 17 n for n = r mod 10 iff
    c <= slack17 r, slack17 = 9 2 5 8 1 4 7 0 3 6 for r = 0 .. 9.  So the additive constant
    6 settles r = 9 (and 0, 3, 6), 5 settles r = 2, 4 settles r = 5, 3 settles r = 8,
    2 would settle r = 1, 1 would settle r = 4, 0 would settle r = 7.
    [disj374_table]: what the disjunction 10 m <= 17 n + 3 \/ 4 m <= 7 n of FF17SharpProofs.v gives.

    PROVED, for first_fit and best_fit alike (items <> [], values >= 0), all unconditional:
      *_ratio_17_6_partial        10 m <= 17 n + 6
      *_ratio_17_4_partial        10 m <= 17 n + 4
      *_ratio_17_3_uncond_partial 10 m <= 17 n + 3
      *_ratio_17_floor_rung3_partial   10 m <= 17 n  for every n that is not 1, 4, 7 mod 10
                                       (and for n = 1)
      and *_ratio_17_floor_rung4_partial: the residues 0, 2, 3, 5, 6, 9 from the constant 4
    PROVED for first_fit only:
      ff_half_full_bigextra_sharp_partial  10 m <= 17 n  if every bin is more than half full and
                                some bin holds a value g > C/2 and is filled above g
    OPEN: n = 1, 4, 7 mod 10 (see the end of the file).

    What was missing in FF17SharpProofs.v was the case of a bin {a} with C/3 < a <= C/2
    (obstacle (b) there; only 17 n + 7 was known, for first-fit also 4 m <= 7 n).  Here:
    - [medium_remove]: without {a} the bins b' keep wf/anyfit/bf2/sfit/bf3 and are filled above
      th = C - a >= C/2, so the amortised analysis applies to b' with the optimum for all items;
      W2(a) = 12 a + C and the last common bin of b' loses at most 12 a - 2 C: constant 7 - 12/C.
    - [heavyRX], [heavyRX2], [heavy_choice]: the amortised analysis with the EXCESS 12 s - 6 C of
      every bin of sum s holding a value above C/2, and with the whole deficit 10 C - 12 s(c)
      carried by one common bin c (the last one, or any one that is at most 2/3 full).
    - [nonhuge_big_exists]: when every optimal bin holds a value above C/2, the bin of a holds
      some g with C/2 < g <= th; the bin Bg of g in b' is filled above th >= g.  If Bg is before
      c, the first two items of c do not fit Bg ([before_common]); if Bg is after c, first-fit:
      the other items of Bg do not fit c ([after_common_ff]); best-fit: the new invariant [bf3]
      ([bf_inv3], [bf3_after_ok]).  In both cases the excess of Bg pays for the free space of c.
    - when fewer than n values exceed C/2 and no such g exists, the optimal bin of a holds no
      value above C/2 and weighs at most 15 C - min(C, 6 a - 2 C) ([wsum2_nobig_23], via
      [gpack_head]).
    New invariant of best-fit ([bf3], with [bf_scan_char]: the scan returns the FIRST FULLEST
    bin that fits): for bins c before d = y1 :: z :: _ with y1 > C/2: z did not fit c, or c held
    a prefix p with |p| < y1 < C - |p| ... and the next item of c did not fit d. *)
From Prtpy Require Import Base.Prelude Model.Binner Model.Packing Spec.Partition
  Proofs.BaseLemmas Proofs.BinnerLemmas Proofs.PackingProofs Proofs.FFDRatioProofs
  Proofs.BFDRatioProofs Proofs.BCOptimalProofs Proofs.FF17Proofs Proofs.BF17Proofs
  Proofs.FF17SharpProofs.
From Coq Require Import ZifyBool.

(** ---- 0. the arithmetic of the additive constants ---- *)
Definition slack17 (r : nat) : nat := nth r [9; 2; 5; 8; 1; 4; 7; 0; 3; 6]%nat 0%nat.

Lemma additive_floor_table (m n k r c : nat) :
  (n = 10 * k + r)%nat -> (r < 10)%nat -> (c <= slack17 r)%nat ->
  (10 * m <= 17 * n + c)%nat -> (10 * m <= 17 * n)%nat.
Proof.
  intros E Hr Hc H. unfold slack17 in Hc.
  do 10 (destruct r as [|r]; [cbn [nth] in Hc; lia|]). lia.
Qed.

(** the table is exact: with c = slack17 r + 1 the conclusion fails for m = (17 n + c) / 10 *)
Example additive_floor_table_exact :
  forallb (fun r => (10 * ((17 * (10 + r) + slack17 r + 1) / 10) <=? 17 * (10 + r) + slack17 r + 1)%nat
                    && negb (10 * ((17 * (10 + r) + slack17 r + 1) / 10) <=? 17 * (10 + r))%nat)
          (seq 0 10) = true.
Proof. vm_compute. reflexivity. Qed.

(** what [ff_ratio_17_3_or_74_partial] (10 m <= 17 n + 3 \/ 4 m <= 7 n) and m <= 2 n - 1 give:
    the sharp bound exactly for n = 1, 2, 3, 5, 6, 9, 10, 13 *)
Definition disj374 (m n : nat) : bool :=
  ((10 * m <=? 17 * n + 3) || (4 * m <=? 7 * n))%nat && (m <=? 2 * n - 1)%nat.

Lemma disj374_table (m n : nat) :
  (10 * m <= 17 * n + 3)%nat \/ (4 * m <= 7 * n)%nat -> (m <= 2 * n - 1)%nat ->
  In n [1; 2; 3; 5; 6; 9; 10; 13]%nat -> (10 * m <= 17 * n)%nat.
Proof. intros H H2 Hin. cbn [In] in Hin. lia. Qed.

Example disj374_table_exact :
  filter (fun n => forallb (fun m => negb (disj374 m n) || (10 * m <=? 17 * n)%nat) (seq 0 (2 * n + 1)))
         (seq 1 200) = [1; 2; 3; 5; 6; 9; 10; 13]%nat.
Proof. vm_compute. reflexivity. Qed.

(** ---- 1. removing a bin keeps the order invariants ---- *)
Section Remove.
  Context {A : Type} (valueof : A -> Z).

  Lemma anyfit_remove C (l1 : bins A) E l2 :
    anyfit valueof C (l1 ++ E :: l2) -> anyfit valueof C (l1 ++ l2).
  Proof.
    induction l1 as [|c l1 IH]; cbn [app].
    - intros H. apply anyfit_cons in H. destruct H as [_ H]. exact H.
    - intros H. apply anyfit_cons in H. destruct H as [H1 H2]. apply anyfit_cons.
      split; [|apply IH; exact H2].
      apply Forall_app in H1. destruct H1 as [Ha Hb]. apply Forall_cons_iff in Hb.
      destruct Hb as [_ Hb]. apply Forall_app. split; assumption.
  Qed.

  Lemma bf2_remove C (l1 : bins A) E l2 :
    bf2 valueof C (l1 ++ E :: l2) -> bf2 valueof C (l1 ++ l2).
  Proof.
    induction l1 as [|c l1 IH]; cbn [app bf2].
    - intros [_ H]. exact H.
    - intros [H1 H2]. split; [|apply IH; exact H2].
      apply Forall_app in H1. destruct H1 as [Ha Hb]. apply Forall_cons_iff in Hb.
      destruct Hb as [_ Hb]. apply Forall_app. split; assumption.
  Qed.

  Lemma sfit_remove C (l1 : bins A) E l2 :
    sfit valueof C (l1 ++ E :: l2) -> sfit valueof C (l1 ++ l2).
  Proof.
    induction l1 as [|c l1 IH]; cbn [app sfit].
    - intros [_ H]. exact H.
    - intros [H1 H2]. split; [|apply IH; exact H2].
      rewrite contents_app, contents_cons in H1. rewrite contents_app.
      apply Forall_app in H1. destruct H1 as [Ha Hb]. apply Forall_app in Hb.
      destruct Hb as [_ Hb]. apply Forall_app. split; assumption.
  Qed.

  Lemma contents_Forall (P : A -> Prop) (b : bins A) :
    Forall P (contents b) <-> Forall (fun c : bin A => Forall P (snd c)) b.
  Proof.
    induction b as [|c t IH].
    - split; intros _; constructor.
    - rewrite contents_cons, Forall_app, Forall_cons_iff, IH. reflexivity.
  Qed.
End Remove.

(** ---- 2. the amortised analysis with the excess of the bins holding a value above C/2 ----
    Such a bin of sum s weighs at least 12 s + 4 C = 10 C + (12 s - 6 C). *)
Section Excess.
  Context {A : Type} (valueof : A -> Z).

  Notation cw2 C b := (wsum2 C (map valueof (contents b))).

  Definition bigb (C : Z) (c : bin A) : bool := existsb (fun y => C <? 2 * valueof y) (snd c).

  Lemma bigb_true C c : bigb C c = true <-> hasbig valueof C c.
  Proof.
    unfold bigb, hasbig. rewrite existsb_exists, Exists_exists. split.
    - intros (y & Hin & Hy). exists (valueof y). split; [apply in_map; exact Hin|lia].
    - intros (v & Hin & Hv). apply in_map_iff in Hin. destruct Hin as (y & E & Hin).
      exists y. split; [exact Hin|lia].
  Qed.

  Lemma bigb_false C c : bigb C c = false <-> nobig valueof C c.
  Proof.
    unfold nobig. split.
    - intros E. rewrite Forall_forall. intros v Hin.
      destruct (Z_le_dec (2 * v) C) as [Hle|Hgt]; [exact Hle|]. exfalso.
      assert (Hb : bigb C c = true).
      { apply bigb_true. unfold hasbig. apply Exists_exists. exists v. split; assumption. }
      congruence.
    - intros H. destruct (bigb C c) eqn:E; [|reflexivity]. exfalso.
      apply bigb_true in E. unfold hasbig in E. apply Exists_exists in E.
      destruct E as (v & Hin & Hv). rewrite Forall_forall in H. apply Hv. apply H. exact Hin.
  Qed.

  Fixpoint xs (C : Z) (b : bins A) : Z :=
    match b with
    | [] => 0
    | c :: t => (if bigb C c then 12 * fst c - 6 * C else 0) + xs C t
    end.

  Lemma xs_app C (b1 b2 : bins A) : xs C (b1 ++ b2) = xs C b1 + xs C b2.
  Proof. induction b1 as [|c t IH]; cbn [app xs]; [lia|]. rewrite IH. lia. Qed.

  Lemma xs_nonneg C (b : bins A) : half_full C b -> 0 <= xs C b.
  Proof.
    intros H. induction H as [|c t Hc Ht IH]; cbn [xs]; [lia|]. destruct (bigb C c); lia.
  Qed.

  (** a single bin with a value above C/2 contributes its excess *)
  Lemma xs_ge_in C (b : bins A) c : half_full C b -> In c b -> bigb C c = true ->
    12 * fst c - 6 * C <= xs C b.
  Proof.
    intros H Hin Hb. apply in_split in Hin. destruct Hin as (l1 & l2 & E). subst b.
    unfold half_full in H. apply Forall_app in H. destruct H as [H1 H2].
    apply Forall_cons_iff in H2. destruct H2 as [_ H2].
    rewrite xs_app. cbn [xs]. rewrite Hb.
    pose proof (xs_nonneg C l1 H1). pose proof (xs_nonneg C l2 H2). lia.
  Qed.

  Lemma allbig_heavyX C (t : bins A) : 0 <= C -> wf valueof t ->
    Forall (fun y => 0 <= valueof y) (contents t) -> Forall (hasbig valueof C) t ->
    10 * C * Z.of_nat (length t) + xs C t <= cw2 C t.
  Proof.
    intros HC. induction t as [|c t IH]; intros Hw Hnn Hb.
    - cbn [length Z.of_nat xs]. unfold contents, lists. cbn [map concat]. rewrite fsum_nil. lia.
    - apply Forall_cons_iff in Hb. destruct Hb as [Hc Hb].
      unfold wf in Hw. apply Forall_cons_iff in Hw. destruct Hw as [Hwc Hw].
      rewrite contents_cons in Hnn. apply Forall_app in Hnn. destruct Hnn as [Hn1 Hn2].
      specialize (IH Hw Hn2 Hb).
      rewrite contents_cons, map_app, fsum_app. cbn [length xs]. rewrite Nat2Z.inj_succ.
      assert (Hn1' : Forall (fun a => 0 <= a) (map valueof (snd c))) by (rewrite Forall_map; exact Hn1).
      pose proof (wsum2_big C _ HC Hn1' Hc) as H1. unfold wf_bin in Hwc.
      assert (Eb : bigb C c = true) by (apply bigb_true; exact Hc). rewrite Eb. lia.
  Qed.

  Lemma heavyRX C l0 : 0 <= C -> C < 2 * l0 -> 3 * l0 <= 2 * C + 2 -> forall (b : bins A) alpha,
    wf valueof b -> all_nonempty b -> anyfit valueof C b -> bf2 valueof C b -> half_full C b ->
    regular valueof C l0 b ->
    Forall (fun y => 0 <= valueof y) (contents b) ->
    Forall (head2_ge valueof C alpha) b ->
    10 * C * Z.of_nat (length b) + xs C b <= cw2 C b + PhiS C l0 alpha.
  Proof.
    intros HC Hl0 Hl1. induction b as [|bn t IH]; intros alpha Hw Hne Haf Hb2 Hhf Hreg Hnn Hge.
    - inversion Hreg.
    - pose proof Hw as Hwall.
      unfold wf in Hw. apply Forall_cons_iff in Hw. destruct Hw as [Hwb Hw].
      unfold all_nonempty in Hne. apply Forall_cons_iff in Hne. destruct Hne as [Hbn Hne].
      apply anyfit_cons in Haf. destruct Haf as [Hlt1 Haf].
      cbn [bf2] in Hb2. destruct Hb2 as [Hlt2 Hb2].
      unfold half_full in Hhf. apply Forall_cons_iff in Hhf. destruct Hhf as [Hh1 Hhf].
      rewrite contents_cons in Hnn. apply Forall_app in Hnn. destruct Hnn as [Hnn1 Hnn2].
      apply Forall_cons_iff in Hge. destruct Hge as [Hge1 Hge2].
      rewrite contents_cons, !map_app, !fsum_app. cbn [length xs]. rewrite Nat2Z.inj_succ.
      unfold wf_bin in Hwb.
      assert (Hnn1' : Forall (fun a => 0 <= a) (map valueof (snd bn)))
        by (rewrite Forall_map; exact Hnn1).
      set (alpha' := Z.max alpha (C - fst bn + 1)).
      assert (Hmono : PhiS C l0 alpha' <= PhiS C l0 alpha) by (apply PhiS_mono; unfold alpha'; lia).
      assert (Htail : (l0 <= fst bn /\ nobig valueof C bn /\
                       10 * C * Z.of_nat (length t) + xs C t <= cw2 C t) \/
                      10 * C * Z.of_nat (length t) + xs C t <= cw2 C t + PhiS C l0 alpha').
      { inversion Hreg as [c t0 Hnb Hlv Hallbig E1|c t0 Hreg' E1]; subst.
        - left. split; [exact Hlv|]. split; [exact Hnb|]. apply allbig_heavyX; auto.
        - right. apply IH; auto. apply (head2_ge_next1 valueof C alpha (fst bn)); auto. }
      destruct (bigb C bn) eqn:Eb.
      + (* a value above C/2: not the last common bin *)
        apply bigb_true in Eb.
        pose proof (wsum2_big C _ HC Hnn1' Eb) as Hw10.
        destruct Htail as [(_ & Hnb & _)|Ht].
        * exfalso. apply bigb_false in Hnb. apply bigb_true in Eb. congruence.
        * lia.
      + apply bigb_false in Eb. unfold nobig in Eb. rename Eb into Hnb.
        unfold head2_ge in Hge1.
        destruct (snd bn) as [|x1 [|x2 rest]] eqn:Es; [congruence| |].
        * cbn [map] in Hwb, Hnb. rewrite pk_zsum_cons, pk_zsum_nil in Hwb.
          apply Forall_cons_iff in Hnb. destruct Hnb as [Hx1 _]. lia.
        * cbn [map] in Hwb, Hnb, Hnn1' |- *. rewrite !pk_zsum_cons in Hwb.
          apply Forall_cons_iff in Hnb. destruct Hnb as [Hx1 Hnb].
          apply Forall_cons_iff in Hnb. destruct Hnb as [Hx2 Hnb].
          destruct Hge1 as [Ha1 Ha2].
          assert (Ha2' : alpha <= valueof x2) by (destruct Ha2 as [Ha2|Ha2]; [exact Ha2|lia]).
          clear Ha2.
          apply Forall_cons_iff in Hnn1'. destruct Hnn1' as [Hp1 Hnn1'].
          apply Forall_cons_iff in Hnn1'. destruct Hnn1' as [Hp2 Hnnr].
          pose proof (zsum_nonneg _ Hnnr) as Hr0.
          pose proof (wsum2_ge_12 C _ HC Hnnr) as Hr12.
          rewrite !fsum_cons.
          pose proof (bonus_spec C (valueof x1)) as H1.
          pose proof (bonus_spec C (valueof x2)) as H2.
          pose proof (bonus_spec C alpha) as H3.
          destruct Htail as [(Hlv & _ & Ht)|Ht].
          -- assert (Hstep : 10 * C <=
                       W2 C (valueof x1) + W2 C (valueof x2) + 12 * zsum (map valueof rest)
                       + PhiS C l0 alpha).
             { unfold PhiS, W2. lia. }
             lia.
          -- assert (Hstep : 10 * C + PhiS C l0 alpha' <=
                       W2 C (valueof x1) + W2 C (valueof x2) + 12 * zsum (map valueof rest)
                       + PhiS C l0 alpha).
             { unfold PhiS, W2. subst alpha'.
               pose proof (bonus_spec C (Z.max alpha (C - fst bn + 1))) as H4. lia. }
             lia.
  Qed.
End Excess.

(** ---- 3. a bin {a} with C/3 < a <= C/2: removing it leaves bins filled above C - a ---- *)
Section MediumRemove.
  Context {A : Type} (valueof : A -> Z).

  Notation cw2 C b := (wsum2 C (map valueof (contents b))).

  Lemma medium_remove C (b : bins A) (E : bin A) xa :
    wf valueof b -> all_nonempty b -> anyfit valueof C b -> bf2 valueof C b ->
    Forall (fun y => 0 <= valueof y) (contents b) ->
    In E b -> snd E = [xa] ->
    exists b' : bins A,
      length b = S (length b') /\ wf valueof b' /\ all_nonempty b' /\ anyfit valueof C b' /\
      bf2 valueof C b' /\ Forall (fun y => 0 <= valueof y) (contents b') /\
      Forall (fun c : bin A => C - valueof xa + 1 <= fst c) b' /\
      Permutation (valueof xa :: map valueof (contents b')) (map valueof (contents b)) /\
      (sfit valueof C b -> sfit valueof C b') /\
      (forall c, In c b' -> In c b) /\
      (exists l1 l2, b = l1 ++ E :: l2 /\ b' = l1 ++ l2).
  Proof.
    intros Hw Hnem Ha Hb2 Hnnb HinE EsE.
    apply in_split in HinE. destruct HinE as (l1 & l2 & Eb). subst b. exists (l1 ++ l2).
    unfold wf in Hw. apply Forall_app in Hw. destruct Hw as [Hw1 Hw].
    apply Forall_cons_iff in Hw. destruct Hw as [HwE Hw2].
    unfold all_nonempty in Hnem. apply Forall_app in Hnem. destruct Hnem as [Hne1 Hnem].
    apply Forall_cons_iff in Hnem. destruct Hnem as [_ Hne2].
    rewrite contents_app, contents_cons in Hnnb.
    apply Forall_app in Hnnb. destruct Hnnb as [Hnn1 Hnnb].
    apply Forall_app in Hnnb. destruct Hnnb as [_ Hnn2].
    assert (EsumE : fst E = valueof xa).
    { unfold wf_bin in HwE. rewrite EsE in HwE. cbn [map] in HwE.
      rewrite pk_zsum_cons, pk_zsum_nil in HwE. lia. }
    split; [rewrite !app_length; cbn [length]; lia|].
    split; [apply Forall_app; split; assumption|].
    split; [apply Forall_app; split; assumption|].
    split; [apply (anyfit_remove valueof C l1 E l2); exact Ha|].
    split; [apply (bf2_remove valueof C l1 E l2); exact Hb2|].
    split; [rewrite contents_app; apply Forall_app; split; assumption|].
    split.
    { apply Forall_app. split.
      - pose proof (anyfit_at valueof C l1 E l2 Ha) as Hpre.
        eapply Forall_impl; [|exact Hpre]. intros c Hc. unfold later_ok in Hc.
        rewrite EsE in Hc. lia.
      - pose proof (anyfit_app_r valueof C l1 (E :: l2) Ha) as Hsuf.
        apply anyfit_cons in Hsuf. destruct Hsuf as [Hsuf _].
        apply (contents_Forall (fun y => 0 <= valueof y)) in Hnn2.
        rewrite Forall_forall in *. intros c Hc.
        specialize (Hsuf c Hc). specialize (Hnn2 c Hc). specialize (Hw2 c Hc).
        unfold later_ok in Hsuf. destruct (snd c) as [|x r] eqn:Es; [contradiction|].
        pose proof (first_le_sum valueof c x r Hw2 Es) as Hx. rewrite Es in Hx.
        specialize (Hx Hnn2). lia. }
    split.
    { rewrite !contents_app, contents_cons, !map_app, EsE. cbn [map app].
      apply Permutation_middle. }
    split; [apply sfit_remove|].
    split; [|exists l1, l2; split; reflexivity].
    intros c Hc. apply in_app_or in Hc. apply in_or_app.
    destruct Hc as [Hc|Hc]; [left; exact Hc|right; right; exact Hc].
  Qed.

  (** the additive constant 6 (with beta, the number of values above C/2) *)
  Lemma medium_core6 C (b : bins A) (vs : list Z) (n : nat) E xa :
    0 < C -> wf valueof b -> all_nonempty b -> anyfit valueof C b -> bf2 valueof C b ->
    Forall (fun y => 0 <= valueof y) (contents b) ->
    Permutation (map valueof (contents b)) vs -> Packable C vs n ->
    In E b -> snd E = [xa] -> C < 3 * valueof xa -> 2 * valueof xa <= C ->
    10 * Z.of_nat (length b) <= 15 * Z.of_nat n + 2 * fsum (bigw C) vs + 6.
  Proof.
    intros HC Hw Hnem Ha Hb2 Hnnb Hpv Hpack HinE EsE Ha3 Ha2.
    assert (HC0 : 0 <= C) by lia.
    destruct (medium_remove C b E xa Hw Hnem Ha Hb2 Hnnb HinE EsE)
      as (b' & Elen & Hw' & Hnem' & Ha' & Hb2' & Hnnb' & Hlv & Hperm & _ & _).
    set (a := valueof xa) in *.
    assert (Hl0 : C < 2 * (C - a + 1)) by lia.
    pose proof (heavyI2 valueof C (C - a + 1) HC0 Hl0 b' 0 Hw' Hnem' Ha' Hb2' Hlv Hnnb'
                  (head2_ge_nonneg valueof C b' Hnnb')) as Hheavy.
    assert (Hvs : Forall (fun v => 0 <= v) vs).
    { eapply Permutation_Forall; [exact Hpv|]. rewrite Forall_map. exact Hnnb. }
    pose proof (packable_wsum2b C _ n HC0 Hvs Hpack) as Hlight.
    rewrite <- (fsum_perm (W2 C) _ _ Hpv), <- (fsum_perm (W2 C) _ _ Hperm), fsum_cons in Hlight.
    assert (HPhi : PhiI C (C - a + 1) 0 <= Z.max 0 (12 * a - 2 * C - 12)).
    { unfold PhiI. pose proof (bonus_spec C 0). lia. }
    pose proof (W2_spec C a) as HWa. rewrite Elen, Nat2Z.inj_succ.
    set (m' := Z.of_nat (length b')) in *. set (nn := Z.of_nat n) in *.
    set (beta := fsum (bigw C) vs) in *.
    assert (Hz : C * (10 * (m' + 1)) < C * (15 * nn + 2 * beta + 7)) by lia.
    apply Z.mul_lt_mono_pos_l in Hz; lia.
  Qed.
End MediumRemove.

(** ---- 4. rung 6: 10 m <= 17 n + 6 unconditionally, for first-fit and best-fit ---- *)
Section Rung6.
  Context {A : Type} (valueof : A -> Z).

  Lemma msb_or_nms C (b : bins A) :
    (exists bn xa, In bn b /\ snd bn = [xa] /\ C < 3 * valueof xa /\ 2 * valueof xa <= C) \/
    no_medium_single valueof C b.
  Proof.
    destruct (existsb (msb valueof C) b) eqn:E.
    - left. apply existsb_exists in E. destruct E as (bn & Hin & Hm).
      unfold msb in Hm. destruct (snd bn) as [|xa [|y r]] eqn:Es; try discriminate Hm.
      exists bn, xa. repeat split; auto; lia.
    - right. intros bn xa Hin Es [H3 H2].
      assert (Hm : msb valueof C bn = true) by (unfold msb; rewrite Es; lia).
      assert (Hex : existsb (msb valueof C) b = true) by (apply existsb_exists; exists bn; auto).
      congruence.
  Qed.

  Lemma ratio_17_6_core C (items : list A) (b : bins A) (n : nat) :
    Inv valueof C b items -> bf2 valueof C b -> 0 <= C -> (1 <= n)%nat ->
    Forall (fun y => 0 <= valueof y) (contents b) ->
    Packable C (map valueof items) n ->
    (10 * length b <= 17 * n + 6)%nat.
  Proof.
    intros HI Hb2 HC Hn Hnnb Hpack.
    destruct (msb_or_nms C b) as [(E & xa & HinE & EsE & Ha3 & Ha2)|Hno1].
    - destruct HI as (Hw & Hf & Hp & Hnem & Hns & Ha).
      pose proof (Permutation_map valueof Hp) as Hpv.
      destruct (Z.eq_dec C 0) as [E0|Hpos].
      + subst C. pose proof (cap0_single valueof b _ n Hw Ha Hnnb Hpv Hpack). lia.
      + pose proof (medium_core6 valueof C b _ n E xa ltac:(lia) Hw Hnem Ha Hb2 Hnnb Hpv Hpack
                      HinE EsE Ha3 Ha2) as H.
        assert (Hvs : Forall (fun v => 0 <= v) (map valueof items)).
        { eapply Permutation_Forall; [exact Hpv|]. rewrite Forall_map. exact Hnnb. }
        pose proof (packable_big C _ n HC Hvs Hpack) as Hbig. unfold fsum in H. lia.
    - pose proof (ratio_17_3_core valueof C items b n HI Hb2 HC Hn Hnnb Hpack Hno1). lia.
  Qed.

  Theorem ff_ratio_17_6_partial C (items : list A) (b : bins A) (n : nat) :
    items <> [] -> Forall (fun x : A => 0 <= valueof x) items ->
    first_fit valueof true C items = Ok b -> Packable C (map valueof items) n ->
    (10 * length b <= 17 * n + 6)%nat.
  Proof.
    intros Hne Hnn Hff Hpack.
    destruct (ff_facts valueof C items b n Hne Hnn Hff Hpack) as (HI & Hb2 & HC & Hn & Hnnb).
    apply (ratio_17_6_core C items b n); auto.
  Qed.

  Theorem bf_ratio_17_6_partial C (items : list A) (b : bins A) (n : nat) :
    items <> [] -> Forall (fun x : A => 0 <= valueof x) items ->
    best_fit valueof true C items = Ok b -> Packable C (map valueof items) n ->
    (10 * length b <= 17 * n + 6)%nat.
  Proof.
    intros Hne Hnn Hbf Hpack.
    destruct (bf_facts valueof C items b n Hne Hnn Hbf Hpack) as (HI & Hb2 & HC & Hn & Hnnb).
    apply (ratio_17_6_core C items b n); auto.
  Qed.
End Rung6.

(** ---- 5. the last bin without a value above C/2 ("last common bin") and its neighbours ---- *)
Section LastCommon.
  Context {A : Type} (valueof : A -> Z).

  Lemma in_contents (b : bins A) y : In y (contents b) -> exists c, In c b /\ In y (snd c).
  Proof.
    induction b as [|c t IH]; [intros []|]. rewrite contents_cons. intros H.
    apply in_app_or in H. destruct H as [H|H].
    - exists c. split; [left; reflexivity|exact H].
    - destruct (IH H) as (c0 & Hc0 & Hy). exists c0. split; [right; exact Hc0|exact Hy].
  Qed.

  (** bins holding a value above C/2 are at most as many as these values *)
  Lemma hasbig_count C (t : bins A) : Forall (hasbig valueof C) t ->
    Z.of_nat (length t) <= fsum (bigw C) (map valueof (contents t)).
  Proof.
    intros H. induction H as [|c t Hc Ht IH].
    - cbn [length Z.of_nat]. unfold contents, lists. cbn [map concat]. rewrite fsum_nil. lia.
    - rewrite contents_cons, map_app, fsum_app. cbn [length]. rewrite Nat2Z.inj_succ.
      pose proof (fsum_bigw_pos C _ Hc). lia.
  Qed.

  (** a bin before a bin c without a value above C/2 that is more than half full: the first two
      items of c do not fit it *)
  Lemma before_common C (t1 : bins A) c t2 Bg : 0 <= C ->
    wf valueof (t1 ++ c :: t2) -> anyfit valueof C (t1 ++ c :: t2) -> bf2 valueof C (t1 ++ c :: t2) ->
    Forall (fun y => 0 <= valueof y) (snd c) ->
    nobig valueof C c -> C < 2 * fst c -> In Bg t1 ->
    2 * (C - fst Bg + 1) <= fst c.
  Proof.
    intros HC Hw Ha Hb2 Hnn Hnb Hhf Hin.
    pose proof (anyfit_at valueof C t1 c t2 Ha) as H1.
    pose proof (bf2_at valueof C t1 c t2 Hb2) as H2.
    rewrite Forall_forall in H1, H2. specialize (H1 Bg Hin). specialize (H2 Bg Hin).
    unfold wf in Hw. apply Forall_app in Hw. destruct Hw as [_ Hw].
    apply Forall_cons_iff in Hw. destruct Hw as [Hwc _]. unfold wf_bin in Hwc.
    unfold later_ok in H1. unfold later2_ok in H2. unfold nobig in Hnb.
    destruct (snd c) as [|x1 [|x2 r]]; [contradiction| |].
    - cbn [map] in Hwc, Hnb. rewrite pk_zsum_cons, pk_zsum_nil in Hwc.
      apply Forall_cons_iff in Hnb. destruct Hnb as [Hx1 _]. lia.
    - cbn [map] in Hwc, Hnb. rewrite !pk_zsum_cons in Hwc.
      apply Forall_cons_iff in Hnb. destruct Hnb as [Hx1 _].
      apply Forall_cons_iff in Hnn. destruct Hnn as [_ Hnn].
      apply Forall_cons_iff in Hnn. destruct Hnn as [_ Hnn].
      assert (0 <= zsum (map valueof r)) by (apply zsum_nonneg; rewrite Forall_map; exact Hnn).
      lia.
  Qed.

  Lemma zsum_ge_one (l : list Z) K : 0 <= K -> Forall (fun v => K <= v) l -> l <> [] -> K <= zsum l.
  Proof.
    intros HK H Hne. destruct H as [|v l Hv Hl]; [congruence|].
    rewrite pk_zsum_cons.
    assert (0 <= zsum l).
    { apply zsum_nonneg. eapply Forall_impl; [|exact Hl]. intros w Hw. cbv beta in Hw. lia. }
    lia.
  Qed.

  Lemma zsum_in_extra (l : list Z) g K : 0 <= K -> Forall (fun v => K <= v) l -> In g l ->
    g < zsum l -> g + K <= zsum l.
  Proof.
    intros HK H Hin Hlt. apply in_split in Hin. destruct Hin as (p1 & p2 & E). subst l.
    rewrite zsum_app, pk_zsum_cons in *.
    apply Forall_app in H. destruct H as [H1 H2]. apply Forall_cons_iff in H2. destruct H2 as [_ H2].
    assert (H12 : Forall (fun v => K <= v) (p1 ++ p2)) by (apply Forall_app; split; assumption).
    assert (Hne : p1 ++ p2 <> []).
    { intros E. apply app_eq_nil in E. destruct E as [E1 E2]. subst p1 p2.
      rewrite pk_zsum_nil in Hlt. lia. }
    pose proof (zsum_ge_one _ K HK H12 Hne) as Hge. rewrite zsum_app in Hge. lia.
  Qed.

  (** first-fit: a bin after c that holds g and something else *)
  Lemma after_common_ff C (t1 : bins A) c t2 Bg g : 0 <= C -> fst c <= C ->
    wf valueof (t1 ++ c :: t2) -> sfit valueof C (t1 ++ c :: t2) ->
    In Bg t2 -> In g (map valueof (snd Bg)) -> g < fst Bg ->
    g + (C - fst c + 1) <= fst Bg.
  Proof.
    intros HC Hfc Hw Hsf Hin Hg Hlt.
    apply sfit_app in Hsf. destruct Hsf as (_ & Hsf & _). cbn [sfit] in Hsf. destruct Hsf as [Hs _].
    apply (contents_Forall (fun y => C < fst c + valueof y)) in Hs.
    rewrite Forall_forall in Hs. specialize (Hs Bg Hin).
    unfold wf in Hw. apply Forall_app in Hw. destruct Hw as [_ Hw].
    apply Forall_cons_iff in Hw. destruct Hw as [_ Hw2].
    rewrite Forall_forall in Hw2. specialize (Hw2 Bg Hin). unfold wf_bin in Hw2.
    rewrite Hw2 in *. apply zsum_in_extra; auto; [lia|].
    rewrite Forall_map. eapply Forall_impl; [|exact Hs]. intros y Hy. cbv beta in Hy. lia.
  Qed.
End LastCommon.

(** ---- 6. counting conflicts: if every optimal bin holds a value above C/2 and a value a with
    C/3 < a <= C/2 is present, some value g has C/2 < g <= C - a ---- *)
Lemma fE_bigw_all C a l : Forall (fun y => C < 2 * y -> C - a < y) l ->
  2 * fsum (bigw C) l <= fsum (fE C a) l.
Proof.
  intros H. induction H as [|y l Hy Hl IH]; [rewrite !fsum_nil; lia|].
  rewrite !fsum_cons. pose proof (fE_spec C a y) as HfE.
  assert (Eb : (bigw C y = 1 /\ C < 2 * y) \/ (bigw C y = 0 /\ 2 * y <= C))
    by (unfold bigw; destruct (C <? 2 * y) eqn:E; lia).
  lia.
Qed.

Lemma fE_bigw_in C a l : 0 <= a -> 2 * a <= C ->
  Forall (fun y => C < 2 * y -> C - a < y) l -> In a l ->
  2 * fsum (bigw C) l + 1 <= fsum (fE C a) l.
Proof.
  intros Ha0 Ha2 H Hin. apply in_split in Hin. destruct Hin as (l1 & l2 & E). subst l.
  apply Forall_app in H. destruct H as [H1 H2]. apply Forall_cons_iff in H2. destruct H2 as [_ H2].
  rewrite !fsum_app, !fsum_cons.
  pose proof (fE_bigw_all C a l1 H1). pose proof (fE_bigw_all C a l2 H2).
  pose proof (fE_spec C a a) as HfE.
  assert (Eb : bigw C a = 0) by (unfold bigw; destruct (C <? 2 * a) eqn:E; lia).
  lia.
Qed.

Lemma nonhuge_big_exists C a vs n : 0 <= C -> C < 3 * a -> 2 * a <= C ->
  Forall (fun v => 0 <= v) vs -> Packable C vs n -> In a vs ->
  Z.of_nat n <= fsum (bigw C) vs ->
  exists g, In g vs /\ C < 2 * g /\ g <= C - a.
Proof.
  intros HC Ha3 Ha2 Hvs Hpack Hin Hbeta.
  destruct (Forall_Exists_dec (fun y => C < 2 * y -> C - a < y)
              (fun y => match Z_lt_dec C (2 * y) with
                        | left Hl => match Z_lt_dec (C - a) y with
                                     | left Hr => left (fun _ => Hr)
                                     | right Hr => right (fun Hf => Hr (Hf Hl))
                                     end
                        | right Hl => left (fun Hf => False_ind _ (Hl Hf))
                        end) vs) as [Hall|Hex].
  - exfalso. pose proof (fE_bigw_in C a vs ltac:(lia) Ha2 Hall Hin) as H1.
    assert (H2 : fsum (fE C a) vs <= 2 * Z.of_nat n).
    { apply (packable_fsum (fE C a) C); auto. intros g Hg Hs. apply light_fE_bin; auto. }
    lia.
  - apply Exists_exists in Hex. destruct Hex as (g & Hg & Hn). exists g.
    split; [exact Hg|]. lia.
Qed.


(** ---- 7. a bin {a}, C/3 < a <= C/2: the additive constant 4 ----
    Remove {a}: the other bins b' are filled above th = C - a >= C/2; [heavyRX] bounds their number
    by the weight, the excess of the bins with a value above C/2, and the free space of the last
    common bin c.  Either fewer than n values exceed C/2 (the optimum loses 2 C), or some value g
    has C/2 < g <= th; its bin Bg is filled above th >= g, so it holds another item:
      Bg before c: the first two items of c do not fit Bg ([before_common]),
      Bg after c:  hypothesis [after_ok] (first-fit: the other items of Bg do not fit c),
    and in both cases the excess of Bg pays for most of the free space of c. *)
Section Medium4.
  Context {A : Type} (valueof : A -> Z).

  Notation cw2 C b := (wsum2 C (map valueof (contents b))).

  Definition after_ok (C th : Z) (b' : bins A) : Prop :=
    forall t1 c t2 Bg g, b' = t1 ++ c :: t2 -> nobig valueof C c -> th < fst c -> In Bg t2 ->
      In g (map valueof (snd Bg)) -> C < 2 * g -> g <= th -> g < fst Bg ->
      g + (C - fst c + 1) <= fst Bg \/ 2 * C - g < fst c + fst Bg.

  Lemma medium_core4_gen C (b' : bins A) (vs : list Z) (n : nat) a :
    0 < C -> (1 <= n)%nat -> C < 3 * a -> 2 * a <= C ->
    wf valueof b' -> feasible C b' -> all_nonempty b' -> anyfit valueof C b' -> bf2 valueof C b' ->
    Forall (fun y => 0 <= valueof y) (contents b') ->
    Forall (fun c : bin A => C - a + 1 <= fst c) b' ->
    Permutation (a :: map valueof (contents b')) vs -> Packable C vs n ->
    after_ok C (C - a) b' ->
    (10 * S (length b') <= 17 * n + 4)%nat.
  Proof.
    intros HC Hn Ha3 Ha2 Hw' Hfe Hnem' Ha' Hb2' Hnnb' Hlv Hpa Hpack Hafter.
    assert (HC0 : 0 <= C) by lia.
    set (th := C - a) in *.
    assert (Hvs : Forall (fun v => 0 <= v) vs).
    { eapply Permutation_Forall; [exact Hpa|]. constructor; [lia|]. rewrite Forall_map. exact Hnnb'. }
    assert (Hhf : half_full C b').
    { unfold half_full. eapply Forall_impl; [|exact Hlv]. intros c Hc. cbv beta in Hc. lia. }
    pose proof (packable_wsum2b C _ n HC0 Hvs Hpack) as Hlight.
    pose proof (packable_wsum2 C _ n Hvs Hpack) as Hlight17.
    pose proof (packable_big C vs n HC0 Hvs Hpack) as Hbig.
    change (zsum (map (bigw C) vs)) with (fsum (bigw C) vs) in Hbig.
    rewrite <- (fsum_perm (W2 C) _ _ Hpa), fsum_cons in Hlight, Hlight17.
    assert (Eba : bigw C a = 0) by (unfold bigw; destruct (C <? 2 * a) eqn:E0; lia).
    assert (Ebeta : fsum (bigw C) vs = fsum (bigw C) (map valueof (contents b'))).
    { rewrite <- (fsum_perm (bigw C) _ _ Hpa), fsum_cons. lia. }
    pose proof (W2_spec C a) as HWa.
    set (m' := length b') in *.
    destruct (last_common_split valueof C b') as [Hall|(t1 & c & t2 & Eb' & Hnb & Hall)].
    - pose proof (hasbig_count valueof C b' Hall) as Hcnt. fold m' in Hcnt. lia.
    - assert (Hinc : In c b') by (rewrite Eb'; apply in_or_app; right; left; reflexivity).
      assert (Hlc : th + 1 <= fst c) by (rewrite Forall_forall in Hlv; apply Hlv; exact Hinc).
      assert (Hfc : fst c <= C).
      { unfold feasible in Hfe. rewrite Forall_forall in Hfe. apply Hfe. exact Hinc. }
      assert (Hnnc : Forall (fun y => 0 <= valueof y) (snd c)).
      { apply (contents_Forall (fun y => 0 <= valueof y)) in Hnnb'.
        rewrite Forall_forall in Hnnb'. apply Hnnb'. exact Hinc. }
      destruct (Z_lt_dec (fsum (bigw C) vs) (Z.of_nat n)) as [Hlt|Hge].
      + assert (Hreg : regular valueof C (th + 1) b').
        { rewrite Eb'. apply regular_app. apply reg_last; auto. }
        pose proof (heavyRX valueof C (th + 1) HC0 ltac:(lia) ltac:(lia) b' 0 Hw' Hnem' Ha' Hb2' Hhf
                      Hreg Hnnb' (head2_ge_nonneg valueof C b' Hnnb')) as Hheavy.
        pose proof (xs_nonneg valueof C b' Hhf) as Hx0.
        assert (HPhi : PhiS C (th + 1) 0 = 10 * C - 12 * (th + 1)).
        { unfold PhiS. pose proof (bonus_spec C 0). lia. }
        fold m' in Hheavy.
        assert (Hz : C * (10 * (Z.of_nat m' + 1)) < C * (17 * Z.of_nat n + 5)) by nia.
        apply Z.mul_lt_mono_pos_l in Hz; lia.
      + assert (Hina : In a vs).
        { eapply Permutation_in; [exact Hpa|]. left. reflexivity. }
        destruct (nonhuge_big_exists C a vs n HC0 Ha3 Ha2 Hvs Hpack Hina ltac:(lia))
          as (g & Hg & Hg2 & Hgth).
        assert (Hg' : In g (map valueof (contents b'))).
        { apply (Permutation_in _ (Permutation_sym Hpa)) in Hg. destruct Hg as [Hg|Hg]; [lia|exact Hg]. }
        apply in_map_iff in Hg'. destruct Hg' as (y & Ey & Hy).
        destruct (in_contents b' y Hy) as (Bg & HBg & HyB).
        assert (HgB : In g (map valueof (snd Bg))) by (rewrite <- Ey; apply in_map; exact HyB).
        assert (Hbb : bigb valueof C Bg = true).
        { apply bigb_true. unfold hasbig. apply Exists_exists. exists g. split; [exact HgB|lia]. }
        assert (HlB : th + 1 <= fst Bg) by (rewrite Forall_forall in Hlv; apply Hlv; exact HBg).
        pose proof (xs_ge_in valueof C b' Bg Hhf HBg Hbb) as Hxs.
        set (cap := (2 * C + 2) / 3).
        pose proof (Z.div_mod (2 * C + 2) 3) as Hdm. pose proof (Z.mod_pos_bound (2 * C + 2) 3) as Hmb.
        assert (Hcap : 2 * C <= 3 * cap <= 2 * C + 2) by (unfold cap; lia). clear Hdm Hmb.
        set (l0 := Z.min (fst c) cap).
        assert (Hreg : regular valueof C l0 b').
        { rewrite Eb'. apply regular_app. apply reg_last; auto. unfold l0. lia. }
        pose proof (heavyRX valueof C l0 HC0 ltac:(unfold l0; lia) ltac:(unfold l0; lia) b' 0 Hw' Hnem'
                      Ha' Hb2' Hhf Hreg Hnnb' (head2_ge_nonneg valueof C b' Hnnb')) as Hheavy.
        assert (HPhi : PhiS C l0 0 = 10 * C - 12 * l0).
        { unfold PhiS. pose proof (bonus_spec C 0). unfold l0. lia. }
        fold m' in Hheavy.
        assert (Hkey : 2 * C + 3 * th + 1 <= 3 * (l0 + fst Bg)).
        { destruct (Z_le_dec cap (fst c)) as [Hreg23|Hexc].
          - unfold l0. lia.
          - assert (El0 : l0 = fst c) by (unfold l0; lia).
            pose proof HBg as HBg'. rewrite Eb' in HBg'. apply in_app_or in HBg'.
            destruct HBg' as [HB1|HB2].
            + rewrite Eb' in Hw', Ha', Hb2'.
              pose proof (before_common valueof C t1 c t2 Bg HC0 Hw' Ha' Hb2' Hnnc Hnb
                            ltac:(lia) HB1) as Hbc.
              lia.
            + destruct HB2 as [HB2|HB2].
              * exfalso. subst Bg. apply bigb_false in Hnb. congruence.
              * destruct (Hafter t1 c t2 Bg g Eb' Hnb ltac:(lia) HB2 HgB Hg2 Hgth ltac:(lia))
                  as [Hac|Hac]; lia. }
        assert (Hz : C * (10 * (Z.of_nat m' + 1)) < C * (17 * Z.of_nat n + 5)) by nia.
        apply Z.mul_lt_mono_pos_l in Hz; lia.
  Qed.

  (** first-fit: no item of a later bin fits c *)
  Lemma sfit_after_ok C th (b' : bins A) : 0 <= C -> wf valueof b' -> feasible C b' ->
    sfit valueof C b' -> after_ok C th b'.
  Proof.
    intros HC Hw Hfe Hsf t1 c t2 Bg g Eb' Hnb Hthc HB2 HgB Hg2 Hgth Hlt. left.
    rewrite Eb' in Hw, Hsf.
    assert (Hfc : fst c <= C).
    { unfold feasible in Hfe. rewrite Forall_forall in Hfe. apply Hfe. rewrite Eb'.
      apply in_or_app; right; left; reflexivity. }
    apply (after_common_ff valueof C t1 c t2 Bg g); auto.
  Qed.

  Lemma ff_medium_core4 C (b : bins A) (vs : list Z) (n : nat) E xa :
    0 < C -> (1 <= n)%nat -> wf valueof b -> feasible C b -> all_nonempty b -> anyfit valueof C b ->
    bf2 valueof C b -> sfit valueof C b ->
    Forall (fun y => 0 <= valueof y) (contents b) ->
    Permutation (map valueof (contents b)) vs -> Packable C vs n ->
    In E b -> snd E = [xa] -> C < 3 * valueof xa -> 2 * valueof xa <= C ->
    (10 * length b <= 17 * n + 4)%nat.
  Proof.
    intros HC Hn Hw Hfe Hnem Ha Hb2 Hsf Hnnb Hpv Hpack HinE EsE Ha3 Ha2.
    destruct (medium_remove valueof C b E xa Hw Hnem Ha Hb2 Hnnb HinE EsE)
      as (b' & Elen & Hw' & Hnem' & Ha' & Hb2' & Hnnb' & Hlv & Hperm & Hsf' & Hsub & _).
    specialize (Hsf' Hsf). rewrite Elen.
    assert (Hfe' : feasible C b').
    { unfold feasible in *. rewrite Forall_forall in *. intros c Hc. apply Hfe. apply Hsub. exact Hc. }
    apply (medium_core4_gen C b' vs n (valueof xa)); auto.
    - etransitivity; [exact Hperm|exact Hpv].
    - apply sfit_after_ok; auto. lia.
  Qed.
End Medium4.

(** ---- 8. a third order invariant of best-fit ----
    [bf_place_cases] of BFDRatioProofs.v compares the chosen bin with the EARLIER bins only; the
    scan in fact returns the first fullest bin among those that fit. *)
Section ScanChar.
  Context {A : Type}.

  Lemma bf_scan_char C v (b : bins A) : forall i best k,
    fst (bf_scan C v b i best) = Some k ->
    (fst best = Some k /\ Forall (fun c => fst c + v <= C -> fst c + v <= snd best) b) \/
    exists l1 bn l2, b = l1 ++ bn :: l2 /\ k = (i + length l1)%nat /\ fst bn + v <= C /\
      snd best < fst bn + v /\
      Forall (fun c => fst c + v <= C -> fst c < fst bn) l1 /\
      Forall (fun c => fst c + v <= C -> fst c <= fst bn) l2.
  Proof.
    induction b as [|bn t IH]; intros i best k; cbn [bf_scan].
    - intros H. left. split; [exact H|constructor].
    - intros H. apply IH in H.
      destruct ((fst bn + v <=? C) && (snd best <? fst bn + v)) eqn:E.
      + destruct H as [[H1 H2]|(l1 & bn' & l2 & E1 & E2 & E3 & E4 & E5 & E6)].
        * right. exists [], bn, t. cbn [fst] in H1. injection H1 as H1. cbn [snd] in H2.
          cbn [app length]. repeat split; try lia; [constructor|].
          eapply Forall_impl; [|exact H2]. intros c Hc Hfit. specialize (Hc Hfit). lia.
        * right. exists (bn :: l1), bn', l2. subst t. cbn [app length snd] in *.
          repeat split; try lia; [|exact E6]. constructor; [lia|exact E5].
      + destruct H as [[H1 H2]|(l1 & bn' & l2 & E1 & E2 & E3 & E4 & E5 & E6)].
        * left. split; [exact H1|]. constructor; [lia|exact H2].
        * right. exists (bn :: l1), bn', l2. subst t. cbn [app length].
          repeat split; try lia; [|exact E6]. constructor; [lia|exact E5].
  Qed.
End ScanChar.

Section BF3.
  Context {A : Type} (valueof : A -> Z).
  Notation add := (add_to_bin valueof true).

  Lemma bf_place_cases2 C x b : Forall (fun bn => -1 < fst bn + valueof x) b ->
    (exists l1 bn l2, b = l1 ++ bn :: l2 /\ bf_place valueof true C x b = l1 ++ add x bn :: l2 /\
       fst bn + valueof x <= C /\
       Forall (fun c => fst c + valueof x <= C -> fst c < fst bn) l1 /\
       Forall (fun c => fst c + valueof x <= C -> fst c <= fst bn) l2) \/
    (Forall (fun bn => C < fst bn + valueof x) b /\ bf_place valueof true C x b = b ++ [add x empty_bin]).
  Proof.
    intros Hpos. unfold bf_place.
    destruct (fst (bf_scan C (valueof x) b 0 (None, -1))) as [k|] eqn:E.
    - left. apply bf_scan_char in E.
      destruct E as [[E _]|(l1 & bn & l2 & E1 & E2 & E3 & _ & E5 & E6)].
      + discriminate E.
      + exists l1, bn, l2. subst b. cbn [Nat.add] in E2. subst k. unfold add_item.
        rewrite update_at. repeat split; assumption.
    - right. split; [|reflexivity]. apply bf_scan_none in E. cbn [snd] in E.
      rewrite Forall_forall in *. intros bn Hin. specialize (E bn Hin). specialize (Hpos bn Hin). lia.
  Qed.

  (** d = y1 :: z :: _ with y1 above C/2, c an earlier bin: when z was placed, it did not fit c,
      or c (then holding the prefix p) was less full than y1; y1 did not fit p when d was opened;
      the next item w of c did not fit d *)
  Definition later3_ok (C : Z) (c d : bin A) : Prop :=
    match snd d with
    | y1 :: z :: _ =>
        2 * valueof y1 <= C \/ C < fst c + valueof z \/
        exists p q, snd c = p ++ q /\ zsum (map valueof p) < valueof y1 /\
                    C < zsum (map valueof p) + valueof y1 /\
                    match q with [] => True | w :: _ => C < fst d + valueof w end
    | _ => True
    end.

  Fixpoint bf3 (C : Z) (b : bins A) : Prop :=
    match b with
    | [] => True
    | c :: t => Forall (later3_ok C c) t /\ bf3 C t
    end.

  Lemma bf3_app C (l1 l2 : bins A) :
    bf3 C (l1 ++ l2) <-> bf3 C l1 /\ bf3 C l2 /\ Forall (fun c => Forall (later3_ok C c) l2) l1.
  Proof.
    induction l1 as [|c l1 IH]; cbn [app bf3].
    - split; [intros H; repeat split; auto|intros (_ & H & _); exact H].
    - rewrite Forall_app, IH, Forall_cons_iff. tauto.
  Qed.

  Lemma bf3_remove C (l1 : bins A) E l2 : bf3 C (l1 ++ E :: l2) -> bf3 C (l1 ++ l2).
  Proof.
    rewrite !bf3_app. cbn [bf3]. intros (H1 & (_ & H2) & H12). split; [exact H1|]. split; [exact H2|].
    eapply Forall_impl; [|exact H12]. intros c Hc. apply Forall_cons_iff in Hc. tauto.
  Qed.

  Lemma head_le_sum (d : bin A) y1 r : wf_bin valueof d -> snd d = y1 :: r ->
    Forall (fun y => 0 <= valueof y) (snd d) -> valueof y1 <= fst d.
  Proof. intros Hw E Hnn. apply (first_le_sum valueof d y1 r Hw E Hnn). Qed.

  (** the bin bn receives x *)
  Lemma later3_grow_c C x bn d : 0 <= valueof x -> wf_bin valueof bn -> wf_bin valueof d ->
    Forall (fun y => 0 <= valueof y) (snd d) ->
    (fst d + valueof x <= C -> fst d <= fst bn) ->
    later3_ok C bn d -> later3_ok C (add x bn) d.
  Proof.
    intros Hx Hwb Hwd Hnnd Hbest. unfold later3_ok.
    destruct (snd d) as [|y1 [|z r]] eqn:Ed; [auto|auto|].
    intros [H|[H|(p & q & E & Hp1 & Hp2 & Hq)]]; [left; exact H| |].
    - right. left. unfold add_to_bin. cbn [fst]. lia.
    - right. right. exists p, (q ++ [x]). unfold add_to_bin. cbn [fst snd].
      split; [rewrite E, app_assoc; reflexivity|]. split; [exact Hp1|]. split; [exact Hp2|].
      destruct q as [|w q']; cbn [app]; [|exact Hq].
      rewrite app_nil_r in E. unfold wf_bin in Hwb. rewrite E in Hwb.
      pose proof (head_le_sum d y1 (z :: r) Hwd Ed) as Hy. rewrite Ed in Hy. specialize (Hy Hnnd).
      destruct (Z_lt_le_dec C (fst d + valueof x)) as [Hlt|Hle]; [exact Hlt|].
      specialize (Hbest Hle). lia.
  Qed.

  (** the bin bn, after c, receives x *)
  Lemma later3_grow_d C x c bn : 0 <= valueof x -> wf_bin valueof bn -> wf_bin valueof c ->
    later_ok valueof C (fst c) bn ->
    (fst c + valueof x <= C -> fst c < fst bn) ->
    later3_ok C c bn -> later3_ok C c (add x bn).
  Proof.
    intros Hx Hwb Hwc Hany Hbest. unfold later3_ok, later_ok in *. unfold add_to_bin. cbn [fst snd].
    destruct (snd bn) as [|y1 [|z r]] eqn:Eb; cbn [app].
    - auto.
    - intros _. unfold wf_bin in Hwb. rewrite Eb in Hwb. cbn [map] in Hwb.
      rewrite pk_zsum_cons, pk_zsum_nil in Hwb.
      destruct (Z_le_dec (2 * valueof y1) C) as [H1|H1]; [left; exact H1|].
      destruct (Z_lt_le_dec C (fst c + valueof x)) as [Hlt|Hle]; [right; left; exact Hlt|].
      right. right. specialize (Hbest Hle). exists (snd c), [].
      unfold wf_bin in Hwc. rewrite <- Hwc.
      split; [rewrite app_nil_r; reflexivity|]. split; [lia|]. split; [lia|exact I].
    - intros [H|[H|(p & q & E & Hp1 & Hp2 & Hq)]]; [left; exact H|right; left; exact H|].
      right. right. exists p, q. repeat split; auto. destruct q as [|w q']; [exact I|lia].
  Qed.

  Lemma bf3_into C x bn (l1 l2 : bins A) : 0 <= valueof x ->
    wf valueof (l1 ++ bn :: l2) -> Forall (fun y => 0 <= valueof y) (contents (l1 ++ bn :: l2)) ->
    anyfit valueof C (l1 ++ bn :: l2) ->
    Forall (fun c => fst c + valueof x <= C -> fst c < fst bn) l1 ->
    Forall (fun c => fst c + valueof x <= C -> fst c <= fst bn) l2 ->
    bf3 C (l1 ++ bn :: l2) -> bf3 C (l1 ++ add x bn :: l2).
  Proof.
    intros Hx Hw Hnn Ha Hb1 Hb2. rewrite !bf3_app. cbn [bf3].
    intros (H1 & (Hbn2 & H2) & H12).
    pose proof (anyfit_at valueof C l1 bn l2 Ha) as Hany.
    unfold wf in Hw. apply Forall_app in Hw. destruct Hw as [Hw1 Hw].
    apply Forall_cons_iff in Hw. destruct Hw as [Hwb Hw2].
    apply (contents_Forall (fun y => 0 <= valueof y)) in Hnn.
    apply Forall_app in Hnn. destruct Hnn as [_ Hnn]. apply Forall_cons_iff in Hnn.
    destruct Hnn as [_ Hnn2].
    split; [exact H1|]. split; [split; [|exact H2]|].
    - rewrite Forall_forall in *. intros d Hd.
      apply later3_grow_c; auto.
    - rewrite Forall_forall in *. intros c Hc. specialize (H12 c Hc).
      apply Forall_cons_iff in H12. destruct H12 as [Hcb Hc2].
      constructor; [|exact Hc2]. apply later3_grow_d; auto.
  Qed.

  Lemma bf3_new C x : forall b : bins A, bf3 C b -> bf3 C (b ++ [add x empty_bin]).
  Proof.
    intros b H. rewrite bf3_app. cbn [bf3]. split; [exact H|]. split; [split; [constructor|exact I]|].
    rewrite Forall_forall. intros c _. constructor; [|constructor].
    unfold later3_ok, add_to_bin, empty_bin. cbn. exact I.
  Qed.

  Lemma bf_place_bf3 C x b : 0 <= valueof x -> wf valueof b -> nonneg_sums b ->
    Forall (fun y => 0 <= valueof y) (contents b) -> anyfit valueof C b ->
    bf3 C b -> bf3 C (bf_place valueof true C x b).
  Proof.
    intros Hx Hw Hns Hnn Ha H3.
    destruct (bf_place_cases2 C x b (nonneg_sums_pos b (valueof x) Hx Hns))
      as [(l1 & bn & l2 & E1 & E2 & E3 & E4 & E5)|[E1 E2]]; rewrite E2.
    - subst b. apply bf3_into; auto.
    - apply bf3_new. exact H3.
  Qed.

  (** best-fit keeps Inv, bf2 and bf3 *)
  Lemma bf_inv3 C (items : list A) (b : bins A) :
    items <> [] -> Forall (fun x => 0 <= valueof x) items ->
    best_fit valueof true C items = Ok b ->
    Inv valueof C b items /\ bf2 valueof C b /\ bf3 C b.
  Proof.
    intros Hne Hnn H. destruct items as [|x t]; [congruence|]. clear Hne.
    unfold best_fit in H. rewrite bf_loop_gloop in H. cbn [gloop] in H.
    destruct (valueof x >? C) eqn:E; [discriminate H|].
    apply Forall_cons_iff in Hnn. destruct Hnn as [Hx Hnn].
    assert (Hfirst : bf_place valueof true C x (new_bins 1) = [add x empty_bin]).
    { apply (af_step_first valueof C x); [lia|]. apply bf_is_step; [exact Hx|].
      unfold nonneg_sums, new_bins, empty_bin. cbn [repeat]. constructor; [cbn [fst]; lia|constructor]. }
    rewrite Hfirst in H. change (x :: t) with ([x] ++ t).
    assert (Hgoal : (Inv valueof C b ([x] ++ t) /\ bf2 valueof C b /\ bf3 C b) /\
                    Forall (fun y => 0 <= valueof y) ([x] ++ t)).
    { apply (gloop_inv valueof (bf_place valueof true) C
               (fun b0 acc => (Inv valueof C b0 acc /\ bf2 valueof C b0 /\ bf3 C b0) /\
                              Forall (fun y => 0 <= valueof y) acc))
        with (b := [add x empty_bin]); [|exact Hnn|exact H|].
      - intros b0 acc x0 Hx0 ((HI & H2 & H3) & Hacc).
        pose proof HI as (Hw & _ & Hp & _ & Hsn & Ha).
        assert (HIn : Inv valueof C (bf_place valueof true C x0 b0) (acc ++ [x0])).
        { apply (step_Inv valueof C x0 b0); [exact Hx0| |exact HI]. apply bf_is_step; [lia|exact Hsn]. }
        split; [|apply Forall_app; split; [exact Hacc|constructor; [lia|constructor]]].
        split; [exact HIn|]. split.
        + apply bf_place_bf2; auto. lia.
        + apply bf_place_bf3; auto; [lia|].
          eapply Permutation_Forall; [symmetry; exact Hp|exact Hacc].
      - split; [|constructor; [exact Hx|constructor]].
        split; [apply Inv_first; lia|]. split; [cbn [bf2]; split; constructor|].
        cbn [bf3]. split; constructor. }
    destruct Hgoal as [Hgoal _]. exact Hgoal.
  Qed.
End BF3.

(** ---- 9. best-fit with a bin {a}, C/3 < a <= C/2: the additive constant 4 ---- *)
Section MediumBF.
  Context {A : Type} (valueof : A -> Z).

  Lemma zsum_ge_in (l : list Z) g : Forall (fun v => 0 <= v) l -> In g l -> g <= zsum l.
  Proof.
    intros H. induction H as [|v l Hv Hl IH]; [intros []|]. rewrite pk_zsum_cons.
    pose proof (zsum_nonneg l Hl). intros [E|Hin]; [lia|]. specialize (IH Hin). lia.
  Qed.

  Lemma bf3_after_ok C th (b' : bins A) : 0 <= C -> wf valueof b' -> feasible C b' ->
    Forall (fun y => 0 <= valueof y) (contents b') -> anyfit valueof C b' -> bf3 valueof C b' ->
    after_ok valueof C th b'.
  Proof.
    intros HC Hw Hfe Hnn Ha H3 t1 c t2 Bg g Eb' Hnb Hthc HB2 HgB Hg2 Hgth Hlt. subst b'.
    apply bf3_app in H3. destruct H3 as (_ & H3 & _). cbn [bf3] in H3. destruct H3 as [H3 _].
    rewrite Forall_forall in H3. specialize (H3 Bg HB2).
    pose proof (anyfit_app_r valueof C t1 (c :: t2) Ha) as Ha2. apply anyfit_cons in Ha2.
    destruct Ha2 as [Ha2 _]. rewrite Forall_forall in Ha2. specialize (Ha2 Bg HB2).
    assert (HinB : In Bg (t1 ++ c :: t2)) by (apply in_or_app; right; right; exact HB2).
    assert (Hinc : In c (t1 ++ c :: t2)) by (apply in_or_app; right; left; reflexivity).
    apply (contents_Forall (fun y => 0 <= valueof y)) in Hnn.
    unfold wf, feasible in *. rewrite Forall_forall in Hw, Hfe, Hnn.
    pose proof (Hw Bg HinB) as HwB. pose proof (Hw c Hinc) as Hwc.
    pose proof (Hfe Bg HinB) as HfB. pose proof (Hnn Bg HinB) as HnB. pose proof (Hnn c Hinc) as Hnc.
    unfold wf_bin in HwB, Hwc. unfold later_ok in Ha2. unfold later3_ok in H3.
    destruct (snd Bg) as [|y1 rest] eqn:EB; [contradiction|].
    cbn [map] in HwB, HgB. rewrite pk_zsum_cons in HwB.
    apply Forall_cons_iff in HnB. destruct HnB as [Hy1 Hnrest].
    assert (Hnrest' : Forall (fun v => 0 <= v) (map valueof rest)) by (rewrite Forall_map; exact Hnrest).
    destruct HgB as [Eg|Hin].
    - destruct rest as [|z r].
      + cbn [map] in HwB. rewrite pk_zsum_nil in HwB. lia.
      + cbn [map] in HwB, Hnrest'. rewrite pk_zsum_cons in HwB.
        apply Forall_cons_iff in Hnrest'. destruct Hnrest' as [Hz Hr].
        pose proof (zsum_nonneg _ Hr) as Hr0.
        destruct H3 as [H|[H|(p & q & E & Hp1 & Hp2 & Hq)]]; [lia|left; lia|].
        rewrite E, map_app, zsum_app in Hwc. rewrite E in Hnc.
        apply Forall_app in Hnc. destruct Hnc as [_ Hnq].
        destruct q as [|w q'].
        * cbn [map] in Hwc. rewrite pk_zsum_nil in Hwc. lia.
        * cbn [map] in Hwc. rewrite pk_zsum_cons in Hwc.
          apply Forall_cons_iff in Hnq. destruct Hnq as [Hw0 Hnq'].
          assert (0 <= zsum (map valueof q')) by (apply zsum_nonneg; rewrite Forall_map; exact Hnq').
          right. lia.
    - pose proof (zsum_ge_in _ g Hnrest' Hin) as Hge. left. lia.
  Qed.

  Lemma bf_medium_core4 C (b : bins A) (vs : list Z) (n : nat) E xa :
    0 < C -> (1 <= n)%nat -> wf valueof b -> feasible C b -> all_nonempty b -> anyfit valueof C b ->
    bf2 valueof C b -> bf3 valueof C b ->
    Forall (fun y => 0 <= valueof y) (contents b) ->
    Permutation (map valueof (contents b)) vs -> Packable C vs n ->
    In E b -> snd E = [xa] -> C < 3 * valueof xa -> 2 * valueof xa <= C ->
    (10 * length b <= 17 * n + 4)%nat.
  Proof.
    intros HC Hn Hw Hfe Hnem Ha Hb2 Hb3 Hnnb Hpv Hpack HinE EsE Ha3 Ha2.
    destruct (medium_remove valueof C b E xa Hw Hnem Ha Hb2 Hnnb HinE EsE)
      as (b' & Elen & Hw' & Hnem' & Ha' & Hb2' & Hnnb' & Hlv & Hperm & _ & Hsub & (l1 & l2 & Eb & Eb')).
    rewrite Elen.
    assert (Hfe' : feasible C b').
    { unfold feasible in *. rewrite Forall_forall in *. intros c Hc. apply Hfe. apply Hsub. exact Hc. }
    assert (Hb3' : bf3 valueof C b').
    { rewrite Eb'. apply (bf3_remove valueof C l1 E l2). rewrite <- Eb. exact Hb3. }
    apply (medium_core4_gen valueof C b' vs n (valueof xa)); auto.
    - etransitivity; [exact Hperm|exact Hpv].
    - apply bf3_after_ok; auto. lia.
  Qed.
End MediumBF.

(** ---- 10. rung 4: 10 m <= 17 n + 4 unconditionally, and the residues it settles ---- *)
Section Rung4.
  Context {A : Type} (valueof : A -> Z).

  Theorem ff_ratio_17_4_partial C (items : list A) (b : bins A) (n : nat) :
    items <> [] -> Forall (fun x : A => 0 <= valueof x) items ->
    first_fit valueof true C items = Ok b -> Packable C (map valueof items) n ->
    (10 * length b <= 17 * n + 4)%nat.
  Proof.
    intros Hne Hnn Hff Hpack.
    pose proof (ff_sfit valueof C items b Hnn Hff) as Hsf.
    destruct (ff_facts valueof C items b n Hne Hnn Hff Hpack) as (HI & Hb2 & HC & Hn & Hnnb).
    destruct (msb_or_nms valueof C b) as [(E & xa & HinE & EsE & Ha3 & Ha2)|Hno1].
    - destruct HI as (Hw & Hf & Hp & Hnem & Hns & Ha).
      pose proof (Permutation_map valueof Hp) as Hpv.
      destruct (Z.eq_dec C 0) as [E0|Hpos].
      + subst C. pose proof (cap0_single valueof b _ n Hw Ha Hnnb Hpv Hpack). lia.
      + apply (ff_medium_core4 valueof C b (map valueof items) n E xa); auto. lia.
    - pose proof (ratio_17_3_core valueof C items b n HI Hb2 HC Hn Hnnb Hpack Hno1). lia.
  Qed.

  Theorem bf_ratio_17_4_partial C (items : list A) (b : bins A) (n : nat) :
    items <> [] -> Forall (fun x : A => 0 <= valueof x) items ->
    best_fit valueof true C items = Ok b -> Packable C (map valueof items) n ->
    (10 * length b <= 17 * n + 4)%nat.
  Proof.
    intros Hne Hnn Hbf Hpack.
    destruct (bf_inv3 valueof C items b Hne Hnn Hbf) as (_ & _ & Hb3).
    destruct (bf_facts valueof C items b n Hne Hnn Hbf Hpack) as (HI & Hb2 & HC & Hn & Hnnb).
    destruct (msb_or_nms valueof C b) as [(E & xa & HinE & EsE & Ha3 & Ha2)|Hno1].
    - destruct HI as (Hw & Hf & Hp & Hnem & Hns & Ha).
      pose proof (Permutation_map valueof Hp) as Hpv.
      destruct (Z.eq_dec C 0) as [E0|Hpos].
      + subst C. pose proof (cap0_single valueof b _ n Hw Ha Hnnb Hpv Hpack). lia.
      + apply (bf_medium_core4 valueof C b (map valueof items) n E xa); auto. lia.
    - pose proof (ratio_17_3_core valueof C items b n HI Hb2 HC Hn Hnnb Hpack Hno1). lia.
  Qed.

  (** the sharp bound for n = 0, 2, 3, 5, 6, 9 mod 10 *)
  Theorem ff_ratio_17_floor_rung4_partial C (items : list A) (b : bins A) (n : nat) :
    items <> [] -> Forall (fun x : A => 0 <= valueof x) items ->
    first_fit valueof true C items = Ok b -> MinBins C (map valueof items) n ->
    (exists k r, n = 10 * k + r /\ In r [0; 2; 3; 5; 6; 9])%nat ->
    (10 * length b <= 17 * n)%nat.
  Proof.
    intros Hne Hnn Hff [Hpack _] (k & r & E & Hr).
    pose proof (ff_ratio_17_4_partial C items b n Hne Hnn Hff Hpack) as H4.
    cbn [In] in Hr. lia.
  Qed.

  Theorem bf_ratio_17_floor_rung4_partial C (items : list A) (b : bins A) (n : nat) :
    items <> [] -> Forall (fun x : A => 0 <= valueof x) items ->
    best_fit valueof true C items = Ok b -> MinBins C (map valueof items) n ->
    (exists k r, n = 10 * k + r /\ In r [0; 2; 3; 5; 6; 9])%nat ->
    (10 * length b <= 17 * n)%nat.
  Proof.
    intros Hne Hnn Hbf [Hpack _] (k & r & E & Hr).
    pose proof (bf_ratio_17_4_partial C items b n Hne Hnn Hbf Hpack) as H4.
    cbn [In] in Hr. lia.
  Qed.
End Rung4.

(** ---- 11. the amortised analysis when every bin without a value above C/2 is 2/3 full ----
    [heavyRX] needs l0 <= (2C+2)/3 only for a common bin that is less than 2/3 full; without such
    a bin any l0 up to the sum of the last common bin is allowed. *)
Section Regular2.
  Context {A : Type} (valueof : A -> Z).

  Notation cw2 C b := (wsum2 C (map valueof (contents b))).

  Definition commons23 (C : Z) (b : bins A) : Prop :=
    Forall (fun c : bin A => nobig valueof C c -> 2 * C <= 3 * fst c) b.

  Lemma heavyRX2 C l0 : 0 <= C -> C < 2 * l0 -> forall (b : bins A) alpha,
    wf valueof b -> all_nonempty b -> anyfit valueof C b -> bf2 valueof C b -> half_full C b ->
    commons23 C b -> regular valueof C l0 b ->
    Forall (fun y => 0 <= valueof y) (contents b) ->
    Forall (head2_ge valueof C alpha) b ->
    10 * C * Z.of_nat (length b) + xs valueof C b <= cw2 C b + PhiS C l0 alpha.
  Proof.
    intros HC Hl0. induction b as [|bn t IH]; intros alpha Hw Hne Haf Hb2 Hhf Hc23 Hreg Hnn Hge.
    - inversion Hreg.
    - pose proof Hw as Hwall.
      unfold wf in Hw. apply Forall_cons_iff in Hw. destruct Hw as [Hwb Hw].
      unfold all_nonempty in Hne. apply Forall_cons_iff in Hne. destruct Hne as [Hbn Hne].
      apply anyfit_cons in Haf. destruct Haf as [Hlt1 Haf].
      cbn [bf2] in Hb2. destruct Hb2 as [Hlt2 Hb2].
      unfold half_full in Hhf. apply Forall_cons_iff in Hhf. destruct Hhf as [Hh1 Hhf].
      unfold commons23 in Hc23. apply Forall_cons_iff in Hc23. destruct Hc23 as [Hc1 Hc23].
      rewrite contents_cons in Hnn. apply Forall_app in Hnn. destruct Hnn as [Hnn1 Hnn2].
      apply Forall_cons_iff in Hge. destruct Hge as [Hge1 Hge2].
      rewrite contents_cons, !map_app, !fsum_app. cbn [length xs]. rewrite Nat2Z.inj_succ.
      unfold wf_bin in Hwb.
      assert (Hnn1' : Forall (fun a => 0 <= a) (map valueof (snd bn)))
        by (rewrite Forall_map; exact Hnn1).
      set (alpha' := Z.max alpha (C - fst bn + 1)).
      assert (Hmono : PhiS C l0 alpha' <= PhiS C l0 alpha) by (apply PhiS_mono; unfold alpha'; lia).
      assert (Htail : (l0 <= fst bn /\ nobig valueof C bn /\
                       10 * C * Z.of_nat (length t) + xs valueof C t <= cw2 C t) \/
                      10 * C * Z.of_nat (length t) + xs valueof C t <= cw2 C t + PhiS C l0 alpha').
      { inversion Hreg as [c t0 Hnb Hlv Hallbig E1|c t0 Hreg' E1]; subst.
        - left. split; [exact Hlv|]. split; [exact Hnb|]. apply allbig_heavyX; auto.
        - right. apply IH; auto. apply (head2_ge_next1 valueof C alpha (fst bn)); auto. }
      destruct (bigb valueof C bn) eqn:Eb.
      + apply bigb_true in Eb.
        pose proof (wsum2_big C _ HC Hnn1' Eb) as Hw10.
        destruct Htail as [(_ & Hnb & _)|Ht].
        * exfalso. apply bigb_false in Hnb. apply bigb_true in Eb. congruence.
        * lia.
      + apply bigb_false in Eb. specialize (Hc1 Eb). unfold nobig in Eb. rename Eb into Hnb.
        unfold head2_ge in Hge1.
        destruct (snd bn) as [|x1 [|x2 rest]] eqn:Es; [congruence| |].
        * cbn [map] in Hwb, Hnb. rewrite pk_zsum_cons, pk_zsum_nil in Hwb.
          apply Forall_cons_iff in Hnb. destruct Hnb as [Hx1 _]. lia.
        * cbn [map] in Hwb, Hnb, Hnn1' |- *. rewrite !pk_zsum_cons in Hwb.
          apply Forall_cons_iff in Hnb. destruct Hnb as [Hx1 Hnb].
          apply Forall_cons_iff in Hnb. destruct Hnb as [Hx2 Hnb].
          destruct Hge1 as [Ha1 Ha2].
          assert (Ha2' : alpha <= valueof x2) by (destruct Ha2 as [Ha2|Ha2]; [exact Ha2|lia]).
          clear Ha2.
          apply Forall_cons_iff in Hnn1'. destruct Hnn1' as [Hp1 Hnn1'].
          apply Forall_cons_iff in Hnn1'. destruct Hnn1' as [Hp2 Hnnr].
          pose proof (zsum_nonneg _ Hnnr) as Hr0.
          pose proof (wsum2_ge_12 C _ HC Hnnr) as Hr12.
          rewrite !fsum_cons.
          pose proof (bonus_spec C (valueof x1)) as H1.
          pose proof (bonus_spec C (valueof x2)) as H2.
          pose proof (bonus_spec C alpha) as H3.
          destruct Htail as [(Hlv & _ & Ht)|Ht].
          -- assert (Hstep : 10 * C <=
                       W2 C (valueof x1) + W2 C (valueof x2) + 12 * zsum (map valueof rest)
                       + PhiS C l0 alpha).
             { unfold PhiS, W2. lia. }
             lia.
          -- assert (Hstep : 10 * C + PhiS C l0 alpha' <=
                       W2 C (valueof x1) + W2 C (valueof x2) + 12 * zsum (map valueof rest)
                       + PhiS C l0 alpha).
             { unfold PhiS, W2. subst alpha'.
               pose proof (bonus_spec C (Z.max alpha (C - fst bn + 1))) as H4. lia. }
             lia.
  Qed.
End Regular2.

(** ---- 12. tools for rung 3 ---- *)
Section Tools3.
  Context {A : Type} (valueof : A -> Z).

  Notation cw2 C b := (wsum2 C (map valueof (contents b))).

  (** some common bin c carries the whole deficit: 10 C - 12 (sum of c) *)
  Lemma heavy_choice C (b' : bins A) : 0 < C ->
    wf valueof b' -> all_nonempty b' -> anyfit valueof C b' -> bf2 valueof C b' -> half_full C b' ->
    Forall (fun y => 0 <= valueof y) (contents b') ->
    Forall (hasbig valueof C) b' \/
    exists t1 c t2, b' = t1 ++ c :: t2 /\ nobig valueof C c /\
      10 * C * Z.of_nat (length b') + xs valueof C b' <= cw2 C b' + 10 * C - 12 * fst c.
  Proof.
    intros HC Hw Hnem Ha Hb2 Hhf Hnn. assert (HC0 : 0 <= C) by lia.
    destruct (last_common_split valueof C b') as [Hall|(t1 & c & t2 & Eb' & Hnb & Hall)];
      [left; exact Hall|right].
    assert (Hinc : In c b') by (rewrite Eb'; apply in_or_app; right; left; reflexivity).
    assert (Hhc : C < 2 * fst c) by (unfold half_full in Hhf; rewrite Forall_forall in Hhf; auto).
    assert (HPhi : forall l0, C < 2 * l0 -> PhiS C l0 0 = 10 * C - 12 * l0).
    { intros l0 Hl0. unfold PhiS. pose proof (bonus_spec C 0). lia. }
    destruct (Z_le_dec (3 * fst c) (2 * C + 2)) as [Hcap|Hcap].
    - (* the last common bin is at most 2/3 full *)
      exists t1, c, t2. split; [exact Eb'|]. split; [exact Hnb|].
      assert (Hreg : regular valueof C (fst c) b').
      { rewrite Eb'. apply regular_app. apply reg_last; auto. lia. }
      pose proof (heavyRX valueof C (fst c) HC0 Hhc Hcap b' 0 Hw Hnem Ha Hb2 Hhf Hreg Hnn
                    (head2_ge_nonneg valueof C b' Hnn)) as H.
      rewrite (HPhi _ Hhc) in H. lia.
    - destruct (existsb (fun c0 : bin A => negb (bigb valueof C c0) && (3 * fst c0 <=? 2 * C + 2)) b')
        eqn:Eex.
      + (* another common bin is at most 2/3 full *)
        apply existsb_exists in Eex. destruct Eex as (c' & Hin' & Hc').
        assert (Hnb' : nobig valueof C c').
        { apply bigb_false. destruct (bigb valueof C c'); [discriminate Hc'|reflexivity]. }
        assert (Hcap' : 3 * fst c' <= 2 * C + 2) by lia.
        assert (Hhc' : C < 2 * fst c') by (unfold half_full in Hhf; rewrite Forall_forall in Hhf; auto).
        assert (Hreg : regular valueof C (fst c') b').
        { rewrite Eb'. apply regular_app. apply reg_last; auto. lia. }
        pose proof (heavyRX valueof C (fst c') HC0 Hhc' Hcap' b' 0 Hw Hnem Ha Hb2 Hhf Hreg Hnn
                      (head2_ge_nonneg valueof C b' Hnn)) as H.
        rewrite (HPhi _ Hhc') in H.
        apply in_split in Hin'. destruct Hin' as (u1 & u2 & Eu).
        exists u1, c', u2. split; [exact Eu|]. split; [exact Hnb'|]. lia.
      + (* every common bin is 2/3 full *)
        exists t1, c, t2. split; [exact Eb'|]. split; [exact Hnb|].
        assert (Hc23 : commons23 valueof C b').
        { unfold commons23. rewrite Forall_forall. intros c0 Hin0 Hnb0.
          destruct (Z_le_dec (2 * C) (3 * fst c0)) as [Hok|Hbad]; [exact Hok|]. exfalso.
          assert (Hex : existsb (fun c1 : bin A => negb (bigb valueof C c1) && (3 * fst c1 <=? 2 * C + 2)) b'
                        = true).
          { apply existsb_exists. exists c0. split; [exact Hin0|].
            apply bigb_false in Hnb0. rewrite Hnb0. cbn [negb andb]. lia. }
          congruence. }
        assert (Hreg : regular valueof C (fst c) b').
        { rewrite Eb'. apply regular_app. apply reg_last; auto. lia. }
        pose proof (heavyRX2 valueof C (fst c) HC0 Hhc b' 0 Hw Hnem Ha Hb2 Hhf Hc23 Hreg Hnn
                      (head2_ge_nonneg valueof C b' Hnn)) as H.
        rewrite (HPhi _ Hhc) in H. lia.
  Qed.

  (** a feasible bin holds at most one value above C/2 *)
  Lemma bigw_le_one C l : 0 <= C -> Forall (fun v => 0 <= v) l -> zsum l <= C ->
    fsum (bigw C) l <= 1.
  Proof.
    intros HC Hnn Hs.
    assert (H : (C + 1) * fsum (bigw C) l <= 2 * zsum l).
    { clear Hs. induction Hnn as [|v l Hv Hl IH]; [rewrite fsum_nil, pk_zsum_nil; lia|].
      rewrite fsum_cons, pk_zsum_cons. pose proof (bigw_dom C v Hv). lia. }
    pose proof (fsum_bigw_nonneg C l) as H0.
    destruct (Z_le_dec (fsum (bigw C) l) 1) as [Hle|Hgt]; [exact Hle|]. exfalso.
    assert ((C + 1) * 2 <= (C + 1) * fsum (bigw C) l) by (apply Z.mul_le_mono_nonneg_l; lia). lia.
  Qed.

  (** every bin with a value above C/2 has excess at least E; one of them, Bg, is singled out *)
  Lemma xs_lower C E (b' : bins A) : 0 <= C -> 0 <= E -> wf valueof b' -> feasible C b' ->
    Forall (fun y => 0 <= valueof y) (contents b') ->
    Forall (fun c : bin A => E <= 12 * fst c - 6 * C) b' ->
    E * fsum (bigw C) (map valueof (contents b')) <= xs valueof C b'.
  Proof.
    intros HC HE. induction b' as [|c t IH]; intros Hw Hfe Hnn HEc.
    - cbn [xs]. unfold contents, lists. cbn [map concat]. rewrite fsum_nil. lia.
    - unfold wf in Hw. apply Forall_cons_iff in Hw. destruct Hw as [Hwc Hw].
      unfold feasible in Hfe. apply Forall_cons_iff in Hfe. destruct Hfe as [Hfc Hfe].
      rewrite contents_cons in Hnn. apply Forall_app in Hnn. destruct Hnn as [Hn1 Hn2].
      apply Forall_cons_iff in HEc. destruct HEc as [HE1 HE2].
      specialize (IH Hw Hfe Hn2 HE2).
      rewrite contents_cons, map_app, fsum_app. cbn [xs].
      assert (Hn1' : Forall (fun v => 0 <= v) (map valueof (snd c))) by (rewrite Forall_map; exact Hn1).
      unfold wf_bin in Hwc.
      pose proof (bigw_le_one C _ HC Hn1' ltac:(lia)) as H1.
      pose proof (fsum_bigw_nonneg C (map valueof (snd c))) as H0.
      destruct (bigb valueof C c) eqn:Eb.
      + assert (E * fsum (bigw C) (map valueof (snd c)) <= E * 1)
          by (apply Z.mul_le_mono_nonneg_l; lia). lia.
      + apply bigb_false in Eb. rewrite (bigc_nobig C _ Eb). lia.
  Qed.

  Lemma xs_lower_in C E (b' : bins A) Bg : 0 <= C -> 0 <= E -> wf valueof b' -> feasible C b' ->
    Forall (fun y => 0 <= valueof y) (contents b') ->
    Forall (fun c : bin A => E <= 12 * fst c - 6 * C) b' ->
    In Bg b' -> bigb valueof C Bg = true ->
    E * fsum (bigw C) (map valueof (contents b')) + (12 * fst Bg - 6 * C - E) <= xs valueof C b'.
  Proof.
    intros HC HE Hw Hfe Hnn HEc Hin Hb. apply in_split in Hin. destruct Hin as (l1 & l2 & Eb). subst b'.
    unfold wf in Hw. apply Forall_app in Hw. destruct Hw as [Hw1 Hw].
    apply Forall_cons_iff in Hw. destruct Hw as [HwB Hw2].
    unfold feasible in Hfe. apply Forall_app in Hfe. destruct Hfe as [Hf1 Hfe].
    apply Forall_cons_iff in Hfe. destruct Hfe as [HfB Hf2].
    rewrite contents_app, contents_cons in Hnn. apply Forall_app in Hnn. destruct Hnn as [Hn1 Hnn].
    apply Forall_app in Hnn. destruct Hnn as [HnB Hn2].
    apply Forall_app in HEc. destruct HEc as [HE1 HEc].
    apply Forall_cons_iff in HEc. destruct HEc as [HEB HE2].
    pose proof (xs_lower C E l1 HC HE Hw1 Hf1 Hn1 HE1) as X1.
    pose proof (xs_lower C E l2 HC HE Hw2 Hf2 Hn2 HE2) as X2.
    rewrite contents_app, contents_cons, !map_app, !fsum_app, xs_app. cbn [xs]. rewrite Hb.
    assert (HnB' : Forall (fun v => 0 <= v) (map valueof (snd Bg))) by (rewrite Forall_map; exact HnB).
    unfold wf_bin in HwB.
    pose proof (bigw_le_one C _ HC HnB' ltac:(lia)) as H1.
    pose proof (fsum_bigw_nonneg C (map valueof (snd Bg))) as H0.
    assert (E * fsum (bigw C) (map valueof (snd Bg)) <= E * 1)
      by (apply Z.mul_le_mono_nonneg_l; lia).
    lia.
  Qed.
End Tools3.

(** values up to C/2 with sum below 2C/3: the bonus is at most max(C, 6 s - 2 C) (for s >= C/2) *)
Definition Fb (C s : Z) : Z := Z.max (Z.max 0 (Z.min (6 * s - C) C)) (6 * s - 2 * C).

Lemma wsum2_nobig_23 C l : Forall (fun a => 0 <= a) l -> Forall (fun a => 2 * a <= C) l ->
  3 * zsum l < 2 * C -> wsum2 C l <= 12 * zsum l + Fb C (zsum l).
Proof.
  intros Hnn. induction Hnn as [|a l Ha Hl IH]; intros Hnb HS.
  - rewrite fsum_nil, pk_zsum_nil. unfold Fb. lia.
  - apply Forall_cons_iff in Hnb. destruct Hnb as [Ha2 Hnb].
    rewrite pk_zsum_cons in HS. rewrite fsum_cons, pk_zsum_cons.
    pose proof (zsum_nonneg l Hl) as H0. assert (HS' : 3 * zsum l < 2 * C) by lia.
    specialize (IH Hnb HS'). pose proof (W2_spec C a) as HWa. unfold Fb in *. lia.
Qed.

(** ---- 13. a bin {a}, C/3 < a <= C/2: the additive constant 3 (for n >= 2) ---- *)
Section Medium3.
  Context {A : Type} (valueof : A -> Z).

  Notation cw2 C b := (wsum2 C (map valueof (contents b))).

  Lemma medium_core3_gen C (b' : bins A) (vs : list Z) (n : nat) a :
    0 < C -> (2 <= n)%nat -> C < 3 * a -> 2 * a <= C ->
    wf valueof b' -> feasible C b' -> all_nonempty b' -> anyfit valueof C b' -> bf2 valueof C b' ->
    Forall (fun y => 0 <= valueof y) (contents b') ->
    Forall (fun c : bin A => C - a + 1 <= fst c) b' ->
    Permutation (a :: map valueof (contents b')) vs -> Packable C vs n ->
    after_ok valueof C (C - a) b' ->
    (10 * S (length b') <= 17 * n + 3)%nat.
  Proof.
    intros HC Hn Ha3 Ha2 Hw' Hfe Hnem' Ha' Hb2' Hnnb' Hlv Hpa Hpack Hafter.
    assert (HC0 : 0 <= C) by lia.
    set (th := C - a) in *.
    set (R := map valueof (contents b')) in *.
    assert (HR : Forall (fun v => 0 <= v) R) by (unfold R; rewrite Forall_map; exact Hnnb').
    assert (Hvs : Forall (fun v => 0 <= v) vs).
    { eapply Permutation_Forall; [exact Hpa|]. constructor; [lia|exact HR]. }
    assert (Hhf : half_full C b').
    { unfold half_full. eapply Forall_impl; [|exact Hlv]. intros c Hc. cbv beta in Hc. lia. }
    pose proof (packable_wsum2b C _ n HC0 Hvs Hpack) as Hlight.
    pose proof (packable_big C vs n HC0 Hvs Hpack) as Hbig.
    change (zsum (map (bigw C) vs)) with (fsum (bigw C) vs) in Hbig.
    rewrite <- (fsum_perm (W2 C) _ _ Hpa), fsum_cons in Hlight.
    assert (Eba : bigw C a = 0) by (unfold bigw; destruct (C <? 2 * a) eqn:E0; lia).
    assert (Ebeta : fsum (bigw C) vs = fsum (bigw C) R).
    { rewrite <- (fsum_perm (bigw C) _ _ Hpa), fsum_cons. lia. }
    assert (HWa : W2 C a = 12 * a + C) by (pose proof (W2_spec C a); lia).
    set (e0 := 12 * (th + 1) - 6 * C).
    assert (He0 : 12 <= e0) by (unfold e0, th; lia).
    assert (HEc : Forall (fun c : bin A => e0 <= 12 * fst c - 6 * C) b').
    { eapply Forall_impl; [|exact Hlv]. intros c Hc. cbv beta in Hc. unfold e0. lia. }
    destruct (heavy_choice valueof C b' HC Hw' Hnem' Ha' Hb2' Hhf Hnnb')
      as [Hall|(t1 & c & t2 & Eb' & Hnb & Hheavy)].
    - pose proof (hasbig_count valueof C b' Hall) as Hcnt. fold R in Hcnt. lia.
    - assert (Hinc : In c b') by (rewrite Eb'; apply in_or_app; right; left; reflexivity).
      assert (Hlc : th + 1 <= fst c) by (rewrite Forall_forall in Hlv; apply Hlv; exact Hinc).
      assert (Hnnc : Forall (fun y => 0 <= valueof y) (snd c)).
      { apply (contents_Forall (fun y => 0 <= valueof y)) in Hnnb'.
        rewrite Forall_forall in Hnnb'. apply Hnnb'. exact Hinc. }
      fold R in Hheavy.
      set (m' := Z.of_nat (length b')) in *. set (nn := Z.of_nat n) in *.
      set (beta := fsum (bigw C) R) in *. rewrite Ebeta in Hlight, Hbig.
      assert (Hnn2 : 2 <= nn) by (unfold nn; lia).
      assert (Hb0 : 0 <= beta) by (apply fsum_bigw_nonneg).
      (* the term nn * (12 a - 6 C - 12), with n >= 2 *)
      assert (Hneg : nn * (12 * a - 6 * C - 12) <= 2 * (12 * a - 6 * C - 12))
        by (apply Z.mul_le_mono_nonpos_r; lia).
      assert (Hz : C * (10 * (m' + 1)) < C * (17 * nn + 4)).
      { destruct (Z_le_dec beta (nn - 2)) as [Hb2n|Hb2n].
        - (* at most n - 2 values above C/2 *)
          pose proof (xs_lower valueof C e0 b' HC0 ltac:(lia) Hw' Hfe Hnnb' HEc) as Hxs.
          fold R in Hxs. fold beta in Hxs.
          assert (Hp : beta * (12 * a - 4 * C - 12) <= (nn - 2) * (2 * C)).
          { destruct (Z_le_dec (12 * a - 4 * C - 12) 0) as [Hs|Hs].
            - assert (beta * (12 * a - 4 * C - 12) <= 0) by (apply Z.mul_nonneg_nonpos; lia).
              assert (0 <= (nn - 2) * (2 * C)) by (apply Z.mul_nonneg_nonneg; lia). lia.
            - assert (beta * (12 * a - 4 * C - 12) <= (nn - 2) * (12 * a - 4 * C - 12))
                by (apply Z.mul_le_mono_nonneg_r; lia).
              assert ((nn - 2) * (12 * a - 4 * C - 12) <= (nn - 2) * (2 * C))
                by (apply Z.mul_le_mono_nonneg_l; lia).
              lia. }
          unfold e0, th in Hxs. lia.
        - assert (Hbcase : beta = nn - 1 \/ beta = nn) by lia.
          destruct (existsb (fun g => (C <? 2 * g) && (g <=? th)) vs) eqn:Eg.
          + (* some value g with C/2 < g <= th *)
            apply existsb_exists in Eg. destruct Eg as (g & Hg & Hgc).
            assert (Hg2 : C < 2 * g) by lia. assert (Hgth : g <= th) by lia.
            assert (Hg' : In g R).
            { apply (Permutation_in _ (Permutation_sym Hpa)) in Hg. destruct Hg as [Hg|Hg]; [lia|exact Hg]. }
            unfold R in Hg'. apply in_map_iff in Hg'. destruct Hg' as (y & Ey & Hy).
            destruct (in_contents b' y Hy) as (Bg & HBg & HyB).
            assert (HgB : In g (map valueof (snd Bg))) by (rewrite <- Ey; apply in_map; exact HyB).
            assert (Hbb : bigb valueof C Bg = true).
            { apply bigb_true. unfold hasbig. apply Exists_exists. exists g. split; [exact HgB|lia]. }
            assert (HlB : th + 1 <= fst Bg) by (rewrite Forall_forall in Hlv; apply Hlv; exact HBg).
            pose proof (xs_lower_in valueof C e0 b' Bg HC0 ltac:(lia) Hw' Hfe Hnnb' HEc HBg Hbb) as Hxs.
            fold R in Hxs. fold beta in Hxs.
            assert (Hkey : 5 * C + 4 <= 4 * (fst c + fst Bg)).
            { pose proof HBg as HBg'. rewrite Eb' in HBg'. apply in_app_or in HBg'.
              destruct HBg' as [HB1|HB2].
              - rewrite Eb' in Hw', Ha', Hb2'.
                pose proof (before_common valueof C t1 c t2 Bg HC0 Hw' Ha' Hb2' Hnnc Hnb
                              ltac:(lia) HB1) as Hbc.
                unfold th in *. lia.
              - destruct HB2 as [HB2|HB2].
                + exfalso. subst Bg. apply bigb_false in Hnb. congruence.
                + destruct (Hafter t1 c t2 Bg g Eb' Hnb ltac:(lia) HB2 HgB Hg2 Hgth ltac:(lia))
                    as [Hac|Hac]; unfold th in *; lia. }
            unfold e0, th in Hxs.
            destruct Hbcase as [Eb1|Eb1]; rewrite Eb1 in *; lia.
          + (* every value above C/2 is above th *)
            assert (Hnog : forall g, In g vs -> C < 2 * g -> th < g).
            { intros g Hg Hg2. destruct (Z_lt_dec th g) as [Hok|Hbad]; [exact Hok|]. exfalso.
              assert (Hex : existsb (fun g0 => (C <? 2 * g0) && (g0 <=? th)) vs = true).
              { apply existsb_exists. exists g. split; [exact Hg|lia]. }
              congruence. }
            assert (Hina : In a vs) by (eapply Permutation_in; [exact Hpa|left; reflexivity]).
            destruct Hbcase as [Eb1|Eb1].
            * (* the optimal bin of a holds no value above C/2 *)
              pose proof (packable_gpack C vs n Hpack) as HG.
              apply (gpack_perm C vs (a :: R) n (Permutation_sym Hpa)) in HG.
              destruct (gpack_head C a R n HG) as (B & R' & m0 & En & HPR & HaB & HG').
              assert (HBR : Forall (fun v => 0 <= v) (B ++ R'))
                by (eapply Permutation_Forall; [exact HPR|exact HR]).
              apply Forall_app in HBR. destruct HBR as [HB0 HR'0].
              pose proof (zsum_nonneg B HB0) as HzB.
              assert (HBnb : Forall (fun v => 2 * v <= C) B).
              { rewrite Forall_forall. intros v Hv.
                destruct (Z_le_dec (2 * v) C) as [Hok|Hbad]; [exact Hok|]. exfalso.
                assert (Hvvs : In v vs).
                { eapply Permutation_in; [exact Hpa|]. right.
                  eapply Permutation_in; [apply Permutation_sym; exact HPR|].
                  apply in_or_app. left. exact Hv. }
                pose proof (Hnog v Hvvs ltac:(lia)) as Hhuge.
                pose proof (zsum_ge_in B v HB0 Hv). unfold th in *. lia. }
              pose proof (wsum2_nobig_23 C B HB0 HBnb ltac:(unfold th in *; lia)) as HWB.
              pose proof (packable_wsum2b C R' m0 HC0 HR'0 (gpack_packable C R' m0 HG')) as HWR'.
              pose proof (fsum_bigw_nonneg C B) as HbB.
              rewrite (fsum_perm (W2 C) _ _ HPR), fsum_app in Hlight, Hheavy.
              assert (EbR : beta = fsum (bigw C) B + fsum (bigw C) R').
              { unfold beta. rewrite (fsum_perm (bigw C) _ _ HPR), fsum_app. reflexivity. }
              pose proof (xs_lower valueof C e0 b' HC0 ltac:(lia) Hw' Hfe Hnnb' HEc) as Hxs.
              fold R in Hxs. fold beta in Hxs.
              assert (Em0 : Z.of_nat m0 = nn - 1) by (unfold nn; lia).
              rewrite Em0 in HWR'.
              assert (HFb : 12 * zsum B + Fb C (zsum B) <= 12 * th + Z.max C (6 * th - 2 * C))
                by (unfold Fb, th in *; lia).
              unfold e0, th in Hxs. unfold th in HFb.
              assert (Hbr : 2 * C * fsum (bigw C) R' <= 2 * C * beta)
                by (apply Z.mul_le_mono_nonneg_l; lia).
              rewrite Eb1 in *. lia.
            * (* n values above C/2, all above th: impossible next to a *)
              exfalso.
              destruct (nonhuge_big_exists C a vs n HC0 Ha3 Ha2 Hvs Hpack Hina
                          ltac:(rewrite Ebeta; fold beta; unfold nn in *; lia))
                as (g & Hg & Hg2 & Hgth).
              pose proof (Hnog g Hg Hg2). unfold th in *. lia. }
      apply Z.mul_lt_mono_pos_l in Hz; [|lia]. unfold m', nn in Hz. lia.
  Qed.
End Medium3.

(** ---- 14. rung 3: 10 m <= 17 n + 3 unconditionally ---- *)
Section Rung3u.
  Context {A : Type} (valueof : A -> Z).

  Lemma ff_medium_core3 C (b : bins A) (vs : list Z) (n : nat) E xa :
    0 < C -> (2 <= n)%nat -> wf valueof b -> feasible C b -> all_nonempty b -> anyfit valueof C b ->
    bf2 valueof C b -> sfit valueof C b ->
    Forall (fun y => 0 <= valueof y) (contents b) ->
    Permutation (map valueof (contents b)) vs -> Packable C vs n ->
    In E b -> snd E = [xa] -> C < 3 * valueof xa -> 2 * valueof xa <= C ->
    (10 * length b <= 17 * n + 3)%nat.
  Proof.
    intros HC Hn Hw Hfe Hnem Ha Hb2 Hsf Hnnb Hpv Hpack HinE EsE Ha3 Ha2.
    destruct (medium_remove valueof C b E xa Hw Hnem Ha Hb2 Hnnb HinE EsE)
      as (b' & Elen & Hw' & Hnem' & Ha' & Hb2' & Hnnb' & Hlv & Hperm & Hsf' & Hsub & _).
    specialize (Hsf' Hsf). rewrite Elen.
    assert (Hfe' : feasible C b').
    { unfold feasible in *. rewrite Forall_forall in *. intros c Hc. apply Hfe. apply Hsub. exact Hc. }
    apply (medium_core3_gen valueof C b' vs n (valueof xa)); auto.
    - etransitivity; [exact Hperm|exact Hpv].
    - apply sfit_after_ok; auto. lia.
  Qed.

  Lemma bf_medium_core3 C (b : bins A) (vs : list Z) (n : nat) E xa :
    0 < C -> (2 <= n)%nat -> wf valueof b -> feasible C b -> all_nonempty b -> anyfit valueof C b ->
    bf2 valueof C b -> bf3 valueof C b ->
    Forall (fun y => 0 <= valueof y) (contents b) ->
    Permutation (map valueof (contents b)) vs -> Packable C vs n ->
    In E b -> snd E = [xa] -> C < 3 * valueof xa -> 2 * valueof xa <= C ->
    (10 * length b <= 17 * n + 3)%nat.
  Proof.
    intros HC Hn Hw Hfe Hnem Ha Hb2 Hb3 Hnnb Hpv Hpack HinE EsE Ha3 Ha2.
    destruct (medium_remove valueof C b E xa Hw Hnem Ha Hb2 Hnnb HinE EsE)
      as (b' & Elen & Hw' & Hnem' & Ha' & Hb2' & Hnnb' & Hlv & Hperm & _ & Hsub & (l1 & l2 & Eb & Eb')).
    rewrite Elen.
    assert (Hfe' : feasible C b').
    { unfold feasible in *. rewrite Forall_forall in *. intros c Hc. apply Hfe. apply Hsub. exact Hc. }
    assert (Hb3' : bf3 valueof C b').
    { rewrite Eb'. apply (bf3_remove valueof C l1 E l2). rewrite <- Eb. exact Hb3. }
    apply (medium_core3_gen valueof C b' vs n (valueof xa)); auto.
    - etransitivity; [exact Hperm|exact Hpv].
    - apply bf3_after_ok; auto. lia.
  Qed.

  Theorem ff_ratio_17_3_uncond_partial C (items : list A) (b : bins A) (n : nat) :
    items <> [] -> Forall (fun x : A => 0 <= valueof x) items ->
    first_fit valueof true C items = Ok b -> Packable C (map valueof items) n ->
    (10 * length b <= 17 * n + 3)%nat.
  Proof.
    intros Hne Hnn Hff Hpack.
    pose proof (ff_sfit valueof C items b Hnn Hff) as Hsf.
    destruct (ff_facts valueof C items b n Hne Hnn Hff Hpack) as (HI & Hb2 & HC & Hn & Hnnb).
    pose proof (Inv_lt_2n valueof C b items n HI Hne Hnn Hpack) as H2n.
    destruct (msb_or_nms valueof C b) as [(E & xa & HinE & EsE & Ha3 & Ha2)|Hno1].
    - destruct HI as (Hw & Hf & Hp & Hnem & Hns & Ha).
      pose proof (Permutation_map valueof Hp) as Hpv.
      destruct (Z.eq_dec C 0) as [E0|Hpos].
      + subst C. pose proof (cap0_single valueof b _ n Hw Ha Hnnb Hpv Hpack). lia.
      + destruct (le_lt_dec 2 n) as [Hn2|Hn1]; [|lia].
        apply (ff_medium_core3 C b (map valueof items) n E xa); auto. lia.
    - apply (ratio_17_3_core valueof C items b n HI Hb2 HC Hn Hnnb Hpack Hno1).
  Qed.

  Theorem bf_ratio_17_3_uncond_partial C (items : list A) (b : bins A) (n : nat) :
    items <> [] -> Forall (fun x : A => 0 <= valueof x) items ->
    best_fit valueof true C items = Ok b -> Packable C (map valueof items) n ->
    (10 * length b <= 17 * n + 3)%nat.
  Proof.
    intros Hne Hnn Hbf Hpack.
    destruct (bf_inv3 valueof C items b Hne Hnn Hbf) as (_ & _ & Hb3).
    destruct (bf_facts valueof C items b n Hne Hnn Hbf Hpack) as (HI & Hb2 & HC & Hn & Hnnb).
    pose proof (Inv_lt_2n valueof C b items n HI Hne Hnn Hpack) as H2n.
    destruct (msb_or_nms valueof C b) as [(E & xa & HinE & EsE & Ha3 & Ha2)|Hno1].
    - destruct HI as (Hw & Hf & Hp & Hnem & Hns & Ha).
      pose proof (Permutation_map valueof Hp) as Hpv.
      destruct (Z.eq_dec C 0) as [E0|Hpos].
      + subst C. pose proof (cap0_single valueof b _ n Hw Ha Hnnb Hpv Hpack). lia.
      + destruct (le_lt_dec 2 n) as [Hn2|Hn1]; [|lia].
        apply (bf_medium_core3 C b (map valueof items) n E xa); auto. lia.
    - apply (ratio_17_3_core valueof C items b n HI Hb2 HC Hn Hnnb Hpack Hno1).
  Qed.

  (** the sharp bound for every n that is not 1, 4 or 7 mod 10 (and for n = 1) *)
  Theorem ff_ratio_17_floor_rung3_partial C (items : list A) (b : bins A) (n : nat) :
    items <> [] -> Forall (fun x : A => 0 <= valueof x) items ->
    first_fit valueof true C items = Ok b -> MinBins C (map valueof items) n ->
    (n = 1)%nat \/ (exists k r, n = 10 * k + r /\ r < 10 /\ r <> 1 /\ r <> 4 /\ r <> 7)%nat ->
    (10 * length b <= 17 * n)%nat.
  Proof.
    intros Hne Hnn Hff [Hpack _] Hcase.
    pose proof (ff_ratio_17_3_uncond_partial C items b n Hne Hnn Hff Hpack) as H3.
    destruct (ff_facts valueof C items b n Hne Hnn Hff Hpack) as (HI & _ & _ & Hn & _).
    pose proof (Inv_lt_2n valueof C b items n HI Hne Hnn Hpack) as H2.
    destruct Hcase as [Hs|(k & r & E & Hr & H1 & H4 & H7)]; lia.
  Qed.

  Theorem bf_ratio_17_floor_rung3_partial C (items : list A) (b : bins A) (n : nat) :
    items <> [] -> Forall (fun x : A => 0 <= valueof x) items ->
    best_fit valueof true C items = Ok b -> MinBins C (map valueof items) n ->
    (n = 1)%nat \/ (exists k r, n = 10 * k + r /\ r < 10 /\ r <> 1 /\ r <> 4 /\ r <> 7)%nat ->
    (10 * length b <= 17 * n)%nat.
  Proof.
    intros Hne Hnn Hbf [Hpack _] Hcase.
    pose proof (bf_ratio_17_3_uncond_partial C items b n Hne Hnn Hbf Hpack) as H3.
    destruct (bf_facts valueof C items b n Hne Hnn Hbf Hpack) as (HI & _ & _ & Hn & _).
    pose proof (Inv_lt_2n valueof C b items n HI Hne Hnn Hpack) as H2.
    destruct Hcase as [Hs|(k & r & E & Hr & H1 & H4 & H7)]; lia.
  Qed.
End Rung3u.

(** ---- 15. every bin more than half full: the sharp bound unless every bin with a value above
    C/2 is (essentially) that value alone and comes after the chosen common bin ---- *)
Section HalfFullSharp.
  Context {A : Type} (valueof : A -> Z).

  Notation cw2 C b := (wsum2 C (map valueof (contents b))).

  Lemma half_full_excess_core C (b : bins A) (vs : list Z) (n : nat) Bg g :
    0 < C -> wf valueof b -> feasible C b -> all_nonempty b -> anyfit valueof C b -> bf2 valueof C b ->
    half_full C b -> Forall (fun y => 0 <= valueof y) (contents b) ->
    Permutation (map valueof (contents b)) vs -> Packable C vs n ->
    In Bg b -> In g (map valueof (snd Bg)) -> C < 2 * g ->
    (forall t1 c t2, b = t1 ++ c :: t2 -> nobig valueof C c -> In Bg t2 ->
       g + (C - fst c + 1) <= fst Bg) ->
    (10 * length b <= 17 * n)%nat.
  Proof.
    intros HC Hw Hfe Hnem Ha Hb2 Hhf Hnnb Hpv Hpack HBg HgB Hg2 Hafter.
    assert (HC0 : 0 <= C) by lia.
    assert (Hvs : Forall (fun v => 0 <= v) vs).
    { eapply Permutation_Forall; [exact Hpv|]. rewrite Forall_map. exact Hnnb. }
    pose proof (packable_wsum2 C _ n Hvs Hpack) as Hlight.
    rewrite <- (fsum_perm (W2 C) _ _ Hpv) in Hlight.
    pose proof (packable_big C vs n HC0 Hvs Hpack) as Hbig.
    change (zsum (map (bigw C) vs)) with (fsum (bigw C) vs) in Hbig.
    rewrite <- (fsum_perm (bigw C) _ _ Hpv) in Hbig.
    assert (Hbb : bigb valueof C Bg = true).
    { apply bigb_true. unfold hasbig. apply Exists_exists. exists g. split; [exact HgB|lia]. }
    destruct (heavy_choice valueof C b HC Hw Hnem Ha Hb2 Hhf Hnnb)
      as [Hall|(t1 & c & t2 & Eb & Hnb & Hheavy)].
    - pose proof (hasbig_count valueof C b Hall) as Hcnt. lia.
    - pose proof (xs_ge_in valueof C b Bg Hhf HBg Hbb) as Hxs.
      assert (Hinc : In c b) by (rewrite Eb; apply in_or_app; right; left; reflexivity).
      assert (Hhc : C < 2 * fst c) by (unfold half_full in Hhf; rewrite Forall_forall in Hhf; auto).
      assert (Hfc : fst c <= C) by (unfold feasible in Hfe; rewrite Forall_forall in Hfe; auto).
      assert (Hnnc : Forall (fun y => 0 <= valueof y) (snd c)).
      { apply (contents_Forall (fun y => 0 <= valueof y)) in Hnnb.
        rewrite Forall_forall in Hnnb. apply Hnnb. exact Hinc. }
      assert (Hkey : 18 * C + 12 <= 12 * fst Bg + 6 * fst c + 6 * C).
      { pose proof HBg as HBg'. rewrite Eb in HBg'. apply in_app_or in HBg'.
        destruct HBg' as [HB1|[HB2|HB2]].
        - rewrite Eb in Hw, Ha, Hb2.
          pose proof (before_common valueof C t1 c t2 Bg HC0 Hw Ha Hb2 Hnnc Hnb Hhc HB1). lia.
        - exfalso. subst Bg. apply bigb_false in Hnb. congruence.
        - pose proof (Hafter t1 c t2 Eb Hnb HB2). lia. }
      assert (Hz : C * (10 * Z.of_nat (length b)) < C * (17 * Z.of_nat n + 1)) by nia.
      apply Z.mul_lt_mono_pos_l in Hz; lia.
  Qed.

  (** first-fit: some bin holds a value above C/2 and something else of positive total size *)
  Theorem ff_half_full_bigextra_sharp_partial C (items : list A) (b : bins A) (n : nat) :
    items <> [] -> Forall (fun x : A => 0 <= valueof x) items ->
    first_fit valueof true C items = Ok b -> Packable C (map valueof items) n ->
    half_full C b ->
    (exists Bg g, In Bg b /\ In g (map valueof (snd Bg)) /\ C < 2 * g /\ g < fst Bg) ->
    (10 * length b <= 17 * n)%nat.
  Proof.
    intros Hne Hnn Hff Hpack Hhf (Bg & g & HBg & HgB & Hg2 & Hlt).
    pose proof (ff_sfit valueof C items b Hnn Hff) as Hsf.
    destruct (ff_facts valueof C items b n Hne Hnn Hff Hpack)
      as ((Hw & Hf & Hp & Hnem & Hns & Ha) & Hb2 & HC & Hn & Hnnb).
    pose proof (Permutation_map valueof Hp) as Hpv.
    destruct (Z.eq_dec C 0) as [E0|Hpos].
    - subst C. pose proof (cap0_single valueof b _ n Hw Ha Hnnb Hpv Hpack). lia.
    - apply (half_full_excess_core C b (map valueof items) n Bg g); auto; [lia|].
      intros t1 c t2 Eb Hnb HB2. rewrite Eb in Hw, Hsf.
      assert (Hfc : fst c <= C).
      { unfold feasible in Hf. rewrite Forall_forall in Hf. apply Hf. rewrite Eb.
        apply in_or_app; right; left; reflexivity. }
      apply (after_common_ff valueof C t1 c t2 Bg g); auto.
  Qed.

End HalfFullSharp.

(** ---- 16. a run of best-fit where only the third alternative of [later3_ok] holds: the item 5
    of the second bin fits the first bin at its final sum (so [sfit] fails), but the item 45 that
    the first bin received later did not fit the second bin ---- *)
Example bf3_run_example :
  best_fit (fun v : Z => v) true 100 [48; 53; 5; 45] = Ok [(93, [48; 45]); (58, [53; 5])] /\
  later3_ok (fun v : Z => v) 100 (93, [48; 45]) (58, [53; 5]) /\
  ~ sfit (fun v : Z => v) 100 [(93, [48; 45]); (58, [53; 5])].
Proof.
  split; [vm_compute; reflexivity|]. split.
  - unfold later3_ok. cbn [snd fst]. right. right. exists [48], [45].
    cbn [map app]. rewrite pk_zsum_cons, pk_zsum_nil. repeat split; lia.
  - cbn [sfit]. intros [H _]. unfold contents, lists in H. cbn [map concat app snd fst] in H.
    apply Forall_cons_iff in H. destruct H as [_ H]. apply Forall_cons_iff in H. destruct H as [H _]. lia.
Qed.

(* OPEN: Theorem ff_ratio_17_floor / bf_ratio_17_floor for n = 1, 4, 7 mod 10:
     items <> [] -> Forall (fun x => 0 <= valueof x) items ->
     first_fit valueof true C items = Ok b -> MinBins C (map valueof items) n ->
     (10 * length b <= 17 * n)%nat.
   State of the cases (FF17SharpProofs.v and this file):
     some bin at most half full, not a single item in (C/3, C/2]   10 m <= 17 n       (sharp)
     all bins more than half full, beta < n or last common bin 2/3 full   17 n + 1    (r = 7 open)
     all bins more than half full, beta = n, last common bin below 2/3    17 n + 3
        first-fit: 17 n unless every bin with a value above C/2 is that value alone (up to
        items of size 0) [ff_half_full_bigextra_sharp_partial]
     a bin {a}, C/3 < a <= C/2                                     17 n + 3
   So n = 1, 4 mod 10 are open only in the last two cases, n = 7 mod 10 also in the regular case
   (m = 17 k + 12, n = 10 k + 7: the parity argument of Dosa and Sgall).
   The core of the two remaining cases is the following "pure" problem (numerically tight:
   /root/scratch/ff17floor/pure2.py finds k = floor(7 n / 10) for n = 3, 5, 6, 7, 8):
     first-fit packs values <= C/2 into k bins, the last one filled to l with C/2 < l < 2C/3, all
     others at least 2/3 full; the values can be packed into n bins of capacity < min(l, C/2)
     (the room left by n values above max(C/2, C - l), which first-fit puts into n further bins);
     claim 10 k <= 7 n.  The weights give 10 C k <= 7 C n + 10 C - 12 l (constant 4 - eps), the
     sizes give (2 C - l) (k - 1) + 2 l < n C, i.e. 10 k <= 7 n + 2 only for l <= 4C/7; for
     4C/7 < l < 7C/12 neither gives 10 k <= 7 n + 2.  A weight function cannot do better than
     10 k <= 7 n + 3 - eps here (the last bin minus one unit is a feasible optimal bin of weight
     <= 7 C), so rungs 2, 1, 0 need the finer case analysis of Dosa and Sgall, which was not
     reconstructed.  A bin {a} with a close to C/2 reduces to the same problem (a plays the role
     of one of the n large values). *)

Print Assumptions ff_ratio_17_6_partial.
Print Assumptions bf_ratio_17_6_partial.
Print Assumptions ff_ratio_17_4_partial.
Print Assumptions bf_ratio_17_4_partial.
Print Assumptions ff_ratio_17_floor_rung4_partial.
Print Assumptions bf_ratio_17_floor_rung4_partial.
Print Assumptions ff_ratio_17_3_uncond_partial.
Print Assumptions bf_ratio_17_3_uncond_partial.
Print Assumptions ff_half_full_bigextra_sharp_partial.
Print Assumptions ff_ratio_17_floor_rung3_partial.
Print Assumptions bf_ratio_17_floor_rung3_partial.
