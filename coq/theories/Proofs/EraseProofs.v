(** Property C06: choosing a cheaper (sums-only) output type never changes the answer, and
    every derived output (sums, sorted sums, largest, smallest, extreme sums, difference,
    bin count) equals what one computes from the full partition output.

    The per-algorithm facts  erase (X valueof true args) = X valueof false args  are proved
    next to each algorithm and are only re-used here:
      greedy_erase, roundrobin_erase (GreedyProofs); ff_erase, ffd_erase, bf_erase, bfd_erase
      (PackingProofs); dec_erase, tt_erase, tq_erase (CoveringProofs); dp_erase (DPProofs);
      kk_erase (KKProofs); cg_erase (CGProofs); bc_erase (BCProofs).
    New here: the output-type layer (Model/Output.v), the C06 schema and its instances, and
    the analysis of ckk / ckk_generator / snp / rnp, whose two managers de-duplicate
    combinations differently (by item names vs. by sums). *)
From Prtpy Require Import Base.Prelude Base.Perms Model.Binner Model.Objectives Model.Greedy Model.Packing
  Model.Covering Model.KK Model.CG Model.DP Model.CBLDM Model.InExTree Model.SNP Model.BinCompletion
  Model.Output Spec.Partition
  Proofs.BaseLemmas Proofs.BinnerLemmas Proofs.EnumProofs Proofs.GreedyProofs Proofs.PackingProofs
  Proofs.CoveringProofs Proofs.DPProofs Proofs.KKProofs Proofs.CGProofs Proofs.BCProofs
  Proofs.CKKOptimal Proofs.SNPProofs.
From Coq Require Import Sorting.Sorted ZifyBool.

(** ---------------------------------------------------------------------------------- *)
(** * b. erase and the output extractors                                                *)
(** ---------------------------------------------------------------------------------- *)
Section Extract.
  Context {A : Type}.

  Lemma sums_erase (b : bins A) : sums (erase b) = sums b.
  Proof. apply erase_sums. Qed.

  Lemma length_erase (b : bins A) : length (erase b) = length b.
  Proof. apply erase_length. Qed.

  (** what the sums-only manager reports as contents: nothing *)
  Lemma lists_erase (b : bins A) : lists (erase b) = repeat [] (length b).
  Proof.
    unfold lists, erase. rewrite map_map. cbn [snd].
    induction b as [|bn t IH]; cbn [map length repeat]; [reflexivity|]. rewrite IH. reflexivity.
  Qed.

  Lemma erase_idem (b : bins A) : erase (erase b) = erase b.
  Proof. unfold erase. rewrite map_map. reflexivity. Qed.

  (** on a sums-family type, extract_output_from_binsarray is the documented function of
      the sums and ignores the contents *)
  Lemma extract_derive (o : outtype) (b : bins A) :
    keeps o = false -> extract o b = derive o (sums b).
  Proof. destruct o; intros Hk; try discriminate Hk; reflexivity. Qed.

  Lemma extract_erase (o : outtype) (b : bins A) :
    keeps o = false -> extract o (erase b) = derive o (sums b).
  Proof. intros Hk. rewrite (extract_derive o (erase b) Hk), sums_erase. reflexivity. Qed.

  Lemma extract_erase_same (o : outtype) (b : bins A) :
    keeps o = false -> extract o (erase b) = extract o b.
  Proof. intros Hk. rewrite extract_erase, extract_derive; [reflexivity|exact Hk|exact Hk]. Qed.

  (** the same, spelled out for each of the seven sums-family types *)
  Lemma extract_erase_OSums (b : bins A) : extract OSums (erase b) = OutSums (sums b).
  Proof. apply (extract_erase OSums). reflexivity. Qed.
  Lemma extract_erase_OLargest (b : bins A) : extract OLargest (erase b) = OutNum (zmax (sums b)).
  Proof. apply (extract_erase OLargest). reflexivity. Qed.
  Lemma extract_erase_OSmallest (b : bins A) : extract OSmallest (erase b) = OutNum (zmin (sums b)).
  Proof. apply (extract_erase OSmallest). reflexivity. Qed.
  Lemma extract_erase_OExtreme (b : bins A) :
    extract OExtreme (erase b) = OutPair (zmin (sums b)) (zmax (sums b)).
  Proof. apply (extract_erase OExtreme). reflexivity. Qed.
  Lemma extract_erase_OSorted (b : bins A) :
    extract OSorted (erase b) = OutSums (sort_asc (fun x => x) (sums b)).
  Proof. apply (extract_erase OSorted). reflexivity. Qed.
  Lemma extract_erase_ODifference (b : bins A) :
    extract ODifference (erase b) = OutNum (zmax (sums b) - zmin (sums b)).
  Proof. apply (extract_erase ODifference). reflexivity. Qed.
  Lemma extract_erase_OBinCount (b : bins A) : extract OBinCount (erase b) = OutCount (length b).
  Proof.
    rewrite (extract_erase OBinCount b eq_refl). cbn [derive]. unfold sums. rewrite map_length. reflexivity.
  Qed.

  (** the Partition family returns the bins-array as it is *)
  Lemma extract_OPartition (b : bins A) : extract OPartition b = OutLists (lists b).
  Proof. reflexivity. Qed.
  Lemma extract_OPartitionAndSums (b : bins A) : extract OPartitionAndSums b = OutBins b.
  Proof. reflexivity. Qed.

  (** the derived outputs are mutually consistent: everything follows from the sorted sums
      (this is how compare_algorithms uses them: SortedSums first, then
      outputtype.extract_output_from_sums) *)
  Lemma derive_sorted (o : outtype) (s : list Z) :
    keeps o = false -> o <> OSums ->
    @derive A o (sort_asc (fun x => x) s) = derive o s.
  Proof.
    intros Hk Ho. pose proof (sort_asc_perm (fun x : Z => x) s) as HP.
    destruct o; try discriminate Hk; try congruence; cbn [derive].
    - rewrite (zmax_perm _ _ HP). reflexivity.
    - rewrite (zmin_perm _ _ HP). reflexivity.
    - rewrite (zmax_perm _ _ HP), (zmin_perm _ _ HP). reflexivity.
    - rewrite sort_asc_idem. reflexivity.
    - rewrite (zmax_perm _ _ HP), (zmin_perm _ _ HP). reflexivity.
    - rewrite sort_asc_length. reflexivity.
  Qed.
End Extract.

(** ---------------------------------------------------------------------------------- *)
(** * d. what the reported sums are                                                     *)
(** ---------------------------------------------------------------------------------- *)
Section WfSums.
  Context {A : Type} (valueof : A -> Z).

  (** every reported sum is the total value of the reported items *)
  Lemma wf_erase_sums (b : bins A) :
    wf valueof b -> Forall (fun bn => fst bn = zsum (map valueof (snd bn))) b.
  Proof. intros H. exact H. Qed.

  (** the Sums output is computed from the Partition output by adding up each bin *)
  Lemma wf_sums_lists (b : bins A) :
    wf valueof b -> sums b = map (fun l => zsum (map valueof l)) (lists b).
  Proof.
    unfold sums, lists. intros H. rewrite map_map.
    induction H as [|bn t Hb Ht IH]; cbn [map]; [reflexivity|]. rewrite IH. f_equal. exact Hb.
  Qed.

  (** ... also after the contents have been forgotten *)
  Lemma wf_erase_sums_lists (b : bins A) :
    wf valueof b -> sums (erase b) = map (fun l => zsum (map valueof l)) (lists b).
  Proof. intros H. rewrite sums_erase. apply wf_sums_lists. exact H. Qed.
End WfSums.

(** ---------------------------------------------------------------------------------- *)
(** * c. the C06 schema                                                                 *)
(** ---------------------------------------------------------------------------------- *)
Section Schema.
  Context {A : Type}.

  (** algorithms that always return a bins-array *)
  Theorem C06_schema (alg : bool -> bins A) :
    erase (alg true) = alg false ->
    forall o, keeps o = false -> run_output o alg = derive o (sums (alg true)).
  Proof.
    intros He o Hk. unfold run_output. rewrite Hk, <- He. apply extract_erase. exact Hk.
  Qed.

  (** the cheap run gives what the same extractor gives on the full run *)
  Corollary C06_schema_extract (alg : bool -> bins A) :
    erase (alg true) = alg false ->
    forall o, keeps o = false -> run_output o alg = extract o (alg true).
  Proof. intros He o Hk. rewrite (C06_schema alg He o Hk). symmetry. apply extract_derive. exact Hk. Qed.

  (** phrased with the two outputs a caller can actually observe *)
  Corollary C06_schema_observed (alg : bool -> bins A) :
    erase (alg true) = alg false ->
    forall o full, keeps o = false ->
      run_output OPartitionAndSums alg = OutBins full ->
      run_output o alg = derive o (sums full).
  Proof.
    intros He o full Hk Hfull. unfold run_output in Hfull. cbn [keeps extract] in Hfull.
    injection Hfull as <-. apply C06_schema; assumption.
  Qed.

  (** from the plain Partition output (lists only), when the sums are the totals *)
  Corollary C06_schema_lists (valueof : A -> Z) (alg : bool -> bins A) :
    erase (alg true) = alg false -> wf valueof (alg true) ->
    forall o ls, keeps o = false ->
      run_output OPartition alg = OutLists ls ->
      run_output o alg = derive o (map (fun l => zsum (map valueof l)) ls).
  Proof.
    intros He Hwf o ls Hk Hls. unfold run_output in Hls. cbn [keeps extract] in Hls.
    injection Hls as <-. rewrite <- (wf_sums_lists valueof _ Hwf). apply C06_schema; assumption.
  Qed.

  (** algorithms that may raise *)
  Theorem C06_schema_r (alg : bool -> result (bins A)) :
    rmap erase (alg true) = alg false ->
    forall o, keeps o = false ->
      run_output_r o alg = rmap (fun b => derive o (sums b)) (alg true).
  Proof.
    intros He o Hk. unfold run_output_r. rewrite Hk, <- He.
    destruct (alg true) as [b|e]; cbn [rmap]; [|reflexivity].
    rewrite extract_erase by exact Hk. reflexivity.
  Qed.

  Corollary C06_schema_r_ok (alg : bool -> result (bins A)) :
    rmap erase (alg true) = alg false ->
    forall o full, keeps o = false -> alg true = Ok full ->
      run_output_r o alg = Ok (derive o (sums full)).
  Proof. intros He o full Hk Hfull. rewrite (C06_schema_r alg He o Hk), Hfull. reflexivity. Qed.

  (** the cheap run raises exactly when the full run raises, with the same error *)
  Corollary C06_schema_r_err (alg : bool -> result (bins A)) :
    rmap erase (alg true) = alg false ->
    forall o e, keeps o = false -> alg true = Err e -> run_output_r o alg = Err e.
  Proof. intros He o e Hk Hfull. rewrite (C06_schema_r alg He o Hk), Hfull. reflexivity. Qed.

  (** algorithms that may return None *)
  Theorem C06_schema_o (alg : bool -> option (bins A)) :
    option_map erase (alg true) = alg false ->
    forall o, keeps o = false ->
      run_output_o o alg = option_map (fun b => derive o (sums b)) (alg true).
  Proof.
    intros He o Hk. unfold run_output_o. rewrite Hk, <- He.
    destruct (alg true) as [b|]; cbn [option_map]; [|reflexivity].
    rewrite extract_erase by exact Hk. reflexivity.
  Qed.

  (** an algorithm that ignores the manager it is given (cbldm) *)
  Theorem C06_schema_const (b : bins A) :
    forall o, keeps o = false -> run_output o (fun _ => b) = derive o (sums b).
  Proof. intros o Hk. unfold run_output. apply extract_derive. exact Hk. Qed.
End Schema.

(** ---------------------------------------------------------------------------------- *)
(** * c. instances                                                                      *)
(** ---------------------------------------------------------------------------------- *)
Section Instances.
  Context {A : Type} (valueof : A -> Z).

  (** ---- partitioning heuristics ---- *)
  Theorem C06_greedy : forall o k items, keeps o = false ->
    run_partition o (@greedy A) valueof k items = derive o (sums (greedy valueof true k items)).
  Proof.
    intros o k items Hk. unfold run_partition.
    apply (C06_schema (fun keep => greedy valueof keep k items)); [apply greedy_erase|exact Hk].
  Qed.

  Theorem C06_roundrobin : forall o k items, keeps o = false ->
    run_partition o (@roundrobin A) valueof k items = derive o (sums (roundrobin valueof true k items)).
  Proof.
    intros o k items Hk. unfold run_partition.
    apply (C06_schema (fun keep => roundrobin valueof keep k items)); [apply roundrobin_erase|exact Hk].
  Qed.

  Theorem C06_kk : forall o k items, keeps o = false ->
    run_partition_r o (@kk A) valueof k items =
    rmap (fun b => derive o (sums b)) (kk valueof true k items).
  Proof.
    intros o k items Hk. unfold run_partition_r.
    apply (C06_schema_r (fun keep => kk valueof keep k items)); [apply kk_erase|exact Hk].
  Qed.

  (** complete greedy, any objective, any flags; the limit is a number of loop iterations
      in the model, so the statement holds for every limit (in particular for None) *)
  Theorem C06_cg : forall o obj flags limit k items, keeps o = false ->
    run_output_o o (fun keep => cg valueof keep obj flags limit k items) =
    option_map (fun b => derive o (sums b)) (cg valueof true obj flags limit k items).
  Proof.
    intros o obj flags limit k items Hk.
    apply (C06_schema_o (fun keep => cg valueof keep obj flags limit k items)); [apply cg_erase|exact Hk].
  Qed.

  Theorem C06_dp : forall o obj k items, keeps o = false ->
    run_output_r o (fun keep => dp valueof keep obj k items) =
    rmap (fun b => derive o (sums b)) (dp valueof true obj k items).
  Proof.
    intros o obj k items Hk.
    apply (C06_schema_r (fun keep => dp valueof keep obj k items)); [apply dp_erase|exact Hk].
  Qed.

  (** ---- packing ---- *)
  Theorem C06_first_fit : forall o C items, keeps o = false ->
    run_pack_r o (@first_fit A) valueof C items =
    rmap (fun b => derive o (sums b)) (first_fit valueof true C items).
  Proof.
    intros o C items Hk. unfold run_pack_r.
    apply (C06_schema_r (fun keep => first_fit valueof keep C items)); [apply ff_erase|exact Hk].
  Qed.

  Theorem C06_first_fit_decreasing : forall o C items, keeps o = false ->
    run_pack_r o (@first_fit_decreasing A) valueof C items =
    rmap (fun b => derive o (sums b)) (first_fit_decreasing valueof true C items).
  Proof.
    intros o C items Hk. unfold run_pack_r.
    apply (C06_schema_r (fun keep => first_fit_decreasing valueof keep C items)); [apply ffd_erase|exact Hk].
  Qed.

  Theorem C06_best_fit : forall o C items, keeps o = false ->
    run_pack_r o (@best_fit A) valueof C items =
    rmap (fun b => derive o (sums b)) (best_fit valueof true C items).
  Proof.
    intros o C items Hk. unfold run_pack_r.
    apply (C06_schema_r (fun keep => best_fit valueof keep C items)); [apply bf_erase|exact Hk].
  Qed.

  Theorem C06_best_fit_decreasing : forall o C items, keeps o = false ->
    run_pack_r o (@best_fit_decreasing A) valueof C items =
    rmap (fun b => derive o (sums b)) (best_fit_decreasing valueof true C items).
  Proof.
    intros o C items Hk. unfold run_pack_r.
    apply (C06_schema_r (fun keep => best_fit_decreasing valueof keep C items)); [apply bfd_erase|exact Hk].
  Qed.

  (** ---- covering ---- *)
  Theorem C06_cover_decreasing : forall o C items, keeps o = false ->
    run_pack o (@cover_decreasing A) valueof C items =
    derive o (sums (cover_decreasing valueof true C items)).
  Proof.
    intros o C items Hk. unfold run_pack.
    apply (C06_schema (fun keep => cover_decreasing valueof keep C items)); [apply dec_erase|exact Hk].
  Qed.

  Theorem C06_cover_twothirds : forall o C items, keeps o = false ->
    run_pack o (@cover_twothirds A) valueof C items =
    derive o (sums (cover_twothirds valueof true C items)).
  Proof.
    intros o C items Hk. unfold run_pack.
    apply (C06_schema (fun keep => cover_twothirds valueof keep C items)); [apply tt_erase|exact Hk].
  Qed.

  Theorem C06_cover_threequarters : forall o C items, keeps o = false ->
    run_pack o (@cover_threequarters A) valueof C items =
    derive o (sums (cover_threequarters valueof true C items)).
  Proof.
    intros o C items Hk. unfold run_pack.
    apply (C06_schema (fun keep => cover_threequarters valueof keep C items)); [apply tq_erase|exact Hk].
  Qed.

  (** ---- from the plain Partition output: the sums are the totals of the lists ---- *)
  Theorem C06_greedy_lists : forall o k items ls, (1 <= k)%nat -> keeps o = false ->
    run_partition OPartition (@greedy A) valueof k items = OutLists ls ->
    run_partition o (@greedy A) valueof k items = derive o (map (fun l => zsum (map valueof l)) ls).
  Proof.
    intros o k items ls Hk1 Hk Hls. unfold run_partition in *.
    apply (C06_schema_lists valueof (fun keep => greedy valueof keep k items));
      [apply greedy_erase| |exact Hk|exact Hls].
    destruct (greedy_partition valueof k items Hk1) as (_ & _ & Hwf). exact Hwf.
  Qed.

  (** ---- cbldm: the Python replaces the manager it is given by a BinnerKeepingContents,
      so the bins-array handed to extract_output_from_binsarray is the (sums, lists) pair
      whatever the output type.  Sums.extract_output_from_binsarray then takes the branch
      "bins[0][0] succeeds" and reads the sums of that pair: every sums-family output is
      the documented function of the sums of the very partition that OPartition returns.
      (When the time limit fires before any leaf is reached, the Python returns the
      placeholder ([0,inf],[0,inf]), which the same branch reads as sums [0, inf];
      the model has no bins-array in that case: CbPlaceholder.) *)
  Theorem C06_cbldm : forall o k items tl d dint limit b n, keeps o = false ->
    cbldm valueof k items tl d dint limit = Ok (CbBins b, n) ->
    run_output o (fun _ : bool => b) = derive o (sums b) /\
    run_output OPartition (fun _ : bool => b) = OutLists (lists b).
  Proof.
    intros o k items tl d dint limit b n Hk _. split; [|reflexivity].
    apply C06_schema_const. exact Hk.
  Qed.
End Instances.

(** bin completion works on plain numbers *)
Theorem C06_bin_completion : forall o C fuel items, keeps o = false ->
  run_output_r o (fun keep => bin_completion keep C fuel items) =
  rmap (fun b => derive o (sums b)) (bin_completion true C fuel items).
Proof.
  intros o C fuel items Hk.
  apply (C06_schema_r (fun keep => bin_completion keep C fuel items)); [apply bc_erase|exact Hk].
Qed.

(** ---------------------------------------------------------------------------------- *)
(** * a. complete Karmarkar-Karp: the two managers de-duplicate differently             *)
(** ---------------------------------------------------------------------------------- *)
(** BinnerKeepingContents.all_combinations de-duplicates by the sorted item names of the
    bins, BinnerKeepingSums.all_combinations by the sorted sums.  Two pairings with equal
    sums and different contents are both explored by the first and only once by the
    second, so the two searches visit different trees (e.g. 19 vs 16 nodes on
    [1;1;1;2;3;3;5] with 3 bins) and  rmap erase (ckk true) = ckk false  cannot be proved by
    a step-by-step simulation.  What is proved here:
      - [ckk_sums_partition], [ckk_sums_optimal]: the sums manager on its own returns the
        sums of a genuine partition, of minimum difference (no hypothesis on names);
      - [ckk_erase_value]: both managers reach the same (optimal) difference when items
        with equal names have equal values ([names_ok]) and values are non-negative;
      - [ckk_erase_2]: with two bins the equation  rmap erase (ckk true) = ckk false  is exact.
    The hypothesis [names_ok] cannot be dropped ([ckk_erase_needs_names_ok]).
    OPEN: the exact equation  rmap erase (ckk true k) = ckk false k  for k >= 3 under the same
    hypotheses.  No counterexample was found (vm_compute on all lists of up to 8
    distinctly named items with values in {1,2,3} / {1,2,4} / {1,2,3,5} for 3, 4 and 5 bins;
    200000 random runs of the Python library itself with 5..9 items and 3..5 bins), and no
    proof: the two runs can visit subtrees with tied keys in different orders (the contents
    manager visits the LAST of several equal-sum combinations first), so two optimal
    partitions with different sums could in principle be returned. *)
Section CKKSums.
  Context {A : Type} (valueof nameof : A -> Z).
  Local Notation nonneg := (Forall (fun x : A => 0 <= valueof x)).

  (** ---- combinations of erased bins-arrays ---- *)
  Lemma erase_nth_opt (b : bins A) : forall i,
    nth_opt (erase b) i = option_map (fun x => (fst x, @nil A)) (nth_opt b i).
  Proof.
    induction b as [|x t IH]; intros [|j]; cbn [erase map nth_opt option_map]; try reflexivity.
    apply IH.
  Qed.

  Lemma picked_erase (b1 : bins A) p :
    map (fun i => match nth_opt (erase b1) i with Some x => x | None => empty_bin end) p =
    erase (map (fun i => match nth_opt b1 i with Some x => x | None => empty_bin end) p).
  Proof.
    unfold erase at 2. rewrite map_map. apply map_ext. intros i. rewrite erase_nth_opt.
    destruct (nth_opt b1 i); reflexivity.
  Qed.

  Lemma combo_of_perm_erase (b1 b2 : bins A) p :
    combo_of_perm nameof false (erase b1) (erase b2) p = erase (combo_of_perm nameof true b1 b2 p).
  Proof.
    unfold combo_of_perm. cbv zeta. rewrite picked_erase, zip_combine_erase, <- sort_bins_erase.
    f_equal. unfold erase. rewrite !map_map. apply map_ext. intros x. reflexivity.
  Qed.

  Lemma erased_key_inj (x y : bins A) :
    combo_key nameof false (erase x) = combo_key nameof false (erase y) -> erase x = erase y.
  Proof.
    unfold combo_key, erase. rewrite !map_map. cbn [fst].
    revert y. induction x as [|a x IH]; intros [|b y] H; cbn [map] in *; try discriminate; [reflexivity|].
    injection H as H1 H2. rewrite H1. f_equal. apply IH. exact H2.
  Qed.

  (** the combinations the sums manager yields are exactly the erasures of all pairings *)
  Lemma all_combinations_false_in (b1 b2 : bins A) c :
    In c (all_combinations nameof false (erase b1) (erase b2)) <->
    exists p, Permutation p (range (length b1)) /\ c = erase (combo_of_perm nameof true b1 b2 p).
  Proof.
    split.
    - intros H. apply all_combinations_sound in H. destruct H as (p & Hp & ->).
      rewrite length_erase in Hp. exists p. split; [exact Hp|apply combo_of_perm_erase].
    - intros (p & Hp & ->).
      destruct (all_combinations_complete_gen nameof false (erase b1) (erase b2) p) as (c & Hc & HK).
      + rewrite length_erase. exact Hp.
      + pose proof Hc as Hc'. apply all_combinations_sound in Hc'. destruct Hc' as (q & Hq & Ec).
        rewrite combo_of_perm_erase in Ec, HK. subst c. apply erased_key_inj in HK.
        rewrite <- HK. exact Hc.
  Qed.

  (** ---- the search tree of the sums manager ---- *)
  Inductive expands_f : @heap A -> @heap A -> Prop :=
  | expands_f_refl h : expands_f h h
  | expands_f_step e1 e2 rest c h' :
      In c (all_combinations nameof false (snd e1) (snd e2)) ->
      expands_f (heap_push rest c) h' ->
      expands_f (e1 :: e2 :: rest) h'.

  Lemma expands_f_ghost (g : @heap A) hf :
    expands_f (erase_heap g) hf -> exists g', expands_all nameof g g' /\ hf = erase_heap g'.
  Proof.
    intros H. remember (erase_heap g) as h eqn:E. revert g E.
    induction H as [h|e1 e2 rest c h' Hc He IH]; intros g E.
    - exists g. split; [apply expands_all_refl|exact E].
    - destruct g as [|x1 [|x2 r]]; cbn [erase_heap map] in E; try discriminate E.
      injection E as -> -> ->. cbn [erase_entry snd] in Hc.
      apply all_combinations_false_in in Hc. destruct Hc as (p & Hp & ->).
      destruct (IH (heap_push r (combo_of_perm nameof true (snd x1) (snd x2) p))) as (g' & Hg' & E').
      + apply (heap_push_erase r).
      + exists g'. split; [eapply expands_all_step; eassumption|exact E'].
  Qed.

  Lemma expands_all_f (g g' : @heap A) :
    expands_all nameof g g' -> expands_f (erase_heap g) (erase_heap g').
  Proof.
    induction 1 as [h|e1 e2 rest p h' Hp He IH]; [apply expands_f_refl|].
    cbn [erase_heap map].
    apply (expands_f_step _ _ _ (erase (combo_of_perm nameof true (snd e1) (snd e2) p))).
    - cbn [erase_entry snd]. apply all_combinations_false_in. exists p. split; [exact Hp|reflexivity].
    - change (map erase_entry rest) with (erase_heap rest). rewrite heap_push_erase. exact IH.
  Qed.

  (** ---- invariants along the tree of all pairings ---- *)
  Lemma child_full_all k its e1 e2 rest p :
    heap_full valueof k its (e1 :: e2 :: rest) -> Permutation p (range (length (snd e1))) ->
    heap_full valueof k its (heap_push rest (combo_of_perm nameof true (snd e1) (snd e2) p)).
  Proof.
    intros (H1 & H2 & H3) Hp. split; [apply combo_child_inv; assumption|split].
    - eapply child_Forall; [exact pushed_sorted_ok|exact H2].
    - eapply child_Forall; [exact pushed_key_ok|exact H3].
  Qed.

  Lemma expands_all_full k its h h' :
    expands_all nameof h h' -> heap_full valueof k its h -> heap_full valueof k its h'.
  Proof.
    induction 1 as [h|e1 e2 rest p h' Hp He IH]; intros Hf; [exact Hf|].
    apply IH. apply child_full_all; assumption.
  Qed.

  Lemma expand_dom_all k its e1 e2 rest p :
    heap_inv valueof k its (e1 :: e2 :: rest) -> nonneg its ->
    Permutation p (range (length (snd e1))) ->
    dom (heap_flat_sums (e1 :: e2 :: rest))
        (heap_flat_sums (heap_push rest (combo_of_perm nameof true (snd e1) (snd e2) p))).
  Proof.
    intros Hh Hpos Hp. pose proof (heap_sums_nonneg valueof k its _ Hh Hpos) as HN.
    destruct Hh as [HF _].
    destruct (Forall_inv HF) as [L1 _]. destruct (Forall_inv (Forall_inv_tail HF)) as [L2 _].
    destruct (combo_sums_dom nameof (snd e1) (snd e2) p) as [D1 D2];
      [congruence|exact Hp|exact (Forall_inv HN)|exact (Forall_inv (Forall_inv_tail HN))|].
    eapply dom_perm_r; [symmetry; apply flat_push_perm|].
    unfold heap_flat_sums. cbn [flat_map].
    apply dom_app; [|apply dom_app].
    - apply dom_app_r1. eapply dom_perm_r; [symmetry; apply sort_bins_sums_perm|exact D1].
    - apply dom_app_r1. eapply dom_perm_r; [symmetry; apply sort_bins_sums_perm|exact D2].
    - apply dom_app_r2, dom_refl.
  Qed.

  Lemma expands_all_dom k its h h' : expands_all nameof h h' -> heap_inv valueof k its h ->
    nonneg its -> dom (heap_flat_sums h) (heap_flat_sums h').
  Proof.
    induction 1 as [h|e1 e2 rest p h' Hp He IH]; intros Hh Hpos; [apply dom_refl|].
    eapply dom_trans; [eapply expand_dom_all; eassumption|].
    apply IH; [apply combo_child_inv; assumption|exact Hpos].
  Qed.

  (** the pruning bound is admissible for the tree of all pairings as well *)
  Lemma ckk_bound_admissible_all k its h e lb :
    heap_full valueof k its h -> nonneg its ->
    expands_all nameof h [e] -> ckk_bound k h = Some lb -> fst e <= lb.
  Proof.
    intros Hf Hpos Hex Hb.
    pose proof (expands_all_full k its _ _ Hex Hf) as (Hinv' & Hs' & Hk').
    destruct Hf as (Hinv & _ & _).
    pose proof (expands_all_dom k its _ _ Hex Hinv Hpos) as D.
    pose proof (flat_total valueof k its _ Hinv) as T1. pose proof (flat_total valueof k its _ Hinv') as T2.
    pose proof (leaf_key e (Forall_inv Hs') (Forall_inv Hk')) as Hkey.
    destruct Hinv' as [HF' _]. destruct (Forall_inv HF') as [Le _].
    unfold heap_flat_sums in D, T2. cbn [flat_map] in D, T2. rewrite app_nil_r in D, T2.
    fold (heap_flat_sums h) in D.
    destruct (ckk_bound_eq _ _ _ Hb) as [Hk2 ->]. clear Hb.
    assert (Hne : heap_flat_sums h <> []).
    { destruct h as [|e0 t]; [apply expands_all_nil_inv in Hex; discriminate Hex|].
      destruct Hinv as [HF _]. destruct (Forall_inv HF) as [L0 _].
      unfold heap_flat_sums. cbn [flat_map]. unfold sums.
      destruct (snd e0); cbn [length] in L0; [lia|discriminate]. }
    pose proof (dom_zmax _ _ Hne D) as Hmx.
    assert (Hse : sums (snd e) <> []).
    { unfold sums. destruct (snd e); cbn [length] in Le; [lia|discriminate]. }
    pose proof (zmin_avg _ Hse) as Havg.
    assert (HLs : Z.of_nat (length (sums (snd e))) = Z.of_nat k).
    { unfold sums. rewrite map_length. f_equal. exact Le. }
    rewrite HLs in Havg.
    set (d := Z.of_nat k - 1) in *. assert (Hd : 0 < d) by lia.
    set (mx := zmax (heap_flat_sums h)) in *.
    set (tot := zsum (heap_flat_sums h)) in *.
    assert (Hq : zmin (sums (snd e)) <= (tot - mx) / d).
    { apply Z.div_le_lower_bound; [exact Hd|]. lia. }
    lia.
  Qed.

  (** ---- one unfolding of ckk_explore for the sums manager ---- *)
  Lemma ckk_explore_eq_f fuel mode k h st :
    ckk_explore nameof false fuel mode k h st =
    if ckk_stop st then st else
    if pruned k h (ckk_best st) then tick st else
    match h with
    | [] => tick st
    | [e] => if gt_best (fst e) (ckk_best st) then accept mode e (tick st) else tick st
    | e1 :: e2 :: rest =>
        match fuel with
        | O => tick st
        | S f => fold_left (fun s c => ckk_explore nameof false f mode k c s)
                   (rev (sort_asc topdiff
                      (map (heap_push rest) (all_combinations nameof false (snd e1) (snd e2)))))
                   (tick st)
        end
    end.
  Proof. destruct fuel; reflexivity. Qed.

  Lemma heap_flat_sums_erase (g : @heap A) : heap_flat_sums (erase_heap g) = heap_flat_sums g.
  Proof.
    unfold heap_flat_sums, erase_heap. induction g as [|e t IH]; cbn [map flat_map]; [reflexivity|].
    rewrite IH. cbn [erase_entry snd]. rewrite sums_erase. reflexivity.
  Qed.

  Lemma ckk_bound_erase k (g : @heap A) : ckk_bound k (erase_heap g) = ckk_bound k g.
  Proof. unfold ckk_bound. rewrite heap_flat_sums_erase. reflexivity. Qed.

  (** a heap of the sums manager that is the erasure of a well-formed heap *)
  Definition hfull_f (k : nat) (its : list A) (h : @heap A) : Prop :=
    exists g, h = erase_heap g /\ heap_full valueof k its g.

  Lemma hfull_f_child k its e1 e2 rest c :
    hfull_f k its (e1 :: e2 :: rest) -> In c (all_combinations nameof false (snd e1) (snd e2)) ->
    hfull_f k its (heap_push rest c).
  Proof.
    intros (g & E & Hg) Hc.
    destruct g as [|x1 [|x2 r]]; cbn [erase_heap map] in E; try discriminate E.
    injection E as -> -> ->. cbn [erase_entry snd] in Hc.
    apply all_combinations_false_in in Hc. destruct Hc as (p & Hp & ->).
    exists (heap_push r (combo_of_perm nameof true (snd x1) (snd x2) p)). split.
    - apply (heap_push_erase r).
    - apply child_full_all; assumption.
  Qed.

  (** a leaf of the sums manager's tree is the erasure of a leaf of the tree of all pairings *)
  Lemma leaf_ghost k its h e : hfull_f k its h -> expands_f h [e] ->
    exists g e', h = erase_heap g /\ heap_full valueof k its g /\
                 expands_all nameof g [e'] /\ e = erase_entry e' /\ heap_full valueof k its [e'].
  Proof.
    intros (g & -> & Hg) Hex. destruct (expands_f_ghost g _ Hex) as (g' & Hg' & E).
    destruct g' as [|e' [|e'' t]]; cbn [erase_heap map] in E; try discriminate E.
    injection E as ->. exists g, e'.
    split; [reflexivity|]. split; [exact Hg|]. split; [exact Hg'|]. split; [reflexivity|].
    eapply expands_all_full; eassumption.
  Qed.

  Lemma prune_sound_f k its h e best :
    hfull_f k its h -> nonneg its -> pruned k h best = true -> expands_f h [e] ->
    gt_best (fst e) best = false.
  Proof.
    intros Hh Hpos Hp Hex.
    destruct (leaf_ghost k its h e Hh Hex) as (g & e' & -> & Hg & Hall & -> & _).
    unfold pruned in Hp. rewrite ckk_bound_erase in Hp.
    destruct (ckk_bound k g) as [lb|] eqn:Hb; [|discriminate].
    pose proof (ckk_bound_admissible_all k its g e' lb Hg Hpos Hall Hb) as Hle.
    cbn [erase_entry fst].
    destruct best as [b|]; cbn [le_best] in Hp; [|discriminate].
    cbn [gt_best]. lia.
  Qed.

  Lemma leaf_nonpos_f k its h e : hfull_f k its h -> expands_f h [e] -> fst e <= 0.
  Proof.
    intros Hh Hex. destruct (leaf_ghost k its h e Hh Hex) as (g & e' & _ & _ & _ & -> & (_ & Hs & Hk)).
    cbn [erase_entry fst]. rewrite (leaf_key e' (Forall_inv Hs) (Forall_inv Hk)).
    pose proof (zmin_le_zmax (sums (snd e'))). lia.
  Qed.

  (** the incumbent of the sums manager is the erasure of a complete, well-formed partition *)
  Definition finv (k : nat) (its : list A) (st : @ckk_state A) : Prop :=
    forall d, ckk_best st = Some d ->
      exists e, heap_full valueof k its [e] /\ fst e = d /\ ckk_part st = Some (erase (snd e)).

  Definition fspec (k : nat) (its : list A) (f : nat) : Prop :=
    forall h st, hfull_f k its h -> (length h <= S f)%nat -> stop_ok st -> finv k its st ->
      stop_ok (ckk_explore nameof false f true k h st) /\
      best_le st (ckk_explore nameof false f true k h st) /\
      (forall e, expands_f h [e] -> covers (ckk_explore nameof false f true k h st) e) /\
      finv k its (ckk_explore nameof false f true k h st).

  Lemma fold_fspec k its f : fspec k its f ->
    forall L st,
      (forall c, In c L -> hfull_f k its c /\ (length c <= S f)%nat) -> stop_ok st -> finv k its st ->
      stop_ok (fold_left (fun s c => ckk_explore nameof false f true k c s) L st) /\
      best_le st (fold_left (fun s c => ckk_explore nameof false f true k c s) L st) /\
      (forall c e, In c L -> expands_f c [e] ->
         covers (fold_left (fun s c => ckk_explore nameof false f true k c s) L st) e) /\
      finv k its (fold_left (fun s c => ckk_explore nameof false f true k c s) L st).
  Proof.
    intros IHf. induction L as [|c0 cs IH]; intros st HL Hso Hfi; cbn [fold_left].
    - split; [exact Hso|]. split; [apply best_le_refl|]. split; [intros c e []|exact Hfi].
    - destruct (HL c0 (or_introl eq_refl)) as [Hf0 Hl0].
      destruct (IHf c0 st Hf0 Hl0 Hso Hfi) as (S1 & B1 & C1 & F1).
      destruct (IH (ckk_explore nameof false f true k c0 st)) as (S2 & B2 & C2 & F2);
        [intros c Hc; apply HL; right; exact Hc|exact S1|exact F1|].
      split; [exact S2|]. split; [eapply best_le_trans; eassumption|]. split; [|exact F2].
      intros c e [<-|Hc] Hex.
      + eapply covers_mono; [exact B2|]. apply C1. exact Hex.
      + eapply C2; eassumption.
  Qed.

  Lemma expands_f_nil_inv h' : expands_f [] h' -> h' = [].
  Proof.
    intros H. remember (@nil (@hentry A)) as h0 eqn:E.
    destruct H as [h|e1 e2 rest c h' Hc He]; [reflexivity|discriminate E].
  Qed.

  Lemma expands_f_single_inv e1 h' : expands_f [e1] h' -> h' = [e1].
  Proof.
    intros H. remember [e1] as h0 eqn:E.
    destruct H as [h|x1 x2 rest c h' Hc He]; [reflexivity|discriminate E].
  Qed.

  Lemma expands_f_cons2_leaf_inv e1 e2 rest e : expands_f (e1 :: e2 :: rest) [e] ->
    exists c, In c (all_combinations nameof false (snd e1) (snd e2)) /\
              expands_f (heap_push rest c) [e].
  Proof.
    intros H. remember (e1 :: e2 :: rest) as h0 eqn:E. remember [e] as h1 eqn:E1.
    destruct H as [h|x1 x2 r c h' Hc He].
    - subst h. discriminate E1.
    - injection E as -> -> ->. subst h'. exists c. split; assumption.
  Qed.

  Lemma fspec_step k its fuel : nonneg its ->
    (forall f, fuel = S f -> fspec k its f) -> fspec k its fuel.
  Proof.
    intros Hpos IH h st Hf HL Hso Hfi. rewrite ckk_explore_eq_f.
    destruct (ckk_stop st) eqn:Es.
    - split; [exact Hso|]. split; [apply best_le_refl|]. split; [|exact Hfi].
      intros e He. exists 0. split; [apply Hso; exact Es|].
      eapply leaf_nonpos_f; eassumption.
    - assert (St : stop_ok (tick st)) by (intros H; discriminate H).
      assert (Bt : best_le st (tick st)) by (exact (best_le_refl st)).
      assert (Ft : finv k its (tick st)) by exact Hfi.
      destruct (pruned k h (ckk_best st)) eqn:Ep.
      + split; [exact St|]. split; [exact Bt|]. split; [|exact Ft].
        intros e He. pose proof (prune_sound_f k its h e _ Hf Hpos Ep He) as G.
        unfold covers. cbn [tick ckk_best].
        destruct (ckk_best st) as [b|]; cbn [gt_best] in G; [|discriminate].
        exists b. split; [reflexivity|lia].
      + destruct h as [|e1 [|e2 rest]].
        * split; [exact St|]. split; [exact Bt|]. split; [|exact Ft].
          intros e He. apply expands_f_nil_inv in He. discriminate He.
        * destruct (gt_best (fst e1) (ckk_best st)) eqn:G.
          -- split; [|split; [|split]].
             ++ unfold stop_ok, accept. cbn [ckk_stop ckk_best]. intros H. f_equal. lia.
             ++ intros b Hb. exists (fst e1). unfold accept. cbn [ckk_best].
                split; [reflexivity|]. rewrite Hb in G. cbn [gt_best] in G. lia.
             ++ intros e He. apply expands_f_single_inv in He. injection He as ->.
                exists (fst e1). unfold accept. cbn [ckk_best].
                split; [reflexivity|lia].
             ++ intros d Hd. unfold accept in Hd. cbn [ckk_best] in Hd. injection Hd as <-.
                destruct Hf as (g & E & Hg).
                destruct g as [|x1 [|x2 r]]; cbn [erase_heap map] in E; try discriminate E.
                injection E as ->. exists x1. split; [exact Hg|]. split; reflexivity.
          -- split; [exact St|]. split; [exact Bt|]. split; [|exact Ft].
             intros e He. apply expands_f_single_inv in He. injection He as ->.
             unfold covers. cbn [tick ckk_best].
             destruct (ckk_best st) as [b|]; cbn [gt_best] in G; [|discriminate].
             exists b. split; [reflexivity|lia].
        * destruct fuel as [|f]; [cbn [length] in HL; lia|].
          destruct (fold_fspec k its f (IH f eq_refl)
                      (rev (sort_asc topdiff
                         (map (heap_push rest) (all_combinations nameof false (snd e1) (snd e2)))))
                      (tick st))
            as (S2 & B2 & C2 & F2).
          -- intros c Hc. apply in_rev in Hc. apply sort_asc_In in Hc.
             apply in_map_iff in Hc. destruct Hc as (comb & <- & Hcomb).
             split; [eapply hfull_f_child; eassumption|].
             rewrite heap_push_length. cbn [length] in HL. lia.
          -- exact St.
          -- exact Ft.
          -- split; [exact S2|]. split; [exact B2|]. split; [|exact F2].
             intros e He. destruct (expands_f_cons2_leaf_inv _ _ _ _ He) as (c & Hc & Hex').
             eapply C2; [|exact Hex'].
             apply -> in_rev. apply sort_asc_In. apply in_map. exact Hc.
  Qed.

  Lemma fspec_all k its : nonneg its -> forall fuel, fspec k its fuel.
  Proof.
    intros Hpos. induction fuel as [|f IH]; apply fspec_step; try exact Hpos.
    - intros f E. discriminate.
    - intros f' E. injection E as <-. exact IH.
  Qed.

  (** ---- the run of the sums manager ---- *)
  Lemma leaf_key_full k its (e : @hentry A) : heap_full valueof k its [e] ->
    fst e = - (zmax (sums (snd e)) - zmin (sums (snd e))).
  Proof. intros (_ & Hs & Hk). apply leaf_key; [exact (Forall_inv Hs)|exact (Forall_inv Hk)]. Qed.

  Lemma ckk_false_run k items : (1 <= k)%nat -> items <> [] -> nonneg items ->
    exists e, heap_full valueof k items [e] /\
      ckk_part (ckk_run valueof nameof false true None k items) = Some (erase (snd e)) /\
      forall e', expands_all nameof (initial_heap valueof true k items) [e'] -> fst e' <= fst e.
  Proof.
    intros Hk Hne Hpos. unfold ckk_run. rewrite initial_heap_erase.
    destruct (fspec_all k items Hpos (length items) (erase_heap (initial_heap valueof true k items))
                (mk_ckk None None [] false O)) as (_ & _ & HC & HF).
    - exists (initial_heap valueof true k items). split; [reflexivity|apply initial_heap_full; exact Hk].
    - rewrite <- initial_heap_erase, initial_heap_length. lia.
    - intros H. discriminate H.
    - intros d H. discriminate H.
    - destruct (kk_partition valueof k items Hk Hne) as (b0 & _ & Hp0).
      destruct (expands_all_complete valueof nameof k items (sums b0) Hk Hne
                  (CKKOptimal.partition_attainable valueof k items b0 Hp0)) as (e0 & He0 & _).
      destruct (HC (erase_entry e0) (expands_all_f _ [e0] He0)) as (d & Hd & _).
      destruct (HF d Hd) as (e & Hfe & Hde & Hpart). exists e. split; [exact Hfe|]. split; [exact Hpart|].
      intros e' He'. destruct (HC (erase_entry e') (expands_all_f _ [e'] He')) as (d' & Hd' & Hle).
      rewrite Hd in Hd'. injection Hd' as <-. cbn [erase_entry fst] in Hle. lia.
  Qed.

  (** C01 for the sums manager: the reported sums are those of a genuine partition *)
  Theorem ckk_sums_partition : forall k items, (1 <= k)%nat -> items <> [] -> nonneg items ->
    exists bt, is_partition valueof k items bt /\ StronglySorted Z.le (sums bt) /\
               ckk valueof nameof false k items = Ok (erase bt).
  Proof.
    intros k items Hk Hne Hpos. destruct (ckk_false_run k items Hk Hne Hpos) as (e & Hfe & Hpart & _).
    exists (sort_bins (snd e)). split; [|split].
    - apply sort_bins_partition. apply single_heap_partition. exact (proj1 Hfe).
    - apply sort_bins_sorted.
    - unfold ckk. rewrite Hpart, sort_bins_erase. reflexivity.
  Qed.

  (** C02 for the sums manager (no hypothesis on names: it never looks at them) *)
  Theorem ckk_sums_optimal : forall k items b, (1 <= k)%nat -> items <> [] -> nonneg items ->
    ckk valueof nameof false k items = Ok b ->
    Opt MinDiff k (map valueof items) (value MinDiff (sums b) false).
  Proof.
    intros k items b Hk Hne Hpos Hckk.
    destruct (ckk_false_run k items Hk Hne Hpos) as (e & Hfe & Hpart & Hbest).
    unfold ckk in Hckk. rewrite Hpart in Hckk. injection Hckk as <-.
    assert (HP : Permutation (sums (sort_bins (erase (snd e)))) (sums (snd e))).
    { rewrite sort_bins_sums_perm, sums_erase. apply Permutation_refl. }
    cbn [value]. rewrite (zmax_perm _ _ HP), (zmin_perm _ _ HP).
    pose proof (leaf_key_full k items e Hfe) as Ke.
    split.
    - exists (sums (snd e)). split; [|reflexivity].
      apply CKKOptimal.partition_attainable. apply single_heap_partition. exact (proj1 Hfe).
    - intros s Hs.
      destruct (expands_all_complete valueof nameof k items s Hk Hne Hs) as (e' & He' & HPs).
      pose proof (Hbest e' He') as Hle.
      pose proof (expands_all_full k items _ _ He' (initial_heap_full valueof k items Hk)) as Hfe'.
      pose proof (leaf_key_full k items e' Hfe') as Ke'.
      cbn [value]. rewrite <- (zmax_perm _ _ HPs), <- (zmin_perm _ _ HPs). lia.
  Qed.

  Lemma Opt_unique o k vs v1 v2 : Opt o k vs v1 -> Opt o k vs v2 -> v1 = v2.
  Proof.
    intros [(s1 & A1 & E1) L1] [(s2 & A2 & E2) L2].
    pose proof (L1 s2 A2). pose proof (L2 s1 A1). lia.
  Qed.

  (** the two managers reach the same optimal difference *)
  Theorem ckk_erase_value : forall k items, (1 <= k)%nat -> items <> [] -> nonneg items ->
    names_ok valueof nameof items ->
    exists bt bf, ckk valueof nameof true k items = Ok bt /\ ckk valueof nameof false k items = Ok bf /\
                  is_partition valueof k items bt /\
                  zmax (sums bf) - zmin (sums bf) = zmax (sums bt) - zmin (sums bt).
  Proof.
    intros k items Hk Hne Hpos HN.
    destruct (ckk_partition valueof nameof k items Hk Hne) as (bt & Et & Hpt).
    destruct (ckk_sums_partition k items Hk Hne Hpos) as (bf' & _ & _ & Ef).
    exists bt, (erase bf'). split; [exact Et|]. split; [exact Ef|]. split; [exact Hpt|].
    pose proof (ckk_optimal valueof nameof k items bt Hk Hne Hpos HN Et) as O1.
    pose proof (ckk_sums_optimal k items _ Hk Hne Hpos Ef) as O2.
    exact (Opt_unique _ _ _ _ _ O2 O1).
  Qed.

  Lemma erase_eq_sums (x y : bins A) : sums x = sums y -> erase x = erase y.
  Proof.
    unfold sums, erase. revert y. induction x as [|a x IH]; intros [|b y] H; cbn [map] in *;
      try discriminate; [reflexivity|].
    injection H as H1 H2. rewrite H1. f_equal. apply IH. exact H2.
  Qed.

  Lemma sorted2_determined (a b c d : Z) :
    a <= b -> c <= d -> a + b = c + d -> zmax [a; b] - zmin [a; b] = zmax [c; d] - zmin [c; d] ->
    a = c /\ b = d.
  Proof. cbn [zmax zmin zmax_list zmin_list]. lia. Qed.

  (** with two bins the optimal difference determines the sums: the equation is exact *)
  Theorem ckk_erase_2 : forall items, nonneg items -> names_ok valueof nameof items ->
    rmap erase (ckk valueof nameof true 2 items) = ckk valueof nameof false 2 items.
  Proof.
    intros items Hpos HN. destruct items as [|x0 xs]; [reflexivity|].
    set (items := x0 :: xs) in *. assert (Hne : items <> []) by discriminate.
    assert (Hk : (1 <= 2)%nat) by lia.
    destruct (ckk_erase_value 2 items Hk Hne Hpos HN) as (bt & bf & Et & Ef & Hpt & Hd).
    destruct (ckk_sums_partition 2 items Hk Hne Hpos) as (bf' & Hpf & Hsf & Ef').
    rewrite Ef in Ef'. injection Ef' as ->. rewrite sums_erase in Hd.
    rewrite Et, Ef. cbn [rmap]. f_equal. apply erase_eq_sums.
    assert (Hst : StronglySorted Z.le (sums bt)).
    { unfold ckk in Et. destruct (ckk_part _) as [b|]; [|discriminate Et]. injection Et as <-.
      apply sort_bins_sorted. }
    destruct Hpt as (Pt & Lt & Wt). destruct Hpf as (Pf & Lf & Wf).
    pose proof (wf_total valueof bt Wt) as Tt. pose proof (wf_total valueof bf' Wf) as Tf.
    rewrite (zsum_perm _ _ (Permutation_map valueof Pt)) in Tt.
    rewrite (zsum_perm _ _ (Permutation_map valueof Pf)) in Tf.
    destruct bt as [|[a la] [|[b lb] [|? ?]]]; cbn [length] in Lt; try discriminate Lt.
    destruct bf' as [|[c lc] [|[d ld] [|? ?]]]; cbn [length] in Lf; try discriminate Lf.
    cbn [sums map fst] in *.
    inversion Hst as [|? ? _ Hab]; subst. inversion Hsf as [|? ? _ Hcd]; subst.
    pose proof (Forall_inv Hab) as Hab'. pose proof (Forall_inv Hcd) as Hcd'.
    cbn [zsum fold_right] in Tt, Tf.
    destruct (sorted2_determined a b c d Hab' Hcd') as [-> ->]; [lia|symmetry; exact Hd|reflexivity].
  Qed.
End CKKSums.

(** ---------------------------------------------------------------------------------- *)
(** * a. snp and rnp                                                                    *)
(** ---------------------------------------------------------------------------------- *)
(** Both algorithms only consult the manager through the sums, bin_of / the final
    concatenations, and the two-way ckk at the leaves; rnp's even case always runs the
    generator with a contents manager.  With [ckk_erase_2] for the leaves the erase
    equation is exact. *)
Section SNPErase.
  Context {A : Type} (valueof nameof : A -> Z).
  Local Notation nonneg := (Forall (fun x : A => 0 <= valueof x)).
  Local Notation vsum := (vsum valueof).

  Variable items0 : list A.
  Hypothesis Hpos0 : nonneg items0.
  Hypothesis HN0 : names_ok valueof nameof items0.

  (** the two-way base case on any sub-collection of the items *)
  Lemma ckk2_sub items' : incl items' items0 ->
    rmap erase (ckk valueof nameof true 2 items') = ckk valueof nameof false 2 items'.
  Proof.
    intros Hi. apply ckk_erase_2.
    - apply Forall_forall. intros x Hx. rewrite Forall_forall in Hpos0. apply Hpos0, Hi, Hx.
    - intros x y Hx Hy. apply HN0; apply Hi; assumption.
  Qed.

  Lemma distinct_in_order_incl : forall l seen, incl (distinct_in_order nameof l seen) l.
  Proof.
    induction l as [|x t IH]; intros seen y Hy; cbn [distinct_in_order] in Hy; [destruct Hy|].
    destruct (existsb (item_eqb nameof x) seen).
    - right. exact (IH _ _ Hy).
    - destruct Hy as [<-|Hy]; [left; reflexivity|right; exact (IH _ _ Hy)].
  Qed.

  Lemma find_diff_incl l1 l2 : incl (find_diff nameof l1 l2) l1.
  Proof.
    intros y Hy. unfold find_diff in Hy. apply in_flat_map in Hy. destruct Hy as (x & Hx & Hy).
    apply repeat_spec in Hy. subst y. exact (distinct_in_order_incl _ _ _ Hx).
  Qed.

  Lemma fold_add_keep keep l : forall b : bin A,
    fold_left (fun b x => add_to_bin valueof keep x b) l b =
    (fst b + vsum l, if keep then snd b ++ l else snd b).
  Proof.
    induction l as [|x t IH]; intros b; cbn [fold_left].
    - unfold InExTree.vsum. cbn [map zsum fold_right]. rewrite Z.add_0_r.
      destruct keep; [rewrite app_nil_r|]; destruct b; reflexivity.
    - rewrite IH. unfold add_to_bin, InExTree.vsum. cbn [fst snd map zsum fold_right].
      unfold zsum. f_equal; [lia|]. destruct keep; [rewrite <- app_assoc; reflexivity|reflexivity].
  Qed.

  Lemma bin_of_keep keep l : bin_of valueof keep l = (vsum l, if keep then l else []).
  Proof. unfold bin_of. rewrite fold_add_keep. destruct keep; reflexivity. Qed.

  Lemma erase_app (b1 b2 : bins A) : erase (b1 ++ b2) = erase b1 ++ erase b2.
  Proof. unfold erase. apply map_app. Qed.

  Lemma erase_snoc_bin_of (prior : bins A) cur :
    erase (prior ++ [bin_of valueof true cur]) = erase prior ++ [bin_of valueof false cur].
  Proof. rewrite erase_app, !bin_of_keep. reflexivity. Qed.

  Lemma bins_spread_erase (b : bins A) : bins_spread (erase b) = bins_spread b.
  Proof. unfold bins_spread. rewrite sums_erase. reflexivity. Qed.

  (** ---- snp ---- *)
  Lemma snp_rec_2 keep prior items best :
    snp_rec valueof nameof keep 2 prior items best =
    match ckk valueof nameof keep 2 items with
    | Ok two => if spread (sums two ++ sums prior) <? bins_spread best then two ++ prior else best
    | Err _ => best
    end.
  Proof. reflexivity. Qed.

  Lemma snp_rec_3 keep n prior items best :
    snp_rec valueof nameof keep (S (S (S n))) prior items best =
    snp_dfs valueof
      (fun cur b => snp_rec valueof nameof keep (S (S n)) (prior ++ [bin_of valueof keep cur])
                      (find_diff nameof items cur) b)
      (Z.of_nat (S (S (S n)))) (vsum items) (sort_desc valueof items) [] best.
  Proof. reflexivity. Qed.

  Lemma snp_dfs_erase next_t next_f kz t :
    (forall cur b, erase (next_t cur b) = next_f cur (erase b)) ->
    forall rest cur b,
      erase (snp_dfs valueof next_t kz t rest cur b) = snp_dfs valueof next_f kz t rest cur (erase b).
  Proof.
    intros Hn. induction rest as [|x r IH]; intros cur b.
    - rewrite !snp_dfs_nil. unfold dfs_pruned. rewrite bins_spread_erase.
      destruct (_ || _); [reflexivity|apply Hn].
    - rewrite !snp_dfs_cons. unfold dfs_pruned. rewrite bins_spread_erase.
      destruct (_ || _); [reflexivity|]. rewrite IH, IH. reflexivity.
  Qed.

  Lemma snp_rec_erase : forall kc prior items' best, incl items' items0 ->
    erase (snp_rec valueof nameof true kc prior items' best) =
    snp_rec valueof nameof false kc (erase prior) items' (erase best).
  Proof.
    induction kc as [|kc IH]; intros prior items' best Hi; [reflexivity|].
    destruct kc as [|[|n]]; [reflexivity| |].
    - rewrite !snp_rec_2, <- (ckk2_sub items' Hi).
      destruct (ckk valueof nameof true 2 items') as [two|e]; cbn [rmap]; [|reflexivity].
      rewrite !sums_erase, bins_spread_erase.
      destruct (_ <? _); [apply erase_app|reflexivity].
    - rewrite !snp_rec_3. apply snp_dfs_erase. intros cur b.
      rewrite IH; [|eapply incl_tran; [apply find_diff_incl|exact Hi]].
      rewrite erase_snoc_bin_of. reflexivity.
  Qed.

  (** ---- rnp ---- *)
  Definition rnp_next_odd (keep : bool) (f kc : nat) (isfloat : bool) (prior : bins A) (items : list A)
             (cur : list A) (best : bins A) : result (bins A) :=
    if isfloat && negb (Nat.eqb (length cur) 0) then Err IndexError
    else
      let prior' := prior ++ [bin_of valueof keep cur] in
      match rnp_rec valueof nameof keep f (kc - 1) isfloat prior' (find_diff nameof items cur) best with
      | Err e => Err e
      | Ok nb =>
          if spread (sums nb ++ sums prior') <? bins_spread best
          then Ok (prior' ++ nb) else Ok best
      end.

  Definition rnp_step_even (keep : bool) (f kc : nat) (prior : bins A) (d0 : Z)
             (acc : result (bins A)) (part : bins A) : result (bins A) :=
    match acc with
    | Err e => Err e
    | Ok best =>
        let l1 := snd (nth 0 part empty_bin) in
        let l2 := snd (nth 1 part empty_bin) in
        match rnp_rec valueof nameof keep f (Nat.div kc 2) true prior l1 best with
        | Err e => Err e
        | Ok nb1 =>
            match rnp_rec valueof nameof keep f (Nat.div kc 2) true prior l2 best with
            | Err e => Err e
            | Ok nb2 =>
                if spread (sums nb1 ++ sums nb2) <? d0 then Ok (nb1 ++ nb2) else Ok best
            end
        end
    end.

  Lemma rnp_rec_S keep f kc isfloat prior items best :
    rnp_rec valueof nameof keep (S f) kc isfloat prior items best =
    if Nat.eqb kc 2 then ckk valueof nameof keep 2 items
    else if Nat.odd kc then
      rnp_dfs valueof (rnp_next_odd keep f kc isfloat prior items)
              (Z.of_nat kc) (vsum items) (bins_spread best) (sort_desc valueof items) [] best
    else
      fold_left (rnp_step_even keep f kc prior (bins_spread best))
                (ckk_generator valueof nameof true 2 items (Some (- bins_spread best))) (Ok best).
  Proof. reflexivity. Qed.

  Lemma rnp_dfs_erase next_t next_f kz t d0 :
    (forall cur b, rmap erase (next_t cur b) = next_f cur (erase b)) ->
    forall rest cur b,
      rmap erase (rnp_dfs valueof next_t kz t d0 rest cur b) =
      rnp_dfs valueof next_f kz t d0 rest cur (erase b).
  Proof.
    intros Hn. induction rest as [|x r IH]; intros cur b; cbn [rnp_dfs];
      destruct (_ || _); try reflexivity; [apply Hn|].
    rewrite <- IH. destruct (rnp_dfs valueof next_t kz t d0 r (cur ++ [x]) b) as [b1|e]; cbn [rmap];
      [apply IH|reflexivity].
  Qed.

  Lemma nth_snd_incl (part : bins A) : forall i, incl (snd (nth i part empty_bin)) (contents part).
  Proof.
    induction part as [|bn t IH]; intros i x Hx.
    - destruct i; destruct Hx.
    - rewrite contents_cons. apply in_or_app. destruct i as [|j]; cbn [nth] in Hx; [left; exact Hx|].
      right. exact (IH j x Hx).
  Qed.

  Lemma generator_parts_incl items' init part : incl items' items0 ->
    In part (ckk_generator valueof nameof true 2 items' init) ->
    forall i, incl (snd (nth i part empty_bin)) items0.
  Proof.
    intros Hi Hp i. pose proof (ckk_generator_valid_any valueof nameof 2 items' init part) as HV.
    destruct HV as (HP & _ & _); [lia|exact Hp|].
    intros x Hx. apply Hi. eapply Permutation_in; [exact HP|]. exact (nth_snd_incl part i x Hx).
  Qed.

  Lemma rnp_rec_erase : forall fuel kc isfloat prior items' best, incl items' items0 ->
    rmap erase (rnp_rec valueof nameof true fuel kc isfloat prior items' best) =
    rnp_rec valueof nameof false fuel kc isfloat (erase prior) items' (erase best).
  Proof.
    induction fuel as [|f IH]; intros kc isfloat prior items' best Hi; [reflexivity|].
    rewrite !rnp_rec_S, bins_spread_erase.
    destruct (Nat.eqb kc 2); [apply ckk2_sub; exact Hi|].
    destruct (Nat.odd kc).
    - apply rnp_dfs_erase. intros cur b. unfold rnp_next_odd.
      destruct (isfloat && negb (Nat.eqb (length cur) 0)); [reflexivity|]. cbv zeta.
      rewrite <- erase_snoc_bin_of, <- IH by (eapply incl_tran; [apply find_diff_incl|exact Hi]).
      destruct (rnp_rec valueof nameof true f (kc - 1) isfloat _ _ b) as [nb|e]; cbn [rmap]; [|reflexivity].
      rewrite !sums_erase, bins_spread_erase.
      destruct (_ <? _); cbn [rmap]; [rewrite erase_app|]; reflexivity.
    - generalize (generator_parts_incl items' (Some (- bins_spread best)) ) as Hparts.
      generalize (ckk_generator valueof nameof true 2 items' (Some (- bins_spread best))) as parts.
      intros parts Hparts.
      assert (G : forall acc_t acc_f, rmap erase acc_t = acc_f ->
                  rmap erase (fold_left (rnp_step_even true f kc prior (bins_spread best)) parts acc_t) =
                  fold_left (rnp_step_even false f kc (erase prior) (bins_spread best)) parts acc_f).
      { induction parts as [|part ps IHp]; intros acc_t acc_f Eacc; cbn [fold_left]; [exact Eacc|].
        apply IHp; [intros part' Hi' Hp'; apply Hparts; [exact Hi'|right; exact Hp']|].
        subst acc_f. destruct acc_t as [b|e]; cbn [rmap rnp_step_even]; [|reflexivity]. cbv zeta.
        pose proof (Hparts part Hi (or_introl eq_refl)) as Hl.
        rewrite <- (IH _ true prior _ b (Hl 0%nat)), <- (IH _ true prior _ b (Hl 1%nat)).
        destruct (rnp_rec valueof nameof true f (Nat.div kc 2) true prior (snd (nth 0 part empty_bin)) b)
          as [nb1|e1]; cbn [rmap]; [|reflexivity].
        destruct (rnp_rec valueof nameof true f (Nat.div kc 2) true prior (snd (nth 1 part empty_bin)) b)
          as [nb2|e2]; cbn [rmap]; [|reflexivity].
        rewrite !sums_erase. destruct (_ <? _); cbn [rmap]; [rewrite erase_app|]; reflexivity. }
      apply G. reflexivity.
  Qed.
End SNPErase.

Theorem snp_erase {A} (valueof nameof : A -> Z) : forall k items,
  Forall (fun x => 0 <= valueof x) items -> names_ok valueof nameof items ->
  rmap erase (snp valueof nameof true k items) = snp valueof nameof false k items.
Proof.
  intros k items Hpos HN. unfold snp. rewrite <- (kk_erase valueof k items).
  destruct (kk valueof true k items) as [best|e]; cbn [rmap]; [|reflexivity].
  rewrite (bins_spread_erase best). destruct (bins_spread best =? 0); cbn [rmap]; [reflexivity|].
  f_equal. apply (snp_rec_erase valueof nameof items Hpos HN k [] items best). apply incl_refl.
Qed.

Theorem rnp_erase {A} (valueof nameof : A -> Z) : forall k items,
  Forall (fun x => 0 <= valueof x) items -> names_ok valueof nameof items ->
  rmap erase (rnp valueof nameof true k items) = rnp valueof nameof false k items.
Proof.
  intros k items Hpos HN. unfold rnp. rewrite <- (kk_erase valueof k items).
  destruct (kk valueof true k items) as [best|e]; cbn [rmap]; [|reflexivity].
  rewrite (bins_spread_erase best). destruct (bins_spread best =? 0); cbn [rmap]; [reflexivity|].
  apply (rnp_rec_erase valueof nameof items Hpos HN (S k) k false [] items best). apply incl_refl.
Qed.

(** ---------------------------------------------------------------------------------- *)
(** * c. C06 for ckk, snp, rnp                                                          *)
(** ---------------------------------------------------------------------------------- *)
Section InstancesCKK.
  Context {A : Type} (valueof nameof : A -> Z).
  Local Notation nonneg := (Forall (fun x : A => 0 <= valueof x)).

  (** two bins: every sums-family output *)
  Theorem C06_ckk_2 : forall o items, keeps o = false -> nonneg items -> names_ok valueof nameof items ->
    run_output_r o (fun keep => ckk valueof nameof keep 2 items) =
    rmap (fun b => derive o (sums b)) (ckk valueof nameof true 2 items).
  Proof.
    intros o items Hk Hpos HN.
    apply (C06_schema_r (fun keep => ckk valueof nameof keep 2 items)); [|exact Hk].
    apply ckk_erase_2; assumption.
  Qed.

  (** any number of bins: the Difference output (and the bin count) *)
  Theorem C06_ckk_difference : forall k items, (1 <= k)%nat -> items <> [] -> nonneg items ->
    names_ok valueof nameof items ->
    run_output_r ODifference (fun keep => ckk valueof nameof keep k items) =
    rmap (fun b => derive ODifference (sums b)) (ckk valueof nameof true k items).
  Proof.
    intros k items Hk Hne Hpos HN. unfold run_output_r. cbn [keeps].
    destruct (ckk_erase_value valueof nameof k items Hk Hne Hpos HN) as (bt & bf & Et & Ef & _ & Hd).
    rewrite Ef, Et. cbn [rmap extract derive]. rewrite Hd. reflexivity.
  Qed.

  Theorem C06_ckk_bincount : forall k items, (1 <= k)%nat -> items <> [] -> nonneg items ->
    run_output_r OBinCount (fun keep => ckk valueof nameof keep k items) =
    rmap (fun b => derive OBinCount (sums b)) (ckk valueof nameof true k items).
  Proof.
    intros k items Hk Hne Hpos. unfold run_output_r. cbn [keeps].
    destruct (ckk_partition valueof nameof k items Hk Hne) as (bt & Et & (_ & Lt & _)).
    destruct (ckk_sums_partition valueof nameof k items Hk Hne Hpos) as (bf & (_ & Lf & _) & _ & Ef).
    rewrite Ef, Et. cbn [rmap extract derive]. rewrite sums_erase. unfold sums. rewrite !map_length.
    f_equal. f_equal. transitivity k; [exact Lf|symmetry; exact Lt].
  Qed.

  Theorem C06_snp : forall o k items, keeps o = false -> nonneg items -> names_ok valueof nameof items ->
    run_output_r o (fun keep => snp valueof nameof keep k items) =
    rmap (fun b => derive o (sums b)) (snp valueof nameof true k items).
  Proof.
    intros o k items Hk Hpos HN.
    apply (C06_schema_r (fun keep => snp valueof nameof keep k items)); [|exact Hk].
    apply snp_erase; assumption.
  Qed.

  Theorem C06_rnp : forall o k items, keeps o = false -> nonneg items -> names_ok valueof nameof items ->
    run_output_r o (fun keep => rnp valueof nameof keep k items) =
    rmap (fun b => derive o (sums b)) (rnp valueof nameof true k items).
  Proof.
    intros o k items Hk Hpos HN.
    apply (C06_schema_r (fun keep => rnp valueof nameof keep k items)); [|exact Hk].
    apply rnp_erase; assumption.
  Qed.
End InstancesCKK.

(** ---------------------------------------------------------------------------------- *)
(** * counterexamples and the generator                                                 *)
(** ---------------------------------------------------------------------------------- *)
Definition zid (x : Z) : Z := x.
Definition named : Type := (Z * Z)%type.      (* (name, value) *)
Definition nm (x : named) : Z := fst x.
Definition vl (x : named) : Z := snd x.

(** [names_ok] cannot be dropped: when all items carry the same name the contents manager
    merges combinations with different sums and misses the optimum, while the sums manager
    (which never looks at names) finds it *)
Example ckk_erase_needs_names_ok :
  rmap erase (ckk zid (fun _ => 0) true 2 [4; 5; 6; 7; 8]) = Ok [(12, []); (18, [])] /\
  ckk zid (fun _ => 0) false 2 [4; 5; 6; 7; 8] = Ok [(15, []); (15, [])].
Proof. vm_compute. split; reflexivity. Qed.

Example snp_erase_needs_names_ok :
  rmap erase (snp zid (fun _ => 0) true 2 [4; 5; 6; 7; 8]) = Ok [(14, []); (16, [])] /\
  snp zid (fun _ => 0) false 2 [4; 5; 6; 7; 8] = Ok [(15, []); (15, [])].
Proof. vm_compute. split; reflexivity. Qed.

Example rnp_erase_needs_names_ok :
  rmap erase (rnp zid (fun _ => 0) true 2 [4; 5; 6; 7; 8]) = Ok [(12, []); (18, [])] /\
  rnp zid (fun _ => 0) false 2 [4; 5; 6; 7; 8] = Ok [(15, []); (15, [])].
Proof. vm_compute. split; reflexivity. Qed.

(** the two searches are different even when the answers agree: numbers of heaps popped *)
Example ckk_managers_search_differently :
  ckk_nodes (ckk_run zid zid true true None 3 [1; 1; 1; 2; 3; 3; 5]) = 19%nat /\
  ckk_nodes (ckk_run zid zid false true None 3 [1; 1; 1; 2; 3; 3; 5]) = 16%nat /\
  rmap erase (ckk zid zid true 3 [1; 1; 1; 2; 3; 3; 5]) = ckk zid zid false 3 [1; 1; 1; 2; 3; 3; 5].
Proof. vm_compute. repeat split; reflexivity. Qed.

(** ckk_generator.  With an explicit bound (the mode used by rnp) every partition better
    than the bound is yielded; the contents manager yields partitions that differ only in
    their contents separately, the sums manager yields each vector of sums once: the
    equation  map erase (generator true) = generator false  is FALSE, even with two bins,
    distinct names and positive values. *)
Definition gen_items : list named := [(1, 1); (2, 1); (3, 2); (4, 2); (5, 3)].

Example ckk_generator_erase_false_bounded :
  length (ckk_generator vl nm true 2 gen_items (Some (-10))) = 16%nat /\
  length (ckk_generator vl nm false 2 gen_items (Some (-10))) = 15%nat.
Proof. vm_compute. split; reflexivity. Qed.

(** In the default mode (bound -inf) only strict improvements are yielded and the equation
    held on every input tried (all lists of 5..6 named items with values in 1..4, 2..4 bins).
    OPEN: forall k items, nonneg items -> names_ok items ->
            map erase (ckk_generator valueof nameof true k items None) =
            ckk_generator valueof nameof false k items None.
    (The last element of both lists is related by [ckk_erase_2] / [ckk_erase_value], since
    ckk returns the last yield; the earlier yields depend on the order in which subtrees
    with tied keys are visited, which differs between the managers.) *)
Example ckk_generator_default_example :
  map erase (ckk_generator vl nm true 3 gen_items None) = ckk_generator vl nm false 3 gen_items None /\
  ckk_generator vl nm false 3 gen_items None = [[(3, []); (3, []); (3, [])]].
Proof. vm_compute. split; reflexivity. Qed.

(** ---------------------------------------------------------------------------------- *)
(** * examples (concrete runs; several are the doctests of the adaptors)                *)
(** ---------------------------------------------------------------------------------- *)

(** b. extractors *)
Example ex_extract :
  let b : bins Z := [(11, [7; 4]); (8, [8]); (11, [6; 5])] in
  extract OSums (erase b) = OutSums [11; 8; 11] /\
  extract OSorted (erase b) = OutSums [8; 11; 11] /\
  extract OLargest (erase b) = OutNum 11 /\
  extract OSmallest (erase b) = OutNum 8 /\
  extract OExtreme (erase b) = OutPair 8 11 /\
  extract ODifference (erase b) = OutNum 3 /\
  extract OBinCount (erase b) = OutCount 3 /\
  extract OPartition b = OutLists [[7; 4]; [8]; [6; 5]] /\
  extract OPartition (erase b) = OutLists [[]; []; []].
Proof. vm_compute. repeat split; reflexivity. Qed.

(** d. sums are the totals of the lists *)
Example ex_wf :
  let b : bins Z := [(11, [7; 4]); (8, [8]); (11, [6; 5])] in
  wf zid b /\ sums (erase b) = map (fun l => zsum (map zid l)) (lists b).
Proof. split; [repeat constructor|reflexivity]. Qed.

(** c. partitioning *)
Example ex_greedy :
  run_partition OSorted (@greedy Z) zid 3 [4; 5; 6; 7; 8] = OutSums [8; 11; 11] /\
  run_partition OPartitionAndSums (@greedy Z) zid 3 [4; 5; 6; 7; 8] =
    OutBins [(8, [8]); (11, [7; 4]); (11, [6; 5])].
Proof. vm_compute. split; reflexivity. Qed.

Example ex_roundrobin :
  run_partition OExtreme (@roundrobin Z) zid 3 [4; 5; 6; 7; 8] = OutPair 6 13 /\
  run_partition OPartition (@roundrobin Z) zid 3 [4; 5; 6; 7; 8] = OutLists [[8; 5]; [7; 4]; [6]].
Proof. vm_compute. split; reflexivity. Qed.

Example ex_kk :
  run_partition_r ODifference (@kk Z) zid 3 [4; 5; 6; 7; 8] = Ok (OutNum 3) /\
  run_partition_r OPartitionAndSums (@kk Z) zid 3 [4; 5; 6; 7; 8] =
    Ok (OutBins [(8, [8]); (11, [4; 7]); (11, [5; 6])]).
Proof. vm_compute. split; reflexivity. Qed.

Example ex_cg :
  run_output_o OSorted (fun keep => cg zid keep MinLargest (mk_flags true true true true) None 3 [4; 5; 6; 7; 8])
    = Some (OutSums [8; 11; 11]) /\
  run_output_o OPartitionAndSums
    (fun keep => cg zid keep MinLargest (mk_flags true true true true) None 3 [4; 5; 6; 7; 8])
    = Some (OutBins [(8, [8]); (11, [7; 4]); (11, [6; 5])]).
Proof. vm_compute. split; reflexivity. Qed.

(** partition(algorithm=dp, numbins=3, items=[1,2,3,3,5,9,9], outputtype=LargestSum) = 11 *)
Example ex_dp :
  run_output_r OLargest (fun keep => dp zid keep MinDiff 3 [1; 2; 3; 3; 5; 9; 9]) = Ok (OutNum 11) /\
  run_output_r OPartition (fun keep => dp zid keep MinDiff 3 [1; 2; 3; 3; 5; 9; 9]) =
    Ok (OutLists [[1; 9]; [2; 9]; [3; 3; 5]]).
Proof. vm_compute. split; reflexivity. Qed.

(** partition(optimal, 2, {"a":1,"b":2,"c":3,"d":3,"e":5,"f":9,"g":9}, outputtype=Sums) = [16,16];
    partition(optimal, 3, the same) = [['a','g'],['c','d','e'],['b','f']] *)
Definition items_ag : list named := [(1, 1); (2, 2); (3, 3); (4, 3); (5, 5); (6, 9); (7, 9)].

Example ex_ckk :
  run_output_r OSums (fun keep => ckk vl nm keep 2 items_ag) = Ok (OutSums [16; 16]) /\
  run_output_r OSums (fun keep => ckk vl nm keep 3 items_ag) = Ok (OutSums [10; 11; 11]) /\
  run_output_r OPartition (fun keep => ckk vl nm keep 3 items_ag) =
    Ok (OutLists [[(1, 1); (7, 9)]; [(3, 3); (4, 3); (5, 5)]; [(2, 2); (6, 9)]]).
Proof. vm_compute. repeat split; reflexivity. Qed.

Example ex_snp_rnp :
  run_output_r OSums (fun keep => snp vl nm keep 3 items_ag) = Ok (OutSums [10; 11; 11]) /\
  run_output_r OPartitionAndSums (fun keep => snp vl nm keep 3 items_ag) =
    Ok (OutBins [(10, [(1, 1); (6, 9)]); (11, [(2, 2); (7, 9)]); (11, [(4, 3); (5, 5); (3, 3)])]) /\
  run_output_r OSorted (fun keep => rnp vl nm keep 3 items_ag) = Ok (OutSums [10; 11; 11]) /\
  run_output_r OPartitionAndSums (fun keep => rnp vl nm keep 3 items_ag) =
    Ok (OutBins [(10, [(1, 1); (6, 9)]); (11, [(2, 2); (7, 9)]); (11, [(4, 3); (5, 5); (3, 3)])]).
Proof. vm_compute. repeat split; reflexivity. Qed.

Example ex_cbldm :
  cbldm zid 2 [8; 7; 6; 5; 4] true 1 true None = Ok (CbBins [(15, [4; 6; 5]); (15, [8; 7])], 15%nat) /\
  run_output ODifference (fun _ : bool => [(15, [4; 6; 5]); (15, [8; 7])]) = OutNum 0.
Proof. vm_compute. split; reflexivity. Qed.

(** c. packing: the doctests of packing/adaptors.py *)
Definition ffd_items : list Z := [44; 24; 24; 22; 21; 17; 8; 8; 6; 6].

Example ex_ffd :
  run_pack_r OBinCount (@first_fit_decreasing Z) zid 60 ffd_items = Ok (OutCount 3) /\
  run_pack_r OBinCount (@first_fit_decreasing Z) zid 61 ffd_items = Ok (OutCount 4) /\
  run_pack_r OSums (@first_fit_decreasing Z) zid 60 ffd_items = Ok (OutSums [60; 60; 60]) /\
  run_pack_r OPartition (@first_fit_decreasing Z) zid 60 ffd_items =
    Ok (OutLists [[44; 8; 8]; [24; 24; 6; 6]; [22; 21; 17]]).
Proof. vm_compute. repeat split; reflexivity. Qed.

Example ex_fit :
  run_pack_r OSums (@first_fit Z) zid 10 [5; 7; 5; 2; 4; 2; 5; 1; 6] = Ok (OutSums [10; 10; 6; 5; 6]) /\
  run_pack_r OLargest (@first_fit Z) zid 10 [5; 7; 5; 2; 4; 2; 5; 1; 11] = Err ValueError /\
  run_pack_r OPartition (@first_fit Z) zid 10 [5; 7; 5; 2; 4; 2; 5; 1; 11] = Err ValueError /\
  run_pack_r OSums (@best_fit Z) zid 10 [5; 7; 5; 2; 4; 2; 5; 1; 6] = Ok (OutSums [10; 10; 6; 5; 6]) /\
  run_pack_r OPartition (@best_fit Z) zid 10 [5; 7; 5; 2; 4; 2; 5; 1; 6] =
    Ok (OutLists [[5; 5]; [7; 2; 1]; [4; 2]; [5]; [6]]) /\
  run_pack_r OBinCount (@best_fit_decreasing Z) zid 10 [5; 7; 5; 2; 4; 2; 5; 1; 6] = Ok (OutCount 4).
Proof. vm_compute. repeat split; reflexivity. Qed.

Example ex_bin_completion :
  run_output_r OBinCount (fun keep => bin_completion keep 100 1000 [99; 97; 94; 93; 8; 5; 4; 2]) =
    Ok (OutCount 5) /\
  run_output_r OPartition (fun keep => bin_completion keep 100 1000 [99; 97; 94; 93; 8; 5; 4; 2]) =
    Ok (OutLists [[99]; [97; 2]; [94; 5]; [93; 4]; [8]]).
Proof. vm_compute. split; reflexivity. Qed.

Example ex_cover :
  run_pack OSums (@cover_decreasing Z) zid 10 [5; 7; 5; 2; 4; 2; 5; 1; 6] = OutSums [13; 10; 11] /\
  run_pack OPartition (@cover_decreasing Z) zid 10 [5; 7; 5; 2; 4; 2; 5; 1; 6] =
    OutLists [[7; 6]; [5; 5]; [5; 4; 2]] /\
  run_pack OSmallest (@cover_twothirds Z) zid 10 [5; 7; 5; 2; 4; 2; 5; 1; 6] = OutNum 10 /\
  run_pack OPartitionAndSums (@cover_twothirds Z) zid 10 [5; 7; 5; 2; 4; 2; 5; 1; 6] =
    OutBins [(10, [7; 1; 2]); (12, [6; 2; 4]); (10, [5; 5])] /\
  run_pack OBinCount (@cover_threequarters Z) zid 10 [5; 7; 5; 2; 4; 2; 5; 1; 6] = OutCount 3 /\
  run_pack OPartitionAndSums (@cover_threequarters Z) zid 10 [5; 7; 5; 2; 4; 2; 5; 1; 6] =
    OutBins [(10, [7; 1; 2]); (13, [6; 2; 5]); (10, [5; 5])].
Proof. vm_compute. repeat split; reflexivity. Qed.

(** ---------------------------------------------------------------------------------- *)
Check sums_erase. Check length_erase. Check lists_erase.
Check extract_derive. Check extract_erase. Check extract_erase_same. Check derive_sorted.
Check extract_erase_OSums. Check extract_erase_OLargest. Check extract_erase_OSmallest.
Check extract_erase_OExtreme. Check extract_erase_OSorted. Check extract_erase_ODifference.
Check extract_erase_OBinCount.
Check wf_erase_sums. Check wf_sums_lists. Check wf_erase_sums_lists.
Check C06_schema. Check C06_schema_extract. Check C06_schema_observed. Check C06_schema_lists.
Check C06_schema_r. Check C06_schema_r_ok. Check C06_schema_r_err. Check C06_schema_o. Check C06_schema_const.
Check C06_greedy. Check C06_roundrobin. Check C06_kk. Check C06_cg. Check C06_dp.
Check C06_first_fit. Check C06_first_fit_decreasing. Check C06_best_fit. Check C06_best_fit_decreasing.
Check C06_bin_completion.
Check C06_cover_decreasing. Check C06_cover_twothirds. Check C06_cover_threequarters.
Check C06_greedy_lists. Check C06_cbldm.
Check all_combinations_false_in. Check ckk_bound_admissible_all.
Check ckk_sums_partition. Check ckk_sums_optimal. Check ckk_erase_value. Check ckk_erase_2.
Check snp_erase. Check rnp_erase.
Check C06_ckk_2. Check C06_ckk_difference. Check C06_ckk_bincount. Check C06_snp. Check C06_rnp.

Print Assumptions sums_erase.
Print Assumptions length_erase.
Print Assumptions extract_derive.
Print Assumptions extract_erase.
Print Assumptions extract_erase_same.
Print Assumptions derive_sorted.
Print Assumptions wf_erase_sums.
Print Assumptions wf_sums_lists.
Print Assumptions C06_schema.
Print Assumptions C06_schema_observed.
Print Assumptions C06_schema_lists.
Print Assumptions C06_schema_r.
Print Assumptions C06_schema_o.
Print Assumptions C06_schema_const.
Print Assumptions C06_greedy.
Print Assumptions C06_roundrobin.
Print Assumptions C06_kk.
Print Assumptions C06_cg.
Print Assumptions C06_dp.
Print Assumptions C06_first_fit.
Print Assumptions C06_first_fit_decreasing.
Print Assumptions C06_best_fit.
Print Assumptions C06_best_fit_decreasing.
Print Assumptions C06_bin_completion.
Print Assumptions C06_cover_decreasing.
Print Assumptions C06_cover_twothirds.
Print Assumptions C06_cover_threequarters.
Print Assumptions C06_greedy_lists.
Print Assumptions C06_cbldm.
Print Assumptions ckk_sums_partition.
Print Assumptions ckk_sums_optimal.
Print Assumptions ckk_erase_value.
Print Assumptions ckk_erase_2.
Print Assumptions snp_erase.
Print Assumptions rnp_erase.
Print Assumptions C06_ckk_2.
Print Assumptions C06_ckk_difference.
Print Assumptions C06_ckk_bincount.
Print Assumptions C06_snp.
Print Assumptions C06_rnp.
