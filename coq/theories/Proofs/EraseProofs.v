(** Property C06: choosing a cheaper (sums-only) output type never changes the answer, and
    every derived output (sums, sorted sums, largest, smallest, extreme sums, difference,
    bin count) equals what one computes from the full partition output.

    The per-algorithm facts  erase (X valueof true args) = X valueof false args  are proved
    next to each algorithm and are only re-used here:
      greedy_erase, roundrobin_erase (GreedyProofs); ff_erase, ffd_erase, bf_erase, bfd_erase
      (PackingProofs); dec_erase, tt_erase, tq_erase (CoveringProofs); dp_erase (DPProofs);
      kk_erase (KKProofs); cg_erase (CGProofs); bc_erase (BCProofs).
    New here: the output-type layer (Model/Output.v), the C06 schema and its instances, and
    the analysis of ckk / ckk_generator / snp / rnp, whose two managers de-duplicate
    combinations differently (by item names vs. by sums) but, since the children of a CKK node
    are de-duplicated by their sums, explore the same search tree. *)
From Prtpy Require Import Base.Prelude Base.Perms Model.Binner Model.Objectives Model.Greedy Model.Packing
  Model.Covering Model.KK Model.CG Model.DP Model.CBLDM Model.InExTree Model.SNP Model.BinCompletion
  Model.Output Spec.Partition
  Proofs.BaseLemmas Proofs.BinnerLemmas Proofs.EnumProofs Proofs.GreedyProofs Proofs.PackingProofs
  Proofs.CoveringProofs Proofs.DPProofs Proofs.KKProofs Proofs.CGProofs Proofs.BCProofs
  Proofs.CKKOptimal Proofs.SNPProofs Proofs.ObjectivesProofs.
From Coq Require Import Sorting.Sorted ZifyBool.

(** ---------------------------------------------------------------------------------- *)
(** * b. erase and the output extractors                                                *)
(** ---------------------------------------------------------------------------------- *)
Section Extract.
  Context {A : Type}.

  Lemma sums_erase (b : bins A) : sums (erase b) = sums b.
  Proof. apply erase_sums. Qed.

  Lemma length_erase (b : bins A) : length (erase b) = length b.
  Proof. apply erase_length. Qed.

  (** what the sums-only manager reports as contents: nothing *)
  Lemma lists_erase (b : bins A) : lists (erase b) = repeat [] (length b).
  Proof.
    unfold lists, erase. rewrite map_map. cbn [snd].
    induction b as [|bn t IH]; cbn [map length repeat]; [reflexivity|]. rewrite IH. reflexivity.
  Qed.

  Lemma erase_idem (b : bins A) : erase (erase b) = erase b.
  Proof. unfold erase. rewrite map_map. reflexivity. Qed.

  (** on a sums-family type, extract_output_from_binsarray is the documented function of
      the sums and ignores the contents *)
  Lemma extract_derive (o : outtype) (b : bins A) :
    keeps o = false -> extract o b = derive o (sums b).
  Proof. destruct o; intros Hk; try discriminate Hk; reflexivity. Qed.

  Lemma extract_erase (o : outtype) (b : bins A) :
    keeps o = false -> extract o (erase b) = derive o (sums b).
  Proof. intros Hk. rewrite (extract_derive o (erase b) Hk), sums_erase. reflexivity. Qed.

  Lemma extract_erase_same (o : outtype) (b : bins A) :
    keeps o = false -> extract o (erase b) = extract o b.
  Proof. intros Hk. rewrite extract_erase, extract_derive; [reflexivity|exact Hk|exact Hk]. Qed.

  (** the same, spelled out for each of the seven sums-family types *)
  Lemma extract_erase_OSums (b : bins A) : extract OSums (erase b) = OutSums (sums b).
  Proof. apply (extract_erase OSums). reflexivity. Qed.
  Lemma extract_erase_OLargest (b : bins A) : extract OLargest (erase b) = OutNum (zmax (sums b)).
  Proof. apply (extract_erase OLargest). reflexivity. Qed.
  Lemma extract_erase_OSmallest (b : bins A) : extract OSmallest (erase b) = OutNum (zmin (sums b)).
  Proof. apply (extract_erase OSmallest). reflexivity. Qed.
  Lemma extract_erase_OExtreme (b : bins A) :
    extract OExtreme (erase b) = OutPair (zmin (sums b)) (zmax (sums b)).
  Proof. apply (extract_erase OExtreme). reflexivity. Qed.
  Lemma extract_erase_OSorted (b : bins A) :
    extract OSorted (erase b) = OutSums (sort_asc (fun x => x) (sums b)).
  Proof. apply (extract_erase OSorted). reflexivity. Qed.
  Lemma extract_erase_ODifference (b : bins A) :
    extract ODifference (erase b) = OutNum (zmax (sums b) - zmin (sums b)).
  Proof. apply (extract_erase ODifference). reflexivity. Qed.
  Lemma extract_erase_OBinCount (b : bins A) : extract OBinCount (erase b) = OutCount (length b).
  Proof.
    rewrite (extract_erase OBinCount b eq_refl). cbn [derive]. unfold sums. rewrite map_length. reflexivity.
  Qed.

  (** the Partition family returns the bins-array as it is *)
  Lemma extract_OPartition (b : bins A) : extract OPartition b = OutLists (lists b).
  Proof. reflexivity. Qed.
  Lemma extract_OPartitionAndSums (b : bins A) : extract OPartitionAndSums b = OutBins b.
  Proof. reflexivity. Qed.

  (** the derived outputs are mutually consistent: everything follows from the sorted sums
      (this is how compare_algorithms uses them: SortedSums first, then
      outputtype.extract_output_from_sums) *)
  Lemma derive_sorted (o : outtype) (s : list Z) :
    keeps o = false -> o <> OSums ->
    @derive A o (sort_asc (fun x => x) s) = derive o s.
  Proof.
    intros Hk Ho. pose proof (sort_asc_perm (fun x : Z => x) s) as HP.
    destruct o; try discriminate Hk; try congruence; cbn [derive].
    - rewrite (zmax_perm _ _ HP). reflexivity.
    - rewrite (zmin_perm _ _ HP). reflexivity.
    - rewrite (zmax_perm _ _ HP), (zmin_perm _ _ HP). reflexivity.
    - rewrite sort_asc_idem. reflexivity.
    - rewrite (zmax_perm _ _ HP), (zmin_perm _ _ HP). reflexivity.
    - rewrite sort_asc_length. reflexivity.
  Qed.
End Extract.

(** ---------------------------------------------------------------------------------- *)
(** * d. what the reported sums are                                                     *)
(** ---------------------------------------------------------------------------------- *)
Section WfSums.
  Context {A : Type} (valueof : A -> Z).

  (** every reported sum is the total value of the reported items *)
  Lemma wf_erase_sums (b : bins A) :
    wf valueof b -> Forall (fun bn => fst bn = zsum (map valueof (snd bn))) b.
  Proof. intros H. exact H. Qed.

  (** the Sums output is computed from the Partition output by adding up each bin *)
  Lemma wf_sums_lists (b : bins A) :
    wf valueof b -> sums b = map (fun l => zsum (map valueof l)) (lists b).
  Proof.
    unfold sums, lists. intros H. rewrite map_map.
    induction H as [|bn t Hb Ht IH]; cbn [map]; [reflexivity|]. rewrite IH. f_equal. exact Hb.
  Qed.

  (** ... also after the contents have been forgotten *)
  Lemma wf_erase_sums_lists (b : bins A) :
    wf valueof b -> sums (erase b) = map (fun l => zsum (map valueof l)) (lists b).
  Proof. intros H. rewrite sums_erase. apply wf_sums_lists. exact H. Qed.
End WfSums.

(** ---------------------------------------------------------------------------------- *)
(** * c. the C06 schema                                                                 *)
(** ---------------------------------------------------------------------------------- *)
Section Schema.
  Context {A : Type}.

  (** algorithms that always return a bins-array *)
  Theorem C06_schema (alg : bool -> bins A) :
    erase (alg true) = alg false ->
    forall o, keeps o = false -> run_output o alg = derive o (sums (alg true)).
  Proof.
    intros He o Hk. unfold run_output. rewrite Hk, <- He. apply extract_erase. exact Hk.
  Qed.

  (** the cheap run gives what the same extractor gives on the full run *)
  Corollary C06_schema_extract (alg : bool -> bins A) :
    erase (alg true) = alg false ->
    forall o, keeps o = false -> run_output o alg = extract o (alg true).
  Proof. intros He o Hk. rewrite (C06_schema alg He o Hk). symmetry. apply extract_derive. exact Hk. Qed.

  (** phrased with the two outputs a caller can actually observe *)
  Corollary C06_schema_observed (alg : bool -> bins A) :
    erase (alg true) = alg false ->
    forall o full, keeps o = false ->
      run_output OPartitionAndSums alg = OutBins full ->
      run_output o alg = derive o (sums full).
  Proof.
    intros He o full Hk Hfull. unfold run_output in Hfull. cbn [keeps extract] in Hfull.
    injection Hfull as <-. apply C06_schema; assumption.
  Qed.

  (** from the plain Partition output (lists only), when the sums are the totals *)
  Corollary C06_schema_lists (valueof : A -> Z) (alg : bool -> bins A) :
    erase (alg true) = alg false -> wf valueof (alg true) ->
    forall o ls, keeps o = false ->
      run_output OPartition alg = OutLists ls ->
      run_output o alg = derive o (map (fun l => zsum (map valueof l)) ls).
  Proof.
    intros He Hwf o ls Hk Hls. unfold run_output in Hls. cbn [keeps extract] in Hls.
    injection Hls as <-. rewrite <- (wf_sums_lists valueof _ Hwf). apply C06_schema; assumption.
  Qed.

  (** algorithms that may raise *)
  Theorem C06_schema_r (alg : bool -> result (bins A)) :
    rmap erase (alg true) = alg false ->
    forall o, keeps o = false ->
      run_output_r o alg = rmap (fun b => derive o (sums b)) (alg true).
  Proof.
    intros He o Hk. unfold run_output_r. rewrite Hk, <- He.
    destruct (alg true) as [b|e]; cbn [rmap]; [|reflexivity].
    rewrite extract_erase by exact Hk. reflexivity.
  Qed.

  Corollary C06_schema_r_ok (alg : bool -> result (bins A)) :
    rmap erase (alg true) = alg false ->
    forall o full, keeps o = false -> alg true = Ok full ->
      run_output_r o alg = Ok (derive o (sums full)).
  Proof. intros He o full Hk Hfull. rewrite (C06_schema_r alg He o Hk), Hfull. reflexivity. Qed.

  (** the cheap run raises exactly when the full run raises, with the same error *)
  Corollary C06_schema_r_err (alg : bool -> result (bins A)) :
    rmap erase (alg true) = alg false ->
    forall o e, keeps o = false -> alg true = Err e -> run_output_r o alg = Err e.
  Proof. intros He o e Hk Hfull. rewrite (C06_schema_r alg He o Hk), Hfull. reflexivity. Qed.

  (** algorithms that may return None *)
  Theorem C06_schema_o (alg : bool -> option (bins A)) :
    option_map erase (alg true) = alg false ->
    forall o, keeps o = false ->
      run_output_o o alg = option_map (fun b => derive o (sums b)) (alg true).
  Proof.
    intros He o Hk. unfold run_output_o. rewrite Hk, <- He.
    destruct (alg true) as [b|]; cbn [option_map]; [|reflexivity].
    rewrite extract_erase by exact Hk. reflexivity.
  Qed.

  (** an algorithm that ignores the manager it is given (cbldm) *)
  Theorem C06_schema_const (b : bins A) :
    forall o, keeps o = false -> run_output o (fun _ => b) = derive o (sums b).
  Proof. intros o Hk. unfold run_output. apply extract_derive. exact Hk. Qed.
End Schema.

(** ---------------------------------------------------------------------------------- *)
(** * c. instances                                                                      *)
(** ---------------------------------------------------------------------------------- *)
Section Instances.
  Context {A : Type} (valueof : A -> Z).

  (** ---- partitioning heuristics ---- *)
  Theorem C06_greedy : forall o k items, keeps o = false ->
    run_partition o (@greedy A) valueof k items = derive o (sums (greedy valueof true k items)).
  Proof.
    intros o k items Hk. unfold run_partition.
    apply (C06_schema (fun keep => greedy valueof keep k items)); [apply greedy_erase|exact Hk].
  Qed.

  Theorem C06_roundrobin : forall o k items, keeps o = false ->
    run_partition o (@roundrobin A) valueof k items = derive o (sums (roundrobin valueof true k items)).
  Proof.
    intros o k items Hk. unfold run_partition.
    apply (C06_schema (fun keep => roundrobin valueof keep k items)); [apply roundrobin_erase|exact Hk].
  Qed.

  Theorem C06_kk : forall o k items, keeps o = false ->
    run_partition_r o (@kk A) valueof k items =
    rmap (fun b => derive o (sums b)) (kk valueof true k items).
  Proof.
    intros o k items Hk. unfold run_partition_r.
    apply (C06_schema_r (fun keep => kk valueof keep k items)); [apply kk_erase|exact Hk].
  Qed.

  (** complete greedy, any objective, any flags; the limit is a number of loop iterations
      in the model, so the statement holds for every limit (in particular for None) *)
  Theorem C06_cg : forall o obj flags limit k items, keeps o = false ->
    run_output_o o (fun keep => cg valueof keep obj flags limit k items) =
    option_map (fun b => derive o (sums b)) (cg valueof true obj flags limit k items).
  Proof.
    intros o obj flags limit k items Hk.
    apply (C06_schema_o (fun keep => cg valueof keep obj flags limit k items)); [apply cg_erase|exact Hk].
  Qed.

  Theorem C06_dp : forall o obj k items, keeps o = false ->
    run_output_r o (fun keep => dp valueof keep obj k items) =
    rmap (fun b => derive o (sums b)) (dp valueof true obj k items).
  Proof.
    intros o obj k items Hk.
    apply (C06_schema_r (fun keep => dp valueof keep obj k items)); [apply dp_erase|exact Hk].
  Qed.

  (** ---- packing ---- *)
  Theorem C06_first_fit : forall o C items, keeps o = false ->
    run_pack_r o (@first_fit A) valueof C items =
    rmap (fun b => derive o (sums b)) (first_fit valueof true C items).
  Proof.
    intros o C items Hk. unfold run_pack_r.
    apply (C06_schema_r (fun keep => first_fit valueof keep C items)); [apply ff_erase|exact Hk].
  Qed.

  Theorem C06_first_fit_decreasing : forall o C items, keeps o = false ->
    run_pack_r o (@first_fit_decreasing A) valueof C items =
    rmap (fun b => derive o (sums b)) (first_fit_decreasing valueof true C items).
  Proof.
    intros o C items Hk. unfold run_pack_r.
    apply (C06_schema_r (fun keep => first_fit_decreasing valueof keep C items)); [apply ffd_erase|exact Hk].
  Qed.

  Theorem C06_best_fit : forall o C items, keeps o = false ->
    run_pack_r o (@best_fit A) valueof C items =
    rmap (fun b => derive o (sums b)) (best_fit valueof true C items).
  Proof.
    intros o C items Hk. unfold run_pack_r.
    apply (C06_schema_r (fun keep => best_fit valueof keep C items)); [apply bf_erase|exact Hk].
  Qed.

  Theorem C06_best_fit_decreasing : forall o C items, keeps o = false ->
    run_pack_r o (@best_fit_decreasing A) valueof C items =
    rmap (fun b => derive o (sums b)) (best_fit_decreasing valueof true C items).
  Proof.
    intros o C items Hk. unfold run_pack_r.
    apply (C06_schema_r (fun keep => best_fit_decreasing valueof keep C items)); [apply bfd_erase|exact Hk].
  Qed.

  (** ---- covering ---- *)
  Theorem C06_cover_decreasing : forall o C items, keeps o = false ->
    run_pack o (@cover_decreasing A) valueof C items =
    derive o (sums (cover_decreasing valueof true C items)).
  Proof.
    intros o C items Hk. unfold run_pack.
    apply (C06_schema (fun keep => cover_decreasing valueof keep C items)); [apply dec_erase|exact Hk].
  Qed.

  Theorem C06_cover_twothirds : forall o C items, keeps o = false ->
    run_pack o (@cover_twothirds A) valueof C items =
    derive o (sums (cover_twothirds valueof true C items)).
  Proof.
    intros o C items Hk. unfold run_pack.
    apply (C06_schema (fun keep => cover_twothirds valueof keep C items)); [apply tt_erase|exact Hk].
  Qed.

  Theorem C06_cover_threequarters : forall o C items, keeps o = false ->
    run_pack o (@cover_threequarters A) valueof C items =
    derive o (sums (cover_threequarters valueof true C items)).
  Proof.
    intros o C items Hk. unfold run_pack.
    apply (C06_schema (fun keep => cover_threequarters valueof keep C items)); [apply tq_erase|exact Hk].
  Qed.

  (** ---- from the plain Partition output: the sums are the totals of the lists ---- *)
  Theorem C06_greedy_lists : forall o k items ls, (1 <= k)%nat -> keeps o = false ->
    run_partition OPartition (@greedy A) valueof k items = OutLists ls ->
    run_partition o (@greedy A) valueof k items = derive o (map (fun l => zsum (map valueof l)) ls).
  Proof.
    intros o k items ls Hk1 Hk Hls. unfold run_partition in *.
    apply (C06_schema_lists valueof (fun keep => greedy valueof keep k items));
      [apply greedy_erase| |exact Hk|exact Hls].
    destruct (greedy_partition valueof k items Hk1) as (_ & _ & Hwf). exact Hwf.
  Qed.

  (** ---- cbldm: the Python replaces the manager it is given by a BinnerKeepingContents,
      so the bins-array handed to extract_output_from_binsarray is the (sums, lists) pair
      whatever the output type.  Sums.extract_output_from_binsarray then takes the branch
      "bins[0][0] succeeds" and reads the sums of that pair: every sums-family output is
      the documented function of the sums of the very partition that OPartition returns.
      (When the time limit fires before any leaf is reached, the Python returns the
      placeholder ([0,inf],[0,inf]), which the same branch reads as sums [0, inf];
      the model has no bins-array in that case: CbPlaceholder.) *)
  Theorem C06_cbldm : forall o k items tl d dint limit b n, keeps o = false ->
    cbldm valueof k items tl d dint limit = Ok (CbBins b, n) ->
    run_output o (fun _ : bool => b) = derive o (sums b) /\
    run_output OPartition (fun _ : bool => b) = OutLists (lists b).
  Proof.
    intros o k items tl d dint limit b n Hk _. split; [|reflexivity].
    apply C06_schema_const. exact Hk.
  Qed.
End Instances.

(** bin completion works on plain numbers *)
Theorem C06_bin_completion : forall o C fuel items, keeps o = false ->
  run_output_r o (fun keep => bin_completion keep C fuel items) =
  rmap (fun b => derive o (sums b)) (bin_completion true C fuel items).
Proof.
  intros o C fuel items Hk.
  apply (C06_schema_r (fun keep => bin_completion keep C fuel items)); [apply bc_erase|exact Hk].
Qed.

(** ---------------------------------------------------------------------------------- *)
(** * a. complete Karmarkar-Karp: the two managers explore the same tree                *)
(** ---------------------------------------------------------------------------------- *)
(** BinnerKeepingContents.all_combinations de-duplicates by the sorted item names of the
    bins, BinnerKeepingSums.all_combinations by the sorted sums, so the two managers yield
    different lists of combinations.  Since the repair "complete Karmarkar-Karp explored
    different trees with the two bins-managers" the search skips a combination whose vector of
    sums was already seen at this node ([ckk_children] = [dedup_sums] of [all_combinations]).
    When items with equal names have equal values ([names_ok]) equal name keys imply equal
    sums, so the first representative of every sums-class survives the de-duplication by
    names and the children of a node are, for both managers, the first representatives of the
    sums-classes of the pairings, in the order of [perms]: [ckk_children_erase].  The two runs
    are then in lock step ([ckk_explore_erase]): same heaps up to erasure, same incumbent,
    same number of nodes, same yields.  Proved here, for EVERY number of bins:
      - [ckk_erase]  :  rmap erase (ckk true k items) = ckk false k items ;
      - [ckk_generator_erase] (every mode), [ckk_nodes_erase] ;
      - [ckk_sums_partition], [ckk_sums_optimal]: the sums manager on its own (it never reads
        the names: [ckk_sums_any_names]) returns the sums of a genuine partition, of minimum
        difference (no hypothesis on names).
    The hypothesis [names_ok] cannot be dropped ([ckk_erase_needs_names_ok]). *)
Section CKKSums.
  Context {A : Type} (valueof nameof : A -> Z).
  Local Notation nonneg := (Forall (fun x : A => 0 <= valueof x)).

  (** ---- combinations of erased bins-arrays ---- *)
  Lemma erase_nth_opt (b : bins A) : forall i,
    nth_opt (erase b) i = option_map (fun x => (fst x, @nil A)) (nth_opt b i).
  Proof.
    induction b as [|x t IH]; intros [|j]; cbn [erase map nth_opt option_map]; try reflexivity.
    apply IH.
  Qed.

  Lemma picked_erase (b1 : bins A) p :
    map (fun i => match nth_opt (erase b1) i with Some x => x | None => empty_bin end) p =
    erase (map (fun i => match nth_opt b1 i with Some x => x | None => empty_bin end) p).
  Proof.
    unfold erase at 2. rewrite map_map. apply map_ext. intros i. rewrite erase_nth_opt.
    destruct (nth_opt b1 i); reflexivity.
  Qed.

  Lemma combo_of_perm_erase (b1 b2 : bins A) p :
    combo_of_perm nameof false (erase b1) (erase b2) p = erase (combo_of_perm nameof true b1 b2 p).
  Proof.
    unfold combo_of_perm. cbv zeta. rewrite picked_erase, zip_combine_erase, <- sort_bins_erase.
    f_equal. unfold erase. rewrite !map_map. apply map_ext. intros x. reflexivity.
  Qed.

  (** ---- the de-duplication key of the sums manager is the vector of sums ---- *)
  Definition wrap (s : list Z) : list (list Z) := map (fun z => [z]) s.

  Lemma wrap_inj : forall s t, wrap s = wrap t -> s = t.
  Proof.
    induction s as [|x s IH]; intros [|y t] H; cbn [wrap map] in H; try discriminate; [reflexivity|].
    injection H as H1 H2. f_equal; [exact H1|apply IH; exact H2].
  Qed.

  Lemma combo_key_false (b : bins A) : combo_key nameof false b = wrap (sums b).
  Proof. unfold combo_key, wrap, sums. rewrite map_map. reflexivity. Qed.

  Lemma in_map_wrap s seen : In (wrap s) (map wrap seen) <-> In s seen.
  Proof.
    split; [|apply in_map].
    intros H. apply in_map_iff in H. destruct H as (t & E & Ht). apply wrap_inj in E. subst t. exact Ht.
  Qed.

  Lemma dedup_false_sums (l : list (bins A)) : forall seen,
    dedup_combos nameof false (map wrap seen) l = dedup_sums seen l.
  Proof.
    induction l as [|b t IH]; intros seen; [reflexivity|].
    rewrite dedup_unfold, dedup_sums_unfold, combo_key_false.
    assert (E : existsb (key_eqb (wrap (sums b))) (map wrap seen) =
                existsb (list_eqb Z.eqb (sums b)) seen).
    { apply Bool.eq_true_iff_eq. rewrite existsb_key_In, existsb_sums_In. apply in_map_wrap. }
    rewrite E. destruct (existsb (list_eqb Z.eqb (sums b)) seen); [apply IH|].
    f_equal. apply (IH (sums b :: seen)).
  Qed.

  Lemma dedup_sums_erase (l : list (bins A)) : forall seen,
    dedup_sums seen (map erase l) = map erase (dedup_sums seen l).
  Proof.
    induction l as [|b t IH]; intros seen; [reflexivity|]. cbn [map].
    rewrite !dedup_sums_unfold, sums_erase.
    destruct (existsb (list_eqb Z.eqb (sums b)) seen); [apply IH|].
    cbn [map]. f_equal. apply IH.
  Qed.

  Lemma dedup_sums_idem (l : list (bins A)) : forall seen,
    dedup_sums seen (dedup_sums seen l) = dedup_sums seen l.
  Proof.
    induction l as [|b t IH]; intros seen; [reflexivity|].
    rewrite dedup_sums_unfold.
    destruct (existsb (list_eqb Z.eqb (sums b)) seen) eqn:E; [apply IH|].
    rewrite dedup_sums_unfold, E. f_equal. apply IH.
  Qed.

  (** de-duplicating by names first does not change the de-duplication by sums, as long as
      equal name keys imply equal sums *)
  Section TwoKeys.
    Variable Q : bins A -> Prop.
    Hypothesis HQ : forall x y, Q x -> Q y ->
      combo_key nameof true x = combo_key nameof true y -> sums x = sums y.

    Lemma dedup_sums_dedup_combos (l : list (bins A)) : forall seen1 seen2, Forall Q l ->
      (forall x, In x l -> In (combo_key nameof true x) seen1 -> In (sums x) seen2) ->
      dedup_sums seen2 (dedup_combos nameof true seen1 l) = dedup_sums seen2 l.
    Proof.
      induction l as [|b t IH]; intros s1 s2 HF HI; [reflexivity|].
      pose proof (Forall_inv HF) as Qb. pose proof (Forall_inv_tail HF) as Qt.
      rewrite dedup_unfold, (dedup_sums_unfold s2 b t).
      destruct (existsb (key_eqb (combo_key nameof true b)) s1) eqn:E1.
      - apply existsb_key_In in E1.
        assert (E2 : In (sums b) s2) by (apply HI; [left; reflexivity|exact E1]).
        apply existsb_sums_In in E2. rewrite E2.
        apply IH; [exact Qt|]. intros x Hx. apply HI. right. exact Hx.
      - rewrite dedup_sums_unfold.
        destruct (existsb (list_eqb Z.eqb (sums b)) s2) eqn:E2.
        + apply IH; [exact Qt|]. intros x Hx [Hk|Hk].
          * apply existsb_sums_In in E2.
            rewrite <- (HQ b x Qb (proj1 (Forall_forall Q t) Qt x Hx) Hk). exact E2.
          * apply HI; [right; exact Hx|exact Hk].
        + f_equal. apply IH; [exact Qt|]. intros x Hx [Hk|Hk].
          * left. apply HQ; [exact Qb|exact (proj1 (Forall_forall Q t) Qt x Hx)|exact Hk].
          * right. apply HI; [right; exact Hx|exact Hk].
    Qed.
  End TwoKeys.

  (** a combination: well formed, made of the given items, sorted by sum *)
  Definition combo_ok (its : list A) (c : bins A) : Prop :=
    wf valueof c /\ Forall (fun x => In x its) (contents c) /\ StronglySorted Z.le (sums c).

  Lemma combo_ok_key its : names_ok valueof nameof its -> forall x y,
    combo_ok its x -> combo_ok its y ->
    combo_key nameof true x = combo_key nameof true y -> sums x = sums y.
  Proof.
    intros HN x y (Wx & Ix & Sx) (Wy & Iy & Sy) HK.
    apply ObjectivesProofs.sorted_perm_eq; [exact Sx|exact Sy|].
    apply (key_eq_sums_perm valueof nameof its); assumption.
  Qed.

  (** the children of a node: the sums manager sees exactly the erasures of the children of
      the contents manager, in the same order *)
  Lemma ckk_children_erase k its (b1 b2 : bins A) : names_ok valueof nameof its ->
    length b1 = k -> length b2 = k -> wf valueof b1 -> wf valueof b2 ->
    Forall (fun x => In x its) (contents b1) -> Forall (fun x => In x its) (contents b2) ->
    ckk_children nameof false (erase b1) (erase b2) = map erase (ckk_children nameof true b1 b2).
  Proof.
    intros HN L1 L2 W1 W2 I1 I2. unfold ckk_children, all_combinations. rewrite length_erase.
    set (L := map (combo_of_perm nameof true b1 b2) (perms (length b1))).
    assert (E : map (combo_of_perm nameof false (erase b1) (erase b2)) (perms (length b1)) = map erase L).
    { unfold L. rewrite map_map. apply map_ext. intros p. apply combo_of_perm_erase. }
    rewrite E. change (@nil (list (list Z))) with (map wrap []).
    rewrite dedup_false_sums, dedup_sums_idem, dedup_sums_erase. f_equal. symmetry.
    apply (dedup_sums_dedup_combos (combo_ok its) (combo_ok_key its HN)).
    - apply Forall_forall. intros c Hc. unfold L in Hc. apply in_map_iff in Hc.
      destruct Hc as (p & <- & Hp). apply perms_spec in Hp. rewrite L1 in Hp.
      destruct (combo_of_perm_ok valueof nameof k b1 b2 p L1 L2 W1 W2 Hp) as (_ & Wc & Pc).
      split; [exact Wc|]. split.
      + eapply Permutation_Forall; [symmetry; exact Pc|]. apply Forall_app. split; assumption.
      + rewrite combo_of_perm_eq. apply sort_bins_sorted.
    - intros x _ [].
  Qed.

  (** ---- the two runs are in lock step ---- *)
  Definition erase_state (st : @ckk_state A) : @ckk_state A :=
    mk_ckk (ckk_best st) (option_map erase (ckk_part st)) (map erase (ckk_yields st))
           (ckk_stop st) (ckk_nodes st).

  Definition entry_its (k : nat) (its : list A) (e : @hentry A) : Prop :=
    length (snd e) = k /\ wf valueof (snd e) /\ Forall (fun x => In x its) (contents (snd e)).

  Lemma entry_its_push k its (b : bins A) :
    length b = k -> wf valueof b -> Forall (fun x => In x its) (contents b) ->
    entry_its k its (- bins_diff (sort_bins b), sort_bins b).
  Proof.
    intros Lb Wb Ib. unfold entry_its. cbn [snd]. split; [|split].
    - rewrite sort_bins_length. exact Lb.
    - apply sort_bins_wf. exact Wb.
    - eapply Permutation_Forall; [symmetry; apply sort_bins_contents|exact Ib].
  Qed.

  Lemma entry_its_child k its e1 e2 rest c :
    Forall (entry_its k its) (e1 :: e2 :: rest) ->
    In c (ckk_children nameof true (snd e1) (snd e2)) ->
    Forall (entry_its k its) (heap_push rest c).
  Proof.
    intros HF Hc. destruct (Forall_inv HF) as (L1 & W1 & I1).
    destruct (Forall_inv (Forall_inv_tail HF)) as (L2 & W2 & I2).
    apply ckk_children_sound in Hc.
    destruct (all_combinations_ok valueof nameof k _ _ c L1 L2 W1 W2 Hc) as (Lc & Wc & Pc).
    apply heap_push_Forall; [exact (Forall_inv_tail (Forall_inv_tail HF))|].
    apply entry_its_push; [exact Lc|exact Wc|].
    eapply Permutation_Forall; [symmetry; exact Pc|]. apply Forall_app. split; assumption.
  Qed.

  Lemma heap_flat_sums_erase (g : @heap A) : heap_flat_sums (erase_heap g) = heap_flat_sums g.
  Proof.
    unfold heap_flat_sums, erase_heap. induction g as [|e t IH]; cbn [map flat_map]; [reflexivity|].
    rewrite IH. cbn [erase_entry snd]. rewrite sums_erase. reflexivity.
  Qed.

  Lemma ckk_bound_erase k (g : @heap A) : ckk_bound k (erase_heap g) = ckk_bound k g.
  Proof. unfold ckk_bound. rewrite heap_flat_sums_erase. reflexivity. Qed.

  Lemma topdiff_erase (g : @heap A) : topdiff (erase_heap g) = topdiff g.
  Proof. destruct g as [|e t]; reflexivity. Qed.

  Lemma fold_explore_erase (P : @heap A -> Prop) (F F' : @ckk_state A -> @heap A -> @ckk_state A) :
    (forall c s, P c -> F' (erase_state s) (erase_heap c) = erase_state (F s c)) ->
    forall l s, Forall P l ->
      fold_left F' (map erase_heap l) (erase_state s) = erase_state (fold_left F l s).
  Proof.
    intros HS. induction l as [|c t IH]; intros s HF; cbn [map fold_left]; [reflexivity|].
    rewrite HS by exact (Forall_inv HF). apply IH. exact (Forall_inv_tail HF).
  Qed.

  Theorem ckk_explore_erase k its mode : names_ok valueof nameof its ->
    forall fuel h st, Forall (entry_its k its) h ->
      ckk_explore nameof false fuel mode k (erase_heap h) (erase_state st) =
      erase_state (ckk_explore nameof true fuel mode k h st).
  Proof.
    intros HN. induction fuel as [|f IH]; intros h st Hh.
    - cbn [ckk_explore]. change (ckk_stop (erase_state st)) with (ckk_stop st).
      destruct (ckk_stop st); [reflexivity|]. rewrite ckk_bound_erase.
      cbn [ckk_best ckk_part ckk_yields ckk_nodes erase_state].
      destruct (match ckk_bound k h with Some lb => le_best lb (ckk_best st) | None => false end);
        [reflexivity|].
      destruct h as [|e1 [|e2 rest]]; cbn [erase_heap map]; try reflexivity.
      change (fst (erase_entry e1)) with (fst e1).
      destruct (gt_best (fst e1) (ckk_best st)); [|reflexivity].
      destruct mode; reflexivity.
    - cbn [ckk_explore]. change (ckk_stop (erase_state st)) with (ckk_stop st).
      destruct (ckk_stop st); [reflexivity|]. rewrite ckk_bound_erase.
      cbn [ckk_best ckk_part ckk_yields ckk_nodes erase_state].
      destruct (match ckk_bound k h with Some lb => le_best lb (ckk_best st) | None => false end);
        [reflexivity|].
      destruct h as [|e1 [|e2 rest]]; cbn [erase_heap map]; try reflexivity.
      + change (fst (erase_entry e1)) with (fst e1).
        destruct (gt_best (fst e1) (ckk_best st)); [|reflexivity].
        destruct mode; reflexivity.
      + fold (erase_heap rest). cbv zeta. cbn [erase_entry snd].
        destruct (Forall_inv Hh) as (L1 & W1 & I1).
        destruct (Forall_inv (Forall_inv_tail Hh)) as (L2 & W2 & I2).
        rewrite (ckk_children_erase k its (snd e1) (snd e2) HN L1 L2 W1 W2 I1 I2).
        set (cs := ckk_children nameof true (snd e1) (snd e2)).
        assert (E : rev (sort_asc topdiff (map (heap_push (erase_heap rest)) (map erase cs))) =
                    map erase_heap (rev (sort_asc topdiff (map (heap_push rest) cs)))).
        { rewrite map_rev. f_equal.
          rewrite (sort_asc_map erase_heap topdiff topdiff _ topdiff_erase). f_equal.
          rewrite !map_map. apply map_ext. intros b. apply heap_push_erase. }
        rewrite E.
        change (mk_ckk (ckk_best st) (option_map erase (ckk_part st)) (map erase (ckk_yields st))
                       false (S (ckk_nodes st)))
          with (erase_state (mk_ckk (ckk_best st) (ckk_part st) (ckk_yields st) false (S (ckk_nodes st)))).
        apply (fold_explore_erase (fun c => Forall (entry_its k its) c)).
        * intros c s Hc. apply IH. exact Hc.
        * apply Forall_forall. intros c Hc. apply in_rev, sort_asc_In in Hc.
          apply in_map_iff in Hc. destruct Hc as (b & <- & Hb).
          eapply entry_its_child; [exact Hh|exact Hb].
  Qed.

  (** the initial heap *)
  Lemma singleton_bins_items k x its : In x its ->
    Forall (fun y => In y its) (contents (singleton_bins valueof true k x)).
  Proof.
    intros Hx. destruct k as [|n].
    - unfold singleton_bins, add_item. cbn. constructor.
    - rewrite (singleton_bins_contents valueof (S n) x) by lia. constructor; [exact Hx|constructor].
  Qed.

  Lemma initial_heap_its k items : Forall (entry_its k items) (initial_heap valueof true k items).
  Proof.
    unfold initial_heap.
    assert (G : forall l (h : @heap A), Forall (fun x => In x items) l -> Forall (entry_its k items) h ->
              Forall (entry_its k items)
                (fold_left (fun h x => heap_push h (singleton_bins valueof true k x)) l h)).
    { induction l as [|x t IHl]; intros h Hl Hh; cbn [fold_left]; [exact Hh|].
      apply IHl; [exact (Forall_inv_tail Hl)|].
      apply heap_push_Forall; [exact Hh|]. apply entry_its_push.
      - apply singleton_bins_length.
      - apply singleton_bins_wf.
      - apply singleton_bins_items. exact (Forall_inv Hl). }
    apply G; [|constructor].
    apply Forall_forall. intros x Hx. eapply Permutation_in; [apply sort_desc_perm|exact Hx].
  Qed.

  Theorem ckk_run_erase mode init k items : names_ok valueof nameof items ->
    ckk_run valueof nameof false mode init k items =
    erase_state (ckk_run valueof nameof true mode init k items).
  Proof.
    intros HN. unfold ckk_run. rewrite initial_heap_erase.
    change (mk_ckk init None [] false 0) with (erase_state (mk_ckk init None [] false 0)) at 1.
    apply (ckk_explore_erase k items mode HN). apply initial_heap_its.
  Qed.

  (** the exact agreement of the two managers, any number of bins *)
  Theorem ckk_erase : forall k items, names_ok valueof nameof items ->
    rmap erase (ckk valueof nameof true k items) = ckk valueof nameof false k items.
  Proof.
    intros k items HN. unfold ckk. rewrite (ckk_run_erase true None k items HN).
    cbn [erase_state ckk_part].
    destruct (ckk_part (ckk_run valueof nameof true true None k items)) as [b|]; cbn [option_map rmap];
      [|reflexivity].
    rewrite sort_bins_erase. reflexivity.
  Qed.

  Corollary ckk_erase_sums : forall k items, names_ok valueof nameof items ->
    rmap sums (ckk valueof nameof true k items) = rmap sums (ckk valueof nameof false k items).
  Proof.
    intros k items HN. rewrite <- (ckk_erase k items HN).
    destruct (ckk valueof nameof true k items) as [b|e]; cbn [rmap]; [|reflexivity].
    rewrite sums_erase. reflexivity.
  Qed.

  (** the generator, every mode: the same partitions are yielded, in the same order *)
  Theorem ckk_generator_erase : forall k items init, names_ok valueof nameof items ->
    map erase (ckk_generator valueof nameof true k items init) =
    ckk_generator valueof nameof false k items init.
  Proof.
    intros k items init HN. unfold ckk_generator. rewrite (ckk_run_erase _ init k items HN).
    cbn [erase_state ckk_yields]. rewrite map_rev. reflexivity.
  Qed.

  (** the two searches pop the same number of heaps *)
  Corollary ckk_nodes_erase : forall mode init k items, names_ok valueof nameof items ->
    ckk_nodes (ckk_run valueof nameof false mode init k items) =
    ckk_nodes (ckk_run valueof nameof true mode init k items).
  Proof. intros mode init k items HN. rewrite (ckk_run_erase mode init k items HN). reflexivity. Qed.
End CKKSums.

(** the sums manager never reads the names *)
Lemma ckk_run_sums_any_names {A} (valueof nameof nameof' : A -> Z) mode init k items :
  ckk_run valueof nameof false mode init k items = ckk_run valueof nameof' false mode init k items.
Proof. reflexivity. Qed.

Lemma ckk_sums_any_names {A} (valueof nameof nameof' : A -> Z) k items :
  ckk valueof nameof false k items = ckk valueof nameof' false k items.
Proof. reflexivity. Qed.

Section CKKSumsManager.
  Context {A : Type} (valueof nameof : A -> Z).
  Local Notation nonneg := (Forall (fun x : A => 0 <= valueof x)).

  (** hence, whatever the names, its run is the erasure of the contents run with names := values *)
  Lemma ckk_sums_as_values k items :
    ckk valueof nameof false k items = rmap erase (ckk valueof valueof true k items).
  Proof.
    rewrite (ckk_erase valueof valueof k items (names_ok_values valueof items)). reflexivity.
  Qed.

  (** C01 for the sums manager: the reported sums are those of a genuine partition *)
  Theorem ckk_sums_partition : forall k items, (1 <= k)%nat -> items <> [] ->
    exists bt, is_partition valueof k items bt /\ StronglySorted Z.le (sums bt) /\
               ckk valueof nameof false k items = Ok (erase bt).
  Proof.
    intros k items Hk Hne. rewrite ckk_sums_as_values.
    destruct (ckk_partition valueof valueof k items Hk Hne) as (bt & Et & Hpt).
    exists bt. split; [exact Hpt|]. split; [|rewrite Et; reflexivity].
    unfold ckk in Et. destruct (ckk_part _) as [b|]; [|discriminate Et]. injection Et as <-.
    apply sort_bins_sorted.
  Qed.

  (** C02 for the sums manager (no hypothesis on names: it never looks at them) *)
  Theorem ckk_sums_optimal : forall k items b, (1 <= k)%nat -> items <> [] -> nonneg items ->
    ckk valueof nameof false k items = Ok b ->
    Opt MinDiff k (map valueof items) (value MinDiff (sums b) false).
  Proof.
    intros k items b Hk Hne Hpos Hckk. rewrite ckk_sums_as_values in Hckk.
    destruct (ckk valueof valueof true k items) as [bt|e] eqn:Et; [|discriminate Hckk].
    cbn [rmap] in Hckk. injection Hckk as <-. rewrite sums_erase.
    apply (ckk_optimal_values valueof k items bt Hk Hne Hpos Et).
  Qed.
End CKKSumsManager.
(** kept for the users of the former partial results (both are instances of [ckk_erase]) *)
Section CKKSumsOld.
  Context {A : Type} (valueof nameof : A -> Z).
  Local Notation nonneg := (Forall (fun x : A => 0 <= valueof x)).

  Theorem ckk_erase_2 : forall items, nonneg items -> names_ok valueof nameof items ->
    rmap erase (ckk valueof nameof true 2 items) = ckk valueof nameof false 2 items.
  Proof. intros items _ HN. apply ckk_erase. exact HN. Qed.
End CKKSumsOld.

(** ---------------------------------------------------------------------------------- *)
(** * a. snp and rnp                                                                    *)
(** ---------------------------------------------------------------------------------- *)
(** Both algorithms only consult the manager through the sums, bin_of / the final
    concatenations, and the two-way ckk at the leaves; rnp's even case always runs the
    generator with a contents manager.  With [ckk_erase_2] (an instance of [ckk_erase]) for
    the leaves the erase equation is exact. *)
Section SNPErase.
  Context {A : Type} (valueof nameof : A -> Z).
  Local Notation nonneg := (Forall (fun x : A => 0 <= valueof x)).
  Local Notation vsum := (vsum valueof).

  Variable items0 : list A.
  Hypothesis Hpos0 : nonneg items0.
  Hypothesis HN0 : names_ok valueof nameof items0.

  (** the two-way base case on any sub-collection of the items *)
  Lemma ckk2_sub items' : incl items' items0 ->
    rmap erase (ckk valueof nameof true 2 items') = ckk valueof nameof false 2 items'.
  Proof.
    intros Hi. apply ckk_erase_2.
    - apply Forall_forall. intros x Hx. rewrite Forall_forall in Hpos0. apply Hpos0, Hi, Hx.
    - intros x y Hx Hy. apply HN0; apply Hi; assumption.
  Qed.

  Lemma distinct_in_order_incl : forall l seen, incl (distinct_in_order nameof l seen) l.
  Proof.
    induction l as [|x t IH]; intros seen y Hy; cbn [distinct_in_order] in Hy; [destruct Hy|].
    destruct (existsb (item_eqb nameof x) seen).
    - right. exact (IH _ _ Hy).
    - destruct Hy as [<-|Hy]; [left; reflexivity|right; exact (IH _ _ Hy)].
  Qed.

  Lemma find_diff_incl l1 l2 : incl (find_diff nameof l1 l2) l1.
  Proof.
    intros y Hy. unfold find_diff in Hy. apply in_flat_map in Hy. destruct Hy as (x & Hx & Hy).
    apply repeat_spec in Hy. subst y. exact (distinct_in_order_incl _ _ _ Hx).
  Qed.

  Lemma fold_add_keep keep l : forall b : bin A,
    fold_left (fun b x => add_to_bin valueof keep x b) l b =
    (fst b + vsum l, if keep then snd b ++ l else snd b).
  Proof.
    induction l as [|x t IH]; intros b; cbn [fold_left].
    - unfold InExTree.vsum. cbn [map zsum fold_right]. rewrite Z.add_0_r.
      destruct keep; [rewrite app_nil_r|]; destruct b; reflexivity.
    - rewrite IH. unfold add_to_bin, InExTree.vsum. cbn [fst snd map zsum fold_right].
      unfold zsum. f_equal; [lia|]. destruct keep; [rewrite <- app_assoc; reflexivity|reflexivity].
  Qed.

  Lemma bin_of_keep keep l : bin_of valueof keep l = (vsum l, if keep then l else []).
  Proof. unfold bin_of. rewrite fold_add_keep. destruct keep; reflexivity. Qed.

  Lemma erase_app (b1 b2 : bins A) : erase (b1 ++ b2) = erase b1 ++ erase b2.
  Proof. unfold erase. apply map_app. Qed.

  Lemma erase_snoc_bin_of (prior : bins A) cur :
    erase (prior ++ [bin_of valueof true cur]) = erase prior ++ [bin_of valueof false cur].
  Proof. rewrite erase_app, !bin_of_keep. reflexivity. Qed.

  Lemma bins_spread_erase (b : bins A) : bins_spread (erase b) = bins_spread b.
  Proof. unfold bins_spread. rewrite sums_erase. reflexivity. Qed.

  (** ---- snp ---- *)
  Lemma snp_rec_2 keep prior items best :
    snp_rec valueof nameof keep 2 prior items best =
    match ckk valueof nameof keep 2 items with
    | Ok two => if spread (sums two ++ sums prior) <? bins_spread best then two ++ prior else best
    | Err _ => best
    end.
  Proof. reflexivity. Qed.

  Lemma snp_rec_3 keep n prior items best :
    snp_rec valueof nameof keep (S (S (S n))) prior items best =
    snp_dfs valueof
      (fun cur b => snp_rec valueof nameof keep (S (S n)) (prior ++ [bin_of valueof keep cur])
                      (find_diff nameof items cur) b)
      (Z.of_nat (S (S (S n)))) (vsum items) (sort_desc valueof items) [] best.
  Proof. reflexivity. Qed.

  Lemma snp_dfs_erase next_t next_f kz t :
    (forall cur b, erase (next_t cur b) = next_f cur (erase b)) ->
    forall rest cur b,
      erase (snp_dfs valueof next_t kz t rest cur b) = snp_dfs valueof next_f kz t rest cur (erase b).
  Proof.
    intros Hn. induction rest as [|x r IH]; intros cur b.
    - rewrite !snp_dfs_nil. unfold dfs_pruned. rewrite bins_spread_erase.
      destruct (_ || _); [reflexivity|apply Hn].
    - rewrite !snp_dfs_cons. unfold dfs_pruned. rewrite bins_spread_erase.
      destruct (_ || _); [reflexivity|]. rewrite IH, IH. reflexivity.
  Qed.

  Lemma snp_rec_erase : forall kc prior items' best, incl items' items0 ->
    erase (snp_rec valueof nameof true kc prior items' best) =
    snp_rec valueof nameof false kc (erase prior) items' (erase best).
  Proof.
    induction kc as [|kc IH]; intros prior items' best Hi; [reflexivity|].
    destruct kc as [|[|n]]; [reflexivity| |].
    - rewrite !snp_rec_2, <- (ckk2_sub items' Hi).
      destruct (ckk valueof nameof true 2 items') as [two|e]; cbn [rmap]; [|reflexivity].
      rewrite !sums_erase, bins_spread_erase.
      destruct (_ <? _); [apply erase_app|reflexivity].
    - rewrite !snp_rec_3. apply snp_dfs_erase. intros cur b.
      rewrite IH; [|eapply incl_tran; [apply find_diff_incl|exact Hi]].
      rewrite erase_snoc_bin_of. reflexivity.
  Qed.

  (** ---- rnp ---- *)
  Definition rnp_next_odd (keep : bool) (f kc : nat) (isfloat : bool) (prior : bins A) (items : list A)
             (cur : list A) (best : bins A) : result (bins A) :=
    if isfloat && negb (Nat.eqb (length cur) 0) then Err IndexError
    else
      let prior' := prior ++ [bin_of valueof keep cur] in
      match rnp_rec valueof nameof keep f (kc - 1) isfloat prior' (find_diff nameof items cur) best with
      | Err e => Err e
      | Ok nb =>
          if spread (sums nb ++ sums prior') <? bins_spread best
          then Ok (prior' ++ nb) else Ok best
      end.

  Definition rnp_step_even (keep : bool) (f kc : nat) (prior : bins A) (d0 : Z)
             (acc : result (bins A)) (part : bins A) : result (bins A) :=
    match acc with
    | Err e => Err e
    | Ok best =>
        let l1 := snd (nth 0 part empty_bin) in
        let l2 := snd (nth 1 part empty_bin) in
        match rnp_rec valueof nameof keep f (Nat.div kc 2) true prior l1 best with
        | Err e => Err e
        | Ok nb1 =>
            match rnp_rec valueof nameof keep f (Nat.div kc 2) true prior l2 best with
            | Err e => Err e
            | Ok nb2 =>
                if spread (sums nb1 ++ sums nb2) <? d0 then Ok (nb1 ++ nb2) else Ok best
            end
        end
    end.

  Lemma rnp_rec_S keep f kc isfloat prior items best :
    rnp_rec valueof nameof keep (S f) kc isfloat prior items best =
    if Nat.eqb kc 2 then ckk valueof nameof keep 2 items
    else if Nat.odd kc then
      rnp_dfs valueof (rnp_next_odd keep f kc isfloat prior items)
              (Z.of_nat kc) (vsum items) (bins_spread best) (sort_desc valueof items) [] best
    else
      fold_left (rnp_step_even keep f kc prior (bins_spread best))
                (ckk_generator valueof nameof true 2 items (Some (- bins_spread best))) (Ok best).
  Proof. reflexivity. Qed.

  Lemma rnp_dfs_erase next_t next_f kz t d0 :
    (forall cur b, rmap erase (next_t cur b) = next_f cur (erase b)) ->
    forall rest cur b,
      rmap erase (rnp_dfs valueof next_t kz t d0 rest cur b) =
      rnp_dfs valueof next_f kz t d0 rest cur (erase b).
  Proof.
    intros Hn. induction rest as [|x r IH]; intros cur b; cbn [rnp_dfs];
      destruct (_ || _); try reflexivity; [apply Hn|].
    rewrite <- IH. destruct (rnp_dfs valueof next_t kz t d0 r (cur ++ [x]) b) as [b1|e]; cbn [rmap];
      [apply IH|reflexivity].
  Qed.

  Lemma nth_snd_incl (part : bins A) : forall i, incl (snd (nth i part empty_bin)) (contents part).
  Proof.
    induction part as [|bn t IH]; intros i x Hx.
    - destruct i; destruct Hx.
    - rewrite contents_cons. apply in_or_app. destruct i as [|j]; cbn [nth] in Hx; [left; exact Hx|].
      right. exact (IH j x Hx).
  Qed.

  Lemma generator_parts_incl items' init part : incl items' items0 ->
    In part (ckk_generator valueof nameof true 2 items' init) ->
    forall i, incl (snd (nth i part empty_bin)) items0.
  Proof.
    intros Hi Hp i. pose proof (ckk_generator_valid_any valueof nameof 2 items' init part) as HV.
    destruct HV as (HP & _ & _); [lia|exact Hp|].
    intros x Hx. apply Hi. eapply Permutation_in; [exact HP|]. exact (nth_snd_incl part i x Hx).
  Qed.

  Lemma rnp_rec_erase : forall fuel kc isfloat prior items' best, incl items' items0 ->
    rmap erase (rnp_rec valueof nameof true fuel kc isfloat prior items' best) =
    rnp_rec valueof nameof false fuel kc isfloat (erase prior) items' (erase best).
  Proof.
    induction fuel as [|f IH]; intros kc isfloat prior items' best Hi; [reflexivity|].
    rewrite !rnp_rec_S, bins_spread_erase.
    destruct (Nat.eqb kc 2); [apply ckk2_sub; exact Hi|].
    destruct (Nat.odd kc).
    - apply rnp_dfs_erase. intros cur b. unfold rnp_next_odd.
      destruct (isfloat && negb (Nat.eqb (length cur) 0)); [reflexivity|]. cbv zeta.
      rewrite <- erase_snoc_bin_of, <- IH by (eapply incl_tran; [apply find_diff_incl|exact Hi]).
      destruct (rnp_rec valueof nameof true f (kc - 1) isfloat _ _ b) as [nb|e]; cbn [rmap]; [|reflexivity].
      rewrite !sums_erase, bins_spread_erase.
      destruct (_ <? _); cbn [rmap]; [rewrite erase_app|]; reflexivity.
    - generalize (generator_parts_incl items' (Some (- bins_spread best)) ) as Hparts.
      generalize (ckk_generator valueof nameof true 2 items' (Some (- bins_spread best))) as parts.
      intros parts Hparts.
      assert (G : forall acc_t acc_f, rmap erase acc_t = acc_f ->
                  rmap erase (fold_left (rnp_step_even true f kc prior (bins_spread best)) parts acc_t) =
                  fold_left (rnp_step_even false f kc (erase prior) (bins_spread best)) parts acc_f).
      { induction parts as [|part ps IHp]; intros acc_t acc_f Eacc; cbn [fold_left]; [exact Eacc|].
        apply IHp; [intros part' Hi' Hp'; apply Hparts; [exact Hi'|right; exact Hp']|].
        subst acc_f. destruct acc_t as [b|e]; cbn [rmap rnp_step_even]; [|reflexivity]. cbv zeta.
        pose proof (Hparts part Hi (or_introl eq_refl)) as Hl.
        rewrite <- (IH _ true prior _ b (Hl 0%nat)), <- (IH _ true prior _ b (Hl 1%nat)).
        destruct (rnp_rec valueof nameof true f (Nat.div kc 2) true prior (snd (nth 0 part empty_bin)) b)
          as [nb1|e1]; cbn [rmap]; [|reflexivity].
        destruct (rnp_rec valueof nameof true f (Nat.div kc 2) true prior (snd (nth 1 part empty_bin)) b)
          as [nb2|e2]; cbn [rmap]; [|reflexivity].
        rewrite !sums_erase. destruct (_ <? _); cbn [rmap]; [rewrite erase_app|]; reflexivity. }
      apply G. reflexivity.
  Qed.
End SNPErase.

Theorem snp_erase {A} (valueof nameof : A -> Z) : forall k items,
  Forall (fun x => 0 <= valueof x) items -> names_ok valueof nameof items ->
  rmap erase (snp valueof nameof true k items) = snp valueof nameof false k items.
Proof.
  intros k items Hpos HN. unfold snp. rewrite <- (kk_erase valueof k items).
  destruct (kk valueof true k items) as [best|e]; cbn [rmap]; [|reflexivity].
  rewrite (bins_spread_erase best). destruct (bins_spread best =? 0); cbn [rmap]; [reflexivity|].
  f_equal. apply (snp_rec_erase valueof nameof items Hpos HN k [] items best). apply incl_refl.
Qed.

Theorem rnp_erase {A} (valueof nameof : A -> Z) : forall k items,
  Forall (fun x => 0 <= valueof x) items -> names_ok valueof nameof items ->
  rmap erase (rnp valueof nameof true k items) = rnp valueof nameof false k items.
Proof.
  intros k items Hpos HN. unfold rnp. rewrite <- (kk_erase valueof k items).
  destruct (kk valueof true k items) as [best|e]; cbn [rmap]; [|reflexivity].
  rewrite (bins_spread_erase best). destruct (bins_spread best =? 0); cbn [rmap]; [reflexivity|].
  apply (rnp_rec_erase valueof nameof items Hpos HN (S k) k false [] items best). apply incl_refl.
Qed.

(** ---------------------------------------------------------------------------------- *)
(** * c. C06 for ckk, snp, rnp                                                          *)
(** ---------------------------------------------------------------------------------- *)
Section InstancesCKK.
  Context {A : Type} (valueof nameof : A -> Z).
  Local Notation nonneg := (Forall (fun x : A => 0 <= valueof x)).

  (** every sums-family output, any number of bins *)
  Theorem C06_ckk : forall o k items, keeps o = false -> names_ok valueof nameof items ->
    run_output_r o (fun keep => ckk valueof nameof keep k items) =
    rmap (fun b => derive o (sums b)) (ckk valueof nameof true k items).
  Proof.
    intros o k items Hk HN.
    apply (C06_schema_r (fun keep => ckk valueof nameof keep k items)); [|exact Hk].
    apply ckk_erase. exact HN.
  Qed.

  (** the bin count needs no hypothesis on the names *)
  Theorem C06_ckk_bincount : forall k items, (1 <= k)%nat -> items <> [] ->
    run_output_r OBinCount (fun keep => ckk valueof nameof keep k items) =
    rmap (fun b => derive OBinCount (sums b)) (ckk valueof nameof true k items).
  Proof.
    intros k items Hk Hne. unfold run_output_r. cbn [keeps].
    destruct (ckk_partition valueof nameof k items Hk Hne) as (bt & Et & (_ & Lt & _)).
    destruct (ckk_sums_partition valueof nameof k items Hk Hne) as (bf & (_ & Lf & _) & _ & Ef).
    rewrite Ef, Et. cbn [rmap extract derive]. rewrite sums_erase. unfold sums. rewrite !map_length.
    f_equal. f_equal. transitivity k; [exact Lf|symmetry; exact Lt].
  Qed.

  Theorem C06_snp : forall o k items, keeps o = false -> nonneg items -> names_ok valueof nameof items ->
    run_output_r o (fun keep => snp valueof nameof keep k items) =
    rmap (fun b => derive o (sums b)) (snp valueof nameof true k items).
  Proof.
    intros o k items Hk Hpos HN.
    apply (C06_schema_r (fun keep => snp valueof nameof keep k items)); [|exact Hk].
    apply snp_erase; assumption.
  Qed.

  Theorem C06_rnp : forall o k items, keeps o = false -> nonneg items -> names_ok valueof nameof items ->
    run_output_r o (fun keep => rnp valueof nameof keep k items) =
    rmap (fun b => derive o (sums b)) (rnp valueof nameof true k items).
  Proof.
    intros o k items Hk Hpos HN.
    apply (C06_schema_r (fun keep => rnp valueof nameof keep k items)); [|exact Hk].
    apply rnp_erase; assumption.
  Qed.
End InstancesCKK.

(** ---------------------------------------------------------------------------------- *)
(** * counterexamples and the generator                                                 *)
(** ---------------------------------------------------------------------------------- *)
Definition zid (x : Z) : Z := x.
Definition named : Type := (Z * Z)%type.      (* (name, value) *)
Definition nm (x : named) : Z := fst x.
Definition vl (x : named) : Z := snd x.

(** [names_ok] cannot be dropped: when all items carry the same name the contents manager
    merges combinations with different sums and misses the optimum, while the sums manager
    (which never looks at names) finds it *)
Example ckk_erase_needs_names_ok :
  rmap erase (ckk zid (fun _ => 0) true 2 [4; 5; 6; 7; 8]) = Ok [(12, []); (18, [])] /\
  ckk zid (fun _ => 0) false 2 [4; 5; 6; 7; 8] = Ok [(15, []); (15, [])].
Proof. vm_compute. split; reflexivity. Qed.

Example snp_erase_needs_names_ok :
  rmap erase (snp zid (fun _ => 0) true 2 [4; 5; 6; 7; 8]) = Ok [(14, []); (16, [])] /\
  snp zid (fun _ => 0) false 2 [4; 5; 6; 7; 8] = Ok [(15, []); (15, [])].
Proof. vm_compute. split; reflexivity. Qed.

Example rnp_erase_needs_names_ok :
  rmap erase (rnp zid (fun _ => 0) true 2 [4; 5; 6; 7; 8]) = Ok [(12, []); (18, [])] /\
  rnp zid (fun _ => 0) false 2 [4; 5; 6; 7; 8] = Ok [(15, []); (15, [])].
Proof. vm_compute. split; reflexivity. Qed.

(** the two searches pop the same heaps (before the repair: 19 and 16 nodes on this input) *)
Example ckk_managers_search_alike :
  ckk_nodes (ckk_run zid zid true true None 3 [1; 1; 1; 2; 3; 3; 5]) = 16%nat /\
  ckk_nodes (ckk_run zid zid false true None 3 [1; 1; 1; 2; 3; 3; 5]) = 16%nat /\
  rmap erase (ckk zid zid true 3 [1; 1; 1; 2; 3; 3; 5]) = ckk zid zid false 3 [1; 1; 1; 2; 3; 3; 5].
Proof. vm_compute. repeat split; reflexivity. Qed.

(** the former witnesses of disagreement (four bins, plain and named; five bins; see
    Proofs/CKKManagersProofs.v) *)
Example ckk_erase_former_witnesses :
  rmap erase (ckk zid zid true 4 [4; 5; 7; 9; 10; 10; 12; 14; 15]) =
    ckk zid zid false 4 [4; 5; 7; 9; 10; 10; 12; 14; 15] /\
  ckk zid zid false 4 [4; 5; 7; 9; 10; 10; 12; 14; 15] = Ok [(20, []); (20, []); (23, []); (23, [])] /\
  rmap erase (ckk zid zid true 5 [3; 4; 5; 6; 7; 8; 9; 11; 12; 13; 13]) =
    ckk zid zid false 5 [3; 4; 5; 6; 7; 8; 9; 11; 12; 13; 13].
Proof. vm_compute. repeat split; reflexivity. Qed.

(** ckk_generator: [ckk_generator_erase] holds in every mode.  Before the repair the contents
    manager yielded, with an explicit bound (the mode used by rnp), partitions that differ only
    in their contents separately (16 yields against 15 on this input). *)
Definition gen_items : list named := [(1, 1); (2, 1); (3, 2); (4, 2); (5, 3)].

Example ckk_generator_erase_bounded :
  length (ckk_generator vl nm true 2 gen_items (Some (-10))) = 15%nat /\
  map erase (ckk_generator vl nm true 2 gen_items (Some (-10))) =
    ckk_generator vl nm false 2 gen_items (Some (-10)).
Proof. vm_compute. split; reflexivity. Qed.

Example ckk_generator_default_example :
  map erase (ckk_generator vl nm true 3 gen_items None) = ckk_generator vl nm false 3 gen_items None /\
  ckk_generator vl nm false 3 gen_items None = [[(3, []); (3, []); (3, [])]].
Proof. vm_compute. split; reflexivity. Qed.

(** ---------------------------------------------------------------------------------- *)
(** * examples (concrete runs; several are the doctests of the adaptors)                *)
(** ---------------------------------------------------------------------------------- *)

(** b. extractors *)
Example ex_extract :
  let b : bins Z := [(11, [7; 4]); (8, [8]); (11, [6; 5])] in
  extract OSums (erase b) = OutSums [11; 8; 11] /\
  extract OSorted (erase b) = OutSums [8; 11; 11] /\
  extract OLargest (erase b) = OutNum 11 /\
  extract OSmallest (erase b) = OutNum 8 /\
  extract OExtreme (erase b) = OutPair 8 11 /\
  extract ODifference (erase b) = OutNum 3 /\
  extract OBinCount (erase b) = OutCount 3 /\
  extract OPartition b = OutLists [[7; 4]; [8]; [6; 5]] /\
  extract OPartition (erase b) = OutLists [[]; []; []].
Proof. vm_compute. repeat split; reflexivity. Qed.

(** d. sums are the totals of the lists *)
Example ex_wf :
  let b : bins Z := [(11, [7; 4]); (8, [8]); (11, [6; 5])] in
  wf zid b /\ sums (erase b) = map (fun l => zsum (map zid l)) (lists b).
Proof. split; [repeat constructor|reflexivity]. Qed.

(** c. partitioning *)
Example ex_greedy :
  run_partition OSorted (@greedy Z) zid 3 [4; 5; 6; 7; 8] = OutSums [8; 11; 11] /\
  run_partition OPartitionAndSums (@greedy Z) zid 3 [4; 5; 6; 7; 8] =
    OutBins [(8, [8]); (11, [7; 4]); (11, [6; 5])].
Proof. vm_compute. split; reflexivity. Qed.

Example ex_roundrobin :
  run_partition OExtreme (@roundrobin Z) zid 3 [4; 5; 6; 7; 8] = OutPair 6 13 /\
  run_partition OPartition (@roundrobin Z) zid 3 [4; 5; 6; 7; 8] = OutLists [[8; 5]; [7; 4]; [6]].
Proof. vm_compute. split; reflexivity. Qed.

Example ex_kk :
  run_partition_r ODifference (@kk Z) zid 3 [4; 5; 6; 7; 8] = Ok (OutNum 3) /\
  run_partition_r OPartitionAndSums (@kk Z) zid 3 [4; 5; 6; 7; 8] =
    Ok (OutBins [(8, [8]); (11, [4; 7]); (11, [5; 6])]).
Proof. vm_compute. split; reflexivity. Qed.

Example ex_cg :
  run_output_o OSorted (fun keep => cg zid keep MinLargest (mk_flags true true true true) None 3 [4; 5; 6; 7; 8])
    = Some (OutSums [8; 11; 11]) /\
  run_output_o OPartitionAndSums
    (fun keep => cg zid keep MinLargest (mk_flags true true true true) None 3 [4; 5; 6; 7; 8])
    = Some (OutBins [(8, [8]); (11, [7; 4]); (11, [6; 5])]).
Proof. vm_compute. split; reflexivity. Qed.

(** partition(algorithm=dp, numbins=3, items=[1,2,3,3,5,9,9], outputtype=LargestSum) = 11 *)
Example ex_dp :
  run_output_r OLargest (fun keep => dp zid keep MinDiff 3 [1; 2; 3; 3; 5; 9; 9]) = Ok (OutNum 11) /\
  run_output_r OPartition (fun keep => dp zid keep MinDiff 3 [1; 2; 3; 3; 5; 9; 9]) =
    Ok (OutLists [[1; 9]; [2; 9]; [3; 3; 5]]).
Proof. vm_compute. split; reflexivity. Qed.

(** partition(optimal, 2, {"a":1,"b":2,"c":3,"d":3,"e":5,"f":9,"g":9}, outputtype=Sums) = [16,16];
    partition(optimal, 3, the same) = [['a','f'],['c','d','e'],['b','g']]
    (NOTE: before the repair that de-duplicates the children of a node by their sums, the model and
    the doctest of complete_karmarkar_karp_sy.py gave [['a','g'],['c','d','e'],['b','f']]: the two
    combinations have the same sums [10;11;11] and only the first one is explored now) *)
Definition items_ag : list named := [(1, 1); (2, 2); (3, 3); (4, 3); (5, 5); (6, 9); (7, 9)].

Example ex_ckk :
  run_output_r OSums (fun keep => ckk vl nm keep 2 items_ag) = Ok (OutSums [16; 16]) /\
  run_output_r OSums (fun keep => ckk vl nm keep 3 items_ag) = Ok (OutSums [10; 11; 11]) /\
  run_output_r OPartition (fun keep => ckk vl nm keep 3 items_ag) =
    Ok (OutLists [[(1, 1); (6, 9)]; [(3, 3); (4, 3); (5, 5)]; [(2, 2); (7, 9)]]).
Proof. vm_compute. repeat split; reflexivity. Qed.

Example ex_snp_rnp :
  run_output_r OSums (fun keep => snp vl nm keep 3 items_ag) = Ok (OutSums [10; 11; 11]) /\
  run_output_r OPartitionAndSums (fun keep => snp vl nm keep 3 items_ag) =
    Ok (OutBins [(10, [(1, 1); (6, 9)]); (11, [(2, 2); (7, 9)]); (11, [(4, 3); (5, 5); (3, 3)])]) /\
  run_output_r OSorted (fun keep => rnp vl nm keep 3 items_ag) = Ok (OutSums [10; 11; 11]) /\
  run_output_r OPartitionAndSums (fun keep => rnp vl nm keep 3 items_ag) =
    Ok (OutBins [(10, [(1, 1); (6, 9)]); (11, [(2, 2); (7, 9)]); (11, [(4, 3); (5, 5); (3, 3)])]).
Proof. vm_compute. repeat split; reflexivity. Qed.

Example ex_cbldm :
  cbldm zid 2 [8; 7; 6; 5; 4] true 1 true None = Ok (CbBins [(15, [4; 6; 5]); (15, [8; 7])], 15%nat) /\
  run_output ODifference (fun _ : bool => [(15, [4; 6; 5]); (15, [8; 7])]) = OutNum 0.
Proof. vm_compute. split; reflexivity. Qed.

(** c. packing: the doctests of packing/adaptors.py *)
Definition ffd_items : list Z := [44; 24; 24; 22; 21; 17; 8; 8; 6; 6].

Example ex_ffd :
  run_pack_r OBinCount (@first_fit_decreasing Z) zid 60 ffd_items = Ok (OutCount 3) /\
  run_pack_r OBinCount (@first_fit_decreasing Z) zid 61 ffd_items = Ok (OutCount 4) /\
  run_pack_r OSums (@first_fit_decreasing Z) zid 60 ffd_items = Ok (OutSums [60; 60; 60]) /\
  run_pack_r OPartition (@first_fit_decreasing Z) zid 60 ffd_items =
    Ok (OutLists [[44; 8; 8]; [24; 24; 6; 6]; [22; 21; 17]]).
Proof. vm_compute. repeat split; reflexivity. Qed.

Example ex_fit :
  run_pack_r OSums (@first_fit Z) zid 10 [5; 7; 5; 2; 4; 2; 5; 1; 6] = Ok (OutSums [10; 10; 6; 5; 6]) /\
  run_pack_r OLargest (@first_fit Z) zid 10 [5; 7; 5; 2; 4; 2; 5; 1; 11] = Err ValueError /\
  run_pack_r OPartition (@first_fit Z) zid 10 [5; 7; 5; 2; 4; 2; 5; 1; 11] = Err ValueError /\
  run_pack_r OSums (@best_fit Z) zid 10 [5; 7; 5; 2; 4; 2; 5; 1; 6] = Ok (OutSums [10; 10; 6; 5; 6]) /\
  run_pack_r OPartition (@best_fit Z) zid 10 [5; 7; 5; 2; 4; 2; 5; 1; 6] =
    Ok (OutLists [[5; 5]; [7; 2; 1]; [4; 2]; [5]; [6]]) /\
  run_pack_r OBinCount (@best_fit_decreasing Z) zid 10 [5; 7; 5; 2; 4; 2; 5; 1; 6] = Ok (OutCount 4).
Proof. vm_compute. repeat split; reflexivity. Qed.

Example ex_bin_completion :
  run_output_r OBinCount (fun keep => bin_completion keep 100 1000 [99; 97; 94; 93; 8; 5; 4; 2]) =
    Ok (OutCount 5) /\
  run_output_r OPartition (fun keep => bin_completion keep 100 1000 [99; 97; 94; 93; 8; 5; 4; 2]) =
    Ok (OutLists [[99]; [97; 2]; [94; 5]; [93; 4]; [8]]).
Proof. vm_compute. split; reflexivity. Qed.

Example ex_cover :
  run_pack OSums (@cover_decreasing Z) zid 10 [5; 7; 5; 2; 4; 2; 5; 1; 6] = OutSums [13; 10; 11] /\
  run_pack OPartition (@cover_decreasing Z) zid 10 [5; 7; 5; 2; 4; 2; 5; 1; 6] =
    OutLists [[7; 6]; [5; 5]; [5; 4; 2]] /\
  run_pack OSmallest (@cover_twothirds Z) zid 10 [5; 7; 5; 2; 4; 2; 5; 1; 6] = OutNum 10 /\
  run_pack OPartitionAndSums (@cover_twothirds Z) zid 10 [5; 7; 5; 2; 4; 2; 5; 1; 6] =
    OutBins [(10, [7; 1; 2]); (12, [6; 2; 4]); (10, [5; 5])] /\
  run_pack OBinCount (@cover_threequarters Z) zid 10 [5; 7; 5; 2; 4; 2; 5; 1; 6] = OutCount 3 /\
  run_pack OPartitionAndSums (@cover_threequarters Z) zid 10 [5; 7; 5; 2; 4; 2; 5; 1; 6] =
    OutBins [(10, [7; 1; 2]); (13, [6; 2; 5]); (10, [5; 5])].
Proof. vm_compute. repeat split; reflexivity. Qed.

(** ---------------------------------------------------------------------------------- *)
Check sums_erase. Check length_erase. Check lists_erase.
Check extract_derive. Check extract_erase. Check extract_erase_same. Check derive_sorted.
Check extract_erase_OSums. Check extract_erase_OLargest. Check extract_erase_OSmallest.
Check extract_erase_OExtreme. Check extract_erase_OSorted. Check extract_erase_ODifference.
Check extract_erase_OBinCount.
Check wf_erase_sums. Check wf_sums_lists. Check wf_erase_sums_lists.
Check C06_schema. Check C06_schema_extract. Check C06_schema_observed. Check C06_schema_lists.
Check C06_schema_r. Check C06_schema_r_ok. Check C06_schema_r_err. Check C06_schema_o. Check C06_schema_const.
Check C06_greedy. Check C06_roundrobin. Check C06_kk. Check C06_cg. Check C06_dp.
Check C06_first_fit. Check C06_first_fit_decreasing. Check C06_best_fit. Check C06_best_fit_decreasing.
Check C06_bin_completion.
Check C06_cover_decreasing. Check C06_cover_twothirds. Check C06_cover_threequarters.
Check C06_greedy_lists. Check C06_cbldm.
Check ckk_children_erase. Check ckk_explore_erase. Check ckk_run_erase.
Check ckk_erase. Check ckk_erase_sums. Check ckk_generator_erase. Check ckk_nodes_erase.
Check ckk_sums_partition. Check ckk_sums_optimal. Check ckk_erase_2.
Check snp_erase. Check rnp_erase.
Check C06_ckk. Check C06_ckk_bincount. Check C06_snp. Check C06_rnp.

Print Assumptions sums_erase.
Print Assumptions length_erase.
Print Assumptions extract_derive.
Print Assumptions extract_erase.
Print Assumptions extract_erase_same.
Print Assumptions derive_sorted.
Print Assumptions wf_erase_sums.
Print Assumptions wf_sums_lists.
Print Assumptions C06_schema.
Print Assumptions C06_schema_observed.
Print Assumptions C06_schema_lists.
Print Assumptions C06_schema_r.
Print Assumptions C06_schema_o.
Print Assumptions C06_schema_const.
Print Assumptions C06_greedy.
Print Assumptions C06_roundrobin.
Print Assumptions C06_kk.
Print Assumptions C06_cg.
Print Assumptions C06_dp.
Print Assumptions C06_first_fit.
Print Assumptions C06_first_fit_decreasing.
Print Assumptions C06_best_fit.
Print Assumptions C06_best_fit_decreasing.
Print Assumptions C06_bin_completion.
Print Assumptions C06_cover_decreasing.
Print Assumptions C06_cover_twothirds.
Print Assumptions C06_cover_threequarters.
Print Assumptions C06_greedy_lists.
Print Assumptions C06_cbldm.
Print Assumptions ckk_sums_partition.
Print Assumptions ckk_sums_optimal.
Print Assumptions ckk_children_erase.
Print Assumptions ckk_explore_erase.
Print Assumptions ckk_run_erase.
Print Assumptions ckk_erase.
Print Assumptions ckk_erase_sums.
Print Assumptions ckk_generator_erase.
Print Assumptions ckk_nodes_erase.
Print Assumptions ckk_erase_2.
Print Assumptions snp_erase.
Print Assumptions rnp_erase.
Print Assumptions C06_ckk.
Print Assumptions C06_ckk_bincount.
Print Assumptions C06_snp.
Print Assumptions C06_rnp.
