(** Properties of the models of greedy.py (LPT) and roundrobin.py (Model/Greedy.v):
    partition correctness, sums-only run (C06), names irrelevance (C07), gap bounds and
    round-robin shape (C08). *)
From Prtpy Require Import Base.Prelude Model.Binner Model.Greedy Spec.Partition
  Proofs.BaseLemmas Proofs.BinnerLemmas.
From Coq Require Import Sorting.Sorted Arith ZifyBool.

(** ---- generic list facts used below ---- *)

Lemma In_update {T} (f : T -> T) d a : forall l i,
  In a (update i f l) -> In a l \/ ((i < length l)%nat /\ a = f (nth i l d)).
Proof.
  induction l as [|y t IH]; intros [|j] H; simpl in *; try contradiction.
  - destruct H as [H|H]; auto. right. split; [lia|auto].
  - destruct H as [H|H]; auto.
    destruct (IH j H) as [H1|[H1 H2]]; auto. right. split; [lia|auto].
Qed.

Lemma nth_update {T} (f : T -> T) d l i j : (i < length l)%nat ->
  nth j (update i f l) d = if Nat.eqb i j then f (nth j l d) else nth j l d.
Proof.
  intros Hi. destruct (Nat.eqb i j) eqn:E.
  - apply Nat.eqb_eq in E. subst j. apply update_nth_same; auto.
  - apply Nat.eqb_neq in E. apply update_nth_other; auto.
Qed.

Lemma map_repeat' {T U} (f : T -> U) x n : map f (repeat x n) = repeat (f x) n.
Proof. induction n as [|n IH]; simpl; [reflexivity|]. rewrite IH. reflexivity. Qed.

Lemma nth_repeat' {T} (x : T) n i : nth i (repeat x n) x = x.
Proof. revert i; induction n as [|n IH]; intros [|i]; simpl; auto. Qed.

Lemma succ_mod_lt r k : (S r < k)%nat -> Nat.modulo (S r) k = S r.
Proof. intros H. apply Nat.mod_small; auto. Qed.

Lemma succ_mod_eq r k : S r = k -> Nat.modulo (S r) k = O.
Proof. intros H. rewrite H. apply Nat.mod_same. lia. Qed.

Section GreedyProofs.
  Context {A : Type} (valueof : A -> Z).

  Lemma sums_length (b : bins A) : length (sums b) = length b.
  Proof. apply map_length. Qed.

  Lemma argmin_sums_lt (b : bins A) : (1 <= length b)%nat -> (argmin (sums b) < length b)%nat.
  Proof.
    intros Hb. rewrite <- sums_length. apply argmin_spec.
    destruct b as [|bn t]; simpl in *; [lia|discriminate].
  Qed.

  (** ================= 1. greedy returns a partition ================= *)

  Lemma greedy_step_length keep b x : length (greedy_step valueof keep b x) = length b.
  Proof. apply add_item_length. Qed.

  Lemma greedy_step_wf b x : wf valueof b -> wf valueof (greedy_step valueof true b x).
  Proof. apply add_item_wf. Qed.

  Lemma greedy_step_contents b x : (1 <= length b)%nat ->
    Permutation (contents (greedy_step valueof true b x)) (x :: contents b).
  Proof. intros Hb. apply add_item_contents. apply argmin_sums_lt; auto. Qed.

  Lemma greedy_fold_inv l : forall b, (1 <= length b)%nat -> wf valueof b ->
    length (fold_left (greedy_step valueof true) l b) = length b /\
    wf valueof (fold_left (greedy_step valueof true) l b) /\
    Permutation (contents (fold_left (greedy_step valueof true) l b)) (l ++ contents b).
  Proof.
    induction l as [|x t IH]; intros b Hb Hwf.
    - simpl. auto.
    - cbn [fold_left].
      destruct (IH (greedy_step valueof true b x)) as (H1 & H2 & H3).
      + rewrite greedy_step_length; auto.
      + apply greedy_step_wf; auto.
      + rewrite greedy_step_length in H1. split; [auto|]. split; [auto|].
        rewrite H3. rewrite greedy_step_contents by auto.
        simpl. symmetry. apply Permutation_middle.
  Qed.

  Theorem greedy_partition : forall k items, (1 <= k)%nat ->
    is_partition valueof k items (greedy valueof true k items).
  Proof.
    intros k items Hk. unfold is_partition, greedy.
    destruct (greedy_fold_inv (sort_desc valueof items) (new_bins k)) as (H1 & H2 & H3).
    - rewrite new_bins_length; auto.
    - apply new_bins_wf.
    - rewrite new_bins_length in H1. rewrite new_bins_contents, app_nil_r in H3.
      split; [|split]; auto.
      rewrite H3. apply sort_desc_perm.
  Qed.

  (** ================= 2. roundrobin returns a partition ================= *)

  Lemma rr_loop_part_inv k l : forall ibin b, (ibin < k)%nat -> length b = k -> wf valueof b ->
    length (rr_loop valueof true k l ibin b) = k /\
    wf valueof (rr_loop valueof true k l ibin b) /\
    Permutation (contents (rr_loop valueof true k l ibin b)) (l ++ contents b).
  Proof.
    induction l as [|x t IH]; intros ibin b Hi Hlen Hwf.
    - simpl. auto.
    - cbn [rr_loop].
      destruct (IH (Nat.modulo (S ibin) k) (add_item valueof true b x ibin)) as (H1 & H2 & H3).
      + apply Nat.mod_upper_bound. lia.
      + rewrite add_item_length; auto.
      + apply add_item_wf; auto.
      + split; [auto|]. split; [auto|].
        rewrite H3. rewrite add_item_contents by lia.
        simpl. symmetry. apply Permutation_middle.
  Qed.

  Theorem roundrobin_partition : forall k items, (1 <= k)%nat ->
    is_partition valueof k items (roundrobin valueof true k items).
  Proof.
    intros k items Hk. unfold is_partition, roundrobin.
    destruct (rr_loop_part_inv k (sort_desc valueof items) O (new_bins k)) as (H1 & H2 & H3).
    - lia.
    - apply new_bins_length.
    - apply new_bins_wf.
    - rewrite new_bins_contents, app_nil_r in H3.
      split; [|split]; auto.
      rewrite H3. apply sort_desc_perm.
  Qed.

  (** ================= 3. the sums-only run makes the same decisions (C06) ================= *)

  Lemma erase_add_item (b : bins A) x i :
    erase (add_item valueof true b x i) = add_item valueof false (erase b) x i.
  Proof. unfold erase, add_item. apply map_update. intros y. reflexivity. Qed.

  Lemma erase_new_bins k : erase (@new_bins A k) = new_bins k.
  Proof. unfold erase, new_bins. rewrite map_repeat'. reflexivity. Qed.

  Lemma erase_greedy_step (b : bins A) x :
    erase (greedy_step valueof true b x) = greedy_step valueof false (erase b) x.
  Proof. unfold greedy_step. rewrite erase_add_item, erase_sums. reflexivity. Qed.

  Lemma erase_greedy_fold l : forall b : bins A,
    erase (fold_left (greedy_step valueof true) l b) =
    fold_left (greedy_step valueof false) l (erase b).
  Proof.
    induction l as [|x t IH]; intros b; cbn [fold_left]; [reflexivity|].
    rewrite IH, erase_greedy_step. reflexivity.
  Qed.

  Theorem greedy_erase : forall k items,
    erase (greedy valueof true k items) = greedy valueof false k items.
  Proof.
    intros k items. unfold greedy. rewrite erase_greedy_fold, erase_new_bins. reflexivity.
  Qed.

  Lemma erase_rr_loop k l : forall ibin (b : bins A),
    erase (rr_loop valueof true k l ibin b) = rr_loop valueof false k l ibin (erase b).
  Proof.
    induction l as [|x t IH]; intros ibin b; cbn [rr_loop]; [reflexivity|].
    rewrite IH, erase_add_item. reflexivity.
  Qed.

  Theorem roundrobin_erase : forall k items,
    erase (roundrobin valueof true k items) = roundrobin valueof false k items.
  Proof.
    intros k items. unfold roundrobin. rewrite erase_rr_loop, erase_new_bins. reflexivity.
  Qed.

  (** ================= 4. names are irrelevant (C07) ================= *)

  Lemma map_bins_sums (b : bins A) : sums (map_bins valueof b) = sums b.
  Proof. unfold sums, map_bins. rewrite map_map. reflexivity. Qed.

  Lemma map_bins_new_bins k : map_bins valueof (@new_bins A k) = new_bins k.
  Proof. unfold map_bins, new_bins. rewrite map_repeat'. reflexivity. Qed.

  Lemma map_bins_add_item (b : bins A) x i :
    map_bins valueof (add_item valueof true b x i) =
    add_item (fun v : Z => v) true (map_bins valueof b) (valueof x) i.
  Proof.
    unfold map_bins, add_item. apply map_update. intros y.
    unfold add_to_bin. cbn [fst snd]. rewrite map_app. reflexivity.
  Qed.

  Lemma map_bins_greedy_step (b : bins A) x :
    map_bins valueof (greedy_step valueof true b x) =
    greedy_step (fun v : Z => v) true (map_bins valueof b) (valueof x).
  Proof. unfold greedy_step. rewrite map_bins_add_item, map_bins_sums. reflexivity. Qed.

  Lemma map_bins_greedy_fold l : forall b : bins A,
    map_bins valueof (fold_left (greedy_step valueof true) l b) =
    fold_left (greedy_step (fun v : Z => v) true) (map valueof l) (map_bins valueof b).
  Proof.
    induction l as [|x t IH]; intros b; cbn [fold_left map]; [reflexivity|].
    rewrite IH, map_bins_greedy_step. reflexivity.
  Qed.

  Theorem greedy_names : forall k items,
    map_bins valueof (greedy valueof true k items) =
    greedy (fun v : Z => v) true k (map valueof items).
  Proof.
    intros k items. unfold greedy.
    rewrite map_bins_greedy_fold, map_bins_new_bins.
    rewrite (sort_desc_map valueof valueof (fun v : Z => v)) by reflexivity.
    reflexivity.
  Qed.

  Lemma map_bins_rr_loop k l : forall ibin (b : bins A),
    map_bins valueof (rr_loop valueof true k l ibin b) =
    rr_loop (fun v : Z => v) true k (map valueof l) ibin (map_bins valueof b).
  Proof.
    induction l as [|x t IH]; intros ibin b; cbn [rr_loop map]; [reflexivity|].
    rewrite IH, map_bins_add_item. reflexivity.
  Qed.

  Theorem roundrobin_names : forall k items,
    map_bins valueof (roundrobin valueof true k items) =
    roundrobin (fun v : Z => v) true k (map valueof items).
  Proof.
    intros k items. unfold roundrobin.
    rewrite map_bins_rr_loop, map_bins_new_bins.
    rewrite (sort_desc_map valueof valueof (fun v : Z => v)) by reflexivity.
    reflexivity.
  Qed.

  (** ================= 5a. gap bound for greedy (C08) ================= *)

  (** any two loads differ by at most M *)
  Definition gap_le (M : Z) (s : list Z) : Prop := forall a b, In a s -> In b s -> a <= b + M.

  Lemma gap_le_repeat0 M n : 0 <= M -> gap_le M (repeat 0 n).
  Proof.
    intros HM a b Ha Hb. apply repeat_spec in Ha. apply repeat_spec in Hb. lia.
  Qed.

  Lemma gap_le_spread M s : 0 <= M -> gap_le M s -> zmax s - zmin s <= M.
  Proof.
    intros HM H. destruct s as [|y t].
    - simpl. lia.
    - assert (Hne : y :: t <> []) by discriminate.
      specialize (H (zmax (y :: t)) (zmin (y :: t)) (zmax_in _ Hne) (zmin_in _ Hne)). lia.
  Qed.

  (** adding 0 <= x <= M to a least-loaded bin keeps all loads within M of each other;
      no assumption on the order in which items arrive *)
  Lemma gap_le_step M s x : 0 <= x <= M -> gap_le M s ->
    gap_le M (update (argmin s) (fun a => a + x) s).
  Proof.
    intros Hx H. destruct s as [|y t]; [exact H|].
    assert (Hne : y :: t <> []) by discriminate.
    destruct (argmin_spec (y :: t) Hne) as (Hlt & Hmin & _).
    set (s := y :: t) in *. set (m := nth (argmin s) s 0) in *.
    assert (Hm : In m s) by (apply nth_In; exact Hlt).
    rewrite Forall_forall in Hmin.
    intros a b Ha Hb.
    apply (In_update _ 0) in Ha. apply (In_update _ 0) in Hb. fold m in Ha, Hb.
    destruct Ha as [Ha|[_ Ha]]; destruct Hb as [Hb|[_ Hb]].
    - apply H; auto.
    - specialize (H a m Ha Hm). lia.
    - specialize (Hmin b Hb). lia.
    - lia.
  Qed.

  Lemma greedy_fold_gap M keep l : forall b : bins A,
    Forall (fun x => 0 <= valueof x <= M) l -> gap_le M (sums b) ->
    gap_le M (sums (fold_left (greedy_step valueof keep) l b)).
  Proof.
    induction l as [|x t IH]; intros b Hl Hb; cbn [fold_left]; [exact Hb|].
    inversion Hl as [|x' t' Hx Ht]; subst.
    apply IH; [exact Ht|].
    unfold greedy_step. rewrite add_item_sums. apply gap_le_step; auto.
  Qed.

  Lemma zmax_values_bound (items : list A) :
    Forall (fun x => 0 <= valueof x) items ->
    0 <= zmax (map valueof items) /\
    Forall (fun x => 0 <= valueof x <= zmax (map valueof items)) items.
  Proof.
    intros Hpos.
    pose proof (zmax_ge (map valueof items)) as Hge. rewrite Forall_map in Hge.
    assert (Hall : Forall (fun x => 0 <= valueof x <= zmax (map valueof items)) items).
    { rewrite Forall_forall in *. intros x Hx. split; [apply Hpos|apply Hge]; auto. }
    split; [|exact Hall].
    destruct items as [|x t]; [simpl; lia|].
    inversion Hall as [|x' t' Hx Ht]; subst. lia.
  Qed.

  (** general form: any keep flag, no hypothesis on k or on items being non-empty *)
  Lemma greedy_gap_gen keep k items : Forall (fun x => 0 <= valueof x) items ->
    zmax (sums (greedy valueof keep k items)) - zmin (sums (greedy valueof keep k items))
    <= zmax (map valueof items).
  Proof.
    intros Hpos. destruct (zmax_values_bound items Hpos) as [HM Hall].
    apply gap_le_spread; [exact HM|].
    unfold greedy. apply greedy_fold_gap.
    - eapply Permutation_Forall; [symmetry; apply sort_desc_perm|exact Hall].
    - rewrite new_bins_sums. apply gap_le_repeat0; exact HM.
  Qed.

  Theorem greedy_gap : forall k items, (1 <= k)%nat -> items <> [] ->
    Forall (fun x => 0 <= valueof x) items ->
    zmax (sums (greedy valueof true k items)) - zmin (sums (greedy valueof true k items))
    <= zmax (map valueof items).
  Proof. intros k items _ _ Hpos. apply greedy_gap_gen; exact Hpos. Qed.

  (** ================= 6a. round-robin bin sizes (C08) ================= *)

  Definition cards (b : bins A) : list nat := map (fun bn => length (snd bn)) b.

  Lemma cards_length b : length (cards b) = length b.
  Proof. apply map_length. Qed.

  Lemma cards_add_item b x i : cards (add_item valueof true b x i) = update i S (cards b).
  Proof.
    unfold cards, add_item. apply map_update. intros y.
    unfold add_to_bin. cbn [snd]. rewrite app_length. simpl. lia.
  Qed.

  Lemma cards_new_bins k : cards (@new_bins A k) = repeat O k.
  Proof. unfold cards, new_bins. rewrite map_repeat'. reflexivity. Qed.

  (** bins before the cursor r hold q+1 items, bins from r on hold q items *)
  Definition card_inv (k r : nat) (c : list nat) : Prop :=
    length c = k /\ (r < k)%nat /\
    exists q, forall i, (i < k)%nat -> nth i c O = if (i <? r)%nat then S q else q.

  Lemma card_inv_step k r c : card_inv k r c -> card_inv k (Nat.modulo (S r) k) (update r S c).
  Proof.
    intros (Hlen & Hr & q & Hq).
    assert (Hk : (S r < k)%nat \/ S r = k) by lia.
    destruct Hk as [Hk|Hk].
    - rewrite succ_mod_lt by exact Hk.
      split; [rewrite update_length; exact Hlen|]. split; [exact Hk|].
      exists q. intros i Hi. rewrite nth_update by lia. specialize (Hq i Hi).
      destruct (Nat.eqb r i) eqn:E; destruct (i <? r)%nat eqn:E1; destruct (i <? S r)%nat eqn:E2; lia.
    - rewrite succ_mod_eq by exact Hk.
      split; [rewrite update_length; exact Hlen|]. split; [lia|].
      exists (S q). intros i Hi. rewrite nth_update by lia. specialize (Hq i Hi).
      destruct (Nat.eqb r i) eqn:E; destruct (i <? r)%nat eqn:E1; destruct (i <? O)%nat eqn:E2; lia.
  Qed.

  Lemma rr_loop_card_inv k l : forall r b, card_inv k r (cards b) ->
    exists r', card_inv k r' (cards (rr_loop valueof true k l r b)).
  Proof.
    induction l as [|x t IH]; intros r b H; cbn [rr_loop].
    - exists r. exact H.
    - apply IH. rewrite cards_add_item. apply card_inv_step. exact H.
  Qed.

  Lemma card_inv_shape k r c : card_inv k r c -> forall i j, (i < j < k)%nat ->
    (nth j c O <= nth i c O <= nth j c O + 1)%nat.
  Proof.
    intros (Hlen & Hr & q & Hq) i j Hij.
    pose proof (Hq i ltac:(lia)) as Hi. pose proof (Hq j ltac:(lia)) as Hj.
    destruct (i <? r)%nat eqn:E1; destruct (j <? r)%nat eqn:E2; lia.
  Qed.

  Theorem rr_cardinality : forall k items, (1 <= k)%nat -> forall i j, (i < j < k)%nat ->
    let c := map (fun bn => length (snd bn)) (roundrobin valueof true k items) in
    (nth j c 0 <= nth i c 0 <= nth j c 0 + 1)%nat.
  Proof.
    intros k items Hk i j Hij c. subst c. unfold roundrobin.
    destruct (rr_loop_card_inv k (sort_desc valueof items) O (new_bins k)) as [r' H].
    - rewrite cards_new_bins. split; [apply repeat_length|]. split; [lia|].
      exists O. intros i' Hi'. rewrite nth_repeat'. reflexivity.
    - exact (card_inv_shape _ _ _ H i j Hij).
  Qed.

  (** ================= 6b / 5b. round-robin: sums are non-increasing, gap bound (C08) ================= *)

  (** Invariant on the vector of sums s, with cursor r (next bin), w = the last value dealt
      (an upper bound on all future values; initially M) and M an upper bound on all values:
      - sums are non-increasing in the bin index;
      - the bin just before the cursor is ahead of the cursor bin by at least w;
      - first-minus-last is <= M, and even <= M - w when a round has just been completed. *)
  Definition rr_inv (M : Z) (k r : nat) (w : Z) (s : list Z) : Prop :=
    length s = k /\ (r < k)%nat /\ 0 <= w <= M /\
    (forall i, (S i < k)%nat -> nth (S i) s 0 <= nth i s 0) /\
    (forall p, r = S p -> nth (S p) s 0 + w <= nth p s 0) /\
    (r = O -> nth O s 0 - nth (k - 1) s 0 + w <= M) /\
    (r <> O -> nth O s 0 - nth (k - 1) s 0 <= M).

  Lemma rr_inv_init M k : (1 <= k)%nat -> 0 <= M -> rr_inv M k O M (repeat 0 k).
  Proof.
    intros Hk HM. unfold rr_inv. rewrite repeat_length.
    split; [reflexivity|]. split; [lia|]. split; [lia|].
    split; [|split; [|split]].
    - intros i Hi. rewrite !nth_repeat'. lia.
    - intros p Hp. discriminate.
    - intros _. rewrite !nth_repeat'. lia.
    - intros H. congruence.
  Qed.

  Lemma rr_inv_step M k r w s x : 0 <= x <= w -> rr_inv M k r w s ->
    rr_inv M k (Nat.modulo (S r) k) x (update r (fun a => a + x) s).
  Proof.
    intros Hx (Hlen & Hr & Hw & Hadj & Hprev & Hfull & Hpart).
    assert (Hk : (S r < k)%nat \/ S r = k) by lia.
    unfold rr_inv. rewrite update_length.
    destruct Hk as [Hk|Hk].
    - rewrite succ_mod_lt by exact Hk.
      split; [exact Hlen|]. split; [exact Hk|]. split; [lia|].
      split; [|split; [|split]].
      + intros i Hi. rewrite !nth_update by lia.
        pose proof (Hadj i Hi) as Hi1. pose proof (Hprev i) as Hi2.
        destruct (Nat.eqb r (S i)) eqn:E1; destruct (Nat.eqb r i) eqn:E2; lia.
      + intros p Hp. injection Hp as Hp. subst p. rewrite !nth_update by lia.
        pose proof (Hadj r Hk) as Hr1.
        destruct (Nat.eqb r (S r)) eqn:E1; destruct (Nat.eqb r r) eqn:E2; lia.
      + intros H. discriminate.
      + intros _. rewrite !nth_update by lia.
        destruct (Nat.eqb r O) eqn:E1; destruct (Nat.eqb r (k - 1)) eqn:E2; lia.
    - rewrite succ_mod_eq by exact Hk.
      split; [exact Hlen|]. split; [lia|]. split; [lia|].
      split; [|split; [|split]].
      + intros i Hi. rewrite !nth_update by lia.
        pose proof (Hadj i Hi) as Hi1. pose proof (Hprev i) as Hi2.
        destruct (Nat.eqb r (S i)) eqn:E1; destruct (Nat.eqb r i) eqn:E2; lia.
      + intros p Hp. discriminate.
      + intros _. rewrite !nth_update by lia.
        assert (Hk1 : (k - 1)%nat = r) by lia. rewrite Hk1 in *.
        destruct (Nat.eqb r O) eqn:E1; destruct (Nat.eqb r r) eqn:E2; lia.
      + intros H. congruence.
  Qed.

  Lemma rr_loop_sums_inv M k keep l : forall r w (b : bins A),
    StronglySorted (fun a c => valueof c <= valueof a) l ->
    Forall (fun x => 0 <= valueof x <= w) l ->
    rr_inv M k r w (sums b) ->
    exists r' w', rr_inv M k r' w' (sums (rr_loop valueof keep k l r b)).
  Proof.
    induction l as [|x t IH]; intros r w b Hs Hl H; cbn [rr_loop].
    - exists r, w. exact H.
    - inversion Hs as [|x' t' Hst Hxt]; subst. inversion Hl as [|x' t' Hx Ht]; subst.
      apply (IH (Nat.modulo (S r) k) (valueof x)).
      + exact Hst.
      + rewrite Forall_forall in *. intros y Hy. specialize (Hxt y Hy). specialize (Ht y Hy). lia.
      + rewrite add_item_sums. apply (rr_inv_step M k r w); [lia|exact H].
  Qed.

  Lemma adjacent_mono (f : nat -> Z) k : (forall i, (S i < k)%nat -> f (S i) <= f i) ->
    forall i j, (i <= j < k)%nat -> f j <= f i.
  Proof.
    intros H i j. induction j as [|j IH]; intros Hij.
    - assert (i = O) by lia. subst. lia.
    - destruct (Nat.eq_dec i (S j)) as [E|E]; [subst; lia|].
      specialize (H j ltac:(lia)). specialize (IH ltac:(lia)). lia.
  Qed.

  Lemma rr_inv_mono M k r w s : rr_inv M k r w s ->
    forall i j, (i < j < k)%nat -> nth j s 0 <= nth i s 0.
  Proof.
    intros (Hlen & Hr & Hw & Hadj & _) i j Hij.
    apply (adjacent_mono (fun n => nth n s 0) k Hadj). lia.
  Qed.

  Lemma rr_inv_gap M k r w s : rr_inv M k r w s -> gap_le M s.
  Proof.
    intros H. pose proof H as (Hlen & Hr & Hw & Hadj & Hprev & Hfull & Hpart).
    assert (Hmono : forall i j, (i <= j < k)%nat -> nth j s 0 <= nth i s 0)
      by (apply (adjacent_mono (fun n => nth n s 0) k Hadj)).
    intros a b Ha Hb.
    destruct (In_nth s a 0 Ha) as (ia & Hia & Ea). destruct (In_nth s b 0 Hb) as (ib & Hib & Eb).
    pose proof (Hmono O ia ltac:(lia)) as H1. pose proof (Hmono ib (k - 1)%nat ltac:(lia)) as H2.
    destruct (Nat.eq_dec r O) as [E|E]; [specialize (Hfull E)|specialize (Hpart E)]; lia.
  Qed.

  (** the sorted items satisfy the hypotheses of the loop invariant *)
  Lemma roundrobin_sums_inv keep k items : (1 <= k)%nat ->
    Forall (fun x => 0 <= valueof x) items ->
    exists r' w', rr_inv (zmax (map valueof items)) k r' w' (sums (roundrobin valueof keep k items)).
  Proof.
    intros Hk Hpos. destruct (zmax_values_bound items Hpos) as [HM Hall].
    unfold roundrobin. apply (rr_loop_sums_inv _ k keep _ O (zmax (map valueof items))).
    - apply sort_desc_sorted.
    - eapply Permutation_Forall; [symmetry; apply sort_desc_perm|exact Hall].
    - rewrite new_bins_sums. apply rr_inv_init; auto.
  Qed.

  Theorem rr_monotone : forall k items, (1 <= k)%nat ->
    Forall (fun x => 0 <= valueof x) items ->
    forall i j, (i < j < k)%nat ->
    nth j (sums (roundrobin valueof true k items)) 0 <= nth i (sums (roundrobin valueof true k items)) 0.
  Proof.
    intros k items Hk Hpos i j Hij.
    destruct (roundrobin_sums_inv true k items Hk Hpos) as (r' & w' & H).
    exact (rr_inv_mono _ _ _ _ _ H i j Hij).
  Qed.

  (** general form: any keep flag, items may be empty *)
  Lemma roundrobin_gap_gen keep k items : (1 <= k)%nat ->
    Forall (fun x => 0 <= valueof x) items ->
    zmax (sums (roundrobin valueof keep k items)) - zmin (sums (roundrobin valueof keep k items))
    <= zmax (map valueof items).
  Proof.
    intros Hk Hpos.
    destruct (roundrobin_sums_inv keep k items Hk Hpos) as (r' & w' & H).
    apply gap_le_spread; [|exact (rr_inv_gap _ _ _ _ _ H)].
    apply (zmax_values_bound items Hpos).
  Qed.

  Theorem roundrobin_gap : forall k items, (1 <= k)%nat -> items <> [] ->
    Forall (fun x => 0 <= valueof x) items ->
    zmax (sums (roundrobin valueof true k items)) - zmin (sums (roundrobin valueof true k items))
    <= zmax (map valueof items).
  Proof. intros k items Hk _ Hpos. apply roundrobin_gap_gen; auto. Qed.

End GreedyProofs.

(** The hypothesis "all values >= 0" cannot be dropped from the gap bounds or from rr_monotone. *)
Example greedy_gap_needs_nonneg :
  let b := greedy (fun v : Z => v) true 2 [-5] in
  (zmax (sums b) - zmin (sums b) <=? zmax (map (fun v : Z => v) [-5])) = false.
Proof. vm_compute. reflexivity. Qed.

Example roundrobin_gap_needs_nonneg :
  let b := roundrobin (fun v : Z => v) true 2 [-5] in
  (zmax (sums b) - zmin (sums b) <=? zmax (map (fun v : Z => v) [-5])) = false.
Proof. vm_compute. reflexivity. Qed.

Example rr_monotone_needs_nonneg :
  sums (roundrobin (fun v : Z => v) true 3 [-1; -2; -3; -4]) = [-5; -2; -3].
Proof. vm_compute. reflexivity. Qed.

Print Assumptions greedy_partition.
Print Assumptions roundrobin_partition.
Print Assumptions greedy_erase.
Print Assumptions roundrobin_erase.
Print Assumptions greedy_names.
Print Assumptions roundrobin_names.
Print Assumptions greedy_gap.
Print Assumptions rr_cardinality.
Print Assumptions rr_monotone.
Print Assumptions roundrobin_gap.
