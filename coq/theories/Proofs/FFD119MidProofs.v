(** First-fit-decreasing <= 11/9 OPT + c for the range of x (the first item of the last bin) left open by
    FFD119Proofs.v, except for the sliver 8C/41 < x <= C/5.

    Proved (b = bins of first_fit_decreasing, n = any number of bins of capacity C that can hold the
    values; hypotheses items <> [], values >= 0):

      ffd_119_ranges3         : with x = the first item of the last bin,
                                  11 x <= 2 C            ->  9 |b| <= 11 n + 8
                                  C < 4 x                ->  6 |b| <=  7 n + 5
                                  C < 5 x, 4 x <= C      ->  9 |b| <= 11 n + 13     (new, Section Quarter)
                                  2 C < 11 x, 41 x <= 8C ->  9 |b| <= 11 n + 16     (new, Section Fifth)
      ffd_ratio_11_9_partial2 : 9 |b| <= 11 n + 16 provided no value lies in (8C/41, C/5]

    Method.  Values below x weigh 0.  The values >= x of a bin (its "core": closed, i.e. x does not fit)
    are weighted BY THE BIN THEY SIT IN (Yue/Dosa style), which size-only weights cannot do.  Every bin
    of FFD but O(1) weighs >= FF, every feasible set of labelled values weighs <= OO, OO/FF = 11/9.
    Section Frame is generic: labels (value, core, position), the relation [Later] between the cores of
    two bins (no value of the later core fits into the earlier core counting the values at least as
    large, and the first values decrease), chains of cores, the transport of the labels through the
    Packable witness (Permutation_map_inv, [lift_groups]) and the counting argument [count_bound].
    Section Quarter (C < 5x, 4x <= C; FF = 36, OO = 44):
      classes of v <= C/2:  L (2v > C-x) 18,  M+ (3v > C) 14,  M- (3v > C-x) 12,  S 9;   v > C-x: 36;
      a bin whose first value b exceeds C/2 weighs exactly 36:
        [b; p]      : w p = 17 (L), 13 (M+), 13 or 12 (M-; 13 iff an M- and an S fit beside b),
                      10 or 9 (S; 10 iff 2x fit beside b);   w b = 36 - w p
        [b; p; q..] : w b = 18, companions 9 each.
      Deficient bins: exactly one L / no L and one M+ / no L, M+ and at most two M-; each kind forbids
      its class in all later bins, total deficiency <= 6 + 4 + 6 ([heavy]).
    Section Fifth (2C < 11x, 41x <= 8C; FF = 180, OO = 220):
      classes L 90, M+ 72, M- 60, S+ (4v > C) 48, S- (4v > C-x) 45, T 36;  v > C-x: 180;
        [b; p]      : w p = 76 (L), 68 (M+), 65/60 (M-; 65 iff an M- and an S- fit beside b),
                      53/50/48 (S+; an S+ and an S- fit / two S- fit), 50/45 (S-; two S- fit), 36 (T)
        [b; p; q..] : companions natural, w b = 180 - their sum.
      Five kinds of deficient bins, total deficiency <= 150 ([heavy5]).  The bound 41 x <= 8 C is exactly
      what excludes two boosted M- with an S+ and an S- ([pat4]).
    The proofs of [light_sorted4] / [light_sorted5] use, besides closedness, only [Later].
    Numerical exploration: /root/scratch/ffd119b (exact-label LPs exp*.py, joint.py; exhaustive
    check2.py; random and targeted FFD runs randtest.py, fuzz.py; symbolic MILP checker symb2.py;
    the rules are rule4 / rule5 in rules.py).

    OPEN: 8C/41 < x <= C/5.  There the tight families (b,m)^6 (m',m',m')^2 (s,s,s,s)^3 -> {b,m',s}^6
    {m,m,s,s}^3 (ratio exactly 11/9, exists for every x > 2C/11) force w m = 65, and {m,m,S+,S-} together
    with bins (S+,S+,S+,T) and T^5 then needs weights of S+, S-, T that depend on the kind of bin they
    fill and on relations between two bins without big value; class-based weights are infeasible
    (LP: joint.py gives 1.2226 > 11/9). *)
From Prtpy Require Import Base.Prelude Model.Binner Model.Packing Spec.Partition
  Proofs.BaseLemmas Proofs.BinnerLemmas Proofs.PackingProofs Proofs.FFDRatioProofs
  Proofs.BCOptimalProofs Proofs.FFD119Proofs Oracle.Reach Proofs.OracleSpec.
From Coq Require Import ZifyBool Sorting.Sorted.

(** ---- 1. a symmetric relation on all pairs of a list ---- *)
Section Pairs.
  Context {T : Type} (R : T -> T -> Prop).

  Fixpoint AllPairs (l : list T) : Prop :=
    match l with
    | [] => True
    | a :: t => Forall (R a) t /\ AllPairs t
    end.

  Lemma AllPairs_app l1 l2 : AllPairs (l1 ++ l2) <->
    AllPairs l1 /\ AllPairs l2 /\ Forall (fun a => Forall (R a) l2) l1.
  Proof.
    induction l1 as [|a l1 IH]; cbn [app AllPairs].
    - split; [intros H; split; [exact I|split; [exact H|constructor]]|intros (_ & H & _); exact H].
    - rewrite IH. split.
      + intros (Ha & H1 & H2 & H3). apply Forall_app in Ha. destruct Ha as [Ha1 Ha2].
        split; [split; assumption|split; [exact H2|constructor; assumption]].
      + intros ((Ha1 & H1) & H2 & H3). apply Forall_cons_iff in H3. destruct H3 as [Ha2 H3].
        split; [apply Forall_app; split; assumption|split; [exact H1|split; assumption]].
  Qed.

  Hypothesis Rsym : forall a b, R a b -> R b a.

  Lemma AllPairs_perm l l' : Permutation l l' -> AllPairs l -> AllPairs l'.
  Proof.
    intros P. induction P as [|a l l' P IH|a b l|l l' l'' P1 IH1 P2 IH2]; cbn [AllPairs].
    - auto.
    - intros [H1 H2]. split; [eapply Permutation_Forall; eassumption|apply IH; exact H2].
    - intros (H1 & H2 & H3). apply Forall_cons_iff in H1. destruct H1 as [Hab H1].
      split; [constructor; [apply Rsym; exact Hab|exact H2]|split; assumption].
    - auto.
  Qed.

  Lemma AllPairs_concat_elim (G : list (list T)) : AllPairs (concat G) -> Forall AllPairs G.
  Proof.
    induction G as [|g G IH]; cbn [concat]; intros H; [constructor|].
    apply AllPairs_app in H. destruct H as (H1 & H2 & _). constructor; [exact H1|apply IH; exact H2].
  Qed.

  Lemma AllPairs_filter (f : T -> bool) l : AllPairs l -> AllPairs (filter f l).
  Proof.
    induction l as [|a l IH]; cbn [filter AllPairs]; [auto|]. intros [H1 H2].
    destruct (f a); [cbn [AllPairs]; split; [|apply IH; exact H2]|apply IH; exact H2].
    apply Forall_forall. intros b Hb. apply filter_In in Hb. destruct Hb as [Hb _].
    rewrite Forall_forall in H1. apply H1. exact Hb.
  Qed.
End Pairs.

(** ---- 2. lifting a grouping of the values to labelled values ---- *)
Lemma map_eq_concat {T U : Type} (f : T -> U) : forall (G : list (list U)) (l : list T),
  map f l = concat G -> exists G', l = concat G' /\ map (map f) G' = G.
Proof.
  induction G as [|g G IH]; intros l H; cbn [concat] in H.
  - apply map_eq_nil in H. subst l. exists []. split; reflexivity.
  - apply map_eq_app in H. destruct H as (l1 & l2 & E & H1 & H2). subst l.
    destruct (IH l2 H2) as (G' & E2 & HG). exists (l1 :: G'). cbn [concat map].
    rewrite E2, H1, HG. split; reflexivity.
Qed.

Lemma lift_groups {T U : Type} (f : T -> U) (L : list T) (G : list (list U)) :
  Permutation (concat G) (map f L) ->
  exists G', map (map f) G' = G /\ Permutation L (concat G').
Proof.
  intros P. destruct (Permutation_map_inv f L P) as (l3 & E & P3).
  destruct (map_eq_concat f G l3 (eq_sym E)) as (G' & E3 & HG).
  exists G'. split; [exact HG|]. rewrite <- E3. exact P3.
Qed.

(** a list can be sorted by a key *)
Lemma exists_sorted {T : Type} (key : T -> Z) (l : list T) :
  exists l', Permutation l l' /\ StronglySorted (fun a b => key b <= key a) l'.
Proof.
  induction l as [|a l (l' & P & S)]; [exists []; split; [constructor|constructor]|].
  assert (Hins : exists l'', Permutation (a :: l') l'' /\ StronglySorted (fun a b => key b <= key a) l'').
  { clear P l. induction S as [|b l' S IH Hb].
    - exists [a]. split; [apply Permutation_refl|constructor; [constructor|constructor]].
    - destruct (Z_le_dec (key b) (key a)) as [Hle|Hgt].
      + exists (a :: b :: l'). split; [apply Permutation_refl|].
        constructor; [constructor; assumption|]. constructor; [exact Hle|].
        eapply Forall_impl; [|exact Hb]. intros c Hc. cbv beta in Hc. lia.
      + destruct IH as (l'' & P & S'').
        exists (b :: l''). split.
        * apply Permutation_trans with (b :: a :: l'); [apply perm_swap|apply perm_skip; exact P].
        * constructor; [exact S''|]. eapply Permutation_Forall; [exact P|].
          constructor; [lia|exact Hb]. }
  destruct Hins as (l'' & P2 & S2). exists l''. split; [|exact S2].
  apply Permutation_trans with (a :: l'); [apply perm_skip; exact P|exact P2].
Qed.

Lemma in_le_zsum v l : In v l -> Forall (fun z => 0 <= z) l -> v <= zsum l.
Proof.
  intros Hin H. induction H as [|a l Ha Hl IH]; [destruct Hin|].
  rewrite pk_zsum_cons. pose proof (zsum_nonneg l Hl). destruct Hin as [E|Hin]; [lia|specialize (IH Hin); lia].
Qed.

Lemma nth_map_some {T U : Type} (f : T -> U) : forall (l : list T) k v d,
  nth_error l k = Some v -> nth k (map f l) d = f v.
Proof.
  induction l as [|a l IH]; intros k v d H; [destruct k; discriminate H|].
  destruct k as [|k]; cbn in *; [injection H as H; subst; reflexivity|apply IH; exact H].
Qed.

(** ---- 3. the weights ---- *)
Definition label : Type := (Z * (list Z * nat))%type.
Definition lv (a : label) : Z := fst a.
Definition lc (a : label) : list Z := fst (snd a).
Definition lk (a : label) : nat := snd (snd a).

(** ---- 3. the frame: cores, the relation between cores of different bins, chains of cores ---- *)
Section Frame.
  Variables C x : Z.
  Hypothesis Hxpos : 0 < x.
  Hypothesis HxC : x <= C.

  (** the values >= x of a bin that x does not fit into; the first value is the largest *)
  Definition okcore (c : list Z) : Prop :=
    Forall (fun v => x <= v) c /\ zsum c <= C /\ C < zsum c + x /\ Forall (fun v => v <= hd 0 c) c.

  Ltac fa H Ha := apply Forall_cons_iff in H; destruct H as [Ha H].

  (** ---- 4. what two labelled values of the packing know about each other ---- *)
  Definition Later (c c' : list Z) : Prop :=
    Forall (fun y => C < zsum (sel y c) + y) c' /\ hd 0 c' <= hd 0 c.

  (** a labelled value of a closed bin *)
  Definition Vc (a : label) : Prop := okcore (lc a) /\ nth_error (lc a) (lk a) = Some (lv a).
  Definition Rc (a a' : label) : Prop :=
    lc a = lc a' \/ Later (lc a) (lc a') \/ Later (lc a') (lc a).

  Lemma Rc_sym a a' : Rc a a' -> Rc a' a.
  Proof.
    intros [H|[H|H]]; [left; symmetry; exact H|right; right; exact H|right; left; exact H].
  Qed.

  Lemma Vc_ge a : Vc a -> x <= lv a.
  Proof.
    intros [(Hge & _) Hn]. apply nth_error_In in Hn. rewrite Forall_forall in Hge. apply Hge. exact Hn.
  Qed.

  Lemma Vc_le_hd a : Vc a -> lv a <= hd 0 (lc a).
  Proof.
    intros [(_ & _ & _ & Hh) Hn]. apply nth_error_In in Hn. rewrite Forall_forall in Hh. apply Hh. exact Hn.
  Qed.

  Lemma Vc_in a : Vc a -> In (lv a) (lc a).
  Proof. intros [_ Hn]. eapply nth_error_In. exact Hn. Qed.

  Lemma okcore2 b p : okcore [b; p] -> x <= b /\ x <= p /\ b + p <= C /\ C < b + p + x /\ p <= b.
  Proof.
    intros (Hge & Hs & Hc & Hh). rewrite !pk_zsum_cons, pk_zsum_nil in *.
    apply Forall_cons_iff in Hge. destruct Hge as [H1 Hge]. apply Forall_cons_iff in Hge. destruct Hge as [H2 _].
    apply Forall_cons_iff in Hh. destruct Hh as [_ Hh]. apply Forall_cons_iff in Hh. destruct Hh as [H3 _].
    cbn [hd] in H3. lia.
  Qed.

  Lemma Later2 c b z : Later c [b; z] ->
    C < zsum (sel b c) + b /\ C < zsum (sel z c) + z /\ b <= hd 0 c.
  Proof.
    intros [H1 H2]. apply Forall_cons_iff in H1. destruct H1 as [Hb H1].
    apply Forall_cons_iff in H1. destruct H1 as [Hz _]. cbn [hd] in H2. lia.
  Qed.

  Lemma Later_in c c' y : Later c c' -> In y c' -> C < zsum (sel y c) + y.
  Proof. intros [H _] Hy. rewrite Forall_forall in H. apply H. exact Hy. Qed.

  Definition nofit (P : Z -> Prop) (c : list Z) : Prop := forall y, P y -> zsum (sel y c) + y <= C.

  Lemma nofit_later P c c' : nofit P c -> Later c c' -> Forall (fun y => ~ P y) c'.
  Proof.
    intros Hn [HL _]. rewrite Forall_forall in *. intros y Hy HP. specialize (HL y Hy). cbv beta in HL.
    specialize (Hn y HP). lia.
  Qed.

  Lemma Exists_Forall_neg (P : Z -> Prop) c : Exists P c -> Forall (fun y => ~ P y) c -> False.
  Proof.
    intros HE HF. apply Exists_exists in HE. destruct HE as (y & Hy & HP).
    rewrite Forall_forall in HF. exact (HF y Hy HP).
  Qed.
  (** the cores of the bins, in order: each closed, each later one [Later] than the earlier ones *)
  Fixpoint chain (cs : list (list Z)) : Prop :=
    match cs with
    | [] => True
    | c :: r => okcore c /\ Forall (Later c) r /\ chain r
    end.

  Definition none (P : Z -> Prop) (cs : list (list Z)) : Prop := Forall (Forall (fun y => ~ P y)) cs.

  Lemma none_later P c r : nofit P c -> Forall (Later c) r -> none P r.
  Proof.
    intros Hn HL. unfold none. eapply Forall_impl; [|exact HL]. intros c' Hc'. cbv beta in Hc'.
    apply (nofit_later P c c' Hn Hc').
  Qed.

  Lemma chain_okcore : forall cs, chain cs -> Forall okcore cs.
  Proof.
    induction cs as [|c r IH]; intros H; [constructor|]. cbn [chain] in H. destruct H as (Ho & _ & Hr).
    constructor; [exact Ho|apply IH; exact Hr].
  Qed.

  Definition gv (g : list label) : Z := zsum (map lv g).
  Lemma gv_cons a g : gv (a :: g) = lv a + gv g.
  Proof. reflexivity. Qed.
  Lemma gv_perm g1 g2 : Permutation g1 g2 -> gv g1 = gv g2.
  Proof. intros P. unfold gv. apply zsum_perm. apply Permutation_map. exact P. Qed.

  Lemma gv_ge g : Forall Vc g -> x * Z.of_nat (length g) <= gv g.
  Proof.
    intros H. induction H as [|a g Ha Hg IH]; [cbn; lia|].
    rewrite gv_cons. cbn [length]. rewrite Nat2Z.inj_succ. pose proof (Vc_ge a Ha). lia.
  Qed.

  (** ---- 4. a weighting of the cores: labelled values, their total, the counting argument ---- *)
  Section Weights.
    Variable Wc : list Z -> list Z.
    Hypothesis Wc_len : forall c, length (Wc c) = length c.
    Variables FF OO DD : Z.

    Definition wl (a : label) : Z := nth (lk a) (Wc (lc a)) 0.
    Definition cw (c : list Z) : Z := zsum (Wc c).
    Definition tw (cs : list (list Z)) : Z := zsum (map cw cs).
    Lemma tw_nil : tw [] = 0.
    Proof. reflexivity. Qed.
    Lemma tw_cons c r : tw (c :: r) = cw c + tw r.
    Proof. reflexivity. Qed.

    Definition Vl (a : label) : Prop := (lc a = [] /\ 0 <= lv a) \/ Vc a.
    Definition Rl (a a' : label) : Prop := lc a = [] \/ lc a' = [] \/ Rc a a'.
    Definition gw (g : list label) : Z := zsum (map wl g).

    Lemma Rl_sym a a' : Rl a a' -> Rl a' a.
    Proof. intros [H|[H|H]]; [right; left; exact H|left; exact H|right; right; apply Rc_sym; exact H]. Qed.
    Lemma gw_cons a g : gw (a :: g) = wl a + gw g.
    Proof. reflexivity. Qed.
    Lemma gw_app g1 g2 : gw (g1 ++ g2) = gw g1 + gw g2.
    Proof. unfold gw. rewrite map_app. apply zsum_app. Qed.
    Lemma gw_perm g1 g2 : Permutation g1 g2 -> gw g1 = gw g2.
    Proof. intros P. unfold gw. apply zsum_perm. apply Permutation_map. exact P. Qed.

    Lemma wl_nil a : lc a = [] -> wl a = 0.
    Proof.
      intros E. unfold wl. rewrite E. pose proof (Wc_len []) as Hl. destruct (Wc []); [|discriminate Hl].
      destruct (lk a); reflexivity.
    Qed.

  Definition cored (a : label) : bool := match lc a with [] => false | _ => true end.

  Lemma cored_true a : cored a = true <-> lc a <> [].
  Proof. unfold cored. destruct (lc a); split; congruence. Qed.

  (** dropping the values without a core *)
  Lemma drop_uncored g : Forall Vl g -> AllPairs Rl g ->
    let g1 := filter cored g in
    Forall Vc g1 /\ AllPairs Rc g1 /\ gv g1 <= gv g /\ gw g1 = gw g.
  Proof.
    induction g as [|a g IH]; intros HV HR; cbn [filter].
    - cbn [AllPairs]. split; [constructor|split; [exact I|split; [lia|reflexivity]]].
    - apply Forall_cons_iff in HV. destruct HV as [Va HV]. cbn [AllPairs] in HR. destruct HR as [Ra HR].
      destruct (IH HV HR) as (I1 & I2 & I3 & I4). rewrite gv_cons, gw_cons.
      destruct (cored a) eqn:Ea.
      + apply cored_true in Ea. cbn [AllPairs]. rewrite gv_cons, gw_cons.
        split; [constructor; [destruct Va as [[E _]|Va]; [congruence|exact Va]|exact I1]|].
        split; [split; [|exact I2]|split; lia].
        apply Forall_forall. intros b Hb. apply filter_In in Hb. destruct Hb as [Hb Eb].
        apply cored_true in Eb. rewrite Forall_forall in Ra. destruct (Ra b Hb) as [H|[H|H]]; [congruence|congruence|exact H].
      + assert (E : lc a = []).
        { destruct (lc a) eqn:E; [reflexivity|]. exfalso. unfold cored in Ea. rewrite E in Ea. discriminate Ea. }
        rewrite (wl_nil a E). destruct Va as [[_ Va]|Va]; [|destruct Va as [(_ & _ & Hcl & _) _]; rewrite E, pk_zsum_nil in Hcl; lia].
        split; [exact I1|split; [exact I2|split; lia]].
  Qed.

    (** what has to be shown about the weights *)
    Hypothesis Hlight : forall g, Forall Vc g -> AllPairs Rc g ->
      StronglySorted (fun a b => lv b <= lv a) g -> gv g <= C -> gw g <= OO.
    Hypothesis Hheavy : forall cs, chain cs -> FF * Z.of_nat (length cs) <= tw cs + DD.

    Lemma light g : Forall Vl g -> AllPairs Rl g -> gv g <= C -> gw g <= OO.
    Proof.
      intros HV HR Hsum. destruct (drop_uncored g HV HR) as (V1 & R1 & S1 & W1). cbv zeta in *.
      destruct (exists_sorted lv (filter cored g)) as (g2 & P & HS).
      rewrite <- W1, (gw_perm _ _ P). apply Hlight; [| |exact HS|].
      - eapply Permutation_Forall; [exact P|exact V1].
      - eapply (AllPairs_perm Rc Rc_sym); [exact P|exact R1].
      - rewrite <- (gv_perm _ _ P). lia.
    Qed.

  (** ---- 8. the labelled values of a packing ---- *)
  Fixpoint labs_from (c : list Z) (k : nat) (l : list Z) : list label :=
    match l with
    | [] => []
    | v :: r => (v, (c, k)) :: labs_from c (S k) r
    end.
  Definition labs (c : list Z) : list label := labs_from c 0 c.
  Definition lab_small (vs : list Z) : list label := map (fun v => (v, (@nil Z, 0%nat))) vs.

  Lemma labs_from_lv c : forall l k, map lv (labs_from c k l) = l.
  Proof. induction l as [|v r IH]; intros k; cbn [labs_from map]; [reflexivity|]. rewrite IH. reflexivity. Qed.

  Lemma labs_from_lc c : forall l k, Forall (fun a => lc a = c) (labs_from c k l).
  Proof. induction l as [|v r IH]; intros k; cbn [labs_from]; constructor; [reflexivity|apply IH]. Qed.

  Lemma labs_from_nth c : forall l k, (forall i, nth_error l i = nth_error c (k + i)) ->
    Forall (fun a => nth_error c (lk a) = Some (lv a)) (labs_from c k l).
  Proof.
    induction l as [|v r IH]; intros k H; cbn [labs_from]; constructor.
    - specialize (H 0%nat). cbn [nth_error] in H. rewrite Nat.add_0_r in H. symmetry. exact H.
    - apply IH. intros i. specialize (H (S i)). cbn [nth_error] in H. rewrite H. f_equal. lia.
  Qed.

  Lemma skipn_nth_cons (W : list Z) : forall k, (k < length W)%nat -> skipn k W = nth k W 0 :: skipn (S k) W.
  Proof.
    induction W as [|w W IH]; intros k Hk; [cbn [length] in Hk; lia|].
    destruct k as [|k]; [reflexivity|]. cbn [skipn nth length] in *. apply IH. lia.
  Qed.

  Lemma labs_from_gw c : forall l k, (length l + k = length (Wc c))%nat ->
    gw (labs_from c k l) = zsum (skipn k (Wc c)).
  Proof.
    induction l as [|v r IH]; intros k Hk; cbn [labs_from].
    - cbn [length] in Hk. rewrite skipn_all2; [reflexivity|lia].
    - cbn [length] in Hk. rewrite gw_cons, IH; [|lia]. rewrite (skipn_nth_cons _ k); [|lia].
      rewrite pk_zsum_cons. reflexivity.
  Qed.

  Lemma labs_lv c : map lv (labs c) = c.
  Proof. apply labs_from_lv. Qed.

  Lemma labs_gw c : gw (labs c) = cw c.
  Proof. unfold labs, cw. rewrite labs_from_gw; [reflexivity|rewrite Wc_len; lia]. Qed.

  Lemma labs_Vc c : okcore c -> Forall Vc (labs c).
  Proof.
    intros Ho. pose proof (labs_from_lc c c 0) as H1.
    pose proof (labs_from_nth c c 0 (fun i => eq_refl)) as H2.
    apply Forall_forall. intros a Ha. rewrite Forall_forall in H1, H2.
    specialize (H1 a Ha). specialize (H2 a Ha). cbv beta in H1, H2. unfold Vc. rewrite H1. split; assumption.
  Qed.

  Lemma lab_small_lv vs : map lv (lab_small vs) = vs.
  Proof. unfold lab_small. rewrite map_map. cbn [lv fst]. apply map_id. Qed.

  Lemma lab_small_lc vs : Forall (fun a => lc a = []) (lab_small vs).
  Proof. unfold lab_small. rewrite Forall_map. apply Forall_forall. intros v _. reflexivity. Qed.

  Lemma lab_small_gw vs : gw (lab_small vs) = 0.
  Proof.
    induction vs as [|v vs IH]; [reflexivity|]. unfold lab_small in *. cbn [map]. rewrite gw_cons, IH.
    rewrite wl_nil; [lia|reflexivity].
  Qed.

  Lemma filter_split_perm (f : Z -> bool) l :
    Permutation (filter f l ++ filter (fun a => negb (f a)) l) l.
  Proof.
    induction l as [|a l IH]; [constructor|]. cbn [filter]. destruct (f a); cbn [negb app].
    - apply perm_skip. exact IH.
    - apply Permutation_sym. apply Permutation_cons_app. apply Permutation_sym. exact IH.
  Qed.
  Section Connect.
    Context {A : Type} (valueof : A -> Z).
    Notation vals bn := (map valueof (snd bn)).

    Definition core (bn : bin A) : list Z := sel x (vals bn).
    Definition lab_bin (bn : bin A) : list label :=
      labs (core bn) ++ lab_small (filter (fun v => negb (x <=? v)) (vals bn)).
    Definition LABt (t : bins A) : list label := concat (map lab_bin t).

    Lemma lab_bin_lv bn : Permutation (map lv (lab_bin bn)) (vals bn).
    Proof.
      unfold lab_bin. rewrite map_app, labs_lv, lab_small_lv. unfold core, sel. apply filter_split_perm.
    Qed.

    Lemma LABt_lv t : Permutation (map lv (LABt t)) (map valueof (contents t)).
    Proof.
      induction t as [|bn t IH]; [constructor|].
      unfold LABt in *. cbn [map concat]. rewrite contents_cons, !map_app.
      apply Permutation_app; [apply lab_bin_lv|exact IH].
    Qed.

    Lemma lab_bin_gw bn : gw (lab_bin bn) = cw (core bn).
    Proof. unfold lab_bin. rewrite gw_app, labs_gw, lab_small_gw. lia. Qed.

    Lemma LABt_gw t : gw (LABt t) = tw (map core t).
    Proof.
      induction t as [|bn t IH]; [reflexivity|].
      unfold LABt in *. cbn [map concat]. rewrite gw_app, lab_bin_gw, IH, tw_cons. reflexivity.
    Qed.

    (** every label of a bin carries the core of the bin or none *)
    Lemma lab_bin_lc bn : Forall (fun a => lc a = [] \/ lc a = core bn) (lab_bin bn).
    Proof.
      unfold lab_bin. apply Forall_app. split.
      - eapply Forall_impl; [|apply (labs_from_lc (core bn) (core bn) 0)]. intros a Ha. right. exact Ha.
      - eapply Forall_impl; [|apply lab_small_lc]. intros a Ha. left. exact Ha.
    Qed.

    Lemma LABt_lc t : Forall (fun a => lc a = [] \/ exists bn, In bn t /\ lc a = core bn) (LABt t).
    Proof.
      induction t as [|bn t IH]; [constructor|].
      unfold LABt in *. cbn [map concat]. apply Forall_app. split.
      - eapply Forall_impl; [|apply lab_bin_lc]. intros a [Ha|Ha]; [left; exact Ha|].
        right. exists bn. split; [left; reflexivity|exact Ha].
      - eapply Forall_impl; [|exact IH]. intros a [Ha|(bn' & Hin & Ha)]; [left; exact Ha|].
        right. exists bn'. split; [right; exact Hin|exact Ha].
    Qed.

    Lemma lab_bin_Vl bn : okcore (core bn) -> Forall (fun y => 0 <= valueof y) (snd bn) ->
      Forall Vl (lab_bin bn).
    Proof.
      intros Ho Hnn. unfold lab_bin. apply Forall_app. split.
      - eapply Forall_impl; [|apply (labs_Vc _ Ho)]. intros a Ha. right. exact Ha.
      - unfold lab_small. rewrite Forall_map. apply Forall_forall. intros v Hv. left. split; [reflexivity|].
        cbn [lv fst]. apply filter_In in Hv. destruct Hv as [Hv _]. apply in_map_iff in Hv.
        destruct Hv as (y & E & Hy). rewrite Forall_forall in Hnn. specialize (Hnn y Hy). cbv beta in Hnn. lia.
    Qed.

    (** all labels of a chain of bins, followed by unlabelled values, are pairwise related *)
    Lemma LAB_pairs S : forall t, chain (map core t) -> AllPairs Rl (LABt t ++ lab_small S).
    Proof.
      induction t as [|bn t IH]; intros Hch.
      - unfold LABt. cbn [map concat app]. pose proof (lab_small_lc S) as H.
        induction H as [|a l Ha Hl IHl]; cbn [AllPairs]; [exact I|]. split; [|exact IHl].
        apply Forall_forall. intros b _. left. exact Ha.
      - cbn [map chain] in Hch. destruct Hch as (Ho & HL & Hch). specialize (IH Hch).
        unfold LABt in *. cbn [map concat]. rewrite <- app_assoc. apply AllPairs_app. split; [|split; [exact IH|]].
        + pose proof (lab_bin_lc bn) as H. induction H as [|a l Ha Hl IHl]; cbn [AllPairs]; [exact I|].
          split; [|exact IHl]. apply Forall_forall. intros b Hb. rewrite Forall_forall in Hl.
          destruct Ha as [Ha|Ha]; [left; exact Ha|]. destruct (Hl b Hb) as [Eb|Eb]; [right; left; exact Eb|].
          right; right. left. congruence.
        + apply Forall_forall. intros a Ha. pose proof (lab_bin_lc bn) as H. rewrite Forall_forall in H.
          specialize (H a Ha). cbv beta in H.
          apply Forall_app. split.
          * apply Forall_forall. intros b Hb. pose proof (LABt_lc t) as H2. rewrite Forall_forall in H2.
            specialize (H2 b Hb). cbv beta in H2.
            destruct H as [H|H]; [left; exact H|]. destruct H2 as [H2|(bn' & Hin & H2)]; [right; left; exact H2|].
            right; right. right; left. rewrite H, H2. rewrite Forall_forall in HL. apply HL.
            apply in_map. exact Hin.
          * eapply Forall_impl; [|apply lab_small_lc]. intros b Hb. right; left. exact Hb.
    Qed.

    Lemma in_contents_bin (t : bins A) bn y : In bn t -> In y (snd bn) -> In y (contents t).
    Proof.
      intros Hbn Hy. unfold contents, lists. apply in_concat. exists (snd bn). split; [|exact Hy].
      apply in_map. exact Hbn.
    Qed.

    (** the cores of the bins before the last one form a chain *)
    Lemma chain_cores (last : bin A) (x0 : A) : In x0 (snd last) -> valueof x0 = x ->
      forall t : bins A, closed valueof C x t -> sfit2 valueof C t -> wf valueof t -> feasible C t ->
      Forall (fun y => 0 <= valueof y) (contents t) -> hdesc valueof (t ++ [last]) ->
      chain (map core t).
    Proof.
      intros Hx0 Ex. induction t as [|bn r IH]; intros Hcl Hsf Hw Hf Hnn Hh; [exact I|].
      unfold closed in Hcl. apply Forall_cons_iff in Hcl. destruct Hcl as [Hc Hcl].
      cbn [sfit2] in Hsf. destruct Hsf as [Hs1 Hsf].
      unfold wf in Hw. apply Forall_cons_iff in Hw. destruct Hw as [Hwb Hw].
      unfold feasible in Hf. apply Forall_cons_iff in Hf. destruct Hf as [Hfb Hf].
      rewrite contents_cons in Hnn. apply Forall_app in Hnn. destruct Hnn as [Hnb Hnn].
      cbn [app hdesc] in Hh. destruct Hh as [Hd Hh].
      destruct (hd_dom_elim valueof _ _ Hd) as (y0 & l0 & Es & Hdom).
      rewrite contents_cons, contents_app in Hdom. apply Forall_app in Hdom. destruct Hdom as [Hdb Hdom].
      apply Forall_app in Hdom. destruct Hdom as [Hdr Hdl].
      assert (Hxy0 : x <= valueof y0).
      { rewrite Forall_forall in Hdl. rewrite <- Ex. apply Hdl. rewrite contents_cons. apply in_or_app. left. exact Hx0. }
      assert (Ecore : core bn = valueof y0 :: sel x (map valueof l0)).
      { unfold core. rewrite Es. cbn [map]. rewrite sel_cons. destruct (x <=? valueof y0) eqn:E; [reflexivity|lia]. }
      assert (Hvn : Forall (fun a => 0 <= a) (vals bn)) by (rewrite Forall_map; exact Hnb).
      cbn [map chain]. split; [|split; [|apply IH; assumption]].
      - (* the core of the bin *)
        unfold okcore. split; [apply sel_ge|]. split; [|split].
        + pose proof (zsum_sel_le x (vals bn) Hvn). unfold wf_bin in Hwb. unfold core. lia.
        + exact Hc.
        + assert (Ehd : hd 0 (core bn) = valueof y0) by (rewrite Ecore; reflexivity).
          rewrite Ehd. unfold core. apply sel_incl. rewrite Forall_map. exact Hdb.
      - (* the later cores *)
        rewrite Forall_map. apply Forall_forall. intros bn' Hbn'. unfold Later. split.
        + apply Forall_forall. intros y Hy. unfold core, sel in Hy. apply filter_In in Hy. destruct Hy as [Hy Hxy].
          apply in_map_iff in Hy. destruct Hy as (y' & Ey & Hy').
          rewrite Forall_forall in Hs1. specialize (Hs1 y' (in_contents_bin r bn' y' Hbn' Hy')). cbv beta in Hs1.
          rewrite Ey in Hs1. unfold core. rewrite sel_sel; [exact Hs1|lia].
        + rewrite Ecore. cbn [hd]. destruct (core bn') as [|h q] eqn:Ec; cbn [hd]; [lia|].
          assert (Hh' : In h (core bn')) by (rewrite Ec; left; reflexivity).
          unfold core, sel in Hh'. apply filter_In in Hh'. destruct Hh' as [Hh' _].
          apply in_map_iff in Hh'. destruct Hh' as (y' & Ey & Hy').
          rewrite Forall_forall in Hdr. specialize (Hdr y' (in_contents_bin r bn' y' Hbn' Hy')). cbv beta in Hdr. lia.
    Qed.
    Lemma LABt_Vl : forall t : bins A, Forall okcore (map core t) ->
      Forall (fun y => 0 <= valueof y) (contents t) -> Forall Vl (LABt t).
    Proof.
      induction t as [|bn t IH]; intros Ho Hnn; [constructor|].
      cbn [map] in Ho. apply Forall_cons_iff in Ho. destruct Ho as [Hob Ho].
      rewrite contents_cons in Hnn. apply Forall_app in Hnn. destruct Hnn as [Hnb Hnn].
      unfold LABt in *. cbn [map concat]. apply Forall_app. split; [apply lab_bin_Vl; assumption|apply IH; assumption].
    Qed.

    Lemma lab_small_Vl vs : Forall (fun v => 0 <= v) vs -> Forall Vl (lab_small vs).
    Proof.
      intros H. unfold lab_small. rewrite Forall_map. eapply Forall_impl; [|exact H].
      intros v Hv. left. split; [reflexivity|exact Hv].
    Qed.

    Lemma gw_concat_le (G : list (list label)) :
      Forall (fun g => gw g <= OO) G -> gw (concat G) <= OO * Z.of_nat (length G).
    Proof.
      intros H. induction H as [|g G Hg HG IH]; [cbn; lia|].
      cbn [concat length]. rewrite gw_app, Nat2Z.inj_succ, Z.mul_succ_r. lia.
    Qed.

    (** the counting argument *)
    Lemma count_bound (t : bins A) (last : bin A) (x0 : A) (items : list A) (n : nat) :
      In x0 (snd last) -> valueof x0 = x ->
      closed valueof C x t -> sfit2 valueof C t -> wf valueof (t ++ [last]) -> feasible C (t ++ [last]) ->
      Forall (fun y => 0 <= valueof y) (contents (t ++ [last])) -> hdesc valueof (t ++ [last]) ->
      Permutation (contents (t ++ [last])) items -> Packable C (map valueof items) n ->
      FF * Z.of_nat (length t) <= OO * Z.of_nat n + DD.
    Proof.
      intros Hx0 Ex Hcl Hsf Hw Hf Hnn Hh Hp Hpack.
      unfold wf in Hw. apply Forall_app in Hw. destruct Hw as [Hwt _].
      unfold feasible in Hf. apply Forall_app in Hf. destruct Hf as [Hft _].
      rewrite contents_app in Hnn. apply Forall_app in Hnn. destruct Hnn as [Hnt Hnl].
      pose proof (chain_cores last x0 Hx0 Ex t Hcl Hsf Hwt Hft Hnt Hh) as Hch.
      pose proof (Hheavy _ Hch) as Hheavy'. rewrite map_length in Hheavy'.
      set (LAB := LABt t ++ lab_small (map valueof (contents [last]))).
      assert (HPL : Permutation (map lv LAB) (map valueof items)).
      { unfold LAB. rewrite map_app, lab_small_lv.
        apply Permutation_trans with (map valueof (contents (t ++ [last]))); [|apply Permutation_map; exact Hp].
        rewrite contents_app, map_app. apply Permutation_app_tail. apply LABt_lv. }
      apply packable_gpack in Hpack. destruct Hpack as (G & HL & HG & HF).
      assert (HG' : Permutation (concat G) (map lv LAB)).
      { apply Permutation_trans with (map valueof items); [exact HG|apply Permutation_sym; exact HPL]. }
      destruct (lift_groups lv LAB G HG') as (G' & EG & PG).
      assert (HV : Forall Vl LAB).
      { unfold LAB. apply Forall_app. split.
        - apply LABt_Vl; [apply chain_okcore; exact Hch|exact Hnt].
        - apply lab_small_Vl. rewrite Forall_map. exact Hnl. }
      assert (HR : AllPairs Rl LAB) by (apply LAB_pairs; exact Hch).
      assert (HV' : Forall Vl (concat G')) by (eapply Permutation_Forall; [exact PG|exact HV]).
      assert (HR' : AllPairs Rl (concat G')) by (eapply (AllPairs_perm Rl Rl_sym); [exact PG|exact HR]).
      assert (Hlight' : Forall (fun g => gw g <= OO) G').
      { pose proof (AllPairs_concat_elim Rl G' HR') as HRg.
        assert (HVg : Forall (Forall Vl) G').
        { clear - HV'. induction G' as [|g G' IH]; [constructor|]. cbn [concat] in HV'.
          apply Forall_app in HV'. destruct HV' as [H1 H2]. constructor; [exact H1|apply IH; exact H2]. }
        rewrite <- EG in HF. rewrite Forall_map in HF.
        clear - HRg HVg HF Hlight Wc_len HxC Hxpos. induction G' as [|g G' IH]; [constructor|].
        apply Forall_cons_iff in HRg. destruct HRg as [R1 R2]. apply Forall_cons_iff in HVg. destruct HVg as [V1 V2].
        apply Forall_cons_iff in HF. destruct HF as [F1 F2].
        constructor; [apply light; assumption|apply IH; assumption]. }
      pose proof (gw_concat_le G' Hlight') as Hsum.
      assert (EL : length G' = n) by (rewrite <- HL, <- EG, map_length; reflexivity).
      rewrite EL in Hsum. rewrite <- (gw_perm _ _ PG) in Hsum.
      unfold LAB in Hsum. rewrite gw_app, lab_small_gw, LABt_gw in Hsum. lia.
    Qed.
    End Connect.
  End Weights.


  (** ---- 5. the weights for C < 5 x, 4 x <= C ---- *)
  Section Quarter.
  Hypothesis Hx5 : C < 5 * x.
  Hypothesis Hx4 : 4 * x <= C.

  Definition nu (v : Z) : Z :=
    if C - x <? 2 * v then 18 else if C <? 3 * v then 14 else if C - x <? 3 * v then 12 else 9.

  Lemma nu_spec v :
    (C - x < 2 * v /\ nu v = 18) \/
    (2 * v <= C - x /\ C < 3 * v /\ nu v = 14) \/
    (3 * v <= C /\ C - x < 3 * v /\ nu v = 12) \/
    (3 * v <= C - x /\ nu v = 9).
  Proof.
    unfold nu. destruct (C - x <? 2 * v) eqn:E1; [left; lia|].
    destruct (C <? 3 * v) eqn:E2; [right; left; lia|].
    destruct (C - x <? 3 * v) eqn:E3; [right; right; left; lia|right; right; right; lia].
  Qed.

  (** the weight of the only companion p of a big item b *)
  Definition wp (b p : Z) : Z :=
    if C - x <? 2 * p then 17 else if C <? 3 * p then 13
    else if C - x <? 3 * p then (if C - x <? 3 * (C - b - x) then 13 else 12)
    else (if 2 * x <=? C - b then 10 else 9).

  Lemma wp_spec b p :
    (C - x < 2 * p /\ wp b p = 17) \/
    (2 * p <= C - x /\ C < 3 * p /\ wp b p = 13) \/
    (3 * p <= C /\ C - x < 3 * p /\ C - x < 3 * (C - b - x) /\ wp b p = 13) \/
    (3 * p <= C /\ C - x < 3 * p /\ 3 * (C - b - x) <= C - x /\ wp b p = 12) \/
    (3 * p <= C - x /\ 2 * x <= C - b /\ wp b p = 10) \/
    (3 * p <= C - x /\ C - b < 2 * x /\ wp b p = 9).
  Proof.
    unfold wp. destruct (C - x <? 2 * p) eqn:E1; [left; lia|].
    destruct (C <? 3 * p) eqn:E2; [right; left; lia|].
    destruct (C - x <? 3 * p) eqn:E3.
    - destruct (C - x <? 3 * (C - b - x)) eqn:E4; [right; right; left; lia|right; right; right; left; lia].
    - destruct (2 * x <=? C - b) eqn:E4; [right; right; right; right; left; lia|right; right; right; right; right; lia].
  Qed.

  Definition Wcore (c : list Z) : list Z :=
    match c with
    | [] => []
    | b :: Q =>
        if C <? 2 * b then
          if C - x <? b then 36 :: map (fun _ => 0) Q
          else match Q with
               | [p] => [36 - wp b p; wp b p]
               | _ => 18 :: map (fun _ => 9) Q
               end
        else map nu c
    end.


  Lemma Wcore_length c : length (Wcore c) = length c.
  Proof.
    unfold Wcore. destruct c as [|b Q]; [reflexivity|].
    destruct (C <? 2 * b); [|apply map_length].
    destruct (C - x <? b); [cbn [length]; rewrite map_length; reflexivity|].
    destruct Q as [|p [|q Q]]; cbn [length]; rewrite ?map_length; reflexivity.
  Qed.

  Notation wl := (wl Wcore).
  Notation cw := (cw Wcore).
  Notation tw := (tw Wcore).
  Notation gw := (gw Wcore).

  Lemma kind c k v : okcore c -> nth_error c k = Some v ->
    x <= v /\ v <= hd 0 c /\
    ( (C - x < v /\ nth k (Wcore c) 0 = 36)
    \/ (exists p, c = [v; p] /\ k = 0%nat /\ C < 2 * v /\ v <= C - x /\ nth k (Wcore c) 0 = 36 - wp v p)
    \/ (C < 2 * v /\ v <= C - x /\ hd 0 c = v /\ nth k (Wcore c) 0 = 18)
    \/ (exists b, c = [b; v] /\ k = 1%nat /\ C < 2 * b /\ b <= C - x /\ 2 * v <= C /\ nth k (Wcore c) 0 = wp b v)
    \/ (2 * v <= C /\ C < 2 * hd 0 c /\ nth k (Wcore c) 0 = 9)
    \/ (2 * v <= C /\ 2 * hd 0 c <= C /\ nth k (Wcore c) 0 = nu v)).
  Proof.
    intros (Hge & Hsum & Hcl & Hhd) Hn.
    assert (Hin : In v c) by (eapply nth_error_In; exact Hn).
    split; [rewrite Forall_forall in Hge; apply Hge; exact Hin|].
    split; [rewrite Forall_forall in Hhd; apply Hhd; exact Hin|].
    destruct c as [|h Q]; [destruct k; discriminate Hn|]. cbn [hd] in *.
    unfold Wcore. destruct (C <? 2 * h) eqn:EB.
    - (* a bin with a big item *)
      destruct (C - x <? h) eqn:EZ.
      + (* alone *)
        destruct Q as [|p Q].
        * destruct k as [|k]; [|destruct k; discriminate Hn]. cbn in Hn. injection Hn as Hn. subst v.
          left. cbn [nth map]. lia.
        * exfalso. fa Hge Hh. fa Hge Hp. rewrite !pk_zsum_cons in Hsum.
          assert (0 <= zsum Q).
          { apply zsum_nonneg. eapply Forall_impl; [|exact Hge]. intros z Hz. cbv beta in Hz. lia. }
          lia.
      + destruct Q as [|p [|q Q]].
        * exfalso. rewrite pk_zsum_cons, pk_zsum_nil in Hcl. lia.
        * fa Hge Hh. fa Hge Hp. rewrite !pk_zsum_cons, pk_zsum_nil in Hsum.
          destruct k as [|[|k]]; cbn in Hn.
          -- injection Hn as Hn. subst v. right; left. exists p. cbn [nth]. repeat split; lia.
          -- injection Hn as Hn. subst v. right; right; right; left. exists h. cbn [nth]. repeat split; lia.
          -- destruct k; discriminate Hn.
        * fa Hge Hh. fa Hge Hp. fa Hge Hq. rewrite !pk_zsum_cons in Hsum.
          assert (0 <= zsum Q).
          { apply zsum_nonneg. eapply Forall_impl; [|exact Hge]. intros z Hz. cbv beta in Hz. lia. }
          destruct k as [|k]; cbn [nth_error] in Hn.
          -- injection Hn as Hn. subst v. right; right; left. cbn [nth]. lia.
          -- right; right; right; right; left.
             assert (Hv : 2 * v <= C).
             { apply nth_error_In in Hn. rewrite Forall_forall in Hge.
               destruct Hn as [E|[E|Hn]]; [lia|lia|].
               assert (Hv : v <= zsum Q).
               { apply in_le_zsum; [exact Hn|]. apply Forall_forall. intros z Hz. specialize (Hge z Hz). cbv beta in Hge. lia. }
               lia. }
             split; [exact Hv|]. split; [lia|].
             change (nth (S k) (18 :: map (fun _ : Z => 9) (p :: q :: Q)) 0 = 9). cbn [nth].
             apply (nth_map_some (fun _ : Z => 9) _ k v 0 Hn).
    - (* no big item *)
      right; right; right; right; right.
      assert (Hv : v <= h) by (rewrite Forall_forall in Hhd; apply Hhd; exact Hin).
      split; [lia|]. split; [lia|].
      apply (nth_map_some nu _ k v 0 Hn).
  Qed.
  (** the three kinds of a value of at most C/2 *)
  Lemma small_kind a : Vc a -> 2 * lv a <= C ->
    (2 * hd 0 (lc a) <= C /\ wl a = nu (lv a)) \/
    (C < 2 * hd 0 (lc a) /\ wl a = 9) \/
    (exists b, lc a = [b; lv a] /\ lk a = 1%nat /\ C < 2 * b /\ b <= C - x /\ wl a = wp b (lv a)).
  Proof.
    intros [Ho Hn] Hs. unfold wl.
    destruct (kind _ _ _ Ho Hn) as (H1 & H2 & [K|[(p & E & Ek & K)|[K|[(b & E & Ek & K)|[K|K]]]]]); try lia.
    right; right. exists b. repeat split; try tauto; lia.
  Qed.

  (** the three kinds of a value above C/2 *)
  Lemma big_kind a : Vc a -> C < 2 * lv a ->
    (C - x < lv a /\ wl a = 36) \/
    (exists p, lc a = [lv a; p] /\ lk a = 0%nat /\ lv a <= C - x /\ wl a = 36 - wp (lv a) p) \/
    (lv a <= C - x /\ wl a = 18).
  Proof.
    intros [Ho Hn] Hs. unfold wl.
    destruct (kind _ _ _ Ho Hn) as (H1 & H2 & [K|[(p & E & Ek & K)|[K|[(b & E & Ek & K)|[K|K]]]]]); try lia.
    right; left. exists p. repeat split; try tauto; lia.
  Qed.

  Definition nu1 (v : Z) : Z := if 3 * v <=? C then nu v + 1 else nu v.

  Lemma nu1_spec v :
    (C - x < 2 * v /\ nu v = 18 /\ nu1 v = 18) \/
    (2 * v <= C - x /\ C < 3 * v /\ nu v = 14 /\ nu1 v = 14) \/
    (3 * v <= C /\ C - x < 3 * v /\ nu v = 12 /\ nu1 v = 13) \/
    (3 * v <= C - x /\ nu v = 9 /\ nu1 v = 10).
  Proof.
    unfold nu1. destruct (nu_spec v) as [K|[K|[K|K]]]; destruct (3 * v <=? C) eqn:E; lia.
  Qed.

  Lemma wl_small_bound a : Vc a -> 2 * lv a <= C -> 9 <= wl a <= nu1 (lv a).
  Proof.
    intros Hv Hs. pose proof (Vc_ge a Hv) as Hge.
    destruct (small_kind a Hv Hs) as [[_ K]|[[_ K]|(b & E & Ek & Hb & Hb' & K)]]; rewrite K.
    - destruct (nu1_spec (lv a)) as [N|[N|[N|N]]]; lia.
    - destruct (nu1_spec (lv a)) as [N|[N|[N|N]]]; lia.
    - destruct (nu1_spec (lv a)) as [N|[N|[N|N]]]; destruct (wp_spec b (lv a)) as [W|[W|[W|[W|[W|W]]]]]; lia.
  Qed.
  (** a boosted companion z (alone with b' in its bin) cannot share an optimal bin with b, whose only
      companion p is larger than z and fits with b', and a further value z' *)
  Lemma boosted_vs_B1 a az b p b' z z' :
    lc a = [b; p] -> lc az = [b'; z] -> okcore [b; p] -> okcore [b'; z] -> Rc a az ->
    C < 2 * b' -> x <= z' -> b + z + z' <= C -> z < p -> b' + p <= C -> False.
  Proof.
    intros E1 E2 O1 O2 HR Hb' Hz' Hsum Hzp Hfit.
    apply okcore2 in O1. apply okcore2 in O2. unfold Rc in HR. rewrite E1, E2 in HR.
    destruct HR as [E|[HL|HL]].
    - injection E as Eb Ez. lia.
    - destruct HL as [_ HL]. cbn [hd] in HL. lia.
    - apply Later2 in HL. destruct HL as (_ & HL & _). revert HL. sel_cases p.
  Qed.

  (** next to b (whose only companion p is not of the largest class) and a further value, a value is
      not boosted *)
  Lemma partner_unboosted a az b p z' :
    lc a = [b; p] -> okcore [b; p] -> C < 2 * b -> 2 * p <= C - x ->
    Vc az -> 2 * lv az <= C -> Rc a az -> x <= z' -> b + lv az + z' <= C ->
    wl az <= nu (lv az).
  Proof.
    intros E1 O1 Hb Hp Hv Hs HR Hz' Hsum. pose proof (okcore2 _ _ O1) as O1'.
    pose proof (Vc_ge az Hv) as Hge.
    destruct (small_kind az Hv Hs) as [[_ K]|[[_ K]|(b' & E2 & Ek & Hb' & Hb'' & K)]]; rewrite K.
    - lia.
    - destruct (nu_spec (lv az)) as [N|[N|[N|N]]]; lia.
    - assert (O2 : okcore [b'; lv az]) by (rewrite <- E2; apply Hv).
      pose proof (okcore2 _ _ O2) as O2'.
      destruct (nu_spec (lv az)) as [N|[N|[N|N]]]; destruct (wp_spec b' (lv az)) as [W|[W|[W|[W|[W|W]]]]]; try lia.
      + exfalso. apply (boosted_vs_B1 a az b p b' (lv az) z' E1 E2 O1 O2 HR); lia.
      + exfalso. apply (boosted_vs_B1 a az b p b' (lv az) z' E1 E2 O1 O2 HR); lia.
  Qed.

  (** (36 - w p) + the two other values <= 44 *)
  Lemma double_partner_bound a a1 a2 b p :
    lc a = [b; p] -> okcore [b; p] -> C < 2 * b ->
    Vc a1 -> Vc a2 -> Rc a a1 -> Rc a a2 -> b + lv a1 + lv a2 <= C ->
    wl a1 + wl a2 <= wp b p + 8.
  Proof.
    intros E1 O1 Hb V1 V2 R1 R2 Hsum. pose proof (okcore2 _ _ O1) as O1'.
    pose proof (Vc_ge a1 V1) as G1. pose proof (Vc_ge a2 V2) as G2.
    assert (S1 : 2 * lv a1 <= C) by lia. assert (S2 : 2 * lv a2 <= C) by lia.
    pose proof (wl_small_bound a1 V1 S1) as B1. pose proof (wl_small_bound a2 V2 S2) as B2.
    destruct (wp_spec b p) as [W|[W|[W|[W|[W|W]]]]].
    - destruct (nu1_spec (lv a1)) as [N1|[N1|[N1|N1]]]; destruct (nu1_spec (lv a2)) as [N2|[N2|[N2|N2]]]; lia.
    - assert (U1 : wl a1 <= nu (lv a1)) by (apply (partner_unboosted a a1 b p (lv a2)); try assumption; lia).
      assert (U2 : wl a2 <= nu (lv a2)) by (apply (partner_unboosted a a2 b p (lv a1)); try assumption; lia).
      destruct (nu_spec (lv a1)) as [N1|[N1|[N1|N1]]]; destruct (nu_spec (lv a2)) as [N2|[N2|[N2|N2]]]; lia.
    - assert (U1 : wl a1 <= nu (lv a1)) by (apply (partner_unboosted a a1 b p (lv a2)); try assumption; lia).
      assert (U2 : wl a2 <= nu (lv a2)) by (apply (partner_unboosted a a2 b p (lv a1)); try assumption; lia).
      destruct (nu_spec (lv a1)) as [N1|[N1|[N1|N1]]]; destruct (nu_spec (lv a2)) as [N2|[N2|[N2|N2]]]; lia.
    - assert (U1 : wl a1 <= nu (lv a1)) by (apply (partner_unboosted a a1 b p (lv a2)); try assumption; lia).
      assert (U2 : wl a2 <= nu (lv a2)) by (apply (partner_unboosted a a2 b p (lv a1)); try assumption; lia).
      destruct (nu_spec (lv a1)) as [N1|[N1|[N1|N1]]]; destruct (nu_spec (lv a2)) as [N2|[N2|[N2|N2]]]; lia.
    - assert (U1 : wl a1 <= nu (lv a1)) by (apply (partner_unboosted a a1 b p (lv a2)); try assumption; lia).
      assert (U2 : wl a2 <= nu (lv a2)) by (apply (partner_unboosted a a2 b p (lv a1)); try assumption; lia).
      destruct (nu_spec (lv a1)) as [N1|[N1|[N1|N1]]]; destruct (nu_spec (lv a2)) as [N2|[N2|[N2|N2]]]; lia.
    - lia.
  Qed.

  (** (36 - w p) + one other value <= 44 *)
  Lemma single_partner_bound a a1 b p :
    lc a = [b; p] -> okcore [b; p] -> C < 2 * b ->
    Vc a1 -> Rc a a1 -> b + lv a1 <= C -> wl a1 <= wp b p + 8.
  Proof.
    intros E1 O1 Hb V1 R1 Hsum. pose proof (okcore2 _ _ O1) as O1'.
    pose proof (Vc_ge a1 V1) as G1. assert (S1 : 2 * lv a1 <= C) by lia.
    pose proof (wl_small_bound a1 V1 S1) as B1.
    destruct (wp_spec b p) as [W|[W|[W|[W|[W|W]]]]];
      try (destruct (nu1_spec (lv a1)) as [N1|[N1|[N1|N1]]]; lia).
    (* the companion is small and unboosted: a natural large value cannot come *)
    destruct (small_kind a1 V1 S1) as [[Hh K]|[[_ K]|(b' & E2 & Ek & Hb' & Hb'' & K)]]; rewrite K.
    - destruct (nu_spec (lv a1)) as [N|[N|[N|N]]]; try lia. exfalso.
      unfold Rc in R1. rewrite E1 in R1. destruct R1 as [E|[HL|HL]].
      + rewrite <- E in Hh. cbn [hd] in Hh. lia.
      + pose proof (Later_in _ _ _ HL (Vc_in a1 V1)) as HL'. revert HL'. sel_cases (lv a1).
      + destruct HL as [_ HL]. cbn [hd] in HL. lia.
    - lia.
    - destruct (wp_spec b' (lv a1)) as [W'|[W'|[W'|[W'|[W'|W']]]]]; lia.
  Qed.

  (** a value of at most C/2 weighs its natural weight, or one more when it is boosted *)
  Lemma small_boost a : Vc a -> 2 * lv a <= C ->
    wl a <= nu (lv a) \/
    (exists b, lc a = [b; lv a] /\ C < 2 * b /\ okcore [b; lv a] /\ wl a = nu (lv a) + 1 /\
       ((3 * lv a <= C /\ C - x < 3 * lv a /\ C - x < 3 * (C - b - x)) \/
        (3 * lv a <= C - x /\ 2 * x <= C - b))).
  Proof.
    intros Hv Hs. pose proof (Vc_ge a Hv) as Hge.
    destruct (small_kind a Hv Hs) as [[_ K]|[[_ K]|(b & E & Ek & Hb & Hb' & K)]].
    - left. lia.
    - left. destruct (nu_spec (lv a)) as [N|[N|[N|N]]]; lia.
    - assert (O : okcore [b; lv a]) by (rewrite <- E; apply Hv).
      destruct (nu_spec (lv a)) as [N|[N|[N|N]]]; destruct (wp_spec b (lv a)) as [W|[W|[W|[W|[W|W]]]]];
        try (left; lia); right; exists b; (split; [exact E|split; [exact Hb|split; [exact O|split; [lia|lia]]]]).
  Qed.

  (** a boosted medium value and a boosted small value do not occur together *)
  Lemma no_mix am az b1 b2 :
    lc am = [b1; lv am] -> lc az = [b2; lv az] -> okcore [b1; lv am] -> okcore [b2; lv az] ->
    C < 2 * b1 -> C < 2 * b2 -> Rc am az ->
    3 * lv am <= C -> C - x < 3 * lv am -> C - x < 3 * (C - b1 - x) ->
    3 * lv az <= C - x -> 2 * x <= C - b2 -> False.
  Proof.
    intros E1 E2 O1 O2 Hb1 Hb2 HR M1 M2 M3 S1 S2.
    apply okcore2 in O1. apply okcore2 in O2. unfold Rc in HR. rewrite E1, E2 in HR.
    destruct HR as [E|[HL|HL]].
    - injection E as Eb Ez. lia.
    - destruct HL as [_ HL]. cbn [hd] in HL. lia.
    - apply Later2 in HL. destruct HL as (_ & HL & _). revert HL. sel_cases (lv am).
  Qed.

  (** large + upper medium + lower medium *)
  Lemma pattern1 aL aM am : Vc aL -> Vc aM -> Vc am -> Rc aM am ->
    2 * lv aL <= C -> C - x < 2 * lv aL ->
    2 * lv aM <= C - x -> C < 3 * lv aM ->
    3 * lv am <= C -> C - x < 3 * lv am ->
    lv aL + lv aM + lv am <= C -> wl aL + wl aM + wl am <= 44.
  Proof.
    intros VL VM Vm HR L1 L2 M1 M2 m1 m2 Hsum.
    assert (SM : 2 * lv aM <= C) by lia. assert (Sm : 2 * lv am <= C) by lia.
    pose proof (wl_small_bound aL VL L1) as BL. pose proof (wl_small_bound aM VM SM) as BM.
    destruct (nu1_spec (lv aL)) as [NL|[NL|[NL|NL]]]; try lia.
    destruct (nu1_spec (lv aM)) as [NM|[NM|[NM|NM]]]; try lia.
    destruct (small_boost am Vm Sm) as [U|(b & E & Hb & O & K & Hc)];
      [destruct (nu_spec (lv am)) as [N|[N|[N|N]]]; lia|].
    destruct (nu_spec (lv am)) as [N|[N|[N|N]]]; try lia.
    destruct Hc as [Hc|Hc]; [|lia].
    (* the upper medium value is a companion in an earlier bin: it weighs at most 13 *)
    destruct (small_kind aM VM SM) as [[Hh K']|[[_ K']|(b' & E' & Ek' & Hb' & Hb'' & K')]].
    - exfalso. pose proof (okcore2 _ _ O) as O'.
      unfold Rc in HR. rewrite E in HR. destruct HR as [E0|[HL|HL]].
      + rewrite E0 in Hh. cbn [hd] in Hh. lia.
      + destruct HL as [_ HL]. cbn [hd] in HL. lia.
      + pose proof (Later_in _ _ _ HL (Vc_in aM VM)) as HL'. revert HL'. sel_cases (lv aM).
    - lia.
    - destruct (wp_spec b' (lv aM)) as [W'|[W'|[W'|[W'|[W'|W']]]]]; lia.
  Qed.

  (** two lower medium + two small *)
  Lemma pattern2 m1 m2 s1 s2 : Vc m1 -> Vc m2 -> Vc s1 -> Vc s2 ->
    Rc m1 s1 -> Rc m1 s2 -> Rc m2 s1 -> Rc m2 s2 ->
    3 * lv m1 <= C -> C - x < 3 * lv m1 -> 3 * lv m2 <= C -> C - x < 3 * lv m2 ->
    3 * lv s1 <= C - x -> 3 * lv s2 <= C - x ->
    wl m1 + wl m2 + wl s1 + wl s2 <= 44.
  Proof.
    intros V1 V2 V3 V4 R13 R14 R23 R24 A1 A2 B1 B2 C1 C2.
    pose proof (Vc_ge s1 V3) as G3. pose proof (Vc_ge s2 V4) as G4.
    assert (S1 : 2 * lv m1 <= C) by lia. assert (S2 : 2 * lv m2 <= C) by lia.
    assert (S3 : 2 * lv s1 <= C) by lia. assert (S4 : 2 * lv s2 <= C) by lia.
    destruct (nu_spec (lv m1)) as [N1|[N1|[N1|N1]]]; try lia.
    destruct (nu_spec (lv m2)) as [N2|[N2|[N2|N2]]]; try lia.
    destruct (nu_spec (lv s1)) as [N3|[N3|[N3|N3]]]; try lia.
    destruct (nu_spec (lv s2)) as [N4|[N4|[N4|N4]]]; try lia.
    destruct (small_boost m1 V1 S1) as [U1|(b1 & E1 & Hb1 & O1 & K1 & [T1|T1])];
    destruct (small_boost m2 V2 S2) as [U2|(b2 & E2 & Hb2 & O2 & K2 & [T2|T2])];
    destruct (small_boost s1 V3 S3) as [U3|(b3 & E3 & Hb3 & O3 & K3 & [T3|T3])];
    destruct (small_boost s2 V4 S4) as [U4|(b4 & E4 & Hb4 & O4 & K4 & [T4|T4])]; try lia; exfalso.
    all: first [ apply (no_mix m1 s1 b1 b3 E1 E3 O1 O3 Hb1 Hb3 R13); lia
               | apply (no_mix m1 s2 b1 b4 E1 E4 O1 O4 Hb1 Hb4 R14); lia
               | apply (no_mix m2 s1 b2 b3 E2 E3 O2 O3 Hb2 Hb3 R23); lia
               | apply (no_mix m2 s2 b2 b4 E2 E4 O2 O4 Hb2 Hb4 R24); lia ].
  Qed.

  (** ---- 5. a feasible set of labelled values weighs at most 44 ---- *)
  Lemma wp_ge9 b p : 9 <= wp b p <= 17.
  Proof. destruct (wp_spec b p) as [W|[W|[W|[W|[W|W]]]]]; lia. Qed.

  Lemma group1 a : Vc a -> wl a <= 44.
  Proof.
    intros Va. pose proof (Vc_ge a Va) as Ga.
    destruct (Z_lt_le_dec C (2 * lv a)) as [Hbig|Hsm].
    - destruct (big_kind a Va Hbig) as [[_ K]|[(p & E & Ek & Hle & K)|[_ K]]]; rewrite K; try lia.
      pose proof (wp_ge9 (lv a) p). lia.
    - pose proof (wl_small_bound a Va Hsm). destruct (nu1_spec (lv a)) as [N|[N|[N|N]]]; lia.
  Qed.

  Lemma group2 a b : Vc a -> Vc b -> Rc a b -> lv b <= lv a -> lv a + lv b <= C -> wl a + wl b <= 44.
  Proof.
    intros Va Vb Rab Hab Hsum. pose proof (Vc_ge a Va) as Ga. pose proof (Vc_ge b Vb) as Gb.
    assert (Sb : 2 * lv b <= C) by lia. pose proof (wl_small_bound b Vb Sb) as Bb.
    destruct (Z_lt_le_dec C (2 * lv a)) as [Hbig|Hsm].
    - destruct (big_kind a Va Hbig) as [[Hz K]|[(p & E & Ek & Hle & K)|[_ K]]]; rewrite K.
      + lia.
      + assert (O : okcore [lv a; p]) by (rewrite <- E; apply Va).
        pose proof (single_partner_bound a b (lv a) p E O Hbig Vb Rab Hsum). lia.
      + destruct (nu1_spec (lv b)) as [N|[N|[N|N]]]; lia.
    - pose proof (wl_small_bound a Va Hsm) as Ba.
      destruct (nu1_spec (lv a)) as [Na|[Na|[Na|Na]]]; destruct (nu1_spec (lv b)) as [Nb|[Nb|[Nb|Nb]]]; lia.
  Qed.

  Lemma group3 a b c : Vc a -> Vc b -> Vc c -> Rc a b -> Rc a c -> Rc b c ->
    lv b <= lv a -> lv c <= lv b -> lv a + lv b + lv c <= C -> wl a + wl b + wl c <= 44.
  Proof.
    intros Va Vb Vv Rab Rac Rbc Hab Hbc Hsum.
    pose proof (Vc_ge a Va) as Ga. pose proof (Vc_ge b Vb) as Gb. pose proof (Vc_ge c Vv) as Gc.
    assert (Sb : 2 * lv b <= C) by lia. pose proof (wl_small_bound b Vb Sb) as Bb.
    assert (Sc : 2 * lv c <= C) by lia. pose proof (wl_small_bound c Vv Sc) as Bc.
    destruct (Z_lt_le_dec C (2 * lv a)) as [Hbig|Hsm].
    - destruct (big_kind a Va Hbig) as [[Hz K]|[(p & E & Ek & Hle & K)|[_ K]]]; rewrite K.
      + lia.
      + assert (O : okcore [lv a; p]) by (rewrite <- E; apply Va).
        pose proof (double_partner_bound a b c (lv a) p E O Hbig Vb Vv Rab Rac Hsum). lia.
      + destruct (nu1_spec (lv b)) as [Nb|[Nb|[Nb|Nb]]]; destruct (nu1_spec (lv c)) as [Nc|[Nc|[Nc|Nc]]]; lia.
    - pose proof (wl_small_bound a Va Hsm) as Ba.
      destruct (nu1_spec (lv a)) as [Na|[Na|[Na|Na]]]; destruct (nu1_spec (lv b)) as [Nb|[Nb|[Nb|Nb]]];
        destruct (nu1_spec (lv c)) as [Nc|[Nc|[Nc|Nc]]]; try lia.
      apply pattern1; try assumption; lia.
  Qed.

  Lemma group4 a b c d : Vc a -> Vc b -> Vc c -> Vc d ->
    Rc a c -> Rc a d -> Rc b c -> Rc b d ->
    lv b <= lv a -> lv c <= lv b -> lv d <= lv c -> lv a + lv b + lv c + lv d <= C ->
    wl a + wl b + wl c + wl d <= 44.
  Proof.
    intros Va Vb Vv Vd Rac Rad Rbc Rbd Hab Hbc Hcd Hsum.
    pose proof (Vc_ge a Va) as Ga. pose proof (Vc_ge b Vb) as Gb. pose proof (Vc_ge c Vv) as Gc.
    pose proof (Vc_ge d Vd) as Gd.
    assert (Sa : 2 * lv a <= C) by lia. pose proof (wl_small_bound a Va Sa) as Ba.
    assert (Sb : 2 * lv b <= C) by lia. pose proof (wl_small_bound b Vb Sb) as Bb.
    assert (Sc : 2 * lv c <= C) by lia. pose proof (wl_small_bound c Vv Sc) as Bc.
    assert (Sd : 2 * lv d <= C) by lia. pose proof (wl_small_bound d Vd Sd) as Bd.
    destruct (nu1_spec (lv a)) as [Na|[Na|[Na|Na]]]; destruct (nu1_spec (lv b)) as [Nb|[Nb|[Nb|Nb]]];
      destruct (nu1_spec (lv c)) as [Nc|[Nc|[Nc|Nc]]]; destruct (nu1_spec (lv d)) as [Nd|[Nd|[Nd|Nd]]]; try lia.
    apply pattern2; try assumption; lia.
  Qed.


  (** ---- 6. the bins of first-fit-decreasing are heavy ---- *)
  Definition isL (v : Z) : Prop := C - x < 2 * v /\ 2 * v <= C.
  Definition isMp (v : Z) : Prop := 2 * v <= C - x /\ C < 3 * v.
  Definition isMm (v : Z) : Prop := 3 * v <= C /\ C - x < 3 * v.

  Ltac ex_tac := first [ apply Exists_cons_hd; unfold isL, isMp, isMm; lia | apply Exists_cons_tl; ex_tac ].
  Ltac nofit_tac := let y := fresh "y" in let Hy := fresh "Hy" in
    intros y Hy; unfold isL, isMp, isMm in Hy; sel_cases y.
  Ltac def_tac :=
    first [ left; lia
          | right; left; split; [lia|split; [ex_tac|nofit_tac]]
          | right; right; left; split; [lia|split; [ex_tac|split; nofit_tac]]
          | right; right; right; split; [lia|split; [ex_tac|split; [nofit_tac|split; nofit_tac]]] ].

  Lemma core_cases c : okcore c ->
    36 <= cw c \/
    (30 <= cw c /\ Exists isL c /\ nofit isL c) \/
    (32 <= cw c /\ Exists isMp c /\ nofit isL c /\ nofit isMp c) \/
    (30 <= cw c /\ Exists isMm c /\ nofit isL c /\ nofit isMp c /\ nofit isMm c).
  Proof.
    intros (Hge & Hsum & Hcl & Hhd). unfold cw.
    destruct c as [|a [|b [|c [|d [|e r]]]]].
    - exfalso. rewrite pk_zsum_nil in Hcl. lia.
    - (* one value: above C - x *)
      left. rewrite pk_zsum_cons, pk_zsum_nil in Hcl. unfold Wcore.
      destruct (C <? 2 * a) eqn:EB; [|lia]. destruct (C - x <? a) eqn:EZ; [|lia].
      cbn [map]. rewrite pk_zsum_cons, pk_zsum_nil. lia.
    - fa Hge Ha. fa Hge Hb. fa Hhd Ha'. fa Hhd Hb'. cbn [hd] in *.
      rewrite !pk_zsum_cons, pk_zsum_nil in *. unfold Wcore.
      destruct (C <? 2 * a) eqn:EB.
      + left. destruct (C - x <? a) eqn:EZ; [lia|]. rewrite !pk_zsum_cons, pk_zsum_nil. lia.
      + cbn [map]. rewrite !pk_zsum_cons, pk_zsum_nil.
        destruct (nu_spec a) as [Na|[Na|[Na|Na]]]; destruct (nu_spec b) as [Nb|[Nb|[Nb|Nb]]]; try lia; def_tac.
    - fa Hge Ha. fa Hge Hb. fa Hge Hc. fa Hhd Ha'. fa Hhd Hb'. fa Hhd Hc'. cbn [hd] in *.
      rewrite !pk_zsum_cons, pk_zsum_nil in *. unfold Wcore.
      destruct (C <? 2 * a) eqn:EB.
      + left. destruct (C - x <? a) eqn:EZ; [lia|]. cbn [map]. rewrite !pk_zsum_cons, pk_zsum_nil. lia.
      + cbn [map]. rewrite !pk_zsum_cons, pk_zsum_nil.
        destruct (nu_spec a) as [Na|[Na|[Na|Na]]]; destruct (nu_spec b) as [Nb|[Nb|[Nb|Nb]]];
          destruct (nu_spec c) as [Nc|[Nc|[Nc|Nc]]]; try lia; def_tac.
    - fa Hge Ha. fa Hge Hb. fa Hge Hc. fa Hge Hd. fa Hhd Ha'. fa Hhd Hb'. fa Hhd Hc'. fa Hhd Hd'. cbn [hd] in *.
      rewrite !pk_zsum_cons, pk_zsum_nil in *. unfold Wcore.
      destruct (C <? 2 * a) eqn:EB.
      + left. destruct (C - x <? a) eqn:EZ; [lia|]. cbn [map]. rewrite !pk_zsum_cons, pk_zsum_nil. lia.
      + left. cbn [map]. rewrite !pk_zsum_cons, pk_zsum_nil.
        destruct (nu_spec a) as [Na|[Na|[Na|Na]]]; destruct (nu_spec b) as [Nb|[Nb|[Nb|Nb]]];
          destruct (nu_spec c) as [Nc|[Nc|[Nc|Nc]]]; destruct (nu_spec d) as [Nd|[Nd|[Nd|Nd]]]; lia.
    - exfalso. fa Hge Ha. fa Hge Hb. fa Hge Hc. fa Hge Hd. fa Hge He. rewrite !pk_zsum_cons in Hsum.
      assert (0 <= zsum r).
      { apply zsum_nonneg. eapply Forall_impl; [|exact Hge]. intros z Hz. cbv beta in Hz. lia. }
      lia.
  Qed.
  Lemma heavy_C : forall cs, chain cs -> none isL cs -> none isMp cs -> none isMm cs ->
    36 * Z.of_nat (length cs) <= tw cs.
  Proof.
    induction cs as [|c r IH]; intros Hch N1 N2 N3; [rewrite tw_nil; cbn [length Z.of_nat]; lia|].
    cbn [chain] in Hch. destruct Hch as (Ho & HL & Hch).
    unfold none in N1, N2, N3. apply Forall_cons_iff in N1. destruct N1 as [N1c N1].
    apply Forall_cons_iff in N2. destruct N2 as [N2c N2]. apply Forall_cons_iff in N3. destruct N3 as [N3c N3].
    specialize (IH Hch N1 N2 N3). rewrite tw_cons. cbn [length]. rewrite Nat2Z.inj_succ.
    destruct (core_cases c Ho) as [H|[(H & HE & _)|[(H & HE & _)|(H & HE & _)]]]; [lia| | |].
    - exfalso. exact (Exists_Forall_neg _ _ HE N1c).
    - exfalso. exact (Exists_Forall_neg _ _ HE N2c).
    - exfalso. exact (Exists_Forall_neg _ _ HE N3c).
  Qed.

  Lemma heavy_B : forall cs, chain cs -> none isL cs -> none isMp cs ->
    36 * Z.of_nat (length cs) <= tw cs + 6.
  Proof.
    induction cs as [|c r IH]; intros Hch N1 N2; [rewrite tw_nil; cbn [length Z.of_nat]; lia|].
    cbn [chain] in Hch. destruct Hch as (Ho & HL & Hch).
    unfold none in N1, N2. apply Forall_cons_iff in N1. destruct N1 as [N1c N1].
    apply Forall_cons_iff in N2. destruct N2 as [N2c N2].
    rewrite tw_cons. cbn [length]. rewrite Nat2Z.inj_succ.
    destruct (core_cases c Ho) as [H|[(H & HE & _)|[(H & HE & _)|(H & HE & F1 & F2 & F3)]]].
    - specialize (IH Hch N1 N2). lia.
    - exfalso. exact (Exists_Forall_neg _ _ HE N1c).
    - exfalso. exact (Exists_Forall_neg _ _ HE N2c).
    - pose proof (heavy_C r Hch N1 N2 (none_later _ c r F3 HL)). lia.
  Qed.

  Lemma heavy_A : forall cs, chain cs -> none isL cs -> 36 * Z.of_nat (length cs) <= tw cs + 10.
  Proof.
    induction cs as [|c r IH]; intros Hch N1; [rewrite tw_nil; cbn [length Z.of_nat]; lia|].
    cbn [chain] in Hch. destruct Hch as (Ho & HL & Hch).
    unfold none in N1. apply Forall_cons_iff in N1. destruct N1 as [N1c N1].
    rewrite tw_cons. cbn [length]. rewrite Nat2Z.inj_succ.
    destruct (core_cases c Ho) as [H|[(H & HE & _)|[(H & HE & F1 & F2)|(H & HE & F1 & F2 & F3)]]].
    - specialize (IH Hch N1). lia.
    - exfalso. exact (Exists_Forall_neg _ _ HE N1c).
    - pose proof (heavy_B r Hch N1 (none_later _ c r F2 HL)). lia.
    - pose proof (heavy_C r Hch N1 (none_later _ c r F2 HL) (none_later _ c r F3 HL)). lia.
  Qed.

  Lemma heavy : forall cs, chain cs -> 36 * Z.of_nat (length cs) <= tw cs + 16.
  Proof.
    induction cs as [|c r IH]; intros Hch; [rewrite tw_nil; cbn [length Z.of_nat]; lia|].
    cbn [chain] in Hch. destruct Hch as (Ho & HL & Hch).
    rewrite tw_cons. cbn [length]. rewrite Nat2Z.inj_succ.
    destruct (core_cases c Ho) as [H|[(H & HE & F1)|[(H & HE & F1 & F2)|(H & HE & F1 & F2 & F3)]]].
    - specialize (IH Hch). lia.
    - pose proof (heavy_A r Hch (none_later _ c r F1 HL)). lia.
    - pose proof (heavy_B r Hch (none_later _ c r F1 HL) (none_later _ c r F2 HL)). lia.
    - pose proof (heavy_C r Hch (none_later _ c r F1 HL) (none_later _ c r F2 HL) (none_later _ c r F3 HL)). lia.
  Qed.
  Lemma light_sorted4 g : Forall Vc g -> AllPairs Rc g ->
    StronglySorted (fun a b => lv b <= lv a) g -> gv g <= C -> gw g <= 44.
  Proof.
    intros HV HR HS Hsum. pose proof (gv_ge g HV) as Hlen.
    destruct g as [|a [|b [|c [|d [|e r]]]]].
    - cbn. lia.
    - fa HV Va. unfold gw. cbn [map]. rewrite pk_zsum_cons, pk_zsum_nil. pose proof (group1 a Va). lia.
    - fa HV Va. fa HV Vb. cbn [AllPairs] in HR. destruct HR as (Ra & _). fa Ra Rab.
      inversion HS as [|a' l1 HS1 Ha]; subst. fa Ha Hab.
      unfold gv, gw in *. cbn [map] in *. rewrite !pk_zsum_cons, pk_zsum_nil in *.
      pose proof (group2 a b Va Vb Rab Hab ltac:(lia)). lia.
    - fa HV Va. fa HV Vb. fa HV Vv. cbn [AllPairs] in HR. destruct HR as (Ra & Rb & _).
      fa Ra Rab. fa Ra Rac. fa Rb Rbc.
      inversion HS as [|a' l1 HS1 Ha]; subst. fa Ha Hab. inversion HS1 as [|b' l2 HS2 Hb]; subst. fa Hb Hbc.
      unfold gv, gw in *. cbn [map] in *. rewrite !pk_zsum_cons, pk_zsum_nil in *.
      pose proof (group3 a b c Va Vb Vv Rab Rac Rbc Hab Hbc ltac:(lia)). lia.
    - fa HV Va. fa HV Vb. fa HV Vv. fa HV Vd. cbn [AllPairs] in HR. destruct HR as (Ra & Rb & Rc' & _).
      fa Ra Rab. fa Ra Rac. fa Ra Rad. fa Rb Rbc. fa Rb Rbd.
      inversion HS as [|a' l1 HS1 Ha]; subst. fa Ha Hab. inversion HS1 as [|b' l2 HS2 Hb]; subst. fa Hb Hbc.
      inversion HS2 as [|c' l3 HS3 Hc]; subst. fa Hc Hcd.
      unfold gv, gw in *. cbn [map] in *. rewrite !pk_zsum_cons, pk_zsum_nil in *.
      pose proof (group4 a b c d Va Vb Vv Vd Rac Rad Rbc Rbd Hab Hbc Hcd ltac:(lia)). lia.
    - exfalso. clear Hlen. fa HV Va. fa HV Vb. fa HV Vv. fa HV Vd. fa HV Ve.
      pose proof (Vc_ge a Va). pose proof (Vc_ge b Vb). pose proof (Vc_ge c Vv). pose proof (Vc_ge d Vd).
      pose proof (Vc_ge e Ve). pose proof (gv_ge r HV) as Hr.
      assert (0 <= x * Z.of_nat (length r)) by (apply Z.mul_nonneg_nonneg; lia).
      rewrite !gv_cons in Hsum. lia.
  Qed.

  Lemma quarter_bound {A : Type} (valueof : A -> Z) (t : bins A) (last : bin A) (x0 : A) (items : list A) (n : nat) :
    In x0 (snd last) -> valueof x0 = x ->
    closed valueof C x t -> sfit2 valueof C t -> wf valueof (t ++ [last]) -> feasible C (t ++ [last]) ->
    Forall (fun y => 0 <= valueof y) (contents (t ++ [last])) -> hdesc valueof (t ++ [last]) ->
    Permutation (contents (t ++ [last])) items -> Packable C (map valueof items) n ->
    36 * Z.of_nat (length t) <= 44 * Z.of_nat n + 16.
  Proof. apply (count_bound Wcore Wcore_length 36 44 16 light_sorted4 heavy). Qed.
  End Quarter.

  (** ---- 7. the weights for 5 x <= C, 2 C < 11 x, 41 x <= 8 C (scale 180 / 220) ---- *)
  Section Fifth.
  Hypothesis H5 : 5 * x <= C.
  Hypothesis H11 : 2 * C < 11 * x.
  Hypothesis H41 : 41 * x <= 8 * C.

  Definition nu5 (v : Z) : Z :=
    if C - x <? 2 * v then 90 else if C <? 3 * v then 72 else if C - x <? 3 * v then 60
    else if C <? 4 * v then 48 else if C - x <? 4 * v then 45 else 36.

  Lemma nu5_spec v :
    (C - x < 2 * v /\ nu5 v = 90) \/
    (2 * v <= C - x /\ C < 3 * v /\ nu5 v = 72) \/
    (3 * v <= C /\ C - x < 3 * v /\ nu5 v = 60) \/
    (3 * v <= C - x /\ C < 4 * v /\ nu5 v = 48) \/
    (4 * v <= C /\ C - x < 4 * v /\ nu5 v = 45) \/
    (4 * v <= C - x /\ nu5 v = 36).
  Proof.
    unfold nu5. destruct (C - x <? 2 * v) eqn:E1; [left; lia|].
    destruct (C <? 3 * v) eqn:E2; [right; left; lia|].
    destruct (C - x <? 3 * v) eqn:E3; [right; right; left; lia|].
    destruct (C <? 4 * v) eqn:E4; [right; right; right; left; lia|].
    destruct (C - x <? 4 * v) eqn:E5; [right; right; right; right; left; lia|right; right; right; right; right; lia].
  Qed.

  (** the weight of the only companion p of a big item b *)
  Definition wp5 (b p : Z) : Z :=
    if C - x <? 2 * p then 76 else if C <? 3 * p then 68
    else if C - x <? 3 * p then (if 7 * (C - x) <? 12 * (C - b) then 65 else 60)
    else if C <? 4 * p then (if 2 * C - x <? 4 * (C - b) then 53 else if C - x <? 2 * (C - b) then 50 else 48)
    else if C - x <? 4 * p then (if C - x <? 2 * (C - b) then 50 else 45)
    else 36.

  Lemma wp5_spec b p :
    (C - x < 2 * p /\ wp5 b p = 76) \/
    (2 * p <= C - x /\ C < 3 * p /\ wp5 b p = 68) \/
    (3 * p <= C /\ C - x < 3 * p /\ 7 * (C - x) < 12 * (C - b) /\ wp5 b p = 65) \/
    (3 * p <= C /\ C - x < 3 * p /\ 12 * (C - b) <= 7 * (C - x) /\ wp5 b p = 60) \/
    (3 * p <= C - x /\ C < 4 * p /\ 2 * C - x < 4 * (C - b) /\ wp5 b p = 53) \/
    (3 * p <= C - x /\ C < 4 * p /\ 4 * (C - b) <= 2 * C - x /\ C - x < 2 * (C - b) /\ wp5 b p = 50) \/
    (3 * p <= C - x /\ C < 4 * p /\ 2 * (C - b) <= C - x /\ wp5 b p = 48) \/
    (4 * p <= C /\ C - x < 4 * p /\ C - x < 2 * (C - b) /\ wp5 b p = 50) \/
    (4 * p <= C /\ C - x < 4 * p /\ 2 * (C - b) <= C - x /\ wp5 b p = 45) \/
    (4 * p <= C - x /\ wp5 b p = 36).
  Proof.
    unfold wp5. destruct (C - x <? 2 * p) eqn:E1; [left; lia|].
    destruct (C <? 3 * p) eqn:E2; [right; left; lia|].
    destruct (C - x <? 3 * p) eqn:E3.
    { destruct (7 * (C - x) <? 12 * (C - b)) eqn:E; [right; right; left; lia|right; right; right; left; lia]. }
    destruct (C <? 4 * p) eqn:E4.
    { destruct (2 * C - x <? 4 * (C - b)) eqn:E; [right; right; right; right; left; lia|].
      destruct (C - x <? 2 * (C - b)) eqn:E'; [right; right; right; right; right; left; lia|].
      right; right; right; right; right; right; left; lia. }
    destruct (C - x <? 4 * p) eqn:E5.
    { destruct (C - x <? 2 * (C - b)) eqn:E; [do 7 right; left; lia|do 8 right; left; lia]. }
    do 9 right. lia.
  Qed.

  Definition Wcore5 (c : list Z) : list Z :=
    match c with
    | [] => []
    | b :: Q =>
        if C <? 2 * b then
          if C - x <? b then 180 :: map (fun _ => 0) Q
          else match Q with
               | [p] => [180 - wp5 b p; wp5 b p]
               | _ => (180 - zsum (map nu5 Q)) :: map nu5 Q
               end
        else map nu5 c
    end.

  Lemma Wcore5_length c : length (Wcore5 c) = length c.
  Proof.
    unfold Wcore5. destruct c as [|b Q]; [reflexivity|].
    destruct (C <? 2 * b); [|apply map_length].
    destruct (C - x <? b); [cbn [length]; rewrite map_length; reflexivity|].
    destruct Q as [|p [|q Q]]; cbn [length]; rewrite ?map_length; reflexivity.
  Qed.

  Notation wl5 := (wl Wcore5).
  Notation cw5 := (cw Wcore5).
  Notation tw5 := (tw Wcore5).
  Notation gw5 := (gw Wcore5).

  Lemma nu5_ge v : 36 <= nu5 v <= 90.
  Proof. destruct (nu5_spec v) as [N|[N|[N|[N|[N|N]]]]]; lia. Qed.

  Lemma zsum_nu5_ge Q : 36 * Z.of_nat (length Q) <= zsum (map nu5 Q).
  Proof.
    induction Q as [|q Q IH]; [cbn; lia|]. cbn [map length]. rewrite pk_zsum_cons, Nat2Z.inj_succ.
    pose proof (nu5_ge q). lia.
  Qed.

  (** the kinds of a labelled value *)
  Lemma kind5 c k v : okcore c -> nth_error c k = Some v ->
    ( (C - x < v /\ nth k (Wcore5 c) 0 = 180)
    \/ (exists p, c = [v; p] /\ C < 2 * v /\ v <= C - x /\ nth k (Wcore5 c) 0 = 180 - wp5 v p)
    \/ (C < 2 * v /\ v <= C - x /\ nth k (Wcore5 c) 0 <= 108)
    \/ (exists b, c = [b; v] /\ C < 2 * b /\ b <= C - x /\ 2 * v <= C /\ nth k (Wcore5 c) 0 = wp5 b v)
    \/ (2 * v <= C /\ C < 2 * hd 0 c /\ hd 0 c + v + x <= C /\ nth k (Wcore5 c) 0 = nu5 v)
    \/ (2 * v <= C /\ 2 * hd 0 c <= C /\ nth k (Wcore5 c) 0 = nu5 v)).
  Proof.
    intros (Hge & Hsum & Hcl & Hhd) Hn.
    assert (Hin : In v c) by (eapply nth_error_In; exact Hn).
    assert (Hxv : x <= v) by (rewrite Forall_forall in Hge; apply Hge; exact Hin).
    assert (Hvh : v <= hd 0 c) by (rewrite Forall_forall in Hhd; apply Hhd; exact Hin).
    destruct c as [|h Q]; [destruct k; discriminate Hn|]. cbn [hd] in *.
    unfold Wcore5. destruct (C <? 2 * h) eqn:EB.
    - destruct (C - x <? h) eqn:EZ.
      + destruct Q as [|p Q].
        * destruct k as [|k]; [|destruct k; discriminate Hn]. cbn in Hn. injection Hn as Hn. subst v.
          left. cbn [nth map]. lia.
        * exfalso. fa Hge Hh. fa Hge Hp. rewrite !pk_zsum_cons in Hsum.
          assert (0 <= zsum Q).
          { apply zsum_nonneg. eapply Forall_impl; [|exact Hge]. intros z Hz. cbv beta in Hz. lia. }
          lia.
      + destruct Q as [|p [|q Q]].
        * exfalso. rewrite pk_zsum_cons, pk_zsum_nil in Hcl. lia.
        * fa Hge Hh. fa Hge Hp. rewrite !pk_zsum_cons, pk_zsum_nil in Hsum.
          destruct k as [|[|k]]; cbn in Hn.
          -- injection Hn as Hn. subst v. right; left. exists p. cbn [nth]. repeat split; lia.
          -- injection Hn as Hn. subst v. right; right; right; left. exists h. cbn [nth]. repeat split; lia.
          -- destruct k; discriminate Hn.
        * fa Hge Hh. fa Hge Hp. fa Hge Hq. rewrite !pk_zsum_cons in Hsum.
          assert (HQ0 : 0 <= zsum Q).
          { apply zsum_nonneg. eapply Forall_impl; [|exact Hge]. intros z Hz. cbv beta in Hz. lia. }
          destruct k as [|k]; cbn [nth_error] in Hn.
          -- injection Hn as Hn. subst v. right; right; left. cbn [nth].
             pose proof (zsum_nu5_ge (p :: q :: Q)) as HZ. cbn [length] in HZ. lia.
          -- right; right; right; right; left.
             assert (Hv : hd 0 (h :: p :: q :: Q) + v + x <= C).
             { cbn [hd]. apply nth_error_In in Hn. rewrite Forall_forall in Hge.
               destruct Hn as [E|[E|Hn]]; [lia|lia|].
               assert (Hv : v <= zsum Q).
               { apply in_le_zsum; [exact Hn|]. apply Forall_forall. intros z Hz. specialize (Hge z Hz). cbv beta in Hge. lia. }
               lia. }
             cbn [hd] in Hv. split; [lia|]. split; [lia|]. split; [cbn [hd]; lia|].
             change (nth (S k) ((180 - zsum (map nu5 (p :: q :: Q))) :: map nu5 (p :: q :: Q)) 0 = nu5 v). cbn [nth].
             apply (nth_map_some nu5 _ k v 0 Hn).
    - do 5 right. split; [lia|]. split; [lia|].
      apply (nth_map_some nu5 _ k v 0 Hn).
  Qed.


  Lemma small_kind5 a : Vc a -> 2 * lv a <= C ->
    (2 * hd 0 (lc a) <= C /\ wl5 a = nu5 (lv a)) \/
    (C < 2 * hd 0 (lc a) /\ hd 0 (lc a) + lv a + x <= C /\ wl5 a = nu5 (lv a)) \/
    (exists b, lc a = [b; lv a] /\ C < 2 * b /\ b <= C - x /\ wl5 a = wp5 b (lv a)).
  Proof.
    intros [Ho Hn] Hs. unfold wl.
    destruct (kind5 _ _ _ Ho Hn) as [K|[(p & E & K)|[K|[(b & E & K)|[K|K]]]]]; try lia.
    right; right. exists b. repeat split; try tauto; lia.
  Qed.

  Lemma big_kind5 a : Vc a -> C < 2 * lv a ->
    (C - x < lv a /\ wl5 a = 180) \/
    (exists p, lc a = [lv a; p] /\ lv a <= C - x /\ wl5 a = 180 - wp5 (lv a) p) \/
    (lv a <= C - x /\ wl5 a <= 108).
  Proof.
    intros [Ho Hn] Hs. unfold wl.
    destruct (kind5 _ _ _ Ho Hn) as [K|[(p & E & K)|[K|[(b & E & K)|[K|K]]]]]; try lia.
    right; left. exists p. repeat split; try tauto; lia.
  Qed.

  (** the largest weight a value of at most C/2 can have *)
  Definition nu51 (v : Z) : Z :=
    if C <? 3 * v then nu5 v else if C - x <? 4 * v then nu5 v + 5 else nu5 v.

  Lemma nu51_spec v :
    (C - x < 2 * v /\ nu5 v = 90 /\ nu51 v = 90) \/
    (2 * v <= C - x /\ C < 3 * v /\ nu5 v = 72 /\ nu51 v = 72) \/
    (3 * v <= C /\ C - x < 3 * v /\ nu5 v = 60 /\ nu51 v = 65) \/
    (3 * v <= C - x /\ C < 4 * v /\ nu5 v = 48 /\ nu51 v = 53) \/
    (4 * v <= C /\ C - x < 4 * v /\ nu5 v = 45 /\ nu51 v = 50) \/
    (4 * v <= C - x /\ nu5 v = 36 /\ nu51 v = 36).
  Proof.
    unfold nu51. destruct (nu5_spec v) as [N|[N|[N|[N|[N|N]]]]];
      destruct (C <? 3 * v) eqn:E1; destruct (C - x <? 4 * v) eqn:E2; lia.
  Qed.

  Lemma wl5_small_bound a : Vc a -> 2 * lv a <= C -> 36 <= wl5 a <= nu51 (lv a).
  Proof.
    intros Hv Hs. pose proof (Vc_ge a Hv) as Hge.
    destruct (small_kind5 a Hv Hs) as [[_ K]|[(_ & _ & K)|(b & E & Hb & Hb' & K)]]; rewrite K.
    - destruct (nu51_spec (lv a)) as [N|[N|[N|[N|[N|N]]]]]; lia.
    - destruct (nu51_spec (lv a)) as [N|[N|[N|[N|[N|N]]]]]; lia.
    - destruct (nu51_spec (lv a)) as [N|[N|[N|[N|[N|N]]]]];
        destruct (wp5_spec b (lv a)) as [W|[W|[W|[W|[W|[W|[W|[W|[W|W]]]]]]]]]; lia.
  Qed.

  (** a value of at most C/2 weighs its natural weight, or is boosted: then it sits alone beside a big
      value b whose room exceeds (C-x)/2 *)
  Lemma small_boost5 a : Vc a -> 2 * lv a <= C ->
    wl5 a <= nu5 (lv a) \/
    (exists b, lc a = [b; lv a] /\ C < 2 * b /\ okcore [b; lv a] /\ C - x < 2 * (C - b) /\ 3 * lv a <= C /\
       ((C - x < 3 * lv a /\ 7 * (C - x) < 12 * (C - b) /\ wl5 a = 65) \/
        (3 * lv a <= C - x /\ C < 4 * lv a /\ 2 * C - x < 4 * (C - b) /\ wl5 a = 53) \/
        (3 * lv a <= C - x /\ C < 4 * lv a /\ 4 * (C - b) <= 2 * C - x /\ wl5 a = 50) \/
        (4 * lv a <= C /\ C - x < 4 * lv a /\ wl5 a = 50))).
  Proof.
    intros Hv Hs. pose proof (Vc_ge a Hv) as Hge.
    destruct (small_kind5 a Hv Hs) as [[_ K]|[(_ & _ & K)|(b & E & Hb & Hb' & K)]]; [left; lia|left; lia|].
    assert (O : okcore [b; lv a]) by (rewrite <- E; apply Hv).
    destruct (nu5_spec (lv a)) as [N|[N|[N|[N|[N|N]]]]];
      destruct (wp5_spec b (lv a)) as [W|[W|[W|[W|[W|[W|[W|[W|[W|W]]]]]]]]];
      try (left; lia); right; exists b; (split; [exact E|split; [exact Hb|split; [exact O|split; [lia|split; lia]]]]).
  Qed.

  (** a value z' of a bin without a big value does not meet a boosted companion z smaller than itself *)
  Lemma late_fits_contra au az b' z :
    Vc au -> 2 * hd 0 (lc au) <= C -> lc az = [b'; z] -> C < 2 * b' ->
    z < lv au -> b' + lv au <= C -> Rc au az -> False.
  Proof.
    intros Vu Hh E Hb' Hz Hfit HR. pose proof (Vc_le_hd au Vu) as Hle.
    unfold Rc in HR. rewrite E in HR. destruct HR as [E0|[HL|HL]].
    - rewrite E0 in Hh. cbn [hd] in Hh. lia.
    - destruct HL as [_ HL]. cbn [hd] in HL. lia.
    - pose proof (Later_in _ _ _ HL (Vc_in au Vu)) as HL'. revert HL'. sel_cases (lv au).
  Qed.

  (** two companions of big values: the larger one would have gone into the earlier bin *)
  Lemma no_mix_gen a1 a2 b1 z1 b2 z2 :
    lc a1 = [b1; z1] -> lc a2 = [b2; z2] -> b1 < b2 -> z2 < z1 -> z1 <= b2 -> b2 + z1 <= C -> Rc a1 a2 -> False.
  Proof.
    intros E1 E2 Hb Hz Hzb Hfit HR. unfold Rc in HR. rewrite E1, E2 in HR.
    destruct HR as [E|[HL|HL]].
    - injection E as Eb Ez. lia.
    - destruct HL as [_ HL]. cbn [hd] in HL. lia.
    - apply Later2 in HL. destruct HL as (_ & HL & _). revert HL. sel_cases z1.
  Qed.

  (** as in the other range: a boosted companion z cannot share an optimal bin with a big b whose only
      companion p is larger than z and fits beside b', and a further value z' *)
  Lemma boosted_vs_B15 a az b p b' z z' :
    lc a = [b; p] -> lc az = [b'; z] -> okcore [b; p] -> okcore [b'; z] -> Rc a az ->
    C < 2 * b' -> x <= z' -> b + z + z' <= C -> z < p -> b' + p <= C -> False.
  Proof.
    intros E1 E2 O1 O2 HR Hb' Hz' Hsum Hzp Hfit.
    apply okcore2 in O1. apply okcore2 in O2. unfold Rc in HR. rewrite E1, E2 in HR.
    destruct HR as [E|[HL|HL]].
    - injection E as Eb Ez. lia.
    - destruct HL as [_ HL]. cbn [hd] in HL. lia.
    - apply Later2 in HL. destruct HL as (_ & HL & _). revert HL. sel_cases p.
  Qed.

  (** class-wise forms of [small_boost5] *)
  Lemma boostM a : Vc a -> 3 * lv a <= C -> C - x < 3 * lv a ->
    wl5 a <= 60 \/
    (exists b, lc a = [b; lv a] /\ C < 2 * b /\ okcore [b; lv a] /\ 7 * (C - x) < 12 * (C - b) /\ wl5 a = 65).
  Proof.
    intros Hv H1 H2. pose proof (Vc_ge a Hv). assert (Hs : 2 * lv a <= C) by lia.
    destruct (small_boost5 a Hv Hs) as [U|(b & E & Hb & O & Hr & H3 & [K|[K|[K|K]]])].
    - left. destruct (nu5_spec (lv a)) as [N|[N|[N|[N|[N|N]]]]]; lia.
    - right. exists b. split; [exact E|split; [exact Hb|split; [exact O|split; lia]]].
    - lia.
    - lia.
    - lia.
  Qed.

  Lemma boostSp a : Vc a -> 3 * lv a <= C - x -> C < 4 * lv a ->
    wl5 a <= 48 \/
    (exists b, lc a = [b; lv a] /\ C < 2 * b /\ okcore [b; lv a] /\ C - x < 2 * (C - b) /\
       ((2 * C - x < 4 * (C - b) /\ wl5 a = 53) \/ (4 * (C - b) <= 2 * C - x /\ wl5 a = 50))).
  Proof.
    intros Hv H1 H2. pose proof (Vc_ge a Hv). assert (Hs : 2 * lv a <= C) by lia.
    destruct (small_boost5 a Hv Hs) as [U|(b & E & Hb & O & Hr & H3 & [K|[K|[K|K]]])].
    - left. destruct (nu5_spec (lv a)) as [N|[N|[N|[N|[N|N]]]]]; lia.
    - lia.
    - right. exists b. split; [exact E|split; [exact Hb|split; [exact O|split; [exact Hr|left; lia]]]].
    - right. exists b. split; [exact E|split; [exact Hb|split; [exact O|split; [exact Hr|right; lia]]]].
    - lia.
  Qed.

  Lemma boostSm a : Vc a -> 4 * lv a <= C -> C - x < 4 * lv a ->
    wl5 a <= 45 \/
    (exists b, lc a = [b; lv a] /\ C < 2 * b /\ okcore [b; lv a] /\ C - x < 2 * (C - b) /\ wl5 a = 50).
  Proof.
    intros Hv H1 H2. pose proof (Vc_ge a Hv). assert (Hs : 2 * lv a <= C) by lia.
    destruct (small_boost5 a Hv Hs) as [U|(b & E & Hb & O & Hr & H3 & [K|[K|[K|K]]])].
    - left. destruct (nu5_spec (lv a)) as [N|[N|[N|[N|[N|N]]]]]; lia.
    - lia.
    - lia.
    - lia.
    - right. exists b. split; [exact E|split; [exact Hb|split; [exact O|split; lia]]].
  Qed.

  (** a boosted lower-medium value and a boosted small value do not occur together *)
  Lemma mixMS am az b1 b2 :
    lc am = [b1; lv am] -> lc az = [b2; lv az] -> okcore [b1; lv am] -> okcore [b2; lv az] ->
    C < 2 * b2 -> Rc am az ->
    3 * lv am <= C -> C - x < 3 * lv am -> 7 * (C - x) < 12 * (C - b1) ->
    3 * lv az <= C - x -> C - x < 2 * (C - b2) -> False.
  Proof.
    intros E1 E2 O1 O2 Hb2 HR M1 M2 M3 S1 S2. apply okcore2 in O1. apply okcore2 in O2.
    apply (no_mix_gen am az b1 (lv am) b2 (lv az) E1 E2); try assumption; lia.
  Qed.

  (** a fully boosted upper-small value and a boosted lower-small value do not occur together *)
  Lemma mixSS a1 a2 b1 b2 :
    lc a1 = [b1; lv a1] -> lc a2 = [b2; lv a2] -> okcore [b1; lv a1] -> okcore [b2; lv a2] ->
    C < 2 * b2 -> Rc a1 a2 ->
    3 * lv a1 <= C - x -> C < 4 * lv a1 -> 2 * C - x < 4 * (C - b1) ->
    4 * lv a2 <= C -> C - x < 2 * (C - b2) -> False.
  Proof.
    intros E1 E2 O1 O2 Hb2 HR A1 A2 A3 B1 B2. apply okcore2 in O1. apply okcore2 in O2.
    apply (no_mix_gen a1 a2 b1 (lv a1) b2 (lv a2) E1 E2); try assumption; lia.
  Qed.

  (** next to a big b whose only companion p is not of the largest class, and a further value: not boosted *)
  Lemma partner_unboosted5 a az b p z' :
    lc a = [b; p] -> okcore [b; p] -> C < 2 * b -> 2 * p <= C - x ->
    Vc az -> 2 * lv az <= C -> Rc a az -> x <= z' -> b + lv az + z' <= C ->
    wl5 az <= nu5 (lv az).
  Proof.
    intros E1 O1 Hb Hp Hv Hs HR Hz' Hsum. pose proof (okcore2 _ _ O1) as O1'.
    destruct (small_boost5 az Hv Hs) as [U|(b' & E2 & Hb' & O2 & Hr & _)]; [exact U|].
    exfalso. pose proof (okcore2 _ _ O2) as O2'.
    apply (boosted_vs_B15 a az b p b' (lv az) z' E1 E2 O1 O2 HR); lia.
  Qed.

  Lemma wp5_range b p : 36 <= wp5 b p <= 76.
  Proof. destruct (wp5_spec b p) as [W|[W|[W|[W|[W|[W|[W|[W|[W|W]]]]]]]]]; lia. Qed.

  (** (180 - w p) + the two other values <= 220 *)
  Lemma double_partner_bound5 a a1 a2 b p :
    lc a = [b; p] -> okcore [b; p] -> C < 2 * b ->
    Vc a1 -> Vc a2 -> Rc a a1 -> Rc a a2 -> b + lv a1 + lv a2 <= C ->
    wl5 a1 + wl5 a2 <= wp5 b p + 40.
  Proof.
    intros E1 O1 Hb V1 V2 R1 R2 Hsum. pose proof (okcore2 _ _ O1) as O1'.
    pose proof (Vc_ge a1 V1) as G1. pose proof (Vc_ge a2 V2) as G2.
    assert (S1 : 2 * lv a1 <= C) by lia. assert (S2 : 2 * lv a2 <= C) by lia.
    pose proof (wl5_small_bound a1 V1 S1) as B1. pose proof (wl5_small_bound a2 V2 S2) as B2.
    destruct (Z_lt_le_dec (C - x) (2 * p)) as [HL|HnL].
    - (* the companion is large *)
      destruct (wp5_spec b p) as [W|[W|[W|[W|[W|[W|[W|[W|[W|W]]]]]]]]]; try lia.
      destruct (nu51_spec (lv a1)) as [N1|[N1|[N1|[N1|[N1|N1]]]]];
        destruct (nu51_spec (lv a2)) as [N2|[N2|[N2|[N2|[N2|N2]]]]]; lia.
    - assert (U1 : wl5 a1 <= nu5 (lv a1)) by (apply (partner_unboosted5 a a1 b p (lv a2)); try assumption; lia).
      assert (U2 : wl5 a2 <= nu5 (lv a2)) by (apply (partner_unboosted5 a a2 b p (lv a1)); try assumption; lia).
      destruct (wp5_spec b p) as [W|[W|[W|[W|[W|[W|[W|[W|[W|W]]]]]]]]]; try lia;
        destruct (nu5_spec (lv a1)) as [N1|[N1|[N1|[N1|[N1|N1]]]]];
        destruct (nu5_spec (lv a2)) as [N2|[N2|[N2|[N2|[N2|N2]]]]]; lia.
  Qed.

  (** (180 - w p) + one other value <= 220 *)
  Lemma single_partner_bound5 a a1 b p :
    lc a = [b; p] -> okcore [b; p] -> C < 2 * b ->
    Vc a1 -> Rc a a1 -> b + lv a1 <= C -> wl5 a1 <= wp5 b p + 40.
  Proof.
    intros E1 O1 Hb V1 R1 Hsum. pose proof (okcore2 _ _ O1) as O1'.
    pose proof (Vc_ge a1 V1) as G1. assert (S1 : 2 * lv a1 <= C) by lia.
    pose proof (wl5_small_bound a1 V1 S1) as B1. pose proof (wp5_range b p) as Wr.
    destruct (small_kind5 a1 V1 S1) as [[Hh K]|[(Hh & Hm & K)|(b' & E2 & Hb' & Hb'' & K)]]; rewrite K.
    - (* a value of a bin without big value is at most p *)
      assert (Hle : lv a1 <= p).
      { destruct (Z_le_gt_dec (lv a1) p) as [Hle|Hgt]; [exact Hle|exfalso].
        unfold Rc in R1. rewrite E1 in R1. destruct R1 as [E|[HL|HL]].
        - rewrite <- E in Hh. cbn [hd] in Hh. lia.
        - pose proof (Later_in _ _ _ HL (Vc_in a1 V1)) as HL'. revert HL'. sel_cases (lv a1).
        - destruct HL as [_ HL]. cbn [hd] in HL. lia. }
      destruct (wp5_spec b p) as [W|[W|[W|[W|[W|[W|[W|[W|[W|W]]]]]]]]];
        destruct (nu5_spec (lv a1)) as [N1|[N1|[N1|[N1|[N1|N1]]]]]; lia.
    - destruct (nu5_spec (lv a1)) as [N1|[N1|[N1|[N1|[N1|N1]]]]]; lia.
    - pose proof (wp5_range b' (lv a1)). lia.
  Qed.

  (** two values that fit beside a big value weigh at most 112 *)
  Lemma pair_bound5 a1 a2 : Vc a1 -> Vc a2 -> Rc a1 a2 -> lv a2 <= lv a1 ->
    2 * (lv a1 + lv a2) < C -> wl5 a1 + wl5 a2 <= 112.
  Proof.
    intros V1 V2 HR Hle Hsum. pose proof (Vc_ge a1 V1) as G1. pose proof (Vc_ge a2 V2) as G2.
    assert (S1 : 2 * lv a1 <= C) by lia. assert (S2 : 2 * lv a2 <= C) by lia.
    pose proof (wl5_small_bound a1 V1 S1) as B1. pose proof (wl5_small_bound a2 V2 S2) as B2.
    destruct (nu51_spec (lv a1)) as [N1|[N1|[N1|[N1|[N1|N1]]]]];
      destruct (nu51_spec (lv a2)) as [N2|[N2|[N2|[N2|[N2|N2]]]]]; try lia.
    (* lower medium + lower small *)
    destruct (boostM a1 V1 ltac:(lia) ltac:(lia)) as [U1|(b1 & E1 & Hb1 & O1 & T1 & K1)]; [lia|].
    destruct (boostSm a2 V2 ltac:(lia) ltac:(lia)) as [U2|(b2 & E2 & Hb2 & O2 & T2 & K2)]; [lia|].
    exfalso. apply (mixMS a1 a2 b1 b2 E1 E2 O1 O2 Hb2 HR); lia.
  Qed.

  (** ---- the critical feasible sets without a big value ---- *)
  (** three lower-small values beside two more values are not all boosted *)
  Lemma pat7 s1 s2 s3 : Vc s1 -> Vc s2 -> Vc s3 ->
    4 * lv s1 <= C -> C - x < 4 * lv s1 -> 4 * lv s2 <= C -> C - x < 4 * lv s2 ->
    4 * lv s3 <= C -> C - x < 4 * lv s3 -> lv s1 + lv s2 + lv s3 + 2 * x <= C ->
    wl5 s1 + wl5 s2 + wl5 s3 <= 145.
  Proof.
    intros V1 V2 V3 A1 A2 B1 B2 C1 C2 Hsum.
    destruct (boostSm s1 V1 A1 A2) as [U1|(b1 & E1 & Hb1 & O1 & T1 & K1)];
    destruct (boostSm s2 V2 B1 B2) as [U2|(b2 & E2 & Hb2 & O2 & T2 & K2)];
    destruct (boostSm s3 V3 C1 C2) as [U3|(b3 & E3 & Hb3 & O3 & T3 & K3)]; try lia.
    exfalso. apply okcore2 in O1. apply okcore2 in O2. apply okcore2 in O3. lia.
  Qed.

  (** upper medium, lower medium, lower small, tiny *)
  Lemma pat1 u m s t : Vc u -> Vc m -> Vc s -> Vc t -> Rc m s ->
    2 * lv u <= C - x -> C < 3 * lv u -> 3 * lv m <= C -> C - x < 3 * lv m ->
    4 * lv s <= C -> C - x < 4 * lv s -> 4 * lv t <= C - x ->
    wl5 u + wl5 m + wl5 s + wl5 t <= 220.
  Proof.
    intros Vu Vm Vs Vt HR U1 U2 M1 M2 S1 S2 T1.
    pose proof (Vc_ge t Vt) as Gt.
    pose proof (wl5_small_bound u Vu ltac:(lia)) as Bu. pose proof (wl5_small_bound t Vt ltac:(lia)) as Bt.
    destruct (nu51_spec (lv u)) as [Nu|[Nu|[Nu|[Nu|[Nu|Nu]]]]]; try lia.
    destruct (nu51_spec (lv t)) as [Nt|[Nt|[Nt|[Nt|[Nt|Nt]]]]]; try lia.
    destruct (boostM m Vm M1 M2) as [Um|(b1 & E1 & Hb1 & O1 & T1' & K1)];
    destruct (boostSm s Vs S1 S2) as [Us|(b2 & E2 & Hb2 & O2 & T2 & K2)]; try lia.
    exfalso. apply (mixMS m s b1 b2 E1 E2 O1 O2 Hb2 HR); lia.
  Qed.

  (** an upper medium value of a bin without big value meets no boosted smaller value *)
  Lemma natural_Mp_unboosted u z : Vc u -> Vc z -> Rc u z -> 2 * hd 0 (lc u) <= C ->
    2 * lv u <= C - x -> C < 3 * lv u -> 3 * lv z <= C -> wl5 z <= nu5 (lv z).
  Proof.
    intros Vu Vz HR Hh U1 U2 Z1. pose proof (Vc_ge z Vz) as Gz.
    destruct (small_boost5 z Vz ltac:(lia)) as [U|(b' & E2 & Hb' & O2 & Hr & _)]; [exact U|].
    exfalso. apply (late_fits_contra u z b' (lv z) Vu Hh E2 Hb'); [lia|lia|exact HR].
  Qed.

  (** the weight of an upper medium value: 72 in a bin without big value, 68 beside a big value *)
  Lemma Mp_kind u : Vc u -> 2 * lv u <= C - x -> C < 3 * lv u ->
    (2 * hd 0 (lc u) <= C /\ wl5 u = 72) \/ wl5 u = 68.
  Proof.
    intros Vu U1 U2. pose proof (Vc_ge u Vu) as Gu.
    destruct (small_kind5 u Vu ltac:(lia)) as [[Hh K]|[(Hh & Hm & K)|(b' & E2 & Hb' & Hb'' & K)]].
    - left. split; [exact Hh|]. destruct (nu5_spec (lv u)) as [N|[N|[N|[N|[N|N]]]]]; lia.
    - exfalso. lia.
    - right. destruct (wp5_spec b' (lv u)) as [W|[W|[W|[W|[W|[W|[W|[W|[W|W]]]]]]]]]; lia.
  Qed.

  (** upper medium + three lower small *)
  Lemma pat3 u s1 s2 s3 : Vc u -> Vc s1 -> Vc s2 -> Vc s3 -> Rc u s1 -> Rc u s2 -> Rc u s3 ->
    2 * lv u <= C - x -> C < 3 * lv u ->
    4 * lv s1 <= C -> C - x < 4 * lv s1 -> 4 * lv s2 <= C -> C - x < 4 * lv s2 ->
    4 * lv s3 <= C -> C - x < 4 * lv s3 ->
    wl5 u + wl5 s1 + wl5 s2 + wl5 s3 <= 220.
  Proof.
    intros Vu V1 V2 V3 R1 R2 R3 U1 U2 A1 A2 B1 B2 C1 C2.
    pose proof (Vc_ge s1 V1). pose proof (Vc_ge s2 V2). pose proof (Vc_ge s3 V3).
    pose proof (wl5_small_bound s1 V1 ltac:(lia)) as W1. pose proof (wl5_small_bound s2 V2 ltac:(lia)) as W2.
    pose proof (wl5_small_bound s3 V3 ltac:(lia)) as W3.
    destruct (nu51_spec (lv s1)) as [N1|[N1|[N1|[N1|[N1|N1]]]]]; try lia.
    destruct (nu51_spec (lv s2)) as [N2|[N2|[N2|[N2|[N2|N2]]]]]; try lia.
    destruct (nu51_spec (lv s3)) as [N3|[N3|[N3|[N3|[N3|N3]]]]]; try lia.
    destruct (Mp_kind u Vu U1 U2) as [[Hh K]|K]; [|lia].
    pose proof (natural_Mp_unboosted u s1 Vu V1 R1 Hh U1 U2 ltac:(lia)).
    pose proof (natural_Mp_unboosted u s2 Vu V2 R2 Hh U1 U2 ltac:(lia)).
    pose proof (natural_Mp_unboosted u s3 Vu V3 R3 Hh U1 U2 ltac:(lia)). lia.
  Qed.

  (** upper medium + upper small + two lower small *)
  Lemma pat2 u p s1 s2 : Vc u -> Vc p -> Vc s1 -> Vc s2 -> Rc u p -> Rc u s1 -> Rc u s2 -> Rc p s1 -> Rc p s2 ->
    2 * lv u <= C - x -> C < 3 * lv u -> 3 * lv p <= C - x -> C < 4 * lv p ->
    4 * lv s1 <= C -> C - x < 4 * lv s1 -> 4 * lv s2 <= C -> C - x < 4 * lv s2 ->
    wl5 u + wl5 p + wl5 s1 + wl5 s2 <= 220.
  Proof.
    intros Vu Vp V1 V2 Rp R1 R2 P1 P2 U1 U2 A1 A2 B1 B2 C1 C2.
    pose proof (Vc_ge s1 V1). pose proof (Vc_ge s2 V2). pose proof (Vc_ge p Vp).
    destruct (Mp_kind u Vu U1 U2) as [[Hh K]|K].
    - pose proof (natural_Mp_unboosted u p Vu Vp Rp Hh U1 U2 ltac:(lia)).
      pose proof (natural_Mp_unboosted u s1 Vu V1 R1 Hh U1 U2 ltac:(lia)).
      pose proof (natural_Mp_unboosted u s2 Vu V2 R2 Hh U1 U2 ltac:(lia)).
      destruct (nu5_spec (lv p)) as [Np|[Np|[Np|[Np|[Np|Np]]]]]; try lia.
      destruct (nu5_spec (lv s1)) as [N1|[N1|[N1|[N1|[N1|N1]]]]]; try lia.
      destruct (nu5_spec (lv s2)) as [N2|[N2|[N2|[N2|[N2|N2]]]]]; lia.
    - destruct (boostSp p Vp A1 A2) as [Up|(b0 & E0 & Hb0 & O0 & T0 & [[T0' K0]|[T0' K0]])];
      destruct (boostSm s1 V1 B1 B2) as [Us1|(b1 & E1 & Hb1 & O1 & T1 & K1)];
      destruct (boostSm s2 V2 C1 C2) as [Us2|(b2 & E2 & Hb2 & O2 & T2 & K2)]; try lia; exfalso.
      all: first [ apply (mixSS p s1 b0 b1 E0 E1 O0 O1 Hb1 P1); lia
                 | apply (mixSS p s2 b0 b2 E0 E2 O0 O2 Hb2 P2); lia ].
  Qed.

  (** two lower medium + upper small + lower small *)
  Lemma pat4 m1 m2 p s : Vc m1 -> Vc m2 -> Vc p -> Vc s ->
    Rc m1 p -> Rc m1 s -> Rc m2 p -> Rc m2 s -> Rc p s ->
    3 * lv m1 <= C -> C - x < 3 * lv m1 -> 3 * lv m2 <= C -> C - x < 3 * lv m2 ->
    3 * lv p <= C - x -> C < 4 * lv p -> 4 * lv s <= C -> C - x < 4 * lv s ->
    lv m1 + lv m2 + lv p + lv s <= C ->
    wl5 m1 + wl5 m2 + wl5 p + wl5 s <= 220.
  Proof.
    intros V1 V2 Vp Vs R1p R1s R2p R2s Rps A1 A2 B1 B2 P1 P2 S1 S2 Hsum.
    destruct (boostM m1 V1 A1 A2) as [U1|(b1 & E1 & Hb1 & O1 & T1 & K1)];
    destruct (boostM m2 V2 B1 B2) as [U2|(b2 & E2 & Hb2 & O2 & T2 & K2)];
    destruct (boostSp p Vp P1 P2) as [Up|(b3 & E3 & Hb3 & O3 & T3 & [[T3' K3]|[T3' K3]])];
    destruct (boostSm s Vs S1 S2) as [Us|(b4 & E4 & Hb4 & O4 & T4 & K4)]; try lia; exfalso.
    all: first [ apply (mixMS m1 p b1 b3 E1 E3 O1 O3 Hb3 R1p); lia
               | apply (mixMS m1 s b1 b4 E1 E4 O1 O4 Hb4 R1s); lia
               | apply (mixMS m2 p b2 b3 E2 E3 O2 O3 Hb3 R2p); lia
               | apply (mixMS m2 s b2 b4 E2 E4 O2 O4 Hb4 R2s); lia
               | apply (mixSS p s b3 b4 E3 E4 O3 O4 Hb4 Rps); lia
               | (apply okcore2 in O1; apply okcore2 in O2; lia) ].
  Qed.

  (** two lower medium + two lower small *)
  Lemma pat5 m1 m2 s1 s2 : Vc m1 -> Vc m2 -> Vc s1 -> Vc s2 ->
    Rc m1 s1 -> Rc m1 s2 -> Rc m2 s1 -> Rc m2 s2 ->
    3 * lv m1 <= C -> C - x < 3 * lv m1 -> 3 * lv m2 <= C -> C - x < 3 * lv m2 ->
    4 * lv s1 <= C -> C - x < 4 * lv s1 -> 4 * lv s2 <= C -> C - x < 4 * lv s2 ->
    wl5 m1 + wl5 m2 + wl5 s1 + wl5 s2 <= 220.
  Proof.
    intros V1 V2 V3 V4 R13 R14 R23 R24 A1 A2 B1 B2 C1 C2 D1 D2.
    destruct (boostM m1 V1 A1 A2) as [U1|(b1 & E1 & Hb1 & O1 & T1 & K1)];
    destruct (boostM m2 V2 B1 B2) as [U2|(b2 & E2 & Hb2 & O2 & T2 & K2)];
    destruct (boostSm s1 V3 C1 C2) as [U3|(b3 & E3 & Hb3 & O3 & T3 & K3)];
    destruct (boostSm s2 V4 D1 D2) as [U4|(b4 & E4 & Hb4 & O4 & T4 & K4)]; try lia; exfalso.
    all: first [ apply (mixMS m1 s1 b1 b3 E1 E3 O1 O3 Hb3 R13); lia
               | apply (mixMS m1 s2 b1 b4 E1 E4 O1 O4 Hb4 R14); lia
               | apply (mixMS m2 s1 b2 b3 E2 E3 O2 O3 Hb3 R23); lia
               | apply (mixMS m2 s2 b2 b4 E2 E4 O2 O4 Hb4 R24); lia ].
  Qed.

  (** lower medium + two upper small + lower small *)
  Lemma pat6 m p1 p2 s : Vc m -> Vc p1 -> Vc p2 -> Vc s -> Rc m p1 -> Rc m p2 -> Rc m s ->
    3 * lv m <= C -> C - x < 3 * lv m -> 3 * lv p1 <= C - x -> C < 4 * lv p1 ->
    3 * lv p2 <= C - x -> C < 4 * lv p2 -> 4 * lv s <= C -> C - x < 4 * lv s ->
    wl5 m + wl5 p1 + wl5 p2 + wl5 s <= 220.
  Proof.
    intros Vm V1 V2 Vs R1 R2 Rs A1 A2 B1 B2 C1 C2 D1 D2.
    pose proof (Vc_ge s Vs).
    pose proof (wl5_small_bound p1 V1 ltac:(lia)) as W1. pose proof (wl5_small_bound p2 V2 ltac:(lia)) as W2.
    pose proof (wl5_small_bound s Vs ltac:(lia)) as W3.
    destruct (nu51_spec (lv p1)) as [N1|[N1|[N1|[N1|[N1|N1]]]]]; try lia.
    destruct (nu51_spec (lv p2)) as [N2|[N2|[N2|[N2|[N2|N2]]]]]; try lia.
    destruct (nu51_spec (lv s)) as [N3|[N3|[N3|[N3|[N3|N3]]]]]; try lia.
    destruct (boostM m Vm A1 A2) as [U|(b1 & E1 & Hb1 & O1 & T1 & K1)]; [lia|].
    destruct (boostSp p1 V1 B1 B2) as [U1|(b2 & E2 & Hb2 & O2 & T2 & _)];
      [|exfalso; apply (mixMS m p1 b1 b2 E1 E2 O1 O2 Hb2 R1); lia].
    destruct (boostSp p2 V2 C1 C2) as [U2|(b3 & E3 & Hb3 & O3 & T3 & _)];
      [|exfalso; apply (mixMS m p2 b1 b3 E1 E3 O1 O3 Hb3 R2); lia].
    destruct (boostSm s Vs D1 D2) as [U3|(b4 & E4 & Hb4 & O4 & T4 & _)];
      [|exfalso; apply (mixMS m s b1 b4 E1 E4 O1 O4 Hb4 Rs); lia].
    lia.
  Qed.

  (** ---- a feasible set of labelled values weighs at most 220 ---- *)
  Tactic Notation "n51" constr(a) ident(N) := destruct (nu51_spec (lv a)) as [N|[N|[N|[N|[N|N]]]]]; try lia.

  Lemma group51 a : Vc a -> wl5 a <= 220.
  Proof.
    intros Va. pose proof (Vc_ge a Va) as Ga.
    destruct (Z_lt_le_dec C (2 * lv a)) as [Hbig|Hsm].
    - destruct (big_kind5 a Va Hbig) as [[_ K]|[(p & E & Hle & K)|[_ K]]]; try lia.
      pose proof (wp5_range (lv a) p). lia.
    - pose proof (wl5_small_bound a Va Hsm). n51 a Nn.
  Qed.

  Lemma group52 a b : Vc a -> Vc b -> Rc a b -> lv b <= lv a -> lv a + lv b <= C -> wl5 a + wl5 b <= 220.
  Proof.
    intros Va Vb Rab Hab Hsum. pose proof (Vc_ge a Va) as Ga. pose proof (Vc_ge b Vb) as Gb.
    assert (Sb : 2 * lv b <= C) by lia. pose proof (wl5_small_bound b Vb Sb) as Bb.
    destruct (Z_lt_le_dec C (2 * lv a)) as [Hbig|Hsm].
    - destruct (big_kind5 a Va Hbig) as [[Hz K]|[(p & E & Hle & K)|[_ K]]].
      + lia.
      + assert (O : okcore [lv a; p]) by (rewrite <- E; apply Va).
        pose proof (single_partner_bound5 a b (lv a) p E O Hbig Vb Rab Hsum). lia.
      + n51 b Nn.
    - pose proof (wl5_small_bound a Va Hsm) as Ba. n51 a Na; n51 b Nb.
  Qed.

  Lemma group53 a b c : Vc a -> Vc b -> Vc c -> Rc a b -> Rc a c -> Rc b c ->
    lv b <= lv a -> lv c <= lv b -> lv a + lv b + lv c <= C -> wl5 a + wl5 b + wl5 c <= 220.
  Proof.
    intros Va Vb Vv Rab Rac Rbc Hab Hbc Hsum.
    pose proof (Vc_ge a Va) as Ga. pose proof (Vc_ge b Vb) as Gb. pose proof (Vc_ge c Vv) as Gc.
    assert (Sb : 2 * lv b <= C) by lia. pose proof (wl5_small_bound b Vb Sb) as Bb.
    assert (Sc : 2 * lv c <= C) by lia. pose proof (wl5_small_bound c Vv Sc) as Bc.
    destruct (Z_lt_le_dec C (2 * lv a)) as [Hbig|Hsm].
    - destruct (big_kind5 a Va Hbig) as [[Hz K]|[(p & E & Hle & K)|[_ K]]].
      + lia.
      + assert (O : okcore [lv a; p]) by (rewrite <- E; apply Va).
        pose proof (double_partner_bound5 a b c (lv a) p E O Hbig Vb Vv Rab Rac Hsum). lia.
      + pose proof (pair_bound5 b c Vb Vv Rbc Hbc ltac:(lia)). lia.
    - pose proof (wl5_small_bound a Va Hsm) as Ba. n51 a Na; n51 b Nb; n51 c Nc.
  Qed.

  Lemma group54 a b c d : Vc a -> Vc b -> Vc c -> Vc d ->
    Rc a b -> Rc a c -> Rc a d -> Rc b c -> Rc b d -> Rc c d ->
    lv b <= lv a -> lv c <= lv b -> lv d <= lv c -> lv a + lv b + lv c + lv d <= C ->
    wl5 a + wl5 b + wl5 c + wl5 d <= 220.
  Proof.
    intros Va Vb Vv Vd Rab Rac Rad Rbc Rbd Rcd Hab Hbc Hcd Hsum.
    pose proof (Vc_ge a Va) as Ga. pose proof (Vc_ge b Vb) as Gb. pose proof (Vc_ge c Vv) as Gc.
    pose proof (Vc_ge d Vd) as Gd.
    assert (Sa : 2 * lv a <= C) by lia. pose proof (wl5_small_bound a Va Sa) as Ba.
    assert (Sb : 2 * lv b <= C) by lia. pose proof (wl5_small_bound b Vb Sb) as Bb.
    assert (Sc : 2 * lv c <= C) by lia. pose proof (wl5_small_bound c Vv Sc) as Bc.
    assert (Sd : 2 * lv d <= C) by lia. pose proof (wl5_small_bound d Vd Sd) as Bd.
    n51 a Na; n51 b Nb; n51 c Nc; n51 d Nd.
    all: first [ apply pat1; (assumption || lia)
               | apply pat2; (assumption || lia)
               | apply pat3; (assumption || lia)
               | apply pat4; (assumption || lia)
               | apply pat5; (assumption || lia)
               | apply pat6; (assumption || lia) ].
  Qed.

  Lemma group55 a b c d e : Vc a -> Vc b -> Vc c -> Vc d -> Vc e ->
    lv b <= lv a -> lv c <= lv b -> lv d <= lv c -> lv e <= lv d ->
    lv a + lv b + lv c + lv d + lv e <= C ->
    wl5 a + wl5 b + wl5 c + wl5 d + wl5 e <= 220.
  Proof.
    intros Va Vb Vv Vd Ve Hab Hbc Hcd Hde Hsum.
    pose proof (Vc_ge a Va) as Ga. pose proof (Vc_ge b Vb) as Gb. pose proof (Vc_ge c Vv) as Gc.
    pose proof (Vc_ge d Vd) as Gd. pose proof (Vc_ge e Ve) as Ge.
    assert (Sa : 2 * lv a <= C) by lia. pose proof (wl5_small_bound a Va Sa) as Ba.
    assert (Sb : 2 * lv b <= C) by lia. pose proof (wl5_small_bound b Vb Sb) as Bb.
    assert (Sc : 2 * lv c <= C) by lia. pose proof (wl5_small_bound c Vv Sc) as Bc.
    assert (Sd : 2 * lv d <= C) by lia. pose proof (wl5_small_bound d Vd Sd) as Bd.
    assert (Se : 2 * lv e <= C) by lia. pose proof (wl5_small_bound e Ve Se) as Be.
    n51 a Na; n51 b Nb; n51 c Nc; n51 d Nd; n51 e Ne.
    pose proof (pat7 a b c Va Vb Vv ltac:(lia) ltac:(lia) ltac:(lia) ltac:(lia) ltac:(lia) ltac:(lia) ltac:(lia)). lia.
  Qed.

  Lemma light_sorted5 g : Forall Vc g -> AllPairs Rc g ->
    StronglySorted (fun a b => lv b <= lv a) g -> gv g <= C -> gw5 g <= 220.
  Proof.
    intros HV HR HS Hsum.
    destruct g as [|a [|b [|c [|d [|e [|f r]]]]]].
    - cbn. lia.
    - fa HV Va. unfold gw. cbn [map]. rewrite pk_zsum_cons, pk_zsum_nil. pose proof (group51 a Va). lia.
    - fa HV Va. fa HV Vb. cbn [AllPairs] in HR. destruct HR as (Ra & _). fa Ra Rab.
      inversion HS as [|a' l1 HS1 Ha]; subst. fa Ha Hab.
      unfold gv, gw in *. cbn [map] in *. rewrite !pk_zsum_cons, pk_zsum_nil in *.
      pose proof (group52 a b Va Vb Rab Hab ltac:(lia)). lia.
    - fa HV Va. fa HV Vb. fa HV Vv. cbn [AllPairs] in HR. destruct HR as (Ra & Rb & _).
      fa Ra Rab. fa Ra Rac. fa Rb Rbc.
      inversion HS as [|a' l1 HS1 Ha]; subst. fa Ha Hab. inversion HS1 as [|b' l2 HS2 Hb]; subst. fa Hb Hbc.
      unfold gv, gw in *. cbn [map] in *. rewrite !pk_zsum_cons, pk_zsum_nil in *.
      pose proof (group53 a b c Va Vb Vv Rab Rac Rbc Hab Hbc ltac:(lia)). lia.
    - fa HV Va. fa HV Vb. fa HV Vv. fa HV Vd. cbn [AllPairs] in HR. destruct HR as (Ra & Rb & Rc' & _).
      fa Ra Rab. fa Ra Rac. fa Ra Rad. fa Rb Rbc. fa Rb Rbd. fa Rc' Rcd.
      inversion HS as [|a' l1 HS1 Ha]; subst. fa Ha Hab. inversion HS1 as [|b' l2 HS2 Hb]; subst. fa Hb Hbc.
      inversion HS2 as [|c' l3 HS3 Hc]; subst. fa Hc Hcd.
      unfold gv, gw in *. cbn [map] in *. rewrite !pk_zsum_cons, pk_zsum_nil in *.
      pose proof (group54 a b c d Va Vb Vv Vd Rab Rac Rad Rbc Rbd Rcd Hab Hbc Hcd ltac:(lia)). lia.
    - fa HV Va. fa HV Vb. fa HV Vv. fa HV Vd. fa HV Ve.
      inversion HS as [|a' l1 HS1 Ha]; subst. fa Ha Hab. inversion HS1 as [|b' l2 HS2 Hb]; subst. fa Hb Hbc.
      inversion HS2 as [|c' l3 HS3 Hc]; subst. fa Hc Hcd. inversion HS3 as [|d' l4 HS4 Hd]; subst. fa Hd Hde.
      unfold gv, gw in *. cbn [map] in *. rewrite !pk_zsum_cons, pk_zsum_nil in *.
      pose proof (group55 a b c d e Va Vb Vv Vd Ve Hab Hbc Hcd Hde ltac:(lia)). lia.
    - exfalso. fa HV Va. fa HV Vb. fa HV Vv. fa HV Vd. fa HV Ve. fa HV Vf.
      pose proof (Vc_ge a Va). pose proof (Vc_ge b Vb). pose proof (Vc_ge c Vv). pose proof (Vc_ge d Vd).
      pose proof (Vc_ge e Ve). pose proof (Vc_ge f Vf). pose proof (gv_ge r HV) as Hr.
      assert (0 <= x * Z.of_nat (length r)) by (apply Z.mul_nonneg_nonneg; lia).
      rewrite !gv_cons in Hsum. lia.
  Qed.

  (** ---- the bins of first-fit-decreasing are heavy ---- *)
  Definition isSp (v : Z) : Prop := 3 * v <= C - x /\ C < 4 * v.
  Definition isSm (v : Z) : Prop := 4 * v <= C /\ C - x < 4 * v.

  Ltac ex5 := first [ apply Exists_cons_hd; unfold isL, isMp, isMm, isSp, isSm; lia | apply Exists_cons_tl; ex5 ].
  Ltac nofit5 := let y := fresh "y" in let Hy := fresh "Hy" in
    intros y Hy; unfold isL, isMp, isMm, isSp, isSm in Hy; sel_cases y.
  Ltac def5 :=
    first [ left; lia
          | right; left; split; [lia|split; [ex5|nofit5]]
          | right; right; left; split; [lia|split; [ex5|split; nofit5]]
          | right; right; right; left; split; [lia|split; [ex5|split; [nofit5|split; nofit5]]]
          | right; right; right; right; left; split; [lia|split; [ex5|split; [nofit5|split; [nofit5|split; nofit5]]]]
          | right; right; right; right; right; split; [lia|split; [ex5|split; [nofit5|split; [nofit5|split; [nofit5|split; nofit5]]]]] ].
  Tactic Notation "n5" constr(a) ident(N) := destruct (nu5_spec a) as [N|[N|[N|[N|[N|N]]]]]; try lia.

  Lemma core_cases5 c : okcore c ->
    180 <= cw5 c \/
    (150 <= cw5 c /\ Exists isL c /\ nofit isL c) \/
    (150 <= cw5 c /\ Exists isMp c /\ nofit isL c /\ nofit isMp c) \/
    (150 <= cw5 c /\ Exists isMm c /\ nofit isL c /\ nofit isMp c /\ nofit isMm c) \/
    (150 <= cw5 c /\ Exists isSp c /\ nofit isL c /\ nofit isMp c /\ nofit isMm c /\ nofit isSp c) \/
    (150 <= cw5 c /\ Exists isSm c /\ nofit isL c /\ nofit isMp c /\ nofit isMm c /\ nofit isSp c /\ nofit isSm c).
  Proof.
    intros (Hge & Hsum & Hcl & Hhd). unfold cw.
    destruct c as [|a [|b [|c [|d [|e [|f r]]]]]].
    - exfalso. rewrite pk_zsum_nil in Hcl. lia.
    - left. rewrite pk_zsum_cons, pk_zsum_nil in Hcl. unfold Wcore5.
      destruct (C <? 2 * a) eqn:EB; [|lia]. destruct (C - x <? a) eqn:EZ; [|lia].
      cbn [map]. rewrite pk_zsum_cons, pk_zsum_nil. lia.
    - fa Hge Ha. fa Hge Hb. fa Hhd Ha'. fa Hhd Hb'. cbn [hd] in *.
      rewrite !pk_zsum_cons, pk_zsum_nil in *. unfold Wcore5.
      destruct (C <? 2 * a) eqn:EB.
      + left. destruct (C - x <? a) eqn:EZ; [lia|]. rewrite !pk_zsum_cons, pk_zsum_nil. lia.
      + cbn [map]. rewrite !pk_zsum_cons, pk_zsum_nil. n5 a Na; n5 b Nb; def5.
    - fa Hge Ha. fa Hge Hb. fa Hge Hc. fa Hhd Ha'. fa Hhd Hb'. fa Hhd Hc'. cbn [hd] in *.
      rewrite !pk_zsum_cons, pk_zsum_nil in *. unfold Wcore5.
      destruct (C <? 2 * a) eqn:EB.
      + left. destruct (C - x <? a) eqn:EZ; [lia|]. cbn [map]. rewrite !pk_zsum_cons, pk_zsum_nil. lia.
      + cbn [map]. rewrite !pk_zsum_cons, pk_zsum_nil. n5 a Na; n5 b Nb; n5 c Nc; def5.
    - fa Hge Ha. fa Hge Hb. fa Hge Hc. fa Hge Hd. fa Hhd Ha'. fa Hhd Hb'. fa Hhd Hc'. fa Hhd Hd'. cbn [hd] in *.
      rewrite !pk_zsum_cons, pk_zsum_nil in *. unfold Wcore5.
      destruct (C <? 2 * a) eqn:EB.
      + left. destruct (C - x <? a) eqn:EZ; [lia|]. cbn [map]. rewrite !pk_zsum_cons, pk_zsum_nil. lia.
      + cbn [map]. rewrite !pk_zsum_cons, pk_zsum_nil. n5 a Na; n5 b Nb; n5 c Nc; n5 d Nd; def5.
    - fa Hge Ha. fa Hge Hb. fa Hge Hc. fa Hge Hd. fa Hge He.
      fa Hhd Ha'. fa Hhd Hb'. fa Hhd Hc'. fa Hhd Hd'. fa Hhd He'. cbn [hd] in *.
      rewrite !pk_zsum_cons, pk_zsum_nil in *. unfold Wcore5.
      destruct (C <? 2 * a) eqn:EB; [exfalso; lia|].
      left. cbn [map]. rewrite !pk_zsum_cons, pk_zsum_nil. n5 a Na; n5 b Nb; n5 c Nc; n5 d Nd; n5 e Ne.
    - exfalso. fa Hge Ha. fa Hge Hb. fa Hge Hc. fa Hge Hd. fa Hge He. fa Hge Hf. rewrite !pk_zsum_cons in Hsum.
      assert (0 <= zsum r).
      { apply zsum_nonneg. eapply Forall_impl; [|exact Hge]. intros z Hz. cbv beta in Hz. lia. }
      lia.
  Qed.

  Ltac step5 Hch N := cbn [chain] in Hch; destruct Hch as (Ho & HL & Hch);
    rewrite tw_cons; cbn [length]; rewrite Nat2Z.inj_succ.
  Ltac nn H Hc := unfold none in H; apply Forall_cons_iff in H; destruct H as [Hc H].

  Lemma heavy5_E : forall cs, chain cs -> none isL cs -> none isMp cs -> none isMm cs -> none isSp cs ->
    none isSm cs -> 180 * Z.of_nat (length cs) <= tw5 cs.
  Proof.
    induction cs as [|c r IH]; intros Hch N1 N2 N3 N4 N5; [rewrite tw_nil; cbn [length Z.of_nat]; lia|].
    step5 Hch N1. nn N1 N1c. nn N2 N2c. nn N3 N3c. nn N4 N4c. nn N5 N5c.
    specialize (IH Hch N1 N2 N3 N4 N5).
    destruct (core_cases5 c Ho) as [H|[(H & HE & _)|[(H & HE & _)|[(H & HE & _)|[(H & HE & _)|(H & HE & _)]]]]]; [lia| | | | |].
    - exfalso. exact (Exists_Forall_neg _ _ HE N1c).
    - exfalso. exact (Exists_Forall_neg _ _ HE N2c).
    - exfalso. exact (Exists_Forall_neg _ _ HE N3c).
    - exfalso. exact (Exists_Forall_neg _ _ HE N4c).
    - exfalso. exact (Exists_Forall_neg _ _ HE N5c).
  Qed.

  Lemma heavy5_D : forall cs, chain cs -> none isL cs -> none isMp cs -> none isMm cs -> none isSp cs ->
    180 * Z.of_nat (length cs) <= tw5 cs + 30.
  Proof.
    induction cs as [|c r IH]; intros Hch N1 N2 N3 N4; [rewrite tw_nil; cbn [length Z.of_nat]; lia|].
    step5 Hch N1. nn N1 N1c. nn N2 N2c. nn N3 N3c. nn N4 N4c.
    destruct (core_cases5 c Ho) as [H|[(H & HE & _)|[(H & HE & _)|[(H & HE & _)|[(H & HE & _)|(H & HE & F1 & F2 & F3 & F4 & F5)]]]]].
    - specialize (IH Hch N1 N2 N3 N4). lia.
    - exfalso. exact (Exists_Forall_neg _ _ HE N1c).
    - exfalso. exact (Exists_Forall_neg _ _ HE N2c).
    - exfalso. exact (Exists_Forall_neg _ _ HE N3c).
    - exfalso. exact (Exists_Forall_neg _ _ HE N4c).
    - pose proof (heavy5_E r Hch N1 N2 N3 N4 (none_later _ c r F5 HL)). lia.
  Qed.

  Lemma heavy5_C : forall cs, chain cs -> none isL cs -> none isMp cs -> none isMm cs ->
    180 * Z.of_nat (length cs) <= tw5 cs + 60.
  Proof.
    induction cs as [|c r IH]; intros Hch N1 N2 N3; [rewrite tw_nil; cbn [length Z.of_nat]; lia|].
    step5 Hch N1. nn N1 N1c. nn N2 N2c. nn N3 N3c.
    destruct (core_cases5 c Ho) as [H|[(H & HE & _)|[(H & HE & _)|[(H & HE & _)|[(H & HE & F1 & F2 & F3 & F4)|(H & HE & F1 & F2 & F3 & F4 & F5)]]]]].
    - specialize (IH Hch N1 N2 N3). lia.
    - exfalso. exact (Exists_Forall_neg _ _ HE N1c).
    - exfalso. exact (Exists_Forall_neg _ _ HE N2c).
    - exfalso. exact (Exists_Forall_neg _ _ HE N3c).
    - pose proof (heavy5_D r Hch N1 N2 N3 (none_later _ c r F4 HL)). lia.
    - pose proof (heavy5_E r Hch N1 N2 N3 (none_later _ c r F4 HL) (none_later _ c r F5 HL)). lia.
  Qed.

  Lemma heavy5_B : forall cs, chain cs -> none isL cs -> none isMp cs ->
    180 * Z.of_nat (length cs) <= tw5 cs + 90.
  Proof.
    induction cs as [|c r IH]; intros Hch N1 N2; [rewrite tw_nil; cbn [length Z.of_nat]; lia|].
    step5 Hch N1. nn N1 N1c. nn N2 N2c.
    destruct (core_cases5 c Ho) as [H|[(H & HE & _)|[(H & HE & _)|[(H & HE & F1 & F2 & F3)|[(H & HE & F1 & F2 & F3 & F4)|(H & HE & F1 & F2 & F3 & F4 & F5)]]]]].
    - specialize (IH Hch N1 N2). lia.
    - exfalso. exact (Exists_Forall_neg _ _ HE N1c).
    - exfalso. exact (Exists_Forall_neg _ _ HE N2c).
    - pose proof (heavy5_C r Hch N1 N2 (none_later _ c r F3 HL)). lia.
    - pose proof (heavy5_D r Hch N1 N2 (none_later _ c r F3 HL) (none_later _ c r F4 HL)). lia.
    - pose proof (heavy5_E r Hch N1 N2 (none_later _ c r F3 HL) (none_later _ c r F4 HL) (none_later _ c r F5 HL)). lia.
  Qed.

  Lemma heavy5_A : forall cs, chain cs -> none isL cs -> 180 * Z.of_nat (length cs) <= tw5 cs + 120.
  Proof.
    induction cs as [|c r IH]; intros Hch N1; [rewrite tw_nil; cbn [length Z.of_nat]; lia|].
    step5 Hch N1. nn N1 N1c.
    destruct (core_cases5 c Ho) as [H|[(H & HE & _)|[(H & HE & F1 & F2)|[(H & HE & F1 & F2 & F3)|[(H & HE & F1 & F2 & F3 & F4)|(H & HE & F1 & F2 & F3 & F4 & F5)]]]]].
    - specialize (IH Hch N1). lia.
    - exfalso. exact (Exists_Forall_neg _ _ HE N1c).
    - pose proof (heavy5_B r Hch N1 (none_later _ c r F2 HL)). lia.
    - pose proof (heavy5_C r Hch N1 (none_later _ c r F2 HL) (none_later _ c r F3 HL)). lia.
    - pose proof (heavy5_D r Hch N1 (none_later _ c r F2 HL) (none_later _ c r F3 HL) (none_later _ c r F4 HL)). lia.
    - pose proof (heavy5_E r Hch N1 (none_later _ c r F2 HL) (none_later _ c r F3 HL) (none_later _ c r F4 HL)
                    (none_later _ c r F5 HL)). lia.
  Qed.

  Lemma heavy5 : forall cs, chain cs -> 180 * Z.of_nat (length cs) <= tw5 cs + 150.
  Proof.
    induction cs as [|c r IH]; intros Hch; [rewrite tw_nil; cbn [length Z.of_nat]; lia|].
    step5 Hch Hch.
    destruct (core_cases5 c Ho) as [H|[(H & HE & F1)|[(H & HE & F1 & F2)|[(H & HE & F1 & F2 & F3)|[(H & HE & F1 & F2 & F3 & F4)|(H & HE & F1 & F2 & F3 & F4 & F5)]]]]].
    - specialize (IH Hch). lia.
    - pose proof (heavy5_A r Hch (none_later _ c r F1 HL)). lia.
    - pose proof (heavy5_B r Hch (none_later _ c r F1 HL) (none_later _ c r F2 HL)). lia.
    - pose proof (heavy5_C r Hch (none_later _ c r F1 HL) (none_later _ c r F2 HL) (none_later _ c r F3 HL)). lia.
    - pose proof (heavy5_D r Hch (none_later _ c r F1 HL) (none_later _ c r F2 HL) (none_later _ c r F3 HL)
                    (none_later _ c r F4 HL)). lia.
    - pose proof (heavy5_E r Hch (none_later _ c r F1 HL) (none_later _ c r F2 HL) (none_later _ c r F3 HL)
                    (none_later _ c r F4 HL) (none_later _ c r F5 HL)). lia.
  Qed.

  Lemma fifth_bound {A : Type} (valueof : A -> Z) (t : bins A) (last : bin A) (x0 : A) (items : list A) (n : nat) :
    In x0 (snd last) -> valueof x0 = x ->
    closed valueof C x t -> sfit2 valueof C t -> wf valueof (t ++ [last]) -> feasible C (t ++ [last]) ->
    Forall (fun y => 0 <= valueof y) (contents (t ++ [last])) -> hdesc valueof (t ++ [last]) ->
    Permutation (contents (t ++ [last])) items -> Packable C (map valueof items) n ->
    180 * Z.of_nat (length t) <= 220 * Z.of_nat n + 150.
  Proof. apply (count_bound Wcore5 Wcore5_length 180 220 150 light_sorted5 heavy5). Qed.
  End Fifth.
End Frame.

(** ---- 9. the theorems ---- *)
Section FFD119Mid.
  Context {A : Type} (valueof : A -> Z).

  (** with x the first item of the last bin:
      11 x <= 2 C : 9 |b| <= 11 n + 8 (volume);  C < 4 x : 6 |b| <= 7 n + 5 (FFD119Proofs);
      C < 5 x and 4 x <= C : 9 |b| <= 11 n + 13 (the weights of this file) *)
  Lemma ffd_119_ranges3 C (items : list A) (b : bins A) (n : nat) :
    items <> [] -> Forall (fun x : A => 0 <= valueof x) items ->
    first_fit_decreasing valueof true C items = Ok b -> Packable C (map valueof items) n ->
    exists x0, In x0 items /\
      (11 * valueof x0 <= 2 * C -> (9 * length b <= 11 * n + 8)%nat) /\
      (C < 4 * valueof x0 -> (6 * length b <= 7 * n + 5)%nat) /\
      (C < 5 * valueof x0 -> 4 * valueof x0 <= C -> (9 * length b <= 11 * n + 13)%nat) /\
      (2 * C < 11 * valueof x0 -> 41 * valueof x0 <= 8 * C -> (9 * length b <= 11 * n + 16)%nat).
  Proof.
    intros Hne Hnn H Hpack.
    destruct (ffd_last valueof C items b Hne Hnn H)
      as (t & last & x0 & E & Hin & [Hx0 Hx0C] & Hcl & Hsf & Hw & Hnnb & Hp).
    destruct (ffd_Inv valueof C items b Hne Hnn H) as (_ & Hf & _).
    destruct (ffd_structure valueof C items b Hne Hnn H) as (_ & _ & _ & _ & Hh & _).
    subst b. rewrite app_length. cbn [length].
    assert (HC : 0 <= C) by lia.
    exists x0. split; [|split; [|split; [|split]]].
    - eapply Permutation_in; [exact Hp|]. rewrite contents_app, contents_cons.
      apply in_or_app. right. apply in_or_app. left. exact Hin.
    - intros Hsmall.
      destruct t as [|bn t']; [cbn [length]; destruct n as [|n]; [|lia]|].
      + apply packable_zero in Hpack. apply map_eq_nil in Hpack. congruence.
      + pose proof (volume_case_q valueof C 11 2 (bn :: t') last x0 items n ltac:(lia) HC Hin Hx0 Hsmall Hcl Hw Hnnb Hp Hpack
                      ltac:(discriminate)) as Hv.
        cbn [length] in *. lia.
    - intros Hbig.
      pose proof (heavy76 valueof C (valueof x0) Hbig Hx0C t Hcl Hsf) as Hheavy.
      assert (Hlight : ws76 C (valueof x0) (map valueof items) <= 7 * Z.of_nat n).
      { apply (packable_gws (w76 C (valueof x0)) C 7); [|rewrite Forall_map; exact Hnn|exact Hpack].
        intros g Hg0 Hg. apply light76; assumption. }
      rewrite <- (gws_perm _ _ _ (Permutation_map valueof Hp)) in Hlight.
      rewrite contents_app, map_app, gws_app in Hlight.
      assert (Hl2 : 2 <= ws76 C (valueof x0) (map valueof (contents [last]))).
      { rewrite contents_cons. apply in_split in Hin. destruct Hin as (l1 & l2 & El). rewrite El.
        rewrite !map_app, !gws_app. cbn [map]. rewrite gws_cons.
        pose proof (gws_nonneg (w76 C (valueof x0)) (map valueof l1) (w76_nonneg C (valueof x0))).
        pose proof (gws_nonneg (w76 C (valueof x0)) (map valueof l2) (w76_nonneg C (valueof x0))).
        pose proof (gws_nonneg (w76 C (valueof x0)) (map valueof (contents [])) (w76_nonneg C (valueof x0))).
        pose proof (w76_ge2 C (valueof x0) (valueof x0) ltac:(lia)). lia. }
      lia.
    - intros H5 H4.
      pose proof (quarter_bound C (valueof x0) ltac:(lia) ltac:(lia) H5 H4 valueof t last x0 items n Hin eq_refl Hcl Hsf Hw Hf Hnnb Hh Hp Hpack).
      lia.
    - intros H11 H41.
      pose proof (fifth_bound C (valueof x0) ltac:(lia) ltac:(lia) H11 H41 valueof t last x0 items n Hin eq_refl Hcl Hsf Hw Hf Hnnb Hh Hp Hpack).
      lia.
  Qed.

  (** 11/9 when no value lies in (8C/41, C/5] *)
  Theorem ffd_ratio_11_9_partial2 C (items : list A) (b : bins A) (n : nat) :
    items <> [] -> Forall (fun x : A => 0 <= valueof x) items ->
    Forall (fun x : A => 41 * valueof x <= 8 * C \/ C < 5 * valueof x) items ->
    first_fit_decreasing valueof true C items = Ok b -> Packable C (map valueof items) n ->
    (9 * length b <= 11 * n + 16)%nat.
  Proof.
    intros Hne Hnn Hgap H Hpack.
    destruct (ffd_119_ranges3 C items b n Hne Hnn H Hpack) as (x0 & Hin & H1 & H2 & H3 & H4).
    rewrite Forall_forall in Hgap. destruct (Hgap x0 Hin) as [Hs|Hb].
    - destruct (Z_le_gt_dec (11 * valueof x0) (2 * C)) as [Hv|Hv].
      + specialize (H1 Hv). lia.
      + apply H4; [lia|exact Hs].
    - destruct (Z_lt_le_dec C (4 * valueof x0)) as [Hq|Hq].
      + specialize (H2 Hq). lia.
      + specialize (H3 Hb Hq). lia.
  Qed.
End FFD119Mid.

(** one third of the smallest member of Johnson's 11/9 family (C = 60: 31, 17, 16, 13; the last value
    lies in (C/5, C/4]): the new bound applies (FFD uses 4 bins, the optimum is 3) *)
Example ffd_119_johnson_thm b :
  first_fit_decreasing idZ true 60 (repeat 31 2 ++ repeat 17 2 ++ repeat 16 2 ++ repeat 13 4) = Ok b ->
  (9 * length b <= 11 * 3 + 16)%nat.
Proof.
  intros H. set (L := repeat 31 2 ++ repeat 17 2 ++ repeat 16 2 ++ repeat 13 4) in *.
  apply (ffd_ratio_11_9_partial2 idZ 60 L b 3); [discriminate| | |exact H|].
  - repeat constructor; lia.
  - unfold L. cbn [repeat app]. repeat (apply Forall_cons; [right; cbv beta; lia|]). apply Forall_nil.
  - assert (HF : Forall (fun v => 0 <= v <= 60) L) by (repeat constructor; lia).
    pose proof (min_bins_spec_strong 60 L HF) as [M _]. rewrite map_id. exact M.
Qed.

Print Assumptions ffd_119_ranges3.
Print Assumptions ffd_ratio_11_9_partial2.

Print Assumptions ffd_119_johnson_thm.
