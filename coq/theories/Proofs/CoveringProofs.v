(** Properties of the covering models (Model/Covering.v):
    C05 valid cover wasting less than one bin, C10 never more than OPT (and the 1/2 bound of
    next-fit-decreasing), C06 sums-only run, C07 names irrelevant. *)
From Prtpy Require Import Base.Prelude Model.Binner Model.Covering Spec.Partition
  Proofs.BaseLemmas Proofs.BinnerLemmas.
From Coq Require Import Sorting.Sorted ZifyBool.

(** ---- a small solver for permutation goals between concatenations of the same atoms ---- *)

Lemma perm_cancel {T} (a l r1 r2 : list T) :
  Permutation l (r1 ++ r2) -> Permutation (a ++ l) (r1 ++ a ++ r2).
Proof.
  intros H. rewrite H. rewrite !app_assoc. apply Permutation_app_tail, Permutation_app_comm.
Qed.

Ltac perm_split T a r :=
  lazymatch r with
  | a ++ ?r2 => constr:((@nil T, r2))
  | ?x ++ ?r' =>
      let p := perm_split T a r' in
      lazymatch p with (?r1, ?r2) => constr:((x ++ r1, r2)) end
  end.

Ltac perm_norm :=
  repeat match goal with
    | |- context [?x :: ?l] =>
        lazymatch l with [] => fail | _ => change (x :: l) with ([x] ++ l) end
    end;
  rewrite <- ?app_assoc; rewrite ?app_nil_l; rewrite ?app_nil_r.

Ltac perm_step :=
  lazymatch goal with
  | |- @Permutation ?T (?a ++ ?l) ?r =>
      let p := perm_split T a r in
      lazymatch p with
      | (?r1, ?r2) =>
          apply (@Permutation_trans T _ (r1 ++ a ++ r2) _);
          [ apply perm_cancel; rewrite <- ?app_assoc; rewrite ?app_nil_l
          | let E := fresh "E" in
            assert (E : r1 ++ a ++ r2 = r) by (rewrite <- ?app_assoc; rewrite ?app_nil_l; reflexivity);
            rewrite E; apply Permutation_refl ]
      end
  end.

(** both sides get a trailing [[]] so that every atom is followed by [++] *)
Ltac perm_solve :=
  perm_norm;
  lazymatch goal with
  | |- @Permutation ?T ?l ?r =>
      apply (@Permutation_trans T _ (l ++ []) _); [rewrite app_nil_r; apply Permutation_refl|];
      apply (@Permutation_trans T _ (r ++ []) _); [|rewrite app_nil_r; apply Permutation_refl]
  end;
  rewrite <- ?app_assoc;
  repeat perm_step;
  apply Permutation_refl.

(** ---- unsnoc, filter ---- *)

Lemma unsnoc_Some {T} (l r : list T) y : unsnoc l = Some (r, y) -> l = r ++ [y].
Proof.
  unfold unsnoc. destruct (rev l) as [|z r0] eqn:E; intros H; [discriminate|].
  inversion H; subst. rewrite <- (rev_involutive l), E. reflexivity.
Qed.

Lemma unsnoc_None {T} (l : list T) : unsnoc l = None -> l = [].
Proof.
  unfold unsnoc. destruct (rev l) as [|z r0] eqn:E; intros H; [|discriminate].
  rewrite <- (rev_involutive l), E. reflexivity.
Qed.

Lemma unsnoc_map {T U} (f : T -> U) (l : list T) :
  unsnoc (map f l) = match unsnoc l with None => None | Some (r, y) => Some (map f r, f y) end.
Proof.
  unfold unsnoc. rewrite <- map_rev. destruct (rev l) as [|z r0]; cbn [map]; [reflexivity|].
  rewrite map_rev. reflexivity.
Qed.

Lemma filter_map_comm {T U} (f : T -> U) (p : T -> bool) (q : U -> bool) l :
  (forall x, q (f x) = p x) -> filter q (map f l) = map f (filter p l).
Proof.
  intros H. induction l as [|x t IH]; cbn [map filter]; [reflexivity|].
  rewrite H. destruct (p x); cbn [map]; rewrite IH; reflexivity.
Qed.

Lemma filter3_perm {T} (p q r : T -> bool) l :
  (forall x, (p x = true /\ q x = false /\ r x = false) \/
             (p x = false /\ q x = true /\ r x = false) \/
             (p x = false /\ q x = false /\ r x = true)) ->
  Permutation (filter p l ++ filter q l ++ filter r l) l.
Proof.
  intros H. induction l as [|x t IH]; cbn [filter]; [apply Permutation_refl|].
  destruct (H x) as [(E1 & E2 & E3)|[(E1 & E2 & E3)|(E1 & E2 & E3)]]; rewrite E1, E2, E3.
  - cbn [app]. apply perm_skip. exact IH.
  - apply Permutation_trans with (x :: filter p t ++ filter q t ++ filter r t);
      [perm_solve|apply perm_skip; exact IH].
  - apply Permutation_trans with (x :: filter p t ++ filter q t ++ filter r t);
      [perm_solve|apply perm_skip; exact IH].
Qed.

(** ---- unfolding lemmas for the loops, for any [valueof] and [keep] ---- *)
Section Unfold.
  Context {A : Type} (valueof : A -> Z) (keep : bool).

  (** one step of twothirds is [cover_add] of the chosen item *)
  Lemma tt_loop_S f C st fresh x t :
    tt_loop valueof keep (S f) C st fresh (x :: t) =
    if fresh then
      tt_loop valueof keep f C (cover_add valueof keep C st x)
        (fst (add_to_bin valueof keep x (snd st)) >=? C) t
    else
      match unsnoc (x :: t) with
      | None => st
      | Some (r, y) =>
          tt_loop valueof keep f C (cover_add valueof keep C st y)
            (fst (add_to_bin valueof keep y (snd st)) >=? C) r
      end.
  Proof.
    cbn [tt_loop]. unfold cover_add. cbv zeta. destruct fresh.
    - destruct (fst (add_to_bin valueof keep x (snd st)) >=? C); reflexivity.
    - destruct (unsnoc (x :: t)) as [[r y]|]; [|reflexivity].
      destruct (fst (add_to_bin valueof keep y (snd st)) >=? C); reflexivity.
  Qed.

  (** the choice made at the start of an iteration of the main loop of threequarters *)
  Definition tq_pick (st : cstate (A:=A)) (big medium : list A) : bin A * list A * list A :=
    if zsum (map valueof (firstn 1 big)) >=? zsum (map valueof (firstn 2 medium))
    then (fold_left (fun c x => add_to_bin valueof keep x c) (firstn 1 big) (snd st), skipn 1 big, medium)
    else (fold_left (fun c x => add_to_bin valueof keep x c) (firstn 2 medium) (snd st), big, skipn 2 medium).

  Definition is_nil {T} (l : list T) : bool := match l with [] => true | _ => false end.

  Lemma tq_loop_S f C st big medium small :
    tq_loop valueof keep (S f) C st big medium small =
    match small with
    | [] => dec_sub valueof keep C (dec_sub valueof keep C st big) medium
    | _ :: _ =>
        if is_nil big && is_nil medium then dec_sub valueof keep C st small
        else
          let '(cur0, big', medium') := tq_pick st big medium in
          let '(cur1, small') := fill_small valueof keep (length small) C cur0 small in
          if fst cur1 >=? C then tq_loop valueof keep f C (fst st ++ [cur1], empty_bin) big' medium' small'
          else tq_loop valueof keep f C (fst st, cur1) big' medium' small'
    end.
  Proof. destruct small, big, medium; reflexivity. Qed.
End Unfold.

(** ---- lock-step simulation between two runs of the covering loops ----
    Run 1 works on items of type A with (v1, k1); run 2 on their images under [g] with (v2, k2).
    [beta] maps the bins of run 1 to those of run 2.  Instances: forgetting the contents
    (C06) and forgetting the names (C07). *)
Section Sim.
  Context {A B : Type} (v1 : A -> Z) (k1 : bool) (v2 : B -> Z) (k2 : bool)
          (g : A -> B) (beta : bin A -> bin B).
  Hypothesis Hv : forall x, v2 (g x) = v1 x.
  Hypothesis Hfst : forall c, fst (beta c) = fst c.
  Hypothesis Hadd : forall x c, add_to_bin v2 k2 (g x) (beta c) = beta (add_to_bin v1 k1 x c).
  Hypothesis Hempty : beta empty_bin = empty_bin.

  Definition phi (st : cstate (A:=A)) : cstate (A:=B) := (map beta (fst st), beta (snd st)).

  Lemma sim_close (b : bins A) (c : bin A) :
    (map beta b ++ [beta c], @empty_bin B) = phi (b ++ [c], empty_bin).
  Proof. unfold phi. cbn [fst snd]. rewrite map_app, Hempty. reflexivity. Qed.

  Lemma sim_cover_add C st x :
    cover_add v2 k2 C (phi st) (g x) = phi (cover_add v1 k1 C st x).
  Proof.
    destruct st as [cl cur]. unfold cover_add, phi. cbn [fst snd]. rewrite Hadd, Hfst.
    destruct (fst (add_to_bin v1 k1 x cur) >=? C); cbn [fst snd].
    - rewrite map_app, Hempty. reflexivity.
    - reflexivity.
  Qed.

  Lemma sim_dec_sub C l : forall st,
    dec_sub v2 k2 C (phi st) (map g l) = phi (dec_sub v1 k1 C st l).
  Proof.
    unfold dec_sub. induction l as [|x t IH]; intros st; cbn [map fold_left]; [reflexivity|].
    rewrite sim_cover_add. apply IH.
  Qed.

  Lemma sim_tt_loop C : forall fuel st fresh rem,
    tt_loop v2 k2 fuel C (phi st) fresh (map g rem) = phi (tt_loop v1 k1 fuel C st fresh rem).
  Proof.
    induction fuel as [|f IH]; intros st fresh rem; [reflexivity|].
    destruct rem as [|x t]; [reflexivity|].
    change (map g (x :: t)) with (g x :: map g t) at 1. rewrite !tt_loop_S.
    destruct fresh.
    - rewrite sim_cover_add. unfold phi at 2. cbn [snd]. rewrite Hadd, Hfst. apply IH.
    - change (g x :: map g t) with (map g (x :: t)). rewrite unsnoc_map.
      destruct (unsnoc (x :: t)) as [[r y]|]; [|reflexivity].
      rewrite sim_cover_add. unfold phi at 2. cbn [snd]. rewrite Hadd, Hfst. apply IH.
  Qed.

  Lemma sim_fold_add l : forall c,
    fold_left (fun c x => add_to_bin v2 k2 x c) (map g l) (beta c) =
    beta (fold_left (fun c x => add_to_bin v1 k1 x c) l c).
  Proof.
    induction l as [|x t IH]; intros c; cbn [map fold_left]; [reflexivity|].
    rewrite Hadd. apply IH.
  Qed.

  Lemma sim_fill_small C : forall fuel cur small,
    fill_small v2 k2 fuel C (beta cur) (map g small) =
    (beta (fst (fill_small v1 k1 fuel C cur small)), map g (snd (fill_small v1 k1 fuel C cur small))).
  Proof.
    induction fuel as [|f IH]; intros cur small; cbn [fill_small]; [reflexivity|].
    rewrite Hfst. destruct (fst cur <? C); [|reflexivity].
    rewrite unsnoc_map. destruct (unsnoc small) as [[r y]|]; [|reflexivity].
    rewrite Hadd. apply IH.
  Qed.

  Lemma sim_valsum n l : zsum (map v2 (firstn n (map g l))) = zsum (map v1 (firstn n l)).
  Proof. rewrite firstn_map, map_map. f_equal. apply map_ext. intros x. apply Hv. Qed.

  Lemma sim_tq_pick st big medium :
    tq_pick v2 k2 (phi st) (map g big) (map g medium) =
    (beta (fst (fst (tq_pick v1 k1 st big medium))),
     map g (snd (fst (tq_pick v1 k1 st big medium))),
     map g (snd (tq_pick v1 k1 st big medium))).
  Proof.
    unfold tq_pick. rewrite !sim_valsum.
    destruct (zsum (map v1 (firstn 1 big)) >=? zsum (map v1 (firstn 2 medium))); cbn [fst snd];
      unfold phi; cbn [snd]; rewrite firstn_map, sim_fold_add, skipn_map; reflexivity.
  Qed.

  Lemma is_nil_map (l : list A) : is_nil (map g l) = is_nil l.
  Proof. destruct l; reflexivity. Qed.

  Lemma sim_tq_loop C : forall fuel st big medium small,
    tq_loop v2 k2 fuel C (phi st) (map g big) (map g medium) (map g small) =
    phi (tq_loop v1 k1 fuel C st big medium small).
  Proof.
    induction fuel as [|f IH]; intros st big medium small; [reflexivity|].
    rewrite !tq_loop_S. destruct small as [|s0 smt]; cbn [map].
    - rewrite !sim_dec_sub. reflexivity.
    - rewrite !is_nil_map. change (g s0 :: map g smt) with (map g (s0 :: smt)).
      destruct (is_nil big && is_nil medium); [apply sim_dec_sub|].
      rewrite sim_tq_pick.
      destruct (tq_pick v1 k1 st big medium) as [[cur0 big'] medium']. cbn [fst snd].
      rewrite map_length, sim_fill_small.
      destruct (fill_small v1 k1 (length (s0 :: smt)) C cur0 (s0 :: smt)) as [cur1 small'].
      cbn [fst snd]. rewrite Hfst. destruct (fst cur1 >=? C).
      + unfold phi at 1. cbn [fst]. rewrite sim_close. apply IH.
      + apply (IH (fst st, cur1)).
  Qed.
End Sim.

(** ---- value level: [Attainable] through lists of (value, bin index) pairs ---- *)

Definition lstep (s : list Z) (p : Z * nat) : list Z := update (snd p) (fun x => x + fst p) s.
Definition lrun (ps : list (Z * nat)) (s : list Z) : list Z := fold_left lstep ps s.

Lemma loads_lrun k vs asg : loads k vs asg = lrun (combine vs asg) (repeat 0 k).
Proof. reflexivity. Qed.

Lemma map_fst_combine_eq {T U} (l : list T) : forall l' : list U,
  length l = length l' -> map fst (combine l l') = l.
Proof.
  induction l as [|x t IH]; intros [|y t'] H; cbn [length] in H; try discriminate; cbn [combine map fst];
    [reflexivity|]. f_equal. apply IH. lia.
Qed.

Lemma map_snd_combine_eq {T U} (l : list T) : forall l' : list U,
  length l = length l' -> map snd (combine l l') = l'.
Proof.
  induction l as [|x t IH]; intros [|y t'] H; cbn [length] in H; try discriminate; cbn [combine map snd];
    [reflexivity|]. f_equal. apply IH. lia.
Qed.

Lemma combine_fst_snd {T U} (ps : list (T * U)) : combine (map fst ps) (map snd ps) = ps.
Proof.
  induction ps as [|[a b] t IH]; cbn [map combine fst snd]; [reflexivity|]. rewrite IH. reflexivity.
Qed.

Lemma Attainable_pairs k vs s :
  Attainable k vs s <->
  exists ps, map fst ps = vs /\ Forall (fun p => (snd p < k)%nat) ps /\ lrun ps (repeat 0 k) = s.
Proof.
  split.
  - intros (asg & Hl & Hv & Hs). exists (combine vs asg). repeat split.
    + apply map_fst_combine_eq. symmetry. exact Hl.
    + unfold valid_asg in Hv. rewrite <- (map_snd_combine_eq vs asg) in Hv by (symmetry; exact Hl).
      rewrite Forall_map in Hv. exact Hv.
    + exact Hs.
  - intros (ps & Hm & Hf & Hs). exists (map snd ps). repeat split.
    + rewrite <- Hm, !map_length. reflexivity.
    + unfold valid_asg. rewrite Forall_map. exact Hf.
    + rewrite loads_lrun, <- Hm, combine_fst_snd. exact Hs.
Qed.

Lemma update_comm {T} (f g : T -> T) (l : list T) : (forall x, f (g x) = g (f x)) ->
  forall i j, update i f (update j g l) = update j g (update i f l).
Proof.
  intros H. induction l as [|x t IH]; intros [|i] [|j]; cbn [update]; try reflexivity.
  - rewrite H. reflexivity.
  - rewrite IH. reflexivity.
Qed.

Lemma lstep_comm s p q : lstep (lstep s p) q = lstep (lstep s q) p.
Proof. unfold lstep. apply update_comm. intros x. lia. Qed.

Lemma lrun_perm ps ps' : Permutation ps ps' -> forall s, lrun ps s = lrun ps' s.
Proof.
  unfold lrun. induction 1 as [|p l l' HP IH|p q l|l l' l'' HP1 IH1 HP2 IH2]; intros s; cbn [fold_left].
  - reflexivity.
  - apply IH.
  - rewrite lstep_comm. reflexivity.
  - rewrite IH1. apply IH2.
Qed.

Lemma Attainable_perm k vs vs' s : Permutation vs vs' -> Attainable k vs s -> Attainable k vs' s.
Proof.
  rewrite !Attainable_pairs. intros HP (ps & Hm & Hf & Hs). subst vs.
  apply Permutation_sym, Permutation_map_inv in HP. destruct HP as (ps' & E & HP').
  exists ps'. repeat split.
  - symmetry. exact E.
  - eapply Permutation_Forall; [exact HP'|exact Hf].
  - rewrite <- Hs. symmetry. apply lrun_perm. exact HP'.
Qed.

Lemma lstep_length s p : length (lstep s p) = length s.
Proof. apply update_length. Qed.

Lemma lrun_length ps : forall s, length (lrun ps s) = length s.
Proof.
  unfold lrun. induction ps as [|p t IH]; intros s; cbn [fold_left]; [reflexivity|].
  rewrite IH. apply lstep_length.
Qed.

Lemma update_app_l {T} (f : T -> T) (t : list T) : forall s i, (i < length s)%nat ->
  update i f (s ++ t) = update i f s ++ t.
Proof.
  induction s as [|x s IH]; intros [|i] H; cbn [length] in H; try lia; cbn [app update]; [reflexivity|].
  rewrite IH by lia. reflexivity.
Qed.

Lemma update_app_r {T} (f : T -> T) (z : T) (t : list T) : forall s,
  update (length s) f (s ++ z :: t) = s ++ f z :: t.
Proof. induction s as [|x s IH]; cbn [length app update]; [reflexivity|]. rewrite IH. reflexivity. Qed.

Lemma lrun_app_r t ps : forall s, Forall (fun p => (snd p < length s)%nat) ps ->
  lrun ps (s ++ t) = lrun ps s ++ t.
Proof.
  unfold lrun. induction ps as [|p ps IH]; intros s H; cbn [fold_left]; [reflexivity|].
  inversion H as [|p' ps' Hp Hps]; subst. unfold lstep at 2 4. rewrite update_app_l by exact Hp.
  apply IH. rewrite update_length. exact Hps.
Qed.

(** putting the values [vs] into bin number [length s] *)
Lemma lrun_at s t vs : forall z,
  lrun (map (fun v => (v, length s)) vs) (s ++ z :: t) = s ++ (z + zsum vs) :: t.
Proof.
  unfold lrun. induction vs as [|v vs IH]; intros z; cbn [map fold_left].
  - change (zsum []) with 0. rewrite Z.add_0_r. reflexivity.
  - unfold lstep at 2. cbn [fst snd]. rewrite update_app_r. rewrite IH.
    change (zsum (v :: vs)) with (v + zsum vs). rewrite Z.add_assoc. reflexivity.
Qed.

Lemma map_fst_tag (i : nat) (vs : list Z) : map fst (map (fun v => (v, i)) vs) = vs.
Proof. rewrite map_map. cbn [fst]. apply map_id. Qed.

Lemma Forall_tag (k i : nat) (vs : list Z) : (i < k)%nat ->
  Forall (fun p : Z * nat => (snd p < k)%nat) (map (fun v => (v, i)) vs).
Proof. intros H. rewrite Forall_map. cbn [snd]. apply Forall_forall. intros v _. exact H. Qed.

(** ---- value level: any cover with n bins needs capped total value >= n * C ----
    (capping a value at C: a value above C is worth no more than C to a cover) *)

Definition capR (C : Z) (s s' : list Z) : Prop :=
  Forall2 (fun a a' => 0 <= a' /\ Z.min a C <= a') s s'.

Lemma Forall2_update {T U} (P : T -> U -> Prop) (f : T -> T) (f' : U -> U) :
  (forall a a', P a a' -> P (f a) (f' a')) ->
  forall l l', Forall2 P l l' -> forall i, Forall2 P (update i f l) (update i f' l').
Proof.
  intros Hf l l' H. induction H as [|a a' l l' Ha Hl IH]; intros [|i]; cbn [update].
  - constructor.
  - constructor.
  - constructor; [apply Hf; exact Ha|exact Hl].
  - constructor; [exact Ha|apply IH].
Qed.

Lemma capR_step C s s' v i : 0 < C -> 0 <= v -> capR C s s' ->
  capR C (lstep s (v, i)) (lstep s' (Z.min v C, i)).
Proof.
  intros HC Hv H. unfold lstep. cbn [fst snd]. apply Forall2_update; [|exact H].
  intros a a' [H1 H2]. split; lia.
Qed.

Definition cap_pairs (C : Z) (ps : list (Z * nat)) : list (Z * nat) :=
  map (fun p => (Z.min (fst p) C, snd p)) ps.

Lemma capR_run C ps : 0 < C -> Forall (fun p => 0 <= fst p) ps ->
  forall s s', capR C s s' -> capR C (lrun ps s) (lrun (cap_pairs C ps) s').
Proof.
  intros HC. unfold lrun, cap_pairs. induction ps as [|[v i] ps IH]; intros Hnn s s' H; cbn [map fold_left].
  - exact H.
  - inversion Hnn as [|p' ps' Hv Hps]; subst. cbn [fst snd] in *.
    apply IH; [exact Hps|]. apply capR_step; assumption.
Qed.

Lemma capR_zeros C k : 0 < C -> capR C (repeat 0 k) (repeat 0 k).
Proof. intros HC. unfold capR. induction k as [|k IH]; cbn [repeat]; constructor; [lia|exact IH]. Qed.

Lemma capR_sum C s s' : capR C s s' -> Forall (fun x => C <= x) s ->
  Z.of_nat (length s) * C <= zsum s'.
Proof.
  unfold capR. induction 1 as [|a a' l l' [Ha1 Ha2] Hl IH]; intros HF.
  - cbn. lia.
  - inversion HF as [|a0 l0 Hc Hrest]; subst. specialize (IH Hrest).
    cbn [length]. change (zsum (a' :: l')) with (a' + zsum l'). rewrite Nat2Z.inj_succ. lia.
Qed.

Lemma zsum_lrun ps : forall s, Forall (fun p => (snd p < length s)%nat) ps ->
  zsum (lrun ps s) = zsum s + zsum (map fst ps).
Proof.
  unfold lrun. induction ps as [|[v i] ps IH]; intros s H; cbn [fold_left map].
  - change (zsum []) with 0. lia.
  - inversion H as [|p' ps' Hp Hps]; subst. cbn [fst snd] in *. rewrite IH.
    + unfold lstep. cbn [fst snd]. rewrite zsum_update by exact Hp.
      change (zsum (v :: map fst ps)) with (v + zsum (map fst ps)). lia.
    + rewrite lstep_length. exact Hps.
Qed.

Lemma cover_cap_bound C n vs s : 0 < C -> Forall (fun v => 0 <= v) vs ->
  Attainable n vs s -> Forall (fun x => C <= x) s ->
  Z.of_nat n * C <= zsum (map (fun v => Z.min v C) vs).
Proof.
  intros HC Hnn Hat Hfull. apply Attainable_pairs in Hat. destruct Hat as (ps & Hm & Hf & Hs).
  assert (HR : capR C s (lrun (cap_pairs C ps) (repeat 0 n))).
  { rewrite <- Hs. apply capR_run; [exact HC| |apply capR_zeros; exact HC].
    rewrite <- Hm, Forall_map in Hnn. exact Hnn. }
  pose proof (capR_sum C _ _ HR Hfull) as Hsum.
  assert (Hlen : length s = n). { rewrite <- Hs, lrun_length, repeat_length. reflexivity. }
  rewrite Hlen in Hsum. rewrite zsum_lrun, zsum_repeat0 in Hsum.
  - unfold cap_pairs in Hsum. rewrite map_map in Hsum. cbn [fst] in Hsum.
    rewrite <- Hm, map_map. lia.
  - rewrite repeat_length. unfold cap_pairs. rewrite Forall_map. cbn [snd]. exact Hf.
Qed.

Section CoveringProofs.
  Context {A : Type} (valueof : A -> Z).

  Notation add1 := (add_to_bin valueof true).

  (** ---- the loop invariant ---- *)
  Definition cinv (C : Z) (items : list A) (st : cstate (A:=A)) (pending : list A) : Prop :=
    Forall (fun bn => C <= fst bn) (fst st) /\
    wf valueof (fst st) /\
    wf_bin valueof (snd st) /\
    fst (snd st) < C /\
    Permutation (contents (fst st) ++ snd (snd st) ++ pending) items.

  Lemma cinv_init C items pend : 0 < C -> Permutation pend items -> cinv C items ([], empty_bin) pend.
  Proof.
    intros HC HP. unfold cinv. cbn [fst snd empty_bin]. repeat split.
    - constructor.
    - constructor.
    - exact HC.
    - exact HP.
  Qed.

  Lemma contents_snoc (b : bins A) (c : bin A) : contents (b ++ [c]) = contents b ++ snd c.
  Proof. rewrite contents_app. unfold contents at 2, lists. cbn [map concat]. rewrite app_nil_r. reflexivity. Qed.

  Lemma add1_fst x (c : bin A) : fst (add1 x c) = fst c + valueof x.
  Proof. reflexivity. Qed.
  Lemma add1_snd x (c : bin A) : snd (add1 x c) = snd c ++ [x].
  Proof. reflexivity. Qed.

  (** closing the current bin with contents [cur] (whatever was added to it) *)
  Lemma cinv_close_gen C items st pend cur pend' :
    cinv C items st pend -> wf_bin valueof cur -> C <= fst cur ->
    Permutation (snd (snd st) ++ pend) (snd cur ++ pend') -> 0 < C ->
    cinv C items (fst st ++ [cur], empty_bin) pend'.
  Proof.
    intros (H1 & H2 & H3 & H4 & H5) Hw Hc HP HC. unfold cinv. cbn [fst snd empty_bin].
    repeat split.
    - apply Forall_app. split; [exact H1|]. constructor; [exact Hc|constructor].
    - apply Forall_app. split; [exact H2|]. constructor; [exact Hw|constructor].
    - exact HC.
    - rewrite contents_snoc. rewrite <- H5. cbn [app]. rewrite <- app_assoc.
      apply Permutation_app_head. symmetry. exact HP.
  Qed.

  Lemma cinv_keep_gen C items st pend cur pend' :
    cinv C items st pend -> wf_bin valueof cur -> fst cur < C ->
    Permutation (snd (snd st) ++ pend) (snd cur ++ pend') ->
    cinv C items (fst st, cur) pend'.
  Proof.
    intros (H1 & H2 & H3 & H4 & H5) Hw Hc HP. unfold cinv. cbn [fst snd].
    repeat split; try assumption.
    rewrite <- H5. apply Permutation_app_head. symmetry. exact HP.
  Qed.

  Lemma cinv_close C items st pend x pend' :
    0 < C -> cinv C items st pend -> Permutation pend (x :: pend') ->
    C <= fst (add1 x (snd st)) -> cinv C items (fst st ++ [add1 x (snd st)], empty_bin) pend'.
  Proof.
    intros HC H HP Hc. apply (cinv_close_gen C items st pend); try assumption.
    - apply add_to_bin_wf; [reflexivity|]. destruct H as (_ & _ & H3 & _). exact H3.
    - rewrite add1_snd, HP. perm_solve.
  Qed.

  Lemma cinv_keep C items st pend x pend' :
    cinv C items st pend -> Permutation pend (x :: pend') ->
    fst (add1 x (snd st)) < C -> cinv C items (fst st, add1 x (snd st)) pend'.
  Proof.
    intros H HP Hc. apply (cinv_keep_gen C items st pend); try assumption.
    - apply add_to_bin_wf; [reflexivity|]. destruct H as (_ & _ & H3 & _). exact H3.
    - rewrite add1_snd, HP. perm_solve.
  Qed.

  Lemma cinv_final C items st :
    cinv C items st [] ->
    is_cover valueof C items (fst st) (snd (snd st)) /\ zsum (map valueof (snd (snd st))) < C.
  Proof.
    intros (H1 & H2 & H3 & H4 & H5). unfold is_cover. repeat split; try assumption.
    - rewrite app_nil_r in H5. exact H5.
    - unfold wf_bin in H3. rewrite <- H3. exact H4.
  Qed.

  (** ---- decreasing ---- *)
  Lemma cover_add_inv C items st x pend pend' :
    0 < C -> cinv C items st pend -> Permutation pend (x :: pend') ->
    cinv C items (cover_add valueof true C st x) pend'.
  Proof.
    intros HC H HP. unfold cover_add. cbv zeta.
    destruct (fst (add1 x (snd st)) >=? C) eqn:E.
    - apply (cinv_close C items st pend); try assumption. lia.
    - apply (cinv_keep C items st pend); try assumption. lia.
  Qed.

  Lemma dec_sub_inv C items l : forall st pend,
    0 < C -> cinv C items st (l ++ pend) -> cinv C items (dec_sub valueof true C st l) pend.
  Proof.
    unfold dec_sub. induction l as [|x t IH]; intros st pend HC H; cbn [fold_left].
    - exact H.
    - apply IH; [exact HC|]. apply (cover_add_inv C items st x ((x :: t) ++ pend)); try assumption.
      apply Permutation_refl.
  Qed.

  (** positivity of the items is not needed for decreasing and twothirds *)
  Lemma dec_cover_gen : forall C items, 0 < C ->
    exists rest, is_cover valueof C items (cover_decreasing valueof true C items) rest /\
                 zsum (map valueof rest) < C.
  Proof.
    intros C items HC. unfold cover_decreasing.
    set (st := dec_sub valueof true C ([], empty_bin) (sort_desc valueof items)).
    exists (snd (snd st)). apply cinv_final. subst st.
    apply dec_sub_inv; [exact HC|]. rewrite app_nil_r.
    apply cinv_init; [exact HC|apply sort_desc_perm].
  Qed.

  Theorem dec_cover : forall C items, 0 < C -> Forall (fun x => 0 < valueof x) items ->
    exists rest, is_cover valueof C items (cover_decreasing valueof true C items) rest /\
                 zsum (map valueof rest) < C.
  Proof. intros C items HC _. apply dec_cover_gen. exact HC. Qed.

  (** ---- twothirds ---- *)
  Lemma tt_loop_inv C items : 0 < C -> forall fuel st fresh rem,
    cinv C items st rem -> (length rem <= fuel)%nat ->
    cinv C items (tt_loop valueof true fuel C st fresh rem) [].
  Proof.
    intros HC. induction fuel as [|f IH]; intros st fresh rem H Hl; cbn [tt_loop].
    - destruct rem as [|x t]; [exact H|cbn [length] in Hl; lia].
    - destruct rem as [|x t]; [exact H|]. cbn [length] in Hl.
      destruct fresh.
      + cbv zeta. destruct (fst (add1 x (snd st)) >=? C) eqn:E.
        * apply IH; [|lia]. apply (cinv_close C items st (x :: t)); try assumption; [apply Permutation_refl|lia].
        * apply IH; [|lia]. apply (cinv_keep C items st (x :: t)); try assumption; [apply Permutation_refl|lia].
      + destruct (unsnoc (x :: t)) as [[r y]|] eqn:U.
        * apply unsnoc_Some in U.
          assert (HP : Permutation (x :: t) (y :: r)).
          { rewrite U. symmetry. apply Permutation_cons_append. }
          assert (Hr : (length r <= f)%nat).
          { apply Permutation_length in HP. cbn [length] in HP. lia. }
          cbv zeta. destruct (fst (add1 y (snd st)) >=? C) eqn:E.
          -- apply IH; [|exact Hr]. apply (cinv_close C items st (x :: t)); try assumption. lia.
          -- apply IH; [|exact Hr]. apply (cinv_keep C items st (x :: t)); try assumption. lia.
        * apply unsnoc_None in U. discriminate.
  Qed.

  Lemma tt_cover_gen : forall C items, 0 < C ->
    exists rest, is_cover valueof C items (cover_twothirds valueof true C items) rest /\
                 zsum (map valueof rest) < C.
  Proof.
    intros C items HC. unfold cover_twothirds.
    set (st := tt_loop valueof true (length items) C ([], empty_bin) true (sort_desc valueof items)).
    exists (snd (snd st)). apply cinv_final. subst st.
    apply tt_loop_inv; [exact HC| |rewrite sort_desc_length; lia].
    apply cinv_init; [exact HC|apply sort_desc_perm].
  Qed.

  Theorem tt_cover : forall C items, 0 < C -> Forall (fun x => 0 < valueof x) items ->
    exists rest, is_cover valueof C items (cover_twothirds valueof true C items) rest /\
                 zsum (map valueof rest) < C.
  Proof. intros C items HC _. apply tt_cover_gen. exact HC. Qed.

  (** ---- threequarters ---- *)
  Notation pos := (fun x : A => 0 < valueof x).

  Lemma fold_add_spec l : forall c : bin A, wf_bin valueof c ->
    wf_bin valueof (fold_left (fun c x => add1 x c) l c) /\
    snd (fold_left (fun c x => add1 x c) l c) = snd c ++ l.
  Proof.
    induction l as [|x t IH]; intros c Hc; cbn [fold_left].
    - split; [exact Hc|rewrite app_nil_r; reflexivity].
    - destruct (IH (add1 x c)) as [H1 H2]; [apply add_to_bin_wf; [reflexivity|exact Hc]|].
      split; [exact H1|]. rewrite H2, add1_snd, <- app_assoc. reflexivity.
  Qed.

  Lemma fill_small_spec C : forall fuel (cur : bin A) small cur1 small',
    fill_small valueof true fuel C cur small = (cur1, small') -> wf_bin valueof cur ->
    wf_bin valueof cur1 /\
    exists used, snd cur1 = snd cur ++ used /\ Permutation small (small' ++ used).
  Proof.
    assert (Base : forall (cur : bin A) small cur1 small',
      (cur, small) = (cur1, small') -> wf_bin valueof cur ->
      wf_bin valueof cur1 /\
      exists used, snd cur1 = snd cur ++ used /\ Permutation small (small' ++ used)).
    { intros cur small cur1 small' E Hw. inversion E; subst. split; [exact Hw|].
      exists []. rewrite !app_nil_r. split; [reflexivity|apply Permutation_refl]. }
    induction fuel as [|f IH]; intros cur small cur1 small' E Hw; cbn [fill_small] in E.
    - apply Base; assumption.
    - destruct (fst cur <? C) eqn:EC; [|apply Base; assumption].
      destruct (unsnoc small) as [[r y]|] eqn:U; [|apply Base; assumption].
      apply unsnoc_Some in U.
      apply IH in E; [|apply add_to_bin_wf; [reflexivity|exact Hw]].
      destruct E as (H1 & used & H2 & H3). split; [exact H1|].
      exists (y :: used). split.
      + rewrite H2, add1_snd, <- app_assoc. reflexivity.
      + rewrite U, H3. perm_solve.
  Qed.

  Lemma Forall_firstn {T} (P : T -> Prop) n (l : list T) : Forall P l -> Forall P (firstn n l).
  Proof.
    intros H. rewrite <- (firstn_skipn n l) in H. apply Forall_app in H. destruct H as [H _]. exact H.
  Qed.

  Lemma firstn_pos_sum n (l : list A) :
    Forall pos l -> l <> [] -> (0 < n)%nat -> 0 < zsum (map valueof (firstn n l)).
  Proof.
    intros HF Hne Hn. destruct l as [|x t]; [congruence|]. destruct n as [|m]; [lia|].
    cbn [firstn map zsum fold_right]. inversion HF as [|x' t' Hx Ht]; subst.
    assert (H0 : 0 <= zsum (map valueof (firstn m t))).
    { apply zsum_nonneg. rewrite Forall_map. apply Forall_firstn.
      eapply Forall_impl; [|exact Ht]. cbv beta. intros y Hy. lia. }
    unfold zsum in H0. lia.
  Qed.

  Lemma firstn_nonneg_sum n (l : list A) : Forall pos l -> 0 <= zsum (map valueof (firstn n l)).
  Proof.
    intros HF. apply zsum_nonneg. rewrite Forall_map. apply Forall_firstn.
    eapply Forall_impl; [|exact HF]. cbv beta. intros y Hy. lia.
  Qed.

  Lemma tq_pick_spec st big medium cur0 big' medium' :
    tq_pick valueof true st big medium = (cur0, big', medium') ->
    wf_bin valueof (snd st) -> Forall pos big -> Forall pos medium ->
    is_nil big && is_nil medium = false ->
    wf_bin valueof cur0 /\
    (length big' + length medium' < length big + length medium)%nat /\
    exists taken, snd cur0 = snd (snd st) ++ taken /\
                  Permutation (big ++ medium) (taken ++ big' ++ medium').
  Proof.
    unfold tq_pick. intros E Hw Hb Hm Hne.
    destruct (zsum (map valueof (firstn 1 big)) >=? zsum (map valueof (firstn 2 medium))) eqn:Ecmp;
      injection E as Ec Eb Em; subst cur0 big' medium'.
    - destruct (fold_add_spec (firstn 1 big) (snd st) Hw) as [H1 H2].
      split; [exact H1|]. split.
      + assert (Hbig : big <> []).
        { intros ->. destruct medium as [|m0 mt]; [discriminate Hne|].
          pose proof (firstn_pos_sum 2 (m0 :: mt) Hm) as Hp.
          change (zsum (map valueof (firstn 1 []))) with 0 in Ecmp.
          assert (0 < zsum (map valueof (firstn 2 (m0 :: mt)))) by (apply Hp; [discriminate|lia]).
          lia. }
        clear - Hbig. destruct big as [|b0 bt]; [congruence|]. cbn [skipn length]. lia.
      + exists (firstn 1 big). split; [exact H2|].
        rewrite app_assoc, firstn_skipn. apply Permutation_refl.
    - destruct (fold_add_spec (firstn 2 medium) (snd st) Hw) as [H1 H2].
      split; [exact H1|]. split.
      + assert (Hmed : medium <> []).
        { intros ->. pose proof (firstn_nonneg_sum 1 big Hb) as Hp.
          change (zsum (map valueof (firstn 2 []))) with 0 in Ecmp. lia. }
        clear - Hmed. destruct medium as [|m0 [|m1 mt]]; [congruence| |]; cbn [skipn length]; lia.
      + exists (firstn 2 medium). split; [exact H2|].
        rewrite <- (firstn_skipn 2 medium) at 1. perm_solve.
  Qed.

  Lemma Forall_perm_app3 (P : A -> Prop) (t l1 l2 l1' l2' : list A) :
    Permutation (l1 ++ l2) (t ++ l1' ++ l2') -> Forall P l1 -> Forall P l2 ->
    Forall P l1' /\ Forall P l2'.
  Proof.
    intros HP H1 H2.
    assert (H : Forall P (t ++ l1' ++ l2')).
    { eapply Permutation_Forall; [exact HP|]. apply Forall_app. split; assumption. }
    apply Forall_app in H. destruct H as [_ H]. apply Forall_app in H. exact H.
  Qed.

  Lemma tq_loop_inv C items : 0 < C -> forall fuel st big medium small,
    cinv C items st (big ++ medium ++ small) ->
    Forall pos big -> Forall pos medium ->
    (length big + length medium < fuel)%nat ->
    cinv C items (tq_loop valueof true fuel C st big medium small) [].
  Proof.
    intros HC. induction fuel as [|f IH]; intros st big medium small H Hb Hm Hl; [lia|].
    rewrite tq_loop_S. destruct small as [|s0 smt].
    - apply dec_sub_inv; [exact HC|]. apply dec_sub_inv; [exact HC|]. exact H.
    - set (small := s0 :: smt) in *.
      destruct (is_nil big && is_nil medium) eqn:EN.
      + apply dec_sub_inv; [exact HC|]. rewrite app_nil_r.
        destruct big; [|discriminate EN]. destruct medium; [|discriminate EN]. exact H.
      + destruct (tq_pick valueof true st big medium) as [[cur0 big'] medium'] eqn:E1.
        destruct (fill_small valueof true (length small) C cur0 small) as [cur1 small'] eqn:E2.
        pose proof H as (_ & _ & Hw & _).
        destruct (tq_pick_spec st big medium cur0 big' medium' E1 Hw Hb Hm EN)
          as (Hw0 & Hlen & taken & Ht & HPt).
        destruct (fill_small_spec C _ _ _ _ _ E2 Hw0) as (Hw1 & used & Hu & HPu).
        destruct (Forall_perm_app3 pos taken big medium big' medium' HPt Hb Hm) as [Hb' Hm'].
        assert (HP : Permutation (snd (snd st) ++ big ++ medium ++ small)
                                 (snd cur1 ++ big' ++ medium' ++ small')).
        { rewrite Hu, Ht. rewrite (app_assoc big medium small). rewrite HPt, HPu. perm_solve. }
        destruct (fst cur1 >=? C) eqn:EC.
        * apply IH; try assumption; [|lia].
          apply (cinv_close_gen C items st (big ++ medium ++ small)); try assumption. lia.
        * apply IH; try assumption; [|lia].
          apply (cinv_keep_gen C items st (big ++ medium ++ small)); try assumption. lia.
  Qed.

  Lemma class_exclusive C x : 0 < C ->
    (is_big valueof C x = true /\ is_medium valueof C x = false /\ is_small valueof C x = false) \/
    (is_big valueof C x = false /\ is_medium valueof C x = true /\ is_small valueof C x = false) \/
    (is_big valueof C x = false /\ is_medium valueof C x = false /\ is_small valueof C x = true).
  Proof.
    intros HC. unfold is_big, is_medium, is_small.
    destruct (Z_le_gt_dec C (2 * valueof x)) as [H1|H1];
      [left|destruct (Z_le_gt_dec C (3 * valueof x)) as [H2|H2]; [right; left|right; right]];
      repeat split; lia.
  Qed.

  Lemma classes_perm C l : 0 < C ->
    Permutation (filter (is_big valueof C) l ++ filter (is_medium valueof C) l ++ filter (is_small valueof C) l) l.
  Proof. intros HC. apply filter3_perm. intros x. apply class_exclusive. exact HC. Qed.

  Lemma Forall_filter {T} (P : T -> Prop) (p : T -> bool) l : Forall P l -> Forall P (filter p l).
  Proof.
    intros H. apply Forall_forall. intros x Hx. apply filter_In in Hx. destruct Hx as [Hx _].
    rewrite Forall_forall in H. apply H. exact Hx.
  Qed.

  Theorem tq_cover : forall C items, 0 < C -> Forall (fun x => 0 < valueof x) items ->
    exists rest, is_cover valueof C items (cover_threequarters valueof true C items) rest /\
                 zsum (map valueof rest) < C.
  Proof.
    intros C items HC Hpos. unfold cover_threequarters. cbv zeta.
    set (s := sort_desc valueof items).
    set (st := tq_loop valueof true (S (length items)) C ([], empty_bin)
                 (filter (is_big valueof C) s) (filter (is_medium valueof C) s) (filter (is_small valueof C) s)).
    exists (snd (snd st)). apply cinv_final. subst st.
    assert (Hs : Forall pos s).
    { eapply Permutation_Forall; [symmetry; apply sort_desc_perm|exact Hpos]. }
    pose proof (classes_perm C s HC) as HP.
    apply tq_loop_inv; try assumption.
    - apply cinv_init; [exact HC|]. rewrite HP. apply sort_desc_perm.
    - apply Forall_filter. exact Hs.
    - apply Forall_filter. exact Hs.
    - apply Permutation_length in HP. rewrite !app_length in HP.
      unfold s in HP at 4. rewrite sort_desc_length in HP. lia.
  Qed.

  (** ---- C06: the sums-only run is the erasure of the contents-keeping run ---- *)
  Definition ebin (c : bin A) : bin A := (fst c, []).
  Notation ephi := (phi ebin).

  Lemma ebin_add x c : add_to_bin valueof false ((fun a : A => a) x) (ebin c) = ebin (add1 x c).
  Proof. reflexivity. Qed.

  Lemma erase_phi st : erase (fst st) = fst (ephi st).
  Proof. reflexivity. Qed.

  Lemma init_ephi : ([], empty_bin) = ephi ([], empty_bin).
  Proof. reflexivity. Qed.

  Theorem dec_erase : forall C items,
    erase (cover_decreasing valueof true C items) = cover_decreasing valueof false C items.
  Proof.
    intros C items. unfold cover_decreasing. rewrite erase_phi.
    rewrite <- (sim_dec_sub valueof true valueof false (fun a => a) ebin); try reflexivity.
    rewrite map_id. reflexivity.
  Qed.

  Theorem tt_erase : forall C items,
    erase (cover_twothirds valueof true C items) = cover_twothirds valueof false C items.
  Proof.
    intros C items. unfold cover_twothirds. rewrite erase_phi.
    rewrite <- (sim_tt_loop valueof true valueof false (fun a => a) ebin); try reflexivity.
    rewrite map_id. reflexivity.
  Qed.

  Theorem tq_erase : forall C items,
    erase (cover_threequarters valueof true C items) = cover_threequarters valueof false C items.
  Proof.
    intros C items. unfold cover_threequarters. cbv zeta. rewrite erase_phi.
    rewrite <- (sim_tq_loop valueof true valueof false (fun a => a) ebin); try reflexivity.
    rewrite !map_id. reflexivity.
  Qed.

  (** ---- C07: names are irrelevant ---- *)
  Definition vbin (c : bin A) : bin Z := (fst c, map valueof (snd c)).
  Notation vphi := (phi vbin).
  Notation idv := (fun v : Z => v).

  Lemma vbin_add x c : add_to_bin idv true (valueof x) (vbin c) = vbin (add1 x c).
  Proof. unfold add_to_bin, vbin. cbn [fst snd]. rewrite map_app. reflexivity. Qed.

  Lemma map_bins_phi st : map_bins valueof (fst st) = fst (vphi st).
  Proof. reflexivity. Qed.

  Lemma sort_desc_values items :
    sort_desc idv (map valueof items) = map valueof (sort_desc valueof items).
  Proof. symmetry. apply sort_desc_map. reflexivity. Qed.

  Theorem dec_names : forall C items,
    map_bins valueof (cover_decreasing valueof true C items) =
    cover_decreasing (fun v : Z => v) true C (map valueof items).
  Proof.
    intros C items. unfold cover_decreasing. rewrite map_bins_phi, sort_desc_values.
    rewrite <- (sim_dec_sub valueof true idv true valueof vbin); try reflexivity.
    exact vbin_add.
  Qed.

  Theorem tt_names : forall C items,
    map_bins valueof (cover_twothirds valueof true C items) =
    cover_twothirds (fun v : Z => v) true C (map valueof items).
  Proof.
    intros C items. unfold cover_twothirds. rewrite map_bins_phi, sort_desc_values, map_length.
    rewrite <- (sim_tt_loop valueof true idv true valueof vbin); try reflexivity.
    exact vbin_add.
  Qed.

  Theorem tq_names : forall C items,
    map_bins valueof (cover_threequarters valueof true C items) =
    cover_threequarters (fun v : Z => v) true C (map valueof items).
  Proof.
    intros C items. unfold cover_threequarters. cbv zeta.
    rewrite map_bins_phi, sort_desc_values, map_length.
    rewrite (filter_map_comm valueof (is_big valueof C) (is_big idv C)) by reflexivity.
    rewrite (filter_map_comm valueof (is_medium valueof C) (is_medium idv C)) by reflexivity.
    rewrite (filter_map_comm valueof (is_small valueof C) (is_small idv C)) by reflexivity.
    rewrite <- (sim_tq_loop valueof true idv true valueof vbin); try reflexivity.
    exact vbin_add.
  Qed.

  (** ---- C10: never more bins than the optimum ---- *)

  (** the sums of a well-formed bins-array are attained by its contents *)
  Lemma bins_attainable (b : bins A) : wf valueof b ->
    exists ps, map fst ps = map valueof (contents b) /\
               Forall (fun p => (snd p < length b)%nat) ps /\
               lrun ps (repeat 0 (length b)) = sums b.
  Proof.
    induction b as [|c b IH] using rev_ind; intros Hw.
    - exists []. repeat split. constructor.
    - apply Forall_app in Hw. destruct Hw as [Hwb Hwc].
      inversion Hwc as [|c' l' Hc _]; subst. destruct (IH Hwb) as (ps & Hm & Hf & Hs).
      exists (ps ++ map (fun v => (v, length (sums b))) (map valueof (snd c))).
      assert (Hlen : length (sums b) = length b) by apply map_length.
      rewrite app_length. cbn [length]. rewrite Nat.add_1_r. repeat split.
      + rewrite map_app, map_fst_tag, Hm, contents_snoc, map_app. reflexivity.
      + apply Forall_app. split.
        * eapply Forall_impl; [|exact Hf]. cbv beta. intros p Hp. lia.
        * apply Forall_tag. lia.
      + cbn [repeat]. rewrite repeat_cons. unfold lrun. rewrite fold_left_app. fold (lrun ps (repeat 0 (length b) ++ [0])).
        rewrite lrun_app_r by (rewrite repeat_length; exact Hf). rewrite Hs.
        fold (lrun (map (fun v => (v, length (sums b))) (map valueof (snd c))) (sums b ++ [0])).
        rewrite lrun_at. unfold sums. rewrite map_app. cbn [map]. unfold wf_bin in Hc. rewrite Hc.
        rewrite Z.add_0_l. reflexivity.
  Qed.

  Lemma cover_coverable C items (b : bins A) rest :
    is_cover valueof C items b rest -> Forall (fun x => 0 <= valueof x) rest ->
    Coverable C (map valueof items) (length b).
  Proof.
    intros (Hfull & Hw & HP) Hrest. destruct b as [|c t] eqn:Eb; [left; reflexivity|]. right.
    rewrite <- Eb in *. destruct (bins_attainable b Hw) as (ps & Hm & Hf & Hs).
    exists ((fst c + zsum (map valueof rest)) :: sums t). split.
    - apply (Attainable_perm _ (map valueof (contents b ++ rest))); [apply Permutation_map; exact HP|].
      apply Attainable_pairs.
      exists (ps ++ map (fun v => (v, length (@nil Z))) (map valueof rest)). repeat split.
      + rewrite map_app, map_fst_tag, Hm, map_app. reflexivity.
      + apply Forall_app. split; [exact Hf|]. apply Forall_tag. rewrite Eb. cbn [length]. lia.
      + unfold lrun. rewrite fold_left_app. fold (lrun ps (repeat 0 (length b))). rewrite Hs.
        rewrite Eb. change (sums (c :: t)) with ([] ++ fst c :: sums t).
        fold (lrun (map (fun v => (v, length (@nil Z))) (map valueof rest)) ([] ++ fst c :: sums t)).
        rewrite lrun_at. reflexivity.
    - rewrite Eb in Hfull. inversion Hfull as [|c' t' Hc Ht]; subst c' t'. constructor.
      + pose proof (zsum_nonneg (map valueof rest)) as Hnn. rewrite Forall_map in Hnn.
        specialize (Hnn Hrest). lia.
      + unfold sums. rewrite Forall_map. exact Ht.
  Qed.

  Lemma cover_le_opt C items (b : bins A) rest n :
    is_cover valueof C items b rest -> Forall (fun x => 0 < valueof x) items ->
    MaxCover C (map valueof items) n -> (length b <= n)%nat.
  Proof.
    intros Hc Hpos [_ Hmax]. apply Hmax. apply (cover_coverable C items b rest Hc).
    destruct Hc as (_ & _ & HP).
    assert (H : Forall (fun x => 0 < valueof x) (contents b ++ rest)).
    { eapply Permutation_Forall; [symmetry; exact HP|exact Hpos]. }
    apply Forall_app in H. destruct H as [_ H].
    eapply Forall_impl; [|exact H]. cbv beta. intros x Hx. lia.
  Qed.

  Theorem dec_le_opt : forall C items n, 0 < C -> Forall (fun x => 0 < valueof x) items ->
    MaxCover C (map valueof items) n -> (length (cover_decreasing valueof true C items) <= n)%nat.
  Proof.
    intros C items n HC Hpos Hmax. destruct (dec_cover C items HC Hpos) as (rest & Hc & _).
    exact (cover_le_opt C items _ rest n Hc Hpos Hmax).
  Qed.

  Theorem tt_le_opt : forall C items n, 0 < C -> Forall (fun x => 0 < valueof x) items ->
    MaxCover C (map valueof items) n -> (length (cover_twothirds valueof true C items) <= n)%nat.
  Proof.
    intros C items n HC Hpos Hmax. destruct (tt_cover C items HC Hpos) as (rest & Hc & _).
    exact (cover_le_opt C items _ rest n Hc Hpos Hmax).
  Qed.

  Theorem tq_le_opt : forall C items n, 0 < C -> Forall (fun x => 0 < valueof x) items ->
    MaxCover C (map valueof items) n -> (length (cover_threequarters valueof true C items) <= n)%nat.
  Proof.
    intros C items n HC Hpos Hmax. destruct (tq_cover C items HC Hpos) as (rest & Hc & _).
    exact (cover_le_opt C items _ rest n Hc Hpos Hmax).
  Qed.

  (** ---- C10: next-fit (in any order, so in particular decreasing) covers at least half
      of the optimum ---- *)
  Definition capsum (C : Z) (l : list A) : Z := zsum (map (fun x => Z.min (valueof x) C) l).

  Lemma capsum_app C l1 l2 : capsum C (l1 ++ l2) = capsum C l1 + capsum C l2.
  Proof. unfold capsum. rewrite map_app, zsum_app. reflexivity. Qed.

  Lemma capsum_le C l : capsum C l <= zsum (map valueof l).
  Proof.
    unfold capsum. induction l as [|x t IH]; cbn [map]; [lia|].
    change (zsum (Z.min (valueof x) C :: map (fun x => Z.min (valueof x) C) t))
      with (Z.min (valueof x) C + zsum (map (fun x => Z.min (valueof x) C) t)).
    change (zsum (valueof x :: map valueof t)) with (valueof x + zsum (map valueof t)). lia.
  Qed.

  Lemma capsum_single C x : capsum C [x] <= C.
  Proof. unfold capsum. cbn. lia. Qed.

  Lemma capsum_perm C l1 l2 : Permutation l1 l2 -> capsum C l1 = capsum C l2.
  Proof. intros H. unfold capsum. apply zsum_perm, Permutation_map. exact H. Qed.

  Definition half_inv (C : Z) (st : cstate (A:=A)) : Prop :=
    Forall (fun bn => capsum C (snd bn) < 2 * C) (fst st) /\
    wf_bin valueof (snd st) /\ fst (snd st) < C.

  Lemma cover_add_half C st x : half_inv C st -> 0 < C -> half_inv C (cover_add valueof true C st x).
  Proof.
    intros (H1 & H2 & H3) HC. unfold cover_add. cbv zeta.
    destruct (fst (add1 x (snd st)) >=? C) eqn:E; unfold half_inv; cbn [fst snd empty_bin].
    - repeat split; [|exact HC]. apply Forall_app. split; [exact H1|]. constructor; [|constructor].
      rewrite add1_snd, capsum_app. pose proof (capsum_le C (snd (snd st))) as Hle.
      pose proof (capsum_single C x) as Hx. unfold wf_bin in H2. lia.
    - repeat split; [exact H1| |lia]. apply add_to_bin_wf; [reflexivity|exact H2].
  Qed.

  Lemma dec_sub_half C l : forall st, half_inv C st -> 0 < C -> half_inv C (dec_sub valueof true C st l).
  Proof.
    unfold dec_sub. induction l as [|x t IH]; intros st H HC; cbn [fold_left]; [exact H|].
    apply IH; [|exact HC]. apply cover_add_half; assumption.
  Qed.

  Lemma capsum_contents C (b : bins A) :
    Forall (fun bn => capsum C (snd bn) < 2 * C) b ->
    capsum C (contents b) <= 2 * C * Z.of_nat (length b).
  Proof.
    induction 1 as [|c t Hc Ht IH].
    - cbn. lia.
    - change (contents (c :: t)) with (snd c ++ contents t). rewrite capsum_app. cbn [length]. rewrite Nat2Z.inj_succ. lia.
  Qed.

  Theorem dec_half_strong : forall C items n, 0 < C -> Forall (fun x => 0 < valueof x) items ->
    MaxCover C (map valueof items) n -> (n <= 2 * length (cover_decreasing valueof true C items))%nat.
  Proof.
    intros C items n HC Hpos [[Hn|(s & Hat & Hfull)] _]; [lia|].
    unfold cover_decreasing.
    set (st := dec_sub valueof true C ([], empty_bin) (sort_desc valueof items)).
    assert (Hinv : cinv C items st []).
    { subst st. apply dec_sub_inv; [exact HC|]. rewrite app_nil_r.
      apply cinv_init; [exact HC|apply sort_desc_perm]. }
    assert (Hhalf : half_inv C st).
    { subst st. apply dec_sub_half; [|exact HC]. unfold half_inv. cbn [fst snd empty_bin].
      repeat split; [constructor|exact HC]. }
    destruct Hinv as (_ & _ & Hw & Hlt & HP). destruct Hhalf as (Hb & _ & _).
    rewrite app_nil_r in HP.
    assert (Hopt : Z.of_nat n * C <= capsum C items).
    { unfold capsum. rewrite <- (map_map valueof (fun v => Z.min v C)).
      apply (cover_cap_bound C n _ s); try assumption.
      rewrite Forall_map. eapply Forall_impl; [|exact Hpos]. cbv beta. intros x Hx. lia. }
    rewrite <- (capsum_perm C _ _ HP), capsum_app in Hopt.
    pose proof (capsum_contents C (fst st) Hb) as H1.
    pose proof (capsum_le C (snd (snd st))) as H2. unfold wf_bin in Hw.
    assert (Hlt' : Z.of_nat n * C < (2 * Z.of_nat (length (fst st)) + 1) * C) by lia.
    apply Z.mul_lt_mono_pos_r in Hlt'; [lia|exact HC].
  Qed.

  Theorem dec_half : forall C items n, 0 < C -> Forall (fun x => 0 < valueof x) items ->
    MaxCover C (map valueof items) n -> (n <= 2 * length (cover_decreasing valueof true C items) + 1)%nat.
  Proof.
    intros C items n HC Hpos Hmax. pose proof (dec_half_strong C items n HC Hpos Hmax). lia.
  Qed.

End CoveringProofs.

Print Assumptions dec_cover.
Print Assumptions tt_cover.
Print Assumptions tq_cover.
Print Assumptions dec_erase.
Print Assumptions tt_erase.
Print Assumptions tq_erase.
Print Assumptions dec_names.
Print Assumptions tt_names.
Print Assumptions tq_names.
Print Assumptions cover_coverable.
Print Assumptions dec_le_opt.
Print Assumptions tt_le_opt.
Print Assumptions tq_le_opt.
Print Assumptions dec_half_strong.
Print Assumptions dec_half.
