(** C08, max-min side, concluded: the exact guarantee of Csirik, Kellerer and Woeginger (1992) for the
    smallest sum produced by greedy (LPT),
        (3k - 1) * OPTmin <= (4k - 2) * LPTmin        for every number k of bins.
    [Proofs/LPTMinProofs.v] has k <= 2 and tightness, [Proofs/LPTMinFullProofs.v] the limit constant 3/4.

    Method: T is the value of the assignment greedy is compared with, L the smallest load of greedy; assume
    (3k-1) T > (4k-2) L.  By the 3/4 bound 3 T <= 4 L, and 5 L < 4 T for k >= 3.  The runs without an
    overfull step, and the runs where no pairing before the last overfull step leaves its bin open, are
    refuted by the weights of [LPTMinFullProofs] ([k1_run], [k2_run]) for every T > L.  Otherwise let the
    last overfull step put a on a load x and the last open step before it put b on a load p.
    - If 4 L - T < 2 (x + b), the three-level staircase [W3] of [LPTMinFullProofs] with u2 = max x (2 p)
      still works ([k4_run]).
    - Otherwise, if some earlier step puts cs on a load ys >= cs with 4 L - T < 2 (ys + cs), a four-level
      staircase [W4] with period p / 2 works ([k5_run]).
    - Otherwise every bin has capped weight at most T or load at most (4 L - T) / 2 ([k6_sum]); the
      capped total is then below k T.  This is the only place where k enters. *)
From Prtpy Require Import Base.Prelude Model.Binner Model.Greedy Model.Objectives Spec.Partition
  Oracle.Reach Proofs.BaseLemmas Proofs.BinnerLemmas Proofs.GreedyProofs Proofs.RatioProofs Proofs.OracleSpec
  Proofs.LPTMinProofs Proofs.LPTMinFullProofs.
From Coq Require Import Sorting.Sorted Arith ZifyBool.

(** ================= A. the three-level staircase with weaker side conditions ================= *)
(** x: load hit by the last overfull step (item a); p: load hit by the last open step (item b) before it *)
Definition par4 (T L x p a b u2 : Z) : Prop :=
  x <= L /\ 3 * T <= 4 * L /\ 5 * L < 4 * T /\ 0 <= L /\ 0 < p <= x /\ a <= b <= p /\ p + b <= L /\ T < x + a /\
  x <= u2 /\ 2 * p <= u2 /\ (u2 = x \/ u2 = 2 * p) /\ 4 * L - T < 2 * x + 2 * b.

Lemma par4_facts T L x p a b u2 : par4 T L x p a b u2 ->
  2 * T <= 3 * u2 /\ u2 < T /\ 2 * (L - x) <= T - u2 /\ L < 3 * b /\ L < T.
Proof. unfold par4. lia. Qed.

Lemma Q4_step T L x p a b u2 y mu c wl : par4 T L x p a b u2 ->
  ((mu <= p /\ b <= c) \/ (c <= p /\ ~ (c <= mu /\ mu + c <= L))) -> 0 <= mu <= x -> a <= c <= y ->
  Q3 T L u2 y mu wl -> Q3 T L u2 c (mu + c) (wl + W3 T u2 c).
Proof.
  intros Hp Hmode Hmu Hc (H1 & H2 & H3). pose proof (par4_facts _ _ _ _ _ _ _ Hp) as Hf.
  unfold par4 in Hp.
  pose proof (W3_bounds T u2 c ltac:(lia) ltac:(lia) ltac:(lia)) as (Hc1 & Hc2 & Hc3 & Hc4 & _).
  pose proof (W3_bounds T u2 mu ltac:(lia) ltac:(lia) ltac:(lia)) as (Hm1 & Hm2 & Hm3 & Hm4 & _).
  destruct (Z.eq_dec mu 0) as [E0|E0].
  - subst mu. replace (0 + c) with c by lia. unfold Q3.
    assert (wl = 0) by lia. subst wl. lia.
  - assert (Hcm : c <= mu) by lia.
    assert (Hwc : W3 T u2 c <= 2 * (T - u2)) by (apply Hc3; lia).
    assert (Hwm : W3 T u2 mu <= 4 * (T - u2)) by (apply Hm4; lia).
    assert (Hwm' : mu <= p -> W3 T u2 mu <= 2 * (T - u2)) by (intros Hle; apply Hm3; lia).
    clear Hc3 Hc4 Hm3 Hm4.
    remember (W3 T u2 c) as wc eqn:Ewc. remember (W3 T u2 mu) as wm eqn:Ewm. clear Ewc Ewm.
    unfold Q3. destruct H3 as [H3|[H3|[H3|H3]]]; destruct Hmode as [M|M]; lia.
Qed.

Lemma Q4_R3 T L x p a b u2 y y' l wl : par4 T L x p a b u2 -> x <= l -> Q3 T L u2 y l wl -> R3 T L x u2 y' l wl.
Proof.
  intros Hp Hl (H1 & H2 & H3). pose proof (par4_facts _ _ _ _ _ _ _ Hp) as Hf. unfold par4 in Hp.
  pose proof (W3_bounds T u2 l ltac:(lia) ltac:(lia) ltac:(lia)) as Hw.
  split; [lia|].
  destruct (Z.le_gt_cases l L) as [HlL|HlL]; [|left; lia].
  destruct H3 as [H3|[H3|[H3|H3]]]; try lia.
  - destruct (Z.le_gt_cases u2 l) as [Hu|Hu]; [right; left; lia|].
    right; right. exists l. lia.
  - right; right. exists l. lia.
Qed.

Lemma R4_step T L x p a b u2 y mu c wl : par4 T L x p a b u2 ->
  mu <= L -> 0 <= c <= y -> c <= a -> mu + c <= T ->
  R3 T L x u2 y mu wl -> R3 T L x u2 c (mu + c) (wl + W3 T u2 c).
Proof.
  intros Hp Hmu Hc Hca Hle (H1 & H2). pose proof (par4_facts _ _ _ _ _ _ _ Hp) as Hf. unfold par4 in Hp.
  pose proof (W3_bounds T u2 c ltac:(lia) ltac:(lia) ltac:(lia)) as Hw.
  destruct H2 as [H2|[H2|(be & H2 & H3 & H4)]]; [lia| |].
  - split; [lia|]. right; left. lia.
  - split; [lia|]. right; right. exists be. lia.
Qed.

Lemma R4_step_over T L x p a b u2 y wl : par4 T L x p a b u2 -> 0 <= a ->
  R3 T L x u2 y x wl -> R3 T L x u2 a (x + a) (wl + W3 T u2 a).
Proof.
  intros Hp Ha (H1 & H2). pose proof (par4_facts _ _ _ _ _ _ _ Hp) as Hf. unfold par4 in Hp.
  pose proof (W3_bounds T u2 a ltac:(lia) ltac:(lia) ltac:(lia)) as Hw.
  split; [|left; lia].
  destruct H2 as [H2|[H2|(be & H2 & H3 & H4)]]; lia.
Qed.

Lemma R4_final T L x p a b u2 y wl : par4 T L x p a b u2 -> R3 T L x u2 y L wl -> wl < 6 * (T - u2).
Proof.
  intros Hp (H1 & H2). pose proof (par4_facts _ _ _ _ _ _ _ Hp) as Hf. unfold par4 in Hp.
  destruct H2 as [H2|[H2|(be & H2 & H3 & H4)]]; lia.
Qed.

(** ================= B. the decomposition of a run with an open step before the last overfull step ================= *)

Lemma k4_sides (R : list Z -> Z -> Prop) T k lA b lB a lC : (1 <= k)%nat ->
  StronglySorted (fun a b : Z => b <= a) ((lA ++ b :: lB) ++ a :: lC) ->
  Forall (fun v => 0 <= v) ((lA ++ b :: lB) ++ a :: lC) ->
  let gA := vgreedy lA (repeat 0 k) in let p := zmin gA in
  let gB := vgreedy lB (vstep gA b) in let x := zmin gB in
  let fin := vgreedy lC (vstep gB a) in let L := zmin fin in
  nstep R lA (repeat 0 k) ->
  opn L gA b -> nstep (opn L) lB (vstep gA b) -> over T gB a -> nstep (over T) lC (vstep gB a) ->
  (0 <= p <= x /\ x <= L /\ 0 <= a <= b /\ b <= p /\ p + b <= L /\ a <= x /\ T < x + a) /\
  allstep (side 0 p (fun c => b <= c) R) lA (repeat 0 k) /\
  allstep (side 0 x (fun c => a <= c <= b) (opn L)) lB (vstep gA b) /\
  allstep (side x L (fun c => 0 <= c <= a) (over T)) lC (vstep gB a).
Proof.
  intros Hk Hsort Hpos gA p gB x fin L HnA Hopn HnB Hov HnC.
  destruct (sorted_desc_app_inv (lA ++ b :: lB) a lC Hsort) as (Hs1 & Hge1 & HsC & HleC).
  destruct (sorted_desc_app_inv lA b lB Hs1) as (HsA & HgeA & HsB & HleB).
  apply Forall_app in Hpos. destruct Hpos as [Hpos1 HposaC].
  pose proof (Forall_inv HposaC) as Ha0. pose proof (Forall_inv_tail HposaC) as HposC. cbv beta in Ha0.
  apply Forall_app in Hpos1. destruct Hpos1 as [HposA HposbB].
  pose proof (Forall_inv HposbB) as Hb0. pose proof (Forall_inv_tail HposbB) as HposB. cbv beta in Hb0.
  apply Forall_app in Hge1. destruct Hge1 as [HaA HaB].
  pose proof (Forall_inv HaB) as Hab. pose proof (Forall_inv_tail HaB) as HaB'. cbv beta in Hab.
  assert (HgA : (1 <= length gA)%nat) by (unfold gA; rewrite vgreedy_length, repeat_length; exact Hk).
  assert (HgB0 : (1 <= length (vstep gA b))%nat) by (rewrite vstep_length; exact HgA).
  assert (HgB : (1 <= length gB)%nat) by (unfold gB; rewrite vgreedy_length; exact HgB0).
  assert (HgC0 : (1 <= length (vstep gB a))%nat) by (rewrite vstep_length; exact HgB).
  pose proof (init_zmin_nonneg k lA Hk HposA) as Hp0. fold gA in Hp0. fold p in Hp0.
  pose proof (vstep_zmin_ge gA b HgA Hb0) as Hm1. fold p in Hm1.
  pose proof (vgreedy_zmin_ge lB (vstep gA b) HgB0 HposB) as Hm2. fold gB in Hm2. fold x in Hm2.
  pose proof (vstep_zmin_ge gB a HgB Ha0) as Hm3. fold x in Hm3.
  pose proof (vgreedy_zmin_ge lC (vstep gB a) HgC0 HposC) as Hm4. fold fin in Hm4. fold L in Hm4.
  destruct Hopn as [Hbp Hpb]. fold p in Hbp, Hpb. destruct Hov as [Hax Hxa]. fold x in Hax, Hxa.
  split; [lia|]. split; [|split].
  - apply allstep_intro.
    + rewrite repeat_length. exact Hk.
    + eapply Forall_impl; [|exact (Forall_and HposA HgeA)]. intros c Hc. cbv beta in Hc |- *. lia.
    + exact HnA.
    + fold gA. fold p. lia.
    + rewrite zmin_repeat0. lia.
  - apply allstep_intro.
    + exact HgB0.
    + eapply Forall_impl; [|exact (Forall_and HaB' HleB)]. intros c Hc. cbv beta in Hc |- *. lia.
    + exact HnB.
    + fold gB. fold x. lia.
    + lia.
  - apply allstep_intro.
    + exact HgC0.
    + eapply Forall_impl; [|exact (Forall_and HposC HleC)]. intros c Hc. cbv beta in Hc |- *. lia.
    + exact HnC.
    + fold fin. fold L. lia.
    + lia.
Qed.

(** ================= C. the three-level staircase along such a run ================= *)

(** side condition before the last overfull step: up to the last open step the smallest load is at most p
    and the items are at least b; after it the items are at most p and no step is open *)
Definition SAB4 (L x p a b : Z) (g : list Z) (c : Z) : Prop :=
  0 <= zmin g <= x /\ a <= c /\ ((zmin g <= p /\ b <= c) \/ (c <= p /\ ~ opn L g c)).

Lemma k4_run T k lA b lB a lC : (1 <= k)%nat ->
  let l1 := lA ++ b :: lB in
  StronglySorted (fun a b : Z => b <= a) (l1 ++ a :: lC) -> Forall (fun v => 0 <= v) (l1 ++ a :: lC) ->
  let gA := vgreedy lA (repeat 0 k) in let p := zmin gA in
  let gB := vgreedy lB (vstep gA b) in let x := zmin gB in
  let fin := vgreedy lC (vstep gB a) in let L := zmin fin in
  let u2 := Z.max x (2 * p) in
  opn L gA b -> nstep (opn L) lB (vstep gA b) -> over T gB a -> nstep (over T) lC (vstep gB a) ->
  3 * T <= 4 * L -> 5 * L < 4 * T -> 4 * L - T < 2 * x + 2 * b ->
  par4 T L x p a b u2 /\
  exists t y, Forall2 (R3 T L x u2 y) fin t /\ zsum t = zsum (map (W3 T u2) (l1 ++ a :: lC)).
Proof.
  intros Hk l1 Hsort Hpos gA p gB x fin L u2 Hopn HnB Hov HnC H34 HLT Hstar.
  destruct (k4_sides RF T k lA b lB a lC Hk Hsort Hpos (nstep_RF lA _) Hopn HnB Hov HnC) as (Hb & HallA & HallB & HallC).
  fold gA in Hb, HallA, HallB, HallC. fold p in Hb, HallA, HallB, HallC.
  fold gB in Hb, HallA, HallB, HallC. fold x in Hb, HallA, HallB, HallC.
  fold fin in Hb, HallA, HallB, HallC. fold L in Hb, HallA, HallB, HallC.
  destruct (sorted_desc_app_inv l1 a lC Hsort) as (Hs1 & Hge1 & HsC & HleC).
  assert (HgA : (1 <= length gA)%nat) by (unfold gA; rewrite vgreedy_length, repeat_length; exact Hk).
  assert (HgB0 : (1 <= length (vstep gA b))%nat) by (rewrite vstep_length; exact HgA).
  assert (HgB : (1 <= length gB)%nat) by (unfold gB; rewrite vgreedy_length; exact HgB0).
  assert (HgC0 : (1 <= length (vstep gB a))%nat) by (rewrite vstep_length; exact HgB).
  assert (HL0 : 0 <= L) by lia.
  assert (Hp : par4 T L x p a b u2) by (unfold par4, u2; lia).
  split; [exact Hp|].
  assert (Hpos1 : Forall (fun v => 0 <= v) l1) by (apply Forall_app in Hpos; tauto).
  (* phases A and B *)
  assert (Hall : allstep (SAB4 L x p a b) l1 (repeat 0 k)).
  { unfold l1. apply allstep_app.
    - eapply allstep_impl; [|exact HallA]. intros g c (H1 & H2 & H3). cbv beta in H2. unfold SAB4. lia.
    - fold gA. split.
      + unfold SAB4. fold p. lia.
      + eapply allstep_impl; [|exact HallB]. intros g c (H1 & H2 & H3). cbv beta in H2. unfold SAB4.
        split; [lia|]. split; [lia|].
        right. split; [lia|exact H3]. }
  destruct (run_inv (Q3 T L u2) (W3 T u2) (SAB4 L x p a b)) with (l := l1) (g := repeat 0 k)
    (t := repeat 0 k) (y := zsum l1) as (t1 & y1 & Ht1 & Hsum1 & _ & _).
  { intros y c l wl. apply Q3_weak. }
  { intros g c y wl (H1 & H2 & H3) Hcy Hq. unfold opn in H3.
    apply (Q4_step T L x p a b u2 y); try assumption; lia. }
  { rewrite repeat_length. exact Hk. }
  { exact Hs1. }
  { apply Forall_forall. intros c Hc. apply in_le_zsum; assumption. }
  { exact Hall. }
  { apply Forall2_repeat. unfold Q3. pose proof (par4_facts _ _ _ _ _ _ _ Hp). lia. }
  unfold l1 in Ht1. rewrite vgreedy_app, vgreedy_cons in Ht1. fold gA in Ht1. fold gB in Ht1.
  rewrite zsum_repeat0 in Hsum1.
  assert (Ht1' : Forall2 (R3 T L x u2 a) gB t1).
  { apply (Forall2_impl_l (fun c => x <= c) (Q3 T L u2 y1)); [| |exact Ht1].
    - intros c d Hc Hq. eapply Q4_R3; eassumption.
    - apply zmin_le. }
  destruct (step_F2 (R3 T L x u2 a) (R3 T L x u2 a) gB t1 a (W3 T u2 a) HgB Ht1') as [HF Hs].
  { intros l0 wl Hq. exact Hq. }
  { intros wl Hq. fold x. eapply R4_step_over; [exact Hp|lia|exact Hq]. }
  destruct (run_inv (R3 T L x u2) (W3 T u2) (side x L (fun c => 0 <= c <= a) (over T))) with (l := lC) (g := vstep gB a)
    (t := update (argmin gB) (fun b0 => b0 + W3 T u2 a) t1) (y := a) as (t' & y' & Ht' & Hsum & _ & _).
  - intros y c l wl. apply R3_weak.
  - intros g c y wl (H1 & H2 & H3) Hcy Hq. cbv beta in H2. unfold over in H3.
    apply (R4_step T L x p a b u2 y); try assumption; lia.
  - exact HgC0.
  - exact HsC.
  - exact HleC.
  - exact HallC.
  - exact HF.
  - exists t', y'. fold fin in Ht'. split; [exact Ht'|].
    rewrite Hsum, Hs, Hsum1. rewrite (map_app (W3 T u2) l1), zsum_app. cbn [map].
    change (zsum (W3 T u2 a :: ?r)) with (W3 T u2 a + zsum r). lia.
Qed.

(** ================= D. the four-level staircase ================= *)

(** four-level staircase in doubled units, h the (doubled) step height, dd the (doubled) shift of the ramps *)
Definition S4 (h dd v : Z) : Z :=
  Z.min (2 * v) (Z.min (Z.max h (2 * v - dd)) (Z.min (Z.max (2 * h) (2 * v - 2 * dd))
        (Z.min (Z.max (3 * h) (2 * v - 3 * dd)) (4 * h)))).

Lemma S4_cases h dd v :
  S4 h dd v = 2 * v \/ S4 h dd v = Z.max h (2 * v - dd) \/
  S4 h dd v = Z.max (2 * h) (2 * v - 2 * dd) \/ S4 h dd v = Z.max (3 * h) (2 * v - 3 * dd) \/ S4 h dd v = 4 * h.
Proof.
  unfold S4.
  destruct (Z.min_spec (2 * v) (Z.min (Z.max h (2 * v - dd)) (Z.min (Z.max (2 * h) (2 * v - 2 * dd))
             (Z.min (Z.max (3 * h) (2 * v - 3 * dd)) (4 * h))))) as [[_ E]|[_ E]]; rewrite E; clear E;
    [left; reflexivity|right].
  destruct (Z.min_spec (Z.max h (2 * v - dd)) (Z.min (Z.max (2 * h) (2 * v - 2 * dd))
             (Z.min (Z.max (3 * h) (2 * v - 3 * dd)) (4 * h)))) as [[_ E]|[_ E]]; rewrite E; clear E;
    [left; reflexivity|right].
  destruct (Z.min_spec (Z.max (2 * h) (2 * v - 2 * dd)) (Z.min (Z.max (3 * h) (2 * v - 3 * dd)) (4 * h)))
    as [[_ E]|[_ E]]; rewrite E; clear E; [left; reflexivity|right].
  destruct (Z.min_spec (Z.max (3 * h) (2 * v - 3 * dd)) (4 * h)) as [[_ E]|[_ E]]; rewrite E; clear E;
    [left; reflexivity|right; reflexivity].
Qed.

Lemma S4_caps h dd v :
  S4 h dd v <= 2 * v /\ S4 h dd v <= Z.max h (2 * v - dd) /\
  S4 h dd v <= Z.max (2 * h) (2 * v - 2 * dd) /\ S4 h dd v <= Z.max (3 * h) (2 * v - 3 * dd) /\ S4 h dd v <= 4 * h.
Proof. unfold S4. lia. Qed.

Lemma S4_sub h dd p q : 0 <= h -> 0 <= dd -> 0 <= p -> 0 <= q ->
  S4 h dd (p + q) <= S4 h dd p + S4 h dd q.
Proof.
  intros Hh Hd Hp Hq.
  destruct (S4_caps h dd (p + q)) as (C1 & C2 & C3 & C4 & C5).
  generalize dependent (S4 h dd (p + q)). intros z C1 C2 C3 C4 C5.
  destruct (S4_cases h dd p) as [E|[E|[E|[E|E]]]]; rewrite E; clear E;
  destruct (S4_cases h dd q) as [E|[E|[E|[E|E]]]]; rewrite E; clear E; lia.
Qed.

(** period p / 2, step height T - 3 p / 2 (both doubled): a value up to p / 2 counts one level, up to p two,
    up to 3 p / 2 three, and T four; every set of values reaching T weighs at least four levels *)
Definition W4 (T p v : Z) : Z := S4 (2 * T - 3 * p) (4 * p - 2 * T) v.

Lemma W4_bounds T p v : 3 * p <= 2 * T -> T <= 2 * p -> 0 <= v ->
  0 <= W4 T p v <= 2 * v /\ W4 T p v <= 4 * (2 * T - 3 * p) /\
  (2 * v <= p -> W4 T p v <= 2 * T - 3 * p) /\
  (v <= p -> W4 T p v <= 2 * (2 * T - 3 * p)) /\
  (2 * v <= 3 * p -> W4 T p v <= 3 * (2 * T - 3 * p)) /\
  (3 * p <= 2 * v -> W4 T p v <= 2 * v - 3 * (4 * p - 2 * T)).
Proof. intros H1 H2 Hv. unfold W4, S4. lia. Qed.

Lemma W4_top T p v : 3 * p <= 2 * T -> T <= 2 * p -> T <= v -> W4 T p v = 4 * (2 * T - 3 * p).
Proof. intros H1 H2 Hv. unfold W4, S4. lia. Qed.

Definition VP4 (T p l wl : Z) : Prop := 0 <= l /\ W4 T p l <= wl.

Lemma VP4_total T p k vs s : 3 * p <= 2 * T -> T <= 2 * p -> Forall (fun v => 0 <= v) vs ->
  Attainable k vs s -> Forall (fun a => T <= a) s ->
  Z.of_nat k * (4 * (2 * T - 3 * p)) <= zsum (map (W4 T p) vs).
Proof.
  intros H1 H2 Hpos Hs HT.
  destruct (weights_along (VP4 T p) (W4 T p) k vs s) as (t & Ht & Hlen & Hsum).
  - unfold VP4, W4, S4. lia.
  - eapply Forall_impl; [|exact Hpos]. intros a Ha l wl [Hl Hw]. cbv beta in Ha. split; [lia|].
    pose proof (S4_sub (2 * T - 3 * p) (4 * p - 2 * T) l a ltac:(lia) ltac:(lia) Hl Ha) as Hsub.
    unfold W4 in *. lia.
  - exact Hs.
  - rewrite <- Hsum, <- Hlen. apply zsum_ge_bound.
    clear Hlen Hsum Hs. induction Ht as [|a b s t Hab Hst IH]; constructor.
    + pose proof (Forall_inv HT) as Ha. cbv beta in Ha. destruct Hab as [Hl Hw].
      rewrite (W4_top T p a H1 H2 Ha) in Hw. exact Hw.
    + apply IH. exact (Forall_inv_tail HT).
Qed.

(** x, a: the last overfull step; p, b: the last open step before it; ys, cs: a step before that one which
    closes a bin with a large excess *)
Definition par5 (T L x p a b ys cs : Z) : Prop :=
  x <= L /\ 0 <= L /\ 3 * T <= 4 * L /\ 5 * L < 4 * T /\ 0 < p <= x /\ a <= b <= p /\ p + b <= L /\
  T < x + a /\ cs <= ys <= p /\ b <= cs /\ 4 * L - T < 2 * (ys + cs).

Lemma par5_facts T L x p a b ys cs : par5 T L x p a b ys cs ->
  3 * p < 2 * T /\ T <= 2 * p /\ 2 * (L - ys) <= p /\ 2 * L <= 3 * p /\ 4 * (L - x) <= 2 * T - 3 * p /\
  L < T /\ L < 2 * cs /\ p < ys + b /\ 0 < a.
Proof. unfold par5. lia. Qed.

(** before the last overfull step: a bin is empty, closed (load above L), holds one item (weight W4 of its
    load), or holds an item at most p and one item at most p / 2 and is still open (three levels, load above p) *)
Definition QA (T L p y l wl : Z) : Prop :=
  0 <= wl <= 4 * (2 * T - 3 * p) /\ (l = 0 \/ y <= l) /\
  ((l = 0 /\ wl = 0) \/ L < l \/ wl <= W4 T p l \/ (p < l /\ wl <= 3 * (2 * T - 3 * p))).

Lemma QA_weak T L p y c l wl : c <= y -> QA T L p y l wl -> QA T L p c l wl.
Proof. unfold QA. lia. Qed.

Lemma QA_step T L x p a b ys cs y mu c wl : par5 T L x p a b ys cs ->
  ((mu <= ys /\ cs <= c) \/ (ys <= mu <= p /\ b <= c <= cs) \/ (c <= b /\ ~ (c <= mu /\ mu + c <= L))) ->
  0 <= mu <= x -> a <= c <= y ->
  QA T L p y mu wl -> QA T L p c (mu + c) (wl + W4 T p c).
Proof.
  intros Hp Hmode Hmu Hc (H1 & H2 & H3). pose proof (par5_facts _ _ _ _ _ _ _ _ Hp) as Hf.
  unfold par5 in Hp.
  pose proof (W4_bounds T p c ltac:(lia) ltac:(lia) ltac:(lia)) as (Hc1 & Hc2 & Hc3 & Hc4 & _).
  pose proof (W4_bounds T p mu ltac:(lia) ltac:(lia) ltac:(lia)) as (Hm1 & Hm2 & _ & Hm4 & Hm5 & _).
  destruct (Z.eq_dec mu 0) as [E0|E0].
  - subst mu. replace (0 + c) with c by lia. unfold QA.
    assert (wl = 0) by lia. subst wl. lia.
  - assert (Hcm : c <= mu) by lia.
    assert (Hwc2 : W4 T p c <= 2 * (2 * T - 3 * p)) by (apply Hc4; lia).
    assert (Hwc1 : 2 * c <= p -> W4 T p c <= 2 * T - 3 * p) by exact Hc3.
    assert (Hwm3 : W4 T p mu <= 3 * (2 * T - 3 * p)) by (apply Hm5; lia).
    assert (Hwm2 : mu <= p -> W4 T p mu <= 2 * (2 * T - 3 * p)) by exact Hm4.
    clear Hc3 Hc4 Hm4 Hm5.
    remember (W4 T p c) as wc eqn:Ewc. remember (W4 T p mu) as wm eqn:Ewm. clear Ewc Ewm.
    unfold QA. destruct H3 as [H3|[H3|[H3|H3]]]; destruct Hmode as [M|[M|M]]; lia.
Qed.

(** from the last overfull step on: a bin is closed, or its weight is twice its load minus three shifts (it
    started from one item of at least 3 p / 2), or it weighed at most three levels at load be >= x and has
    since received l - be in items, each at least y if any *)
Definition RC (T L x p y l wl : Z) : Prop :=
  wl <= 4 * (2 * T - 3 * p) /\
  (L < l \/ wl <= 2 * l - 3 * (4 * p - 2 * T) \/
   exists be, x <= be <= l /\ wl <= 3 * (2 * T - 3 * p) + 2 * (l - be) /\ (l = be \/ y <= l - be)).

Lemma RC_weak T L x p y c l wl : c <= y -> RC T L x p y l wl -> RC T L x p c l wl.
Proof.
  intros Hc (H1 & [H2|[H2|(be & H2 & H3 & H4)]]); split; try assumption; [left|right;left|right;right]; try assumption.
  exists be. lia.
Qed.

Lemma QA_RC T L x p a b ys cs y y' l wl : par5 T L x p a b ys cs -> x <= l ->
  QA T L p y l wl -> RC T L x p y' l wl.
Proof.
  intros Hp Hl (H1 & H2 & H3). pose proof (par5_facts _ _ _ _ _ _ _ _ Hp) as Hf. unfold par5 in Hp.
  pose proof (W4_bounds T p l ltac:(lia) ltac:(lia) ltac:(lia)) as Hw.
  split; [lia|].
  destruct (Z.le_gt_cases l L) as [HlL|HlL]; [|left; lia].
  destruct H3 as [H3|[H3|[H3|H3]]]; try lia.
  - destruct (Z.le_gt_cases (3 * p) (2 * l)) as [Hu|Hu]; [right; left; lia|].
    right; right. exists l. lia.
  - right; right. exists l. lia.
Qed.

Lemma RC_step T L x p a b ys cs y mu c wl : par5 T L x p a b ys cs ->
  mu <= L -> 0 <= c <= y -> c <= a -> mu + c <= T ->
  RC T L x p y mu wl -> RC T L x p c (mu + c) (wl + W4 T p c).
Proof.
  intros Hp Hmu Hc Hca Hle (H1 & H2). pose proof (par5_facts _ _ _ _ _ _ _ _ Hp) as Hf. unfold par5 in Hp.
  pose proof (W4_bounds T p c ltac:(lia) ltac:(lia) ltac:(lia)) as Hw.
  destruct H2 as [H2|[H2|(be & H2 & H3 & H4)]]; [lia| |].
  - split; [lia|]. right; left. lia.
  - split; [lia|]. right; right. exists be. lia.
Qed.

Lemma RC_step_over T L x p a b ys cs y wl : par5 T L x p a b ys cs ->
  RC T L x p y x wl -> RC T L x p a (x + a) (wl + W4 T p a).
Proof.
  intros Hp (H1 & H2). pose proof (par5_facts _ _ _ _ _ _ _ _ Hp) as Hf. unfold par5 in Hp.
  pose proof (W4_bounds T p a ltac:(lia) ltac:(lia) ltac:(lia)) as Hw.
  split; [|left; lia].
  destruct H2 as [H2|[H2|(be & H2 & H3 & H4)]]; lia.
Qed.

Lemma RC_final T L x p a b ys cs y wl : par5 T L x p a b ys cs -> RC T L x p y L wl ->
  wl < 4 * (2 * T - 3 * p).
Proof.
  intros Hp (H1 & H2). pose proof (par5_facts _ _ _ _ _ _ _ _ Hp) as Hf. unfold par5 in Hp.
  destruct H2 as [H2|[H2|(be & H2 & H3 & H4)]]; lia.
Qed.

(** a step that lands on a bin at least as large as the item and leaves it with a large excess *)
Definition bigov (T L : Z) (g : list Z) (c : Z) : Prop := c <= zmin g /\ 4 * L - T < 2 * (zmin g + c).

Lemma bigov_dec T L g c : bigov T L g c \/ ~ bigov T L g c.
Proof. unfold bigov. lia. Qed.

(** the part of the run before the last open step, split at a step with a large excess *)
Lemma k5_sidesA k lA1 cs lA2 b : (1 <= k)%nat ->
  StronglySorted (fun a b : Z => b <= a) (lA1 ++ cs :: lA2) ->
  Forall (fun v => 0 <= v) (lA1 ++ cs :: lA2) -> Forall (fun c => b <= c) (lA1 ++ cs :: lA2) ->
  let gA1 := vgreedy lA1 (repeat 0 k) in let ys := zmin gA1 in
  let gA := vgreedy lA2 (vstep gA1 cs) in let p := zmin gA in
  0 <= ys <= p /\
  allstep (side 0 ys (fun c => cs <= c) RF) lA1 (repeat 0 k) /\
  allstep (side ys p (fun c => b <= c <= cs) RF) lA2 (vstep gA1 cs).
Proof.
  intros Hk Hsort Hpos Hb gA1 ys gA p.
  destruct (sorted_desc_app_inv lA1 cs lA2 Hsort) as (Hs1 & Hge1 & Hs2 & Hle2).
  apply Forall_app in Hpos. destruct Hpos as [Hpos1 Hpos2].
  pose proof (Forall_inv Hpos2) as Hc0. pose proof (Forall_inv_tail Hpos2) as Hpos2'. cbv beta in Hc0.
  apply Forall_app in Hb. destruct Hb as [_ Hb2]. pose proof (Forall_inv_tail Hb2) as Hb2'.
  assert (Hg1 : (1 <= length gA1)%nat) by (unfold gA1; rewrite vgreedy_length, repeat_length; exact Hk).
  assert (Hg2 : (1 <= length (vstep gA1 cs))%nat) by (rewrite vstep_length; exact Hg1).
  pose proof (init_zmin_nonneg k lA1 Hk Hpos1) as Hy0. fold gA1 in Hy0. fold ys in Hy0.
  pose proof (vstep_zmin_ge gA1 cs Hg1 Hc0) as Hm1. fold ys in Hm1.
  pose proof (vgreedy_zmin_ge lA2 (vstep gA1 cs) Hg2 Hpos2') as Hm2. fold gA in Hm2. fold p in Hm2.
  split; [lia|]. split.
  - apply allstep_intro.
    + rewrite repeat_length. exact Hk.
    + eapply Forall_impl; [|exact (Forall_and Hpos1 Hge1)]. intros c Hc. cbv beta in Hc |- *. lia.
    + apply nstep_RF.
    + fold gA1. fold ys. lia.
    + rewrite zmin_repeat0. lia.
  - apply allstep_intro.
    + exact Hg2.
    + eapply Forall_impl; [|exact (Forall_and Hpos2' (Forall_and Hb2' Hle2))]. intros c Hc. cbv beta in Hc |- *. lia.
    + apply nstep_RF.
    + fold gA. fold p. lia.
    + lia.
Qed.

(** side condition before the last overfull step *)
Definition SQ (L x p a b ys cs : Z) (g : list Z) (c : Z) : Prop :=
  0 <= zmin g <= x /\ a <= c /\
  ((zmin g <= ys /\ cs <= c) \/ (ys <= zmin g <= p /\ b <= c <= cs) \/ (c <= b /\ ~ opn L g c)).

Lemma k5_run T k lA1 cs lA2 b lB a lC : (1 <= k)%nat ->
  let lA := lA1 ++ cs :: lA2 in let l1 := lA ++ b :: lB in
  StronglySorted (fun a b : Z => b <= a) (l1 ++ a :: lC) -> Forall (fun v => 0 <= v) (l1 ++ a :: lC) ->
  let gA1 := vgreedy lA1 (repeat 0 k) in let ys := zmin gA1 in
  let gA := vgreedy lA2 (vstep gA1 cs) in let p := zmin gA in
  let gB := vgreedy lB (vstep gA b) in let x := zmin gB in
  let fin := vgreedy lC (vstep gB a) in let L := zmin fin in
  opn L gA b -> nstep (opn L) lB (vstep gA b) -> over T gB a -> nstep (over T) lC (vstep gB a) ->
  bigov T L gA1 cs -> 3 * T <= 4 * L -> 5 * L < 4 * T ->
  par5 T L x p a b ys cs /\
  exists t y, Forall2 (RC T L x p y) fin t /\ zsum t = zsum (map (W4 T p) (l1 ++ a :: lC)).
Proof.
  intros Hk lA l1 Hsort Hpos gA1 ys gA p gB x fin L Hopn HnB Hov HnC Hbo H34 H54.
  assert (EA : vgreedy lA (repeat 0 k) = gA).
  { unfold lA, gA, gA1. rewrite vgreedy_app, vgreedy_cons. reflexivity. }
  pose proof (k4_sides RF T k lA b lB a lC Hk Hsort Hpos (nstep_RF lA _)) as Hsd. cbv zeta in Hsd. rewrite EA in Hsd.
  fold p in Hsd. fold gB in Hsd. fold x in Hsd. fold fin in Hsd. fold L in Hsd.
  destruct (Hsd Hopn HnB Hov HnC) as (Hb & _ & HallB & HallC). clear Hsd.
  destruct (sorted_desc_app_inv l1 a lC Hsort) as (Hs1 & Hge1 & HsC & HleC).
  destruct (sorted_desc_app_inv lA b lB Hs1) as (HsA & HgeA & HsB & HleB).
  assert (Hpos1 : Forall (fun v => 0 <= v) l1) by (apply Forall_app in Hpos; tauto).
  assert (HposA : Forall (fun v => 0 <= v) lA) by (apply Forall_app in Hpos1; tauto).
  destruct (k5_sidesA k lA1 cs lA2 b Hk HsA HposA HgeA) as (Hys & HallA1 & HallA2).
  fold gA1 in Hys, HallA1, HallA2. fold ys in Hys, HallA1, HallA2. fold gA in Hys, HallA2. fold p in Hys, HallA2.
  assert (Hcsb : b <= cs).
  { apply Forall_app in HgeA. destruct HgeA as [_ H]. exact (Forall_inv H). }
  destruct Hbo as [Hbo1 Hbo2]. fold ys in Hbo1, Hbo2.
  assert (HgA1 : (1 <= length gA1)%nat) by (unfold gA1; rewrite vgreedy_length, repeat_length; exact Hk).
  assert (HgA : (1 <= length gA)%nat) by (unfold gA; rewrite vgreedy_length, vstep_length; exact HgA1).
  assert (HgB0 : (1 <= length (vstep gA b))%nat) by (rewrite vstep_length; exact HgA).
  assert (HgB : (1 <= length gB)%nat) by (unfold gB; rewrite vgreedy_length; exact HgB0).
  assert (HgC0 : (1 <= length (vstep gB a))%nat) by (rewrite vstep_length; exact HgB).
  assert (Hp : par5 T L x p a b ys cs) by (unfold par5; lia).
  split; [exact Hp|].
  pose proof (par5_facts _ _ _ _ _ _ _ _ Hp) as Hf.
  (* everything before the last overfull step *)
  assert (Hall : allstep (SQ L x p a b ys cs) l1 (repeat 0 k)).
  { unfold l1. apply allstep_app; [unfold lA; apply allstep_app|].
    - eapply allstep_impl; [|exact HallA1]. intros g c (H1 & H2 & H3). cbv beta in H2. unfold SQ. lia.
    - fold gA1. split.
      + unfold SQ. fold ys. lia.
      + eapply allstep_impl; [|exact HallA2]. intros g c (H1 & H2 & H3). cbv beta in H2. unfold SQ. lia.
    - fold lA. rewrite EA. split.
      + unfold SQ. fold p. lia.
      + eapply allstep_impl; [|exact HallB]. intros g c (H1 & H2 & H3). cbv beta in H2. unfold SQ.
        split; [lia|]. split; [lia|]. right; right. split; [lia|exact H3]. }
  destruct (run_inv (QA T L p) (W4 T p) (SQ L x p a b ys cs)) with (l := l1) (g := repeat 0 k)
    (t := repeat 0 k) (y := zsum l1) as (t1 & y1 & Ht1 & Hsum1 & _ & _).
  { intros y c l wl. apply QA_weak. }
  { intros g c y wl (H1 & H2 & H3) Hcy Hq. unfold opn in H3.
    apply (QA_step T L x p a b ys cs y); try assumption; lia. }
  { rewrite repeat_length. exact Hk. }
  { exact Hs1. }
  { apply Forall_forall. intros c Hc. apply in_le_zsum; assumption. }
  { exact Hall. }
  { apply Forall2_repeat. unfold QA. lia. }
  unfold l1 in Ht1. rewrite vgreedy_app, vgreedy_cons in Ht1. fold lA in Ht1. rewrite EA in Ht1. fold gB in Ht1.
  rewrite zsum_repeat0 in Hsum1.
  assert (Ht1' : Forall2 (RC T L x p a) gB t1).
  { apply (Forall2_impl_l (fun c => x <= c) (QA T L p y1)); [| |exact Ht1].
    - intros c d Hc Hq. eapply QA_RC; eassumption.
    - apply zmin_le. }
  destruct (step_F2 (RC T L x p a) (RC T L x p a) gB t1 a (W4 T p a) HgB Ht1') as [HF Hs].
  { intros l0 wl Hq. exact Hq. }
  { intros wl Hq. fold x. eapply RC_step_over; [exact Hp|exact Hq]. }
  destruct (run_inv (RC T L x p) (W4 T p) (side x L (fun c => 0 <= c <= a) (over T))) with (l := lC) (g := vstep gB a)
    (t := update (argmin gB) (fun b0 => b0 + W4 T p a) t1) (y := a) as (t' & y' & Ht' & Hsum & _ & _).
  - intros y c l wl. apply RC_weak.
  - intros g c y wl (H1 & H2 & H3) Hcy Hq. cbv beta in H2. unfold over in H3.
    apply (RC_step T L x p a b ys cs y); try assumption; lia.
  - exact HgC0.
  - exact HsC.
  - exact HleC.
  - exact HallC.
  - exact HF.
  - exists t', y'. fold fin in Ht'. split; [exact Ht'|].
    rewrite Hsum, Hs, Hsum1. rewrite (map_app (W4 T p) l1), zsum_app. cbn [map].
    change (zsum (W4 T p a :: ?r)) with (W4 T p a + zsum r). lia.
Qed.

(** ================= E. the capped total when no step has a large excess ================= *)

(** values capped at T: a bin weighs at most its load, and at most T unless its load is at most (4L - T)/2 *)
Definition IS2 (T L y l wl : Z) : Prop :=
  0 <= wl <= l /\ (l = 0 \/ y <= l) /\ (wl <= T \/ 2 * l <= 4 * L - T).

Definition SS2 (T L x b : Z) (g : list Z) (c : Z) : Prop :=
  0 <= c /\ 0 <= zmin g /\ (~ bigov T L g c \/ (zmin g <= x /\ c <= b) \/ zmin g + c <= T).

Lemma IS2_step T L x b y mu c wl : 0 <= T -> 2 * x + 2 * b <= 4 * L - T -> 0 <= c <= y -> 0 <= mu ->
  (~ (c <= mu /\ 4 * L - T < 2 * (mu + c)) \/ (mu <= x /\ c <= b) \/ mu + c <= T) ->
  IS2 T L y mu wl -> IS2 T L c (mu + c) (wl + cap T c).
Proof. intros HT HA Hc Hmu Hmode (H1 & H2 & H3). unfold IS2, cap. lia. Qed.

Lemma k6_sum T k lA b lB a lC : (1 <= k)%nat -> 0 <= T ->
  let l1 := lA ++ b :: lB in
  StronglySorted (fun a b : Z => b <= a) (l1 ++ a :: lC) -> Forall (fun v => 0 <= v) (l1 ++ a :: lC) ->
  let gA := vgreedy lA (repeat 0 k) in let p := zmin gA in
  let gB := vgreedy lB (vstep gA b) in let x := zmin gB in
  let fin := vgreedy lC (vstep gB a) in let L := zmin fin in
  nstep (bigov T L) lA (repeat 0 k) ->
  opn L gA b -> nstep (opn L) lB (vstep gA b) -> over T gB a -> nstep (over T) lC (vstep gB a) ->
  2 * x + 2 * b <= 4 * L - T ->
  exists t y, Forall2 (IS2 T L y) fin t /\ zsum t = zsum (map (cap T) (l1 ++ a :: lC)).
Proof.
  intros Hk HT l1 Hsort Hpos gA p gB x fin L HnA Hopn HnB Hov HnC HA.
  destruct (k4_sides (bigov T L) T k lA b lB a lC Hk Hsort Hpos HnA Hopn HnB Hov HnC) as (Hb & HallA & HallB & HallC).
  fold gA in Hb, HallA, HallB, HallC. fold p in Hb, HallA, HallB, HallC.
  fold gB in Hb, HallA, HallB, HallC. fold x in Hb, HallA, HallB, HallC.
  fold fin in Hb, HallA, HallB, HallC. fold L in Hb, HallA, HallB, HallC.
  assert (Hall : allstep (SS2 T L x b) (l1 ++ a :: lC) (repeat 0 k)).
  { apply allstep_app; [unfold l1; apply allstep_app|].
    - eapply allstep_impl; [|exact HallA]. intros g c (H1 & H2 & H3). cbv beta in H2. unfold SS2.
      split; [lia|]. split; [lia|]. left. exact H3.
    - fold gA. split.
      + unfold SS2. fold p. lia.
      + eapply allstep_impl; [|exact HallB]. intros g c (H1 & H2 & H3). cbv beta in H2. unfold SS2. lia.
    - unfold l1. rewrite vgreedy_app, vgreedy_cons. fold gA. fold gB. split.
      + unfold SS2. fold x. lia.
      + eapply allstep_impl; [|exact HallC]. intros g c (H1 & H2 & H3). cbv beta in H2. unfold over in H3.
        unfold SS2. lia. }
  destruct (run_inv (IS2 T L) (cap T) (SS2 T L x b)) with (l := l1 ++ a :: lC) (g := repeat 0 k)
    (t := repeat 0 k) (y := zsum (l1 ++ a :: lC)) as (t' & y' & Ht' & Hsum & _ & _).
  - intros y c l wl Hc Hq. unfold IS2 in *. lia.
  - intros g c y wl (H1 & H2 & H3) Hcy Hq. unfold bigov in H3.
    apply (IS2_step T L x b y); try assumption; lia.
  - rewrite repeat_length. exact Hk.
  - exact Hsort.
  - apply Forall_forall. intros c Hc. apply in_le_zsum; assumption.
  - exact Hall.
  - apply Forall2_repeat. unfold IS2. lia.
  - exists t', y'. rewrite vgreedy_app, vgreedy_cons in Ht'. unfold l1 in Ht'.
    rewrite vgreedy_app, vgreedy_cons in Ht'. fold gA in Ht'. fold gB in Ht'. fold fin in Ht'.
    split; [exact Ht'|]. rewrite Hsum, zsum_repeat0. lia.
Qed.

(** twice the sum: one entry is at most a/2, all the others at most m/2 *)
Lemma zsum2_le_one_plus_rest a m l i : (i < length l)%nat -> 2 * nth i l 0 <= a ->
  Forall (fun y => 2 * y <= m) l -> 2 * zsum l <= a + (Z.of_nat (length l) - 1) * m.
Proof.
  revert i. induction l as [|y t IH]; intros [|i] Hi Ha Hm; simpl in Hi; try lia;
    inversion Hm as [|y' t' Hy Ht]; subst; simpl zsum; simpl length; simpl nth in Ha.
  - assert (H : 2 * zsum t <= Z.of_nat (length t) * m).
    { clear - Ht. induction Ht as [|z t Hz Ht IH]; simpl zsum; simpl length; lia. }
    lia.
  - specialize (IH i ltac:(lia) Ha Ht). lia.
Qed.

(** ================= F. (3k-1) * OPTmin <= (4k-2) * LPTmin ================= *)

Theorem lpt_min_exact_values k : (1 <= k)%nat -> forall l s,
  StronglySorted (fun a b : Z => b <= a) l -> Forall (fun v => 0 <= v) l -> Attainable k l s ->
  (3 * Z.of_nat k - 1) * zmin s <= (4 * Z.of_nat k - 2) * zmin (vgreedy l (repeat 0 k)).
Proof.
  intros Hk l s Hsort Hpos Hs.
  destruct (le_lt_dec k 2) as [Hk2|Hk3].
  { (* one or two bins *)
    assert (Hk12 : k = 1%nat \/ k = 2%nat) by lia. destruct Hk12 as [E|E]; subst k.
    - pose proof (lpt_min_half_values 1 ltac:(lia) l s Hsort Hpos Hs) as H. change (Z.of_nat 1) with 1 in *. lia.
    - pose proof (lpt_min_two_values l s Hsort Hpos Hs) as H. change (Z.of_nat 2) with 2. lia. }
  set (T := zmin s). set (g := vgreedy l (repeat 0 k)). set (L := zmin g).
  set (K := Z.of_nat k). assert (HK : 3 <= K) by (unfold K; lia).
  destruct (Z.le_gt_cases ((3 * K - 1) * T) ((4 * K - 2) * L)) as [Hle|Hgt]; [exact Hle|exfalso].
  assert (Hg : length g = k) by (unfold g; rewrite vgreedy_length; apply repeat_length).
  pose proof (init_zmin_nonneg k l Hk Hpos) as HL0. fold g in HL0. fold L in HL0.
  pose proof (lpt_min_34_values k Hk l s Hsort Hpos Hs) as H34. fold T in H34. fold g in H34. fold L in H34.
  assert (H54 : 5 * L < 4 * T) by nia.
  assert (HsT : Forall (fun a => T <= a) s) by apply zmin_le.
  assert (Hi : (argmin g < length g)%nat) by (apply argmin_lt; lia).
  (* the capped total of the values reaches k T *)
  assert (Hcap : K * T <= zsum (map (cap T) l)).
  { destruct (SP_run T k l s ltac:(lia) Hpos Hs) as (t' & Ht' & Hlen' & Hsum').
    pose proof (zsum_ge_bound _ _ (Forall2_ge_min T s t' HsT Ht')) as Hdown.
    rewrite Hlen' in Hdown. fold K in Hdown. lia. }
  destruct (last_step (over T) (over_dec T) l (repeat 0 k)) as [Hn|(l1 & a & lC & El & Hov & HnC)].
  - (* no overfull step *)
    destruct (k1_run T k l Hk ltac:(lia) Hsort Hpos Hn) as (t & Ht & Hsum). fold g in Ht.
    pose proof (Forall2_length_eq _ _ _ Ht) as Hlt.
    pose proof (Forall2_nth _ 0 0 g t Ht (argmin g) Hi) as Hb. cbv beta in Hb.
    rewrite argmin_is_zmin in Hb by lia. fold L in Hb.
    assert (HtT : Forall (fun b => b <= T) t).
    { apply (Forall2_Forall_r (fun l wl : Z => wl <= T /\ wl <= l) (fun b => b <= T)) with (s := g); [|exact Ht].
      intros c b Hcb. cbv beta in Hcb. lia. }
    pose proof (zsum_le_one_plus_rest L T t (argmin g) ltac:(lia) ltac:(lia) HtT) as Hup.
    rewrite <- Hlt, Hg in Hup. fold K in Hup. lia.
  - subst l.
    assert (EL : L = zmin (vgreedy lC (vstep (vgreedy l1 (repeat 0 k)) a))).
    { unfold L, g. rewrite vgreedy_app, vgreedy_cons. reflexivity. }
    assert (Eg : g = vgreedy lC (vstep (vgreedy l1 (repeat 0 k)) a)).
    { unfold g. rewrite vgreedy_app, vgreedy_cons. reflexivity. }
    destruct (last_step (opn L) (opn_dec L) l1 (repeat 0 k)) as [Hn1|(lA & b & lB & El1 & Hopn & HnB)].
    + (* every pairing before the last overfull step closes its bin *)
      rewrite EL in Hn1.
      destruct (k2_run T k l1 a lC Hk Hsort Hpos Hn1 Hov HnC ltac:(rewrite <- EL; lia)) as (Hp & t & Ht & Hsum).
      rewrite <- EL in Hp, Ht. rewrite <- Eg in Ht.
      set (x := zmin (vgreedy l1 (repeat 0 k))) in *. unfold par2 in Hp.
      pose proof (Forall2_length_eq _ _ _ Ht) as Hlt.
      pose proof (Forall2_nth _ 0 0 g t Ht (argmin g) Hi) as Hb.
      rewrite argmin_is_zmin in Hb by lia. fold L in Hb. unfold P2 in Hb.
      assert (HtD : Forall (fun b => b <= 2 * (T - x)) t).
      { apply (Forall2_Forall_r (P2 T x L) (fun b => b <= 2 * (T - x))) with (s := g); [|exact Ht].
        intros c d Hcd. unfold P2 in Hcd. lia. }
      pose proof (zsum_le_one_plus_rest (L + (T - x) - x) (2 * (T - x)) t (argmin g) ltac:(lia) ltac:(lia) HtD) as Hup.
      rewrite <- Hlt, Hg in Hup. fold K in Hup.
      pose proof (VP_total T x k _ s ltac:(lia) ltac:(lia) Hpos Hs HsT) as Hdown. fold K in Hdown.
      rewrite Hsum in Hup. lia.
    + (* some pairing before it leaves its bin open *)
      subst l1.
      assert (EAB : vgreedy (lA ++ b :: lB) (repeat 0 k) = vgreedy lB (vstep (vgreedy lA (repeat 0 k)) b))
        by (rewrite vgreedy_app, vgreedy_cons; reflexivity).
      rewrite EAB in EL, Eg, HnC, Hov. rewrite EL in Hopn, HnB.
      set (x := zmin (vgreedy lB (vstep (vgreedy lA (repeat 0 k)) b))) in *.
      destruct (Z.lt_ge_cases (4 * L - T) (2 * x + 2 * b)) as [HA|HA].
      * (* large excess of the last overfull step: three levels *)
        destruct (k4_run T k lA b lB a lC Hk Hsort Hpos Hopn HnB Hov HnC ltac:(rewrite <- EL; lia)
                    ltac:(rewrite <- EL; lia) ltac:(rewrite <- EL; exact HA)) as (Hp & t & y & Ht & Hsum).
        rewrite <- EL in Hp, Ht. rewrite <- Eg in Ht. fold x in Hp, Ht, Hsum.
        set (p := zmin (vgreedy lA (repeat 0 k))) in *.
        set (u2 := Z.max x (2 * p)) in *.
        pose proof (par4_facts _ _ _ _ _ _ _ Hp) as Hf.
        pose proof (Forall2_length_eq _ _ _ Ht) as Hlt.
        pose proof (Forall2_nth _ 0 0 g t Ht (argmin g) Hi) as Hb.
        rewrite argmin_is_zmin in Hb by lia. fold L in Hb.
        pose proof (R4_final _ _ _ _ _ _ _ _ _ Hp Hb) as Hb'.
        assert (HtD : Forall (fun b => b <= 6 * (T - u2)) t).
        { apply (Forall2_Forall_r (R3 T L x u2 y) (fun b => b <= 6 * (T - u2))) with (s := g); [|exact Ht].
          intros c d Hcd. unfold R3 in Hcd. lia. }
        pose proof (zsum_le_one_plus_rest (6 * (T - u2) - 1) (6 * (T - u2)) t (argmin g) ltac:(lia) ltac:(lia) HtD) as Hup.
        rewrite <- Hlt, Hg in Hup. fold K in Hup.
        pose proof (VP3_total T u2 k _ s ltac:(lia) ltac:(lia) Hpos Hs HsT) as Hdown. fold K in Hdown.
        rewrite Hsum in Hup. lia.
      * destruct (last_step (bigov T L) (bigov_dec T L) lA (repeat 0 k)) as [HnA|(lA1 & cs & lA2 & ElA & Hbo & _)].
        -- (* no step with a large excess: the capped total is too small *)
           rewrite EL in HnA.
           destruct (k6_sum T k lA b lB a lC Hk ltac:(lia) Hsort Hpos HnA Hopn HnB Hov HnC
                       ltac:(rewrite <- EL; fold x; lia)) as (t & y & Ht & Hsum).
           rewrite <- EL in Ht. rewrite <- Eg in Ht.
           pose proof (Forall2_length_eq _ _ _ Ht) as Hlt.
           pose proof (Forall2_nth _ 0 0 g t Ht (argmin g) Hi) as (Hb & _ & _).
           rewrite argmin_is_zmin in Hb by lia. fold L in Hb.
           set (M := Z.max (2 * T) (4 * L - T)).
           assert (HtM : Forall (fun v => 2 * v <= M) t).
           { apply (Forall2_Forall_r (IS2 T L y) (fun v => 2 * v <= M)) with (s := g); [|exact Ht].
             intros c d (H1 & H2 & H3). unfold M. lia. }
           pose proof (zsum2_le_one_plus_rest (2 * L) M t (argmin g) ltac:(lia) ltac:(lia) HtM) as Hup.
           rewrite <- Hlt, Hg in Hup. fold K in Hup. rewrite Hsum in Hup.
           destruct (Z.max_spec (2 * T) (4 * L - T)) as [[Hc E]|[Hc E]]; fold M in E; rewrite E in Hup; nia.
        -- (* a step with a large excess before the last open step: four levels *)
           subst lA.
           assert (EA : vgreedy (lA1 ++ cs :: lA2) (repeat 0 k) = vgreedy lA2 (vstep (vgreedy lA1 (repeat 0 k)) cs))
             by (rewrite vgreedy_app, vgreedy_cons; reflexivity).
           unfold x in *. clear x. rewrite EA in EL, Eg, HnC, Hov, Hopn, HnB, HA. rewrite EL in Hbo.
           destruct (k5_run T k lA1 cs lA2 b lB a lC Hk Hsort Hpos Hopn HnB Hov HnC Hbo
                       ltac:(rewrite <- EL; lia) ltac:(rewrite <- EL; lia)) as (Hp & t & y & Ht & Hsum).
           rewrite <- EL in Hp, Ht. rewrite <- Eg in Ht.
           set (x := zmin (vgreedy lB (vstep (vgreedy lA2 (vstep (vgreedy lA1 (repeat 0 k)) cs)) b))) in *.
           set (p := zmin (vgreedy lA2 (vstep (vgreedy lA1 (repeat 0 k)) cs))) in *.
           set (ys := zmin (vgreedy lA1 (repeat 0 k))) in *.
           pose proof (par5_facts _ _ _ _ _ _ _ _ Hp) as Hf.
           pose proof (Forall2_length_eq _ _ _ Ht) as Hlt.
           pose proof (Forall2_nth _ 0 0 g t Ht (argmin g) Hi) as Hb.
           rewrite argmin_is_zmin in Hb by lia. fold L in Hb.
           pose proof (RC_final _ _ _ _ _ _ _ _ _ _ Hp Hb) as Hb'.
           assert (HtD : Forall (fun b => b <= 4 * (2 * T - 3 * p)) t).
           { apply (Forall2_Forall_r (RC T L x p y) (fun b => b <= 4 * (2 * T - 3 * p))) with (s := g); [|exact Ht].
             intros c d Hcd. unfold RC in Hcd. lia. }
           pose proof (zsum_le_one_plus_rest (4 * (2 * T - 3 * p) - 1) (4 * (2 * T - 3 * p)) t (argmin g)
                         ltac:(lia) ltac:(lia) HtD) as Hup.
           rewrite <- Hlt, Hg in Hup. fold K in Hup.
           pose proof (VP4_total T p k _ s ltac:(lia) ltac:(lia) Hpos Hs HsT) as Hdown. fold K in Hdown.
           rewrite Hsum in Hup. lia.
Qed.

(** ================= G. item level ================= *)

Section MinExact.
  Context {A : Type} (valueof : A -> Z) (keep : bool).

  (** greedy against any way of distributing the values over k bins *)
  Theorem lpt_min_exact_attainable k items s : (1 <= k)%nat ->
    Forall (fun x => 0 <= valueof x) items -> Attainable k (map valueof items) s ->
    (3 * Z.of_nat k - 1) * zmin s <= (4 * Z.of_nat k - 2) * zmin (sums (greedy valueof keep k items)).
  Proof.
    intros Hk Hpos Hs. rewrite greedy_sums_vgreedy.
    apply lpt_min_exact_values; [exact Hk|apply sorted_values_sorted|apply sorted_values_nonneg; exact Hpos|].
    apply (Attainable_perm_local k (map valueof items)); [|exact Hs].
    symmetry. apply sorted_values_perm.
  Qed.

  (** Csirik, Kellerer, Woeginger 1992: LPTmin >= (3k-1)/(4k-2) * OPTmin for every number of bins *)
  Theorem lpt_min_exact k items v : (1 <= k)%nat ->
    Forall (fun x => 0 <= valueof x) items -> Opt MaxSmallest k (map valueof items) v ->
    (3 * Z.of_nat k - 1) * (- v) <= (4 * Z.of_nat k - 2) * zmin (sums (greedy valueof keep k items)).
  Proof.
    intros Hk Hpos [(s & Hs & Ev) _]. rewrite value_MaxSmallest in Ev. subst v.
    rewrite Z.opp_involutive. apply lpt_min_exact_attainable; auto.
  Qed.

  (** three bins: 8 * OPTmin <= 10 * LPTmin *)
  Corollary lpt_min_exact_k3 items v :
    Forall (fun x => 0 <= valueof x) items -> Opt MaxSmallest 3 (map valueof items) v ->
    4 * (- v) <= 5 * zmin (sums (greedy valueof keep 3 items)).
  Proof.
    intros Hpos Hopt. pose proof (lpt_min_exact 3 items v ltac:(lia) Hpos Hopt) as H.
    change (Z.of_nat 3) with 3 in H. lia.
  Qed.

  (** four bins: 11 * OPTmin <= 14 * LPTmin *)
  Corollary lpt_min_exact_k4 items v :
    Forall (fun x => 0 <= valueof x) items -> Opt MaxSmallest 4 (map valueof items) v ->
    11 * (- v) <= 14 * zmin (sums (greedy valueof keep 4 items)).
  Proof.
    intros Hpos Hopt. pose proof (lpt_min_exact 4 items v ltac:(lia) Hpos Hopt) as H.
    change (Z.of_nat 4) with 4 in H. lia.
  Qed.
End MinExact.

(** the statement left open in [Proofs/LPTMinProofs.v] *)
Theorem lpt_min_ratio_statement_holds : lpt_min_ratio_statement.
Proof. intros A valueof keep k items v Hk Hpos Hopt. apply lpt_min_exact; assumption. Qed.

(* ==== FOOTER ==== *)
Print Assumptions lpt_min_exact_values.
Print Assumptions lpt_min_exact.
Print Assumptions lpt_min_exact_k3.
Print Assumptions lpt_min_exact_k4.
Print Assumptions lpt_min_ratio_statement_holds.
